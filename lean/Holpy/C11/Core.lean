import Holpy.C11.Poly
/-
C11 — notions the property theorems are stated with (`Sat`, `Conservative`, `defValue`, `CoreOK`)
and the core lemmas about them.  The property theorems themselves are in Props.lean.
-/
namespace Holpy.C11
open Holpy

/-- the sequent holds in the structure (`M`, constants of `ρ`) for all values of the variables -/
def Sat (M : Model) (ρ : Valuation) (th : Thm) : Prop :=
  ∀ ρ2, Admissible M ρ2 → (∀ n S, ρ2 2 n S = ρ 2 n S) →
    (∀ h ∈ th.hyps, holds M ρ2 h) → holds M ρ2 th.prop

/-- the equation `prop` DEFINES `name :: T` conservatively: in every finite standard model, for
every interpretation of the old signature, the new constant has a value under which the equation
holds for all values of all (schematic) variables -/
def Conservative (name : String) (T : Ty) (prop : Term) : Prop :=
  ∀ M ρ, Admissible M ρ → ∃ c, c < M.size T ∧ Sat M (ρ.update 2 name T c) ⟨[], prop⟩

/-- the new constant is not one of the three logical constants at its logical type
(`add_term_sig`: "Constant equals already exists") -/
def freshName (name : String) (T : Ty) : Bool := (logicalKind name T).isNone

/-! ### the interpretation of the defined constant -/

/-- the value the definition gives the constant: the curried function
`v1 … vn ↦ ⟦rhs⟧[x1 := v1, …, xn := vn]` -/
def defValue (M : Model) (ρ : Valuation) (v : View) : Nat :=
  defCode M (v.args.map (·.2)) v.B (fun vs => sem M (argVal ρ v.args vs) [] [] v.rhs)

theorem viewOK_parts {name : String} {T : Ty} {v : View} (h : viewOK name T v = true) :
    T = arrows (v.args.map (·.2)) v.B ∧ distinct (v.args.map (·.1)) = true ∧ rhsVarsOK v = true ∧
    noSelfOcc name T v = true ∧ Term.checkedGetType [] v.rhs = .ok v.B := by
  simp only [viewOK, Bool.and_eq_true, beq_iff_eq] at h
  obtain ⟨⟨⟨⟨⟨⟨h1, h2⟩, h3⟩, _⟩, _⟩, h6⟩, h7⟩ := h
  refine ⟨h1, h2, h3, h6, ?_⟩
  unfold rhsTyped at h7
  split at h7
  · rename_i S hS
    rw [hS, beq_iff_eq.1 h7]
  · cases h7

/-- the part of `viewOK` the semantic argument uses (stable under type instantiation) -/
def CoreOK (name : String) (T : Ty) (v : View) : Prop :=
  T = arrows (v.args.map (·.2)) v.B ∧ rhsVarsOK v = true ∧ (2, name, T) ∉ atoms v.rhs ∧
    Term.checkedGetType [] v.rhs = .ok v.B

theorem coreOK_of_viewOK {name : String} {T : Ty} {v : View} (h : viewOK name T v = true) :
    CoreOK name T v := by
  obtain ⟨hT, _, hvars, hself, htyped⟩ := viewOK_parts h
  refine ⟨hT, hvars, ?_, htyped⟩
  intro hm
  have := List.all_eq_true.1 hself _ hm
  simp [apart_irrefl] at this

theorem lhs_typed (name : String) (T : Ty) (v : View) (hT : T = arrows (v.args.map (·.2)) v.B) :
    Term.checkedGetType [] (mkLhs name T v.args) = .ok v.B :=
  checked_applyArgs v.args v.B (.const name T) (by simp [Term.checkedGetType, hT])

theorem update_const_self (ρ : Valuation) (name : String) (T : Ty) (c : Nat) :
    (ρ.update 2 name T c) 2 name T = c := by
  simp [Valuation.update]

theorem update_const_other (ρ : Valuation) (name : String) (T : Ty) (c k : Nat) (n : String) (S : Ty)
    (h : ¬ (k = 2 ∧ n = name ∧ S = T)) : (ρ.update 2 name T c) k n S = ρ k n S := by
  simp only [Valuation.update]
  rw [if_neg h]

/-- core: if a valuation gives the new constant the value `defValue` and agrees with `ρ` on the
constants of the right-hand side, the equation holds under it -/
theorem defValue_holds (name : String) (T : Ty) (v : View) (hv : CoreOK name T v)
    (hfresh : freshName name T = true) (M : Model) (ρ : Valuation) (hρ : Admissible M ρ)
    (ρ2 : Valuation) (hρ2 : Admissible M ρ2) (hcval : ρ2 2 name T = defValue M ρ v)
    (hold : ∀ a ∈ atoms v.rhs, a.1 = 2 → ρ2 2 a.2.1 a.2.2 = ρ 2 a.2.1 a.2.2) :
    holds M ρ2 (mkProp name T v) := by
  obtain ⟨hT, hvars, _, htyped⟩ := hv
  have hF : ∀ vs, EnvOK M (v.args.map (·.2)) vs →
      sem M (argVal ρ v.args vs) [] [] v.rhs < M.size v.B :=
    fun vs hvs => sem_lt M _ (argVal_admissible hρ v.args vs hvs) [] [] (EnvOK.nil M) v.rhs v.B htyped
  have hl := lhs_typed name T v hT
  have hsl := sem_lt M ρ2 hρ2 [] [] (EnvOK.nil M) _ _ hl
  have hsr := sem_lt M ρ2 hρ2 [] [] (EnvOK.nil M) _ _ htyped
  show sem M ρ2 [] [] (mkProp name T v) = 1
  unfold mkProp
  rw [sem_equals M ρ2 [] [] v.B _ _ hsl hsr, if_pos]
  -- left-hand side
  have hfr : logicalKind name T = none := by
    unfold freshName at hfresh
    cases hk : logicalKind name T with
    | none => rfl
    | some p => rw [hk] at hfresh; cases hfresh
  have hhead : sem M ρ2 [] [] (.const name T) = defValue M ρ v := by
    simp only [sem, constVal, hfr, hcval]
  have hlhs : sem M ρ2 [] [] (mkLhs name T v.args)
      = sem M (argVal ρ v.args (v.args.map fun p => ρ2 1 p.1 p.2)) [] [] v.rhs := by
    unfold mkLhs
    rw [sem_applyArgs M ρ2 v.args v.B (.const name T) (by simp [Term.getType, hT]), hhead]
    exact appN_defCode M _ _ _ hF _ (envOK_map M ρ2 hρ2 v.args)
  rw [hlhs]
  -- right-hand side: only the argument variables and old constants occur
  apply sem_congr
  intro a ha
  have h1 := List.all_eq_true.1 hvars _ ha
  have h0 := hold a ha
  obtain ⟨k, n, S⟩ := a
  simp only [Bool.or_eq_true, Bool.and_eq_true, beq_iff_eq, List.contains_eq_mem, decide_eq_true_eq] at h1
  rcases h1 with hk | ⟨hk, hmem⟩
  · subst hk
    show argVal ρ v.args _ 2 n S = ρ2 2 n S
    rw [argVal_other _ _ _ _ _ _ (by decide), h0 rfl]
  · subst hk
    show argVal ρ v.args _ 1 n S = ρ2 1 n S
    exact argVal_mem ρ ρ2 v.args n S hmem

theorem defValue_lt (name : String) (T : Ty) (v : View) (hv : CoreOK name T v)
    (M : Model) (ρ : Valuation) (hρ : Admissible M ρ) : defValue M ρ v < M.size T := by
  obtain ⟨hT, _, _, htyped⟩ := hv
  rw [hT]
  exact defCode_lt M _ _ _ (fun vs hvs =>
    sem_lt M _ (argVal_admissible hρ v.args vs hvs) [] [] (EnvOK.nil M) v.rhs v.B htyped)

/-- with the constant interpreted by `defValue`, the equation holds for all variables -/
theorem defValue_sat (name : String) (T : Ty) (v : View) (hv : CoreOK name T v)
    (hfresh : freshName name T = true) (M : Model) (ρ : Valuation) (hρ : Admissible M ρ) :
    defValue M ρ v < M.size T ∧
      Sat M (ρ.update 2 name T (defValue M ρ v)) ⟨[], mkProp name T v⟩ := by
  refine ⟨defValue_lt name T v hv M ρ hρ, ?_⟩
  intro ρ2 hρ2 hagree _
  apply defValue_holds name T v hv hfresh M ρ hρ ρ2 hρ2
  · rw [hagree, update_const_self]
  · intro a ha hk
    rw [hagree, update_const_other]
    rintro ⟨_, hn, hS⟩
    apply hv.2.2.1
    obtain ⟨k, n, S⟩ := a
    cases hk
    cases hn
    cases hS
    exact ha

/-- sequents that do not mention the new constant do not notice its value -/
theorem Sat_update_of_not_occurs (M : Model) (ρ : Valuation) (hρ : Admissible M ρ) (name : String)
    (T : Ty) (c : Nat) (th : Thm) (hno : ∀ t ∈ th.hyps ++ [th.prop], (2, name, T) ∉ atoms t)
    (h : Sat M ρ th) : Sat M (ρ.update 2 name T c) th := by
  intro ρ2 hρ2 hagree hhyps
  -- put the old value of the constant back
  have hρ3 : Admissible M (ρ2.update 2 name T (ρ 2 name T)) :=
    hρ2.update 2 name T _ (hρ 2 name T)
  have hsame : ∀ t ∈ th.hyps ++ [th.prop],
      sem M (ρ2.update 2 name T (ρ 2 name T)) [] [] t = sem M ρ2 [] [] t := by
    intro t ht
    apply sem_congr
    intro a ha
    obtain ⟨k, n, S⟩ := a
    apply update_const_other
    rintro ⟨rfl, rfl, rfl⟩
    exact hno t ht ha
  have hagree3 : ∀ n S, (ρ2.update 2 name T (ρ 2 name T)) 2 n S = ρ 2 n S := by
    intro n S
    by_cases hk : n = name ∧ S = T
    · obtain ⟨rfl, rfl⟩ := hk
      exact update_const_self _ _ _ _
    · have hk' : ¬ (2 = 2 ∧ n = name ∧ S = T) := fun h => hk ⟨h.2.1, h.2.2⟩
      rw [update_const_other _ _ _ _ _ _ _ hk', hagree, update_const_other _ _ _ _ _ _ _ hk']
  have := h _ hρ3 hagree3 (fun hh hm => by
    show sem M _ [] [] hh = 1
    rw [hsame hh (by simp [hm])]
    exact hhyps hh hm)
  show sem M ρ2 [] [] th.prop = 1
  rw [← hsame th.prop (by simp)]
  exact this

/-- a sequent does not notice the values of constants that do not occur in it -/
theorem Sat_congr (M : Model) (ρ ρ' : Valuation) (hρ : Admissible M ρ) (th : Thm)
    (hag : ∀ t ∈ th.hyps ++ [th.prop], ∀ a ∈ atoms t, a.1 = 2 → ρ' 2 a.2.1 a.2.2 = ρ 2 a.2.1 a.2.2)
    (h : Sat M ρ th) : Sat M ρ' th := by
  intro ρ2 hρ2 hagree hhyps
  -- the variables of ρ2 with the constants of ρ
  let ρ3 : Valuation := fun k n S => if k = 2 then ρ 2 n S else ρ2 k n S
  have hρ3 : Admissible M ρ3 := by
    intro k n S
    show (if k = 2 then ρ 2 n S else ρ2 k n S) < _
    split
    · exact hρ 2 n S
    · exact hρ2 k n S
  have hagree3 : ∀ n S, ρ3 2 n S = ρ 2 n S := fun n S => by simp [ρ3]
  have hsame : ∀ t ∈ th.hyps ++ [th.prop], sem M ρ3 [] [] t = sem M ρ2 [] [] t := by
    intro t ht
    apply sem_congr
    intro a ha
    obtain ⟨k, n, S⟩ := a
    show (if k = 2 then ρ 2 n S else ρ2 k n S) = ρ2 k n S
    split
    · rename_i hk
      subst hk
      rw [hagree, hag t ht _ ha rfl]
    · rfl
  have := h ρ3 hρ3 hagree3 (fun hh hm => by
    show sem M ρ3 [] [] hh = 1
    rw [hsame hh (by simp [hm])]
    exact hhyps hh hm)
  show sem M ρ2 [] [] th.prop = 1
  rw [← hsame th.prop (by simp)]
  exact this


theorem freshName_of_nonLogical (name : String) (h : nonLogicalName name = true) (T : Ty) :
    freshName name T = true := by
  simp only [nonLogicalName, Bool.and_eq_true, bne_iff_ne, ne_eq] at h
  unfold freshName logicalKind
  split <;> simp_all

theorem coreOK_inst (σ : String → Ty) {name : String} {T : Ty} {v : View} (h : CoreOK name T v)
    (hself : noSelfOcc name T v = true) : CoreOK name (instTy σ T) (instView σ v) := by
  obtain ⟨hT, hvars, _, htyped⟩ := h
  refine ⟨?_, ?_, ?_, ?_⟩
  · rw [hT, instTy_arrows]
    simp [instView, List.map_map, Function.comp_def]
  · unfold rhsVarsOK at hvars ⊢
    simp only [instView, atoms_inst, List.all_map]
    apply List.all_eq_true.2
    intro a ha
    have := List.all_eq_true.1 hvars a ha
    simp only [Bool.or_eq_true, Bool.and_eq_true, beq_iff_eq, List.contains_eq_mem,
      decide_eq_true_eq, Function.comp_apply] at this ⊢
    rcases this with h2 | ⟨h1, hm⟩
    · exact Or.inl h2
    · exact Or.inr ⟨h1, List.mem_map.2 ⟨(a.2.1, a.2.2), hm, rfl⟩⟩
  · simp only [instView, atoms_inst, List.mem_map, not_exists, not_and]
    intro a ha heq
    obtain ⟨k, n, S⟩ := a
    simp only [Prod.mk.injEq] at heq
    obtain ⟨rfl, rfl, hS⟩ := heq
    have := List.all_eq_true.1 hself _ ha
    simp only [beq_self_eq_true, Bool.and_self, Bool.not_true, Bool.false_or] at this
    exact apart_inst σ σ S T this hS
  · have := checkedGetType_inst σ [] v.rhs v.B htyped
    simpa [instView] using this

def eqAt (T : Ty) (a b : Term) : Term := .comb (.comb (.const "equals" (Ty.fn T (Ty.fn T Ty.bool))) a) b

/-- the constant definition `c = t` (no arguments) -/
def constDef (name : String) (T : Ty) (rhs : Term) : Term := eqAt T (.const name T) rhs

theorem view?_constDef (name : String) (T : Ty) (rhs : Term) :
    view? name T (constDef name T rhs) = some ⟨[], T, rhs⟩ := by
  simp [view?, constDef, eqAt, stripComb, varArgs?, Ty.domain?_fn]

/-- every type variable has one element -/
def oneModel : Model := ⟨fun _ => 0, fun _ => 0, fun _ _ => 0⟩
def ρ0 : Valuation := fun _ _ _ => 0
theorem ρ0_adm : Admissible oneModel ρ0 := fun _ _ T => Model.size_pos _ T

theorem sat_nil_iff (M : Model) (ρ : Valuation) (p : Term) :
    Sat M ρ ⟨[], p⟩ ↔ ∀ ρ2, Admissible M ρ2 → (∀ n S, ρ2 2 n S = ρ 2 n S) → sem M ρ2 [] [] p = 1 :=
  ⟨fun h ρ2 h1 h2 => h ρ2 h1 h2 (fun _ hm => by cases hm), fun h ρ2 h1 h2 _ => h ρ2 h1 h2⟩


end Holpy.C11
