import Holpy.Kernel.Type
import Holpy.Kernel.Term
import Holpy.Kernel.Sem
/-
C11 — model of `Definition.parse` / `Definition.get_extension` (`server/items.py`) after the fixes
C11-1 (side conditions) and of `Type.is_apart` (`kernel/type.py`).  Import-free.

The parser hands `Definition.parse` a type `T` and a term `prop`; what is modelled is everything
`parse` checks on them:

  prop.is_equals()                        `prop = equals_E lhs rhs`
  f, args = lhs.strip_comb(); f == Const(name, T)
  all(v.is_var() for v in args)           the arguments are variables …
  len(set(names)) == len(args)            … with distinct names
  names(rhs.get_vars()) ⊆ names(args)     (implied by the next one)
  set(rhs.get_vars()) ⊆ set(args)         free variables of the rhs, as typed variables
  no SVar in prop, no STVar in a type of prop or in T
  tvars(types of rhs) ⊆ tvars(T)
  every Const(name, S) in rhs has S.is_apart(T)

plus what the parser's type inference guarantees about its output (`prop` type-checks as a
boolean, the equality is used at `B ⇒ B ⇒ bool`, `T = A1 ⇒ … ⇒ An ⇒ B`), which is part of `defOK`
because the theorems need it and the Python would otherwise have failed earlier (in the parser).
-/
namespace Holpy.C11
open Holpy

mutual
/-- `Type.is_apart`: the types differ in a type constructor at some position. -/
def apart : Ty → Ty → Bool
  | .con n as, .con m bs => n != m || as.length != bs.length || apartList as bs
  | _, _ => false
def apartList : List Ty → List Ty → Bool
  | a :: as, b :: bs => apart a b || apartList as bs
  | _, _ => false
end

/-- `term_types`: types of the variables, constants and abstractions of a term -/
def termTypes : Term → List Ty
  | .svar _ T | .var _ T | .const _ T => [T]
  | .comb f a => termTypes f ++ termTypes a
  | .abs _ T b => T :: termTypes b
  | .bound _ => []

/-- schematic variables (0), variables (1) and constants (2) occurring in a term
(`get_svars` / `get_vars` / `get_consts`) -/
def atoms : Term → List (Nat × String × Ty)
  | .svar n T => [(0, n, T)]
  | .var n T => [(1, n, T)]
  | .const n T => [(2, n, T)]
  | .comb f a => atoms f ++ atoms a
  | .abs _ _ b => atoms b
  | .bound _ => []

/-- `strip_comb` -/
def stripComb : Term → Term × List Term
  | .comb f a => ((stripComb f).1, (stripComb f).2 ++ [a])
  | t => (t, [])

def applyArgs (h : Term) : List Term → Term
  | [] => h
  | a :: as => applyArgs (.comb h a) as

/-- `all(v.is_var() for v in args)`, returning the (name, type) pairs -/
def varArgs? : List Term → Option (List (String × Ty))
  | [] => some []
  | .var x A :: rest =>
    match varArgs? rest with
    | some r => some ((x, A) :: r)
    | none => none
  | _ => none

def arrows : List Ty → Ty → Ty
  | [], B => B
  | A :: As, B => Ty.fn A (arrows As B)

def distinct : List String → Bool
  | [] => true
  | x :: xs => !xs.contains x && distinct xs

/-- a definition `c x1 … xn = rhs` taken apart -/
structure View where
  args : List (String × Ty)
  B : Ty
  rhs : Term
  deriving Repr

def varTerms (args : List (String × Ty)) : List Term := args.map fun p => .var p.1 p.2

def mkLhs (name : String) (T : Ty) (args : List (String × Ty)) : Term :=
  applyArgs (.const name T) (varTerms args)

def mkProp (name : String) (T : Ty) (v : View) : Term :=
  .comb (.comb (.const "equals" (Ty.fn v.B (Ty.fn v.B Ty.bool))) (mkLhs name T v.args)) v.rhs

/-- the shape checks: equality, head, arguments are variables -/
def view? (name : String) (T : Ty) : Term → Option View
  | .comb (.comb (.const n E) lhs) rhs =>
    if n = "equals" then
      if (stripComb lhs).1 = .const name T then
        match varArgs? (stripComb lhs).2, E.domain? with
        | some args, some B => if E = Ty.fn B (Ty.fn B Ty.bool) then some ⟨args, B, rhs⟩ else none
        | _, _ => none
      else none
    else none
  | _ => none

def rhsVarsOK (v : View) : Bool :=
  (atoms v.rhs).all fun a => a.1 == 2 || (a.1 == 1 && v.args.contains (a.2.1, a.2.2))

def noSchematicTypes (name : String) (T : Ty) (v : View) : Bool :=
  (termTypes (mkProp name T v) ++ [T]).all fun S => S.stvars.isEmpty

def rhsTvarsOK (T : Ty) (v : View) : Bool :=
  (termTypes v.rhs).all fun S => S.tvars.all fun x => T.tvars.contains x

def noSelfOcc (name : String) (T : Ty) (v : View) : Bool :=
  (atoms v.rhs).all fun a => !(a.1 == 2 && a.2.1 == name) || apart a.2.2 T

def rhsTyped (v : View) : Bool :=
  match Term.checkedGetType [] v.rhs with
  | .ok S => S == v.B
  | .error _ => false

def viewOK (name : String) (T : Ty) (v : View) : Bool :=
  (T == arrows (v.args.map (·.2)) v.B)
  && distinct (v.args.map (·.1))
  && rhsVarsOK v
  && noSchematicTypes name T v
  && rhsTvarsOK T v
  && noSelfOcc name T v
  && rhsTyped v

/-- `Definition.parse` sets no error -/
def defOK (name : String) (T : Ty) (prop : Term) : Bool :=
  match view? name T prop with
  | some v => viewOK name T v
  | none => false

/-- the first check of `Definition.parse` that fails, in the order of the Python (diagnostic for
the correspondence run; `"ok"` iff `defOK`) -/
def defReason (name : String) (T : Ty) (prop : Term) : String :=
  match prop with
  | .comb (.comb (.const n _) lhs) _ =>
    if n = "equals" then
      if (stripComb lhs).1 = .const name T then
        match varArgs? (stripComb lhs).2 with
        | none => "args-not-variables"
        | some _ =>
          match view? name T prop with
          | none => "ill-typed"
          | some v =>
            if !distinct (v.args.map (·.1)) then "args-not-distinct"
            else if !((atoms v.rhs).all fun a => a.1 != 1 || (v.args.map (·.1)).contains a.2.1) then "extra-variables"
            else if !((atoms v.rhs).all fun a => a.1 != 1 || v.args.contains (a.2.1, a.2.2)) then "variables-differ-in-type"
            else if !rhsVarsOK v || !noSchematicTypes name T v then "schematic"
            else if !rhsTvarsOK T v then "extra-type-variables"
            else if !noSelfOcc name T v then "constant-occurs"
            else if !(T == arrows (v.args.map (·.2)) v.B) || !rhsTyped v then "ill-typed"
            else "ok"
      else "wrong-head"
    else "not-equality"
  | _ => "not-equality"

/-- theory extensions (`kernel/extension.py`), as far as `def` generates them -/
inductive Ext where
  | constant (name : String) (T : Ty) (refName : String)
  | theorem (name : String) (th : Thm)
  | attribute (name : String) (attr : String)
  deriving Repr

/-- `Definition.get_extension()`; `cname` is `get_overload_const_name(name, T)` -/
def getExtension (name cname : String) (T : Ty) (prop : Term) (attrs : List String) : List Ext :=
  [Ext.constant name T cname, Ext.theorem (cname ++ "_def") ⟨[], prop⟩]
    ++ attrs.map (fun a => Ext.attribute (cname ++ "_def") a)

/-! ### sequences of `def` items (used by Props2.lean and by the driver) -/

/-- the name of the new constant is none of `equals`, `implies`, `all` -/
def nonLogicalName (name : String) : Bool := name != "equals" && name != "implies" && name != "all"

/-- a `def` item as the checker sees it: constant, type, statement; `thname` is `<cname>_def` -/
structure DefItem where
  name : String
  T : Ty
  prop : Term
  thname : String

/-- names of the constants of a term -/
def constNames : Term → List String
  | .const n _ => [n]
  | .comb f a => constNames f ++ constNames a
  | .abs _ _ b => constNames b
  | _ => []

/-- items in REVERSE order of declaration (newest first): each is accepted by `Definition.parse`
and its constant is new — it occurs in none of the earlier statements -/
def acceptedRev : List DefItem → Bool
  | [] => true
  | d :: earlier => defOK d.name d.T d.prop && nonLogicalName d.name
      && earlier.all (fun e => !(constNames e.prop).contains d.name) && acceptedRev earlier

/-- the items, in order of declaration, are each accepted in the theory extended by the previous ones -/
def accepted (items : List DefItem) : Bool := acceptedRev items.reverse


end Holpy.C11
