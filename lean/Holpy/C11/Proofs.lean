import Holpy.C11.Model
import Holpy.Kernel.SemVar
/-
C11 — helper lemmas: the value of a term depends only on the atoms occurring in it; n-ary
application of a curried function code; the interpretation `defCode` of a defined constant.
-/
namespace Holpy.C11
open Holpy

/-! ### `sem` depends only on the atoms that occur -/

theorem sem_congr (M : Model) (ρ1 ρ2 : Valuation) (t : Term)
    (h : ∀ a ∈ atoms t, ρ1 a.1 a.2.1 a.2.2 = ρ2 a.1 a.2.1 a.2.2) (bd : List Ty) (env : List Nat) :
    sem M ρ1 bd env t = sem M ρ2 bd env t := by
  induction t generalizing bd env with
  | svar n T => simpa [sem, atoms] using h (0, n, T) (by simp [atoms])
  | var n T => simpa [sem, atoms] using h (1, n, T) (by simp [atoms])
  | const n T =>
    have := h (2, n, T) (by simp [atoms])
    simp only [sem, constVal]
    split <;> first | rfl | exact this
  | comb f a ihf iha =>
    have hf := ihf (fun x hx => h x (by simp [atoms, hx])) bd env
    have ha := iha (fun x hx => h x (by simp [atoms, hx])) bd env
    simp only [sem, hf, ha]
  | abs x T b ih =>
    simp only [sem]
    split
    · congr 1
      funext v
      exact ih (fun x hx => h x (by simpa [atoms] using hx)) (T :: bd) (v :: env)
    · rfl
  | bound i => simp [sem]

/-! ### `strip_comb` and its inverse -/

theorem applyArgs_append (h : Term) (as bs : List Term) :
    applyArgs h (as ++ bs) = applyArgs (applyArgs h as) bs := by
  induction as generalizing h with
  | nil => rfl
  | cons a as ih => simp [applyArgs, ih]

theorem stripComb_spec (t : Term) : applyArgs (stripComb t).1 (stripComb t).2 = t := by
  induction t with
  | comb f a ihf _ => simp [stripComb, applyArgs_append, ihf, applyArgs]
  | _ => rfl

theorem varArgs?_spec (l : List Term) (args : List (String × Ty)) (h : varArgs? l = some args) :
    l = varTerms args := by
  induction l generalizing args with
  | nil => simp [varArgs?] at h; subst h; rfl
  | cons t rest ih =>
    cases t with
    | var x A =>
      simp only [varArgs?] at h
      cases hr : varArgs? rest with
      | none => rw [hr] at h; cases h
      | some r =>
        rw [hr] at h
        cases h
        simp [varTerms, ih r hr]
    | _ => simp [varArgs?] at h

theorem view?_spec (name : String) (T : Ty) (prop : Term) (v : View) (h : view? name T prop = some v) :
    prop = mkProp name T v := by
  unfold view? at h
  split at h
  · rename_i n E lhs rhs
    split at h
    · rename_i hn
      split at h
      · rename_i hh
        split at h
        · rename_i args B ha hB
          split at h
          · rename_i hE
            cases h
            subst hn
            have hl : lhs = applyArgs (.const name T) (varTerms args) := by
              rw [← hh, ← varArgs?_spec _ _ ha]
              exact (stripComb_spec lhs).symm
            simp only [mkProp, mkLhs, ← hl, ← hE]
          · cases h
        · cases h
      · cases h
    · cases h
  · cases h

/-! ### curried types, n-ary application -/

theorem size_arrows_cons (M : Model) (A : Ty) (As : List Ty) (B : Ty) :
    M.size (arrows (A :: As) B) = M.size (arrows As B) ^ M.size A := by
  simp only [arrows, Model.size_fn]

/-- iterated `appCode` -/
def appN (M : Model) (c : Nat) : List Ty → Ty → List Nat → Nat
  | _ :: As, B, v :: vs => appN M (appCode c v (M.size (arrows As B))) As B vs
  | _, _, _ => c

/-- the code of the curried function `vs ↦ F vs` of type `arrows As B` -/
def defCode (M : Model) : List Ty → Ty → (List Nat → Nat) → Nat
  | [], _, F => F []
  | A :: As, B, F =>
    lamCode (fun v => defCode M As B (fun vs => F (v :: vs))) (M.size A) (M.size (arrows As B))

theorem defCode_lt (M : Model) (As : List Ty) (B : Ty) (F : List Nat → Nat)
    (hF : ∀ vs, EnvOK M As vs → F vs < M.size B) : defCode M As B F < M.size (arrows As B) := by
  induction As generalizing F with
  | nil => exact hF [] (EnvOK.nil M)
  | cons _ As ih =>
    rw [size_arrows_cons]
    apply lamCode_lt
    intro v hv
    exact ih _ (fun vs hvs => hF (v :: vs) (hvs.cons hv))

theorem appN_defCode (M : Model) (As : List Ty) (B : Ty) (F : List Nat → Nat)
    (hF : ∀ vs, EnvOK M As vs → F vs < M.size B) (vs : List Nat) (hvs : EnvOK M As vs) :
    appN M (defCode M As B F) As B vs = F vs := by
  induction As generalizing F vs with
  | nil =>
    cases hvs
    rfl
  | cons A As ih =>
    cases hvs with
    | cons hv hrest =>
      rename_i v vs'
      simp only [appN, defCode]
      rw [appCode_lamCode _ _ _ v hv
        (fun u hu => defCode_lt M As B _ (fun ws hws => hF (u :: ws) (hws.cons hu)))]
      exact ih _ (fun ws hws => hF (v :: ws) (hws.cons hv)) vs' hrest

theorem getType_applyArgs_step (h : Term) (x : String) (A R : Ty)
    (hh : Term.getType [] h = .ok (Ty.fn A R)) :
    Term.getType [] (.comb h (.var x A)) = .ok R := by
  simp [Term.getType, hh, bind, Except.bind, Ty.isFun_fn, Ty.range?_fn]

theorem sem_applyArgs (M : Model) (ρ : Valuation) (xs : List (String × Ty)) (B : Ty) (h : Term)
    (hh : Term.getType [] h = .ok (arrows (xs.map (·.2)) B)) :
    sem M ρ [] [] (applyArgs h (varTerms xs))
      = appN M (sem M ρ [] [] h) (xs.map (·.2)) B (xs.map fun p => ρ 1 p.1 p.2) := by
  induction xs generalizing h with
  | nil => rfl
  | cons p rest ih =>
    obtain ⟨x, A⟩ := p
    simp only [varTerms, List.map, applyArgs, appN]
    have hh' : Term.getType [] h = .ok (Ty.fn A (arrows (rest.map (·.2)) B)) := hh
    have := ih (.comb h (.var x A)) (getType_applyArgs_step h x A _ hh')
    simp only [varTerms] at this
    rw [this]
    congr 1
    simp only [sem, hh', Ty.range?_fn]

theorem checked_applyArgs (xs : List (String × Ty)) (B : Ty) (h : Term)
    (hh : Term.checkedGetType [] h = .ok (arrows (xs.map (·.2)) B)) :
    Term.checkedGetType [] (applyArgs h (varTerms xs)) = .ok B := by
  induction xs generalizing h with
  | nil => exact hh
  | cons p rest ih =>
    obtain ⟨x, A⟩ := p
    simp only [varTerms, List.map, applyArgs]
    have hh' : Term.checkedGetType [] h = .ok (Ty.fn A (arrows (rest.map (·.2)) B)) := hh
    apply ih
    simp [Term.checkedGetType, hh', bind, Except.bind, Ty.isFun_fn, Ty.domain?_fn, Ty.range?_fn]

/-! ### the valuation that gives the argument variables given values -/

def argVal (ρ : Valuation) : List (String × Ty) → List Nat → Valuation
  | (x, A) :: rest, v :: vs => (argVal ρ rest vs).update 1 x A v
  | _, _ => ρ

theorem argVal_admissible {M : Model} {ρ : Valuation} (hρ : Admissible M ρ) (xs : List (String × Ty))
    (vs : List Nat) (h : EnvOK M (xs.map (·.2)) vs) : Admissible M (argVal ρ xs vs) := by
  induction xs generalizing vs with
  | nil => cases vs <;> exact hρ
  | cons p rest ih =>
    obtain ⟨x, A⟩ := p
    cases h with
    | cons hv hrest => exact (ih _ hrest).update 1 x A _ hv

theorem argVal_other (ρ : Valuation) (xs : List (String × Ty)) (vs : List Nat) (k : Nat) (n : String)
    (S : Ty) (hk : k ≠ 1) : argVal ρ xs vs k n S = ρ k n S := by
  induction xs generalizing vs with
  | nil => cases vs <;> rfl
  | cons p rest ih =>
    obtain ⟨x, A⟩ := p
    cases vs with
    | nil => rfl
    | cons v vs =>
      simp only [argVal, Valuation.update]
      rw [if_neg (fun h => hk h.1)]
      exact ih vs

theorem argVal_mem (ρ ρ2 : Valuation) (xs : List (String × Ty)) (x : String) (A : Ty)
    (hm : (x, A) ∈ xs) : argVal ρ xs (xs.map fun p => ρ2 1 p.1 p.2) 1 x A = ρ2 1 x A := by
  induction xs with
  | nil => cases hm
  | cons p rest ih =>
    obtain ⟨y, C⟩ := p
    simp only [List.map, argVal, Valuation.update]
    by_cases hxy : x = y ∧ A = C
    · obtain ⟨rfl, rfl⟩ := hxy
      simp
    · rw [if_neg (fun h => hxy ⟨h.2.1, h.2.2⟩)]
      apply ih
      rcases List.mem_cons.1 hm with h | h
      · cases h
        exact absurd ⟨rfl, rfl⟩ hxy
      · exact h

theorem envOK_map (M : Model) (ρ2 : Valuation) (hρ2 : Admissible M ρ2) (xs : List (String × Ty)) :
    EnvOK M (xs.map (·.2)) (xs.map fun p => ρ2 1 p.1 p.2) := by
  induction xs with
  | nil => exact EnvOK.nil M
  | cons p rest ih => exact ih.cons (hρ2 1 p.1 p.2)

/-! ### `is_apart` -/

theorem apart_irrefl (T : Ty) : apart T T = false := by
  induction T using Ty.ind with
  | hs n => simp [apart]
  | ht n => simp [apart]
  | hc n args ih =>
    have hl : apartList args args = false := by
      induction args with
      | nil => simp [apartList]
      | cons a as iha =>
        simp only [apartList, Bool.or_eq_false_iff]
        exact ⟨ih a (by simp), iha (fun b hb => ih b (by simp [hb]))⟩
    simp [apart, hl]

end Holpy.C11
