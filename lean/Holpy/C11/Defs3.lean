import Holpy.C11.Defs2
/-
C11 — the type instances of an accepted definition (coherence, no cross occurrence), naturality of
`defValue` along a sequence of pulls, and `DefsHold` for one accepted definition.
-/
namespace Holpy.C11
open Holpy

/-! ### facts about the instances of an accepted definition -/

theorem stvars_arrows_nil (As : List Ty) (B : Ty) (h : (arrows As B).stvars = []) :
    (∀ A ∈ As, A.stvars = []) ∧ B.stvars = [] := by
  induction As with
  | nil => exact ⟨fun A hA => (nomatch hA), h⟩
  | cons A As ih =>
    simp only [arrows, Ty.fn, Ty.stvars, Ty.stvarsList, List.append_nil, List.append_eq_nil_iff] at h
    obtain ⟨h1, h2⟩ := ih h.2
    refine ⟨fun X hX => ?_, h2⟩
    rcases List.mem_cons.1 hX with rfl | hX
    · exact h.1
    · exact h1 X hX

theorem viewOK_noSchematic {name : String} {T : Ty} {v : View} (h : viewOK name T v = true) :
    noSchematicTypes name T v = true ∧ rhsTvarsOK T v = true := by
  simp only [viewOK, Bool.and_eq_true] at h
  exact ⟨h.1.1.1.2, h.1.1.2⟩

theorem stvFree_of_viewOK {name : String} {T : Ty} {v : View} (h : viewOK name T v = true) :
    StvFree v ∧ T.stvars = [] := by
  obtain ⟨hT, _, _, _, _⟩ := viewOK_parts h
  have hns := (viewOK_noSchematic h).1
  unfold noSchematicTypes at hns
  have hall := List.all_eq_true.1 hns
  have hTf : T.stvars = [] := by simpa using hall T (by simp)
  have hAB := stvars_arrows_nil _ _ (hT ▸ hTf)
  refine ⟨⟨fun p hp => hAB.1 p.2 (List.mem_map.2 ⟨p, hp, rfl⟩), hAB.2, fun S hS => ?_⟩, hTf⟩
  have : S ∈ termTypes (mkProp name T v) ++ [T] := by
    simp [mkProp, termTypes, hS]
  simpa using hall S this

/-- the instance is determined by the instance of the constant's type (condition 3) -/
theorem inst_coherent {name : String} {T : Ty} {v : View} (h : viewOK name T v = true)
    (σ σ' : String → Ty) (heq : instTy σ T = instTy σ' T) : instView σ v = instView σ' v := by
  obtain ⟨hT, _, _, _, _⟩ := viewOK_parts h
  have htv := (viewOK_noSchematic h).2
  have hag := agree_of_instTy_eq σ σ' T heq
  have hagA : ∀ A ∈ v.args.map (·.2), ∀ x ∈ A.tvars, σ x = σ' x := by
    intro A hA x hx
    exact hag x (by rw [hT]; exact (tvars_arrows _ _ x).2 (Or.inl ⟨A, hA, hx⟩))
  have hagB : ∀ x ∈ v.B.tvars, σ x = σ' x := by
    intro x hx
    exact hag x (by rw [hT]; exact (tvars_arrows _ _ x).2 (Or.inr hx))
  have hagR : ∀ S ∈ termTypes v.rhs, ∀ x ∈ S.tvars, σ x = σ' x := by
    intro S hS x hx
    have h1 := List.all_eq_true.1 htv S hS
    have h2 := List.all_eq_true.1 h1 x hx
    exact hag x (by simpa using h2)
  simp only [instView, View.mk.injEq]
  refine ⟨?_, instTy_congr σ σ' v.B hagB, instTerm_congr σ σ' v.rhs hagR⟩
  apply List.map_congr_left
  intro p hp
  rw [instTy_congr σ σ' p.2 (hagA p.2 (List.mem_map.2 ⟨p, hp, rfl⟩))]

/-- no instance of the right-hand side mentions an instance of the constant (condition 4) -/
theorem inst_cross {name : String} {T : Ty} {v : View} (h : viewOK name T v = true)
    (σ τ : String → Ty) : (2, name, instTy τ T) ∉ atoms (instView σ v).rhs := by
  obtain ⟨_, _, _, hself, _⟩ := viewOK_parts h
  intro hm
  simp only [instView, atoms_inst, List.mem_map] at hm
  obtain ⟨a, ha, heq⟩ := hm
  obtain ⟨k, n, S⟩ := a
  simp only [Prod.mk.injEq] at heq
  obtain ⟨rfl, rfl, hS⟩ := heq
  have := List.all_eq_true.1 hself _ ha
  simp only [beq_self_eq_true, Bool.and_self, Bool.not_true, Bool.false_or] at this
  exact apart_inst σ τ S T this hS

theorem inst_core {name : String} {T : Ty} {v : View} (h : viewOK name T v = true) (σ : String → Ty) :
    CoreOK name (instTy σ T) (instView σ v) :=
  coreOK_inst σ (coreOK_of_viewOK h) (viewOK_parts h).2.2.2.1

theorem inst_distinct {name : String} {T : Ty} {v : View} (h : viewOK name T v = true) (σ : String → Ty) :
    distinct ((instView σ v).args.map (·.1)) = true := by
  have := (viewOK_parts h).2.1
  simpa [instView, List.map_map, Function.comp_def] using this

/-! ### a sequence of pulls -/

/-- the composed instantiation of a sequence of pulls, starting from `'a ↦ ?'a` -/
def tauOf : List Ty.TyInst → String → Ty
  | [] => stv
  | σ :: σs => compTy (tauOf σs) σ

def substs : List Ty.TyInst → Ty → Ty
  | [], X => X
  | σ :: σs, X => (substs σs X).subst σ

theorem substs_instTy (X : Ty) (hX : X.stvars = []) : ∀ σs, substs σs (instTy stv X) = instTy (tauOf σs) X
  | [] => rfl
  | σ :: σs => by
    simp only [substs, tauOf]
    rw [substs_instTy X hX σs, subst_instTy _ σ X hX]

theorem constVal_pulls (n : String) : ∀ (σs : List Ty.TyInst) (M : Model) (ρ : Valuation) (S : Ty),
    constVal (pullsM M σs) (pullsV M ρ σs) n S = constVal M ρ n (substs σs S)
  | [], _, _, _ => rfl
  | σ :: σs, M, ρ, S => by
    simp only [pullsM, pullsV, substs]
    rw [constVal_pulls n σs (M.pull σ) (ρ.pull M σ) S, ← constVal_pull]

theorem defValue_natural {name : String} {T : Ty} {v : View} (h : viewOK name T v = true)
    (M : Model) (ρ : Valuation) (τ : String → Ty) (σ : Ty.TyInst) :
    defValue M ρ (instView (compTy τ σ) v) = defValue (M.pull σ) (ρ.pull M σ) (instView τ v) := by
  rw [← substView_instView τ σ v (stvFree_of_viewOK h).1]
  exact defValue_pull M ρ σ (instView τ v) (inst_distinct h τ) (inst_core h τ).2.1 (inst_core h τ).2.2.2

theorem defValue_pulls {name : String} {T : Ty} {v : View} (h : viewOK name T v = true) :
    ∀ (σs : List Ty.TyInst) (M : Model) (ρ : Valuation),
    defValue M ρ (instView (tauOf σs) v) = defValue (pullsM M σs) (pullsV M ρ σs) (instView stv v)
  | [], _, _ => rfl
  | σ :: σs, M, ρ => by
    simp only [tauOf, pullsM, pullsV]
    rw [defValue_natural h M ρ (tauOf σs) σ]
    exact defValue_pulls h σs (M.pull σ) (ρ.pull M σ)

theorem logicalKind_none_of_nonLogical (name : String) (h : nonLogicalName name = true) (T : Ty) :
    logicalKind name T = none := by
  have := freshName_of_nonLogical name h T
  unfold freshName at this
  cases hk : logicalKind name T with
  | none => rfl
  | some p => rw [hk] at this; cases this

theorem constVal_of_nonLogical (M : Model) (ρ : Valuation) (name : String)
    (h : nonLogicalName name = true) (T : Ty) : constVal M ρ name T = ρ 2 name T := by
  simp only [constVal, logicalKind_none_of_nonLogical name h T]

/-! ### one accepted definition -/

/-- the valuation that interprets `name` by `defValue` at every type instance of `T` -/
noncomputable def polyVal (name : String) (T : Ty) (v : View) (M : Model) (ρ : Valuation) : Valuation :=
  famVal name (fun τ : String → Ty => instTy τ T) (fun τ => instView τ v) M ρ

theorem polyVal_admissible {name : String} {T : Ty} {v : View} (h : viewOK name T v = true)
    (M : Model) (ρ : Valuation) (hρ : Admissible M ρ) : Admissible M (polyVal name T v M ρ) :=
  famVal_admissible name _ _ (fun τ => inst_core h τ) (fun σ σ' => inst_coherent h σ σ') M ρ hρ

theorem polyVal_other (name : String) (T : Ty) (v : View) (M : Model) (ρ : Valuation) (k : Nat)
    (n : String) (S : Ty) (hne : ¬ (k = 2 ∧ n = name)) : polyVal name T v M ρ k n S = ρ k n S :=
  famVal_neg name _ _ M ρ k n S (fun hh => hne ⟨hh.1, hh.2.1⟩)

/-- the stored (schematic) equation of an accepted definition holds under `polyVal` in `M` and in
every model reached by type instantiation, for all values of the variables -/
theorem polyVal_defsHold {name : String} {T : Ty} {v : View} (h : viewOK name T v = true)
    (hname : nonLogicalName name = true) (thname : String) (M : Model) (ρ : Valuation) :
    DefsHold [(thname, ⟨[], convSvar (mkProp name T v)⟩)] M (polyVal name T v M ρ) := by
  intro σs ρ2 hadm hce d hd
  rw [List.mem_singleton] at hd
  subst hd
  show sem (pullsM M σs) ρ2 [] [] (convSvar (mkProp name T v)) = 1
  unfold convSvar
  rw [instTerm_mkProp, sem_swapKinds]
  have hfree := stvFree_of_viewOK h
  have hcoh : ∀ σ σ' : String → Ty, instTy σ T = instTy σ' T → instView σ v = instView σ' v :=
    fun σ σ' => inst_coherent h σ σ'
  apply defValue_holds name (instTy stv T) (instView stv v) (inst_core h stv)
    (freshName_of_nonLogical name hname _) (pullsM M σs) (swapV ρ2) (swapV_admissible hadm)
    (swapV ρ2) (swapV_admissible hadm) ?_ (fun _ _ _ => rfl)
  -- the value of the constant in the pulled model is the definitional one
  have e1 : swapV ρ2 2 name (instTy stv T)
      = polyVal name T v M ρ 2 name (instTy (tauOf σs) T) := by
    rw [swapV_const, hce name (instTy stv T),
      ← constVal_of_nonLogical (pullsM M σs) (pullsV M (polyVal name T v M ρ) σs) name hname (instTy stv T),
      constVal_pulls, constVal_of_nonLogical M _ name hname, substs_instTy T hfree.2 σs]
  rw [e1]
  have h1 : polyVal name T v M ρ 2 name (instTy (tauOf σs) T) = defValue M ρ (instView (tauOf σs) v) :=
    famVal_pos name _ _ hcoh M ρ (tauOf σs)
  rw [h1]
  have h2 : defValue M ρ (instView (tauOf σs) v) = defValue M (polyVal name T v M ρ) (instView (tauOf σs) v) := by
    apply defValue_congr M _ _ _ (inst_core h _).2.1
    intro a ha hk
    obtain ⟨k, n, S⟩ := a
    cases hk
    symm
    apply famVal_neg
    rintro ⟨_, rfl, τ, rfl⟩
    exact inst_cross h (tauOf σs) τ ha
  rw [h2, defValue_pulls h σs M (polyVal name T v M ρ)]
  apply defValue_congr _ _ _ _ (inst_core h stv).2.1
  intro a _ _
  exact (hce a.2.1 a.2.2).symm

end Holpy.C11
