import Holpy.C11.Model
namespace Holpy.C11
end Holpy.C11
