import Holpy.C11.Core
/-
C11 — an item accepted as a definition cannot make a consistent theory inconsistent.

`defOK name T prop` (Model.lean) = what the fixed `Definition.parse` checks on the parsed type and
statement.  A *structure* for a signature is a finite standard model `M` together with the values
`ρ 2 n S` of the constants; free and schematic variables (kinds 1 and 0 of the valuation) are
implicitly universally quantified in a theorem of the theory, so a sequent is *satisfied* by a
structure when it holds for every admissible valuation with these constants (`Sat`).

SCOPE.  Everything in this file is about ONE kind of item: `def` (class `Definition`), i.e. an
equation `c x1 … xn = rhs` (n ≥ 0; n = 0 is the constant definition `c = t`).  The other kinds that
are definitions by name — `def.ind` (recursive functions), `def.pred` (inductive predicates),
`type.ind` (datatypes) — have NO conservativity theorem here and no check in the code (no
termination, overlap or positivity test exists to model); for them, and for the explicitly
axiomatic kinds (`def.ax`, `thm.ax`, `type.ax`) and `thm`, the check only compares operationally
(extensions well-typed over the extended theory, round trips) and reports the syntactic hazards it
can recognise (overlapping equations, a recursive call on the same arguments, negative occurrences,
a type declared twice) as known findings.
-/
namespace Holpy.C11
open Holpy

/-! ### the property -/

/-- An accepted definition (`Definition.parse` sets no error) of a constant that is new is
conservative: in every finite standard model, whatever the old constants mean, there is a value
for the new constant under which `c x1 … xn = rhs` holds for all values of all variables. -/
theorem def_conservative (name : String) (T : Ty) (prop : Term) (h : defOK name T prop = true)
    (hfresh : freshName name T = true) : Conservative name T prop := by
  unfold defOK at h
  cases hv : view? name T prop with
  | none => rw [hv] at h; cases h
  | some v =>
    rw [hv] at h
    rw [view?_spec name T prop v hv]
    intro M ρ hρ
    exact ⟨defValue M ρ v, defValue_sat name T v (coreOK_of_viewOK h) hfresh M ρ hρ⟩

example : defOK "K" (Ty.fn (.tvar "a") (Ty.fn (.tvar "b") (.tvar "a")))
    (.comb (.comb (.const "equals" (Ty.fn (.tvar "a") (Ty.fn (.tvar "a") Ty.bool)))
      (.comb (.comb (.const "K" (Ty.fn (.tvar "a") (Ty.fn (.tvar "b") (.tvar "a")))) (.var "x" (.tvar "a")))
        (.var "y" (.tvar "b")))) (.var "x" (.tvar "a"))) = true := by decide

/-- For a `def` item at its declared type: let `Γ` be sequents none of which mentions the constant
`name :: T` (at exactly this type), all satisfied by the structure (`M`, constants of `ρ`).  Then
the new constant has a value `c` such that the structure with `name :: T ↦ c` satisfies every
sequent of `Γ` AND the defining equation (for all values of all variables).  Nothing is said here
about other type instances of the equation (see `def_keeps_consistency_poly`), about infinite
models, or about items of another kind. -/
theorem def_keeps_consistency (name : String) (T : Ty) (prop : Term) (h : defOK name T prop = true)
    (hfresh : freshName name T = true) (Γ : List Thm)
    (hnew : ∀ th ∈ Γ, ∀ t ∈ th.hyps ++ [th.prop], (2, name, T) ∉ atoms t)
    (M : Model) (ρ : Valuation) (hρ : Admissible M ρ) (hsat : ∀ th ∈ Γ, Sat M ρ th) :
    ∃ c, c < M.size T ∧ (∀ th ∈ Γ, Sat M (ρ.update 2 name T c) th) ∧
      Sat M (ρ.update 2 name T c) ⟨[], prop⟩ := by
  obtain ⟨c, hc, hdef⟩ := def_conservative name T prop h hfresh M ρ hρ
  exact ⟨c, hc, fun th hth => Sat_update_of_not_occurs M ρ hρ name T c th (hnew th hth) (hsat th hth), hdef⟩

/-! ### all type instances at once -/

/-- A family of accepted definitions of the same constant name at types `Ts i` (the type
instances of one polymorphic definition) has a simultaneous interpretation, provided the instance
is determined by its type (which is what "type variables of the right-hand side occur in the type
of the constant" gives) and no right-hand side mentions the constant at any of the types being
defined (which is what `is_apart` gives).  Only the values at `(name, Ts i)` change. -/
theorem def_conservative_family {ι : Type} (name : String) (Ts : ι → Ty) (vs : ι → View)
    (hok : ∀ i, CoreOK name (Ts i) (vs i)) (hfresh : ∀ i, freshName name (Ts i) = true)
    (hcoh : ∀ i j, Ts i = Ts j → vs i = vs j)
    (hcross : ∀ i j, (2, name, Ts j) ∉ atoms (vs i).rhs)
    (M : Model) (ρ : Valuation) (hρ : Admissible M ρ) :
    ∃ ρ', Admissible M ρ' ∧
      (∀ k n S, ¬ (k = 2 ∧ n = name ∧ ∃ i, S = Ts i) → ρ' k n S = ρ k n S) ∧
      ∀ i, Sat M ρ' ⟨[], mkProp name (Ts i) (vs i)⟩ := by
  classical
  let ρ' : Valuation := fun k n S =>
    if h : k = 2 ∧ n = name ∧ ∃ i, S = Ts i then defValue M ρ (vs (Classical.choose h.2.2)) else ρ k n S
  have hpos : ∀ i, ρ' 2 name (Ts i) = defValue M ρ (vs i) := by
    intro i
    have h : (2 : Nat) = 2 ∧ name = name ∧ ∃ j, Ts i = Ts j := ⟨rfl, rfl, i, rfl⟩
    show (if h : (2 : Nat) = 2 ∧ name = name ∧ ∃ j, Ts i = Ts j then _ else _) = _
    rw [dif_pos h]
    have hc := Classical.choose_spec h.2.2
    rw [hcoh _ _ hc.symm]
  have hneg : ∀ k n S, ¬ (k = 2 ∧ n = name ∧ ∃ i, S = Ts i) → ρ' k n S = ρ k n S := by
    intro k n S h
    show (if h : k = 2 ∧ n = name ∧ ∃ i, S = Ts i then _ else _) = _
    rw [dif_neg h]
  refine ⟨ρ', ?_, hneg, ?_⟩
  · intro k n S
    by_cases h : k = 2 ∧ n = name ∧ ∃ i, S = Ts i
    · obtain ⟨rfl, rfl, i, rfl⟩ := h
      rw [hpos i]
      exact defValue_lt n (Ts i) (vs i) (hok i) M ρ hρ
    · rw [hneg k n S h]
      exact hρ k n S
  · intro i ρ2 hρ2 hagree _
    apply defValue_holds name (Ts i) (vs i) (hok i) (hfresh i) M ρ hρ ρ2 hρ2
    · rw [hagree, hpos i]
    · intro a ha hk
      obtain ⟨k, n, S⟩ := a
      cases hk
      rw [hagree]
      apply hneg
      rintro ⟨_, rfl, j, rfl⟩
      exact hcross i j ha

/-- POLYMORPHIC conservativity. A definition is used at every type instance (`'a := σ 'a`) of its
equation. For an accepted definition there is ONE interpretation of the new constant at all the
instances `T[σ]` of its type — nothing else changes — under which EVERY instance of the equation
holds for all values of all variables. This is where "type variables of the right-hand side occur
in the type of the constant" (the instance of the equation is determined by the instance of the
type) and "`is_apart`" (no instance of the right-hand side mentions an instance of the constant
being defined) are needed. -/
theorem def_conservative_poly (name : String) (T : Ty) (prop : Term) (h : defOK name T prop = true)
    (hname : nonLogicalName name = true) (M : Model) (ρ : Valuation) (hρ : Admissible M ρ) :
    ∃ ρ', Admissible M ρ' ∧
      (∀ k n S, ¬ (k = 2 ∧ n = name ∧ ∃ σ, S = instTy σ T) → ρ' k n S = ρ k n S) ∧
      ∀ σ, Sat M ρ' ⟨[], instTerm σ prop⟩ := by
  unfold defOK at h
  cases hv : view? name T prop with
  | none => rw [hv] at h; cases h
  | some v =>
    rw [hv] at h
    rw [view?_spec name T prop v hv]
    have hcore := coreOK_of_viewOK h
    obtain ⟨hT, _, _, hself, _⟩ := viewOK_parts h
    have htv : rhsTvarsOK T v = true := by
      simp only [viewOK, Bool.and_eq_true] at h
      exact h.1.1.2
    have := def_conservative_family (ι := String → Ty) name (fun σ => instTy σ T) (fun σ => instView σ v)
      (fun σ => coreOK_inst σ hcore hself) (fun σ => freshName_of_nonLogical name hname _)
      (by
        intro σ σ' heq
        have hag := agree_of_instTy_eq σ σ' T heq
        have hagA : ∀ A ∈ v.args.map (·.2), ∀ x ∈ A.tvars, σ x = σ' x := by
          intro A hA x hx
          exact hag x (by rw [hT]; exact (tvars_arrows _ _ x).2 (Or.inl ⟨A, hA, hx⟩))
        have hagB : ∀ x ∈ v.B.tvars, σ x = σ' x := by
          intro x hx
          exact hag x (by rw [hT]; exact (tvars_arrows _ _ x).2 (Or.inr hx))
        have hagR : ∀ S ∈ termTypes v.rhs, ∀ x ∈ S.tvars, σ x = σ' x := by
          intro S hS x hx
          have h1 := List.all_eq_true.1 htv S hS
          have h2 := List.all_eq_true.1 h1 x hx
          exact hag x (by simpa using h2)
        simp only [instView, View.mk.injEq]
        refine ⟨?_, instTy_congr σ σ' v.B hagB, instTerm_congr σ σ' v.rhs hagR⟩
        apply List.map_congr_left
        intro p hp
        rw [instTy_congr σ σ' p.2 (hagA p.2 (List.mem_map.2 ⟨p, hp, rfl⟩))])
      (by
        intro σ τ hm
        simp only [instView, atoms_inst, List.mem_map] at hm
        obtain ⟨a, ha, heq⟩ := hm
        obtain ⟨k, n, S⟩ := a
        simp only [Prod.mk.injEq] at heq
        obtain ⟨rfl, rfl, hS⟩ := heq
        have := List.all_eq_true.1 hself _ ha
        simp only [beq_self_eq_true, Bool.and_self, Bool.not_true, Bool.false_or] at this
        exact apart_inst σ τ S T this hS)
      M ρ hρ
    obtain ⟨ρ', h1, h2, h3⟩ := this
    refine ⟨ρ', h1, h2, fun σ => ?_⟩
    rw [instTerm_mkProp]
    exact h3 σ

/-- The same for ALL type instances at once: if no sequent of `Γ` mentions `name` at any instance
`T[σ]` of its type and the structure (`M`, constants of `ρ`) satisfies `Γ`, then there is a
valuation `ρ'` that differs from `ρ` only at the constants `name :: T[σ]`, still satisfies `Γ`, and
satisfies every type instance of the defining equation of the `def` item. -/
theorem def_keeps_consistency_poly (name : String) (T : Ty) (prop : Term)
    (h : defOK name T prop = true) (hname : nonLogicalName name = true) (Γ : List Thm)
    (hnew : ∀ th ∈ Γ, ∀ t ∈ th.hyps ++ [th.prop], ∀ σ, (2, name, instTy σ T) ∉ atoms t)
    (M : Model) (ρ : Valuation) (hρ : Admissible M ρ) (hsat : ∀ th ∈ Γ, Sat M ρ th) :
    ∃ ρ', Admissible M ρ' ∧
      (∀ k n S, ¬ (k = 2 ∧ n = name ∧ ∃ σ, S = instTy σ T) → ρ' k n S = ρ k n S) ∧
      (∀ th ∈ Γ, Sat M ρ' th) ∧ ∀ σ, Sat M ρ' ⟨[], instTerm σ prop⟩ := by
  obtain ⟨ρ', h1, h2, h3⟩ := def_conservative_poly name T prop h hname M ρ hρ
  refine ⟨ρ', h1, h2, fun th hth => ?_, h3⟩
  apply Sat_congr M ρ ρ' hρ th _ (hsat th hth)
  intro t ht a ha hk
  obtain ⟨k, n, S⟩ := a
  cases hk
  apply h2
  rintro ⟨_, rfl, σ, rfl⟩
  exact hnew th hth t ht σ ha

/-- CONSTANT DEFINITIONS, with the kernel's notion `Valid` (true under every admissible valuation
of a model, constants included): an accepted `def c :: T, c = t` (no arguments; then `t` is closed
and its type variables occur in `T`) can be eliminated — a sequent that does not mention `c :: T`
and is valid in a finite standard model when the defining equation is added to its hypotheses is
valid in that model without it.  So the definitional axiom proves nothing new about the old
signature. -/
theorem const_def_eliminable (name : String) (T : Ty) (rhs : Term)
    (h : defOK name T (constDef name T rhs) = true) (hfresh : freshName name T = true) (th : Thm)
    (hno : ∀ t ∈ th.hyps ++ [th.prop], (2, name, T) ∉ atoms t) (M : Model)
    (hv : Valid M ⟨constDef name T rhs :: th.hyps, th.prop⟩) : Valid M th := by
  unfold defOK at h
  rw [view?_constDef] at h
  simp only at h
  intro ρ hρ hhyps
  obtain ⟨hc, hsat⟩ := defValue_sat name T ⟨[], T, rhs⟩ (coreOK_of_viewOK h) hfresh M ρ hρ
  have hρ' := hρ.update 2 name T _ hc
  have hdef : holds M (ρ.update 2 name T (defValue M ρ ⟨[], T, rhs⟩)) (constDef name T rhs) :=
    (sat_nil_iff _ _ _).1 hsat _ hρ' (fun _ _ => rfl)
  have hsame : ∀ t ∈ th.hyps ++ [th.prop],
      sem M (ρ.update 2 name T (defValue M ρ ⟨[], T, rhs⟩)) [] [] t = sem M ρ [] [] t := by
    intro t ht
    apply sem_congr
    intro a ha
    obtain ⟨k, n, S⟩ := a
    apply update_const_other
    rintro ⟨rfl, rfl, rfl⟩
    exact hno t ht ha
  have := hv _ hρ' (by
    intro g hg
    rcases List.mem_cons.1 hg with rfl | hg
    · exact hdef
    · show sem M _ [] [] g = 1
      rw [hsame g (by simp [hg])]
      exact hhyps g hg)
  show sem M ρ [] [] th.prop = 1
  rw [← hsame th.prop (by simp)]
  exact this

/-! ### the equation of an accepted definition is well-typed -/

/-- For a `def` item: `Definition.get_extension` generates the constant at its declared type and a
theorem (no hypotheses, the defining equation) that passes `check_thm_type`; if the parser's output
uses `equals` / `implies` / `all` at instances of their declared types only (`sigOK`), it also passes
the signature-aware `check_thm_type` of the checker (`Thm.checkThmTypeSig`).  `Theory.check_term`
against the declared types of the OTHER constants is not modelled (the harness runs the real one). -/
theorem def_ext_welltyped (name cname : String) (T : Ty) (prop : Term) (attrs : List String)
    (h : defOK name T prop = true) :
    ∃ th, Ext.theorem (cname ++ "_def") th ∈ getExtension name cname T prop attrs ∧
      Thm.checkThmType th = true ∧ (Holpy.sigOK prop = true → Thm.checkThmTypeSig th = true) ∧
      Ext.constant name T cname ∈ getExtension name cname T prop attrs := by
  unfold defOK at h
  cases hv : view? name T prop with
  | none => rw [hv] at h; cases h
  | some v =>
    rw [hv] at h
    obtain ⟨hT, _, _, _, htyped⟩ := viewOK_parts h
    have hct : Thm.checkThmType ⟨[], prop⟩ = true := by
      rw [view?_spec name T prop v hv]
      have hl := lhs_typed name T v hT
      simp [Thm.checkThmType, mkProp, Term.checkedGetType, hl, htyped, bind, Except.bind,
        Ty.isFun_fn, Ty.domain?_fn, Ty.range?_fn]
    refine ⟨⟨[], prop⟩, by simp [getExtension], hct, ?_, by simp [getExtension]⟩
    intro hs
    simp [Thm.checkThmTypeSig, hct, Thm.sigOK, hs]

/-! ### non-vacuity: library-style definitions are accepted -/

def tA : Ty := .tvar "a"
def tB : Ty := .tvar "b"
def tC : Ty := .tvar "c"

/-- `K x y = x` -/
def kProp : Term :=
  eqAt tA (.comb (.comb (.const "K" (Ty.fn tA (Ty.fn tB tA))) (.var "x" tA)) (.var "y" tB)) (.var "x" tA)

/-- `comp f g x = f (g x)` -/
def compT : Ty := Ty.fn (Ty.fn tB tC) (Ty.fn (Ty.fn tA tB) (Ty.fn tA tC))
def compProp : Term :=
  eqAt tC (.comb (.comb (.comb (.const "comp" compT) (.var "f" (Ty.fn tB tC))) (.var "g" (Ty.fn tA tB))) (.var "x" tA))
    (.comb (.var "f" (Ty.fn tB tC)) (.comb (.var "g" (Ty.fn tA tB)) (.var "x" tA)))

/-- `(zero::int) = of_nat (zero::nat)`: the overloaded constant at another instance on the right -/
def zeroIntProp : Term :=
  eqAt (.con "int" []) (.const "zero" (.con "int" []))
    (.comb (.const "of_nat" (Ty.fn (.con "nat" []) (.con "int" []))) (.const "zero" (.con "nat" [])))

example : defOK "K" (Ty.fn tA (Ty.fn tB tA)) kProp = true := by decide
example : defOK "comp" compT compProp = true := by decide
example : Holpy.sigOK compProp = true := by decide
example : defOK "zero" (.con "int" []) zeroIntProp = true := by decide
example : Conservative "comp" compT compProp := def_conservative _ _ _ (by decide) (by decide)
example : Conservative "zero" (.con "int" []) zeroIntProp := def_conservative _ _ _ (by decide) (by decide)
example : ∃ th, Ext.theorem "comp_def" th ∈ getExtension "comp" "comp" compT compProp ["hint_rewrite"] ∧
    Thm.checkThmType th = true ∧ (Holpy.sigOK compProp = true → Thm.checkThmTypeSig th = true) ∧
    Ext.constant "comp" compT "comp" ∈ getExtension "comp" "comp" compT compProp ["hint_rewrite"] :=
  def_ext_welltyped "comp" "comp" compT compProp ["hint_rewrite"] (by decide)

/-- `comp` at all its type instances at once -/
example (M : Model) (ρ : Valuation) (hρ : Admissible M ρ) : ∃ ρ', Admissible M ρ' ∧
    (∀ k n S, ¬ (k = 2 ∧ n = "comp" ∧ ∃ σ, S = instTy σ compT) → ρ' k n S = ρ k n S) ∧
    ∀ σ, Sat M ρ' ⟨[], instTerm σ compProp⟩ :=
  def_conservative_poly "comp" compT compProp (by decide) (by decide) M ρ hρ

/-- the overloaded `zero :: int` defined through `zero :: nat`: the two are different constants -/
example (M : Model) (ρ : Valuation) (hρ : Admissible M ρ) : ∃ ρ', Admissible M ρ' ∧
    (∀ k n S, ¬ (k = 2 ∧ n = "zero" ∧ ∃ σ, S = instTy σ (.con "int" [])) → ρ' k n S = ρ k n S) ∧
    ∀ σ, Sat M ρ' ⟨[], instTerm σ zeroIntProp⟩ :=
  def_conservative_poly "zero" (.con "int" []) zeroIntProp (by decide) (by decide) M ρ hρ

/-- `one = Suc zero` (library: `def one :: nat`) -/
def oneRhs : Term := .comb (.const "Suc" (Ty.fn (.con "nat" []) (.con "nat" []))) (.const "zero" (.con "nat" []))
example : defOK "one" (.con "nat" []) (constDef "one" (.con "nat" []) oneRhs) = true := by decide

/-- whatever is valid about `zero` and `Suc` with `one = Suc zero` as a hypothesis is valid without it -/
example (M : Model) (th : Thm) (hno : ∀ t ∈ th.hyps ++ [th.prop], (2, "one", Ty.con "nat" []) ∉ atoms t)
    (hv : Valid M ⟨constDef "one" (.con "nat" []) oneRhs :: th.hyps, th.prop⟩) : Valid M th :=
  const_def_eliminable "one" (.con "nat" []) oneRhs (by decide) (by decide) th hno M hv

example (Γ : List Thm) (hnew : ∀ th ∈ Γ, ∀ t ∈ th.hyps ++ [th.prop], ∀ σ, (2, "comp", instTy σ compT) ∉ atoms t)
    (M : Model) (ρ : Valuation) (hρ : Admissible M ρ) (hsat : ∀ th ∈ Γ, Sat M ρ th) :
    ∃ ρ', Admissible M ρ' ∧
      (∀ k n S, ¬ (k = 2 ∧ n = "comp" ∧ ∃ σ, S = instTy σ compT) → ρ' k n S = ρ k n S) ∧
      (∀ th ∈ Γ, Sat M ρ' th) ∧ ∀ σ, Sat M ρ' ⟨[], instTerm σ compProp⟩ :=
  def_keeps_consistency_poly "comp" compT compProp (by decide) (by decide) Γ hnew M ρ hρ hsat

/-! ### each side condition is needed -/

def cB : Term := .const "c" Ty.bool
/-- `∀p::bool. p` (falsity, from the logical constants only) -/
def falseT : Term := .comb (.const "all" (Ty.fn (Ty.fn Ty.bool Ty.bool) Ty.bool)) (.abs "p" Ty.bool (.bound 0))

/-- `c ⟷ (c ⟶ ∀p. p)`, i.e. `c ⟷ ¬c` -/
def selfRefProp : Term := eqAt Ty.bool cB (Term.mkImplies cB falseT)

/-- (4) Without "the constant does not occur on the right": `def c :: bool, c ⟷ ¬c` has no
interpretation at all. `Definition.parse` rejects it (constant occurs in rhs). -/
theorem selfref_counterexample : ¬ Conservative "c" Ty.bool selfRefProp := by
  intro h
  obtain ⟨c, hc, hs⟩ := h oneModel ρ0 ρ0_adm
  have hc2 : c < 2 := by rwa [Model.size_bool] at hc
  have := (sat_nil_iff _ _ _).1 hs (ρ0.update 2 "c" Ty.bool c) (ρ0_adm.update 2 "c" Ty.bool c hc)
    (fun _ _ => rfl)
  obtain rfl | rfl : c = 0 ∨ c = 1 := by omega
  · revert this; decide
  · revert this; decide

example : defOK "c" Ty.bool selfRefProp = false := by decide

/-- `∀x y::α. x = y` -/
def allEq (α : Ty) : Term :=
  .comb (.const "all" (Ty.fn (Ty.fn α Ty.bool) Ty.bool)) (.abs "x" α
    (.comb (.const "all" (Ty.fn (Ty.fn α Ty.bool) Ty.bool)) (.abs "y" α (eqAt α (.bound 1) (.bound 0)))))

/-- the instance of `c ⟷ (∀x y::'a. x = y)` at `'a := α` -/
def tvProp (α : Ty) : Term := eqAt Ty.bool cB (allEq α)

/-- several type instances of a defining equation that share the type of the defined constant
have a common interpretation -/
def ConservativeAt (name : String) (T : Ty) (props : List Term) : Prop :=
  ∀ M ρ, Admissible M ρ → ∃ c, c < M.size T ∧ ∀ p ∈ props, Sat M (ρ.update 2 name T c) ⟨[], p⟩

/-- (3) Without "type variables of the right-hand side occur in the type of the constant":
`def c :: bool, c ⟷ (∀x y::'a. x = y)` — the instances at a one-element type and at `bool` ask
for `c = true` and `c = false`. `Definition.parse` rejects it (extra type variables in rhs). -/
theorem extra_tvar_counterexample : ¬ ConservativeAt "c" Ty.bool [tvProp tA, tvProp Ty.bool] := by
  intro h
  obtain ⟨c, hc, hs⟩ := h oneModel ρ0 ρ0_adm
  have hc2 : c < 2 := by rwa [Model.size_bool] at hc
  have hadm := ρ0_adm.update 2 "c" Ty.bool c hc
  have h1 := (sat_nil_iff _ _ _).1 (hs (tvProp tA) (by simp)) _ hadm (fun _ _ => rfl)
  have h2 := (sat_nil_iff _ _ _).1 (hs (tvProp Ty.bool) (by simp)) _ hadm (fun _ _ => rfl)
  obtain rfl | rfl : c = 0 ∨ c = 1 := by omega
  · revert h1; decide
  · revert h2; decide

example : defOK "c" Ty.bool (tvProp tA) = false := by decide

/-- `c ⟷ y` with a free variable `y` -/
def freeVarProp : Term := eqAt Ty.bool cB (.var "y" Ty.bool)

/-- (2) Without "no other free variables on the right": `def c :: bool, c ⟷ y`; the same with a
schematic variable `?y`. `Definition.parse` rejects both. -/
theorem free_var_counterexample : ¬ Conservative "c" Ty.bool freeVarProp := by
  intro h
  obtain ⟨c, hc, hs⟩ := h oneModel ρ0 ρ0_adm
  have hc2 : c < 2 := by rwa [Model.size_bool] at hc
  have hadm := ρ0_adm.update 2 "c" Ty.bool c hc
  have := (sat_nil_iff _ _ _).1 hs ((ρ0.update 2 "c" Ty.bool c).update 1 "y" Ty.bool (1 - c))
    (hadm.update 1 "y" Ty.bool (1 - c) (by rw [Model.size_bool]; omega))
    (fun n S => by simp [Valuation.update])
  obtain rfl | rfl : c = 0 ∨ c = 1 := by omega
  · revert this; decide
  · revert this; decide

example : defOK "c" Ty.bool freeVarProp = false := by decide
example : defOK "c" Ty.bool (eqAt Ty.bool cB (.svar "y" Ty.bool)) = false := by decide

def tBB : Ty := Ty.fn Ty.bool Ty.bool
/-- `c (f x) ⟷ x` -/
def nonVarArgProp : Term :=
  eqAt Ty.bool (.comb (.const "c" tBB) (.comb (.var "f" tBB) (.var "x" Ty.bool))) (.var "x" Ty.bool)

/-- (1) Without "the arguments are variables": `def c :: bool ⇒ bool, c (f x) ⟷ x` (take `f`
constant). `Definition.parse` rejects it (arguments on lhs must be variables). -/
theorem non_var_arg_counterexample : ¬ Conservative "c" tBB nonVarArgProp := by
  intro h
  obtain ⟨c, hc, hs⟩ := h oneModel ρ0 ρ0_adm
  have hc4 : c < 4 := by
    have : oneModel.size tBB = 4 := by decide
    omega
  have hadm := ρ0_adm.update 2 "c" tBB c hc
  have := (sat_nil_iff _ _ _).1 hs ((ρ0.update 2 "c" tBB c).update 1 "x" Ty.bool (1 - c % 2))
    (hadm.update 1 "x" Ty.bool (1 - c % 2) (by rw [Model.size_bool]; omega))
    (fun n S => by simp [Valuation.update])
  obtain rfl | rfl | rfl | rfl : c = 0 ∨ c = 1 ∨ c = 2 ∨ c = 3 := by omega
  all_goals (revert this; decide)

example : defOK "c" tBB nonVarArgProp = false := by decide

def tBBB : Ty := Ty.fn Ty.bool (Ty.fn Ty.bool Ty.bool)
/-- `c x x ⟷ x` -/
def repeatedArgProp : Term :=
  eqAt Ty.bool (.comb (.comb (.const "c" tBBB) (.var "x" Ty.bool)) (.var "x" Ty.bool)) (.var "x" Ty.bool)

/-- (1) Without "the arguments are DISTINCT variables": `def c :: bool ⇒ bool ⇒ bool, c x x ⟷ x`
is satisfiable but does not define `c`: the first projection (code 12) and the second projection
(code 10) both satisfy it for every value of `x`, so the equation is a specification, not a
definition. `Definition.parse` rejects it (variables on lhs must be distinct). -/
theorem repeated_arg_counterexample :
    ∃ c1 c2, c1 ≠ c2 ∧ c1 < oneModel.size tBBB ∧ c2 < oneModel.size tBBB ∧
      ∀ v, v < 2 → holds oneModel ((ρ0.update 1 "x" Ty.bool v).update 2 "c" tBBB c1) repeatedArgProp ∧
        holds oneModel ((ρ0.update 1 "x" Ty.bool v).update 2 "c" tBBB c2) repeatedArgProp := by
  refine ⟨12, 10, by decide, by decide, by decide, ?_⟩
  unfold holds
  decide

example : defOK "c" tBBB repeatedArgProp = false := by decide

/-! ### type variables are never apart -/

def tAB : Ty := Ty.fn tA (Ty.fn tB Ty.bool)
def tBA : Ty := Ty.fn tB (Ty.fn tA Ty.bool)

/-- `c (x::'a) (y::'b) ⟷ ¬ (c :: 'b ⇒ 'a ⇒ bool) y x` (negation written `_ ⟶ ∀p. p`) -/
def permProp : Term :=
  eqAt Ty.bool (.comb (.comb (.const "c" tAB) (.var "x" tA)) (.var "y" tB))
    (Term.mkImplies (.comb (.comb (.const "c" tBA) (.var "y" tB)) (.var "x" tA)) falseT)

/-- its instance at `'a := bool, 'b := bool` -/
def permInst : Term :=
  eqAt Ty.bool (.comb (.comb (.const "c" tBBB) (.var "x" Ty.bool)) (.var "y" Ty.bool))
    (Term.mkImplies (.comb (.comb (.const "c" tBBB) (.var "y" Ty.bool)) (.var "x" Ty.bool)) falseT)

example : instTerm (fun _ => Ty.bool) permProp = permInst := by
  simp [permProp, permInst, eqAt, instTerm, instTy_fn, instTy_bool, Term.mkImplies, falseT, tAB, tBA,
    tA, tB, tBBB, instTy]

/-- (4, types) Two differently named type variables have a common instance, so `is_apart` must
not call them apart: the occurrence of `c` at the permuted type `'b ⇒ 'a ⇒ bool` meets the
constant being defined at the instance `'a := 'b := bool`, where the equation reads
`c x y ⟷ ¬ c y x` and has no interpretation (take `x = y`). `Definition.parse` rejects the
definition (constant occurs in rhs). -/
theorem permuted_selfref_counterexample : ¬ Conservative "c" tBBB permInst := by
  intro h
  obtain ⟨c, hc, hs⟩ := h oneModel ρ0 ρ0_adm
  have hc16 : c < 16 := by
    have : oneModel.size tBBB = 16 := by decide
    omega
  have := (sat_nil_iff _ _ _).1 hs (ρ0.update 2 "c" tBBB c) (ρ0_adm.update 2 "c" tBBB c hc)
    (fun _ _ => rfl)
  have hall : ∀ c, c < 16 → ¬ sem oneModel (ρ0.update 2 "c" tBBB c) [] [] permInst = 1 := by decide
  exact hall c hc16 this

example : apart tAB tBA = false := by decide
example : apart tA tB = false := by decide
example : defOK "c" tAB permProp = false := by decide

end Holpy.C11
