import Holpy.C07.Model
import Holpy.C07.Gen
/-
C07 — helper lemmas for `parse_print`: the recursive-descent parser over the ladder reads back
what the printer wrote, for every table/ladder pair that is `TableConsistent`.
-/
namespace Holpy.C07

set_option synthInstance.maxSize 4096 in
set_option synthInstance.maxHeartbeats 1000000 in
theorem gen_consistent : TableConsistent Gen.table Gen.ladder := by decide +kernel

variable {T : Table} {L : Ladder}

/-! ### ladder indexing -/

theorem drop_lt {i : Nat} (h : i < L.n) : L.levels.drop i = L.at i :: L.levels.drop (i + 1) := by
  unfold Ladder.n at h
  rw [List.drop_eq_getElem_cons h]
  simp [Ladder.at, List.getD_eq_getElem?_getD, h]

theorem drop_ge {i : Nat} (h : L.n ≤ i) : L.levels.drop i = [] := by
  unfold Ladder.n at h
  exact List.drop_eq_nil_of_le h

/-! ### what the next token may not be -/

def headInfix (L : Ladder) (j : Nat) : List Tok → Bool
  | .sym s :: _ => isInfix (L.at j).kind && (L.at j).has s
  | _ => false

def headPre (L : Ladder) (j : Nat) : List Tok → Bool
  | .sym s :: _ => decide ((L.at j).kind = .pre) && (L.at j).has s
  | _ => false

structure Stops (L : Ladder) (i : Nat) (rest : List Tok) : Prop where
  noAtom : atomStart L rest = false
  noInfix : ∀ j, i ≤ j → j < L.n → headInfix L j rest = false

theorem Stops.mono {i j : Nat} {rest : List Tok} (h : Stops L i rest) (hij : i ≤ j) : Stops L j rest :=
  ⟨h.noAtom, fun k hk hn => h.noInfix k (Nat.le_trans hij hk) hn⟩

theorem stops_nil (i : Nat) : Stops L i [] := ⟨rfl, fun _ _ _ => rfl⟩
theorem stops_rp (i : Nat) (r : List Tok) : Stops L i (.rp :: r) := ⟨rfl, fun _ _ _ => rfl⟩
theorem stops_then (i : Nat) (r : List Tok) : Stops L i (.kthen :: r) := ⟨rfl, fun _ _ _ => rfl⟩
theorem stops_else (i : Nat) (r : List Tok) : Stops L i (.kelse :: r) := ⟨rfl, fun _ _ _ => rfl⟩

/-! ### loops that stop -/

theorem loopL_stop (lv : Level) (self : Nat → List Tok → PRes) (i g : Nat) (x : Skel) (r : List Tok)
    (h : ∀ s r', r = .sym s :: r' → lv.has s = false) : loopL T lv self i g x r = some (x, r) := by
  unfold loopL
  split
  · rename_i s r'
    simp [h s r' rfl]
  · rfl

theorem appLoop_stop (self : Nat → List Tok → PRes) (g : Nat) (x : Skel) (r : List Tok)
    (h : atomStart L r = false) : appLoop L self g x r = some (x, r) := by
  unfold appLoop
  simp [h]

/-! ### lifting a result through the levels `i .. j-1` -/

theorem lift (self : Nat → List Tok → PRes) (ts : List Tok) (x : Skel) (r : List Tok) (j : Nat) (hj : j ≤ L.n)
    (hres : levelsFrom T L self (L.levels.drop j) j ts = some (x, r)) :
    ∀ (d i : Nat), i + d = j →
      (∀ k, i ≤ k → k < j → headPre L k ts = false) →
      (∀ k, i ≤ k → k < j → headInfix L k r = false) →
      levelsFrom T L self (L.levels.drop i) i ts = some (x, r) := by
  intro d
  induction d with
  | zero => intro i hi _ _; simp at hi; subst hi; exact hres
  | succ d ih =>
    intro i hi hp hin
    have hlt : i < L.n := by omega
    have ih' := ih (i + 1) (by omega) (fun k h1 h2 => hp k (by omega) h2) (fun k h1 h2 => hin k (by omega) h2)
    have hpi := hp i (Nat.le_refl _) (by omega)
    have hii := hin i (Nat.le_refl _) (by omega)
    rw [drop_lt hlt]
    unfold levelsFrom
    cases hk : (L.at i).kind with
    | alias => simpa using ih'
    | pre =>
      simp only
      split
      · rename_i s r0
        have : (L.at i).has s = false := by simpa [headPre, hk] using hpi
        simp [this, ih']
      · exact ih'
    | infixR =>
      simp only [ih']
      split
      · rename_i x' s r' heq
        have hx : x = x' ∧ r = Tok.sym s :: r' := by simpa using heq
        obtain ⟨rfl, rfl⟩ := hx
        have : (L.at i).has s = false := by simpa [headInfix, hk, isInfix] using hii
        simp [this]
      · rfl
    | infixL =>
      simp only [ih']
      apply loopL_stop
      intro s r' hr
      subst hr
      simpa [headInfix, hk, isInfix] using hii

end Holpy.C07
