import Holpy.C07.PropsText
import Holpy.C07.PropsTypes
import Holpy.C07.SeqLex
/-
C07 — property theorems about the printed TEXT of types and sequents.
-/
namespace Holpy.C07

/-- `'`, `?'`, `=>`, `⇒`, `,` are string terminals read as their own symbols; nothing longer starts with
`(`; `'` and `?'` can be followed directly by a name -/
theorem type_text_ok : TypeTextOK Gen.tySyms Gen.symbolsC := by decide +kernel

/-- For all symbol ids / terminals with `TypeTextOK`: the lexer reads the text of `print_type` (arrow with
blanks, postfix constructor after a blank, `(a, b) c` tuples, `'a`, `?'a`) back as the tokens of the
type printer, for every type whose names are identifiers and no literal terminals. -/
theorem type_lex_print_abstract (C : TySyms) (S : List (List Nat)) (hT : TypeTextOK C S) (uni : Bool) (ty : Ty)
    (hn : ty.NamesOK S) : lex S (printTyText C S uni ty) = some (printTy C uni ty) :=
  type_lex_print_core hT uni ty hn

example : ∃ C S, TypeTextOK C S ∧ S.length > 50 := ⟨Gen.tySyms, Gen.symbolsC, type_text_ok, by decide⟩

/-- the same for the terminals of the current grammar -/
theorem type_lex_print (uni : Bool) (ty : Ty) (hn : ty.NamesOK Gen.symbolsC) :
    lex Gen.symbolsC (printTyText Gen.tySyms Gen.symbolsC uni ty) = some (printTy Gen.tySyms uni ty) :=
  type_lex_print_core type_text_ok uni ty hn

/-- lexing and parsing the text of `print_type` gives back the type -/
theorem type_parse_print_text (uni : Bool) (ty : Ty) (hn : ty.NamesOK Gen.symbolsC) :
    parseTyText Gen.tySyms Gen.symbolsC (printTyText Gen.tySyms Gen.symbolsC uni ty) = some ty := by
  unfold parseTyText
  rw [type_lex_print uni ty hn]
  exact type_parse_print uni ty

example : exampleTy.namesOKb Gen.symbolsC = true ∧
    printTyText Gen.tySyms Gen.symbolsC false exampleTy =
      [40, 39, 97, 32, 61, 62, 32, 63, 39, 98, 32, 108, 105, 115, 116, 41, 32, 61, 62, 32, 40, 39, 97, 44, 32, 110, 97, 116, 32, 61, 62, 32,
       110, 97, 116, 41, 32, 112, 114, 111, 100, 32, 115, 101, 116] := by decide +kernel

/-- `,`, `|-`, `⊢` are string terminals read as their own symbols -/
theorem seq_text_ok : SeqTextOK Gen.seqSyms Gen.symbolsC := by decide +kernel

/-- For all tables/terminals with `TextOK` and `SeqTextOK`: the lexer reads the text of `print_thm`
(`A1, A2 |- C`, `|- C`, with `⊢` in Unicode) back as the tokens of the sequent printer. -/
theorem thm_lex_print_abstract (T : Table) (L : Ladder) (S : List (List Nat)) (Q : SeqSyms) (hT : TextOK T L S) (hQ : SeqTextOK Q S)
    (uni : Bool) (hyps : List Skel) (c : Skel) (hh : ∀ x ∈ hyps, x.WF T L ∧ x.NamesOK S) (hc : c.WF T L ∧ c.NamesOK S) :
    lex S (printThmText T L S Q uni hyps c) = some (printThm T L Q uni hyps c) :=
  thm_lex_print_core hT hQ uni hyps c hh hc

example : ∃ Q S, SeqTextOK Q S := ⟨Gen.seqSyms, Gen.symbolsC, seq_text_ok⟩

/-- the same for the current sources -/
theorem thm_lex_print (uni : Bool) (hyps : List Skel) (c : Skel)
    (hh : ∀ x ∈ hyps, x.WF Gen.table Gen.ladder ∧ x.NamesOK Gen.symbolsC) (hc : c.WF Gen.table Gen.ladder ∧ c.NamesOK Gen.symbolsC) :
    lex Gen.symbolsC (printThmText Gen.table Gen.ladder Gen.symbolsC Gen.seqSyms uni hyps c)
      = some (printThm Gen.table Gen.ladder Gen.seqSyms uni hyps c) :=
  thm_lex_print_core text_ok seq_text_ok uni hyps c hh hc

/-- lexing and parsing the text of `print_thm` gives back hypotheses and conclusion -/
theorem thm_parse_print_text (uni : Bool) (hyps : List Skel) (c : Skel)
    (hh : ∀ x ∈ hyps, x.WF Gen.table Gen.ladder ∧ x.NamesOK Gen.symbolsC) (hc : c.WF Gen.table Gen.ladder ∧ c.NamesOK Gen.symbolsC) :
    parseThmText Gen.table Gen.ladder Gen.symbolsC Gen.seqSyms
      (printThmText Gen.table Gen.ladder Gen.symbolsC Gen.seqSyms uni hyps c) = some (hyps, c) := by
  unfold parseThmText
  rw [thm_lex_print uni hyps c hh hc]
  exact thm_parse_print uni hyps c (fun x hx => (hh x hx).1) hc.1

/-- `~A, A | B ⊢ B` -/
example : parseThmText Gen.table Gen.ladder Gen.symbolsC Gen.seqSyms
    (printThmText Gen.table Gen.ladder Gen.symbolsC Gen.seqSyms true [.un 5 (.atom [65]), .bin 4 (.atom [65]) (.atom [66])] (.atom [66]))
    = some ([.un 5 (.atom [65]), .bin 4 (.atom [65]) (.atom [66])], .atom [66]) := by decide +kernel

end Holpy.C07
