import Holpy.Common.Sexp
import Holpy.C07.Model
import Holpy.C07.Text
import Holpy.C07.TypeText
import Holpy.C07.SeqText
import Holpy.C07.Gen
/-
Line protocol of the C07 model (one s-expression in, one out); strings are percent-encoded atoms
(harness/common/sexp.py `enc`):
  (print UNI SKEL)    -> (TOK ...)                 token stream of the model printer, generated tables
  (parse (TOK ...))   -> SKEL | none               model parser on a token list
  (lex TEXT)          -> (TOK ...) | none          model lexer on a printed text
  (parsetext TEXT)    -> SKEL | none               lexer, then parser
  (printtext UNI SKEL) -> TEXT                      text of the model printer (no line limit)
  (namesok SKEL)      -> T | F                      every identifier of the skeleton is NameOK
  (printty UNI TY)    -> (TOK ...)                 tokens of the model type printer
  (parsetytext TEXT)  -> TY | none                 lexer, then the model parser for rule `type`
  (printthm UNI (SKEL ...) SKEL) -> (TOK ...)      tokens of the model sequent printer
  (parsethmtext TEXT) -> ((SKEL ...) SKEL) | none  lexer, then the model parser for rule `thm`
TY = (tvar s) | (stvar s) | (fn a b) | (con name (TY ...))
SKEL = (atom s) | (app f a) | (bin o l r) | (un o a) | (binder b x body) | (ite c a b)
TOK  = lp | rp | dot | if | then | else | (sym s) | (id s)
-/
open Holpy Holpy.C07

namespace Holpy.C07.Driver

def hexVal (c : Char) : Option Nat :=
  if c.isDigit then some (c.toNat - '0'.toNat)
  else if 'a' ≤ c ∧ c ≤ 'f' then some (c.toNat - 'a'.toNat + 10)
  else none

/-- inverse of `enc`: `%<hex>%` is one character, `%e` the empty string -/
partial def decChars : List Char → List Char
  | [] => []
  | '%' :: cs =>
    let h := cs.takeWhile (· ≠ '%')
    let rest := (cs.dropWhile (· ≠ '%')).drop 1
    let n := h.foldl (fun acc c => acc * 16 + (hexVal c).getD 0) 0
    Char.ofNat n :: decChars rest
  | c :: cs => c :: decChars cs

def dec (s : String) : String := if s = "%e" then "" else String.ofList (decChars s.toList)

def safe : List Char := "abcdefghijklmnopqrstuvwxyzABCDEFGHIJKLMNOPQRSTUVWXYZ0123456789_-+.'?:=<>!*/&|~^@#$,;[]{}".toList

def hexDigits (n : Nat) : List Char := (Nat.toDigits 16 n)

def enc (s : String) : String :=
  if s = "" then "%e" else
  String.ofList (s.toList.flatMap fun c => if safe.contains c then [c] else '%' :: hexDigits c.toNat ++ ['%'])

def toCodes (s : String) : List Nat := s.toList.map Char.toNat
def ofCodes (cs : List Nat) : String := String.ofList (cs.map Char.ofNat)

mutual
partial def tyOf : Sexp → Option Ty
  | .list [.atom "tvar", .atom s] => some (.tvar (toCodes (dec s)))
  | .list [.atom "stvar", .atom s] => some (.stvar (toCodes (dec s)))
  | .list [.atom "fn", a, b] => do some (.fn (← tyOf a) (← tyOf b))
  | .list [.atom "con", .atom n, .list args] => do some (.con (toCodes (dec n)) (← tysOf args))
  | _ => none
partial def tysOf : List Sexp → Option TyList
  | [] => some .nil
  | x :: xs => do some (.cons (← tyOf x) (← tysOf xs))
end

mutual
partial def tyTo : Ty → Sexp
  | .tvar s => .list [.atom "tvar", .atom (enc (ofCodes s))]
  | .stvar s => .list [.atom "stvar", .atom (enc (ofCodes s))]
  | .fn a b => .list [.atom "fn", tyTo a, tyTo b]
  | .con n args => .list [.atom "con", .atom (enc (ofCodes n)), .list (tysTo args)]
partial def tysTo : TyList → List Sexp
  | .nil => []
  | .cons t ts => tyTo t :: tysTo ts
end

partial def skelOf : Sexp → Option Skel
  | .list [.atom "atom", .atom s] => some (.atom (toCodes (dec s)))
  | .list [.atom "app", f, a] => do some (.app (← skelOf f) (← skelOf a))
  | .list [.atom "bin", o, l, r] => do some (.bin (← o.toNat?) (← skelOf l) (← skelOf r))
  | .list [.atom "un", o, a] => do some (.un (← o.toNat?) (← skelOf a))
  | .list [.atom "binder", b, .atom x, body] => do some (.binder (← b.toNat?) (toCodes (dec x)) (← skelOf body))
  | .list [.atom "ite", c, a, b] => do some (.ite (← skelOf c) (← skelOf a) (← skelOf b))
  | .list [.atom "ann", t, ty] => do some (.ann (← skelOf t) (← tyOf ty))
  | .list [.atom "bindert", b, .atom x, ty, body] => do some (.binderT (← b.toNat?) (toCodes (dec x)) (← tyOf ty) (← skelOf body))
  | .list [.atom "interval", a, b] => do some (.interval (← skelOf a) (← skelOf b))
  | .list [.atom "collect", .atom x, body] => do some (.collect (toCodes (dec x)) (← skelOf body))
  | .list [.atom "collectt", .atom x, ty, body] => do some (.collectT (toCodes (dec x)) (← tyOf ty) (← skelOf body))
  | _ => none

partial def skelTo : Skel → Sexp
  | .atom s => .list [.atom "atom", .atom (enc (ofCodes s))]
  | .app f a => .list [.atom "app", skelTo f, skelTo a]
  | .bin o l r => .list [.atom "bin", Sexp.ofNat o, skelTo l, skelTo r]
  | .un o a => .list [.atom "un", Sexp.ofNat o, skelTo a]
  | .binder b x body => .list [.atom "binder", Sexp.ofNat b, .atom (enc (ofCodes x)), skelTo body]
  | .ite c a b => .list [.atom "ite", skelTo c, skelTo a, skelTo b]
  | .ann t ty => .list [.atom "ann", skelTo t, tyTo ty]
  | .binderT b x ty body => .list [.atom "bindert", Sexp.ofNat b, .atom (enc (ofCodes x)), tyTo ty, skelTo body]
  | .interval a b => .list [.atom "interval", skelTo a, skelTo b]
  | .collect x body => .list [.atom "collect", .atom (enc (ofCodes x)), skelTo body]
  | .collectT x ty body => .list [.atom "collectt", .atom (enc (ofCodes x)), tyTo ty, skelTo body]

def tokTo : Tok → Sexp
  | .lp => .atom "lp" | .rp => .atom "rp" | .dot => .atom "dot"
  | .kif => .atom "if" | .kthen => .atom "then" | .kelse => .atom "else"
  | .sym s => .list [.atom "sym", .atom (enc (Gen.symbols.getD s "?"))]
  | .id s => .list [.atom "id", .atom (enc (ofCodes s))]

def tokOf : Sexp → Option Tok
  | .atom "lp" => some .lp | .atom "rp" => some .rp | .atom "dot" => some .dot
  | .atom "if" => some .kif | .atom "then" => some .kthen | .atom "else" => some .kelse
  | .list [.atom "sym", .atom s] => some (.sym (Gen.symbols.idxOf (dec s)))
  | .list [.atom "id", .atom s] => some (.id (toCodes (dec s)))
  | _ => none

partial def pairOf : Sexp → Option InstPair
  | .list [.atom "ty", .atom a, t] => do some (.ty (toCodes (dec a)) (← tyOf t))
  | .list [.atom "tm", .atom x, t] => do some (.tm (toCodes (dec x)) (← skelOf t))
  | _ => none

def pairTo : InstPair → Sexp
  | .ty a t => .list [.atom "ty", .atom (enc (ofCodes a)), tyTo t]
  | .tm x t => .list [.atom "tm", .atom (enc (ofCodes x)), skelTo t]

def namesOKb (S : List (List Nat)) : Skel → Bool
  | .atom s => NameOK S s
  | .app f a => namesOKb S f && namesOKb S a
  | .bin _ l r => namesOKb S l && namesOKb S r
  | .un _ a => namesOKb S a
  | .binder _ x body => NameOK S x && idShaped x && namesOKb S body
  | .ite c a b => namesOKb S c && namesOKb S a && namesOKb S b
  | .ann t ty => namesOKb S t && ty.namesOKb S
  | .binderT _ x ty body => NameOK S x && idShaped x && ty.namesOKb S && namesOKb S body
  | .interval a b => namesOKb S a && namesOKb S b
  | .collect x body => NameOK S x && idShaped x && namesOKb S body
  | .collectT x ty body => NameOK S x && idShaped x && ty.namesOKb S && namesOKb S body

/-! matching a real line-broken text against `printTextW`: is it `printTextW sepB sepF [] t` for SOME
separators with `SepOK`?  (After a separator the text never begins with whitespace, so the separator
is the maximal whitespace run.) -/
def eatPrefix (p cs : List Nat) : Option (List Nat) := if p.isPrefixOf cs then some (cs.drop p.length) else none
def eatSepB : List Nat → Option (List Nat)
  | 32 :: r => some (r.dropWhile isWs)
  | _ => none
def eatSepF : List Nat → Option (List Nat)
  | c :: r => if isWs c then some (r.dropWhile isWs) else none
  | [] => none

mutual
partial def matchW (uni : Bool) : Skel → List Nat → Option (List Nat)
  | .atom s, cs => eatPrefix s cs
  | .app f a, cs => do
    let r ← matchWrap uni (brF Gen.table f.cls) f cs
    let r ← eatSepB r
    matchWrap uni (brA Gen.table a.cls) a r
  | .bin o l r, cs => do
    let x ← matchWrap uni (brL Gen.table o l.cls) l cs
    let x ← eatSepB x
    let x ← eatPrefix (Gen.table.spellTxt uni o) x
    let x ← eatSepB x
    matchWrap uni (brR Gen.table o r.cls) r x
  | .un o a, cs => do
    let x ← eatPrefix (Gen.table.spellTxt uni o) cs
    matchWrap uni (brU Gen.table o a.cls) a x
  | .binder b x body, cs => do
    let r ← eatPrefix (binderTxt Gen.table Gen.ladder uni b) cs
    let r ← eatPrefix x r
    let r ← eatPrefix [46, 32] r
    matchW uni body r
  | .ite c a b, cs => do
    let r ← eatPrefix kwIf cs
    let r ← eatSepB r
    let r ← matchW uni c r
    let r ← eatSepB r
    let r ← eatPrefix kwThen r
    let r ← eatSepB r
    let r ← matchW uni a r
    let r ← eatSepF r
    let r ← eatPrefix kwElse r
    let r ← eatSepB r
    matchW uni b r
  | .ann t ty, cs => do
    let r ← eatPrefix [40] cs
    let r ← matchW uni t r
    let r ← eatPrefix (58 :: 58 :: printTyText Gen.ladder.ty Gen.symbolsC uni ty) r
    eatPrefix [41] r
  | .binderT b x ty body, cs => do
    let r ← eatPrefix (binderTxt Gen.table Gen.ladder uni b) cs
    let r ← eatPrefix x r
    let r ← eatPrefix (58 :: 58 :: printTyText Gen.ladder.ty Gen.symbolsC uni ty) r
    let r ← eatPrefix [46, 32] r
    matchW uni body r
  | .interval a b, cs => do
    let r ← eatPrefix [123] cs
    let r ← matchW uni a r
    let r ← eatPrefix [46, 46] r
    let r ← matchW uni b r
    eatPrefix [125] r
  | .collect x body, cs => do
    let r ← eatPrefix [123] cs
    let r ← eatPrefix x r
    let r ← eatPrefix [46, 32] r
    let r ← matchW uni body r
    eatPrefix [125] r
  | .collectT x ty body, cs => do
    let r ← eatPrefix [123] cs
    let r ← eatPrefix x r
    let r ← eatPrefix (58 :: 58 :: printTyText Gen.ladder.ty Gen.symbolsC uni ty) r
    let r ← eatPrefix [46, 32] r
    let r ← matchW uni body r
    eatPrefix [125] r
partial def matchWrap (uni : Bool) (b : Bool) (t : Skel) (cs : List Nat) : Option (List Nat) :=
  if b then do
    let r ← eatPrefix [40] cs
    let r ← matchW uni t r
    eatPrefix [41] r
  else matchW uni t cs
end

def handle (line : String) : String :=
  match Sexp.parse line with
  | some (.list [.atom "print", u, t]) =>
    match u.toBool?, skelOf t with
    | some uni, some sk => toString (Sexp.list ((printSkel Gen.table Gen.ladder uni sk).map tokTo))
    | _, _ => "bad-op"
  | some (.list [.atom "parse", .list ts]) =>
    match ts.mapM tokOf with
    | some toks =>
      match parseSkel Gen.table Gen.ladder toks with
      | some sk => toString (skelTo sk)
      | none => "none"
    | none => "bad-op"
  | some (.list [.atom "lex", .atom s]) =>
    match lex Gen.symbolsC (toCodes (dec s)) with
    | some toks => toString (Sexp.list (toks.map tokTo))
    | none => "none"
  | some (.list [.atom "printtext", u, t]) =>
    match u.toBool?, skelOf t with
    | some uni, some sk => enc (ofCodes (printText Gen.table Gen.ladder Gen.symbolsC uni sk))
    | _, _ => "bad-op"
  | some (.list [.atom "matchbroken", u, t, .atom s]) =>
    match u.toBool?, skelOf t with
    | some uni, some sk => toString (Sexp.ofBool (matchW uni sk (toCodes (dec s)) == some []))
    | _, _ => "bad-op"
  | some (.list [.atom "namesok", t]) =>
    match skelOf t with
    | some sk => toString (Sexp.ofBool (namesOKb Gen.symbolsC sk))
    | none => "bad-op"
  | some (.list [.atom "printty", u, t]) =>
    match u.toBool?, tyOf t with
    | some uni, some ty => toString (Sexp.list ((printTy Gen.tySyms uni ty).map tokTo))
    | _, _ => "bad-op"
  | some (.list [.atom "printtytext", u, t]) =>
    match u.toBool?, tyOf t with
    | some uni, some ty => enc (ofCodes (printTyText Gen.tySyms Gen.symbolsC uni ty))
    | _, _ => "bad-op"
  | some (.list [.atom "tynamesok", t]) =>
    match tyOf t with
    | some ty => toString (Sexp.ofBool (ty.namesOKb Gen.symbolsC))
    | none => "bad-op"
  | some (.list [.atom "printthmtext", u, .list hs, c]) =>
    match u.toBool?, hs.mapM skelOf, skelOf c with
    | some uni, some hyps, some concl =>
      enc (ofCodes (printThmText Gen.table Gen.ladder Gen.symbolsC Gen.seqSyms uni hyps concl))
    | _, _, _ => "bad-op"
  | some (.list [.atom "printinst", u, .list ps]) =>
    match u.toBool?, ps.mapM pairOf with
    | some uni, some pairs =>
      toString (Sexp.list ((printInst Gen.table Gen.ladder Gen.tySyms Gen.instSyms uni pairs).map tokTo))
    | _, _ => "bad-op"
  | some (.list [.atom "parseinsttext", .atom s]) =>
    match lex Gen.symbolsC (toCodes (dec s)) with
    | some toks =>
      match parseInst Gen.table Gen.ladder Gen.tySyms Gen.instSyms toks with
      | some pairs => toString (Sexp.list (pairs.map pairTo))
      | none => "none"
    | none => "none"
  | some (.list [.atom "printlit", k, u, .list es]) =>
    -- k: true = list literal, false = set literal
    match k.toBool?, u.toBool?, es.mapM skelOf with
    | some isList, some uni, some entries =>
      toString (Sexp.list ((printLit Gen.table Gen.ladder (if isList then Gen.listSyms else Gen.setSyms) uni entries).map tokTo))
    | _, _, _ => "bad-op"
  | some (.list [.atom "parselittext", k, .atom s]) =>
    match k.toBool?, lex Gen.symbolsC (toCodes (dec s)) with
    | some isList, some toks =>
      match parseLit Gen.table Gen.ladder (if isList then Gen.listSyms else Gen.setSyms) toks with
      | some (entries, []) => toString (Sexp.list (entries.map skelTo))
      | _ => "none"
    | none, _ => "bad-op"
    | _, none => "none"
  | some (.list [.atom "parsetytext", .atom s]) =>
    match lex Gen.symbolsC (toCodes (dec s)) with
    | some toks =>
      match parseTy Gen.tySyms toks with
      | some ty => toString (tyTo ty)
      | none => "none"
    | none => "none"
  | some (.list [.atom "printthm", u, .list hs, c]) =>
    match u.toBool?, hs.mapM skelOf, skelOf c with
    | some uni, some hyps, some concl =>
      toString (Sexp.list ((printThm Gen.table Gen.ladder Gen.seqSyms uni hyps concl).map tokTo))
    | _, _, _ => "bad-op"
  | some (.list [.atom "parsethmtext", .atom s]) =>
    match lex Gen.symbolsC (toCodes (dec s)) with
    | some toks =>
      match parseThm Gen.table Gen.ladder Gen.seqSyms toks with
      | some (hyps, c) => toString (Sexp.list [.list (hyps.map skelTo), skelTo c])
      | none => "none"
    | none => "none"
  | some (.list [.atom "parsetext", .atom s]) =>
    match lex Gen.symbolsC (toCodes (dec s)) with
    | some toks =>
      match parseSkel Gen.table Gen.ladder toks with
      | some sk => toString (skelTo sk)
      | none => "none"
    | none => "none"
  | _ => "bad-op"

end Holpy.C07.Driver

def main : IO Unit := Holpy.lineLoop Holpy.C07.Driver.handle
