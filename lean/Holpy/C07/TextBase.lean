import Holpy.C07.Model
/-
C07 — helpers shared by the text models of terms and types.  Import-free.
-/
namespace Holpy.C07

def wrapT (b : Bool) (cs : List Nat) : List Nat := if b then 40 :: cs ++ [41] else cs

/-- the trimmed spelling (blanks removed) -/
def trimC (w : List Nat) : List Nat := w.filter (· ≠ 32)

def idShaped (w : List Nat) : Bool :=
  match w with
  | [] => false
  | c :: cs => isIdStart c && cs.all isIdChar

/-- a symbol that is lexed by the string-terminal branch -/
def symShaped (w : List Nat) : Bool :=
  match w with
  | [] => false
  | c :: _ => !isWs c && !isIdStart c && !isDigitC c

/-- `w` can be followed directly by an identifier -/
def safeBeforeId (S : List (List Nat)) (w : List Nat) : Bool :=
  S.all (fun t => !(w.isPrefixOf t) || t == w || !((t.drop w.length).headD 0 |> isIdStart))

end Holpy.C07
