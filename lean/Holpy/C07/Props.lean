import Holpy.C07.Model
import Holpy.C07.Gen
import Holpy.C07.Proofs
import Holpy.C07.Roundtrip
/-
C07 — property theorems.  `Gen.table` / `Gen.ladder` / `Gen.symbols` are regenerated on every run
from syntax/operator.py and from the grammar text in syntax/parser.py, so these statements are
re-checked against what the two files say now.
-/
namespace Holpy.C07

/-- Every bracket the printer omits (priorities/associativity of `op_data_raw`, the special rules
for prefix operators and application) is one the grammar ladder of parser.py does not need, every
operator spelling of operator.py is a symbol of the ladder level of that operator, and symbols are
unambiguous.  A priority or associativity changed in only one of the two files breaks this. -/
theorem table_consistent : TableConsistent Gen.table Gen.ladder := gen_consistent

example : rowLevel Gen.table Gen.ladder 3 = 4 ∧ (Gen.ladder.at 4).kind = .infixR ∧ rowLevel Gen.table Gen.ladder 6 = 17 ∧
    (Gen.ladder.at 17).kind = .infixL ∧ brR Gen.table 6 (.bin 6) = true ∧ brL Gen.table 6 (.bin 6) = false := by decide +kernel

/-- For every table/ladder pair that is consistent, in ASCII and in Unicode: parsing the token
stream the printer writes for a skeleton gives back the skeleton (recursive descent over the
ladder; fuel = number of tokens + 1 suffices). -/
theorem parse_print_abstract (T : Table) (L : Ladder) (hc : TableConsistent T L) (uni : Bool) (t : Skel)
    (hw : t.WF T L) : parseSkel T L (printSkel T L uni t) = some t :=
  parse_print_core hc uni t hw

example : ∃ T L, TableConsistent T L ∧ T.ops.length = 29 := ⟨Gen.table, Gen.ladder, gen_consistent, by decide⟩

/-- The same for the tables of the current sources: for every well-formed skeleton over
`op_data_raw` (operators in all argument positions, prefix operators, application, binders, if)
print-then-parse is the identity.  This is a statement about TOKEN lists: identifiers are opaque
`id` tokens, and no theorem relates the printed text to tokens (spacing, the `". "` terminal,
unary vs binary `-`, keyword clashes, `NameOK`); that step is checked at run time only, by running
the model lexer on the real printed texts (correspondence stream). -/
theorem parse_print (uni : Bool) (t : Skel) (hw : t.WF Gen.table Gen.ladder) :
    parseSkel Gen.table Gen.ladder (printSkel Gen.table Gen.ladder uni t) = some t :=
  parse_print_core gen_consistent uni t hw

/-- `(A & B) & (~C Mem S)`-like instance: left-nested right-associative operator and a negation
under a comparison both need (and get) brackets. -/
def exampleSkel : Skel :=
  .bin 3 (.bin 3 (.atom [65]) (.atom [66])) (.bin 21 (.un 5 (.atom [67])) (.app (.atom [102]) (.binder 1 [120] (.atom [120]))))

example : exampleSkel.WF Gen.table Gen.ladder :=
  ⟨by decide, by decide, ⟨by decide, by decide, trivial, trivial⟩,
   ⟨by decide, by decide, ⟨by decide, by decide, trivial⟩, ⟨trivial, by decide, trivial⟩⟩⟩

example : (printSkel Gen.table Gen.ladder false exampleSkel).length = 18 ∧
    parseSkel Gen.table Gen.ladder (printSkel Gen.table Gen.ladder false exampleSkel) = some exampleSkel := by
  decide +kernel

/-- the binder spellings of operator.py (`binder_data_raw`) and of pprint.py (lambda) are the ones
the printer model uses, and `table_consistent` ties each to a binder alternative of the grammar -/
example : binderSpell Gen.table Gen.ladder false 1 = (Gen.table.binders.getD 0 default).ascii ∧
    binderSpell Gen.table Gen.ladder true 0 = Gen.table.lam.unicode ∧
    printSkel Gen.table Gen.ladder true (.binder 0 [120] (.atom [120])) = [.sym Gen.table.lam.unicode, .id [120], .dot, .id [120]] := by
  decide +kernel

/-! ### memo table (`pprint.term_ast`) over an abstract term equality -/

structure MemoKey (α : Type) where
  t : α
  uni : Bool
  names : List String

/-- dictionary lookup with the key equality Python uses: `==` on terms (alpha-equivalence), the
unicode flag, the list of binder names -/
def memoLookup {α β : Type} (eqv : α → α → Bool) : List (MemoKey α × β) → MemoKey α → Option β
  | [], _ => none
  | (k, v) :: rest, q =>
    if eqv k.t q.t && (k.uni == q.uni) && (k.names == q.names) then some v else memoLookup eqv rest q

/-- `get_ast_term`: return the cached AST on a hit, else compute and store -/
def memoGet {α β : Type} (eqv : α → α → Bool) (names : α → List String) (fresh : α → Bool → β)
    (memo : List (MemoKey α × β)) (t : α) (uni : Bool) : β × List (MemoKey α × β) :=
  match memoLookup eqv memo ⟨t, uni, names t⟩ with
  | some v => (v, memo)
  | none => (fresh t uni, (⟨t, uni, names t⟩, fresh t uni) :: memo)

def MemoInv {α β : Type} (names : α → List String) (fresh : α → Bool → β) (memo : List (MemoKey α × β)) : Prop :=
  ∀ kv ∈ memo, kv.2 = fresh kv.1.t kv.1.uni ∧ kv.1.names = names kv.1.t

/-- If the AST computed from scratch depends only on the alpha-class of the term, the names of
ALL its binders and the unicode flag, then whatever was printed before, `get_ast_term` returns
what a fresh computation returns, and the table stays correct.  PARTIAL: the hypothesis `hcongr`
is assumed, not derived from a model of `get_ast_term`; hash/`==` agreement is C03's; the current
theory is not part of the key. -/
theorem memo_key_sound_partial {α β : Type} (eqv : α → α → Bool) (names : α → List String) (fresh : α → Bool → β)
    (hcongr : ∀ t1 t2 u, eqv t1 t2 = true → names t1 = names t2 → fresh t1 u = fresh t2 u)
    (memo : List (MemoKey α × β)) (hinv : MemoInv names fresh memo) (t : α) (uni : Bool) :
    (memoGet eqv names fresh memo t uni).1 = fresh t uni ∧ MemoInv names fresh (memoGet eqv names fresh memo t uni).2 := by
  have hl : ∀ (m : List (MemoKey α × β)), MemoInv names fresh m → ∀ v, memoLookup eqv m ⟨t, uni, names t⟩ = some v → v = fresh t uni := by
    intro m
    induction m with
    | nil => intro _ v h; simp [memoLookup] at h
    | cons kv rest ih =>
      intro hm v h
      obtain ⟨k, w⟩ := kv
      simp only [memoLookup] at h
      split at h
      · rename_i hcond
        simp only [Bool.and_eq_true, beq_iff_eq] at hcond
        obtain ⟨⟨h1, h2⟩, h3⟩ := hcond
        have hk := hm (k, w) (by simp)
        simp only at hk
        cases h
        rw [hk.1, ← h2]
        exact hcongr k.t t k.uni h1 (by rw [← hk.2, h3])
      · exact ih (fun kv hkv => hm kv (by simp [hkv])) v h
  unfold memoGet
  split
  · rename_i v hv
    exact ⟨hl memo hinv v hv, hinv⟩
  · refine ⟨rfl, ?_⟩
    intro kv hkv
    simp only [List.mem_cons] at hkv
    rcases hkv with rfl | h
    · exact ⟨rfl, rfl⟩
    · exact hinv kv h

/-- with the pre-fix key (names of the outermost binders only) the hypothesis fails: two alpha-equal
terms with the same outer names but different inner names have different fresh ASTs -/
example : ∃ (eqv : Nat → Nat → Bool) (outer : Nat → List String) (fresh : Nat → Bool → String),
    eqv 0 1 = true ∧ outer 0 = outer 1 ∧ fresh 0 false ≠ fresh 1 false :=
  ⟨fun _ _ => true, fun _ => ["x"], fun n _ => if n = 0 then "!x. ?y. R x y" else "!x. ?z. R x z", rfl, rfl, by decide⟩

example : (memoGet (fun a b => a == b) (fun (_ : Nat) => ["x"]) (fun n _ => n + 1) [] 5 true).1 = 6 := by decide

end Holpy.C07
