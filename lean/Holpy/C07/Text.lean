import Holpy.C07.TypeText
/-
C07 — the TEXT the printer writes (`print_ast` without a line limit) for the precedence core, and the
decidable conditions on the terminals of the grammar under which the lexer reads it back token by
token.  Import-free.
-/
namespace Holpy.C07

/-- the spelling of operator row `o` exactly as `print_ast` writes it (`op_data.ascii_op` / `unicode_op`) -/
def Table.spellTxt (T : Table) (uni : Bool) (o : Nat) : List Nat :=
  if uni then (T.row o).unicodeTxt else (T.row o).asciiTxt

def binderTxt (T : Table) (L : Ladder) (uni : Bool) (b : Nat) : List Nat :=
  if uni then (binderRow T L b).unicodeTxt else (binderRow T L b).asciiTxt

def kwIf : List Nat := [105, 102]
def kwThen : List Nat := [116, 104, 101, 110]
def kwElse : List Nat := [101, 108, 115, 101]

/-- `print_ast (get_ast_term t)` with `line_length = None`, as a list of code points -/
def printText (T : Table) (L : Ladder) (S : List (List Nat)) (uni : Bool) : Skel → List Nat
  | .atom s => s
  | .app f a => wrapT (brF T f.cls) (printText T L S uni f) ++ 32 :: wrapT (brA T a.cls) (printText T L S uni a)
  | .bin o l r => wrapT (brL T o l.cls) (printText T L S uni l) ++ 32 :: (T.spellTxt uni o ++ 32 :: wrapT (brR T o r.cls) (printText T L S uni r))
  | .un o a => T.spellTxt uni o ++ wrapT (brU T o a.cls) (printText T L S uni a)
  | .binder b x body => binderTxt T L uni b ++ (x ++ 46 :: 32 :: printText T L S uni body)
  | .ite c a b => kwIf ++ 32 :: (printText T L S uni c ++ 32 :: (kwThen ++ 32 :: (printText T L S uni a ++ 32 :: (kwElse ++ 32 :: printText T L S uni b))))
  | .ann t ty => 40 :: (printText T L S uni t ++ (58 :: 58 :: (printTyText L.ty S uni ty ++ [41])))
  | .binderT b x ty body => binderTxt T L uni b ++ (x ++ (58 :: 58 :: (printTyText L.ty S uni ty ++ 46 :: 32 :: printText T L S uni body)))
  | .interval a b => 123 :: (printText T L S uni a ++ 46 :: 46 :: (printText T L S uni b ++ [125]))
  | .collect x body => 123 :: (x ++ 46 :: 32 :: (printText T L S uni body ++ [125]))
  | .collectT x ty body => 123 :: (x ++ (58 :: 58 :: (printTyText L.ty S uni ty ++ 46 :: 32 :: (printText T L S uni body ++ [125]))))

/-- The printed text with line breaks: `print_ast` with a line width writes, where the unbroken layout has
a separating blank, that blank followed by more whitespace (newline and indentation) — `sepB path slot`,
arbitrary — and before `else` an arbitrary nonempty whitespace run `sepF path` (newline + indentation
instead of the blank).  Nothing else changes: no whitespace inside `. `, after a prefix operator or
inside brackets.  `path` identifies the position in the term, so every layout of this shape is covered. -/
def printTextW (T : Table) (L : Ladder) (S : List (List Nat)) (uni : Bool) (sepB : List Nat → Nat → List Nat) (sepF : List Nat → List Nat) :
    List Nat → Skel → List Nat
  | _, .atom s => s
  | p, .app f a => wrapT (brF T f.cls) (printTextW T L S uni sepB sepF (0 :: p) f) ++
      32 :: (sepB p 0 ++ wrapT (brA T a.cls) (printTextW T L S uni sepB sepF (1 :: p) a))
  | p, .bin o l r => wrapT (brL T o l.cls) (printTextW T L S uni sepB sepF (0 :: p) l) ++
      32 :: (sepB p 0 ++ (T.spellTxt uni o ++ 32 :: (sepB p 1 ++ wrapT (brR T o r.cls) (printTextW T L S uni sepB sepF (1 :: p) r))))
  | p, .un o a => T.spellTxt uni o ++ wrapT (brU T o a.cls) (printTextW T L S uni sepB sepF (0 :: p) a)
  | p, .binder b x body => binderTxt T L uni b ++ (x ++ 46 :: 32 :: printTextW T L S uni sepB sepF (0 :: p) body)
  | p, .ite c a b => kwIf ++ 32 :: (sepB p 0 ++ (printTextW T L S uni sepB sepF (0 :: p) c ++ 32 :: (sepB p 1 ++ (kwThen ++ 32 :: (sepB p 2 ++
      (printTextW T L S uni sepB sepF (1 :: p) a ++ (sepF p ++ (kwElse ++ 32 :: (sepB p 3 ++ printTextW T L S uni sepB sepF (2 :: p) b)))))))))
  | p, .ann t ty => 40 :: (printTextW T L S uni sepB sepF (0 :: p) t ++ (58 :: 58 :: (printTyText L.ty S uni ty ++ [41])))
  | p, .binderT b x ty body => binderTxt T L uni b ++ (x ++ (58 :: 58 :: (printTyText L.ty S uni ty ++
      46 :: 32 :: printTextW T L S uni sepB sepF (0 :: p) body)))
  | p, .interval a b => 123 :: (printTextW T L S uni sepB sepF (0 :: p) a ++ 46 :: 46 :: (printTextW T L S uni sepB sepF (1 :: p) b ++ [125]))
  | p, .collect x body => 123 :: (x ++ 46 :: 32 :: (printTextW T L S uni sepB sepF (0 :: p) body ++ [125]))
  | p, .collectT x ty body => 123 :: (x ++ (58 :: 58 :: (printTyText L.ty S uni ty ++ 46 :: 32 :: (printTextW T L S uni sepB sepF (0 :: p) body ++ [125]))))

/-- the inserted characters are whitespace; the run before `else` is not empty -/
def SepOK (sepB : List Nat → Nat → List Nat) (sepF : List Nat → List Nat) : Prop :=
  (∀ p i c, c ∈ sepB p i → isWs c = true) ∧ (∀ p, sepF p ≠ [] ∧ ∀ c ∈ sepF p, isWs c = true)

/-- lexer, then parser: what `parse_term` does with a text (without type inference) -/
def parseText (T : Table) (L : Ladder) (S : List (List Nat)) (cs : List Nat) : Option Skel :=
  (lex S cs).bind (parseSkel T L)

/-- every identifier / numeral of the skeleton is `NameOK` -/
def Skel.NamesOK (S : List (List Nat)) : Skel → Prop
  | .atom s => NameOK S s = true
  | .app f a => f.NamesOK S ∧ a.NamesOK S
  | .bin _ l r => l.NamesOK S ∧ r.NamesOK S
  | .un _ a => a.NamesOK S
  | .binder _ x body => (NameOK S x = true ∧ idShaped x = true) ∧ body.NamesOK S
  | .ite c a b => c.NamesOK S ∧ a.NamesOK S ∧ b.NamesOK S
  | .ann t ty => t.NamesOK S ∧ ty.NamesOK S
  | .binderT _ x ty body => (NameOK S x = true ∧ idShaped x = true) ∧ ty.NamesOK S ∧ body.NamesOK S
  | .interval a b => a.NamesOK S ∧ b.NamesOK S
  | .collect x body => (NameOK S x = true ∧ idShaped x = true) ∧ body.NamesOK S
  | .collectT x ty body => (NameOK S x = true ∧ idShaped x = true) ∧ ty.NamesOK S ∧ body.NamesOK S

/-! ### how a term text may begin -/

/-- all spellings of prefix operators (with their blanks), in both symbol sets -/
def Table.unaryTxts (T : Table) : List (List Nat) :=
  (T.ops.filter (fun r => r.arity = .unary)).flatMap (fun r => [r.asciiTxt, r.unicodeTxt])

def Table.binderTxts (T : Table) : List (List Nat) :=
  T.allBinders.flatMap (fun r => [r.asciiTxt, r.unicodeTxt])

/-- over-approximation of "`u` is a prefix of some term text": decidable, used to show that
no longer terminal can swallow the beginning of an operand -/
def startsOK (T : Table) : Nat → List Nat → Bool
  | _, [] => true
  | 0, _ => true
  | f + 1, c :: u =>
    isIdStart c || isDigitC c || c = 40 || c = 123 ||
    T.binderTxts.any (fun p => p.isPrefixOf (c :: u) || (c :: u).isPrefixOf p) ||
    T.unaryTxts.any (fun p => (c :: u).isPrefixOf p || (p ≠ [] && p.isPrefixOf (c :: u) && startsOK T f ((c :: u).drop p.length)))

/-- `w` can be followed directly by an operand: no longer terminal `w ++ u` with `u` a possible text start -/
def safeBeforeTerm (T : Table) (S : List (List Nat)) (w : List Nat) : Bool :=
  S.all (fun t => !(w.isPrefixOf t) || t == w || !startsOK T t.length (t.drop w.length))

/-- spelling `txt` of symbol `id`: its trimmed form is terminal number `id`, it lexes to `.sym id`, and
its blanks are where the lexer needs them -/
def spellOK (T : Table) (S : List (List Nat)) (txt : List Nat) (id : Nat) (beforeTerm beforeId : Bool) : Bool :=
  let w := trimC txt
  S.idxOf w == id && S.contains w && tokOfTerminal S w == .sym id &&
  ((idShaped w && (txt == w ++ [32] || (!beforeTerm && !beforeId && txt == w))) ||
   (symShaped w && !w.contains 32 && txt == w && (!beforeTerm || safeBeforeTerm T S w) && (!beforeId || safeBeforeId S w)))

/-- conditions on the literal terminals `S` of the grammar and the spellings of the printer under which
the lexer reads the printed text back (all decidable; discharged for the generated tables) -/
abbrev TextOK (T : Table) (L : Ladder) (S : List (List Nat)) : Prop :=
  -- the only terminal with a blank is ". "; "." alone is no terminal
  (∀ t ∈ S, t.contains 32 = true → t = [46, 32]) ∧ S.contains [46] = false ∧
  -- brackets, the binder dot and the keywords are terminals; nothing longer starts like "(" + operand,
  -- ")" + blank / ")" / end, ". " + anything
  S.contains [40] = true ∧ S.contains [41] = true ∧ S.contains [46, 32] = true ∧
  S.contains kwIf = true ∧ S.contains kwThen = true ∧ S.contains kwElse = true ∧
  safeBeforeTerm T S [40] = true ∧
  (∀ t ∈ S, [41].isPrefixOf t = true → t = [41] ∨ isWs ((t.drop 1).headD 0) = false ∧ (t.drop 1).headD 0 ≠ 41 ∧ (t.drop 1).headD 0 ≠ 44 ∧ (t.drop 1).headD 0 ≠ 58 ∧ (t.drop 1).headD 0 ≠ 46 ∧ (t.drop 1).headD 0 ≠ 125) ∧
  (∀ t ∈ S, [46, 32].isPrefixOf t = true → t = [46, 32]) ∧
  (∀ t ∈ S, [46].isPrefixOf t = true → t = [46, 32] ∨ (t.drop 1).headD 0 ≠ 32) ∧
  -- operator spellings
  (∀ o < T.ops.length, (T.row o).arity = .binary →
      spellOK T S (T.row o).asciiTxt (T.row o).ascii false false = true ∧
      spellOK T S (T.row o).unicodeTxt (T.row o).unicode false false = true) ∧
  (∀ o < T.ops.length, (T.row o).arity = .unary →
      spellOK T S (T.row o).asciiTxt (T.row o).ascii true false = true ∧
      spellOK T S (T.row o).unicodeTxt (T.row o).unicode true false = true) ∧
  -- binder spellings
  (∀ b < L.binders.length,
      spellOK T S (binderRow T L b).asciiTxt (binderRow T L b).ascii false true = true ∧
      spellOK T S (binderRow T L b).unicodeTxt (binderRow T L b).unicode false true = true) ∧
  -- type annotations: the type syntax, and `::` is a terminal read as its own symbol that nothing longer starts with
  TypeTextOK L.ty S ∧
  (S.contains [58, 58] = true ∧ tokOfTerminal S [58, 58] = .sym L.dcolon ∧ ∀ t ∈ S, [58, 58].isPrefixOf t = true → t = [58, 58]) ∧
  -- intervals `{m..n}`: "{" and ".." are terminals read as their own symbols that nothing longer starts with when an
  -- operand follows; nothing longer starts with "}"
  ((S.contains [123] = true ∧ tokOfTerminal S [123] = .sym L.lbrace ∧ safeBeforeTerm T S [123] = true) ∧
   (S.contains [46, 46] = true ∧ tokOfTerminal S [46, 46] = .sym L.dotdot ∧ safeBeforeTerm T S [46, 46] = true) ∧
   (S.contains [125] = true ∧ tokOfTerminal S [125] = .sym L.rbrace ∧ ∀ t ∈ S, [125].isPrefixOf t = true → t = [125]))

end Holpy.C07
