import Holpy.C07.PropsTypes
import Holpy.C07.LitProofs
/-
C07 — property theorems about list and set literals (token level; the entries are arbitrary modelled terms).
-/
namespace Holpy.C07

/-- `,`, `]` and `}` are no operator symbols or binder spellings; `,` is not the closing bracket, `[` is not `[]`,
`{` is neither `{}` nor `∅` (for the terminals of the current grammar) -/
theorem lit_ok : LitOK Gen.ladder Gen.listSyms ∧ LitOK Gen.ladder Gen.setSyms := by decide +kernel

/-- For every consistent table/ladder and bracket symbols with `LitOK`: the parser for the rules `literal_list` /
`literal_set` reads the token stream of a printed literal (`[]`, `{}` / `∅`, or the entries separated by commas
between the brackets, no entry ever bracketed) back as the same entries and stops exactly behind the literal. -/
theorem literal_parse_print_abstract (T : Table) (L : Ladder) (Q : LitSyms) (hc : TableConsistent T L) (hq : LitOK L Q)
    (uni : Bool) (as : List Skel) (hw : ∀ a ∈ as, a.WF T L) (rest : List Tok) :
    parseLit T L Q (printLit T L Q uni as ++ rest) = some (as, rest) :=
  lit_parse_print_core hc hq uni as hw rest

/-- The same for the tables of the current sources, for list literals `[a, b]` / `[]` and set literals `{a, b}` /
`{}` / `∅` whose entries are any terms of the modelled core.  PARTIAL: the literal stands alone — `Skel` has no
constructor for it, so a literal nested inside a term (or inside another literal) and the TEXT level (lexer) of
literals are not covered by a theorem. -/
theorem literal_parse_print_partial (uni : Bool) (as : List Skel) (hw : ∀ a ∈ as, a.WF Gen.table Gen.ladder) :
    parseLit Gen.table Gen.ladder Gen.listSyms (printLit Gen.table Gen.ladder Gen.listSyms uni as) = some (as, []) ∧
    parseLit Gen.table Gen.ladder Gen.setSyms (printLit Gen.table Gen.ladder Gen.setSyms uni as) = some (as, []) := by
  have h1 := lit_parse_print_core gen_consistent lit_ok.1 uni as hw []
  have h2 := lit_parse_print_core gen_consistent lit_ok.2 uni as hw []
  simp only [List.append_nil] at h1 h2
  exact ⟨h1, h2⟩

/-- `{x + y, if a then b else c, f x}` has 15 tokens and parses to three entries; `∅` is one token and parses to none -/
example : (printLit Gen.table Gen.ladder Gen.setSyms false
      [.bin 6 (.atom [120]) (.atom [121]), .ite (.atom [97]) (.atom [98]) (.atom [99]), .app (.atom [102]) (.atom [120])]).length = 15 ∧
    parseLit Gen.table Gen.ladder Gen.setSyms (printLit Gen.table Gen.ladder Gen.setSyms false
      [.bin 6 (.atom [120]) (.atom [121]), .ite (.atom [97]) (.atom [98]) (.atom [99]), .app (.atom [102]) (.atom [120])])
      = some ([.bin 6 (.atom [120]) (.atom [121]), .ite (.atom [97]) (.atom [98]) (.atom [99]), .app (.atom [102]) (.atom [120])], []) ∧
    parseLit Gen.table Gen.ladder Gen.setSyms (printLit Gen.table Gen.ladder Gen.setSyms true []) = some ([], []) := by
  decide +kernel

end Holpy.C07
