import Holpy.C07.Gen
import Holpy.C07.Proofs
import Holpy.C07.TypeProofs
import Holpy.C07.SeqProofs
/-
C07 — property theorems about types and sequents (token level).  `Gen.tySyms` / `Gen.seqSyms` are the
terminals `'`, `?'`, `=>`, `⇒`, `,`, `|-`, `⊢` of the regenerated terminal list.
-/
namespace Holpy.C07

/-- the symbols of the type syntax are pairwise different (tick / schematic tick, comma / arrows) -/
theorem type_syms_ok : Gen.tySyms.ok := by decide

/-- For all symbol ids with `TySyms.ok`, ASCII and Unicode: the recursive-descent parser for rule `type`
(arrow nests to the right, a constructor name binds tighter than the arrow — Lark's shift preference)
reads the token stream of `print_type` (brackets exactly around an arrow in argument position, tuples
of arguments for constructors of arity ≥ 2) back as the same type. -/
theorem type_parse_print_abstract (C : TySyms) (hok : C.ok) (uni : Bool) (ty : Ty) : parseTy C (printTy C uni ty) = some ty :=
  type_parse_print_core hok uni ty

/-- the same for the terminals of the current grammar -/
theorem type_parse_print (uni : Bool) (ty : Ty) : parseTy Gen.tySyms (printTy Gen.tySyms uni ty) = some ty :=
  type_parse_print_core type_syms_ok uni ty

/-- `('a => ?'b list) => ('a, nat => nat) prod set` -/
def exampleTy : Ty :=
  .fn (.fn (.tvar [97]) (.con [108, 105, 115, 116] (.cons (.stvar [98]) .nil)))
    (.con [115, 101, 116] (.cons (.con [112, 114, 111, 100] (.cons (.tvar [97]) (.cons (.fn (.con [110, 97, 116] .nil) (.con [110, 97, 116] .nil)) .nil))) .nil))

example : (printTy Gen.tySyms false exampleTy).length = 19 ∧ (parseTy Gen.tySyms (printTy Gen.tySyms true exampleTy)).isSome = true := by
  decide +kernel

/-- `,`, `|-`, `⊢` are no operator symbols and no binder spellings of the term syntax, and the comma is no turnstile -/
theorem seq_ok : SeqOK Gen.ladder Gen.seqSyms := by decide +kernel

/-- For every consistent table/ladder and separators with `SeqOK`: parsing the token stream of
`print_thm` (`A1, A2 |- C`, or `|- C`) gives back the hypotheses, in order, and the conclusion. -/
theorem thm_parse_print_abstract (T : Table) (L : Ladder) (Q : SeqSyms) (hc : TableConsistent T L) (hq : SeqOK L Q) (uni : Bool)
    (hyps : List Skel) (c : Skel) (hwh : ∀ x ∈ hyps, x.WF T L) (hwc : c.WF T L) :
    parseThm T L Q (printThm T L Q uni hyps c) = some (hyps, c) :=
  thm_parse_print_core hc hq uni hyps c hwh hwc

/-- the same for the tables of the current sources -/
theorem thm_parse_print (uni : Bool) (hyps : List Skel) (c : Skel)
    (hwh : ∀ x ∈ hyps, x.WF Gen.table Gen.ladder) (hwc : c.WF Gen.table Gen.ladder) :
    parseThm Gen.table Gen.ladder Gen.seqSyms (printThm Gen.table Gen.ladder Gen.seqSyms uni hyps c) = some (hyps, c) :=
  thm_parse_print_core gen_consistent seq_ok uni hyps c hwh hwc

/-- `~A, A | B |- B` -/
example : parseThm Gen.table Gen.ladder Gen.seqSyms
    (printThm Gen.table Gen.ladder Gen.seqSyms false [.un 5 (.atom [65]), .bin 4 (.atom [65]) (.atom [66])] (.atom [66]))
    = some ([.un 5 (.atom [65]), .bin 4 (.atom [65]) (.atom [66])], .atom [66]) := by decide +kernel

end Holpy.C07
