import Holpy.C07.LexSteps
import Holpy.C07.TypeText
/-
C07 — `type_lex_print`: the lexer reads the text of `print_type` back as the tokens `printTy`.
-/
namespace Holpy.C07

variable {S : List (List Nat)} {C : TySyms}

/-- what may follow a type symbol: a blank, or (if checked) an identifier -/
def AfterTySym (bi : Bool) (rest : List Nat) : Prop :=
  (∃ r, rest = 32 :: r) ∨ (bi = true ∧ ∃ c r, rest = c :: r ∧ isIdStart c = true)

theorem sym_steps (h1 : ∀ t ∈ S, t.contains 32 = true → t = [46, 32]) (hdot : S.contains [46] = false)
    {id : Nat} {bi : Bool} (h : symOK S id bi = true) : Steps S (symTxt S id) [.sym id] (AfterTySym bi) := by
  unfold symOK at h
  simp only [Bool.and_eq_true, Bool.or_eq_true, beq_iff_eq, Bool.not_eq_true'] at h
  obtain ⟨⟨⟨hsym, hcont⟩, htok⟩, hbi⟩ := h
  have hne : symTxt S id ≠ [] := by intro h0; rw [h0] at hsym; simp [symShaped] at hsym
  have hst := steps_symbol (S := S) hsym hcont
  rw [htok] at hst
  refine hst.mono ?_
  intro rest hr
  rcases hr with ⟨r, rfl⟩ | ⟨hb, c, r, rfl, hc⟩
  · exact safe_blank h1 hdot hcont hne r
  · rcases hbi with hbi | hbi
    · rw [hbi] at hb; cases hb
    · exact safe_beforeId hbi hc r

theorem tyname_steps {w : List Nat} (h : TyNameOK S w = true) : Steps S w [.id w] NotIdNext := by
  simp only [TyNameOK, Bool.and_eq_true, Bool.not_eq_true'] at h
  have := steps_ident (S := S) h.1
  rw [h.2] at this
  simpa using this

theorem tyname_head {w : List Nat} (h : TyNameOK S w = true) : ∃ c r, w = c :: r ∧ isIdStart c = true := by
  simp only [TyNameOK, Bool.and_eq_true] at h
  cases w with
  | nil => simp [idShaped] at h
  | cons c r =>
    simp only [idShaped, Bool.and_eq_true] at h
    exact ⟨c, r, rfl, h.1.1⟩

theorem tyname_follow {w : List Nat} (h : TyNameOK S w = true) : Steps S w [.id w] Follow :=
  (tyname_steps h).mono (fun _ hr => Follow.notId hr)

theorem lp_steps (hlp : S.contains [40] = true) (hlpOnly : ∀ t ∈ S, [40].isPrefixOf t = true → t = [40]) :
    Steps S [40] [.lp] (fun _ => True) := by
  have := steps_symbol (S := S) (w := [40]) (by decide) hlp
  have h' : Steps S [40] [.lp] (SafeAfter S [40]) := by simpa [tokOfTerminal] using this
  refine h'.mono (fun rest _ => ?_)
  intro m hm hc
  have hmem : (([40] ++ rest).take m) ∈ S := by simpa using hc.2
  have hpre : [40].isPrefixOf (([40] ++ rest).take m) = true := by
    rw [take_append_gt _ _ m hm]; simp [List.isPrefixOf]
  have := hlpOnly _ hmem hpre
  have hl := hc.1
  rw [this] at hl
  simp at hl hm
  omega

theorem rp_steps (hrp : S.contains [41] = true)
    (hsafeR : ∀ t ∈ S, [41].isPrefixOf t = true → t = [41] ∨ isWs ((t.drop 1).headD 0) = false ∧ (t.drop 1).headD 0 ≠ 41 ∧ (t.drop 1).headD 0 ≠ 44 ∧ (t.drop 1).headD 0 ≠ 58 ∧ (t.drop 1).headD 0 ≠ 46 ∧ (t.drop 1).headD 0 ≠ 125) :
    Steps S [41] [.rp] Follow := by
  have := steps_symbol (S := S) (w := [41]) (by decide) hrp
  have h' : Steps S [41] [.rp] (SafeAfter S [41]) := by simpa [tokOfTerminal] using this
  exact h'.mono (fun r hr => safe_rp hsafeR hr)

/-- a bracketed or unbracketed argument type -/
theorem lex_wrap_ty (hlp : S.contains [40] = true) (hrp : S.contains [41] = true)
    (hlpOnly : ∀ t ∈ S, [40].isPrefixOf t = true → t = [40])
    (hsafeR : ∀ t ∈ S, [41].isPrefixOf t = true → t = [41] ∨ isWs ((t.drop 1).headD 0) = false ∧ (t.drop 1).headD 0 ≠ 41 ∧ (t.drop 1).headD 0 ≠ 44 ∧ (t.drop 1).headD 0 ≠ 58 ∧ (t.drop 1).headD 0 ≠ 46 ∧ (t.drop 1).headD 0 ≠ 125)
    {txt : List Nat} {toks : List Tok} (ht : Steps S txt toks Follow) (b : Bool) :
    Steps S (wrapT b txt) (wrap b toks) Follow := by
  cases b with
  | false => simpa [wrapT, wrap] using ht
  | true =>
    have hL := lp_steps hlp hlpOnly
    have hR := rp_steps hrp hsafeR
    have h2 := Steps.append ht hR (fun rest _ => follow_rp rest)
    have h3 := Steps.append hL h2 (fun _ _ => trivial)
    simpa [wrapT, wrap] using h3

theorem tys_follow (hT : TypeTextOK C S) (uni : Bool) (ts : TyList) (rest : List Nat) (hr : Follow rest) :
    Follow (printTyTextMore C S uni ts ++ rest) := by
  cases ts with
  | nil => simpa [printTyTextMore] using hr
  | cons t ts' =>
    have hc := hT.2.2.2.2.2.2.2.2.2.2.2
    simp only [printTyTextMore, hc]
    exact follow_comma _

mutual
theorem ty_lex (hT : TypeTextOK C S) (uni : Bool) : (ty : Ty) → ty.NamesOK S →
    Steps S (printTyText C S uni ty) (printTy C uni ty) Follow
  | .tvar s => by
    intro hn
    obtain ⟨h1, hdot, _, _, _, _, htick, _, _, _, _, _⟩ := id hT
    simp only [Ty.NamesOK] at hn
    have h2 := Steps.append (sym_steps h1 hdot htick) (tyname_follow hn)
      (fun rest _ => by
        obtain ⟨c, r, hw, hc⟩ := tyname_head hn
        exact Or.inr ⟨rfl, c, r ++ rest, by rw [hw]; rfl, hc⟩)
    simpa [printTyText, printTy] using h2
  | .stvar s => by
    intro hn
    obtain ⟨h1, hdot, _, _, _, _, _, hqtick, _, _, _, _⟩ := id hT
    simp only [Ty.NamesOK] at hn
    have h2 := Steps.append (sym_steps h1 hdot hqtick) (tyname_follow hn)
      (fun rest _ => by
        obtain ⟨c, r, hw, hc⟩ := tyname_head hn
        exact Or.inr ⟨rfl, c, r ++ rest, by rw [hw]; rfl, hc⟩)
    simpa [printTyText, printTy] using h2
  | .con name .nil => by
    intro hn
    simp only [Ty.NamesOK] at hn
    simpa [printTyText, printTy] using tyname_follow hn.1
  | .con name (.cons a .nil) => by
    intro hn
    obtain ⟨_, _, hlp, hrp, hlpOnly, hsafeR, _⟩ := id hT
    simp only [Ty.NamesOK, TyList.NamesOK] at hn
    have ha := ty_lex hT uni a hn.2.1
    have wa := lex_wrap_ty hlp hrp hlpOnly hsafeR ha a.isFn
    have h2 := Steps.append wa (Steps.cons_ws (tyname_follow hn.1)) (fun rest _ => follow_blank _)
    simpa [printTyText, printTy] using h2
  | .con name (.cons a (.cons b ts)) => by
    intro hn
    obtain ⟨_, _, hlp, hrp, hlpOnly, hsafeR, _⟩ := id hT
    simp only [Ty.NamesOK, TyList.NamesOK] at hn
    have ha := ty_lex hT uni a hn.2.1
    have hmore := tys_lex hT uni (.cons b ts) (by simp only [TyList.NamesOK]; exact hn.2.2)
    have hL := lp_steps hlp hlpOnly
    have hR := rp_steps hrp hsafeR
    -- ") name"
    have h5 := Steps.append hR (Steps.cons_ws (tyname_follow hn.1)) (fun rest _ => follow_blank _)
    have h4 := Steps.append hmore h5 (fun rest _ => follow_rp _)
    have h3 := Steps.append ha h4 (fun rest _ => by
      have := tys_follow hT uni (.cons b ts) (([41] ++ 32 :: name) ++ rest) (follow_rp _)
      simpa [List.append_assoc] using this)
    have h2 := Steps.append hL h3 (fun _ _ => trivial)
    simpa [printTyText, printTy, List.append_assoc] using h2
  | .fn a b => by
    intro hn
    obtain ⟨h1, hdot, hlp, hrp, hlpOnly, hsafeR, _, _, harrA, harrU, _, _⟩ := id hT
    simp only [Ty.NamesOK] at hn
    have ha := ty_lex hT uni a hn.1
    have hb := ty_lex hT uni b hn.2
    have wa := lex_wrap_ty hlp hrp hlpOnly hsafeR ha a.isFn
    have harr : Steps S (symTxt S (C.arrow uni)) [.sym (C.arrow uni)] (AfterTySym false) := by
      cases uni
      · exact sym_steps h1 hdot harrA
      · exact sym_steps h1 hdot harrU
    have h2 := Steps.append harr (Steps.cons_ws hb) (fun rest _ => Or.inl ⟨_, rfl⟩)
    have h3 := Steps.append wa (Steps.cons_ws h2) (fun rest _ => follow_blank _)
    simpa [printTyText, printTy] using h3

theorem tys_lex (hT : TypeTextOK C S) (uni : Bool) : (ts : TyList) → ts.NamesOK S →
    Steps S (printTyTextMore C S uni ts) (printTyMore C uni ts) Follow
  | .nil => by
    intro _
    intro rest acc f _ hlen
    exact ⟨f, by simpa [printTyTextMore] using hlen, by simp [printTyTextMore, printTyMore]⟩
  | .cons t ts => by
    intro hn
    obtain ⟨h1, hdot, _, _, _, _, _, _, _, _, hcomma, _⟩ := id hT
    simp only [TyList.NamesOK] at hn
    have ht := ty_lex hT uni t hn.1
    have hts := tys_lex hT uni ts hn.2
    have h3 := Steps.append ht hts (fun rest hr => tys_follow hT uni ts rest hr)
    have h2 := Steps.append (sym_steps h1 hdot hcomma) (Steps.cons_ws h3) (fun rest _ => Or.inl ⟨_, rfl⟩)
    simpa [printTyTextMore, printTyMore, List.append_assoc] using h2
end

end Holpy.C07

namespace Holpy.C07

theorem type_lex_print_core {S : List (List Nat)} {C : TySyms} (hT : TypeTextOK C S) (uni : Bool) (ty : Ty) (hn : ty.NamesOK S) :
    lex S (printTyText C S uni ty) = some (printTy C uni ty) := by
  have h := ty_lex hT uni ty hn [] [] ((printTyText C S uni ty).length + 1) (Or.inl rfl) (by simp)
  obtain ⟨f', hf, he⟩ := h
  simp only [List.append_nil] at he
  unfold lex
  rw [he]
  cases f' with
  | zero => simp at hf
  | succ f0 => simp [lexAux]

end Holpy.C07
