import Holpy.C07.Model
/-
C07 — sequents: `print_thm` (hypotheses joined by ", ", then the turnstile, then the conclusion)
and the rule  thm: ("|-"|"⊢") term | term ("," term)* ("|-"|"⊢") term  of the grammar.  Import-free.
-/
namespace Holpy.C07

structure SeqSyms where
  comma : Nat
  turnA : Nat
  turnU : Nat
  deriving Repr

def SeqSyms.turn (Q : SeqSyms) (uni : Bool) : Nat := if uni then Q.turnU else Q.turnA

/-- `, h` for every further hypothesis -/
def printHypsMore (T : Table) (L : Ladder) (Q : SeqSyms) (uni : Bool) : List Skel → List Tok
  | [] => []
  | h :: hs => .sym Q.comma :: (printSkel T L uni h ++ printHypsMore T L Q uni hs)

/-- token stream of `print_thm` -/
def printThm (T : Table) (L : Ladder) (Q : SeqSyms) (uni : Bool) (hyps : List Skel) (concl : Skel) : List Tok :=
  match hyps with
  | [] => .sym (Q.turn uni) :: printSkel T L uni concl
  | h :: hs => printSkel T L uni h ++ (printHypsMore T L Q uni hs ++ .sym (Q.turn uni) :: printSkel T L uni concl)

def isTurn (Q : SeqSyms) (s : Nat) : Bool := s = Q.turnA || s = Q.turnU

/-- the conclusion: a term up to the end of the input -/
def parseConcl (T : Table) (L : Ladder) (ts : List Tok) : Option Skel :=
  match parseAt T L (ts.length + 1) 0 ts with
  | some (c, []) => some c
  | _ => none

/-- `term ("," term)* turnstile term`, the hypotheses read so far in `acc` (reversed) -/
def hypsLoop (T : Table) (L : Ladder) (Q : SeqSyms) : Nat → List Skel → List Tok → Option (List Skel × Skel)
  | 0, _, _ => none
  | g + 1, acc, ts =>
    match parseAt T L (ts.length + 1) 0 ts with
    | some (h, .sym s :: r) =>
      if s = Q.comma then hypsLoop T L Q g (h :: acc) r
      else if isTurn Q s then
        match parseConcl T L r with
        | some c => some ((h :: acc).reverse, c)
        | none => none
      else none
    | _ => none

def parseThm (T : Table) (L : Ladder) (Q : SeqSyms) (ts : List Tok) : Option (List Skel × Skel) :=
  match ts with
  | .sym s :: r =>
    if isTurn Q s then (parseConcl T L r).map (fun c => ([], c)) else hypsLoop T L Q (ts.length + 1) [] ts
  | _ => hypsLoop T L Q (ts.length + 1) [] ts

/-- the separators of a sequent are no operator symbols and no binder spellings of the term syntax -/
abbrev SeqOK (L : Ladder) (Q : SeqSyms) : Prop :=
  (Q.comma ≠ Q.turnA ∧ Q.comma ≠ Q.turnU) ∧
  ∀ s ∈ [Q.comma, Q.turnA, Q.turnU], L.binderIdx s = none ∧ (∀ j < L.n, (L.at j).has s = false) ∧ s ≠ L.lbrace

end Holpy.C07
