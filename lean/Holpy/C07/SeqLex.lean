import Holpy.C07.LexPrint
import Holpy.C07.SeqText
/-
C07 — `thm_lex_print`: the lexer reads the text of `print_thm` back as the tokens `printThm`.
-/
namespace Holpy.C07

variable {S : List (List Nat)} {T : Table} {L : Ladder} {Q : SeqSyms}

theorem hypsMore_follow (hQ : SeqTextOK Q S) (uni : Bool) (hs : List Skel) (rest : List Nat) (hr : Follow rest) :
    Follow (printHypsMoreText T L S Q uni hs ++ rest) := by
  cases hs with
  | nil => simpa [printHypsMoreText] using hr
  | cons h hs' =>
    simp only [printHypsMoreText, hQ.2.2.2]
    exact follow_comma _

theorem hypsMore_lex (hT : TextOK T L S) (hQ : SeqTextOK Q S) (uni : Bool) :
    ∀ hs : List Skel, (∀ x ∈ hs, x.WF T L ∧ x.NamesOK S) →
      Steps S (printHypsMoreText T L S Q uni hs) (printHypsMore T L Q uni hs) Follow := by
  intro hs
  induction hs with
  | nil =>
    intro _ rest acc f _ hlen
    exact ⟨f, by simpa [printHypsMoreText] using hlen, by simp [printHypsMoreText, printHypsMore]⟩
  | cons h hs ih =>
    intro hall
    have hh := hall h (by simp)
    have hl := (lex_term hT uni h hh.1 hh.2).1
    have hm := ih (fun x hx => hall x (by simp [hx]))
    have h3 := Steps.append hl hm (fun rest hr => hypsMore_follow hQ uni hs rest hr)
    have h2 := Steps.append (sym_steps hT.1 hT.2.1 hQ.1) (Steps.cons_ws h3) (fun rest _ => Or.inl ⟨_, rfl⟩)
    simpa [printHypsMoreText, printHypsMore, List.append_assoc] using h2

theorem thm_lex_print_core (hT : TextOK T L S) (hQ : SeqTextOK Q S) (uni : Bool) (hyps : List Skel) (c : Skel)
    (hh : ∀ x ∈ hyps, x.WF T L ∧ x.NamesOK S) (hc : c.WF T L ∧ c.NamesOK S) :
    lex S (printThmText T L S Q uni hyps c) = some (printThm T L Q uni hyps c) := by
  have hturn : Steps S (symTxt S (Q.turn uni)) [.sym (Q.turn uni)] (AfterTySym false) := by
    cases uni
    · exact sym_steps hT.1 hT.2.1 hQ.2.1
    · exact sym_steps hT.1 hT.2.1 hQ.2.2.1
  have hcl := (lex_term hT uni c hc.1 hc.2).1
  have htail := Steps.append hturn (Steps.cons_ws hcl) (fun rest _ => Or.inl ⟨_, rfl⟩)
  have hall : Steps S (printThmText T L S Q uni hyps c) (printThm T L Q uni hyps c) Follow := by
    cases hyps with
    | nil => simpa [printThmText, printThm] using htail
    | cons h hs =>
      have hh0 := hh h (by simp)
      have hl := (lex_term hT uni h hh0.1 hh0.2).1
      have hm := hypsMore_lex (Q := Q) hT hQ uni hs (fun x hx => hh x (by simp [hx]))
      have h3 := Steps.append hm (Steps.cons_ws htail) (fun rest _ => follow_blank _)
      have h2 := Steps.append hl h3 (fun rest _ => by
        have := hypsMore_follow (T := T) (L := L) hQ uni hs
          (32 :: (symTxt S (Q.turn uni) ++ 32 :: printText T L S uni c) ++ rest) (follow_blank _)
        simpa [List.append_assoc] using this)
      simpa [printThmText, printThm, List.append_assoc] using h2
  obtain ⟨f', hf, he⟩ := hall [] [] ((printThmText T L S Q uni hyps c).length + 1) (Or.inl rfl) (by simp)
  simp only [List.append_nil] at he
  unfold lex
  rw [he]
  cases f' with
  | zero => simp at hf
  | succ f0 => simp [lexAux]

end Holpy.C07
