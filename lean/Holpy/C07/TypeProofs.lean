import Holpy.C07.TypeModel
/-
C07 — `type_parse_print`: the recursive-descent parser for the rule `type` reads back the token
stream of the type printer.
-/
namespace Holpy.C07

variable {C : TySyms}

/-- the next token is no constructor name -/
def NoName (rest : List Tok) : Prop := ∀ x r, rest ≠ .id x :: r

/-- what may follow a complete type: no constructor name and no arrow -/
def StopT (C : TySyms) (rest : List Tok) : Prop :=
  NoName rest ∧ ∀ s r, rest = .sym s :: r → s ≠ C.arrowA ∧ s ≠ C.arrowU

theorem tyPost_stop {rest : List Tok} (h : NoName rest) (g : Nat) (t : Ty) : tyPost g t rest = some (t, rest) := by
  cases rest with
  | nil => cases g <;> rfl
  | cons tok r =>
    cases tok with
    | id x => exact absurd rfl (h x r)
    | _ => cases g <;> rfl

theorem tyLevel_of_primPost {self : List Tok → TRes} {ts rest : List Tok} {t : Ty}
    (h : primPost C self ts = some (t, rest)) (hs : ∀ s r, rest = .sym s :: r → s ≠ C.arrowA ∧ s ≠ C.arrowU) :
    tyLevel C self ts = some (t, rest) := by
  unfold tyLevel
  rw [h]
  cases rest with
  | nil => rfl
  | cons tok r =>
    cases tok with
    | sym s =>
      have := hs s r rfl
      simp [this.1, this.2]
    | _ => rfl

theorem wrap_len (b : Bool) (ts : List Tok) : ts.length ≤ (wrap b ts).length := by
  cases b <;> simp [wrap]; omega

structure GoodTy (C : TySyms) (uni : Bool) (ty : Ty) : Prop where
  A : ∀ rest f, StopT C rest → (printTy C uni ty ++ rest).length ≤ f →
        tyLevel C (parseTyAt C f) (printTy C uni ty ++ rest) = some (ty, rest)
  B : ty.isFn = false → ∀ rest f, (printTy C uni ty ++ rest).length ≤ f →
        ∃ g, rest.length ≤ g ∧ primPost C (parseTyAt C f) (printTy C uni ty ++ rest) = tyPost g ty rest

def GoodTys (C : TySyms) (uni : Bool) (ts : TyList) : Prop :=
  ∀ rest f g, (printTyMore C uni ts ++ .rp :: rest).length ≤ f → (printTyMore C uni ts ++ .rp :: rest).length ≤ g →
    tyMore C (parseTyAt C f) g (printTyMore C uni ts ++ .rp :: rest) = some (ts, rest)

/-- `A` from `B` for types that are not arrows -/
theorem A_of_B {uni : Bool} {ty : Ty} (hnf : ty.isFn = false)
    (hB : ∀ rest f, (printTy C uni ty ++ rest).length ≤ f →
        ∃ g, rest.length ≤ g ∧ primPost C (parseTyAt C f) (printTy C uni ty ++ rest) = tyPost g ty rest) :
    ∀ rest f, StopT C rest → (printTy C uni ty ++ rest).length ≤ f →
        tyLevel C (parseTyAt C f) (printTy C uni ty ++ rest) = some (ty, rest) := by
  intro rest f hst hlen
  obtain ⟨g, _, hg⟩ := hB rest f hlen
  rw [tyPost_stop hst.1] at hg
  exact tyLevel_of_primPost hg hst.2

/-- parsing an operand that is bracketed iff it is an arrow, up to the postfix loop -/
theorem operandT {uni : Bool} {a : Ty} (ha : GoodTy C uni a) (rest : List Tok) (f : Nat)
    (hlen : (wrap a.isFn (printTy C uni a) ++ rest).length ≤ f) :
    ∃ g, rest.length ≤ g ∧ primPost C (parseTyAt C f) (wrap a.isFn (printTy C uni a) ++ rest) = tyPost g a rest := by
  cases hfn : a.isFn with
  | false =>
    rw [hfn] at hlen
    simpa [wrap] using ha.B hfn rest f (by simpa [wrap] using hlen)
  | true =>
    rw [hfn] at hlen
    simp only [wrap, ite_true, List.cons_append, List.append_assoc, List.length_cons, List.length_append] at hlen ⊢
    cases f with
    | zero => omega
    | succ f0 =>
      have hin : parseTyAt C (f0 + 1) (printTy C uni a ++ Tok.rp :: rest) = some (a, Tok.rp :: rest) :=
        ha.A (Tok.rp :: rest) f0 ⟨(fun x r h => by cases h), (fun s r h => by cases h)⟩
          (by simp only [List.length_append, List.length_cons, List.length_nil] at hlen ⊢; omega)
      refine ⟨rest.length, Nat.le_refl _, ?_⟩
      unfold primPost
      simp only [tyPrim, List.nil_append]
      rw [hin]
      simp [tyMore]

end Holpy.C07

namespace Holpy.C07

variable {C : TySyms}

theorem stop_comma_or_rp (hok : C.ok) (uni : Bool) (ts : TyList) (rest : List Tok) :
    StopT C (printTyMore C uni ts ++ .rp :: rest) := by
  cases ts with
  | nil => exact ⟨fun x r h => by simp [printTyMore] at h, fun s r h => by simp [printTyMore] at h⟩
  | cons t ts =>
    refine ⟨fun x r h => by simp [printTyMore] at h, fun s r h => ?_⟩
    simp only [printTyMore, List.cons_append, List.cons.injEq, Tok.sym.injEq] at h
    rw [← h.1]
    exact ⟨hok.2.1, hok.2.2⟩

theorem pr_pos_ty (uni : Bool) (ty : Ty) : 0 < (printTy C uni ty).length := by
  cases ty with
  | tvar s => simp [printTy]
  | stvar s => simp [printTy]
  | fn a b => simp only [printTy, List.length_append, List.length_cons]; omega
  | con name args =>
    cases args with
    | nil => simp [printTy]
    | cons a as =>
      cases as with
      | nil => simp [printTy]
      | cons b bs => simp [printTy]

mutual
theorem ty_good (hok : C.ok) (uni : Bool) : (ty : Ty) → GoodTy C uni ty
  | .tvar s => by
    have hB : ∀ rest f, (printTy C uni (.tvar s) ++ rest).length ≤ f →
        ∃ g, rest.length ≤ g ∧ primPost C (parseTyAt C f) (printTy C uni (.tvar s) ++ rest) = tyPost g (.tvar s) rest := by
      intro rest f _
      exact ⟨rest.length, Nat.le_refl _, by simp [printTy, primPost, tyPrim]⟩
    exact ⟨A_of_B rfl hB, fun _ => hB⟩
  | .stvar s => by
    have hB : ∀ rest f, (printTy C uni (.stvar s) ++ rest).length ≤ f →
        ∃ g, rest.length ≤ g ∧ primPost C (parseTyAt C f) (printTy C uni (.stvar s) ++ rest) = tyPost g (.stvar s) rest := by
      intro rest f _
      exact ⟨rest.length, Nat.le_refl _, by simp [printTy, primPost, tyPrim, Ne.symm hok.1]⟩
    exact ⟨A_of_B rfl hB, fun _ => hB⟩
  | .con name .nil => by
    have hB : ∀ rest f, (printTy C uni (.con name .nil) ++ rest).length ≤ f →
        ∃ g, rest.length ≤ g ∧ primPost C (parseTyAt C f) (printTy C uni (.con name .nil) ++ rest) = tyPost g (.con name .nil) rest := by
      intro rest f _
      exact ⟨rest.length, Nat.le_refl _, by simp [printTy, primPost, tyPrim]⟩
    exact ⟨A_of_B rfl hB, fun _ => hB⟩
  | .con name (.cons a .nil) => by
    have ha := ty_good hok uni a
    have hB : ∀ rest f, (printTy C uni (.con name (.cons a .nil)) ++ rest).length ≤ f →
        ∃ g, rest.length ≤ g ∧ primPost C (parseTyAt C f) (printTy C uni (.con name (.cons a .nil)) ++ rest)
          = tyPost g (.con name (.cons a .nil)) rest := by
      intro rest f hlen
      simp only [printTy, List.append_assoc, List.cons_append, List.nil_append] at hlen ⊢
      obtain ⟨g, hg, he⟩ := operandT ha (.id name :: rest) f hlen
      cases g with
      | zero => simp at hg
      | succ g0 =>
        refine ⟨g0, by simp at hg; omega, ?_⟩
        rw [he]; rfl
    exact ⟨A_of_B rfl hB, fun _ => hB⟩
  | .con name (.cons a (.cons b ts)) => by
    have ha := ty_good hok uni a
    have hts := tys_good hok uni (.cons b ts)
    have hB : ∀ rest f, (printTy C uni (.con name (.cons a (.cons b ts))) ++ rest).length ≤ f →
        ∃ g, rest.length ≤ g ∧ primPost C (parseTyAt C f) (printTy C uni (.con name (.cons a (.cons b ts))) ++ rest)
          = tyPost g (.con name (.cons a (.cons b ts))) rest := by
      intro rest f hlen
      simp only [printTy, List.append_assoc, List.cons_append, List.nil_append] at hlen ⊢
      cases f with
      | zero => simp at hlen
      | succ f0 =>
        have hst := stop_comma_or_rp hok uni (.cons b ts) (.id name :: rest)
        have hin : parseTyAt C (f0 + 1) (printTy C uni a ++ (printTyMore C uni (.cons b ts) ++ Tok.rp :: Tok.id name :: rest))
            = some (a, printTyMore C uni (.cons b ts) ++ Tok.rp :: Tok.id name :: rest) :=
          ha.A _ f0 hst (by simp only [List.length_cons, List.length_append] at hlen ⊢; omega)
        have hmore := hts (.id name :: rest) (f0 + 1)
          (printTyMore C uni (.cons b ts) ++ Tok.rp :: Tok.id name :: rest).length
          (by simp only [List.length_cons, List.length_append] at hlen ⊢; omega) (Nat.le_refl _)
        refine ⟨rest.length, Nat.le_refl _, ?_⟩
        unfold primPost
        simp only [tyPrim]
        rw [hin]
        simp only [hmore]
    exact ⟨A_of_B rfl hB, fun _ => hB⟩
  | .fn a b => by
    have ha := ty_good hok uni a
    have hb := ty_good hok uni b
    refine ⟨?_, fun h => by simp [Ty.isFn] at h⟩
    intro rest f hst hlen
    simp only [printTy, List.append_assoc, List.cons_append] at hlen ⊢
    obtain ⟨g, _, he⟩ := operandT ha (.sym (C.arrow uni) :: (printTy C uni b ++ rest)) f hlen
    rw [tyPost_stop (fun x r h => by cases h)] at he
    cases f with
    | zero =>
      have := pr_pos_ty (C := C) uni b
      simp only [List.length_cons, List.length_append] at hlen; omega
    | succ f0 =>
      have hwl := wrap_len a.isFn (printTy C uni a)
      have hin : parseTyAt C (f0 + 1) (printTy C uni b ++ rest) = some (b, rest) :=
        hb.A rest f0 hst (by simp only [List.length_cons, List.length_append] at hlen ⊢; omega)
      unfold tyLevel
      rw [he]
      have harrow : C.arrow uni = C.arrowA ∨ C.arrow uni = C.arrowU := by cases uni <;> simp [TySyms.arrow]
      simp only [harrow, ite_true, hin]

theorem tys_good (hok : C.ok) (uni : Bool) : (ts : TyList) → GoodTys C uni ts
  | .nil => by
    intro rest f g _ _
    cases g <;> simp [printTyMore, tyMore]
  | .cons t ts => by
    have ht := ty_good hok uni t
    have hts := tys_good hok uni ts
    intro rest f g hf hg
    simp only [printTyMore, List.cons_append, List.append_assoc] at hf hg ⊢
    cases g with
    | zero => simp at hg
    | succ g0 =>
      cases f with
      | zero => simp at hf
      | succ f0 =>
        have hst := stop_comma_or_rp hok uni ts rest
        have hin : parseTyAt C (f0 + 1) (printTy C uni t ++ (printTyMore C uni ts ++ Tok.rp :: rest))
            = some (t, printTyMore C uni ts ++ Tok.rp :: rest) :=
          ht.A _ f0 hst (by simp only [List.length_cons, List.length_append] at hf ⊢; omega)
        have hmore := hts rest (f0 + 1) g0
          (by simp only [List.length_cons, List.length_append] at hf ⊢; omega)
          (by simp only [List.length_cons, List.length_append] at hg ⊢; omega)
        simp only [tyMore, ite_true, hin, hmore]
end

theorem parse_ty_at {C : TySyms} (hok : C.ok) (uni : Bool) (ty : Ty) {rest : List Tok} (hst : StopT C rest) :
    parseTyAt C ((printTy C uni ty ++ rest).length + 1) (printTy C uni ty ++ rest) = some (ty, rest) :=
  (ty_good hok uni ty).A rest _ hst (Nat.le_refl _)

theorem type_parse_print_core (hok : C.ok) (uni : Bool) (ty : Ty) : parseTy C (printTy C uni ty) = some ty := by
  have h := (ty_good hok uni ty).A [] (printTy C uni ty).length
    ⟨(fun x r h => by cases h), (fun s r h => by cases h)⟩ (by simp)
  simp only [List.append_nil] at h
  unfold parseTy
  show (match tyLevel C (parseTyAt C (printTy C uni ty).length) (printTy C uni ty) with
    | some (t, []) => some t | _ => none) = some ty
  rw [h]

end Holpy.C07
