import Holpy.C07.PropsText
import Holpy.C07.Broken
/-
C07 — the line-broken layout.
-/
namespace Holpy.C07

/-- For every layout that keeps each separating blank and adds arbitrary whitespace after it (newline +
indentation, `sepB`), and writes an arbitrary nonempty whitespace run before `else` (`sepF`) — this is
what `print_ast` does for every line width — the lexer produces the same tokens as for the unbroken
text.  Hence every text theorem transfers to every width. -/
theorem broken_same_tokens (uni : Bool) (sepB : List Nat → Nat → List Nat) (sepF : List Nat → List Nat) (hsep : SepOK sepB sepF)
    (t : Skel) (hw : t.WF Gen.table Gen.ladder) (hn : t.NamesOK Gen.symbolsC) (p : List Nat) :
    lex Gen.symbolsC (printTextW Gen.table Gen.ladder Gen.symbolsC uni sepB sepF p t) = lex Gen.symbolsC (printText Gen.table Gen.ladder Gen.symbolsC uni t) :=
  broken_same_tokens_core text_ok uni hsep t hw hn p

/-- lexing and parsing a line-broken text gives back the skeleton -/
theorem parse_print_broken (uni : Bool) (sepB : List Nat → Nat → List Nat) (sepF : List Nat → List Nat) (hsep : SepOK sepB sepF)
    (t : Skel) (hw : t.WF Gen.table Gen.ladder) (hn : t.NamesOK Gen.symbolsC) (p : List Nat) :
    parseText Gen.table Gen.ladder Gen.symbolsC (printTextW Gen.table Gen.ladder Gen.symbolsC uni sepB sepF p t) = some t := by
  have h := parse_print_text uni t hw hn
  unfold parseText at h ⊢
  rw [broken_same_tokens uni sepB sepF hsep t hw hn p]
  exact h

/-- a newline and two blanks after every separating blank, a bare newline before `else` -/
example : SepOK (fun _ _ => [10, 32, 32]) (fun _ => [10]) :=
  ⟨fun _ _ c hc => by simp at hc; rcases hc with rfl | rfl <;> decide, fun _ => ⟨by simp, fun c hc => by simp at hc; rw [hc]; decide⟩⟩

example : printTextW Gen.table Gen.ladder Gen.symbolsC false (fun _ _ => [10, 32]) (fun _ => [10]) []
      (.ite (.atom [65]) (.bin 6 (.atom [120]) (.atom [121])) (.atom [122]))
    = [105, 102, 32, 10, 32, 65, 32, 10, 32, 116, 104, 101, 110, 32, 10, 32, 120, 32, 10, 32, 43, 32, 10, 32, 121, 10,
       101, 108, 115, 101, 32, 10, 32, 122] ∧
    lex Gen.symbolsC (printTextW Gen.table Gen.ladder Gen.symbolsC false (fun _ _ => [10, 32]) (fun _ => [10]) []
      (.ite (.atom [65]) (.bin 6 (.atom [120]) (.atom [121])) (.atom [122])))
    = some [.kif, .id [65], .kthen, .id [120], .sym 10, .id [121], .kelse, .id [122]] := by decide +kernel

end Holpy.C07
