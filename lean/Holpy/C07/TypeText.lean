import Holpy.C07.TextBase
import Holpy.C07.TypeModel
/-
C07 — the TEXT `print_type` writes, and the decidable conditions on the terminals under which the
lexer reads it back.  Import-free.
-/
namespace Holpy.C07

/-- spelling of terminal number `id` -/
def symTxt (S : List (List Nat)) (id : Nat) : List Nat := S.getD id []

mutual
/-- `print_type` (`print_ast (get_ast_type T)`) as code points -/
def printTyText (C : TySyms) (S : List (List Nat)) (uni : Bool) : Ty → List Nat
  | .tvar s => symTxt S C.tick ++ s
  | .stvar s => symTxt S C.qtick ++ s
  | .con name .nil => name
  | .con name (.cons a .nil) => wrapT a.isFn (printTyText C S uni a) ++ 32 :: name
  | .con name (.cons a (.cons b ts)) => 40 :: (printTyText C S uni a ++ (printTyTextMore C S uni (.cons b ts) ++ 41 :: 32 :: name))
  | .fn a b => wrapT a.isFn (printTyText C S uni a) ++ 32 :: (symTxt S (C.arrow uni) ++ 32 :: printTyText C S uni b)
def printTyTextMore (C : TySyms) (S : List (List Nat)) (uni : Bool) : TyList → List Nat
  | .nil => []
  | .cons t ts => symTxt S C.comma ++ 32 :: (printTyText C S uni t ++ printTyTextMore C S uni ts)
end

/-- a type or type-variable name: identifier shape and no literal terminal -/
def TyNameOK (S : List (List Nat)) (w : List Nat) : Bool := idShaped w && !S.contains w

mutual
def Ty.NamesOK (S : List (List Nat)) : Ty → Prop
  | .tvar s => TyNameOK S s = true
  | .stvar s => TyNameOK S s = true
  | .con name args => TyNameOK S name = true ∧ args.NamesOK S
  | .fn a b => a.NamesOK S ∧ b.NamesOK S
def TyList.NamesOK (S : List (List Nat)) : TyList → Prop
  | .nil => True
  | .cons t ts => t.NamesOK S ∧ ts.NamesOK S
end

mutual
def Ty.namesOKb (S : List (List Nat)) : Ty → Bool
  | .tvar s => TyNameOK S s
  | .stvar s => TyNameOK S s
  | .con name args => TyNameOK S name && args.namesOKb S
  | .fn a b => a.namesOKb S && b.namesOKb S
def TyList.namesOKb (S : List (List Nat)) : TyList → Bool
  | .nil => true
  | .cons t ts => t.namesOKb S && ts.namesOKb S
end

/-- terminal number `id` is a symbol the string-terminal branch reads as `.sym id` -/
def symOK (S : List (List Nat)) (id : Nat) (beforeId : Bool) : Bool :=
  let w := symTxt S id
  symShaped w && S.contains w && tokOfTerminal S w == .sym id && (!beforeId || safeBeforeId S w)

/-- conditions on the terminals under which the lexer reads a printed type back -/
abbrev TypeTextOK (C : TySyms) (S : List (List Nat)) : Prop :=
  (∀ t ∈ S, t.contains 32 = true → t = [46, 32]) ∧ S.contains [46] = false ∧
  S.contains [40] = true ∧ S.contains [41] = true ∧
  (∀ t ∈ S, [40].isPrefixOf t = true → t = [40]) ∧
  (∀ t ∈ S, [41].isPrefixOf t = true → t = [41] ∨ isWs ((t.drop 1).headD 0) = false ∧ (t.drop 1).headD 0 ≠ 41 ∧ (t.drop 1).headD 0 ≠ 44 ∧ (t.drop 1).headD 0 ≠ 58 ∧ (t.drop 1).headD 0 ≠ 46 ∧ (t.drop 1).headD 0 ≠ 125) ∧
  symOK S C.tick true = true ∧ symOK S C.qtick true = true ∧
  symOK S C.arrowA false = true ∧ symOK S C.arrowU false = true ∧ symOK S C.comma false = true ∧ symTxt S C.comma = [44]

/-- lexer, then the parser for rule `type`: `parse_type` without the arity check -/
def parseTyText (C : TySyms) (S : List (List Nat)) (cs : List Nat) : Option Ty :=
  (lex S cs).bind (parseTy C)

end Holpy.C07
