import Holpy.C07.Text
/-
C07 — basic facts about the model lexer: one step per kind of chunk.
-/
namespace Holpy.C07

variable {S : List (List Nat)}

theorem idStart_not_ws {c : Nat} (h : isIdStart c = true) : isWs c = false := by
  simp only [isIdStart, isLetter, isWs] at *
  simp at *
  omega

theorem idStart_idChar {c : Nat} (h : isIdStart c = true) : isIdChar c = true := by
  simp only [isIdStart, isIdChar, Bool.or_eq_true] at *
  rcases h with h | h
  · exact Or.inl (Or.inl h)
  · exact Or.inr h

theorem digit_not_ws {c : Nat} (h : isDigitC c = true) : isWs c = false := by
  simp only [isDigitC, isWs] at *
  simp at *
  omega

theorem digit_not_idStart {c : Nat} (h : isDigitC c = true) : isIdStart c = false := by
  simp only [isDigitC, isIdStart, isLetter] at *
  simp at *
  omega

theorem digit_idChar {c : Nat} (h : isDigitC c = true) : isIdChar c = true := by
  simp only [isIdChar, Bool.or_eq_true]
  exact Or.inl (Or.inr h)

/-- `rest` does not continue an identifier or a numeral -/
def NotIdNext (rest : List Nat) : Prop := ∀ c r, rest = c :: r → isIdChar c = false

theorem takeWhile_append_stop (p : Nat → Bool) (w rest : List Nat) (hw : ∀ x ∈ w, p x = true)
    (hr : ∀ c r, rest = c :: r → p c = false) :
    (w ++ rest).takeWhile p = w ∧ (w ++ rest).dropWhile p = rest := by
  induction w with
  | nil =>
    cases rest with
    | nil => simp
    | cons c r => simp [List.takeWhile, List.dropWhile, hr c r rfl]
  | cons x w ih =>
    have hx := hw x (by simp)
    have := ih (fun y hy => hw y (by simp [hy]))
    simp [List.takeWhile, List.dropWhile, hx, this.1, this.2]

theorem lex_ws (f : Nat) (c : Nat) (cs : List Nat) (acc : List Tok) (h : isWs c = true) :
    lexAux S (f + 1) (c :: cs) acc = lexAux S f cs acc := by
  simp [lexAux, h]

/-- an identifier-shaped chunk (name or keyword) -/
theorem lex_ident (f : Nat) (w rest : List Nat) (acc : List Tok) (hw : idShaped w = true) (hr : NotIdNext rest) :
    lexAux S (f + 1) (w ++ rest) acc
      = lexAux S f rest ((if S.contains w then tokOfTerminal S w else .id w) :: acc) := by
  cases w with
  | nil => simp [idShaped] at hw
  | cons c cs =>
    simp only [idShaped, Bool.and_eq_true, List.all_eq_true] at hw
    have hall : ∀ x ∈ c :: cs, isIdChar x = true := by
      intro x hx
      rcases List.mem_cons.1 hx with rfl | hx
      · exact idStart_idChar hw.1
      · exact hw.2 x hx
    have htd := takeWhile_append_stop isIdChar (c :: cs) rest hall hr
    simp only [List.cons_append] at htd ⊢
    simp only [lexAux, idStart_not_ws hw.1, hw.1, Bool.false_eq_true, ite_false, ite_true, htd.1, htd.2]

/-- a numeral -/
theorem lex_num (f : Nat) (w rest : List Nat) (acc : List Tok) (c : Nat) (cs : List Nat) (hwc : w = c :: cs)
    (hc : isDigitC c = true) (hcs : ∀ x ∈ cs, isDigitC x = true) (hr : NotIdNext rest) :
    lexAux S (f + 1) (w ++ rest) acc = lexAux S f rest (.id w :: acc) := by
  subst hwc
  have hall : ∀ x ∈ c :: cs, isDigitC x = true := by
    intro x hx
    rcases List.mem_cons.1 hx with rfl | hx
    · exact hc
    · exact hcs x hx
  have hr' : ∀ d r, rest = d :: r → isDigitC d = false := by
    intro d r h
    have := hr d r h
    cases hd : isDigitC d with
    | false => rfl
    | true => rw [digit_idChar hd] at this; cases this
  have htd := takeWhile_append_stop isDigitC (c :: cs) rest hall hr'
  simp only [List.cons_append] at htd ⊢
  simp only [lexAux, digit_not_ws hc, digit_not_idStart hc, hc, Bool.false_eq_true, ite_false, ite_true, htd.1, htd.2]

/-! ### string terminals -/

theorem le_foldl_max (l : List Nat) (a : Nat) : a ≤ l.foldl max a ∧ ∀ x ∈ l, x ≤ l.foldl max a := by
  induction l generalizing a with
  | nil => simp
  | cons y l ih =>
    simp only [List.foldl_cons, List.mem_cons]
    have := ih (max a y)
    refine ⟨by omega, ?_⟩
    intro x hx
    rcases hx with rfl | hx
    · omega
    · exact this.2 x hx

theorem le_maxLen {w : List Nat} (h : w ∈ S) : w.length ≤ maxLen S :=
  (le_foldl_max (S.map List.length) 0).2 _ (List.mem_map.2 ⟨w, h, rfl⟩)

/-- no terminal longer than `w` is a prefix of `w ++ rest` -/
def SafeAfter (S : List (List Nat)) (w rest : List Nat) : Prop :=
  ∀ m, w.length < m → ¬ (((w ++ rest).take m).length = m ∧ S.contains ((w ++ rest).take m) = true)

theorem matchLen_some (w rest : List Nat) (hw : S.contains w = true) (hne : w ≠ []) (safe : SafeAfter S w rest) :
    ∀ n, w.length ≤ n → matchLen S (w ++ rest) n = some w := by
  intro n
  induction n with
  | zero =>
    intro h
    cases w with
    | nil => exact absurd rfl hne
    | cons _ _ => simp at h
  | succ n ih =>
    intro h
    unfold matchLen
    by_cases heq : w.length = n + 1
    · have htake : (w ++ rest).take (n + 1) = w := by rw [← heq]; simp
      rw [htake, if_pos ⟨heq, hw⟩]
    · have hlt : w.length < n + 1 := by omega
      have := safe (n + 1) hlt
      rw [if_neg this]
      exact ih (by omega)

/-- a chunk read by the string-terminal branch -/
theorem lex_symbol (f : Nat) (w rest : List Nat) (acc : List Tok) (hs : symShaped w = true) (hw : S.contains w = true)
    (safe : SafeAfter S w rest) :
    lexAux S (f + 1) (w ++ rest) acc = lexAux S f rest (tokOfTerminal S w :: acc) := by
  cases hwc : w with
  | nil => rw [hwc] at hs; simp [symShaped] at hs
  | cons c cs =>
    have hne : w ≠ [] := by rw [hwc]; simp
    have hm := matchLen_some w rest hw hne safe (maxLen S) (le_maxLen (by simpa using hw))
    rw [hwc] at hs hm
    simp only [symShaped, Bool.and_eq_true, Bool.not_eq_true'] at hs
    simp only [List.cons_append] at hm ⊢
    simp only [lexAux, hs.1.1, hs.1.2, hs.2, Bool.false_eq_true, ite_false, hm]
    have : List.drop (c :: cs).length (c :: (cs ++ rest)) = rest := by
      have := List.drop_left (l₁ := c :: cs) (l₂ := rest)
      simpa using this
    rw [this]

end Holpy.C07
