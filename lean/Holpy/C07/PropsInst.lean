import Holpy.C07.PropsTypes
import Holpy.C07.InstProofs
/-
C07 — property theorems about instantiations (token level).
-/
namespace Holpy.C07

/-- `,` and `}` are no operator symbols, binder spellings or arrows; `,` is not `}`, `{}` is not `{` -/
theorem inst_ok : InstOK Gen.ladder Gen.tySyms Gen.instSyms := by decide +kernel

/-- For every consistent table/ladder and symbols with `InstOK`: the parser for rule `inst` reads the
token stream of an exported instantiation (`{}` or `{'a: T, x: t, …}`, type pairs and term pairs in
any order) back as the same list of pairs. -/
theorem inst_parse_print_abstract (T : Table) (L : Ladder) (C : TySyms) (I : InstSyms) (hc : TableConsistent T L) (hok : C.ok)
    (hI : InstOK L C I) (uni : Bool) (ps : List InstPair) (hw : ∀ q ∈ ps, q.WF T L) :
    parseInst T L C I (printInst T L C I uni ps) = some ps :=
  inst_parse_print_core hc hok hI uni ps hw

/-- the same for the tables of the current sources -/
theorem inst_parse_print (uni : Bool) (ps : List InstPair) (hw : ∀ q ∈ ps, q.WF Gen.table Gen.ladder) :
    parseInst Gen.table Gen.ladder Gen.tySyms Gen.instSyms (printInst Gen.table Gen.ladder Gen.tySyms Gen.instSyms uni ps) = some ps :=
  inst_parse_print_core gen_consistent type_syms_ok inst_ok uni ps hw

/-- `{'a: nat => 'b, x: A & B, y: f x}` has 20 tokens and parses (to three pairs) -/
example : (printInst Gen.table Gen.ladder Gen.tySyms Gen.instSyms false
      [.ty [97] (.fn (.con [110, 97, 116] .nil) (.tvar [98])), .tm [120] (.bin 3 (.atom [65]) (.atom [66])),
       .tm [121] (.app (.atom [102]) (.atom [120]))]).length = 20 ∧
    ((parseInst Gen.table Gen.ladder Gen.tySyms Gen.instSyms (printInst Gen.table Gen.ladder Gen.tySyms Gen.instSyms false
      [.ty [97] (.fn (.con [110, 97, 116] .nil) (.tvar [98])), .tm [120] (.bin 3 (.atom [65]) (.atom [66])),
       .tm [121] (.app (.atom [102]) (.atom [120]))])).map List.length) = some 3 := by decide +kernel

end Holpy.C07
