import Holpy.C07.SeqProofs
import Holpy.C07.TypeProofs
import Holpy.C07.InstModel
/-
C07 — `inst_parse_print`: exported instantiations parse back (token level).
-/
namespace Holpy.C07

variable {T : Table} {L : Ladder} {C : TySyms} {I : InstSyms}

theorem stops_inst (hI : InstOK L C I) {s : Nat} (hs : s ∈ [I.comma, I.rbrace]) (r : List Tok) :
    Stops L 0 (.sym s :: r) ∧ StopT C (.sym s :: r) := by
  have h := hI.2 s hs
  refine ⟨⟨by simp [atomStart, h.2.1], fun j _ hj => by simp [headInfix, h.2.2 j hj]⟩, ?_⟩
  refine ⟨(fun x r' h' => by cases h'), (fun s' r' h' => ?_)⟩
  cases h'
  exact h.1

theorem parse_pair (hc : TableConsistent T L) (hok : C.ok) (hI : InstOK L C I) (uni : Bool) (p : InstPair) (hw : p.WF T L)
    {s : Nat} (hs : s ∈ [I.comma, I.rbrace]) (r : List Tok) :
    parsePair T L C I (printPair T L C I uni p ++ .sym s :: r) = some (p, .sym s :: r) := by
  have hst := stops_inst (L := L) (C := C) hI hs r
  cases p with
  | ty a ty =>
    have := parse_ty_at hok uni ty hst.2
    simp only [printPair, List.cons_append, parsePair, and_self, ite_true]
    rw [this]
  | tm x t =>
    have := parse_hyp hc uni (show t.WF T L from hw) hst.1
    simp only [printPair, List.cons_append, parsePair, ite_true]
    rw [this]

theorem pairs_loop (hc : TableConsistent T L) (hok : C.ok) (hI : InstOK L C I) (uni : Bool) :
    ∀ (ps : List InstPair), (∀ q ∈ ps, q.WF T L) → ∀ (p : InstPair), p.WF T L → ∀ (acc : List InstPair) (g : Nat), ps.length < g →
      pairsLoop T L C I g acc (printPair T L C I uni p ++ (printPairsMore T L C I uni ps ++ [.sym I.rbrace]))
        = some (acc.reverse ++ p :: ps) := by
  intro ps
  induction ps with
  | nil =>
    intro _ p hp acc g hg
    cases g with
    | zero => simp at hg
    | succ g0 =>
      have := parse_pair hc hok hI uni p hp (s := I.rbrace) (by simp) []
      simp only [printPairsMore, List.nil_append]
      rw [pairsLoop, this]
      simp
  | cons q qs ih =>
    intro hall p hp acc g hg
    cases g with
    | zero => simp at hg
    | succ g0 =>
      have := parse_pair hc hok hI uni p hp (s := I.comma) (by simp)
        (printPair T L C I uni q ++ (printPairsMore T L C I uni qs ++ [.sym I.rbrace]))
      simp only [printPairsMore, List.cons_append, List.append_assoc] at this ⊢
      rw [pairsLoop, this]
      have hne : (printPair T L C I uni q ++ (printPairsMore T L C I uni qs ++ [Tok.sym I.rbrace])) ≠ [] := by
        cases q <;> simp [printPair]
      cases hq : (printPair T L C I uni q ++ (printPairsMore T L C I uni qs ++ [Tok.sym I.rbrace])) with
      | nil => exact absurd hq hne
      | cons y ys =>
        simp only [ite_true]
        rw [← hq, ih (fun x hx => hall x (by simp [hx])) q (hall q (by simp)) (p :: acc) g0 (by simp at hg; omega)]
        simp

theorem pairsMore_len (uni : Bool) (ps : List InstPair) : ps.length ≤ (printPairsMore T L C I uni ps).length := by
  induction ps with
  | nil => simp [printPairsMore]
  | cons q qs ih => simp only [printPairsMore, List.length_cons, List.length_append]; omega

theorem inst_parse_print_core (hc : TableConsistent T L) (hok : C.ok) (hI : InstOK L C I) (uni : Bool) (ps : List InstPair)
    (hw : ∀ q ∈ ps, q.WF T L) : parseInst T L C I (printInst T L C I uni ps) = some ps := by
  cases ps with
  | nil => simp [printInst, parseInst]
  | cons p ps =>
    have hne : (printPair T L C I uni p ++ (printPairsMore T L C I uni ps ++ [Tok.sym I.rbrace])) ≠ [] := by
      cases p <;> simp [printPair]
    simp only [printInst]
    cases hq : (printPair T L C I uni p ++ (printPairsMore T L C I uni ps ++ [Tok.sym I.rbrace])) with
    | nil => exact absurd hq hne
    | cons y ys =>
      have hlen : ps.length < (y :: ys).length + 1 := by
        have := pairsMore_len (T := T) (L := L) (C := C) (I := I) uni ps
        rw [← hq]; simp only [List.length_append]; omega
      have hloop := pairs_loop hc hok hI uni ps (fun q hq => hw q (by simp [hq])) p (hw p (by simp)) [] ((y :: ys).length + 1) hlen
      rw [hq] at hloop
      simp only [parseInst, ite_true]
      simpa using hloop

end Holpy.C07
