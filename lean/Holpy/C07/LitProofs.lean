import Holpy.C07.SeqProofs
import Holpy.C07.LitModel
/-
C07 — `literal_parse_print`: list / set literals on top of `parse_print`.
-/
namespace Holpy.C07

variable {T : Table} {L : Ladder} {Q : LitSyms}

theorem stops_lit (hq : LitOK L Q) {s : Nat} (hs : s ∈ [Q.comma, Q.lclose]) (r : List Tok) :
    Stops L 0 (.sym s :: r) := by
  have h := hq.2 s hs
  exact ⟨by simp [atomStart, h.1], fun j _ hj => by simp [headInfix, h.2 j hj]⟩

theorem elemsMore_len (uni : Bool) (as : List Skel) : as.length + 1 ≤ (printElemsMore T L Q uni as).length := by
  induction as with
  | nil => simp [printElemsMore]
  | cons a as ih => simp only [printElemsMore, List.length_cons, List.length_append]; omega

theorem elemsLoop_print (hc : TableConsistent T L) (hq : LitOK L Q) (uni : Bool) :
    ∀ (as : List Skel) (a : Skel) (g : Nat) (acc : List Skel) (rest : List Tok), as.length + 1 ≤ g →
      a.WF T L → (∀ b ∈ as, b.WF T L) →
      elemsLoop T L Q g acc (printSkel T L uni a ++ (printElemsMore T L Q uni as ++ rest))
        = some (acc.reverse ++ a :: as, rest) := by
  intro as
  induction as with
  | nil =>
    intro a g acc rest hg hwa _
    cases g with
    | zero => omega
    | succ g =>
      have h := parse_hyp hc uni hwa (rest := .sym Q.lclose :: rest) (stops_lit hq (by simp) _)
      simp only [printElemsMore, List.cons_append, List.nil_append]
      rw [elemsLoop, h]
      simp [Ne.symm hq.1.1]
  | cons b bs ih =>
    intro a g acc rest hg hwa hw
    cases g with
    | zero => omega
    | succ g =>
      have h := parse_hyp hc uni hwa (rest := .sym Q.comma :: (printSkel T L uni b ++ (printElemsMore T L Q uni bs ++ rest)))
        (stops_lit hq (by simp) _)
      simp only [printElemsMore, List.cons_append, List.append_assoc]
      rw [elemsLoop, h]
      simp only [if_pos]
      rw [ih b g (a :: acc) rest (by simp only [List.length_cons] at hg; omega) (hw b (by simp))
        (fun c hc' => hw c (by simp [hc']))]
      simp

theorem lit_parse_print_core (hc : TableConsistent T L) (hq : LitOK L Q) (uni : Bool) (as : List Skel)
    (hw : ∀ a ∈ as, a.WF T L) (rest : List Tok) :
    parseLit T L Q (printLit T L Q uni as ++ rest) = some (as, rest) := by
  cases as with
  | nil =>
    cases uni <;> simp [printLit, parseLit, LitSyms.empty]
  | cons a as =>
    have hlen := elemsMore_len (T := T) (L := L) (Q := Q) uni as
    have h := elemsLoop_print hc hq uni as a
      ((printSkel T L uni a ++ (printElemsMore T L Q uni as ++ rest)).length + 1) [] rest
      (by simp only [List.length_append]; omega) (hw a (by simp)) (fun b hb => hw b (by simp [hb]))
    simp only [List.length_append] at h
    simp only [printLit, List.cons_append, List.append_assoc, parseLit]
    simp [hq.1.2.1, hq.1.2.2, h]

end Holpy.C07
