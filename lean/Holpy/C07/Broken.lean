import Holpy.C07.LexPrint
/-
C07 — `broken_same_tokens`: the line-broken layouts of the printer lex to the same tokens.
-/
namespace Holpy.C07

variable {S : List (List Nat)} {T : Table} {L : Ladder}

theorem steps_wsrun (w : List Nat) (hw : ∀ c ∈ w, isWs c = true) : Steps S w [] (fun _ => True) := by
  induction w with
  | nil =>
    intro rest acc f _ hlen
    exact ⟨f, by simpa using hlen, by simp⟩
  | cons c w ih =>
    have h1 : Steps S [c] [] (fun _ => True) := by
      intro rest acc f _ hlen
      cases f with
      | zero => simp at hlen
      | succ f0 =>
        refine ⟨f0, by simp at hlen; omega, ?_⟩
        simpa using lex_ws (S := S) f0 c rest acc (hw c (by simp))
    have := Steps.append h1 (ih (fun x hx => hw x (by simp [hx]))) (fun _ _ => trivial)
    simpa using this

/-- a blank, more whitespace, then `b` -/
theorem Steps.cons_sepB {b w : List Nat} {tb : List Tok} {P : List Nat → Prop} (hw : ∀ c ∈ w, isWs c = true) (h : Steps S b tb P) :
    Steps S (32 :: (w ++ b)) tb P := by
  have h2 := Steps.append (S := S) (steps_wsrun w hw) h (fun _ _ => trivial)
  have := Steps.cons_ws h2
  simpa using this

/-- a nonempty whitespace run, then `b` -/
theorem Steps.cons_sepF {b w : List Nat} {tb : List Tok} {P : List Nat → Prop} (hw : ∀ c ∈ w, isWs c = true) (h : Steps S b tb P) :
    Steps S (w ++ b) tb P := by
  have h2 := Steps.append (S := S) (steps_wsrun w hw) h (fun _ _ => trivial)
  simpa using h2

theorem follow_sepF {w : List Nat} (hne : w ≠ []) (hw : ∀ c ∈ w, isWs c = true) (r : List Nat) : Follow (w ++ r) := by
  cases w with
  | nil => exact absurd rfl hne
  | cons c w' => exact follow_ws (hw c (by simp)) _

theorem lex_termW (hT : TextOK T L S) (uni : Bool) {sepB : List Nat → Nat → List Nat} {sepF : List Nat → List Nat}
    (hsep : SepOK sepB sepF) : ∀ t : Skel, t.WF T L → t.NamesOK S → ∀ p : List Nat,
    Steps S (printTextW T L S uni sepB sepF p t) (printSkel T L uni t) Follow ∧
      ∀ rest, TextStart T (printTextW T L S uni sepB sepF p t ++ rest) := by
  obtain ⟨h1, hdot, hlp, hrp, hdotT, hif, hthen, helse, hsafeL, hsafeR, hsafeD, _, hbin, hun, hbind, hTy, hdc, hbr⟩ := hT
  have hB := fun p i => hsep.1 p i
  have hF := fun p => hsep.2 p
  have wrapL := fun {txt : List Nat} {toks : List Tok} (ht : Steps S txt toks Follow) (hs : ∀ rest, TextStart T (txt ++ rest)) (b : Bool) =>
    lex_wrap (T := T) hlp hrp hsafeL hsafeR ht hs b
  intro t
  induction t with
  | atom s =>
    intro _ hn p
    simp only [Skel.NamesOK] at hn
    refine ⟨(steps_name hn).mono (fun _ h => h.notId), ?_⟩
    intro rest
    cases s with
    | nil => simp [NameOK] at hn
    | cons c cs =>
      simp only [NameOK, Bool.or_eq_true, Bool.and_eq_true] at hn
      apply ts_head
      rcases hn with h | h
      · exact Or.inl h.1.1
      · exact Or.inr (Or.inl h.1)
  | app f a ihf iha =>
    intro hw hn p
    have wf := wrapL (ihf hw.1 hn.1 (0 :: p)).1 (ihf hw.1 hn.1 (0 :: p)).2 (brF T f.cls)
    have wa := wrapL (iha hw.2 hn.2 (1 :: p)).1 (iha hw.2 hn.2 (1 :: p)).2 (brA T a.cls)
    refine ⟨?_, ?_⟩
    · exact Steps.append wf.1 (Steps.cons_sepB (hB p 0) wa.1) (fun rest _ => follow_blank _)
    · intro rest
      have := wf.2 (32 :: (sepB p 0 ++ wrapT (brA T a.cls) (printTextW T L S uni sepB sepF (1 :: p) a)) ++ rest)
      simpa [printTextW, List.append_assoc] using this
  | bin o l r ihl ihr =>
    intro hw hn p
    have wl := wrapL (ihl hw.2.2.1 hn.1 (0 :: p)).1 (ihl hw.2.2.1 hn.1 (0 :: p)).2 (brL T o l.cls)
    have wr := wrapL (ihr hw.2.2.2 hn.2 (1 :: p)).1 (ihr hw.2.2.2 hn.2 (1 :: p)).2 (brR T o r.cls)
    have hsp : Steps S (T.spellTxt uni o) [.sym (T.spell uni o)] (AfterSym T false false) := by
      have := hbin o hw.1 hw.2.1
      cases uni
      · exact (spell_steps h1 hdot this.1).1
      · exact (spell_steps h1 hdot this.2).1
    refine ⟨?_, ?_⟩
    · have h2 := Steps.append hsp (Steps.cons_sepB (hB p 1) wr.1) (fun rest _ => Or.inl ⟨_, rfl⟩)
      have h3 := Steps.append wl.1 (Steps.cons_sepB (hB p 0) h2) (fun rest _ => follow_blank _)
      simpa [printTextW, printSkel, List.append_assoc] using h3
    · intro rest
      have := wl.2 (32 :: (sepB p 0 ++ (T.spellTxt uni o ++ 32 :: (sepB p 1 ++
        wrapT (brR T o r.cls) (printTextW T L S uni sepB sepF (1 :: p) r)))) ++ rest)
      simpa [printTextW, List.append_assoc] using this
  | un o a iha =>
    intro hw hn p
    have wa := wrapL (iha hw.2.2 hn (0 :: p)).1 (iha hw.2.2 hn (0 :: p)).2 (brU T o a.cls)
    have hsp : Steps S (T.spellTxt uni o) [.sym (T.spell uni o)] (AfterSym T true false) ∧ T.spellTxt uni o ≠ [] := by
      have := hun o hw.1 hw.2.1
      cases uni
      · exact spell_steps h1 hdot this.1
      · exact spell_steps h1 hdot this.2
    refine ⟨?_, ?_⟩
    · have h2 := Steps.append hsp.1 wa.1 (fun rest _ => Or.inr (Or.inl ⟨rfl, wa.2 rest⟩))
      simpa [printTextW, printSkel] using h2
    · intro rest
      have := ts_unary (spellTxt_mem_unary hw.1 hw.2.1 uni) hsp.2 (wa.2 rest)
      simpa [printTextW, List.append_assoc] using this
  | binder b x body ihb =>
    intro hw hn p
    have hb := ihb hw.2 hn.2 (0 :: p)
    have hboth := hbind b hw.1
    have hasc := (spell_steps (T := T) h1 hdot hboth.1).2
    have hsp : Steps S (binderTxt T L uni b) [.sym (binderSpell T L uni b)] (AfterSym T false true) := by
      cases uni
      · exact (spell_steps h1 hdot hboth.1).1
      · exact (spell_steps h1 hdot hboth.2).1
    have hD : Steps S [46, 32] [.dot] (SafeAfter S [46, 32]) := by
      have := steps_symbol (S := S) (w := [46, 32]) (by decide) hdotT
      simpa [tokOfTerminal] using this
    obtain ⟨hxn, hxi⟩ := hn.1
    refine ⟨?_, ?_⟩
    · have h3 := Steps.append hD hb.1 (fun rest _ => safe_dot hsafeD _)
      have h2 := Steps.append (steps_name hxn) h3 (fun rest _ => by
        intro c r hr; simp at hr; rw [← hr.1]; decide)
      have h1' := Steps.append hsp h2 (fun rest _ => by
        cases x with
        | nil => simp [idShaped] at hxi
        | cons c cs =>
          simp only [idShaped, Bool.and_eq_true] at hxi
          exact Or.inr (Or.inr ⟨rfl, c, _, rfl, hxi.1⟩))
      simpa [printTextW, printSkel] using h1'
    · intro rest
      have := ts_binder (T := T) (binderTxt_mem hasc uni) (x ++ 46 :: 32 :: printTextW T L S uni sepB sepF (0 :: p) body ++ rest)
      simpa [printTextW, List.append_assoc] using this
  | ite c a b ihc iha ihb =>
    intro hw hn p
    have hc := ihc hw.1 hn.1 (0 :: p)
    have ha := iha hw.2.1 hn.2.1 (1 :: p)
    have hb := ihb hw.2.2 hn.2.2 (2 :: p)
    have kIf : Steps S kwIf [.kif] NotIdNext := kw_steps (by decide) hif (by simp [tokOfTerminal, kwIf])
    have kThen : Steps S kwThen [.kthen] NotIdNext := kw_steps (by decide) hthen (by simp [tokOfTerminal, kwThen])
    have kElse : Steps S kwElse [.kelse] NotIdNext := kw_steps (by decide) helse (by simp [tokOfTerminal, kwElse])
    refine ⟨?_, ?_⟩
    · have s5 := Steps.append kElse (Steps.cons_sepB (hB p 3) hb.1) (fun rest _ => notId_blank _)
      have s4 := Steps.append ha.1 (Steps.cons_sepF (hF p).2 s5) (fun rest _ => by
        have := follow_sepF (hF p).1 (hF p).2 ((kwElse ++ 32 :: (sepB p 3 ++ printTextW T L S uni sepB sepF (2 :: p) b)) ++ rest)
        simpa [List.append_assoc] using this)
      have s3 := Steps.append kThen (Steps.cons_sepB (hB p 2) s4) (fun rest _ => notId_blank _)
      have s2 := Steps.append hc.1 (Steps.cons_sepB (hB p 1) s3) (fun rest _ => follow_blank _)
      have s1 := Steps.append kIf (Steps.cons_sepB (hB p 0) s2) (fun rest _ => notId_blank _)
      simpa [printTextW, printSkel, List.append_assoc] using s1
    · intro rest
      simp only [printTextW, kwIf, List.cons_append, List.append_assoc]
      exact ts_head _ (Or.inl (by decide))

  | ann t ty iht =>
    intro hw hn p
    have ht := iht hw hn.1 (0 :: p)
    have hty := ty_lex hTy uni ty hn.2
    have hL : Steps S [40] [.lp] (SafeAfter S [40]) := by
      have := steps_symbol (S := S) (w := [40]) (by decide) hlp
      simpa [tokOfTerminal] using this
    have hR : Steps S [41] [.rp] Follow := rp_steps hrp hsafeR
    have hC : Steps S [58, 58] [.sym L.dcolon] (fun _ => True) := dcolon_steps hdc
    refine ⟨?_, fun rest => by simpa [printTextW] using ts_head (T := T) (c := 40) _ (Or.inr (Or.inr rfl))⟩
    have h4 := Steps.append hty hR (fun rest _ => follow_rp rest)
    have h3 := Steps.append hC h4 (fun _ _ => trivial)
    have h2 := Steps.append ht.1 h3 (fun rest _ => follow_colon _)
    have h1' := Steps.append hL h2 (fun rest _ => safe_beforeTerm hsafeL (by
      have := ht.2 (([58, 58] ++ (printTyText L.ty S uni ty ++ [41])) ++ rest)
      simpa [List.append_assoc] using this))
    simpa [printTextW, printSkel, List.append_assoc] using h1'
  | binderT b x ty body ihb =>
    intro hw hn p
    have hb := ihb hw.2 hn.2.2 (0 :: p)
    have hty := ty_lex hTy uni ty hn.2.1
    have hboth := hbind b hw.1
    have hasc := (spell_steps (T := T) h1 hdot hboth.1).2
    have hsp : Steps S (binderTxt T L uni b) [.sym (binderSpell T L uni b)] (AfterSym T false true) := by
      cases uni
      · exact (spell_steps h1 hdot hboth.1).1
      · exact (spell_steps h1 hdot hboth.2).1
    have hD : Steps S [46, 32] [.dot] (SafeAfter S [46, 32]) := by
      have := steps_symbol (S := S) (w := [46, 32]) (by decide) hdotT
      simpa [tokOfTerminal] using this
    have hC : Steps S [58, 58] [.sym L.dcolon] (fun _ => True) := dcolon_steps hdc
    obtain ⟨hxn, hxi⟩ := hn.1
    refine ⟨?_, ?_⟩
    · have h5 := Steps.append hD hb.1 (fun rest _ => safe_dot hsafeD _)
      have h4 := Steps.append hty h5 (fun rest _ => follow_dot _)
      have h3 := Steps.append hC h4 (fun _ _ => trivial)
      have h2 := Steps.append (steps_name hxn) h3 (fun rest _ => by
        intro c r hr; simp at hr; rw [← hr.1]; decide)
      have h1' := Steps.append hsp h2 (fun rest _ => by
        cases x with
        | nil => simp [idShaped] at hxi
        | cons c cs =>
          simp only [idShaped, Bool.and_eq_true] at hxi
          exact Or.inr (Or.inr ⟨rfl, c, _, rfl, hxi.1⟩))
      simpa [printTextW, printSkel, List.append_assoc] using h1'
    · intro rest
      have := ts_binder (T := T) (binderTxt_mem hasc uni)
        (x ++ 58 :: 58 :: (printTyText L.ty S uni ty ++ 46 :: 32 :: printTextW T L S uni sepB sepF (0 :: p) body) ++ rest)
      simpa [printTextW, List.append_assoc] using this
  | interval a b iha ihb =>
    intro hw hn p
    have ha := iha hw.1 hn.1 (0 :: p)
    have hb := ihb hw.2 hn.2 (1 :: p)
    obtain ⟨⟨hLc, hLt, hLs⟩, ⟨hDc, hDt, hDs⟩, ⟨hRc, hRt, hRs⟩⟩ := hbr
    have hL : Steps S [123] [.sym L.lbrace] (SafeAfter S [123]) := by
      have := steps_symbol (S := S) (w := [123]) (by decide) hLc
      rw [hLt] at this; exact this
    have hD : Steps S [46, 46] [.sym L.dotdot] (SafeAfter S [46, 46]) := by
      have := steps_symbol (S := S) (w := [46, 46]) (by decide) hDc
      rw [hDt] at this; exact this
    have hR : Steps S [125] [.sym L.rbrace] Follow := by
      have := steps_symbol (S := S) (w := [125]) (by decide) hRc
      rw [hRt] at this
      exact this.mono (fun rest _ => safe_only hRs rest)
    refine ⟨?_, fun rest => by simpa [printTextW] using ts_lbrace (T := T) _⟩
    have h4 := Steps.append hb.1 hR (fun rest _ => follow_rbrace rest)
    have h3 := Steps.append hD h4 (fun rest _ => safe_beforeTerm hDs (by
      have := hb.2 ([125] ++ rest)
      simpa [List.append_assoc] using this))
    have h2 := Steps.append ha.1 h3 (fun rest _ => follow_dot _)
    have h1' := Steps.append hL h2 (fun rest _ => safe_beforeTerm hLs (by
      have := ha.2 (([46, 46] ++ (printTextW T L S uni sepB sepF (1 :: p) b ++ [125])) ++ rest)
      simpa [List.append_assoc] using this))
    simpa [printTextW, printSkel, List.append_assoc] using h1'
  | collect x body ihb =>
    intro hw hn p
    have hb := ihb hw hn.2 (0 :: p)
    obtain ⟨⟨hLc, hLt, hLs⟩, _, ⟨hRc, hRt, hRs⟩⟩ := hbr
    have hL : Steps S [123] [.sym L.lbrace] (SafeAfter S [123]) := by
      have := steps_symbol (S := S) (w := [123]) (by decide) hLc
      rw [hLt] at this; exact this
    have hR : Steps S [125] [.sym L.rbrace] Follow := by
      have := steps_symbol (S := S) (w := [125]) (by decide) hRc
      rw [hRt] at this
      exact this.mono (fun rest _ => safe_only hRs rest)
    have hD : Steps S [46, 32] [.dot] (SafeAfter S [46, 32]) := by
      have := steps_symbol (S := S) (w := [46, 32]) (by decide) hdotT
      simpa [tokOfTerminal] using this
    obtain ⟨hxn, hxi⟩ := hn.1
    have hxs : ∀ r, TextStart T (x ++ r) := by
      intro r
      cases x with
      | nil => simp [idShaped] at hxi
      | cons c cs =>
        simp only [idShaped, Bool.and_eq_true] at hxi
        simp only [List.cons_append]
        exact ts_head _ (Or.inl hxi.1)
    refine ⟨?_, fun rest => by simpa [printTextW] using ts_lbrace (T := T) _⟩
    have h4 := Steps.append hb.1 hR (fun rest _ => follow_rbrace rest)
    have h3 := Steps.append hD h4 (fun rest _ => safe_dot hsafeD _)
    have h2 := Steps.append (steps_name hxn) h3 (fun rest _ => by
      intro c r hr; simp at hr; rw [← hr.1]; decide)
    have h1' := Steps.append hL h2 (fun rest _ => safe_beforeTerm hLs (by
      simp only [List.append_assoc]; exact hxs _))
    simpa [printTextW, printSkel, List.append_assoc] using h1'
  | collectT x ty body ihb =>
    intro hw hn p
    have hb := ihb hw hn.2.2 (0 :: p)
    have hty := ty_lex hTy uni ty hn.2.1
    have hC : Steps S [58, 58] [.sym L.dcolon] (fun _ => True) := dcolon_steps hdc
    obtain ⟨⟨hLc, hLt, hLs⟩, _, ⟨hRc, hRt, hRs⟩⟩ := hbr
    have hL : Steps S [123] [.sym L.lbrace] (SafeAfter S [123]) := by
      have := steps_symbol (S := S) (w := [123]) (by decide) hLc
      rw [hLt] at this; exact this
    have hR : Steps S [125] [.sym L.rbrace] Follow := by
      have := steps_symbol (S := S) (w := [125]) (by decide) hRc
      rw [hRt] at this
      exact this.mono (fun rest _ => safe_only hRs rest)
    have hD : Steps S [46, 32] [.dot] (SafeAfter S [46, 32]) := by
      have := steps_symbol (S := S) (w := [46, 32]) (by decide) hdotT
      simpa [tokOfTerminal] using this
    obtain ⟨hxn, hxi⟩ := hn.1
    have hxs : ∀ r, TextStart T (x ++ r) := by
      intro r
      cases x with
      | nil => simp [idShaped] at hxi
      | cons c cs =>
        simp only [idShaped, Bool.and_eq_true] at hxi
        simp only [List.cons_append]
        exact ts_head _ (Or.inl hxi.1)
    refine ⟨?_, fun rest => by simpa [printTextW] using ts_lbrace (T := T) _⟩
    have h5 := Steps.append hb.1 hR (fun rest _ => follow_rbrace rest)
    have h4 := Steps.append hD h5 (fun rest _ => safe_dot hsafeD _)
    have h3' := Steps.append hty h4 (fun rest _ => follow_dot _)
    have h3 := Steps.append hC h3' (fun _ _ => trivial)
    have h2 := Steps.append (steps_name hxn) h3 (fun rest _ => by
      intro c r hr; simp at hr; rw [← hr.1]; decide)
    have h1' := Steps.append hL h2 (fun rest _ => safe_beforeTerm hLs (by
      simp only [List.append_assoc]; exact hxs _))
    simpa [printTextW, printSkel, List.append_assoc] using h1'

/-- the line-broken text lexes to the printer's tokens, hence to the same tokens as the unbroken text -/
theorem broken_same_tokens_core (hT : TextOK T L S) (uni : Bool) {sepB : List Nat → Nat → List Nat} {sepF : List Nat → List Nat}
    (hsep : SepOK sepB sepF) (t : Skel) (hw : t.WF T L) (hn : t.NamesOK S) (p : List Nat) :
    lex S (printTextW T L S uni sepB sepF p t) = lex S (printText T L S uni t) := by
  rw [lex_print_core hT uni t hw hn]
  have h := (lex_termW hT uni hsep t hw hn p).1 [] [] ((printTextW T L S uni sepB sepF p t).length + 1) (Or.inl rfl) (by simp)
  obtain ⟨f', hf, he⟩ := h
  simp only [List.append_nil] at he
  unfold lex
  rw [he]
  cases f' with
  | zero => simp at hf
  | succ f0 => simp [lexAux]

end Holpy.C07
