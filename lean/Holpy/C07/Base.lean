/-
C07 — tokens shared by the term, type, sequent and instantiation models.  Import-free.
-/
namespace Holpy.C07

inductive Tok
  | lp | rp | dot | kif | kthen | kelse
  | sym (s : Nat)
  | id (s : List Nat)
  deriving DecidableEq, Repr, Inhabited

def wrap (b : Bool) (ts : List Tok) : List Tok := if b then Tok.lp :: ts ++ [Tok.rp] else ts

end Holpy.C07
