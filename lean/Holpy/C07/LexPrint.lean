import Holpy.C07.TypeLex
/-
C07 — `lex_print`: the model lexer reads the printed text of a skeleton back as the token list
`printSkel` (for every table / ladder / terminal list satisfying `TextOK`).
-/
namespace Holpy.C07

variable {S : List (List Nat)} {T : Table} {L : Ladder}

/-- what may follow a printed symbol: a blank; an operand (if the spelling was checked for that); an identifier -/
def AfterSym (T : Table) (bt bi : Bool) (rest : List Nat) : Prop :=
  (∃ r, rest = 32 :: r) ∨ (bt = true ∧ TextStart T rest) ∨ (bi = true ∧ ∃ c r, rest = c :: r ∧ isIdStart c = true)

theorem spell_steps (h1 : ∀ t ∈ S, t.contains 32 = true → t = [46, 32]) (hdot : S.contains [46] = false)
    {txt : List Nat} {id : Nat} {bt bi : Bool} (h : spellOK T S txt id bt bi = true) :
    Steps S txt [.sym id] (AfterSym T bt bi) ∧ txt ≠ [] := by
  unfold spellOK at h
  simp only [Bool.and_eq_true, Bool.or_eq_true, beq_iff_eq, Bool.not_eq_true'] at h
  obtain ⟨⟨⟨_, hcont⟩, htok⟩, hshape⟩ := h
  rcases hshape with ⟨hid, htxt⟩ | ⟨⟨⟨⟨hsym, hnb⟩, htxt⟩, hbt⟩, hbi⟩
  · have hne : trimC txt ≠ [] := by intro h0; rw [h0] at hid; simp [idShaped] at hid
    have hst := steps_ident (S := S) hid
    rw [hcont, if_pos rfl, htok] at hst
    rcases htxt with htxt | ⟨⟨hbt, hbi⟩, htxt⟩
    · refine ⟨?_, by rw [htxt]; simp⟩
      rw [htxt]
      have := Steps.append (S := S) hst (steps_ws (S := S)) (fun rest _ => by
        intro c r hr; simp at hr; rw [← hr.1]; decide)
      exact (by simpa using this : Steps S (trimC txt ++ [32]) [.sym id] (fun _ => True)).mono (fun _ _ => trivial)
    · refine ⟨?_, by rw [htxt]; exact hne⟩
      rw [htxt]
      refine hst.mono ?_
      intro rest hr
      rcases hr with ⟨r, rfl⟩ | ⟨hb, _⟩ | ⟨hb, _⟩
      · intro c r' hr'; cases hr'; decide
      · rw [hbt] at hb; cases hb
      · rw [hbi] at hb; cases hb
  · have hne : trimC txt ≠ [] := by intro h0; rw [h0] at hsym; simp [symShaped] at hsym
    refine ⟨?_, by rw [htxt]; exact hne⟩
    rw [htxt]
    have hst := steps_symbol (S := S) hsym hcont
    rw [htok] at hst
    refine hst.mono ?_
    intro rest hr
    rcases hr with ⟨r, rfl⟩ | ⟨hb, hts⟩ | ⟨hb, c, r, rfl, hc⟩
    · exact safe_blank h1 hdot hcont hne r
    · rcases hbt with hbt | hbt
      · rw [hbt] at hb; cases hb
      · exact safe_beforeTerm hbt hts
    · rcases hbi with hbi | hbi
      · rw [hbi] at hb; cases hb
      · exact safe_beforeId hbi hc r

theorem row_mem {o : Nat} (ho : o < T.ops.length) : T.row o ∈ T.ops := by
  unfold Table.row
  rw [List.getD_eq_getElem?_getD, List.getElem?_eq_getElem ho]
  exact List.getElem_mem ho

theorem spellTxt_mem_unary {o : Nat} (ho : o < T.ops.length) (har : (T.row o).arity = .unary) (uni : Bool) :
    T.spellTxt uni o ∈ T.unaryTxts := by
  unfold Table.unaryTxts Table.spellTxt
  rw [List.mem_flatMap]
  refine ⟨T.row o, ?_, ?_⟩
  · rw [List.mem_filter]; exact ⟨row_mem ho, by simp [har]⟩
  · cases uni <;> simp

/-- the lexer reads a bracketed or unbracketed operand text -/
theorem lex_wrap (hlp : S.contains [40] = true) (hrp : S.contains [41] = true)
    (hsafeL : safeBeforeTerm T S [40] = true)
    (hsafeR : ∀ t ∈ S, [41].isPrefixOf t = true → t = [41] ∨ isWs ((t.drop 1).headD 0) = false ∧ (t.drop 1).headD 0 ≠ 41 ∧ (t.drop 1).headD 0 ≠ 44 ∧ (t.drop 1).headD 0 ≠ 58 ∧ (t.drop 1).headD 0 ≠ 46 ∧ (t.drop 1).headD 0 ≠ 125)
    {txt : List Nat} {toks : List Tok} (ht : Steps S txt toks Follow) (hs : ∀ rest, TextStart T (txt ++ rest)) (b : Bool) :
    Steps S (wrapT b txt) (wrap b toks) Follow ∧ ∀ rest, TextStart T (wrapT b txt ++ rest) := by
  cases b with
  | false => exact ⟨by simpa [wrapT, wrap] using ht, by simpa [wrapT] using hs⟩
  | true =>
    refine ⟨?_, fun rest => by simpa [wrapT] using ts_head (T := T) (txt ++ 41 :: rest) (Or.inr (Or.inr rfl))⟩
    have hL : Steps S [40] [.lp] (SafeAfter S [40]) := by
      have := steps_symbol (S := S) (w := [40]) (by decide) hlp
      simpa [tokOfTerminal] using this
    have hR : Steps S [41] [.rp] (SafeAfter S [41]) := by
      have := steps_symbol (S := S) (w := [41]) (by decide) hrp
      simpa [tokOfTerminal] using this
    have h2 := Steps.append ht (hR.mono (fun r hr => safe_rp hsafeR hr)) (fun rest _ => follow_rp rest)
    have h3 := Steps.append hL h2 (fun rest _ => safe_beforeTerm hsafeL (by simpa using hs (41 :: rest)))
    simpa [wrapT, wrap] using h3

end Holpy.C07

namespace Holpy.C07

variable {S : List (List Nat)} {T : Table} {L : Ladder}

theorem notId_blank (r : List Nat) : NotIdNext (32 :: r) := by
  intro c r' h; cases h; decide

theorem kw_steps {w : List Nat} {tok : Tok} (hid : idShaped w = true) (hc : S.contains w = true)
    (htok : tokOfTerminal S w = tok) : Steps S w [tok] NotIdNext := by
  have := steps_ident (S := S) hid
  rw [hc, if_pos rfl, htok] at this
  exact this

theorem binderRow_mem {b : Nat} (h : (binderRow T L b).asciiTxt ≠ []) : binderRow T L b ∈ T.allBinders := by
  unfold binderRow at h ⊢
  cases hf : T.allBinders.find? (fun r => (L.binders.getD b []).contains r.ascii) with
  | none => rw [hf] at h; simp at h
  | some r => simpa using List.mem_of_find?_eq_some hf

theorem binderTxt_mem {b : Nat} (h : (binderRow T L b).asciiTxt ≠ []) (uni : Bool) : binderTxt T L uni b ∈ T.binderTxts := by
  unfold Table.binderTxts binderTxt
  rw [List.mem_flatMap]
  exact ⟨binderRow T L b, binderRow_mem h, by cases uni <;> simp⟩

/-- the `::` of a type annotation -/
theorem dcolon_steps {d : Nat}
    (hdc : S.contains [58, 58] = true ∧ tokOfTerminal S [58, 58] = .sym d ∧ ∀ t ∈ S, [58, 58].isPrefixOf t = true → t = [58, 58]) :
    Steps S [58, 58] [.sym d] (fun _ => True) := by
  have := steps_symbol (S := S) (w := [58, 58]) (by decide) hdc.1
  rw [hdc.2.1] at this
  refine this.mono (fun rest _ => ?_)
  intro m hm hc
  have hmem : (([58, 58] ++ rest).take m) ∈ S := by simpa using hc.2
  have hpre : [58, 58].isPrefixOf (([58, 58] ++ rest).take m) = true := by
    rw [take_append_gt _ _ m hm]; simp [List.isPrefixOf]
  have := hdc.2.2 _ hmem hpre
  have hl := hc.1
  rw [this] at hl
  simp at hl hm
  omega

/-- main induction: the lexer reads the text of `t` as `printSkel t`, and the text begins like a term -/
theorem lex_term (hT : TextOK T L S) (uni : Bool) : ∀ t : Skel, t.WF T L → t.NamesOK S →
    Steps S (printText T L S uni t) (printSkel T L uni t) Follow ∧ ∀ rest, TextStart T (printText T L S uni t ++ rest) := by
  obtain ⟨h1, hdot, hlp, hrp, hdotT, hif, hthen, helse, hsafeL, hsafeR, hsafeD, _, hbin, hun, hbind, hTy, hdc, hbr⟩ := hT
  have wrapL := fun {txt : List Nat} {toks : List Tok} (ht : Steps S txt toks Follow) (hs : ∀ rest, TextStart T (txt ++ rest)) (b : Bool) =>
    lex_wrap (T := T) hlp hrp hsafeL hsafeR ht hs b
  intro t
  induction t with
  | atom s =>
    intro _ hn
    simp only [Skel.NamesOK] at hn
    refine ⟨(steps_name hn).mono (fun _ h => h.notId), ?_⟩
    intro rest
    cases s with
    | nil => simp [NameOK] at hn
    | cons c cs =>
      simp only [NameOK, Bool.or_eq_true, Bool.and_eq_true] at hn
      apply ts_head
      rcases hn with h | h
      · exact Or.inl h.1.1
      · exact Or.inr (Or.inl h.1)
  | app f a ihf iha =>
    intro hw hn
    have wf := wrapL (ihf hw.1 hn.1).1 (ihf hw.1 hn.1).2 (brF T f.cls)
    have wa := wrapL (iha hw.2 hn.2).1 (iha hw.2 hn.2).2 (brA T a.cls)
    refine ⟨?_, ?_⟩
    · exact Steps.append wf.1 (Steps.cons_ws wa.1) (fun rest _ => follow_blank _)
    · intro rest
      have := wf.2 (32 :: (wrapT (brA T a.cls) (printText T L S uni a) ++ rest))
      simpa [printText, List.append_assoc] using this
  | bin o l r ihl ihr =>
    intro hw hn
    have wl := wrapL (ihl hw.2.2.1 hn.1).1 (ihl hw.2.2.1 hn.1).2 (brL T o l.cls)
    have wr := wrapL (ihr hw.2.2.2 hn.2).1 (ihr hw.2.2.2 hn.2).2 (brR T o r.cls)
    have hsp : Steps S (T.spellTxt uni o) [.sym (T.spell uni o)] (AfterSym T false false) := by
      have := hbin o hw.1 hw.2.1
      cases uni
      · exact (spell_steps h1 hdot this.1).1
      · exact (spell_steps h1 hdot this.2).1
    refine ⟨?_, ?_⟩
    · have h2 := Steps.append hsp (Steps.cons_ws wr.1) (fun rest _ => Or.inl ⟨_, rfl⟩)
      have h3 := Steps.append wl.1 (Steps.cons_ws h2) (fun rest _ => follow_blank _)
      simpa [printText, printSkel] using h3
    · intro rest
      have := wl.2 (32 :: (T.spellTxt uni o ++ 32 :: wrapT (brR T o r.cls) (printText T L S uni r)) ++ rest)
      simpa [printText, List.append_assoc] using this
  | un o a iha =>
    intro hw hn
    have wa := wrapL (iha hw.2.2 hn).1 (iha hw.2.2 hn).2 (brU T o a.cls)
    have hsp : Steps S (T.spellTxt uni o) [.sym (T.spell uni o)] (AfterSym T true false) ∧ T.spellTxt uni o ≠ [] := by
      have := hun o hw.1 hw.2.1
      cases uni
      · exact spell_steps h1 hdot this.1
      · exact spell_steps h1 hdot this.2
    refine ⟨?_, ?_⟩
    · have h2 := Steps.append hsp.1 wa.1 (fun rest _ => Or.inr (Or.inl ⟨rfl, wa.2 rest⟩))
      simpa [printText, printSkel] using h2
    · intro rest
      have := ts_unary (spellTxt_mem_unary hw.1 hw.2.1 uni) hsp.2 (wa.2 rest)
      simpa [printText, List.append_assoc] using this
  | binder b x body ihb =>
    intro hw hn
    have hb := ihb hw.2 hn.2
    have hboth := hbind b hw.1
    have hasc := (spell_steps (T := T) h1 hdot hboth.1).2
    have hsp : Steps S (binderTxt T L uni b) [.sym (binderSpell T L uni b)] (AfterSym T false true) := by
      cases uni
      · exact (spell_steps h1 hdot hboth.1).1
      · exact (spell_steps h1 hdot hboth.2).1
    have hD : Steps S [46, 32] [.dot] (SafeAfter S [46, 32]) := by
      have := steps_symbol (S := S) (w := [46, 32]) (by decide) hdotT
      simpa [tokOfTerminal] using this
    obtain ⟨hxn, hxi⟩ := hn.1
    refine ⟨?_, ?_⟩
    · have h3 := Steps.append hD hb.1 (fun rest _ => safe_dot hsafeD _)
      have h2 := Steps.append (steps_name hxn) h3 (fun rest _ => by
        intro c r hr; simp at hr; rw [← hr.1]; decide)
      have h1' := Steps.append hsp h2 (fun rest _ => by
        cases x with
        | nil => simp [idShaped] at hxi
        | cons c cs =>
          simp only [idShaped, Bool.and_eq_true] at hxi
          exact Or.inr (Or.inr ⟨rfl, c, _, rfl, hxi.1⟩))
      simpa [printText, printSkel] using h1'
    · intro rest
      have := ts_binder (T := T) (binderTxt_mem hasc uni) (x ++ 46 :: 32 :: printText T L S uni body ++ rest)
      simpa [printText, List.append_assoc] using this
  | ite c a b ihc iha ihb =>
    intro hw hn
    have hc := ihc hw.1 hn.1
    have ha := iha hw.2.1 hn.2.1
    have hb := ihb hw.2.2 hn.2.2
    have kIf : Steps S kwIf [.kif] NotIdNext := kw_steps (by decide) hif (by simp [tokOfTerminal, kwIf])
    have kThen : Steps S kwThen [.kthen] NotIdNext := kw_steps (by decide) hthen (by simp [tokOfTerminal, kwThen])
    have kElse : Steps S kwElse [.kelse] NotIdNext := kw_steps (by decide) helse (by simp [tokOfTerminal, kwElse])
    refine ⟨?_, ?_⟩
    · have s5 := Steps.append kElse (Steps.cons_ws hb.1) (fun rest _ => notId_blank _)
      have s4 := Steps.append ha.1 (Steps.cons_ws s5) (fun rest _ => follow_blank _)
      have s3 := Steps.append kThen (Steps.cons_ws s4) (fun rest _ => notId_blank _)
      have s2 := Steps.append hc.1 (Steps.cons_ws s3) (fun rest _ => follow_blank _)
      have s1 := Steps.append kIf (Steps.cons_ws s2) (fun rest _ => notId_blank _)
      simpa [printText, printSkel] using s1
    · intro rest
      have : TextStart T (105 :: (102 :: 32 :: (printText T L S uni c ++ 32 :: (kwThen ++ 32 :: (printText T L S uni a ++ 32 :: (kwElse ++ 32 :: printText T L S uni b)))) ++ rest)) :=
        ts_head _ (Or.inl (by decide))
      simpa [printText, kwIf, List.append_assoc] using this

  | ann t ty iht =>
    intro hw hn
    have ht := iht hw hn.1
    have hty := ty_lex hTy uni ty hn.2
    have hL : Steps S [40] [.lp] (SafeAfter S [40]) := by
      have := steps_symbol (S := S) (w := [40]) (by decide) hlp
      simpa [tokOfTerminal] using this
    have hR : Steps S [41] [.rp] Follow := rp_steps hrp hsafeR
    have hC : Steps S [58, 58] [.sym L.dcolon] (fun _ => True) := dcolon_steps hdc
    refine ⟨?_, fun rest => by simpa [printText] using ts_head (T := T) (c := 40) _ (Or.inr (Or.inr rfl))⟩
    have h4 := Steps.append hty hR (fun rest _ => follow_rp rest)
    have h3 := Steps.append hC h4 (fun _ _ => trivial)
    have h2 := Steps.append ht.1 h3 (fun rest _ => follow_colon _)
    have h1' := Steps.append hL h2 (fun rest _ => safe_beforeTerm hsafeL (by
      have := ht.2 (([58, 58] ++ (printTyText L.ty S uni ty ++ [41])) ++ rest)
      simpa [List.append_assoc] using this))
    simpa [printText, printSkel, List.append_assoc] using h1'
  | binderT b x ty body ihb =>
    intro hw hn
    have hb := ihb hw.2 hn.2.2
    have hty := ty_lex hTy uni ty hn.2.1
    have hboth := hbind b hw.1
    have hasc := (spell_steps (T := T) h1 hdot hboth.1).2
    have hsp : Steps S (binderTxt T L uni b) [.sym (binderSpell T L uni b)] (AfterSym T false true) := by
      cases uni
      · exact (spell_steps h1 hdot hboth.1).1
      · exact (spell_steps h1 hdot hboth.2).1
    have hD : Steps S [46, 32] [.dot] (SafeAfter S [46, 32]) := by
      have := steps_symbol (S := S) (w := [46, 32]) (by decide) hdotT
      simpa [tokOfTerminal] using this
    have hC : Steps S [58, 58] [.sym L.dcolon] (fun _ => True) := dcolon_steps hdc
    obtain ⟨hxn, hxi⟩ := hn.1
    refine ⟨?_, ?_⟩
    · have h5 := Steps.append hD hb.1 (fun rest _ => safe_dot hsafeD _)
      have h4 := Steps.append hty h5 (fun rest _ => follow_dot _)
      have h3 := Steps.append hC h4 (fun _ _ => trivial)
      have h2 := Steps.append (steps_name hxn) h3 (fun rest _ => by
        intro c r hr; simp at hr; rw [← hr.1]; decide)
      have h1' := Steps.append hsp h2 (fun rest _ => by
        cases x with
        | nil => simp [idShaped] at hxi
        | cons c cs =>
          simp only [idShaped, Bool.and_eq_true] at hxi
          exact Or.inr (Or.inr ⟨rfl, c, _, rfl, hxi.1⟩))
      simpa [printText, printSkel, List.append_assoc] using h1'
    · intro rest
      have := ts_binder (T := T) (binderTxt_mem hasc uni)
        (x ++ 58 :: 58 :: (printTyText L.ty S uni ty ++ 46 :: 32 :: printText T L S uni body) ++ rest)
      simpa [printText, List.append_assoc] using this
  | interval a b iha ihb =>
    intro hw hn
    have ha := iha hw.1 hn.1
    have hb := ihb hw.2 hn.2
    obtain ⟨⟨hLc, hLt, hLs⟩, ⟨hDc, hDt, hDs⟩, ⟨hRc, hRt, hRs⟩⟩ := hbr
    have hL : Steps S [123] [.sym L.lbrace] (SafeAfter S [123]) := by
      have := steps_symbol (S := S) (w := [123]) (by decide) hLc
      rw [hLt] at this; exact this
    have hD : Steps S [46, 46] [.sym L.dotdot] (SafeAfter S [46, 46]) := by
      have := steps_symbol (S := S) (w := [46, 46]) (by decide) hDc
      rw [hDt] at this; exact this
    have hR : Steps S [125] [.sym L.rbrace] Follow := by
      have := steps_symbol (S := S) (w := [125]) (by decide) hRc
      rw [hRt] at this
      exact this.mono (fun rest _ => safe_only hRs rest)
    refine ⟨?_, fun rest => by simpa [printText] using ts_lbrace (T := T) _⟩
    have h4 := Steps.append hb.1 hR (fun rest _ => follow_rbrace rest)
    have h3 := Steps.append hD h4 (fun rest _ => safe_beforeTerm hDs (by
      have := hb.2 ([125] ++ rest)
      simpa [List.append_assoc] using this))
    have h2 := Steps.append ha.1 h3 (fun rest _ => follow_dot _)
    have h1' := Steps.append hL h2 (fun rest _ => safe_beforeTerm hLs (by
      have := ha.2 (([46, 46] ++ (printText T L S uni b ++ [125])) ++ rest)
      simpa [List.append_assoc] using this))
    simpa [printText, printSkel, List.append_assoc] using h1'
  | collect x body ihb =>
    intro hw hn
    have hb := ihb hw hn.2
    obtain ⟨⟨hLc, hLt, hLs⟩, _, ⟨hRc, hRt, hRs⟩⟩ := hbr
    have hL : Steps S [123] [.sym L.lbrace] (SafeAfter S [123]) := by
      have := steps_symbol (S := S) (w := [123]) (by decide) hLc
      rw [hLt] at this; exact this
    have hR : Steps S [125] [.sym L.rbrace] Follow := by
      have := steps_symbol (S := S) (w := [125]) (by decide) hRc
      rw [hRt] at this
      exact this.mono (fun rest _ => safe_only hRs rest)
    have hD : Steps S [46, 32] [.dot] (SafeAfter S [46, 32]) := by
      have := steps_symbol (S := S) (w := [46, 32]) (by decide) hdotT
      simpa [tokOfTerminal] using this
    obtain ⟨hxn, hxi⟩ := hn.1
    have hxs : ∀ r, TextStart T (x ++ r) := by
      intro r
      cases x with
      | nil => simp [idShaped] at hxi
      | cons c cs =>
        simp only [idShaped, Bool.and_eq_true] at hxi
        simp only [List.cons_append]
        exact ts_head _ (Or.inl hxi.1)
    refine ⟨?_, fun rest => by simpa [printText] using ts_lbrace (T := T) _⟩
    have h4 := Steps.append hb.1 hR (fun rest _ => follow_rbrace rest)
    have h3 := Steps.append hD h4 (fun rest _ => safe_dot hsafeD _)
    have h2 := Steps.append (steps_name hxn) h3 (fun rest _ => by
      intro c r hr; simp at hr; rw [← hr.1]; decide)
    have h1' := Steps.append hL h2 (fun rest _ => safe_beforeTerm hLs (by
      simp only [List.append_assoc]; exact hxs _))
    simpa [printText, printSkel, List.append_assoc] using h1'
  | collectT x ty body ihb =>
    intro hw hn
    have hb := ihb hw hn.2.2
    have hty := ty_lex hTy uni ty hn.2.1
    have hC : Steps S [58, 58] [.sym L.dcolon] (fun _ => True) := dcolon_steps hdc
    obtain ⟨⟨hLc, hLt, hLs⟩, _, ⟨hRc, hRt, hRs⟩⟩ := hbr
    have hL : Steps S [123] [.sym L.lbrace] (SafeAfter S [123]) := by
      have := steps_symbol (S := S) (w := [123]) (by decide) hLc
      rw [hLt] at this; exact this
    have hR : Steps S [125] [.sym L.rbrace] Follow := by
      have := steps_symbol (S := S) (w := [125]) (by decide) hRc
      rw [hRt] at this
      exact this.mono (fun rest _ => safe_only hRs rest)
    have hD : Steps S [46, 32] [.dot] (SafeAfter S [46, 32]) := by
      have := steps_symbol (S := S) (w := [46, 32]) (by decide) hdotT
      simpa [tokOfTerminal] using this
    obtain ⟨hxn, hxi⟩ := hn.1
    have hxs : ∀ r, TextStart T (x ++ r) := by
      intro r
      cases x with
      | nil => simp [idShaped] at hxi
      | cons c cs =>
        simp only [idShaped, Bool.and_eq_true] at hxi
        simp only [List.cons_append]
        exact ts_head _ (Or.inl hxi.1)
    refine ⟨?_, fun rest => by simpa [printText] using ts_lbrace (T := T) _⟩
    have h5 := Steps.append hb.1 hR (fun rest _ => follow_rbrace rest)
    have h4 := Steps.append hD h5 (fun rest _ => safe_dot hsafeD _)
    have h3' := Steps.append hty h4 (fun rest _ => follow_dot _)
    have h3 := Steps.append hC h3' (fun _ _ => trivial)
    have h2 := Steps.append (steps_name hxn) h3 (fun rest _ => by
      intro c r hr; simp at hr; rw [← hr.1]; decide)
    have h1' := Steps.append hL h2 (fun rest _ => safe_beforeTerm hLs (by
      simp only [List.append_assoc]; exact hxs _))
    simpa [printText, printSkel, List.append_assoc] using h1'

/-- the lexer reads the printed text back as the printed tokens -/
theorem lex_print_core (hT : TextOK T L S) (uni : Bool) (t : Skel) (hw : t.WF T L) (hn : t.NamesOK S) :
    lex S (printText T L S uni t) = some (printSkel T L uni t) := by
  have h := (lex_term hT uni t hw hn).1 [] [] ((printText T L S uni t).length + 1) (Or.inl rfl) (by simp)
  obtain ⟨f', hf, he⟩ := h
  simp only [List.append_nil] at he
  unfold lex
  rw [he]
  cases f' with
  | zero => simp at hf
  | succ f0 => simp [lexAux]

end Holpy.C07
