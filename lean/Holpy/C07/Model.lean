import Holpy.C07.TypeModel
/-
C07 — model of the precedence core of holpy's printer (syntax/pprint.py `get_ast_term` +
`print_ast`) and of the term grammar of syntax/parser.py.  Import-free (linked into c07_model).

* `Table`  : `op_data_raw` / `binder_data_raw` of syntax/operator.py (regenerated: Gen.table).
* `Ladder` : the rule ladder `term … comb` of the Lark grammar (regenerated: Gen.ladder); level
  kinds are read off the rule as written: `x: x OP next` = infixL, `x: next OP x` = infixR,
  `x: x OP x` (ambiguous, LALR prefers shift) = infixR, `x: OP x | next` = pre.
* `Skel`   : term skeletons (operators by row index, application, binders, if, atoms).
* `printSkel` : the bracket rules of `get_ast_term` (priority pairs, the special cases for
  prefix operators and application) producing tokens.
* `parseSkel` : recursive descent over the ladder, with fuel.
* `lex` : longest-match lexer over the generated terminal list (name-safe fragment).
-/
namespace Holpy.C07

inductive Assoc | left | right | non
  deriving DecidableEq, Repr, Inhabited

inductive Arity | const | unary | binary
  deriving DecidableEq, Repr, Inhabited

structure OpRow where
  funName : String
  priority : Nat
  assoc : Assoc
  arity : Arity
  /-- spellings as indices into the symbol list (Gen.symbols), blanks removed -/
  ascii : Nat
  unicode : Nat
  key : String
  /-- spellings exactly as the printer writes them (code points; `UN ` keeps its blank) -/
  asciiTxt : List Nat := []
  unicodeTxt : List Nat := []
  deriving DecidableEq, Repr, Inhabited

structure BinderRow where
  funName : String
  ascii : Nat
  unicode : Nat
  key : String
  asciiTxt : List Nat := []
  unicodeTxt : List Nat := []
  deriving DecidableEq, Repr, Inhabited

structure Table where
  ops : List OpRow
  binders : List BinderRow
  /-- spellings of lambda, hard-coded in pprint.py (`Binder("λ") if settings.unicode else Binder("%")`) -/
  lam : BinderRow
  deriving Repr

/-- all binder rows the printer knows: lambda, then `binder_data_raw` -/
def Table.allBinders (T : Table) : List BinderRow := T.lam :: T.binders

inductive Kind | infixL | infixR | pre | alias
  deriving DecidableEq, Repr, Inhabited

structure Level where
  name : String
  kind : Kind
  /-- one group of spellings per operator alternative of the rule -/
  syms : List (List Nat)
  deriving DecidableEq, Repr, Inhabited

structure Ladder where
  levels : List Level
  /-- spellings of the binder alternatives of `atom` (`%`/`λ`, `!`/`∀`, …) -/
  binders : List (List Nat)
  /-- symbols of the type syntax (for annotations `(t::T)`, `%x::T. t`) and the `::` terminal -/
  ty : TySyms := { tick := 0, qtick := 0, arrowA := 0, arrowU := 0, comma := 0 }
  dcolon : Nat := 0
  /-- `{`, `..`, `}` of the interval syntax `{m..n}` -/
  lbrace : Nat := 0
  dotdot : Nat := 0
  rbrace : Nat := 0
  deriving Repr

inductive Skel
  | atom (s : List Nat)
  | app (f a : Skel)
  | bin (o : Nat) (l r : Skel)
  | un (o : Nat) (a : Skel)
  | binder (b : Nat) (x : List Nat) (body : Skel)
  | ite (c a b : Skel)
  /-- `(t::T)`: a term with a type annotation (the printer writes it around constants, numerals, `[]`, `∅`) -/
  | ann (t : Skel) (ty : Ty)
  /-- `%x::T. body`: a binder whose bound variable carries a type annotation -/
  | binderT (b : Nat) (x : List Nat) (ty : Ty) (body : Skel)
  /-- `{m..n}`: the interval literal (`nat_interval m n`) -/
  | interval (a b : Skel)
  /-- `{x. body}`: set comprehension (`collect (%x. body)`) -/
  | collect (x : List Nat) (body : Skel)
  /-- `{x::T. body}`: set comprehension with the type of the bound variable shown -/
  | collectT (x : List Nat) (ty : Ty) (body : Skel)
  deriving DecidableEq, Repr, Inhabited

/-! ### Printer -/

/-- `ATOM, FUN_APPL, UNARY, BINARY, BINDER` of pprint.py -/
inductive PK | atom | funAppl | unary | binary | binder
  deriving DecidableEq, Repr

/-- What the bracket rules look at: the top construct of the operand. -/
inductive Cls
  | atom | app | opn
  | bin (o : Nat)
  | un (o : Nat)
  deriving DecidableEq, Repr

def Skel.cls : Skel → Cls
  | .atom _ => .atom
  | .app _ _ => .app
  | .bin o _ _ => .bin o
  | .un o _ => .un o
  | .binder _ _ _ => .opn
  | .ite _ _ _ => .opn
  | .ann _ _ => .atom
  | .binderT _ _ _ _ => .opn
  | .interval _ _ => .app
  | .collect _ _ => .app
  | .collectT _ _ _ => .app

def Table.row (T : Table) (o : Nat) : OpRow := T.ops.getD o default

/-- The spelling the printer uses for row `o`. -/
def Table.spell (T : Table) (uni : Bool) (o : Nat) : Nat :=
  if uni then (T.row o).unicode else (T.row o).ascii

/-- `get_priority_pair` -/
def prioPair (T : Table) : Cls → Nat × PK
  | .atom => (100, .atom)
  | .app => (95, .funAppl)
  | .opn => (10, .binder)
  | .bin o => ((T.row o).priority, .binary)
  | .un o => ((T.row o).priority, .unary)

/-- bracket around the first argument of binary operator row `o` -/
def brL (T : Table) (o : Nat) (c : Cls) : Bool :=
  let p := (T.row o).priority
  let q := (prioPair T c).1
  match (T.row o).assoc with
  | .left => q < p
  | .right => q ≤ p
  | .non => false

/-- bracket around the second argument of binary operator row `o` -/
def brR (T : Table) (o : Nat) (c : Cls) : Bool :=
  let p := (T.row o).priority
  let q := (prioPair T c).1
  match (T.row o).assoc with
  | .left => q ≤ p
  | .right => q < p
  | .non => false

/-- bracket around the argument of prefix operator row `o` -/
def brU (T : Table) (o : Nat) (c : Cls) : Bool :=
  let p := (T.row o).priority
  let (q, k) := prioPair T c
  if k = .unary then q < p else (q < 95 || k = .funAppl)

/-- bracket around the function part of an application -/
def brF (T : Table) (c : Cls) : Bool :=
  let (q, k) := prioPair T c
  q < 95 || k = .unary

/-- bracket around the argument part of an application -/
def brA (T : Table) (c : Cls) : Bool := (prioPair T c).1 ≤ 95

/-- the printer's row for the `b`-th binder alternative of the grammar: the row whose ascii spelling the grammar lists there -/
def binderRow (T : Table) (L : Ladder) (b : Nat) : BinderRow :=
  (T.allBinders.find? (fun r => (L.binders.getD b []).contains r.ascii)).getD { funName := "", ascii := 1000000, unicode := 1000000, key := "" }

/-- the spelling the PRINTER uses (operator.py / pprint.py), not the grammar's -/
def binderSpell (T : Table) (L : Ladder) (uni : Bool) (b : Nat) : Nat :=
  if uni then (binderRow T L b).unicode else (binderRow T L b).ascii

/-- Token stream of `print_ast (get_ast_term t)` for the precedence core. -/
def printSkel (T : Table) (L : Ladder) (uni : Bool) : Skel → List Tok
  | .atom s => [.id s]
  | .app f a => wrap (brF T f.cls) (printSkel T L uni f) ++ wrap (brA T a.cls) (printSkel T L uni a)
  | .bin o l r => wrap (brL T o l.cls) (printSkel T L uni l) ++ .sym (T.spell uni o) :: wrap (brR T o r.cls) (printSkel T L uni r)
  | .un o a => .sym (T.spell uni o) :: wrap (brU T o a.cls) (printSkel T L uni a)
  | .binder b x body => .sym (binderSpell T L uni b) :: .id x :: .dot :: printSkel T L uni body
  | .ite c a b => .kif :: printSkel T L uni c ++ .kthen :: printSkel T L uni a ++ .kelse :: printSkel T L uni b
  | .ann t ty => .lp :: (printSkel T L uni t ++ .sym L.dcolon :: (printTy L.ty uni ty ++ [.rp]))
  | .binderT b x ty body => .sym (binderSpell T L uni b) :: .id x :: .sym L.dcolon :: (printTy L.ty uni ty ++ .dot :: printSkel T L uni body)
  | .interval a b => .sym L.lbrace :: (printSkel T L uni a ++ .sym L.dotdot :: (printSkel T L uni b ++ [.sym L.rbrace]))
  | .collect x body => .sym L.lbrace :: .id x :: .dot :: (printSkel T L uni body ++ [.sym L.rbrace])
  | .collectT x ty body => .sym L.lbrace :: .id x :: .sym L.dcolon :: (printTy L.ty uni ty ++ .dot :: (printSkel T L uni body ++ [.sym L.rbrace]))

/-! ### Parser -/

def Level.has (lv : Level) (s : Nat) : Bool := lv.syms.any (·.contains s)

/-- row of the table with the given arity one of whose spellings is `s` -/
def Table.find (T : Table) (ar : Arity) (s : Nat) : Option Nat :=
  T.ops.findIdx? (fun r => r.arity = ar ∧ (r.ascii = s ∨ r.unicode = s))

def Ladder.binderIdx (L : Ladder) (s : Nat) : Option Nat := L.binders.findIdx? (·.contains s)

abbrev PRes := Option (Skel × List Tok)

def atomStart (L : Ladder) : List Tok → Bool
  | .lp :: _ => true
  | .id _ :: _ => true
  | .kif :: _ => true
  | .sym s :: _ => (L.binderIdx s).isSome
  | _ => false

/-- rule `atom` (the alternatives of the precedence core); `self i` parses a term at ladder level `i` -/
def atomP' (L : Ladder) (self : Nat → List Tok → PRes) : List Tok → PRes
  | .id s :: r => some (.atom s, r)
  | .lp :: r =>
    match self 0 r with
    | some (t, .rp :: r') => some (t, r')
    | some (t, .sym d :: r1) =>
      -- "(" term "::" type ")"
      if d = L.dcolon then
        match parseTyAt L.ty (r1.length + 1) r1 with
        | some (ty, .rp :: r2) => some (.ann t ty, r2)
        | _ => none
      else none
    | _ => none
  | .kif :: r =>
    match self 0 r with
    | some (c, .kthen :: r1) =>
      match self 0 r1 with
      | some (a, .kelse :: r2) =>
        match self 0 r2 with
        | some (b, r3) => some (.ite c a b, r3)
        | none => none
      | _ => none
    | _ => none
  | .sym s :: .id x :: .dot :: r =>
    match L.binderIdx s with
    | some b =>
      match self 0 r with
      | some (body, r') => some (.binder b x body, r')
      | none => none
    | none => none
  | .sym s :: .id x :: .sym d :: r =>
    -- binder CNAME "::" type ". " term
    if d = L.dcolon then
      match L.binderIdx s, parseTyAt L.ty (r.length + 1) r with
      | some b, some (ty, .dot :: r1) =>
        match self 0 r1 with
        | some (body, r') => some (.binderT b x ty body, r')
        | none => none
      | _, _ => none
    else none
  | _ => none

/-- after "{": term ".." term "}" (rule `nat_interval`), CNAME ". " term "}" (`collect_set_notype`),
CNAME "::" type ". " term "}" (`collect_set`); set literals are not modelled.  One term is read first; what
follows it decides (on printed texts this is what the LALR parser does with one token of lookahead). -/
def braceP (L : Ladder) (self : Nat → List Tok → PRes) (r : List Tok) : PRes :=
  match self 0 r with
  | some (a, .sym d :: r1) =>
    if d = L.dotdot then
      match self 0 r1 with
      | some (b, .sym e :: r2) => if e = L.rbrace then some (.interval a b, r2) else none
      | _ => none
    else if d = L.dcolon then
      match a, parseTyAt L.ty (r1.length + 1) r1 with
      | .atom x, some (ty, .dot :: r2) =>
        match self 0 r2 with
        | some (body, .sym e :: r3) => if e = L.rbrace then some (.collectT x ty body, r3) else none
        | _ => none
      | _, _ => none
    else none
  | some (.atom x, .dot :: r1) =>
    match self 0 r1 with
    | some (body, .sym e :: r2) => if e = L.rbrace then some (.collect x body, r2) else none
    | _ => none
  | _ => none

/-- rule `atom` -/
def atomP (L : Ladder) (self : Nat → List Tok → PRes) (ts : List Tok) : PRes :=
  match ts with
  | .sym s :: r => if s = L.lbrace then braceP L self r else atomP' L self ts
  | _ => atomP' L self ts

/-- rule `comb: comb atom | atom` after the first atom: left-nested application loop -/
def appLoop (L : Ladder) (self : Nat → List Tok → PRes) : Nat → Skel → List Tok → PRes
  | g, x, ts =>
    if atomStart L ts then
      match g with
      | 0 => none
      | g + 1 =>
        match atomP L self ts with
        | some (y, r) => appLoop L self g (.app x y) r
        | none => none
    else some (x, ts)

/-- loop of a left-recursive level `x: x OP next` after the first operand -/
def loopL (T : Table) (lv : Level) (self : Nat → List Tok → PRes) (i : Nat) : Nat → Skel → List Tok → PRes
  | g, x, .sym s :: r =>
    if lv.has s then
      match g with
      | 0 => none
      | g + 1 =>
        match T.find .binary s, self (i + 1) r with
        | some o, some (y, r') => loopL T lv self i g (.bin o x y) r'
        | _, _ => none
    else some (x, .sym s :: r)
  | _, x, ts => some (x, ts)

/-- levels `i, i+1, …` of the ladder (`lvls = L.levels.drop i`), then application -/
def levelsFrom (T : Table) (L : Ladder) (self : Nat → List Tok → PRes) : List Level → Nat → List Tok → PRes
  | [], _, ts =>
    match atomP L self ts with
    | some (x, r) => appLoop L self ts.length x r
    | none => none
  | lv :: rest, i, ts =>
    match lv.kind with
    | .alias => levelsFrom T L self rest (i + 1) ts
    | .pre =>
      match ts with
      | .sym s :: r =>
        if lv.has s then
          match T.find .unary s, self i r with
          | some o, some (a, r') => some (.un o a, r')
          | _, _ => none
        else levelsFrom T L self rest (i + 1) ts
      | _ => levelsFrom T L self rest (i + 1) ts
    | .infixR =>
      match levelsFrom T L self rest (i + 1) ts with
      | some (x, .sym s :: r) =>
        if lv.has s then
          match T.find .binary s, self i r with
          | some o, some (y, r') => some (.bin o x y, r')
          | _, _ => none
        else some (x, .sym s :: r)
      | res => res
    | .infixL =>
      match levelsFrom T L self rest (i + 1) ts with
      | some (x, r) => loopL T lv self i ts.length x r
      | none => none

/-- parse a term at ladder level `i`; every recursive call through `self` happens after a token was consumed -/
def parseAt (T : Table) (L : Ladder) : Nat → Nat → List Tok → PRes
  | 0, _, _ => none
  | f + 1, i, ts => levelsFrom T L (parseAt T L f) (L.levels.drop i) i ts

def parseSkel (T : Table) (L : Ladder) (ts : List Tok) : Option Skel :=
  match parseAt T L (ts.length + 1) 0 ts with
  | some (t, []) => some t
  | _ => none

/-! ### Lexer

Characters are Unicode code points (`Nat = Nat`), texts are `List Nat`; the driver converts.
`S` is the list of literal terminals of the grammar (regenerated: `Gen.symbolsC`), a symbol token
carries the index of its terminal in `S`.

The lexer is Lark's standard lexer for this grammar: `%ignore WS` at a token start; the regexp
terminals CNAME / INT match greedily and come before every string terminal in Lark's alternation
(they have the larger `max_width`), a CNAME match that is spelled like a string terminal becomes
that terminal (Lark's `UnlessCallback`); string terminals are tried longest first.  What it does
NOT model is the CONTEXTUAL restriction of the candidates to the terminals the LALR parser can
accept in its current state: `P UN S` (keywords read as identifiers where no operator can stand)
or `a|-b` lex differently in Lark.  For texts printed from skeletons whose names are `NameOK` the
two agree; that is what `lex_print` proves for the model and what the correspondence stream
checks against Lark's real token stream. -/

abbrev Chr := Nat

def isLetter (c : Nat) : Bool := (65 ≤ c && c ≤ 90) || (97 ≤ c && c ≤ 122)
def isDigitC (c : Nat) : Bool := 48 ≤ c && c ≤ 57
def isIdStart (c : Nat) : Bool := isLetter c || c = 95
def isIdChar (c : Nat) : Bool := isLetter c || isDigitC c || c = 95
def isWs (c : Nat) : Bool := c = 32 || c = 10 || c = 9 || c = 13

/-- the token of a literal terminal -/
def tokOfTerminal (S : List (List Nat)) (w : List Nat) : Tok :=
  if w = [40] then .lp else if w = [41] then .rp else if w = [46, 32] then .dot
  else if w = [105, 102] then .kif else if w = [116, 104, 101, 110] then .kthen else if w = [101, 108, 115, 101] then .kelse
  else .sym (S.idxOf w)

/-- longest string terminal that is a prefix of the input, trying lengths `n, n-1, …, 1` -/
def matchLen (S : List (List Nat)) (cs : List Nat) : Nat → Option (List Nat)
  | 0 => none
  | n + 1 =>
    if (cs.take (n + 1)).length = n + 1 ∧ S.contains (cs.take (n + 1)) = true then some (cs.take (n + 1))
    else matchLen S cs n

def maxLen (S : List (List Nat)) : Nat := (S.map List.length).foldl max 0

def lexAux (S : List (List Nat)) : Nat → List Nat → List Tok → Option (List Tok)
  | 0, _, _ => none
  | _ + 1, [], acc => some acc.reverse
  | f + 1, c :: cs, acc =>
    if isWs c then lexAux S f cs acc
    else if isIdStart c then
      let w := (c :: cs).takeWhile isIdChar
      lexAux S f ((c :: cs).dropWhile isIdChar) ((if S.contains w then tokOfTerminal S w else .id w) :: acc)
    else if isDigitC c then
      lexAux S f ((c :: cs).dropWhile isDigitC) (.id ((c :: cs).takeWhile isDigitC) :: acc)
    else
      match matchLen S (c :: cs) (maxLen S) with
      | some w => lexAux S f ((c :: cs).drop w.length) (tokOfTerminal S w :: acc)
      | none => none

def lex (S : List (List Nat)) (cs : List Nat) : Option (List Tok) := lexAux S (cs.length + 1) cs []

/-- identifier (CNAME) that is no literal terminal, or a numeral (INT) -/
def NameOK (S : List (List Nat)) (w : List Nat) : Bool :=
  match w with
  | [] => false
  | c :: cs => (isIdStart c && cs.all isIdChar && !S.contains w) || (isDigitC c && cs.all isDigitC)

end Holpy.C07

namespace Holpy.C07

/-! ### Consistency of the printer's table with the grammar's ladder (decidable) -/

def Ladder.n (L : Ladder) : Nat := L.levels.length

def Ladder.at (L : Ladder) (i : Nat) : Level := L.levels.getD i ⟨"", .alias, []⟩

/-- ladder level of the operator of table row `o`: the first level of the right kind that has its ascii spelling -/
def rowLevel (T : Table) (L : Ladder) (o : Nat) : Nat :=
  L.levels.findIdx (fun lv =>
    (if (T.row o).arity = .unary then lv.kind = .pre else (lv.kind = .infixL ∨ lv.kind = .infixR)) ∧ lv.has (T.row o).ascii)

/-- level of the top construct of an operand; application = `n`, atoms = `n + 1` -/
def clsLevel (T : Table) (L : Ladder) : Cls → Nat
  | .atom => L.n + 1
  | .app => L.n
  | .opn => L.n + 1
  | .bin o => rowLevel T L o
  | .un o => rowLevel T L o

/-- the operand may stand without brackets where the grammar asks for level `req` -/
abbrev fits (T : Table) (L : Ladder) (c : Cls) (req : Nat) : Prop := c ≠ .opn ∧ req ≤ clsLevel T L c

def leftReq (L : Ladder) (l : Nat) : Nat := if (L.at l).kind = .infixL then l else l + 1
def rightReq (L : Ladder) (l : Nat) : Nat := if (L.at l).kind = .infixL then l + 1 else l

def classes (T : Table) : List Cls :=
  [.atom, .app, .opn] ++ (List.range T.ops.length).map (fun o => if (T.row o).arity = .unary then Cls.un o else Cls.bin o)

abbrev RowOK (T : Table) (L : Ladder) (o : Nat) : Prop :=
  ((T.row o).arity = .binary →
    rowLevel T L o < L.n ∧ ((L.at (rowLevel T L o)).kind = .infixL ∨ (L.at (rowLevel T L o)).kind = .infixR) ∧
    (L.at (rowLevel T L o)).has (T.row o).ascii = true ∧ (L.at (rowLevel T L o)).has (T.row o).unicode = true ∧
    T.find .binary (T.row o).ascii = some o ∧ T.find .binary (T.row o).unicode = some o ∧
    ∀ c ∈ classes T, (brL T o c = false → fits T L c (leftReq L (rowLevel T L o))) ∧
                     (brR T o c = false → fits T L c (rightReq L (rowLevel T L o)))) ∧
  ((T.row o).arity = .unary →
    rowLevel T L o < L.n ∧ (L.at (rowLevel T L o)).kind = .pre ∧
    (L.at (rowLevel T L o)).has (T.row o).ascii = true ∧ (L.at (rowLevel T L o)).has (T.row o).unicode = true ∧
    T.find .unary (T.row o).ascii = some o ∧ T.find .unary (T.row o).unicode = some o ∧
    ∀ c ∈ classes T, brU T o c = false → fits T L c (rowLevel T L o))

abbrev AppOK (T : Table) (L : Ladder) : Prop :=
  ∀ c ∈ classes T, (brF T c = false → fits T L c L.n) ∧ (brA T c = false → fits T L c (L.n + 1))

def isInfix (k : Kind) : Bool := k = .infixL ∨ k = .infixR

abbrev LadderOK (T : Table) (L : Ladder) : Prop :=
  (∀ i < L.n, ∀ j < L.n, i ≠ j → ∀ s ∈ (L.at i).syms.flatten, (L.at j).has s = true →
      ¬ ((isInfix (L.at i).kind = true ∧ isInfix (L.at j).kind = true) ∨ ((L.at i).kind = .pre ∧ (L.at j).kind = .pre))) ∧
  (∀ i < L.n, ∀ s ∈ (L.at i).syms.flatten, L.binderIdx s = none) ∧
  (∀ b < L.binders.length,
      (binderSpell T L false b ∈ L.binders.getD b [] ∧ binderSpell T L true b ∈ L.binders.getD b []) ∧
      ∀ s ∈ L.binders.getD b [], L.binderIdx s = some b) ∧
  -- every binder row of operator.py / pprint.py is spelled the way one binder alternative of the grammar is
  ((∀ r ∈ T.allBinders, (L.binderIdx r.ascii).isSome = true ∧ L.binderIdx r.unicode = L.binderIdx r.ascii) ∧
   -- `::` is no operator symbol and no binder spelling; the type symbols are distinct
   (L.binderIdx L.dcolon = none ∧ (∀ j < L.n, (L.at j).has L.dcolon = false) ∧ L.ty.ok) ∧
   -- `{`, `..`, `}` are no operator symbols and no binder spellings
   ((∀ s ∈ [L.lbrace, L.dotdot, L.rbrace], L.binderIdx s = none ∧ ∀ j < L.n, (L.at j).has s = false) ∧ L.dcolon ≠ L.dotdot))

/-- every bracket the printer omits is one the grammar does not need; spellings agree -/
abbrev TableConsistent (T : Table) (L : Ladder) : Prop :=
  (∀ o < T.ops.length, RowOK T L o) ∧ AppOK T L ∧ LadderOK T L

/-- well-formed skeleton: operator rows exist with the right arity, binder alternatives exist -/
def Skel.WF (T : Table) (L : Ladder) : Skel → Prop
  | .atom _ => True
  | .app f a => f.WF T L ∧ a.WF T L
  | .bin o l r => o < T.ops.length ∧ (T.row o).arity = .binary ∧ l.WF T L ∧ r.WF T L
  | .un o a => o < T.ops.length ∧ (T.row o).arity = .unary ∧ a.WF T L
  | .binder b _ body => b < L.binders.length ∧ body.WF T L
  | .ite c a b => c.WF T L ∧ a.WF T L ∧ b.WF T L
  | .ann t _ => t.WF T L
  | .binderT b _ _ body => b < L.binders.length ∧ body.WF T L
  | .interval a b => a.WF T L ∧ b.WF T L
  | .collect _ body => body.WF T L
  | .collectT _ _ body => body.WF T L

end Holpy.C07
