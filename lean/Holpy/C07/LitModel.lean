import Holpy.C07.Model
/-
C07 — list and set literals: `print_ast` for the AST nodes `list` / `set` of syntax/pprint.py (entries
separated by ", " between the brackets; the empty literal is ONE terminal: `[]`, `{}` / `∅`) and the rules
  "[]" | "[" term ("," term)* "]"   (literal_list),   ("{}"|"∅") | "{" term ("," term)* "}"   (literal_set)
of the grammar.  The entries are skeletons of the term model; the literal itself is not a `Skel`
constructor (a literal nested inside a term is outside this model).  Import-free.
-/
namespace Holpy.C07

structure LitSyms where
  lopen : Nat
  lclose : Nat
  comma : Nat
  /-- the empty literal, as the printer spells it in ASCII / Unicode mode -/
  emptyA : Nat
  emptyU : Nat
  deriving Repr

def LitSyms.empty (Q : LitSyms) (uni : Bool) : Nat := if uni then Q.emptyU else Q.emptyA

/-- `, e` for every further entry, then the closing bracket -/
def printElemsMore (T : Table) (L : Ladder) (Q : LitSyms) (uni : Bool) : List Skel → List Tok
  | [] => [.sym Q.lclose]
  | a :: as => .sym Q.comma :: (printSkel T L uni a ++ printElemsMore T L Q uni as)

/-- token stream of a printed list / set literal -/
def printLit (T : Table) (L : Ladder) (Q : LitSyms) (uni : Bool) : List Skel → List Tok
  | [] => [.sym (Q.empty uni)]
  | a :: as => .sym Q.lopen :: (printSkel T L uni a ++ printElemsMore T L Q uni as)

/-- `term ("," term)* close`, the entries read so far in `acc` (reversed) -/
def elemsLoop (T : Table) (L : Ladder) (Q : LitSyms) : Nat → List Skel → List Tok → Option (List Skel × List Tok)
  | 0, _, _ => none
  | g + 1, acc, ts =>
    match parseAt T L (ts.length + 1) 0 ts with
    | some (a, .sym s :: r) =>
      if s = Q.comma then elemsLoop T L Q g (a :: acc) r
      else if s = Q.lclose then some ((a :: acc).reverse, r)
      else none
    | _ => none

/-- rules `literal_list` / `literal_set`: the entries and the rest of the input -/
def parseLit (T : Table) (L : Ladder) (Q : LitSyms) (ts : List Tok) : Option (List Skel × List Tok) :=
  match ts with
  | .sym s :: r =>
    if s = Q.emptyA ∨ s = Q.emptyU then some ([], r)
    else if s = Q.lopen then elemsLoop T L Q (r.length + 1) [] r
    else none
  | _ => none

/-- `,` and the closing bracket are no operator symbols and no binder spellings of the term syntax and differ;
the opening bracket is not the empty literal -/
abbrev LitOK (L : Ladder) (Q : LitSyms) : Prop :=
  (Q.comma ≠ Q.lclose ∧ Q.lopen ≠ Q.emptyA ∧ Q.lopen ≠ Q.emptyU) ∧
  ∀ s ∈ [Q.comma, Q.lclose], L.binderIdx s = none ∧ (∀ j < L.n, (L.at j).has s = false)

end Holpy.C07
