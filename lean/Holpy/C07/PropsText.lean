import Holpy.C07.Props
import Holpy.C07.LexPrint
/-
C07 — property theorems about the printed TEXT (terms).  `Gen.symbolsC` is the regenerated list of
literal terminals of the grammar in syntax/parser.py; the spellings `asciiTxt` / `unicodeTxt` of
`Gen.table` are `op_data_raw` / `binder_data_raw` / the lambda of pprint.py exactly as written.
-/
namespace Holpy.C07

set_option synthInstance.maxSize 4096 in
set_option synthInstance.maxHeartbeats 1000000 in
/-- The terminals of the grammar and the spellings of the printer (with their blanks) fit: every
spelling is the terminal its symbol stands for, identifier-shaped prefix operators and binders
(`UN `, `THE `) keep their blank, no longer terminal can swallow what the printer writes directly
after `(`, `)`, `. `, a prefix operator (`--x` is not `-->`) or a binder (`?x` is not `?!`, `?'`). -/
theorem text_ok : TextOK Gen.table Gen.ladder Gen.symbolsC := by decide +kernel

example : safeBeforeTerm Gen.table Gen.symbolsC [45] = true ∧ Gen.symbolsC.contains [45, 45, 62] = true ∧
    startsOK Gen.table 3 [45, 62] = false ∧ startsOK Gen.table 3 [45, 120] = true := by decide +kernel

/-- For every table / ladder / terminal list with `TextOK`: Lark's standard lexer (model) reads the text
the printer writes without a line limit back as exactly the printer's token list, for every
skeleton whose identifiers are `NameOK` (identifier or numeral shape, no literal terminal). -/
theorem lex_print_abstract (T : Table) (L : Ladder) (S : List (List Nat)) (hT : TextOK T L S) (uni : Bool) (t : Skel)
    (hw : t.WF T L) (hn : t.NamesOK S) : lex S (printText T L S uni t) = some (printSkel T L uni t) :=
  lex_print_core hT uni t hw hn

example : ∃ T L S, TextOK T L S ∧ S.length > 50 := ⟨Gen.table, Gen.ladder, Gen.symbolsC, text_ok, by decide⟩

/-- The same for the terminals and spellings of the current sources. -/
theorem lex_print (uni : Bool) (t : Skel) (hw : t.WF Gen.table Gen.ladder) (hn : t.NamesOK Gen.symbolsC) :
    lex Gen.symbolsC (printText Gen.table Gen.ladder Gen.symbolsC uni t) = some (printSkel Gen.table Gen.ladder uni t) :=
  lex_print_core text_ok uni t hw hn

/-- `!x. --x ^ y <--> UN S Mem f T`: binder dot, double unary minus next to `-->`-like terminals,
identifier-shaped operators -/
def exampleText : Skel :=
  .binder 1 [120] (.bin 1 (.bin 9 (.un 8 (.un 8 (.atom [120]))) (.atom [121]))
    (.bin 21 (.un 26 (.atom [83])) (.app (.atom [102]) (.atom [84]))))

example : exampleText.WF Gen.table Gen.ladder ∧ exampleText.NamesOK Gen.symbolsC := by
  refine ⟨⟨by decide, ⟨by decide, by decide, ⟨by decide, by decide, ⟨by decide, by decide, by decide, by decide, trivial⟩, trivial⟩,
    ⟨by decide, by decide, ⟨by decide, by decide, trivial⟩, trivial, trivial⟩⟩⟩, ?_⟩
  simp only [exampleText, Skel.NamesOK]
  decide +kernel

example : printText Gen.table Gen.ladder Gen.symbolsC false exampleText
    = [33, 120, 46, 32, 45, 45, 120, 32, 94, 32, 121, 32, 60, 45, 45, 62, 32, 85, 78, 32, 83, 32, 77, 101, 109, 32, 102, 32, 84] := by
  decide +kernel

/-- Composition with `parse_print`: lexing and parsing the printed text gives back the skeleton
(`parseText` = model lexer, then the ladder parser). -/
theorem parse_print_text (uni : Bool) (t : Skel) (hw : t.WF Gen.table Gen.ladder) (hn : t.NamesOK Gen.symbolsC) :
    parseText Gen.table Gen.ladder Gen.symbolsC (printText Gen.table Gen.ladder Gen.symbolsC uni t) = some t := by
  unfold parseText
  rw [lex_print uni t hw hn]
  exact parse_print uni t hw

example : parseText Gen.table Gen.ladder Gen.symbolsC (printText Gen.table Gen.ladder Gen.symbolsC true exampleText) = some exampleText := by
  decide +kernel

end Holpy.C07

namespace Holpy.C07

/-- Terms WITH type annotations: `(t::T)` around any subterm and `%x::T. t` on any binder.  Whatever
subterms are annotated (the printer's `infer_printed_type` decides; the model takes any choice),
lexing and parsing the printed text gives back the annotated skeleton — instances of
`parse_print_text` for the constructors `Skel.ann` / `Skel.binderT`. -/
theorem parse_print_annotated (uni : Bool) (t : Skel) (ty : Ty) (b : Nat) (x : List Nat)
    (hw : t.WF Gen.table Gen.ladder) (hn : t.NamesOK Gen.symbolsC) (hty : ty.NamesOK Gen.symbolsC)
    (hb : b < Gen.ladder.binders.length) (hx : NameOK Gen.symbolsC x = true ∧ idShaped x = true) :
    parseText Gen.table Gen.ladder Gen.symbolsC (printText Gen.table Gen.ladder Gen.symbolsC uni (.ann t ty)) = some (.ann t ty) ∧
    parseText Gen.table Gen.ladder Gen.symbolsC (printText Gen.table Gen.ladder Gen.symbolsC uni (.binderT b x ty t))
      = some (.binderT b x ty t) :=
  ⟨parse_print_text uni (.ann t ty) hw ⟨hn, hty⟩, parse_print_text uni (.binderT b x ty t) ⟨hb, hw⟩ ⟨hx, hty, hn⟩⟩

/-- `%x::'a. (0::nat) + f (x::'a)` -/
def exampleAnn : Skel :=
  .binderT 0 [120] (.tvar [97])
    (.bin 6 (.ann (.atom [48]) (.con [110, 97, 116] .nil)) (.app (.atom [102]) (.ann (.atom [120]) (.tvar [97]))))

example : printText Gen.table Gen.ladder Gen.symbolsC false exampleAnn
      = [37, 120, 58, 58, 39, 97, 46, 32, 40, 48, 58, 58, 110, 97, 116, 41, 32, 43, 32, 102, 32, 40, 120, 58, 58, 39, 97, 41] ∧
    parseText Gen.table Gen.ladder Gen.symbolsC (printText Gen.table Gen.ladder Gen.symbolsC false exampleAnn) = some exampleAnn := by
  decide +kernel

/-- Terms WITH the literals `{m..n}` (interval; the two bounds written without blanks or brackets, whatever they
are), `{x. P}` and `{x::T. P}` (set comprehension, the body never bracketed): lexing and parsing the printed text
gives back the skeleton — the instances of `parse_print_text` for the constructors `Skel.interval`,
`Skel.collect`, `Skel.collectT`.  (Set literals, function update and list literals are not in `Skel`.) -/
theorem parse_print_literals (uni : Bool) (a b : Skel) (x : List Nat) (ty : Ty)
    (hwa : a.WF Gen.table Gen.ladder) (hna : a.NamesOK Gen.symbolsC)
    (hwb : b.WF Gen.table Gen.ladder) (hnb : b.NamesOK Gen.symbolsC)
    (hx : NameOK Gen.symbolsC x = true ∧ idShaped x = true) (hty : ty.NamesOK Gen.symbolsC) :
    parseText Gen.table Gen.ladder Gen.symbolsC (printText Gen.table Gen.ladder Gen.symbolsC uni (.interval a b))
      = some (.interval a b) ∧
    parseText Gen.table Gen.ladder Gen.symbolsC (printText Gen.table Gen.ladder Gen.symbolsC uni (.collect x a))
      = some (.collect x a) ∧
    parseText Gen.table Gen.ladder Gen.symbolsC (printText Gen.table Gen.ladder Gen.symbolsC uni (.collectT x ty a))
      = some (.collectT x ty a) :=
  ⟨parse_print_text uni (.interval a b) ⟨hwa, hwb⟩ ⟨hna, hnb⟩,
   parse_print_text uni (.collect x a) hwa ⟨hx, hna⟩,
   parse_print_text uni (.collectT x ty a) hwa ⟨hx, hty, hna⟩⟩

/-- `f ({if m = n then 1 else 2..n + 1})`: the argument is bracketed, the bounds are not -/
def exampleInterval : Skel :=
  .app (.atom [102]) (.interval (.ite (.bin 0 (.atom [109]) (.atom [110])) (.atom [49]) (.atom [50])) (.bin 6 (.atom [110]) (.atom [49])))

example : printText Gen.table Gen.ladder Gen.symbolsC false exampleInterval
      = [102, 32, 40, 123, 105, 102, 32, 109, 32, 61, 32, 110, 32, 116, 104, 101, 110, 32, 49, 32, 101, 108, 115, 101, 32, 50,
         46, 46, 110, 32, 43, 32, 49, 125, 41] ∧
    parseText Gen.table Gen.ladder Gen.symbolsC (printText Gen.table Gen.ladder Gen.symbolsC false exampleInterval) = some exampleInterval := by
  decide +kernel

/-- `{y::nat. !z. y = z} = {y. f y}`: the bodies (a binder, an application) are not bracketed -/
def exampleCollect : Skel :=
  .bin 0 (.collectT [121] (.con [110, 97, 116] .nil) (.binder 1 [122] (.bin 0 (.atom [121]) (.atom [122]))))
    (.collect [121] (.app (.atom [102]) (.atom [121])))

example : printText Gen.table Gen.ladder Gen.symbolsC false exampleCollect
      = [123, 121, 58, 58, 110, 97, 116, 46, 32, 33, 122, 46, 32, 121, 32, 61, 32, 122, 125, 32, 61, 32,
         123, 121, 46, 32, 102, 32, 121, 125] ∧
    parseText Gen.table Gen.ladder Gen.symbolsC (printText Gen.table Gen.ladder Gen.symbolsC false exampleCollect) = some exampleCollect := by
  decide +kernel

end Holpy.C07
