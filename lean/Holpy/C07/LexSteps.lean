import Holpy.C07.LexBasics
/-
C07 — composing lexer steps; when a chunk is safely followed by what the printer writes next.
-/
namespace Holpy.C07

variable {S : List (List Nat)} {T : Table}

/-- lexing `txt` (followed by anything satisfying `P`) produces exactly the tokens `toks` -/
def Steps (S : List (List Nat)) (txt : List Nat) (toks : List Tok) (P : List Nat → Prop) : Prop :=
  ∀ rest acc f, P rest → (txt ++ rest).length < f →
    ∃ f', rest.length < f' ∧ lexAux S f (txt ++ rest) acc = lexAux S f' rest (toks.reverse ++ acc)

theorem Steps.append {a b : List Nat} {ta tb : List Tok} {Pa Pb : List Nat → Prop}
    (ha : Steps S a ta Pa) (hb : Steps S b tb Pb) (hP : ∀ rest, Pb rest → Pa (b ++ rest)) :
    Steps S (a ++ b) (ta ++ tb) Pb := by
  intro rest acc f hr hlen
  obtain ⟨f1, h1, e1⟩ := ha (b ++ rest) acc f (hP rest hr) (by simpa [List.append_assoc] using hlen)
  obtain ⟨f2, h2, e2⟩ := hb rest (ta.reverse ++ acc) f1 hr h1
  refine ⟨f2, h2, ?_⟩
  rw [List.append_assoc, e1, e2]
  simp [List.reverse_append, List.append_assoc]

theorem Steps.mono {a : List Nat} {ta : List Tok} {P Q : List Nat → Prop} (h : Steps S a ta P) (hq : ∀ r, Q r → P r) :
    Steps S a ta Q := fun rest acc f hr hlen => h rest acc f (hq rest hr) hlen

theorem steps_ws : Steps S [32] [] (fun _ => True) := by
  intro rest acc f _ hlen
  cases f with
  | zero => simp at hlen
  | succ f0 =>
    refine ⟨f0, by simp at hlen; omega, ?_⟩
    simpa using lex_ws (S := S) f0 32 rest acc (by decide)

theorem steps_ident {w : List Nat} (hw : idShaped w = true) :
    Steps S w [if S.contains w then tokOfTerminal S w else .id w] NotIdNext := by
  intro rest acc f hr hlen
  cases f with
  | zero => simp at hlen
  | succ f0 =>
    have hne : 0 < w.length := by cases w <;> simp [idShaped] at hw ⊢
    refine ⟨f0, by simp at hlen; omega, ?_⟩
    simpa using lex_ident (S := S) f0 w rest acc hw hr

theorem steps_name {w : List Nat} (h : NameOK S w = true) : Steps S w [.id w] NotIdNext := by
  cases w with
  | nil => simp [NameOK] at h
  | cons c cs =>
    simp only [NameOK, Bool.or_eq_true, Bool.and_eq_true, Bool.not_eq_true', List.all_eq_true] at h
    rcases h with h | h
    · have hid : idShaped (c :: cs) = true := by
        simp only [idShaped, Bool.and_eq_true, List.all_eq_true]
        exact ⟨h.1.1, h.1.2⟩
      have := steps_ident (S := S) hid
      rw [h.2] at this
      simpa using this
    · intro rest acc f hr hlen
      cases f with
      | zero => simp at hlen
      | succ f0 =>
        refine ⟨f0, by simp at hlen; omega, ?_⟩
        simpa using lex_num (S := S) f0 (c :: cs) rest acc c cs rfl h.1 h.2 hr

theorem steps_symbol {w : List Nat} (hs : symShaped w = true) (hw : S.contains w = true) :
    Steps S w [tokOfTerminal S w] (SafeAfter S w) := by
  intro rest acc f hr hlen
  cases f with
  | zero => simp at hlen
  | succ f0 =>
    have hne : 0 < w.length := by cases w <;> simp [symShaped] at hs ⊢
    refine ⟨f0, by simp at hlen; omega, ?_⟩
    simpa using lex_symbol (S := S) f0 w rest acc hs hw hr

theorem Steps.cons_ws {b : List Nat} {tb : List Tok} {P : List Nat → Prop} (h : Steps S b tb P) : Steps S (32 :: b) tb P := by
  have := Steps.append (S := S) steps_ws h (fun _ _ => trivial)
  simpa using this

/-! ### safety of what follows a string terminal -/

theorem safe_nil (w : List Nat) : SafeAfter S w [] := by
  intro m hm h
  simp at h
  omega

theorem take_append_gt (w rest : List Nat) (m : Nat) (hm : w.length < m) :
    (w ++ rest).take m = w ++ rest.take (m - w.length) := by
  rw [List.take_append]
  congr 1
  exact List.take_of_length_le (by omega)

theorem safe_blank (h1 : ∀ t ∈ S, t.contains 32 = true → t = [46, 32]) (hdot : S.contains [46] = false)
    {w : List Nat} (hw : S.contains w = true) (hne : w ≠ []) (r : List Nat) : SafeAfter S w (32 :: r) := by
  intro m hm h
  rw [take_append_gt w _ m hm] at h
  obtain ⟨k, hk⟩ : ∃ k, m - w.length = k + 1 := ⟨m - w.length - 1, by omega⟩
  rw [hk, List.take_succ_cons] at h
  have hmem : (w ++ 32 :: r.take k) ∈ S := by simpa using h.2
  have := h1 _ hmem (by simp)
  cases w with
  | nil => exact hne rfl
  | cons a w' =>
    cases w' with
    | nil =>
      simp at this
      rw [this.1] at hw
      rw [hw] at hdot
      cases hdot
    | cons b w'' => simp at this

/-- what may follow a complete term or type text: the end, a blank, a closing bracket, a comma -/
def Follow (rest : List Nat) : Prop := rest = [] ∨ ∃ c r, rest = c :: r ∧ (isWs c = true ∨ c = 41 ∨ c = 44 ∨ c = 58 ∨ c = 46 ∨ c = 125)

theorem follow_blank (r : List Nat) : Follow (32 :: r) := Or.inr ⟨32, r, rfl, Or.inl (by decide)⟩
theorem follow_ws {c : Nat} (hc : isWs c = true) (r : List Nat) : Follow (c :: r) := Or.inr ⟨c, r, rfl, Or.inl hc⟩
theorem follow_rp (r : List Nat) : Follow (41 :: r) := Or.inr ⟨41, r, rfl, Or.inr (Or.inl rfl)⟩
theorem follow_comma (r : List Nat) : Follow (44 :: r) := Or.inr ⟨44, r, rfl, Or.inr (Or.inr (Or.inl rfl))⟩
theorem follow_colon (r : List Nat) : Follow (58 :: r) := Or.inr ⟨58, r, rfl, Or.inr (Or.inr (Or.inr (Or.inl rfl)))⟩
theorem follow_dot (r : List Nat) : Follow (46 :: r) := Or.inr ⟨46, r, rfl, Or.inr (Or.inr (Or.inr (Or.inr (Or.inl rfl))))⟩
theorem follow_rbrace (r : List Nat) : Follow (125 :: r) := Or.inr ⟨125, r, rfl, Or.inr (Or.inr (Or.inr (Or.inr (Or.inr rfl))))⟩

theorem ws_not_idChar {c : Nat} (h : isWs c = true) : isIdChar c = false := by
  simp only [isWs, isIdChar, isLetter, isDigitC] at *
  simp at *
  omega

theorem Follow.notId {rest : List Nat} (h : Follow rest) : NotIdNext rest := by
  intro c r hr
  rcases h with rfl | ⟨c', r', rfl, hc | rfl | rfl | rfl | rfl | rfl⟩
  · cases hr
  · cases hr; exact ws_not_idChar hc
  · cases hr; decide
  · cases hr; decide
  · cases hr; decide
  · cases hr; decide
  · cases hr; decide

theorem safe_rp (hrp : ∀ t ∈ S, [41].isPrefixOf t = true → t = [41] ∨ isWs ((t.drop 1).headD 0) = false ∧ (t.drop 1).headD 0 ≠ 41 ∧ (t.drop 1).headD 0 ≠ 44 ∧ (t.drop 1).headD 0 ≠ 58 ∧ (t.drop 1).headD 0 ≠ 46 ∧ (t.drop 1).headD 0 ≠ 125)
    {rest : List Nat} (hf : Follow rest) : SafeAfter S [41] rest := by
  intro m hm h
  rcases hf with rfl | ⟨c, r, rfl, hcw⟩
  · exact safe_nil [41] m hm h
  · rw [take_append_gt _ _ m hm] at h
    obtain ⟨k, hk⟩ : ∃ k, m - [41].length = k + 1 := ⟨m - 1 - 1, by simp at hm ⊢; omega⟩
    rw [hk, List.take_succ_cons] at h
    have hmem := h.2
    simp only [List.contains_eq_mem, List.cons_append, List.nil_append, decide_eq_true_eq] at hmem
    have := hrp _ hmem (by simp [List.isPrefixOf])
    simp only [List.cons.injEq, List.drop_succ_cons, List.drop_zero, List.headD_cons] at this
    rcases this with h0 | ⟨h1, h2, h3, h4, h5, h6⟩
    · simp at h0
    · rcases hcw with hw | rfl | rfl | rfl | rfl | rfl
      · rw [hw] at h1; cases h1
      · exact h2 rfl
      · exact h3 rfl
      · exact h4 rfl
      · exact h5 rfl
      · exact h6 rfl

/-- a terminal that no other terminal starts with is read whatever follows -/
theorem safe_only {w : List Nat} (hd : ∀ t ∈ S, w.isPrefixOf t = true → t = w) (rest : List Nat) :
    SafeAfter S w rest := by
  intro m hm h
  have hmem : ((w ++ rest).take m) ∈ S := by simpa using h.2
  have hpre : w.isPrefixOf ((w ++ rest).take m) = true := by
    rw [take_append_gt _ _ m hm]; simp [List.isPrefixOf_iff_prefix]
  have := hd _ hmem hpre
  have hl := h.1
  rw [this] at hl
  omega

theorem safe_dot (hd : ∀ t ∈ S, [46, 32].isPrefixOf t = true → t = [46, 32]) (rest : List Nat) :
    SafeAfter S [46, 32] rest := by
  intro m hm h
  have hmem : (([46, 32] ++ rest).take m) ∈ S := by simpa using h.2
  have hpre : [46, 32].isPrefixOf (([46, 32] ++ rest).take m) = true := by
    rw [take_append_gt _ _ m hm]; simp [List.isPrefixOf]
  have := hd _ hmem hpre
  have hl := h.1
  rw [this] at hl
  simp at hl hm
  omega

/-! ### how a term text begins -/

/-- every prefix of `txt` is accepted by `startsOK` -/
def TextStart (T : Table) (txt : List Nat) : Prop :=
  ∀ u k, u <+: txt → u.length ≤ k → startsOK T k u = true

theorem prefix_append_cases {u p q : List Nat} (h : u <+: p ++ q) : u <+: p ∨ (p <+: u ∧ u.drop p.length <+: q) := by
  induction p generalizing u with
  | nil => exact Or.inr ⟨List.nil_prefix, by simpa using h⟩
  | cons x p ih =>
    cases u with
    | nil => exact Or.inl List.nil_prefix
    | cons y u =>
      rw [List.cons_append, List.cons_prefix_cons] at h
      rcases ih h.2 with h' | h'
      · exact Or.inl (by rw [List.cons_prefix_cons]; exact ⟨h.1, h'⟩)
      · exact Or.inr ⟨by rw [List.cons_prefix_cons]; exact ⟨h.1.symm, h'.1⟩, by simpa using h'.2⟩

theorem ts_head {c : Nat} (r : List Nat) (hc : isIdStart c = true ∨ isDigitC c = true ∨ c = 40) : TextStart T (c :: r) := by
  intro u k hu hk
  cases u with
  | nil => cases k <;> rfl
  | cons y u =>
    cases k with
    | zero => simp at hk
    | succ k =>
      rw [List.cons_prefix_cons] at hu
      rw [hu.1]
      unfold startsOK
      rcases hc with h | h | h <;> simp [h]

theorem ts_lbrace (r : List Nat) : TextStart T (123 :: r) := by
  intro u k hu hk
  cases u with
  | nil => cases k <;> rfl
  | cons y u =>
    cases k with
    | zero => simp at hk
    | succ k =>
      rw [List.cons_prefix_cons] at hu
      rw [hu.1]
      unfold startsOK
      simp

theorem ts_binder {p : List Nat} (hp : p ∈ T.binderTxts) (q : List Nat) : TextStart T (p ++ q) := by
  intro u k hu hk
  cases u with
  | nil => cases k <;> rfl
  | cons y u =>
    cases k with
    | zero => simp at hk
    | succ k =>
      unfold startsOK
      have hany : T.binderTxts.any (fun p => p.isPrefixOf (y :: u) || (y :: u).isPrefixOf p) = true := by
        rw [List.any_eq_true]
        refine ⟨p, hp, ?_⟩
        rcases prefix_append_cases hu with h | h
        · simp [List.isPrefixOf_iff_prefix, h]
        · simp [List.isPrefixOf_iff_prefix, h.1]
      rw [hany]
      simp

theorem ts_unary {p : List Nat} (hp : p ∈ T.unaryTxts) (hne : p ≠ []) {q : List Nat} (hq : TextStart T q) :
    TextStart T (p ++ q) := by
  intro u k hu hk
  cases u with
  | nil => cases k <;> rfl
  | cons y u =>
    cases k with
    | zero => simp at hk
    | succ k =>
      unfold startsOK
      have hany : T.unaryTxts.any (fun p => (y :: u).isPrefixOf p ||
          (p ≠ [] && p.isPrefixOf (y :: u) && startsOK T k ((y :: u).drop p.length))) = true := by
        rw [List.any_eq_true]
        refine ⟨p, hp, ?_⟩
        rcases prefix_append_cases hu with h | h
        · simp [List.isPrefixOf_iff_prefix, h]
        · have hlen : 0 < p.length := by cases p <;> simp at hne ⊢
          have := hq _ k h.2 (by simp at hk ⊢; omega)
          simp [List.isPrefixOf_iff_prefix, h.1, this, hne]
      rw [hany]
      simp

theorem safe_beforeTerm {w : List Nat} (h : safeBeforeTerm T S w = true) {txt : List Nat} (hs : TextStart T txt) :
    SafeAfter S w txt := by
  intro m hm hc
  rw [take_append_gt w _ m hm] at hc
  have hmem : (w ++ txt.take (m - w.length)) ∈ S := by simpa using hc.2
  simp only [safeBeforeTerm, List.all_eq_true] at h
  have := h _ hmem
  have hlen : (txt.take (m - w.length)).length = m - w.length := by
    have := hc.1
    simp only [List.length_append] at this
    omega
  have hst := hs (txt.take (m - w.length)) (w ++ txt.take (m - w.length)).length (List.take_prefix _ _) (by simp)
  have hne : (w ++ txt.take (m - w.length) == w) = false := by
    apply beq_false_of_ne
    intro heq
    have : (w ++ txt.take (m - w.length)).length = w.length := by rw [heq]
    simp only [List.length_append] at this
    omega
  have hpre : w.isPrefixOf (w ++ txt.take (m - w.length)) = true := by simp [List.isPrefixOf_iff_prefix]
  have hdrop : List.drop w.length (w ++ txt.take (m - w.length)) = txt.take (m - w.length) := List.drop_left
  rw [hpre, hne, hdrop, hst] at this
  simp at this

theorem safe_beforeId {w : List Nat} (h : safeBeforeId S w = true) {c : Nat} (hc : isIdStart c = true) (r : List Nat) :
    SafeAfter S w (c :: r) := by
  intro m hm hcm
  rw [take_append_gt w _ m hm] at hcm
  obtain ⟨k, hk⟩ : ∃ k, m - w.length = k + 1 := ⟨m - w.length - 1, by omega⟩
  rw [hk, List.take_succ_cons] at hcm
  have hmem : (w ++ c :: r.take k) ∈ S := by simpa using hcm.2
  simp only [safeBeforeId, List.all_eq_true] at h
  have := h _ hmem
  have hne : (w ++ c :: r.take k == w) = false := by
    apply beq_false_of_ne
    intro heq
    have : (w ++ c :: r.take k).length = w.length := by rw [heq]
    simp at this
  have hpre : w.isPrefixOf (w ++ c :: r.take k) = true := by simp [List.isPrefixOf_iff_prefix]
  have hdrop : List.drop w.length (w ++ c :: r.take k) = c :: r.take k := List.drop_left
  rw [hpre, hne, hdrop] at this
  simp [hc] at this

end Holpy.C07
