import Holpy.C07.TypeModel
import Holpy.C07.SeqModel
/-
C07 — instantiations as `export_proof_item` writes them and `parse_inst` reads them:
  inst: "{}" | "{" (inst_type_pair | term_pair) ("," (inst_type_pair | term_pair))* "}"
  term_pair: CNAME ":" term        inst_type_pair: "'" CNAME ":" type
Token level, import-free.
-/
namespace Holpy.C07

inductive InstPair
  | ty (a : List Nat) (T : Ty)
  | tm (x : List Nat) (t : Skel)

structure InstSyms where
  empty : Nat    -- "{}"
  lbrace : Nat
  rbrace : Nat
  comma : Nat
  colon : Nat
  deriving Repr

def printPair (T : Table) (L : Ladder) (C : TySyms) (I : InstSyms) (uni : Bool) : InstPair → List Tok
  | .ty a ty => .sym C.tick :: .id a :: .sym I.colon :: printTy C uni ty
  | .tm x t => .id x :: .sym I.colon :: printSkel T L uni t

def printPairsMore (T : Table) (L : Ladder) (C : TySyms) (I : InstSyms) (uni : Bool) : List InstPair → List Tok
  | [] => []
  | p :: ps => .sym I.comma :: (printPair T L C I uni p ++ printPairsMore T L C I uni ps)

/-- token stream of an exported instantiation -/
def printInst (T : Table) (L : Ladder) (C : TySyms) (I : InstSyms) (uni : Bool) : List InstPair → List Tok
  | [] => [.sym I.empty]
  | p :: ps => .sym I.lbrace :: (printPair T L C I uni p ++ (printPairsMore T L C I uni ps ++ [.sym I.rbrace]))

def parsePair (T : Table) (L : Ladder) (C : TySyms) (I : InstSyms) : List Tok → Option (InstPair × List Tok)
  | .sym s :: .id a :: .sym c :: r =>
    if s = C.tick ∧ c = I.colon then
      match parseTyAt C (r.length + 1) r with
      | some (ty, r') => some (.ty a ty, r')
      | none => none
    else none
  | .id x :: .sym c :: r =>
    if c = I.colon then
      match parseAt T L (r.length + 1) 0 r with
      | some (t, r') => some (.tm x t, r')
      | none => none
    else none
  | _ => none

/-- pairs separated by commas up to the closing brace, which must end the input -/
def pairsLoop (T : Table) (L : Ladder) (C : TySyms) (I : InstSyms) : Nat → List InstPair → List Tok → Option (List InstPair)
  | 0, _, _ => none
  | g + 1, acc, ts =>
    match parsePair T L C I ts with
    | some (p, [.sym s]) => if s = I.rbrace then some (p :: acc).reverse else none
    | some (p, .sym s :: r) => if s = I.comma then pairsLoop T L C I g (p :: acc) r else none
    | _ => none

def parseInst (T : Table) (L : Ladder) (C : TySyms) (I : InstSyms) (ts : List Tok) : Option (List InstPair) :=
  match ts with
  | [.sym s] => if s = I.empty then some [] else none
  | .sym s :: r => if s = I.lbrace then pairsLoop T L C I (r.length + 1) [] r else none
  | _ => none

/-- the separators are no operator symbols / binder spellings / arrows, and pairwise distinct where it matters -/
abbrev InstOK (L : Ladder) (C : TySyms) (I : InstSyms) : Prop :=
  (I.comma ≠ I.rbrace ∧ I.empty ≠ I.lbrace) ∧
  (∀ s ∈ [I.comma, I.rbrace], (s ≠ C.arrowA ∧ s ≠ C.arrowU) ∧ L.binderIdx s = none ∧ ∀ j < L.n, (L.at j).has s = false)

def InstPair.WF (T : Table) (L : Ladder) : InstPair → Prop
  | .ty _ _ => True
  | .tm _ t => t.WF T L

end Holpy.C07
