import Holpy.C07.Text
import Holpy.C07.SeqModel
/-
C07 — the TEXT `print_thm` writes: hypotheses joined by ", ", a blank, the turnstile, a blank, the
conclusion (or turnstile, blank, conclusion).  Import-free.
-/
namespace Holpy.C07

def printHypsMoreText (T : Table) (L : Ladder) (S : List (List Nat)) (Q : SeqSyms) (uni : Bool) : List Skel → List Nat
  | [] => []
  | h :: hs => symTxt S Q.comma ++ 32 :: (printText T L S uni h ++ printHypsMoreText T L S Q uni hs)

def printThmText (T : Table) (L : Ladder) (S : List (List Nat)) (Q : SeqSyms) (uni : Bool) (hyps : List Skel) (concl : Skel) : List Nat :=
  match hyps with
  | [] => symTxt S (Q.turn uni) ++ 32 :: printText T L S uni concl
  | h :: hs => printText T L S uni h ++ (printHypsMoreText T L S Q uni hs ++ 32 :: (symTxt S (Q.turn uni) ++ 32 :: printText T L S uni concl))

/-- the separators are string terminals read as their own symbols; the comma is spelled "," -/
abbrev SeqTextOK (Q : SeqSyms) (S : List (List Nat)) : Prop :=
  symOK S Q.comma false = true ∧ symOK S Q.turnA false = true ∧ symOK S Q.turnU false = true ∧ symTxt S Q.comma = [44]

/-- lexer, then the parser for rule `thm`: `parse_thm` without type inference -/
def parseThmText (T : Table) (L : Ladder) (S : List (List Nat)) (Q : SeqSyms) (cs : List Nat) : Option (List Skel × Skel) :=
  (lex S cs).bind (parseThm T L Q)

end Holpy.C07
