import Holpy.C07.Proofs
import Holpy.C07.TypeProofs
/-
C07 — `parse_print`: main induction.
-/
namespace Holpy.C07

variable {T : Table} {L : Ladder}

/-! ### facts extracted from `TableConsistent` -/

theorem has_iff (lv : Level) (s : Nat) : lv.has s = true ↔ s ∈ lv.syms.flatten := by
  simp [Level.has, List.mem_flatten]

theorem cls_mem {t : Skel} (h : t.WF T L) : t.cls ∈ classes T := by
  cases t with
  | atom s => simp [Skel.cls, classes]
  | app f a => simp [Skel.cls, classes]
  | binder b x body => simp [Skel.cls, classes]
  | ite c a b => simp [Skel.cls, classes]
  | ann t ty => simp [Skel.cls, classes]
  | binderT b x ty body => simp [Skel.cls, classes]
  | interval a b => simp [Skel.cls, classes]
  | collect x body => simp [Skel.cls, classes]
  | collectT x ty body => simp [Skel.cls, classes]
  | bin o l r =>
    simp only [Skel.WF] at h
    simp only [Skel.cls, classes, List.mem_append, List.mem_map, List.mem_range]
    right
    exact ⟨o, h.1, by simp [h.2.1]⟩
  | un o a =>
    simp only [Skel.WF] at h
    simp only [Skel.cls, classes, List.mem_append, List.mem_map, List.mem_range]
    right
    exact ⟨o, h.1, by simp [h.2.1]⟩

theorem spell_cases (uni : Bool) (o : Nat) : T.spell uni o = (T.row o).ascii ∨ T.spell uni o = (T.row o).unicode := by
  cases uni <;> simp [Table.spell]

theorem sym_noAtom (hc : TableConsistent T L) {l : Nat} (hl : l < L.n) {s : Nat} (hs : (L.at l).has s = true) (r : List Tok) :
    atomStart L (.sym s :: r) = false := by
  have := hc.2.2.2.1 l hl s ((has_iff _ _).1 hs)
  simp [atomStart, this]

theorem infix_other (hc : TableConsistent T L) {l : Nat} (hl : l < L.n) (hk : isInfix (L.at l).kind = true) {s : Nat}
    (hs : (L.at l).has s = true) {j : Nat} (hj : j < L.n) (hne : j ≠ l) (r : List Tok) : headInfix L j (.sym s :: r) = false := by
  by_cases h1 : isInfix (L.at j).kind = true
  · by_cases h2 : (L.at j).has s = true
    · exact absurd (Or.inl ⟨hk, h1⟩) (hc.2.2.1 l hl j hj (Ne.symm hne) s ((has_iff _ _).1 hs) h2)
    · simp [headInfix, h2]
  · simp [headInfix, h1]

theorem pre_other (hc : TableConsistent T L) {l : Nat} (hl : l < L.n) (hk : (L.at l).kind = .pre) {s : Nat}
    (hs : (L.at l).has s = true) {j : Nat} (hj : j < L.n) (hne : j ≠ l) (r : List Tok) : headPre L j (.sym s :: r) = false := by
  by_cases h1 : (L.at j).kind = .pre
  · by_cases h2 : (L.at j).has s = true
    · exact absurd (Or.inr ⟨hk, h1⟩) (hc.2.2.1 l hl j hj (Ne.symm hne) s ((has_iff _ _).1 hs) h2)
    · simp [headPre, h2]
  · simp [headPre, h1]

theorem binderSpell_mem (hc : TableConsistent T L) (uni : Bool) {b : Nat} (hb : b < L.binders.length) :
    binderSpell T L uni b ∈ L.binders.getD b [] := by
  cases uni
  · exact (hc.2.2.2.2.1 b hb).1.1
  · exact (hc.2.2.2.2.1 b hb).1.2

theorem binder_idx (hc : TableConsistent T L) (uni : Bool) {b : Nat} (hb : b < L.binders.length) :
    L.binderIdx (binderSpell T L uni b) = some b :=
  (hc.2.2.2.2.1 b hb).2 _ (binderSpell_mem hc uni hb)

theorem binder_ne_lbrace (hc : TableConsistent T L) (uni : Bool) {b : Nat} (hb : b < L.binders.length) :
    binderSpell T L uni b ≠ L.lbrace := by
  intro h
  have h1 := binder_idx hc uni hb
  rw [h, (hc.2.2.2.2.2.2.2.1 L.lbrace (by simp)).1] at h1
  cases h1

theorem binder_noLevel (hc : TableConsistent T L) (uni : Bool) {b : Nat} (hb : b < L.binders.length) {k : Nat} (hk : k < L.n) :
    (L.at k).has (binderSpell T L uni b) = false := by
  by_cases h : (L.at k).has (binderSpell T L uni b) = true
  · have h1 := hc.2.2.2.1 k hk _ ((has_iff _ _).1 h)
    rw [binder_idx hc uni hb] at h1
    cases h1
  · simpa using h

end Holpy.C07

namespace Holpy.C07

variable {T : Table} {L : Ladder}

/-! ### one step of each rule shape -/

theorem parseAt_succ (f i : Nat) (ts : List Tok) :
    parseAt T L (f + 1) i ts = levelsFrom T L (parseAt T L f) (L.levels.drop i) i ts := rfl

theorem step_infixL {self : Nat → List Tok → PRes} {lv : Level} {rest : List Level} {i : Nat} {ts : List Tok} {x : Skel} {r : List Tok}
    (hk : lv.kind = .infixL) (h : levelsFrom T L self rest (i + 1) ts = some (x, r)) :
    levelsFrom T L self (lv :: rest) i ts = loopL T lv self i ts.length x r := by
  unfold levelsFrom; simp [hk, h]

theorem step_infixR {self : Nat → List Tok → PRes} {lv : Level} {rest : List Level} {i : Nat} {ts : List Tok} {x y : Skel} {s o : Nat}
    {r r' : List Tok} (hk : lv.kind = .infixR) (h : levelsFrom T L self rest (i + 1) ts = some (x, .sym s :: r))
    (hs : lv.has s = true) (hf : T.find .binary s = some o) (hy : self i r = some (y, r')) :
    levelsFrom T L self (lv :: rest) i ts = some (.bin o x y, r') := by
  unfold levelsFrom; simp [hk, h, hs, hf, hy]

theorem step_pre {self : Nat → List Tok → PRes} {lv : Level} {rest : List Level} {i : Nat} {a : Skel} {s o : Nat}
    {r r' : List Tok} (hk : lv.kind = .pre) (hs : lv.has s = true) (hf : T.find .unary s = some o) (ha : self i r = some (a, r')) :
    levelsFrom T L self (lv :: rest) i (.sym s :: r) = some (.un o a, r') := by
  unfold levelsFrom; simp [hk, hs, hf, ha]

theorem step_app {self : Nat → List Tok → PRes} {i : Nat} {ts : List Tok} {x : Skel} {r : List Tok}
    (h : atomP L self ts = some (x, r)) : levelsFrom T L self [] i ts = appLoop L self ts.length x r := by
  rw [levelsFrom]; simp [h]

theorem loopL_step {self : Nat → List Tok → PRes} {lv : Level} {i g : Nat} {x y : Skel} {s o : Nat} {r r' : List Tok}
    (hs : lv.has s = true) (hf : T.find .binary s = some o) (hy : self (i + 1) r = some (y, r')) :
    loopL T lv self i (g + 1) x (.sym s :: r) = loopL T lv self i g (.bin o x y) r' := by
  rw [loopL]; simp [hs, hf, hy]

theorem appLoop_step {self : Nat → List Tok → PRes} {g : Nat} {x y : Skel} {ts r : List Tok}
    (hs : atomStart L ts = true) (hy : atomP L self ts = some (y, r)) :
    appLoop L self (g + 1) x ts = appLoop L self g (.app x y) r := by
  rw [appLoop]; simp [hs, hy]

/-! ### the induction hypothesis -/

def lvl (T : Table) (L : Ladder) (t : Skel) : Nat := clsLevel T L t.cls

structure Good (T : Table) (L : Ladder) (uni : Bool) (t : Skel) : Prop where
  A : ∀ i rest f, i ≤ lvl T L t → i ≤ L.n → (t.cls = .opn → Stops L 0 rest) → Stops L i rest →
        (printSkel T L uni t ++ rest).length ≤ f →
        parseAt T L (f + 1) i (printSkel T L uni t ++ rest) = some (t, rest)
  B : ∀ i rest f, i < L.n → (L.at i).kind = .infixL → i ≤ lvl T L t → t.cls ≠ .opn → Stops L (i + 1) rest →
        (printSkel T L uni t ++ rest).length ≤ f →
        ∃ g, rest.length ≤ g ∧
          parseAt T L (f + 1) i (printSkel T L uni t ++ rest) = loopL T (L.at i) (parseAt T L f) i g t rest
  C : ∀ rest f, L.n ≤ lvl T L t → t.cls ≠ .opn → (printSkel T L uni t ++ rest).length ≤ f →
        ∃ g, rest.length ≤ g ∧
          levelsFrom T L (parseAt T L f) [] L.n (printSkel T L uni t ++ rest) = appLoop L (parseAt T L f) g t rest
  D : ∀ k rest, k < lvl T L t → k < L.n → headPre L k (printSkel T L uni t ++ rest) = false
  E : t.cls = .atom → ∀ rest f, (printSkel T L uni t ++ rest).length ≤ f →
        atomP L (parseAt T L f) (printSkel T L uni t ++ rest) = some (t, rest)

variable {uni : Bool}

/-- `B` below the own level follows from `A` one level up -/
theorem B_of_A {t : Skel}
    (hA : ∀ i rest f, i ≤ lvl T L t → i ≤ L.n → (t.cls = .opn → Stops L 0 rest) → Stops L i rest →
        (printSkel T L uni t ++ rest).length ≤ f →
        parseAt T L (f + 1) i (printSkel T L uni t ++ rest) = some (t, rest))
    {i : Nat} {rest : List Tok} {f : Nat} (hi : i < L.n) (hk : (L.at i).kind = .infixL) (hlt : i < lvl T L t)
    (hno : t.cls ≠ .opn) (hst : Stops L (i + 1) rest) (hlen : (printSkel T L uni t ++ rest).length ≤ f) :
    ∃ g, rest.length ≤ g ∧
      parseAt T L (f + 1) i (printSkel T L uni t ++ rest) = loopL T (L.at i) (parseAt T L f) i g t rest := by
  have h := hA (i + 1) rest f (by omega) (by omega) (fun h => absurd h hno) hst hlen
  rw [parseAt_succ] at h
  refine ⟨(printSkel T L uni t ++ rest).length, by simp, ?_⟩
  rw [parseAt_succ, drop_lt hi]
  exact step_infixL hk h

theorem wrap_true (ts : List Tok) (rest : List Tok) : wrap true ts ++ rest = .lp :: (ts ++ .rp :: rest) := by
  simp [wrap]

/-- parsing a parenthesised term as an atom -/
theorem atom_paren {u : Skel} (hu : Good T L uni u) (rest : List Tok) (f : Nat)
    (hlen : (printSkel T L uni u ++ .rp :: rest).length ≤ f) :
    atomP L (parseAt T L (f + 1)) (.lp :: (printSkel T L uni u ++ .rp :: rest)) = some (u, rest) := by
  have h := hu.A 0 (.rp :: rest) f (Nat.zero_le _) (Nat.zero_le _) (fun _ => stops_rp 0 rest) (stops_rp 0 rest) hlen
  simp only [atomP]; rw [atomP']; simp [h]

theorem atomOperand {u : Skel} (hu : Good T L uni u) (b : Bool) (hb : b = false → u.cls = .atom) (rest : List Tok) (f : Nat)
    (hlen : (wrap b (printSkel T L uni u) ++ rest).length ≤ f) :
    atomP L (parseAt T L f) (wrap b (printSkel T L uni u) ++ rest) = some (u, rest) := by
  cases b with
  | false =>
    exact hu.E (hb rfl) rest f (by simpa [wrap] using hlen)
  | true =>
    rw [wrap_true] at hlen ⊢
    cases f with
    | zero => simp at hlen
    | succ f' =>
      apply atom_paren hu
      simp at hlen ⊢; omega

theorem operand {u : Skel} (hu : Good T L uni u) (b : Bool) (req : Nat) (hreq : req ≤ L.n)
    (hb : b = false → u.cls ≠ .opn ∧ req ≤ lvl T L u) (rest : List Tok) (hst : Stops L req rest) (f : Nat)
    (hlen : (wrap b (printSkel T L uni u) ++ rest).length ≤ f) :
    parseAt T L (f + 1) req (wrap b (printSkel T L uni u) ++ rest) = some (u, rest) := by
  cases b with
  | false =>
    have := hb rfl
    exact hu.A req rest f this.2 hreq (fun h => absurd h this.1) hst (by simpa [wrap] using hlen)
  | true =>
    rw [wrap_true] at hlen ⊢
    cases f with
    | zero => simp at hlen
    | succ f' =>
      have hat := atom_paren hu rest f' (by simp at hlen ⊢; omega)
      have h1 := step_app (T := T) (i := L.n) hat
      rw [appLoop_stop _ _ _ _ hst.noAtom] at h1
      rw [parseAt_succ]
      have h2 : levelsFrom T L (parseAt T L (f' + 1)) (L.levels.drop L.n) L.n
          (.lp :: (printSkel T L uni u ++ .rp :: rest)) = some (u, rest) := by
        rw [drop_ge (Nat.le_refl _)]; exact h1
      exact lift _ _ _ _ L.n (Nat.le_refl _) h2 (L.n - req) req (by omega) (fun _ _ _ => rfl)
        (fun k h1 h2 => hst.noInfix k h1 h2)

end Holpy.C07

namespace Holpy.C07

variable {T : Table} {L : Ladder} {uni : Bool}

theorem A_of_own {j : Nat} (hj : j ≤ L.n) {ts : List Tok} {x : Skel} {rest : List Tok} {f i : Nat}
    (hown : levelsFrom T L (parseAt T L f) (L.levels.drop j) j ts = some (x, rest)) (hi : i ≤ j)
    (hD : ∀ k, i ≤ k → k < j → headPre L k ts = false) (hst : Stops L i rest) :
    parseAt T L (f + 1) i ts = some (x, rest) := by
  rw [parseAt_succ]
  exact lift _ _ _ _ j hj hown (j - i) i (by omega) hD (fun k h1 h2 => hst.noInfix k h1 (by omega))

theorem wrap_ge (b : Bool) (ts : List Tok) : ts.length ≤ (wrap b ts).length := by
  cases b <;> simp [wrap] <;> omega

theorem pr_pos (t : Skel) : 0 < (printSkel T L uni t).length := by
  induction t with
  | atom s => simp [printSkel]
  | app f a _ iha =>
    simp only [printSkel, List.length_append]
    have := wrap_ge (brA T a.cls) (printSkel T L uni a); omega
  | bin o l r _ _ => simp only [printSkel, List.length_append, List.length_cons]; omega
  | un o a _ => simp [printSkel]
  | binder b x body _ => simp [printSkel]
  | ite c a b _ _ _ => simp [printSkel]
  | ann t ty _ => simp [printSkel]
  | binderT b x ty body _ => simp [printSkel]
  | interval a b _ _ => simp [printSkel]
  | collect x body _ => simp [printSkel]
  | collectT x ty body _ => simp [printSkel]

theorem wrap_pos (b : Bool) (t : Skel) : 0 < (wrap b (printSkel T L uni t)).length := by
  cases b
  · simpa [wrap] using pr_pos t
  · simp [wrap]

theorem rowLevel_lt_bin (hc : TableConsistent T L) {o : Nat} (ho : o < T.ops.length) (ha : (T.row o).arity = .binary) :
    rowLevel T L o < L.n := ((hc.1 o ho).1 ha).1

theorem rowLevel_lt_un (hc : TableConsistent T L) {o : Nat} (ho : o < T.ops.length) (ha : (T.row o).arity = .unary) :
    rowLevel T L o < L.n := ((hc.1 o ho).2 ha).1

theorem atom_of_fits (hc : TableConsistent T L) {a : Skel} (hw : a.WF T L) (h : fits T L a.cls (L.n + 1)) : a.cls = .atom := by
  cases a with
  | atom s => rfl
  | app f a => have := h.2; simp only [Skel.cls, clsLevel] at this; omega
  | binder b x body => exact absurd rfl h.1
  | ite c a b => exact absurd rfl h.1
  | ann t ty => rfl
  | binderT b x ty body => exact absurd rfl h.1
  | interval a b => have := h.2; simp only [Skel.cls, clsLevel] at this; omega
  | collect x body => have := h.2; simp only [Skel.cls, clsLevel] at this; omega
  | collectT x ty body => have := h.2; simp only [Skel.cls, clsLevel] at this; omega
  | bin o l r =>
    have h1 := rowLevel_lt_bin hc hw.1 hw.2.1
    have := h.2; simp only [Skel.cls, clsLevel] at this; omega
  | un o a =>
    have h1 := rowLevel_lt_un hc hw.1 hw.2.1
    have := h.2; simp only [Skel.cls, clsLevel] at this; omega

/-- a skeleton that the rule `atom` reads in one piece (identifier, numeral, annotated term) -/
theorem good_of_atomlike {u : Skel} (hlv : L.n ≤ lvl T L u)
    (hE : ∀ rest f, (printSkel T L uni u ++ rest).length ≤ f →
        atomP L (parseAt T L f) (printSkel T L uni u ++ rest) = some (u, rest))
    (hD : ∀ k rest, k < L.n → headPre L k (printSkel T L uni u ++ rest) = false) : Good T L uni u := by
  have hown : ∀ rest f, (printSkel T L uni u ++ rest).length ≤ f →
      levelsFrom T L (parseAt T L f) [] L.n (printSkel T L uni u ++ rest)
        = appLoop L (parseAt T L f) (printSkel T L uni u ++ rest).length u rest :=
    fun rest f h => step_app (hE rest f h)
  have hA : ∀ i rest f, i ≤ lvl T L u → i ≤ L.n → (u.cls = .opn → Stops L 0 rest) → Stops L i rest →
        (printSkel T L uni u ++ rest).length ≤ f →
        parseAt T L (f + 1) i (printSkel T L uni u ++ rest) = some (u, rest) := by
    intro i rest f _ hin _ hst hlen
    have h1 := hown rest f hlen
    rw [appLoop_stop _ _ _ _ hst.noAtom] at h1
    refine A_of_own (Nat.le_refl _) ?_ hin (fun k _ hk => hD k rest hk) hst
    rw [drop_ge (Nat.le_refl _)]; exact h1
  refine ⟨hA, ?_, ?_, fun k rest _ hk => hD k rest hk, fun _ => hE⟩
  · intro i rest f hi hk _ hno hst hlen
    exact B_of_A hA hi hk (by omega) hno hst hlen
  · intro rest f _ _ hlen
    exact ⟨(printSkel T L uni u ++ rest).length, by simp, hown rest f hlen⟩

theorem good_atom (s : List Nat) : Good T L uni (.atom s) :=
  good_of_atomlike (by simp [lvl, Skel.cls, clsLevel]) (fun rest f _ => by simp [printSkel, atomP, atomP']) (fun k rest _ => by simp [printSkel, headPre])

theorem stops_dcolon (hc : TableConsistent T L) (r : List Tok) : Stops L 0 (.sym L.dcolon :: r) := by
  have h := hc.2.2.2.2.2.2.1
  exact ⟨by simp [atomStart, h.1], fun j _ hj => by simp [headInfix, h.2.1 j hj]⟩

/-- `(t::T)` -/
theorem good_ann (hc : TableConsistent T L) {t : Skel} {ty : Ty} (iht : Good T L uni t) : Good T L uni (.ann t ty) := by
  refine good_of_atomlike (by simp [lvl, Skel.cls, clsLevel]) ?_ (fun k rest _ => by simp [printSkel, headPre])
  intro rest f hlen
  simp only [printSkel, List.cons_append, List.append_assoc, List.nil_append] at hlen ⊢
  cases f with
  | zero => simp at hlen
  | succ f0 =>
    have h1 := iht.A 0 (.sym L.dcolon :: (printTy L.ty uni ty ++ .rp :: rest)) f0 (Nat.zero_le _) (Nat.zero_le _)
      (fun _ => stops_dcolon hc _) (stops_dcolon hc _) (by simp only [List.length_cons, List.length_append] at hlen ⊢; omega)
    have h2 := parse_ty_at hc.2.2.2.2.2.2.1.2.2 uni ty (rest := .rp :: rest) ⟨(fun x r h => by cases h), (fun s r h => by cases h)⟩
    simp only [List.length_append, List.length_cons] at h2
    simp only [atomP]; rw [atomP']
    simp [h1, h2]

theorem stops_brace (hc : TableConsistent T L) {s : Nat} (hs : s ∈ [L.lbrace, L.dotdot, L.rbrace]) (r : List Tok) :
    Stops L 0 (.sym s :: r) := by
  have h := hc.2.2.2.2.2.2.2.1 s hs
  exact ⟨by simp [atomStart, h.1], fun j _ hj => by simp [headInfix, h.2 j hj]⟩

theorem stops_dot (i : Nat) (r : List Tok) : Stops L i (.dot :: r) := ⟨rfl, fun _ _ _ => rfl⟩

/-- `{a..b}` -/
theorem good_interval (hc : TableConsistent T L) {a b : Skel} (iha : Good T L uni a) (ihb : Good T L uni b) :
    Good T L uni (.interval a b) := by
  have hlb := hc.2.2.2.2.2.2.2.1 L.lbrace (by simp)
  refine good_of_atomlike (by simp [lvl, Skel.cls, clsLevel]) ?_ (fun k rest hk => by simp [printSkel, headPre, hlb.2 k hk])
  intro rest f hlen
  simp only [printSkel, List.cons_append, List.append_assoc, List.nil_append] at hlen ⊢
  cases f with
  | zero => simp at hlen
  | succ f0 =>
    have h1 := iha.A 0 (.sym L.dotdot :: (printSkel T L uni b ++ .sym L.rbrace :: rest)) f0 (Nat.zero_le _) (Nat.zero_le _)
      (fun _ => stops_brace hc (by simp) _) (stops_brace hc (by simp) _)
      (by simp only [List.length_cons, List.length_append] at hlen ⊢; omega)
    have h2 := ihb.A 0 (.sym L.rbrace :: rest) f0 (Nat.zero_le _) (Nat.zero_le _)
      (fun _ => stops_brace hc (by simp) _) (stops_brace hc (by simp) _)
      (by simp only [List.length_cons, List.length_append] at hlen ⊢; omega)
    simp only [atomP, if_pos]
    simp [braceP, h1, h2]

/-- `{x. body}` -/
theorem good_collect (hc : TableConsistent T L) {x : List Nat} {body : Skel} (ihb : Good T L uni body) :
    Good T L uni (.collect x body) := by
  have hlb := hc.2.2.2.2.2.2.2.1 L.lbrace (by simp)
  refine good_of_atomlike (by simp [lvl, Skel.cls, clsLevel]) ?_ (fun k rest hk => by simp [printSkel, headPre, hlb.2 k hk])
  intro rest f hlen
  simp only [printSkel, List.cons_append, List.append_assoc, List.nil_append] at hlen ⊢
  cases f with
  | zero => simp at hlen
  | succ f0 =>
    have h0 := (good_atom (T := T) (L := L) (uni := uni) x).A 0 (.dot :: (printSkel T L uni body ++ .sym L.rbrace :: rest)) f0
      (Nat.zero_le _) (Nat.zero_le _) (fun _ => stops_dot 0 _) (stops_dot 0 _)
      (by simp only [printSkel, List.length_cons, List.length_append, List.length_nil] at hlen ⊢; omega)
    simp only [printSkel, List.cons_append, List.nil_append] at h0
    have h2 := ihb.A 0 (.sym L.rbrace :: rest) f0 (Nat.zero_le _) (Nat.zero_le _)
      (fun _ => stops_brace hc (by simp) _) (stops_brace hc (by simp) _)
      (by simp only [List.length_cons, List.length_append] at hlen ⊢; omega)
    simp only [atomP, if_pos]
    simp [braceP, h0, h2]

/-- `{x::T. body}` -/
theorem good_collectT (hc : TableConsistent T L) {x : List Nat} {ty : Ty} {body : Skel} (ihb : Good T L uni body) :
    Good T L uni (.collectT x ty body) := by
  have hlb := hc.2.2.2.2.2.2.2.1 L.lbrace (by simp)
  have hne := hc.2.2.2.2.2.2.2.2
  refine good_of_atomlike (by simp [lvl, Skel.cls, clsLevel]) ?_ (fun k rest hk => by simp [printSkel, headPre, hlb.2 k hk])
  intro rest f hlen
  simp only [printSkel, List.cons_append, List.append_assoc, List.nil_append] at hlen ⊢
  cases f with
  | zero => simp at hlen
  | succ f0 =>
    have h0 := (good_atom (T := T) (L := L) (uni := uni) x).A 0
      (.sym L.dcolon :: (printTy L.ty uni ty ++ .dot :: (printSkel T L uni body ++ .sym L.rbrace :: rest))) f0
      (Nat.zero_le _) (Nat.zero_le _) (fun _ => stops_dcolon hc _) (stops_dcolon hc _)
      (by simp only [printSkel, List.length_cons, List.length_append, List.length_nil] at hlen ⊢; omega)
    simp only [printSkel, List.cons_append, List.nil_append] at h0
    have hty := parse_ty_at hc.2.2.2.2.2.2.1.2.2 uni ty (rest := .dot :: (printSkel T L uni body ++ .sym L.rbrace :: rest))
      ⟨(fun x r h => by cases h), (fun s r h => by cases h)⟩
    simp only [List.length_append, List.length_cons] at hty
    have h2 := ihb.A 0 (.sym L.rbrace :: rest) f0 (Nat.zero_le _) (Nat.zero_le _)
      (fun _ => stops_brace hc (by simp) _) (stops_brace hc (by simp) _)
      (by simp only [List.length_cons, List.length_append] at hlen ⊢; omega)
    simp only [atomP, if_pos]
    simp [braceP, h0, h2, hty, hne]

theorem good_app (hc : TableConsistent T L) {f a : Skel} (hwf : f.WF T L) (hwa : a.WF T L)
    (ihf : Good T L uni f) (iha : Good T L uni a) : Good T L uni (.app f a) := by
  have hfitf := (hc.2.1 f.cls (cls_mem hwf)).1
  have hfita := (hc.2.1 a.cls (cls_mem hwa)).2
  have hatomA : brA T a.cls = false → a.cls = .atom := fun h => atom_of_fits hc hwa (hfita h)
  -- the argument part starts an atom
  have hstart : ∀ rest, atomStart L (wrap (brA T a.cls) (printSkel T L uni a) ++ rest) = true := by
    intro rest
    cases hb : brA T a.cls with
    | true => simp [wrap, atomStart]
    | false =>
      have := hatomA hb
      cases a <;> simp [Skel.cls] at this
      all_goals simp [wrap, printSkel, atomStart]
  have hown : ∀ rest fu, (printSkel T L uni (.app f a) ++ rest).length ≤ fu →
      ∃ g, rest.length ≤ g ∧ levelsFrom T L (parseAt T L fu) [] L.n (printSkel T L uni (.app f a) ++ rest)
        = appLoop L (parseAt T L fu) g (.app f a) rest := by
    intro rest fu hlen
    simp only [printSkel, List.append_assoc] at hlen ⊢
    have hwp := wrap_pos (T := T) (L := L) (uni := uni) (brA T a.cls) a
    have harg : atomP L (parseAt T L fu) (wrap (brA T a.cls) (printSkel T L uni a) ++ rest) = some (a, rest) := by
      apply atomOperand iha _ hatomA
      simp only [List.length_append] at hlen ⊢; omega
    cases hb : brF T f.cls with
    | false =>
      have hfit := hfitf hb
      obtain ⟨g1, hg1, h1⟩ := ihf.C (wrap (brA T a.cls) (printSkel T L uni a) ++ rest) fu hfit.2 hfit.1
        (by simpa [wrap, hb] using hlen)
      cases g1 with
      | zero => simp only [List.length_append] at hg1; omega
      | succ g =>
        refine ⟨g, by simp only [List.length_append] at hg1; omega, ?_⟩
        simp only [wrap, Bool.false_eq_true, ite_false] at h1 ⊢
        rw [h1]
        exact appLoop_step (hstart rest) harg
    | true =>
      rw [hb] at hlen
      rw [wrap_true] at hlen ⊢
      cases fu with
      | zero => simp at hlen
      | succ f' =>
        have hat := atom_paren ihf (wrap (brA T a.cls) (printSkel T L uni a) ++ rest) f'
          (by simp only [List.length_cons, List.length_append] at hlen ⊢; omega)
        rw [step_app (T := T) (i := L.n) hat]
        simp only [List.length_cons]
        refine ⟨_, ?_, appLoop_step (hstart rest) harg⟩
        simp only [List.length_append, List.length_cons]; omega
  have hD : ∀ k rest, k < L.n → headPre L k (printSkel T L uni (.app f a) ++ rest) = false := by
    intro k rest hk
    simp only [printSkel, List.append_assoc]
    cases hb : brF T f.cls with
    | true => simp [wrap, headPre]
    | false =>
      have hfit := hfitf hb
      simpa [wrap] using ihf.D k _ (by have := hfit.2; unfold lvl; omega) hk
  have hA : ∀ i rest fu, i ≤ lvl T L (.app f a) → i ≤ L.n → ((Skel.app f a).cls = .opn → Stops L 0 rest) → Stops L i rest →
        (printSkel T L uni (.app f a) ++ rest).length ≤ fu →
        parseAt T L (fu + 1) i (printSkel T L uni (.app f a) ++ rest) = some (.app f a, rest) := by
    intro i rest fu _ hin _ hst hlen
    obtain ⟨g, _, h1⟩ := hown rest fu hlen
    rw [appLoop_stop _ _ _ _ hst.noAtom] at h1
    refine A_of_own (Nat.le_refl _) ?_ hin (fun k _ hk => hD k rest hk) hst
    rw [drop_ge (Nat.le_refl _)]; exact h1
  refine ⟨hA, ?_, ?_, fun k rest _ hk => hD k rest hk, fun h => by simp [Skel.cls] at h⟩
  · intro i rest fu hi hk _ hno hst hlen
    exact B_of_A hA hi hk (by simp [lvl, Skel.cls, clsLevel]; omega) hno hst hlen
  · intro rest fu _ _ hlen
    exact hown rest fu hlen

end Holpy.C07

namespace Holpy.C07

variable {T : Table} {L : Ladder} {uni : Bool}

theorem good_un (hc : TableConsistent T L) {o : Nat} {a : Skel} (ho : o < T.ops.length) (har : (T.row o).arity = .unary)
    (hwa : a.WF T L) (iha : Good T L uni a) : Good T L uni (.un o a) := by
  obtain ⟨hl, hk, hsA, hsU, hfA, hfU, hcls⟩ := (hc.1 o ho).2 har
  have hs : (L.at (rowLevel T L o)).has (T.spell uni o) = true := by
    rcases spell_cases (T := T) uni o with h | h <;> rw [h] <;> assumption
  have hf : T.find .unary (T.spell uni o) = some o := by
    rcases spell_cases (T := T) uni o with h | h <;> rw [h] <;> assumption
  have hfit := hcls a.cls (cls_mem hwa)
  have hlv : lvl T L (.un o a) = rowLevel T L o := rfl
  have hD : ∀ k rest, k < rowLevel T L o → headPre L k (printSkel T L uni (.un o a) ++ rest) = false := by
    intro k rest hk'
    simp only [printSkel, List.cons_append]
    exact pre_other hc hl hk hs (by omega) (by omega) _
  have hown : ∀ rest fu, Stops L (rowLevel T L o) rest → (printSkel T L uni (.un o a) ++ rest).length ≤ fu →
      levelsFrom T L (parseAt T L fu) (L.levels.drop (rowLevel T L o)) (rowLevel T L o)
        (printSkel T L uni (.un o a) ++ rest) = some (.un o a, rest) := by
    intro rest fu hst hlen
    simp only [printSkel, List.cons_append] at hlen ⊢
    rw [drop_lt hl]
    cases fu with
    | zero => simp at hlen
    | succ fu' =>
      refine step_pre hk hs hf ?_
      exact operand iha _ _ (Nat.le_of_lt hl) hfit rest hst fu' (by simp only [List.length_cons] at hlen; omega)
  have hA : ∀ i rest fu, i ≤ lvl T L (.un o a) → i ≤ L.n → ((Skel.un o a).cls = .opn → Stops L 0 rest) → Stops L i rest →
        (printSkel T L uni (.un o a) ++ rest).length ≤ fu →
        parseAt T L (fu + 1) i (printSkel T L uni (.un o a) ++ rest) = some (.un o a, rest) := by
    intro i rest fu hi _ _ hst hlen
    rw [hlv] at hi
    exact A_of_own (Nat.le_of_lt hl) (hown rest fu (hst.mono hi) hlen) hi (fun k _ h2 => hD k rest h2) hst
  refine ⟨hA, ?_, ?_, fun k rest h1 _ => hD k rest (by rw [hlv] at h1; exact h1), fun h => by simp [Skel.cls] at h⟩
  · intro i rest fu hi hki hle hno hst hlen
    rw [hlv] at hle
    have : i ≠ rowLevel T L o := by intro h; rw [h, hk] at hki; cases hki
    exact B_of_A hA hi hki (by rw [hlv]; omega) hno hst hlen
  · intro rest fu hle
    rw [hlv] at hle; omega

theorem good_binder (hc : TableConsistent T L) {b : Nat} {x : List Nat} {body : Skel} (hb : b < L.binders.length)
    (ihb : Good T L uni body) : Good T L uni (.binder b x body) := by
  have hidx := binder_idx hc uni hb
  have hD : ∀ k rest, k < L.n → headPre L k (printSkel T L uni (.binder b x body) ++ rest) = false := by
    intro k rest hk
    simp [printSkel, headPre, binder_noLevel hc uni hb hk]
  have hA : ∀ i rest fu, i ≤ lvl T L (.binder b x body) → i ≤ L.n → ((Skel.binder b x body).cls = .opn → Stops L 0 rest) →
        Stops L i rest → (printSkel T L uni (.binder b x body) ++ rest).length ≤ fu →
        parseAt T L (fu + 1) i (printSkel T L uni (.binder b x body) ++ rest) = some (.binder b x body, rest) := by
    intro i rest fu _ hin hopn hst hlen
    have hst0 := hopn rfl
    simp only [printSkel, List.cons_append] at hlen ⊢
    cases fu with
    | zero => simp at hlen
    | succ fu' =>
      have hbody := ihb.A 0 rest fu' (Nat.zero_le _) (Nat.zero_le _) (fun _ => hst0) hst0
        (by simp only [List.length_cons] at hlen; omega)
      have hat : atomP L (parseAt T L (fu' + 1)) (.sym (binderSpell T L uni b) :: .id x :: .dot :: (printSkel T L uni body ++ rest))
          = some (.binder b x body, rest) := by
        simp only [atomP]; rw [if_neg (binder_ne_lbrace hc uni hb), atomP']; simp [hidx, hbody]
      have h1 := step_app (T := T) (i := L.n) hat
      rw [appLoop_stop _ _ _ _ hst0.noAtom] at h1
      refine A_of_own (Nat.le_refl _) ?_ hin (fun k _ hk => ?_) hst
      · rw [drop_ge (Nat.le_refl _)]; exact h1
      · have := hD k rest hk
        simpa only [printSkel, List.cons_append] using this
  refine ⟨hA, ?_, ?_, fun k rest _ hk => hD k rest hk, fun h => by simp [Skel.cls] at h⟩
  · intro i rest fu _ _ _ hno
    exact absurd rfl hno
  · intro rest fu _ hno
    exact absurd rfl hno

/-- `%x::T. body` -/
theorem good_binderT (hc : TableConsistent T L) {b : Nat} {x : List Nat} {ty : Ty} {body : Skel} (hb : b < L.binders.length)
    (ihb : Good T L uni body) : Good T L uni (.binderT b x ty body) := by
  have hidx := binder_idx hc uni hb
  have hD : ∀ k rest, k < L.n → headPre L k (printSkel T L uni (.binderT b x ty body) ++ rest) = false := by
    intro k rest hk
    simp [printSkel, headPre, binder_noLevel hc uni hb hk]
  have hA : ∀ i rest fu, i ≤ lvl T L (.binderT b x ty body) → i ≤ L.n → ((Skel.binderT b x ty body).cls = .opn → Stops L 0 rest) →
        Stops L i rest → (printSkel T L uni (.binderT b x ty body) ++ rest).length ≤ fu →
        parseAt T L (fu + 1) i (printSkel T L uni (.binderT b x ty body) ++ rest) = some (.binderT b x ty body, rest) := by
    intro i rest fu _ hin hopn hst hlen
    have hst0 := hopn rfl
    simp only [printSkel, List.cons_append, List.append_assoc] at hlen ⊢
    cases fu with
    | zero => simp at hlen
    | succ fu' =>
      have hbody := ihb.A 0 rest fu' (Nat.zero_le _) (Nat.zero_le _) (fun _ => hst0) hst0
        (by simp only [List.length_cons, List.length_append] at hlen ⊢; omega)
      have hty := parse_ty_at hc.2.2.2.2.2.2.1.2.2 uni ty (rest := .dot :: (printSkel T L uni body ++ rest))
        ⟨(fun x r h => by cases h), (fun s r h => by cases h)⟩
      have hat : atomP L (parseAt T L (fu' + 1))
          (.sym (binderSpell T L uni b) :: .id x :: .sym L.dcolon :: (printTy L.ty uni ty ++ .dot :: (printSkel T L uni body ++ rest)))
          = some (.binderT b x ty body, rest) := by
        simp only [List.length_append, List.length_cons] at hty
        simp only [atomP]; rw [if_neg (binder_ne_lbrace hc uni hb), atomP']; simp [hidx, hbody, hty]
      have h1 := step_app (T := T) (i := L.n) hat
      rw [appLoop_stop _ _ _ _ hst0.noAtom] at h1
      refine A_of_own (Nat.le_refl _) ?_ hin (fun k _ hk => ?_) hst
      · rw [drop_ge (Nat.le_refl _)]; exact h1
      · have := hD k rest hk
        simpa only [printSkel, List.cons_append, List.append_assoc] using this
  refine ⟨hA, ?_, ?_, fun k rest _ hk => hD k rest hk, fun h => by simp [Skel.cls] at h⟩
  · intro i rest fu _ _ _ hno
    exact absurd rfl hno
  · intro rest fu _ hno
    exact absurd rfl hno

theorem good_ite {c a b : Skel} (ihc : Good T L uni c) (iha : Good T L uni a) (ihb : Good T L uni b) :
    Good T L uni (.ite c a b) := by
  have hD : ∀ k rest, headPre L k (printSkel T L uni (.ite c a b) ++ rest) = false := by
    intro k rest; simp [printSkel, headPre]
  have hA : ∀ i rest fu, i ≤ lvl T L (.ite c a b) → i ≤ L.n → ((Skel.ite c a b).cls = .opn → Stops L 0 rest) →
        Stops L i rest → (printSkel T L uni (.ite c a b) ++ rest).length ≤ fu →
        parseAt T L (fu + 1) i (printSkel T L uni (.ite c a b) ++ rest) = some (.ite c a b, rest) := by
    intro i rest fu _ hin hopn hst hlen
    have hst0 := hopn rfl
    simp only [printSkel, List.cons_append, List.append_assoc] at hlen ⊢
    cases fu with
    | zero => simp at hlen
    | succ fu' =>
      simp only [List.length_cons, List.length_append] at hlen
      have h1 := ihc.A 0 (.kthen :: (printSkel T L uni a ++ .kelse :: (printSkel T L uni b ++ rest))) fu'
        (Nat.zero_le _) (Nat.zero_le _) (fun _ => stops_then 0 _) (stops_then 0 _)
        (by simp only [List.length_cons, List.length_append]; omega)
      have h2 := iha.A 0 (.kelse :: (printSkel T L uni b ++ rest)) fu'
        (Nat.zero_le _) (Nat.zero_le _) (fun _ => stops_else 0 _) (stops_else 0 _)
        (by simp only [List.length_cons, List.length_append]; omega)
      have h3 := ihb.A 0 rest fu' (Nat.zero_le _) (Nat.zero_le _) (fun _ => hst0) hst0
        (by simp only [List.length_append]; omega)
      have hat : atomP L (parseAt T L (fu' + 1))
          (.kif :: (printSkel T L uni c ++ .kthen :: (printSkel T L uni a ++ .kelse :: (printSkel T L uni b ++ rest))))
          = some (.ite c a b, rest) := by
        simp only [atomP]; rw [atomP']; simp [h1, h2, h3]
      have h4 := step_app (T := T) (i := L.n) hat
      rw [appLoop_stop _ _ _ _ hst0.noAtom] at h4
      refine A_of_own (Nat.le_refl _) ?_ hin (fun k _ _ => ?_) hst
      · rw [drop_ge (Nat.le_refl _)]; exact h4
      · simp [headPre]
  refine ⟨hA, ?_, ?_, fun k rest _ _ => hD k rest, fun h => by simp [Skel.cls] at h⟩
  · intro i rest fu _ _ _ hno
    exact absurd rfl hno
  · intro rest fu _ hno
    exact absurd rfl hno

end Holpy.C07

namespace Holpy.C07

variable {T : Table} {L : Ladder} {uni : Bool}

theorem good_bin (hc : TableConsistent T L) {o : Nat} {l r : Skel} (ho : o < T.ops.length) (har : (T.row o).arity = .binary)
    (hwl : l.WF T L) (hwr : r.WF T L) (ihl : Good T L uni l) (ihr : Good T L uni r) : Good T L uni (.bin o l r) := by
  obtain ⟨hl, hkind, hsA, hsU, hfA, hfU, hcls⟩ := (hc.1 o ho).1 har
  have hs : (L.at (rowLevel T L o)).has (T.spell uni o) = true := by
    rcases spell_cases (T := T) uni o with h | h <;> rw [h] <;> assumption
  have hf : T.find .binary (T.spell uni o) = some o := by
    rcases spell_cases (T := T) uni o with h | h <;> rw [h] <;> assumption
  have hfl := (hcls l.cls (cls_mem hwl)).1
  have hfr := (hcls r.cls (cls_mem hwr)).2
  have hinf : isInfix (L.at (rowLevel T L o)).kind = true := by
    rcases hkind with h | h <;> simp [isInfix, h]
  have hlv : lvl T L (.bin o l r) = rowLevel T L o := rfl
  -- after the left operand comes the operator: a stop for every tighter level
  have hsym : ∀ r0, Stops L (rowLevel T L o + 1) (.sym (T.spell uni o) :: r0) := fun r0 =>
    ⟨sym_noAtom hc hl hs r0, fun j h1 h2 => infix_other hc hl hinf hs h2 (by omega) r0⟩
  have hleft : leftReq L (rowLevel T L o) ≤ rowLevel T L o + 1 := by unfold leftReq; split <;> omega
  have hleft' : rowLevel T L o ≤ leftReq L (rowLevel T L o) := by unfold leftReq; split <;> omega
  have hD : ∀ k rest, k < rowLevel T L o → k < L.n → headPre L k (printSkel T L uni (.bin o l r) ++ rest) = false := by
    intro k rest hk' hkn
    simp only [printSkel, List.append_assoc]
    cases hb : brL T o l.cls with
    | true => simp [wrap, headPre]
    | false =>
      have hfit := hfl hb
      simpa [wrap] using ihl.D k _ (by have := hfit.2; unfold lvl; omega) hkn
  rcases hkind with hk | hk
  · -- x: x OP next
    have hlr : leftReq L (rowLevel T L o) = rowLevel T L o := by simp [leftReq, hk]
    have hrr : rightReq L (rowLevel T L o) = rowLevel T L o + 1 := by simp [rightReq, hk]
    rw [hlr] at hfl
    rw [hrr] at hfr
    have hB : ∀ rest fu, Stops L (rowLevel T L o + 1) rest → (printSkel T L uni (.bin o l r) ++ rest).length ≤ fu →
        ∃ g, rest.length ≤ g ∧ parseAt T L (fu + 1) (rowLevel T L o) (printSkel T L uni (.bin o l r) ++ rest)
          = loopL T (L.at (rowLevel T L o)) (parseAt T L fu) (rowLevel T L o) g (.bin o l r) rest := by
      intro rest fu hst hlen
      simp only [printSkel, List.append_assoc, List.cons_append] at hlen ⊢
      have hwp := wrap_pos (T := T) (L := L) (uni := uni) (brR T o r.cls) r
      cases fu with
      | zero => simp at hlen
      | succ fu' =>
        have hr : parseAt T L (fu' + 1) (rowLevel T L o + 1) (wrap (brR T o r.cls) (printSkel T L uni r) ++ rest) = some (r, rest) :=
          operand ihr _ _ (by omega) hfr rest hst fu'
            (by simp only [List.length_append, List.length_cons] at hlen ⊢; omega)
        have h1 : ∃ g1, (Tok.sym (T.spell uni o) :: (wrap (brR T o r.cls) (printSkel T L uni r) ++ rest)).length ≤ g1 ∧
            parseAt T L (fu' + 1 + 1) (rowLevel T L o)
              (wrap (brL T o l.cls) (printSkel T L uni l) ++ .sym (T.spell uni o) :: (wrap (brR T o r.cls) (printSkel T L uni r) ++ rest))
            = loopL T (L.at (rowLevel T L o)) (parseAt T L (fu' + 1)) (rowLevel T L o) g1 l
                (.sym (T.spell uni o) :: (wrap (brR T o r.cls) (printSkel T L uni r) ++ rest)) := by
          cases hb : brL T o l.cls with
          | false =>
            have hfit := hfl hb
            rw [hb] at hlen
            exact ihl.B (rowLevel T L o) _ (fu' + 1) hl hk hfit.2 hfit.1 (hsym _) hlen
          | true =>
            rw [hb] at hlen
            have hop := operand ihl true (rowLevel T L o + 1) (by omega) (fun h => by cases h) _ (hsym _) (fu' + 1) hlen
            rw [parseAt_succ] at hop
            refine ⟨(wrap true (printSkel T L uni l) ++
              Tok.sym (T.spell uni o) :: (wrap (brR T o r.cls) (printSkel T L uni r) ++ rest)).length, ?_, ?_⟩
            · simp only [List.length_append, List.length_cons]; omega
            · rw [parseAt_succ, drop_lt hl]
              exact step_infixL hk hop
        obtain ⟨g1, hg1, h1⟩ := h1
        cases g1 with
        | zero => simp at hg1
        | succ g =>
          refine ⟨g, ?_, ?_⟩
          · simp only [List.length_cons, List.length_append] at hg1; omega
          · rw [h1]; exact loopL_step hs hf hr
    have hA : ∀ i rest fu, i ≤ lvl T L (.bin o l r) → i ≤ L.n → ((Skel.bin o l r).cls = .opn → Stops L 0 rest) →
          Stops L i rest → (printSkel T L uni (.bin o l r) ++ rest).length ≤ fu →
          parseAt T L (fu + 1) i (printSkel T L uni (.bin o l r) ++ rest) = some (.bin o l r, rest) := by
      intro i rest fu hi _ _ hst hlen
      rw [hlv] at hi
      obtain ⟨g, _, h1⟩ := hB rest fu (hst.mono (by omega)) hlen
      have hno := hst.noInfix (rowLevel T L o) hi hl
      rw [loopL_stop] at h1
      · rw [parseAt_succ] at h1
        exact A_of_own (Nat.le_of_lt hl) h1 hi (fun k _ h2 => hD k rest h2 (by omega)) hst
      · intro s' r' hr'
        subst hr'
        simpa [headInfix, hinf] using hno
    refine ⟨hA, ?_, ?_, fun k rest h1 h2 => hD k rest (by rw [hlv] at h1; exact h1) h2, fun h => by simp [Skel.cls] at h⟩
    · intro i rest fu hi hki hle hno hst hlen
      rw [hlv] at hle
      by_cases heq : i = rowLevel T L o
      · subst heq; exact hB rest fu hst hlen
      · exact B_of_A hA hi hki (by rw [hlv]; omega) hno hst hlen
    · intro rest fu hle
      rw [hlv] at hle; omega
  · -- x: next OP x
    have hlr : leftReq L (rowLevel T L o) = rowLevel T L o + 1 := by simp [leftReq, hk]
    have hrr : rightReq L (rowLevel T L o) = rowLevel T L o := by simp [rightReq, hk]
    rw [hlr] at hfl
    rw [hrr] at hfr
    have hown : ∀ rest fu, Stops L (rowLevel T L o) rest → (printSkel T L uni (.bin o l r) ++ rest).length ≤ fu →
        levelsFrom T L (parseAt T L fu) (L.levels.drop (rowLevel T L o)) (rowLevel T L o)
          (printSkel T L uni (.bin o l r) ++ rest) = some (.bin o l r, rest) := by
      intro rest fu hst hlen
      simp only [printSkel, List.append_assoc, List.cons_append] at hlen ⊢
      have hwp := wrap_pos (T := T) (L := L) (uni := uni) (brL T o l.cls) l
      cases fu with
      | zero => simp at hlen
      | succ fu' =>
        have hr : parseAt T L (fu' + 1) (rowLevel T L o) (wrap (brR T o r.cls) (printSkel T L uni r) ++ rest) = some (r, rest) :=
          operand ihr _ _ (by omega) hfr rest hst fu'
            (by simp only [List.length_append, List.length_cons] at hlen ⊢; omega)
        have hlo := operand ihl (brL T o l.cls) (rowLevel T L o + 1) (by omega) hfl _ (hsym _) (fu' + 1) hlen
        rw [parseAt_succ] at hlo
        rw [drop_lt hl]
        exact step_infixR hk hlo hs hf hr
    have hA : ∀ i rest fu, i ≤ lvl T L (.bin o l r) → i ≤ L.n → ((Skel.bin o l r).cls = .opn → Stops L 0 rest) →
          Stops L i rest → (printSkel T L uni (.bin o l r) ++ rest).length ≤ fu →
          parseAt T L (fu + 1) i (printSkel T L uni (.bin o l r) ++ rest) = some (.bin o l r, rest) := by
      intro i rest fu hi _ _ hst hlen
      rw [hlv] at hi
      exact A_of_own (Nat.le_of_lt hl) (hown rest fu (hst.mono hi) hlen) hi (fun k _ h2 => hD k rest h2 (by omega)) hst
    refine ⟨hA, ?_, ?_, fun k rest h1 h2 => hD k rest (by rw [hlv] at h1; exact h1) h2, fun h => by simp [Skel.cls] at h⟩
    · intro i rest fu hi hki hle hno hst hlen
      rw [hlv] at hle
      have : i ≠ rowLevel T L o := by intro h; rw [h, hk] at hki; cases hki
      exact B_of_A hA hi hki (by rw [hlv]; omega) hno hst hlen
    · intro rest fu hle
      rw [hlv] at hle; omega

theorem good (hc : TableConsistent T L) (uni : Bool) : ∀ t : Skel, t.WF T L → Good T L uni t := by
  intro t
  induction t with
  | atom s => intro _; exact good_atom s
  | app f a ihf iha => intro h; exact good_app hc h.1 h.2 (ihf h.1) (iha h.2)
  | bin o l r ihl ihr => intro h; exact good_bin hc h.1 h.2.1 h.2.2.1 h.2.2.2 (ihl h.2.2.1) (ihr h.2.2.2)
  | un o a iha => intro h; exact good_un hc h.1 h.2.1 h.2.2 (iha h.2.2)
  | binder b x body ihb => intro h; exact good_binder hc h.1 (ihb h.2)
  | ite c a b ihc iha ihb => intro h; exact good_ite (ihc h.1) (iha h.2.1) (ihb h.2.2)
  | ann t ty iht => intro h; exact good_ann hc (iht h)
  | binderT b x ty body ihb => intro h; exact good_binderT hc h.1 (ihb h.2)
  | interval a b iha ihb => intro h; exact good_interval hc (iha h.1) (ihb h.2)
  | collect x body ihb => intro h; exact good_collect hc (ihb h)
  | collectT x ty body ihb => intro h; exact good_collectT hc (ihb h)

theorem parse_print_core (hc : TableConsistent T L) (uni : Bool) (t : Skel) (hw : t.WF T L) :
    parseSkel T L (printSkel T L uni t) = some t := by
  have h := (good hc uni t hw).A 0 [] (printSkel T L uni t).length (Nat.zero_le _) (Nat.zero_le _)
    (fun _ => stops_nil 0) (stops_nil 0) (by simp)
  simp only [List.append_nil] at h
  simp [parseSkel, h]

end Holpy.C07
