import Holpy.C07.Roundtrip
import Holpy.C07.SeqModel
/-
C07 — `thm_parse_print`: sequents on top of `parse_print`.
-/
namespace Holpy.C07

variable {T : Table} {L : Ladder} {Q : SeqSyms}

theorem stops_sep (hq : SeqOK L Q) {s : Nat} (hs : s ∈ [Q.comma, Q.turnA, Q.turnU]) (r : List Tok) :
    Stops L 0 (.sym s :: r) := by
  have h := hq.2 s hs
  refine ⟨by simp [atomStart, h.1], fun j _ hj => by simp [headInfix, h.2.1 j hj]⟩

theorem parse_hyp (hc : TableConsistent T L) (uni : Bool) {t : Skel} (hw : t.WF T L) {rest : List Tok} (hst : Stops L 0 rest) :
    parseAt T L ((printSkel T L uni t ++ rest).length + 1) 0 (printSkel T L uni t ++ rest) = some (t, rest) :=
  (good hc uni t hw).A 0 rest _ (Nat.zero_le _) (Nat.zero_le _) (fun _ => hst) hst (Nat.le_refl _)

theorem parse_concl (hc : TableConsistent T L) (uni : Bool) {c : Skel} (hw : c.WF T L) :
    parseConcl T L (printSkel T L uni c) = some c := by
  have := parse_hyp hc uni hw (stops_nil (L := L) 0)
  simp only [List.append_nil] at this
  simp [parseConcl, this]

/-- the first token of a printed term, if it is a symbol, is a prefix operator or a binder -/
theorem head_sym (hc : TableConsistent T L) (uni : Bool) : ∀ t : Skel, t.WF T L → ∀ s r, printSkel T L uni t = .sym s :: r →
    (L.binderIdx s).isSome = true ∨ (∃ j, j < L.n ∧ (L.at j).has s = true) ∨ s = L.lbrace := by
  intro t
  induction t with
  | atom x => intro _ s r h; simp [printSkel] at h
  | app f a ihf _ =>
    intro hw s r h
    simp only [printSkel] at h
    cases hb : brF T f.cls with
    | true => rw [hb] at h; simp [wrap] at h
    | false =>
      rw [hb] at h
      simp only [wrap, Bool.false_eq_true, ite_false] at h
      cases hp : printSkel T L uni f with
      | nil => have := pr_pos (T := T) (L := L) (uni := uni) f; rw [hp] at this; simp at this
      | cons x xs =>
        rw [hp] at h
        simp only [List.cons_append, List.cons.injEq] at h
        exact ihf hw.1 s xs (by rw [hp, h.1])
  | bin o l r' ihl _ =>
    intro hw s r h
    simp only [printSkel] at h
    cases hb : brL T o l.cls with
    | true => rw [hb] at h; simp [wrap] at h
    | false =>
      rw [hb] at h
      simp only [wrap, Bool.false_eq_true, ite_false] at h
      cases hp : printSkel T L uni l with
      | nil => have := pr_pos (T := T) (L := L) (uni := uni) l; rw [hp] at this; simp at this
      | cons x xs =>
        rw [hp] at h
        simp only [List.cons_append, List.cons.injEq] at h
        exact ihl hw.2.2.1 s xs (by rw [hp, h.1])
  | un o a _ =>
    intro hw s r h
    simp only [printSkel, List.cons.injEq, Tok.sym.injEq] at h
    obtain ⟨hl, _, hsA, hsU, _⟩ := (hc.1 o hw.1).2 hw.2.1
    refine Or.inr (Or.inl ⟨rowLevel T L o, hl, ?_⟩)
    rw [← h.1]
    rcases spell_cases (T := T) uni o with h' | h' <;> rw [h'] <;> assumption
  | binder b x body _ =>
    intro hw s r h
    simp only [printSkel, List.cons.injEq, Tok.sym.injEq] at h
    rw [← h.1, binder_idx hc uni hw.1]
    exact Or.inl rfl
  | ite c a b _ _ _ => intro _ s r h; simp [printSkel] at h
  | ann t ty _ => intro _ s r h; simp [printSkel] at h
  | binderT b x ty body _ =>
    intro hw s r h
    simp only [printSkel, List.cons.injEq, Tok.sym.injEq] at h
    rw [← h.1, binder_idx hc uni hw.1]
    exact Or.inl rfl
  | interval a b _ _ =>
    intro _ s r h
    simp only [printSkel, List.cons.injEq, Tok.sym.injEq] at h
    exact Or.inr (Or.inr h.1.symm)
  | collect x body _ =>
    intro _ s r h
    simp only [printSkel, List.cons.injEq, Tok.sym.injEq] at h
    exact Or.inr (Or.inr h.1.symm)
  | collectT x ty body _ =>
    intro _ s r h
    simp only [printSkel, List.cons.injEq, Tok.sym.injEq] at h
    exact Or.inr (Or.inr h.1.symm)

theorem hypsMore_len (uni : Bool) (hs : List Skel) : hs.length ≤ (printHypsMore T L Q uni hs).length := by
  induction hs with
  | nil => simp [printHypsMore]
  | cons h hs ih => simp only [printHypsMore, List.length_cons, List.length_append]; omega

theorem hyps_loop (hc : TableConsistent T L) (hq : SeqOK L Q) (uni : Bool) {c : Skel} (hwc : c.WF T L) :
    ∀ (hs : List Skel), (∀ x ∈ hs, x.WF T L) → ∀ (h : Skel), h.WF T L → ∀ (acc : List Skel) (g : Nat), hs.length < g →
      hypsLoop T L Q g acc (printSkel T L uni h ++ (printHypsMore T L Q uni hs ++ .sym (Q.turn uni) :: printSkel T L uni c))
        = some (acc.reverse ++ h :: hs, c) := by
  intro hs
  induction hs with
  | nil =>
    intro _ h hwh acc g hg
    cases g with
    | zero => simp at hg
    | succ g0 =>
      have hturn : Q.turn uni ∈ [Q.comma, Q.turnA, Q.turnU] := by cases uni <;> simp [SeqSyms.turn]
      have hp := parse_hyp hc uni hwh (stops_sep hq hturn (printSkel T L uni c))
      simp only [printHypsMore, List.nil_append]
      rw [hypsLoop, hp]
      have hne : Q.turn uni ≠ Q.comma := by
        cases uni
        · simpa [SeqSyms.turn] using Ne.symm hq.1.1
        · simpa [SeqSyms.turn] using Ne.symm hq.1.2
      have hist : isTurn Q (Q.turn uni) = true := by cases uni <;> simp [isTurn, SeqSyms.turn]
      simp [hne, hist, parse_concl hc uni hwc]
  | cons h' hs ih =>
    intro hall h hwh acc g hg
    cases g with
    | zero => simp at hg
    | succ g0 =>
      have hcomma : Q.comma ∈ [Q.comma, Q.turnA, Q.turnU] := by simp
      have hp := parse_hyp hc uni hwh (stops_sep hq hcomma
        (printSkel T L uni h' ++ (printHypsMore T L Q uni hs ++ .sym (Q.turn uni) :: printSkel T L uni c)))
      simp only [printHypsMore, List.cons_append, List.append_assoc] at hp ⊢
      rw [hypsLoop, hp]
      simp only [ite_true]
      rw [ih (fun x hx => hall x (by simp [hx])) h' (hall h' (by simp)) (h :: acc) g0 (by simp at hg; omega)]
      simp

theorem thm_parse_print_core (hc : TableConsistent T L) (hq : SeqOK L Q) (uni : Bool) (hyps : List Skel) (c : Skel)
    (hwh : ∀ x ∈ hyps, x.WF T L) (hwc : c.WF T L) :
    parseThm T L Q (printThm T L Q uni hyps c) = some (hyps, c) := by
  cases hyps with
  | nil =>
    have hist : isTurn Q (Q.turn uni) = true := by cases uni <;> simp [isTurn, SeqSyms.turn]
    simp [printThm, parseThm, hist, parse_concl hc uni hwc]
  | cons h hs =>
    have hwh0 := hwh h (by simp)
    have hloop := hyps_loop hc hq uni hwc hs (fun x hx => hwh x (by simp [hx])) h hwh0 []
      ((printThm T L Q uni (h :: hs) c).length + 1)
      (by
        have := hypsMore_len (T := T) (L := L) (Q := Q) uni hs
        simp only [printThm, List.length_append, List.length_cons]; omega)
    simp only [printThm] at hloop ⊢
    simp only [List.reverse_nil, List.nil_append] at hloop
    cases hp : printSkel T L uni h with
    | nil => have := pr_pos (T := T) (L := L) (uni := uni) h; rw [hp] at this; simp at this
    | cons x xs =>
      rw [hp] at hloop
      cases x with
      | sym s =>
        have hhead := head_sym hc uni h hwh0 s xs hp
        have hnot : isTurn Q s = false := by
          cases hts : isTurn Q s with
          | false => rfl
          | true =>
            have hmem : s ∈ [Q.comma, Q.turnA, Q.turnU] := by
              simp only [isTurn, Bool.or_eq_true, decide_eq_true_eq] at hts
              rcases hts with h | h <;> simp [h]
            have hq' := hq.2 s hmem
            rcases hhead with hb | ⟨j, hj, hh⟩ | hb
            · rw [hq'.1] at hb; cases hb
            · rw [hq'.2.1 j hj] at hh; cases hh
            · exact absurd hb hq'.2.2
        simp only [List.cons_append, parseThm, hnot, Bool.false_eq_true, ite_false]
        simpa using hloop
      | _ => simpa [parseThm] using hloop

end Holpy.C07
