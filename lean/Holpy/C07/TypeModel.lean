import Holpy.C07.Base
/-
C07 — model of the type printer (`get_ast_type` + `print_ast`) and of the rule `type` of the grammar
in syntax/parser.py.  Import-free.

  ?type: "'" CNAME | "?'" CNAME | type ("=>"|"⇒") type | CNAME | type CNAME
       | "(" type ("," type)* ")" CNAME | "(" type ")"

The rule is ambiguous; Lark's LALR resolves shift/reduce by shift: the arrow nests to the right and
a constructor name binds tighter than the arrow.  The model parser is the recursive descent for
that reading: `type := post ("=>" type)?`, `post := prim CNAME*`,
`prim := 'a | ?'a | name | ( type ) | ( type , … ) name`.
-/
namespace Holpy.C07

mutual
inductive Ty
  | tvar (s : List Nat)
  | stvar (s : List Nat)
  /-- type constructor applied to its arguments (`fun` with two arguments is `fn`) -/
  | con (name : List Nat) (args : TyList)
  | fn (a b : Ty)
  deriving Repr
inductive TyList
  | nil
  | cons (t : Ty) (ts : TyList)
  deriving Repr
end

instance : Inhabited Ty := ⟨.tvar []⟩

mutual
/-- decidable equality, by hand (mutual inductive) -/
def Ty.decEq : (a b : Ty) → Decidable (a = b)
  | .tvar s, .tvar t => if h : s = t then isTrue (by rw [h]) else isFalse (fun e => by cases e; exact h rfl)
  | .stvar s, .stvar t => if h : s = t then isTrue (by rw [h]) else isFalse (fun e => by cases e; exact h rfl)
  | .con n as, .con m bs =>
    if h : n = m then
      match TyList.decEq as bs with
      | isTrue h2 => isTrue (by rw [h, h2])
      | isFalse h2 => isFalse (fun e => by cases e; exact h2 rfl)
    else isFalse (fun e => by cases e; exact h rfl)
  | .fn a b, .fn c d =>
    match Ty.decEq a c, Ty.decEq b d with
    | isTrue h1, isTrue h2 => isTrue (by rw [h1, h2])
    | isFalse h1, _ => isFalse (fun e => by cases e; exact h1 rfl)
    | _, isFalse h2 => isFalse (fun e => by cases e; exact h2 rfl)
  | .tvar _, .stvar _ => isFalse (fun e => by cases e)
  | .tvar _, .con _ _ => isFalse (fun e => by cases e)
  | .tvar _, .fn _ _ => isFalse (fun e => by cases e)
  | .stvar _, .tvar _ => isFalse (fun e => by cases e)
  | .stvar _, .con _ _ => isFalse (fun e => by cases e)
  | .stvar _, .fn _ _ => isFalse (fun e => by cases e)
  | .con _ _, .tvar _ => isFalse (fun e => by cases e)
  | .con _ _, .stvar _ => isFalse (fun e => by cases e)
  | .con _ _, .fn _ _ => isFalse (fun e => by cases e)
  | .fn _ _, .tvar _ => isFalse (fun e => by cases e)
  | .fn _ _, .stvar _ => isFalse (fun e => by cases e)
  | .fn _ _, .con _ _ => isFalse (fun e => by cases e)
def TyList.decEq : (a b : TyList) → Decidable (a = b)
  | .nil, .nil => isTrue rfl
  | .cons t ts, .cons u us =>
    match Ty.decEq t u, TyList.decEq ts us with
    | isTrue h1, isTrue h2 => isTrue (by rw [h1, h2])
    | isFalse h1, _ => isFalse (fun e => by cases e; exact h1 rfl)
    | _, isFalse h2 => isFalse (fun e => by cases e; exact h2 rfl)
  | .nil, .cons _ _ => isFalse (fun e => by cases e)
  | .cons _ _, .nil => isFalse (fun e => by cases e)
end

instance : DecidableEq Ty := Ty.decEq
instance : DecidableEq TyList := TyList.decEq

/-- symbol ids (indices into the terminal list) of the type syntax -/
structure TySyms where
  tick : Nat
  qtick : Nat
  arrowA : Nat
  arrowU : Nat
  comma : Nat
  deriving Repr

def Ty.isFn : Ty → Bool
  | .fn _ _ => true
  | _ => false

def TySyms.arrow (C : TySyms) (uni : Bool) : Nat := if uni then C.arrowU else C.arrowA

mutual
/-- token stream of `print_type` -/
def printTy (C : TySyms) (uni : Bool) : Ty → List Tok
  | .tvar s => [.sym C.tick, .id s]
  | .stvar s => [.sym C.qtick, .id s]
  | .con name .nil => [.id name]
  | .con name (.cons a .nil) => wrap a.isFn (printTy C uni a) ++ [.id name]
  | .con name (.cons a (.cons b ts)) => .lp :: (printTy C uni a ++ (printTyMore C uni (.cons b ts) ++ [.rp, .id name]))
  | .fn a b => wrap a.isFn (printTy C uni a) ++ .sym (C.arrow uni) :: printTy C uni b
/-- `, t` for every further argument -/
def printTyMore (C : TySyms) (uni : Bool) : TyList → List Tok
  | .nil => []
  | .cons t ts => .sym C.comma :: (printTy C uni t ++ printTyMore C uni ts)
end

abbrev TRes := Option (Ty × List Tok)

/-- `("," type)* ")"` -/
def tyMore (C : TySyms) (self : List Tok → TRes) : Nat → List Tok → Option (TyList × List Tok)
  | _, .rp :: r => some (.nil, r)
  | g + 1, .sym s :: r =>
    if s = C.comma then
      match self r with
      | some (t, r1) =>
        match tyMore C self g r1 with
        | some (ts, r2) => some (.cons t ts, r2)
        | none => none
      | none => none
    else none
  | _, _ => none

def tyPrim (C : TySyms) (self : List Tok → TRes) : List Tok → TRes
  | .sym s :: .id x :: r => if s = C.tick then some (.tvar x, r) else if s = C.qtick then some (.stvar x, r) else none
  | .id x :: r => some (.con x .nil, r)
  | .lp :: r =>
    match self r with
    | some (t, r1) =>
      match tyMore C self r1.length r1 with
      | some (.nil, r2) => some (t, r2)
      | some (.cons u us, .id name :: r2) => some (.con name (.cons t (.cons u us)), r2)
      | _ => none
    | none => none
  | _ => none

/-- `CNAME*` after a primary: postfix constructor application -/
def tyPost : Nat → Ty → List Tok → TRes
  | g + 1, t, .id name :: r => tyPost g (.con name (.cons t .nil)) r
  | 0, _, .id _ :: _ => none
  | _, t, r => some (t, r)

/-- `post := prim CNAME*` -/
def primPost (C : TySyms) (self : List Tok → TRes) (ts : List Tok) : TRes :=
  match tyPrim C self ts with
  | some (t, r) => tyPost r.length t r
  | none => none

def tyLevel (C : TySyms) (self : List Tok → TRes) (ts : List Tok) : TRes :=
  match primPost C self ts with
  | some (t', .sym s :: r') =>
    if s = C.arrowA ∨ s = C.arrowU then
      match self r' with
      | some (u, r'') => some (.fn t' u, r'')
      | none => none
    else some (t', .sym s :: r')
  | res => res

def parseTyAt (C : TySyms) : Nat → List Tok → TRes
  | 0, _ => none
  | f + 1, ts => tyLevel C (parseTyAt C f) ts

def parseTy (C : TySyms) (ts : List Tok) : Option Ty :=
  match parseTyAt C (ts.length + 1) ts with
  | some (t, []) => some t
  | _ => none

/-- the symbols of the type syntax are pairwise different, and a `fun` with two arguments is written `fn` -/
abbrev TySyms.ok (C : TySyms) : Prop :=
  C.tick ≠ C.qtick ∧ C.comma ≠ C.arrowA ∧ C.comma ≠ C.arrowU

end Holpy.C07
