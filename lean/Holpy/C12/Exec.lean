import Holpy.C12.Proofs
/-
C12 — the main induction: every call of the loader preserves the invariant, `load_theory_cache`
restores `theory.thy` and the block stack and leaves a stamped entry, and `load_theory` without a
fault leaves exactly `specLoad` in `theory.thy`.
-/
namespace Holpy.C12

variable (W : World) (L : Lib) (U : Used)

theorem cache_spec {s : State} (hi : Inv W L U s) {n : Name} {e : Entry} (he : s.entry n = some e) (hs : e.valid s n = true) :
    ∀ k, specContent W L k n ≠ .error .fuel → specContent W L k n = .ok e.content := by
  unfold State.entry at he
  cases hc : s.cache with
  | none => rw [hc] at he; simp at he
  | some T =>
    rw [hc] at he
    simp only [Option.bind] at he
    exact (hi.2.1 T hc).2.2.1 n e he hs

theorem imps_eq {s : State} (hi : Inv W L U s) {T : Name → Option Entry} (hc : s.cache = some T) : s.imps = L.imps := by
  funext n
  unfold State.imps State.entry
  rw [hc]
  exact (hi.2.1 T hc).2.1 n

theorem order_eq {s : State} (hi : Inv W L U s) {T : Name → Option Entry} (hc : s.cache = some T) (is : List Name) :
    s.order is = L.order is := by
  unfold State.order Lib.order
  rw [imps_eq W L U hi hc, hi.1.1]

theorem cache_of_entry {s : State} {n : Name} {e : Entry} (he : s.entry n = some e) : ∃ T, s.cache = some T ∧ T n = some e := by
  unfold State.entry at he
  cases hc : s.cache with
  | none => rw [hc] at he; simp at he
  | some T => rw [hc] at he; exact ⟨T, rfl, he⟩

/-- what the induction hypothesis gives for `load_theory_cache(p)` -/
def LtcPost (p : Name) (s : State) (r : R) : Prop :=
  Rel W L U s r.2 ∧ r.2.blocks = s.blocks ∧ r.2.thy = s.thy ∧ (r.1 = none → ∃ e, r.2.entry p = some e ∧ e.valid r.2 p = true)

theorem loopDeps_post (rec : Name → State → R) (hrec : ∀ p s, Inv W L U s → LtcPost W L U p s (rec p s)) :
    ∀ (order : List Name) (s : State) (acc : List (Name × Nat)), Inv W L U s →
      Rel W L U s (loopDeps W rec order s acc).2.1 ∧ (loopDeps W rec order s acc).2.1.blocks = s.blocks ∧
      ((loopDeps W rec order s acc).1 = none → ∀ k, ctxOf W (specContent W L k) order (s.thy.getD []) ≠ .error .fuel →
        ctxOf W (specContent W L k) order (s.thy.getD []) = .ok ((loopDeps W rec order s acc).2.1.thy.getD [])) ∧
      -- the `depends` list names every theory of `depend_list`, with the timestamp its file has now
      ((loopDeps W rec order s acc).1 = none →
        (loopDeps W rec order s acc).2.2.map (·.1) = acc.map (·.1) ++ order ∧
        ((∀ d ∈ acc, (s.files d.1).mtime = d.2) → ∀ d ∈ (loopDeps W rec order s acc).2.2, (s.files d.1).mtime = d.2)) := by
  intro order
  induction order with
  | nil =>
    intro s acc hi
    refine ⟨Rel.refl hi, rfl, ?_, ?_⟩
    · intro _ k _; rfl
    · intro _; exact ⟨by simp [loopDeps], fun h => h⟩
  | cons p ps ih =>
    intro s acc hi
    have hp := hrec p s hi
    rw [loopDeps]
    rcases hr : rec p s with ⟨r1, s1⟩
    rw [hr] at hp
    obtain ⟨hrel, hb, ht, hent⟩ := hp
    cases r1 with
    | some e => exact ⟨hrel, hb, fun h => by simp at h, fun h => by simp at h⟩
    | none =>
      obtain ⟨e, he, hs⟩ := hent rfl
      simp only [he]
      have hfiles : s1.files = s.files := hrel.files
      have hstamp : e.stamp.getD 0 = (s.files p).mtime := by
        have := valid_stamp hs
        simp only [] at this
        rw [this, hfiles]; rfl
      by_cases hx : (extendList W (s1.thy.getD []) (okItems e.content)).2 = true
      · rw [if_pos hx]
        have hi1 : Inv W L U (s1.setThy (extendList W (s1.thy.getD []) (okItems e.content)).1) :=
          hrel.inv.of_sameCore (sameCore_setThy _ _)
        obtain ⟨h1, h2, h3, h4⟩ := ih (s1.setThy (extendList W (s1.thy.getD []) (okItems e.content)).1)
          (acc ++ [(p, e.stamp.getD 0)]) hi1
        refine ⟨(hrel.core_right (sameCore_setThy _ _)).trans h1, h2.trans hb, ?_, ?_⟩
        · intro hnone k hk
          have hthy : s1.thy = s.thy := ht
          have hsp := cache_spec W L U hrel.inv he hs k
          rw [ctxOf] at hk ⊢
          cases hc : specContent W L k p with
          | error e' =>
            rw [hc] at hk
            simp only [] at hk
            by_cases hf : e' = .fuel
            · subst hf; exact absurd rfl hk
            · have := hsp (by rw [hc]; intro h; cases h; exact hf rfl)
              rw [hc] at this; cases this
          | ok c =>
            have := hsp (by rw [hc]; intro h; cases h)
            rw [hc] at this
            cases this
            rw [hc] at hk
            rw [← hthy] at hk ⊢
            simp only [hx, if_true] at hk ⊢
            exact h3 hnone k hk
        · intro hnone
          obtain ⟨h5, h6⟩ := h4 hnone
          refine ⟨by rw [h5]; simp, fun hacc => ?_⟩
          have hf2 : (s1.setThy (extendList W (s1.thy.getD []) (okItems e.content)).1).files = s.files := hfiles
          rw [hf2] at h6
          apply h6
          intro d hd
          rcases List.mem_append.mp hd with hd | hd
          · exact hacc d hd
          · simp only [List.mem_singleton] at hd
            subst hd
            exact hstamp.symm
      · rw [if_neg hx]
        exact ⟨hrel.core_right (sameCore_setThy _ _), hb, fun h => by simp at h, fun h => by simp at h⟩

end Holpy.C12

namespace Holpy.C12

variable (W : World) (L : Lib) (U : Used)

/-! ### load_metadata -/

theorem metaTable_imps {s : State} (hf : FilesOk L s) (n : Name) : (metaTable s n).map (·.imports) = L.imps n := by
  unfold metaTable Lib.imps
  rw [hf.1]
  by_cases h : n ∈ L.names
  · simp [h, (hf.2 n).1]
  · simp [h]

theorem loadMetadata_inv {s : State} (hf : FilesOk L s) (hu : ∀ n, (s.files n).mtime ∈ U n) :
    Inv W L U (loadMetadata s).2 ∧ (loadMetadata s).2.files = s.files ∧ (loadMetadata s).2.names = s.names ∧
    (loadMetadata s).2.blocks = s.blocks ∧ (loadMetadata s).2.thy = s.thy ∧
    ((loadMetadata s).1 = none → (loadMetadata s).2.cache.isSome) ∧
    ((loadMetadata s).1 ≠ none → (loadMetadata s).2.cache = none ∧ topoCheck L.imps L.names = (loadMetadata s).1) := by
  have hf' : FilesOk L (s.logEv .metaLoad) := hf
  have key : topoCheck (fun n => (metaTable (s.logEv .metaLoad) n).map (·.imports)) (s.logEv .metaLoad).names
      = topoCheck L.imps L.names := by
    have himps : (fun n => (metaTable (s.logEv .metaLoad) n).map (·.imports)) = L.imps := by
      funext n; exact metaTable_imps L hf' n
    have hn : (s.logEv .metaLoad).names = L.names := hf.1
    rw [himps, hn]
  rcases h : loadMetadata s with ⟨r, s'⟩
  unfold loadMetadata at h
  simp only [] at h
  rw [key] at h
  cases ht : topoCheck L.imps L.names with
  | some e =>
    rw [ht] at h
    simp only [] at h
    cases h
    refine ⟨⟨hf, ?_, hu⟩, rfl, rfl, rfl, rfl, fun h => by simp at h, fun _ => ⟨rfl, rfl⟩⟩
    intro T hT; simp at hT
  | none =>
    rw [ht] at h
    simp only [] at h
    cases h
    refine ⟨⟨hf, ?_, hu⟩, rfl, rfl, rfl, rfl, fun _ => rfl, fun h => absurd rfl h⟩
    intro T hT
    simp only [Option.some.injEq] at hT
    subst hT
    have hfresh : ∀ n e, metaTable (s.logEv .metaLoad) n = some e → e.stamp = none ∧ e.deps = [] := by
      intro n e he
      unfold metaTable at he
      by_cases h : n ∈ (s.logEv .metaLoad).names
      · simp only [h, if_true, Option.some.injEq] at he
        subst he
        exact ⟨rfl, rfl⟩
      · simp [h] at he
    refine ⟨ht, fun n => metaTable_imps L hf' n, ?_, ?_, ?_⟩
    · intro n e he hv
      have := valid_stamp hv
      rw [(hfresh n e he).1] at this; cases this
    · intro n e he hs
      rw [(hfresh n e he).1] at hs; simp at hs
    · intro n e he
      refine ⟨fun t ht' => ?_, fun d hd => ?_⟩
      · rw [(hfresh n e he).1] at ht'; cases ht'
      · rw [(hfresh n e he).2] at hd; simp at hd

theorem ensureMeta_post {s : State} (hi : Inv W L U s) :
    Rel W L U s (ensureMeta s).2 ∧ (ensureMeta s).2.blocks = s.blocks ∧ (ensureMeta s).2.thy = s.thy ∧
    ((ensureMeta s).1 = none → (ensureMeta s).2.cache.isSome) := by
  cases hcache : s.cache with
  | none =>
    have h0 : ensureMeta s = loadMetadata s := by unfold ensureMeta; simp [hcache]
    rw [h0]
    obtain ⟨h1, h2, h3, h4, h5, h6, _⟩ := loadMetadata_inv W L U hi.1 hi.2.2
    refine ⟨⟨h1, h2, h3, ?_, fun h => by simp [hcache] at h⟩, h4, h5, h6⟩
    intro n e he
    unfold State.entry at he
    rw [hcache] at he
    simp at he
  | some T =>
    have h0 : ensureMeta s = (none, s) := by unfold ensureMeta; simp [hcache]
    rw [h0]
    exact ⟨Rel.refl hi, rfl, rfl, fun _ => by simp [hcache]⟩

/-! ### recording a parsed file -/

theorem setEntry_entry (s : State) (n m : Name) (e : Entry) (hc : s.cache.isSome) :
    (s.setEntry n e).entry m = if m = n then some e else s.entry m := by
  unfold State.setEntry State.entry
  cases h : s.cache with
  | none => simp [h] at hc
  | some T => simp [Option.bind]

theorem setEntry_post {s : State} (hi : Inv W L U s) (hc : s.cache.isSome) (n : Name) (imps : List Name) (t : Nat)
    (content : List (Item × PRes)) (deps : List (Name × Nat)) (himp : L.imps n = some imps)
    (hspec : ∀ k, specContent W L k n ≠ .error .fuel → specContent W L k n = .ok content)
    (hord : L.order imps = some (deps.map (·.1))) (ht : t = (s.files n).mtime)
    (hdeps : ∀ d ∈ deps, (s.files d.1).mtime = d.2) :
    Rel W L U s (s.setEntry n { imports := imps, stamp := some t, content := content, deps := deps }) := by
  have hnewvalid : ({ imports := imps, stamp := some t, content := content, deps := deps } : Entry).valid s n = true := by
    unfold Entry.valid
    simp only [ht, beq_self_eq_true, Bool.true_and, List.all_eq_true, beq_iff_eq]
    intro d hd; exact hdeps d hd
  refine ⟨⟨hi.1, ?_, hi.2.2⟩, rfl, rfl, ?_, fun h => by
    cases hcs : s.cache with
    | none => simp [hcs] at hc
    | some T => simp [State.setEntry, hcs]⟩
  · intro T' hT'
    cases h : s.cache with
    | none => simp [h] at hc
    | some T =>
      obtain ⟨h1, h2, h3, h4, h5⟩ := hi.2.1 T h
      simp only [State.setEntry, h, Option.map_some, Option.some.injEq] at hT'
      subst hT'
      refine ⟨h1, ?_, ?_, ?_, ?_⟩
      · intro m
        by_cases hm : m = n
        · subst hm; simp [himp]
        · simp [hm, h2 m]
      · intro m e he hs
        by_cases hm : m = n
        · subst hm
          simp only [if_true, Option.some.injEq] at he
          subst he
          exact hspec
        · simp only [hm, if_false] at he
          exact h3 m e he hs
      · intro m e he hs
        by_cases hm : m = n
        · subst hm
          simp only [if_true, Option.some.injEq] at he
          subst he
          exact hord
        · simp only [hm, if_false] at he
          exact h4 m e he hs
      · intro m e he
        by_cases hm : m = n
        · subst hm
          simp only [if_true, Option.some.injEq] at he
          subst he
          refine ⟨fun t' ht' => ?_, fun d hd => ?_⟩
          · simp only [Option.some.injEq] at ht'
            subst ht'; rw [ht]; exact hi.2.2 m
          · rw [← hdeps d hd]; exact hi.2.2 d.1
        · simp only [hm, if_false] at he
          exact h5 m e he
  · intro m e he hs
    rw [setEntry_entry s n m _ hc]
    by_cases hm : m = n
    · exact ⟨{ imports := imps, stamp := some t, content := content, deps := deps }, by simp [hm], by rw [hm]; exact hnewvalid⟩
    · exact ⟨e, by simp [hm, he], hs⟩

theorem parseStep_post (fault : Option Item) (n : Name) (e : Entry) (t : Nat) (deps : List (Name × Nat))
    {s0 s2 : State} (hi : Inv W L U s2) (hc : s2.cache.isSome) (hb : s2.blocks = s0.push.blocks)
    (himp : L.imps n = some e.imports) (order : List Name) (hord : L.order e.imports = some order)
    (hctx : ∀ k, ctxOf W (specContent W L k) order [] ≠ .error .fuel →
      ctxOf W (specContent W L k) order [] = .ok (s2.thy.getD []))
    (hnames : deps.map (·.1) = order) (ht : t = (s2.files n).mtime) (hdeps : ∀ d ∈ deps, (s2.files d.1).mtime = d.2) :
    Rel W L U s2 (parseStep W fault n e t deps s2).2 ∧ (parseStep W fault n e t deps s2).2.blocks = s0.blocks ∧
    (parseStep W fault n e t deps s2).2.thy = s0.thy ∧
    ((parseStep W fault n e t deps s2).1 = none →
      ∃ e', (parseStep W fault n e t deps s2).2.entry n = some e' ∧
        e'.valid (parseStep W fault n e t deps s2).2 n = true) := by
  unfold parseStep
  have hlog : SameCore s2 (s2.logEv (.readFile n)) := sameCore_logEv _ _
  have hpop : SameCore s2 (s2.logEv (.readFile n)).pop := hlog.trans (sameCore_pop _)
  have hpp := pop_push_thy s0 (s2.logEv (.readFile n)) hb
  simp only []
  cases hp : parseAll (W.pf fault) ((s2.logEv (.readFile n)).thy.getD []) ((s2.logEv (.readFile n)).files n).items with
  | none =>
    exact ⟨Rel.of_sameCore hi hpop, hpp.2, hpp.1, fun h => by simp at h⟩
  | some content =>
    have hp' := parseAll_fault W fault _ _ _ hp
    have hitems : ((s2.logEv (.readFile n)).files n).items = L.items n := (hi.1.2 n).2
    rw [hitems] at hp'
    have hthy : (s2.logEv (.readFile n)).thy = s2.thy := rfl
    rw [hthy] at hp'
    have hipop : Inv W L U (s2.logEv (.readFile n)).pop := hi.of_sameCore hpop
    have hcpop : (s2.logEv (.readFile n)).pop.cache.isSome := by rw [hpop.1]; exact hc
    have hspec : ∀ k, specContent W L k n ≠ .error .fuel → specContent W L k n = .ok content := by
      intro k hk
      cases k with
      | zero => exact absurd rfl hk
      | succ k =>
        rw [specContent] at hk ⊢
        simp only [himp, hord] at hk ⊢
        cases hcx : ctxOf W (specContent W L k) order [] with
        | error e' =>
          rw [hcx] at hk
          simp only [] at hk
          by_cases hf : e' = .fuel
          · subst hf; exact absurd rfl hk
          · have := hctx k (by rw [hcx]; intro h; cases h; exact hf rfl)
            rw [hcx] at this; cases this
        | ok ctx =>
          have := hctx k (by rw [hcx]; intro h; cases h)
          rw [hcx] at this
          cases this
          simp only [hp']
    have hfpop : (s2.logEv (.readFile n)).pop.files = s2.files := hpop.2.1
    have hrel := setEntry_post W L U hipop hcpop n e.imports t content deps himp hspec (by rw [hnames]; exact hord)
      (by rw [hfpop]; exact ht) (by rw [hfpop]; exact hdeps)
    refine ⟨(Rel.of_sameCore hi hpop).trans hrel, hpp.2, hpp.1, fun _ => ?_⟩
    rw [setEntry_entry _ n n _ hcpop]
    refine ⟨{ imports := e.imports, stamp := some t, content := content, deps := deps }, by simp, ?_⟩
    unfold Entry.valid
    have hf3 : ((s2.logEv (.readFile n)).pop.setEntry n
        { imports := e.imports, stamp := some t, content := content, deps := deps }).files = s2.files := hfpop
    rw [hf3]
    simp only [ht, beq_self_eq_true, Bool.true_and, List.all_eq_true, beq_iff_eq]
    intro d hd; exact hdeps d hd

end Holpy.C12
