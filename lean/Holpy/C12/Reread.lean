import Holpy.C12.Exec2
/-
C12 — a file whose timestamp differs from the cached one is parsed again.
-/
namespace Holpy.C12

variable (W : World) (L : Lib) (U : Used)

theorem parseAll_fst (P : Item → List Item → PRes) :
    ∀ (items ctx : List Item) (c : List (Item × PRes)), parseAll P ctx items = some c → c.map (·.1) = items := by
  intro items
  induction items with
  | nil => intro ctx c h; simp [parseAll] at h; subst h; rfl
  | cons i rest ih =>
    intro ctx c h
    rw [parseAll] at h
    cases hp : P i ctx with
    | raise => rw [hp] at h; simp at h
    | ok =>
      rw [hp] at h
      simp only [] at h
      cases h1 : parseAll P (ctx ++ [i]) rest with
      | none => rw [h1] at h; simp at h
      | some c1 =>
        rw [h1] at h
        simp only [Option.map_some, Option.some.injEq] at h
        subst h
        simp [ih _ _ h1]
    | err =>
      rw [hp] at h
      simp only [] at h
      cases h1 : parseAll P ctx rest with
      | none => rw [h1] at h; simp at h
      | some c1 =>
        rw [h1] at h
        simp only [Option.map_some, Option.some.injEq] at h
        subst h
        simp [ih _ _ h1]

theorem pop_log (s : State) : s.pop.log = s.log := by
  unfold State.pop; split <;> rfl

theorem pop_files (s : State) : s.pop.files = s.files := by
  unfold State.pop; split <;> rfl

/-- the `depends` list built by the loop names every theory of `depend_list` (all transitive imports, in order) -/
theorem loopDeps_names (rec : Name → State → R) :
    ∀ (order : List Name) (s : State) (acc : List (Name × Nat)), (loopDeps W rec order s acc).1 = none →
      (loopDeps W rec order s acc).2.2.map (·.1) = acc.map (·.1) ++ order := by
  intro order
  induction order with
  | nil => intro s acc _; simp [loopDeps]
  | cons p ps ih =>
    intro s acc
    rw [loopDeps]
    rcases hr : rec p s with ⟨r1, s1⟩
    cases r1 with
    | some e => intro h; simp at h
    | none =>
      simp only []
      cases he : s1.entry p with
      | none => intro h; simp at h
      | some e =>
        simp only []
        by_cases hx : (extendList W (s1.thy.getD []) (okItems e.content)).2 = true
        · rw [if_pos hx]
          intro h
          rw [ih _ _ h]
          simp
        · rw [if_neg hx]
          intro h; simp at h

theorem ltcBody_reread {fault : Option Item} {rec : Call → State → R} (hrec : RecOk W L U fault rec) (n : Name) (e : Entry)
    {s : State} (hi : Inv W L U s) (he : s.entry n = some e) (hch : e.stamp ≠ some (s.files n).mtime)
    (hok : (ltcBody W fault rec n s).1 = none) :
    ∃ e', (ltcBody W fault rec n s).2.entry n = some e' ∧ e'.stamp = some (s.files n).mtime ∧
      e'.content.map (·.1) = (s.files n).items ∧ Event.readFile n ∈ (ltcBody W fault rec n s).2.log ∧
      L.order e.imports = some (e'.deps.map (·.1)) := by
  obtain ⟨T, hT, _⟩ := cache_of_entry he
  have hem : ensureMeta s = (none, s) := by unfold ensureMeta; simp [hT]
  have hv : e.valid s n = false := by
    unfold Entry.valid
    have : (e.stamp == some (s.files n).mtime) = false := by simpa using hch
    rw [this]; rfl
  have hbody : ltcBody W fault rec n s = ltcMiss W fault rec n e s := by
    unfold ltcBody
    rw [hem]
    simp only [he, hv, Bool.false_eq_true, if_false]
  rw [hbody] at hok ⊢
  revert hok
  unfold ltcMiss
  obtain ⟨hl1, _, _⟩ := lazyStep_post W L U hrec n hi
  rcases hls : lazyStep W rec n s with ⟨r1, s1⟩
  rw [hls] at hl1
  simp only [] at hl1
  cases r1 with
  | some e' => intro hok; simp at hok
  | none =>
    simp only []
    have hc1 : s1.cache.isSome := hl1.loaded (by rw [hT]; rfl)
    cases hord : s1.order e.imports with
    | none => intro hok; simp at hok
    | some order =>
      simp only []
      have hipush : Inv W L U s1.push := hl1.inv.of_sameCore (sameCore_push s1)
      have hloop := loopDeps_post W L U (fun p s => rec (.ltc p) s) (fun p s hs => hrec (.ltc p) s hs) order s1.push [] hipush
      have hnames := loopDeps_names W (fun p s => rec (.ltc p) s) order s1.push []
      have hordL : L.order e.imports = some order := by
        obtain ⟨T1, hT1⟩ := Option.isSome_iff_exists.mp hc1
        rw [← order_eq W L U hl1.inv hT1]; exact hord
      rcases hlp : loopDeps W (fun p s => rec (.ltc p) s) order s1.push [] with ⟨r2, s2, deps⟩
      rw [hlp] at hloop hnames
      obtain ⟨hr2, _, _⟩ := hloop
      simp only [] at hr2 hnames
      cases r2 with
      | some e' => intro hok; simp at hok
      | none =>
        simp only []
        have hdeps : deps.map (·.1) = order := by simpa using hnames rfl
        have hc2 : s2.cache.isSome := hr2.loaded hc1
        have hfiles : s2.files = s.files := hr2.files.trans hl1.files
        unfold parseStep
        simp only []
        cases hp : parseAll (W.pf fault) ((s2.logEv (.readFile n)).thy.getD []) ((s2.logEv (.readFile n)).files n).items with
        | none => intro hok; simp at hok
        | some content =>
          intro _
          simp only []
          have hcpop : (s2.logEv (.readFile n)).pop.cache.isSome := by
            rw [((sameCore_logEv s2 _).trans (sameCore_pop _)).1]; exact hc2
          refine ⟨{ imports := e.imports, stamp := some (s.files n).mtime, content := content, deps := deps }, ?_, rfl, ?_, ?_,
            by rw [hordL, hdeps]⟩
          · rw [setEntry_entry _ n n _ hcpop]; simp
          · have := parseAll_fst _ _ _ _ hp
            rw [this]
            show (s2.files n).items = _
            rw [hfiles]
          · show Event.readFile n ∈ ((s2.logEv (.readFile n)).pop.setEntry n _).log
            have : ((s2.logEv (.readFile n)).pop.setEntry n
                { imports := e.imports, stamp := some (s.files n).mtime, content := content, deps := deps }).log
                = s2.log ++ [Event.readFile n] := by
              show (s2.logEv (.readFile n)).pop.log = _
              rw [pop_log]; rfl
            rw [this]
            simp

end Holpy.C12
