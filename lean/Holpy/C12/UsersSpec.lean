import Holpy.C12.UsersIso
/-
C12 — several users, with lazy imports: every call of the multi-user loader keeps the stack of fresh_theory blocks,
and for whoever is in focus the recursive calls (`execU`) satisfy what the single-user body lemmas need — a module's
`load_theory` call either works on the focused (master) library itself or, when another user is in focus, on master's
library without touching the focused one.
-/
namespace Holpy.C12

/-! ### the block stack is restored by every call -/

def RecBl (rec : Call → State → R) : Prop := ∀ c s, (rec c s).2.blocks = s.blocks

theorem bl_loadMetadata (s : State) : (loadMetadata s).2.blocks = s.blocks := by
  unfold loadMetadata; simp only []; split <;> rfl

theorem bl_ensureMeta (s : State) : (ensureMeta s).2.blocks = s.blocks := by
  unfold ensureMeta; split
  · exact bl_loadMetadata s
  · rfl

theorem bl_loopDeps (W : World) (rec : Call → State → R) (hrec : RecBl rec) :
    ∀ order s acc, (loopDeps W (fun p s => rec (.ltc p) s) order s acc).2.1.blocks = s.blocks := by
  intro order
  induction order with
  | nil => intro s acc; rfl
  | cons p ps ih =>
    intro s acc
    rw [loopDeps]
    have h := hrec (.ltc p) s
    rcases hr : rec (.ltc p) s with ⟨r1, s1⟩
    rw [hr] at h
    cases r1 with
    | some e => exact h
    | none =>
      simp only []
      cases he : s1.entry p with
      | none => exact h
      | some e =>
        simp only []
        split
        · rw [ih]; exact h
        · exact h

theorem bl_runActs (rec : Call → State → R) (hrec : RecBl rec) : ∀ acts s, (runActs rec acts s).2.blocks = s.blocks := by
  intro acts
  induction acts with
  | nil => intro s; rfl
  | cons a as ih =>
    intro s
    cases a with
    | imp m =>
      rw [runActs]
      have h := hrec (.imp m) s
      rcases hr : rec (.imp m) s with ⟨r1, s1⟩
      rw [hr] at h
      cases r1 with
      | some e => exact h
      | none => simp only []; rw [ih]; exact h
    | load n =>
      rw [runActs]
      have h := hrec (.load n .none) s
      rcases hr : rec (.load n .none) s with ⟨r1, s1⟩
      rw [hr] at h
      cases r1 with
      | some e => exact h
      | none => simp only []; rw [ih]; exact h

theorem bl_lazyStep (W : World) (rec : Call → State → R) (hrec : RecBl rec) (n : Name) (s : State) :
    (lazyStep W rec n s).2.blocks = s.blocks := by
  unfold lazyStep
  split
  · rfl
  · rename_i m _
    simp only []
    exact (pop_push_thy s _ (hrec (.imp m) s.push)).2

theorem bl_parseStep (W : World) (fault : Option Item) (n : Name) (e : Entry) (t : Nat) (deps : List (Name × Nat))
    (s0 s2 : State) (hb : s2.blocks = s0.push.blocks) : (parseStep W fault n e t deps s2).2.blocks = s0.blocks := by
  unfold parseStep
  simp only []
  have hpp := pop_push_thy s0 (s2.logEv (.readFile n)) hb
  split
  · exact hpp.2
  · exact hpp.2

theorem bl_ltcMiss (W : World) (fault : Option Item) (rec : Call → State → R) (hrec : RecBl rec)
    (n : Name) (e : Entry) (s : State) : (ltcMiss W fault rec n e s).2.blocks = s.blocks := by
  unfold ltcMiss
  have h1 := bl_lazyStep W rec hrec n s
  rcases hl : lazyStep W rec n s with ⟨r1, s1⟩
  rw [hl] at h1
  cases r1 with
  | some e' => exact h1
  | none =>
    simp only []
    cases s1.order e.imports with
    | none => exact h1
    | some order =>
      simp only []
      have h2 := bl_loopDeps W rec hrec order s1.push []
      rcases hp : loopDeps W (fun p s => rec (.ltc p) s) order s1.push [] with ⟨r2, s2, deps⟩
      rw [hp] at h2
      cases r2 with
      | some e' => simp only []; rw [(pop_push_thy s1 s2 h2).2]; exact h1
      | none => simp only []; rw [bl_parseStep W fault n e _ deps s1 s2 h2]; exact h1

theorem bl_ltcBody (W : World) (fault : Option Item) (rec : Call → State → R) (hrec : RecBl rec)
    (n : Name) (s : State) : (ltcBody W fault rec n s).2.blocks = s.blocks := by
  unfold ltcBody
  have h1 := bl_ensureMeta s
  rcases he : ensureMeta s with ⟨r1, s1⟩
  rw [he] at h1
  cases r1 with
  | some e => exact h1
  | none =>
    simp only []
    cases s1.entry n with
    | none => exact h1
    | some e =>
      simp only []
      split
      · exact h1
      · rw [bl_ltcMiss W fault rec hrec n e s1]; exact h1

theorem bl_impBody (W : World) (rec : Call → State → R) (hrec : RecBl rec) (m : Mod) (s : State) :
    (impBody W rec m s).2.blocks = s.blocks := by
  unfold impBody
  split
  · rfl
  · simp only []
    have h := bl_runActs rec hrec (W.body m)
      (State.logEv { s with imported := fun k => if k = m then true else s.imported k } (.execMod m))
    rcases hr : runActs rec (W.body m)
      (State.logEv { s with imported := fun k => if k = m then true else s.imported k } (.execMod m)) with ⟨r1, s1⟩
    rw [hr] at h
    cases r1 with
    | some e => exact h
    | none => exact h

theorem bl_loadFinish (W : World) (n : Name) (lim : Limit) (s : State) : (loadFinish W n lim s).2.blocks = s.blocks := by
  unfold loadFinish
  split
  · rfl
  · split
    · rfl
    · simp only []
      split
      · split <;> rfl
      · rfl

theorem bl_loadBody (W : World) (rec : Call → State → R) (hrec : RecBl rec) (n : Name) (lim : Limit) (s : State) :
    (loadBody W rec n lim s).2.blocks = s.blocks := by
  unfold loadBody
  have h1 := hrec (.ltc n) s
  rcases hr : rec (.ltc n) s with ⟨r1, s1⟩
  rw [hr] at h1
  cases r1 with
  | some e => exact h1
  | none =>
    simp only []
    cases s1.entry n with
    | none => exact h1
    | some e =>
      simp only []
      cases s1.order e.imports with
      | none => exact h1
      | some order =>
        simp only []
        have h2 := bl_loopDeps W rec hrec order { s1 with thy := some [] } []
        rcases hp : loopDeps W (fun p s => rec (.ltc p) s) order { s1 with thy := some [] } [] with ⟨r2, s2, deps⟩
        rw [hp] at h2
        cases r2 with
        | some e' => simp only []; rw [h2]; exact h1
        | none => simp only []; rw [bl_loadFinish, h2]; exact h1

theorem focus_blocks (s : State) (u : Nat) : (s.focus u).blocks = s.blocks := by
  unfold State.focus; split <;> rfl

theorem bl_execU (W : World) (fault : Option Item) : ∀ f (c : CallU) (s : State), (execU W fault f c s).2.blocks = s.blocks := by
  intro f
  induction f with
  | zero => intro c s; rfl
  | succ f ih =>
    have hrec : RecBl (fun c st => execU W fault f c.toU st) := fun c s => ih _ s
    intro c s
    cases c with
    | ltc n => rw [execU]; exact bl_ltcBody W fault _ hrec n s
    | imp m => rw [execU]; exact bl_impBody W _ hrec m s
    | load u n lim =>
      rw [execU]
      simp only []
      rw [focus_blocks, bl_loadBody W _ hrec, focus_blocks]

/-! ### the recursive calls of the multi-user loader, seen from the library in focus -/

theorem focus_self (s : State) (u : Nat) (h : u = s.user) : s.focus u = s := by
  unfold State.focus; simp [h]

theorem focus_user (s : State) (u : Nat) : (s.focus u).user = u := by
  unfold State.focus; split
  · rename_i h; exact h.symm
  · rfl

theorem focus_core (s : State) (u : Nat) (h : u ≠ s.user) :
    (s.focus u).names = (s.others u).names ∧ (s.focus u).files = (s.others u).files ∧ (s.focus u).cache = (s.others u).cache := by
  unfold State.focus; rw [if_neg h]; exact ⟨rfl, rfl, rfl⟩

theorem focus_stores (s : State) (u : Nat) (h : u ≠ s.user) :
    ((s.focus u).others s.user).names = s.names ∧ ((s.focus u).others s.user).files = s.files ∧
    ((s.focus u).others s.user).cache = s.cache := by
  unfold State.focus; rw [if_neg h]; simp

variable (W : World) (L : Lib) (U : Used)

/-- Whoever is in focus: the calls the loader bodies make (`load_theory_cache` of an import, import of a module, a
    module's `basic.load_theory`) preserve the invariant of the library in focus, its files and the block stack.
    A module's load works on master: that IS the library in focus when master is in focus, and otherwise it does
    not touch the library in focus at all. -/
theorem execU_recOk (fault : Option Item) : ∀ f, RecOk W L U fault (fun c st => execU W fault f c.toU st) := by
  intro f
  induction f with
  | zero =>
    intro c s hi
    cases c with
    | ltc n => exact ⟨Rel.refl hi, rfl, rfl, fun h => by simp [Call.toU, execU] at h⟩
    | imp m => exact ⟨Rel.refl hi, rfl⟩
    | load n lim => exact ⟨Rel.refl hi, rfl⟩
  | succ f ih =>
    intro c s hi
    cases c with
    | ltc n => exact ltcBody_post W L U ih n hi
    | imp m => exact impBody_post W L U ih m hi
    | load n lim =>
      show Rel W L U s (execU W fault (f + 1) (.load 0 n lim) s).2 ∧ (execU W fault (f + 1) (.load 0 n lim) s).2.blocks = s.blocks
      refine ⟨?_, bl_execU W fault (f + 1) (.load 0 n lim) s⟩
      rw [execU]
      simp only []
      by_cases hu : 0 = s.user
      · -- master is in focus: the module's load is a load of the library in focus
        rw [focus_self s 0 hu]
        obtain ⟨h1, _, _⟩ := loadBody_post W L U ih n lim hi
        have huser : (loadBody W (fun c st => execU W fault f c.toU st) n lim s).2.user = s.user := by
          have hrec : RecFr 1 (fun c st => execU W fault f c.toU st) := by
            intro c st hst
            apply fr_execU W fault (by decide) f _ st hst
            cases c with
            | ltc n => trivial
            | imp m => trivial
            | load n lim => exact fun h => by cases h
          exact (fr_loadBody W _ hrec n lim s (by rw [← hu]; decide)).1
        rw [focus_self _ s.user huser.symm]
        exact h1
      · -- another user `w` is in focus: the load happens in master's library; the library in focus is untouched
        have hw : s.user ≠ 0 := fun h => hu h.symm
        have hrec : RecFr s.user (fun c st => execU W fault f c.toU st) := by
          intro c st hst
          apply fr_execU W fault hw f _ st hst
          cases c with
          | ltc n => trivial
          | imp m => trivial
          | load n lim => exact fun h => hw h.symm
        have h0 : (s.focus 0).user = 0 := focus_user s 0
        have hst := focus_stores s 0 hu
        have hfr := fr_loadBody W (fun c st => execU W fault f c.toU st) hrec n lim (s.focus 0) (by rw [h0]; exact fun h => hw h.symm)
        obtain ⟨hfu, hfo⟩ := hfr
        have hne : s.user ≠ (loadBody W (fun c st => execU W fault f c.toU st) n lim (s.focus 0)).2.user := by
          rw [hfu, h0]; exact hw
        have hc := focus_core (loadBody W (fun c st => execU W fault f c.toU st) n lim (s.focus 0)).2 s.user hne
        rw [hfo] at hc
        refine Rel.of_sameCore hi ⟨?_, ?_, ?_⟩
        · rw [hc.2.2, hst.2.2]
        · rw [hc.2.1, hst.2.1]
        · rw [hc.1, hst.1]

end Holpy.C12
