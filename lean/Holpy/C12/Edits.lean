import Holpy.C12.Complete
/-
C12 — histories with EDITS.  The specification of a theory depends only on the files of the theory and of its
transitive imports (`specContent_frame`), `get_import_order` returns a set closed under imports that contains the
roots (`order_good`), so a cache entry whose recorded timestamps are all current was parsed against files that
have not been replaced since — provided a replaced file gets a timestamp it never had (`okHist`).
-/
namespace Holpy.C12

/-! ### get_import_order: the result is closed under imports and stays inside every closed set -/

def Good (imps : Name → Option (List Name)) (acc : List Name) : Prop :=
  ∀ x ∈ acc, ∃ is, imps x = some is ∧ ∀ y ∈ is, y ∈ acc

theorem fold_good (imps : Name → Option (List Name)) (g : Name → List Name → Option (List Name))
    (hg : ∀ n acc acc', Good imps acc → g n acc = some acc' → Good imps acc' ∧ (∀ x ∈ acc, x ∈ acc') ∧ n ∈ acc') :
    ∀ (is : List Name) (acc acc' : List Name), Good imps acc → is.foldlM (fun a m => g m a) acc = some acc' →
      Good imps acc' ∧ (∀ x ∈ acc, x ∈ acc') ∧ ∀ y ∈ is, y ∈ acc' := by
  intro is
  induction is with
  | nil =>
    intro acc acc' hgd h
    simp only [List.foldlM_nil] at h
    cases h
    exact ⟨hgd, fun _ h => h, fun _ h => by simp at h⟩
  | cons i rest ih =>
    intro acc acc' hgd h
    simp only [List.foldlM_cons] at h
    cases h1 : g i acc with
    | none => rw [h1] at h; simp at h
    | some a1 =>
      rw [h1] at h
      simp only [Option.bind_eq_bind, Option.bind_some] at h
      obtain ⟨g1, s1, m1⟩ := hg i acc a1 hgd h1
      obtain ⟨g2, s2, m2⟩ := ih a1 acc' g1 h
      refine ⟨g2, fun x hx => s2 x (s1 x hx), ?_⟩
      intro y hy
      rcases List.mem_cons.mp hy with rfl | hy
      · exact s2 _ m1
      · exact m2 y hy

theorem dfs_good (imps : Name → Option (List Name)) :
    ∀ (f : Nat) (n : Name) (acc acc' : List Name), Good imps acc → dfs imps f n acc = some acc' →
      Good imps acc' ∧ (∀ x ∈ acc, x ∈ acc') ∧ n ∈ acc' := by
  intro f
  induction f with
  | zero => intro n acc acc' _ h; simp [dfs] at h
  | succ f ih =>
    intro n acc acc' hgd h
    rw [dfs] at h
    by_cases hn : n ∈ acc
    · simp only [hn, if_true, Option.some.injEq] at h
      subst h
      exact ⟨hgd, fun _ h => h, hn⟩
    · simp only [hn, if_false] at h
      cases hi : imps n with
      | none => rw [hi] at h; simp at h
      | some is =>
        rw [hi] at h
        simp only [] at h
        cases hf : is.foldlM (fun a m => dfs imps f m a) acc with
        | none => rw [hf] at h; simp at h
        | some a1 =>
          rw [hf] at h
          simp only [Option.some.injEq] at h
          subst h
          obtain ⟨g1, s1, m1⟩ := fold_good imps (fun m a => dfs imps f m a) (fun n acc acc' => ih n acc acc') is acc a1 hgd hf
          refine ⟨?_, fun x hx => List.mem_append_left _ (s1 x hx), by simp⟩
          intro x hx
          rcases List.mem_append.mp hx with hx | hx
          · obtain ⟨js, hj, hjs⟩ := g1 x hx
            exact ⟨js, hj, fun y hy => List.mem_append_left _ (hjs y hy)⟩
          · simp only [List.mem_singleton] at hx
            subst hx
            exact ⟨is, hi, fun y hy => List.mem_append_left _ (m1 y hy)⟩

theorem fold_sub (S : Name → Prop) (g : Name → List Name → Option (List Name))
    (hg : ∀ n acc acc', S n → (∀ x ∈ acc, S x) → g n acc = some acc' → ∀ x ∈ acc', S x) :
    ∀ (is : List Name) (acc acc' : List Name), (∀ y ∈ is, S y) → (∀ x ∈ acc, S x) →
      is.foldlM (fun a m => g m a) acc = some acc' → ∀ x ∈ acc', S x := by
  intro is
  induction is with
  | nil =>
    intro acc acc' _ ha h
    simp only [List.foldlM_nil] at h
    cases h; exact ha
  | cons i rest ih =>
    intro acc acc' hs ha h
    simp only [List.foldlM_cons] at h
    cases h1 : g i acc with
    | none => rw [h1] at h; simp at h
    | some a1 =>
      rw [h1] at h
      simp only [Option.bind_eq_bind, Option.bind_some] at h
      exact ih a1 acc' (fun y hy => hs y (List.mem_cons_of_mem _ hy))
        (hg i acc a1 (hs i (List.mem_cons_self ..)) ha h1) h

theorem dfs_sub (imps : Name → Option (List Name)) (S : Name → Prop)
    (hS : ∀ x, S x → ∀ is, imps x = some is → ∀ y ∈ is, S y) :
    ∀ (f : Nat) (n : Name) (acc acc' : List Name), S n → (∀ x ∈ acc, S x) → dfs imps f n acc = some acc' →
      ∀ x ∈ acc', S x := by
  intro f
  induction f with
  | zero => intro n acc acc' _ _ h; simp [dfs] at h
  | succ f ih =>
    intro n acc acc' hn ha h
    rw [dfs] at h
    by_cases hm : n ∈ acc
    · simp only [hm, if_true, Option.some.injEq] at h
      subst h; exact ha
    · simp only [hm, if_false] at h
      cases hi : imps n with
      | none => rw [hi] at h; simp at h
      | some is =>
        rw [hi] at h
        simp only [] at h
        cases hf : is.foldlM (fun a m => dfs imps f m a) acc with
        | none => rw [hf] at h; simp at h
        | some a1 =>
          rw [hf] at h
          simp only [Option.some.injEq] at h
          subst h
          have := fold_sub S (fun m a => dfs imps f m a) (fun n acc acc' => ih n acc acc') is acc a1 (hS n hn is hi) ha hf
          intro x hx
          rcases List.mem_append.mp hx with hx | hx
          · exact this x hx
          · simp only [List.mem_singleton] at hx
            subst hx; exact hn

theorem order_good (L : Lib) (is ord : List Name) (h : L.order is = some ord) :
    Good L.imps ord ∧ ∀ y ∈ is, y ∈ ord := by
  unfold Lib.order importOrder at h
  obtain ⟨g, _, m⟩ := fold_good L.imps (fun m a => dfs L.imps (L.names.length + 1) m a)
    (fun n acc acc' => dfs_good L.imps _ n acc acc') is [] ord (fun x hx => by simp at hx) h
  exact ⟨g, m⟩

theorem order_sub (L : Lib) (S : Name → Prop) (hS : ∀ x, S x → ∀ is, L.imps x = some is → ∀ y ∈ is, S y)
    (is ord : List Name) (h : L.order is = some ord) (hroots : ∀ y ∈ is, S y) : ∀ x ∈ ord, S x := by
  unfold Lib.order importOrder at h
  exact fold_sub S (fun m a => dfs L.imps (L.names.length + 1) m a)
    (fun n acc acc' => dfs_sub L.imps S hS _ n acc acc') is [] ord hroots (fun x hx => by simp at hx) h

/-! ### the specification of a theory reads only its own file and the files of its transitive imports -/

theorem ctxOf_congr (W : World) (f g : Name → Except Err (List (Item × PRes))) :
    ∀ (ord : List Name) (acc : List Item), (∀ p ∈ ord, f p = g p) → ctxOf W f ord acc = ctxOf W g ord acc := by
  intro ord
  induction ord with
  | nil => intro acc _; rfl
  | cons p ps ih =>
    intro acc h
    rw [ctxOf, ctxOf, h p (List.mem_cons_self ..)]
    cases g p with
    | error e => rfl
    | ok c =>
      simp only []
      split
      · exact ih _ (fun q hq => h q (List.mem_cons_of_mem _ hq))
      · rfl

theorem specContent_frame (W : World) (L L' : Lib) (hn : L'.names = L.names) (hi : L'.imports = L.imports)
    (S : Name → Prop) (hS : ∀ x, S x → ∀ is, L.imps x = some is → ∀ y ∈ is, S y)
    (hitems : ∀ x, S x → L'.items x = L.items x) :
    ∀ (k : Nat) (m : Name), S m → specContent W L' k m = specContent W L k m := by
  have himps : L'.imps = L.imps := by unfold Lib.imps; rw [hn, hi]
  have hord : ∀ is, L'.order is = L.order is := by intro is; unfold Lib.order; rw [himps, hn]
  intro k
  induction k with
  | zero => intro m _; rfl
  | succ k ih =>
    intro m hm
    rw [specContent, specContent, himps]
    cases hi' : L.imps m with
    | none => rfl
    | some is =>
      simp only [hord]
      cases ho : L.order is with
      | none => rfl
      | some ord =>
        simp only []
        have hsub := order_sub L S hS is ord ho (hS m hm is hi')
        rw [ctxOf_congr W (specContent W L' k) (specContent W L k) ord [] (fun p hp => ih p (hsub p hp)), hitems m hm]

end Holpy.C12
