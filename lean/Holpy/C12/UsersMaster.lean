import Holpy.C12.UsersHist
/-
C12 — several users, master included.  Master's library and cache are the one component that loads of OTHER users can
change (a lazily imported module calls `basic.load_theory`, which works on master).  This file threads the cache
invariant of master's library through every call of the multi-user loader, whoever is in focus (`keepM_execU`), and
through every multi-user history (`runU_inv0`).
The first part repeats the frame lemmas of UsersIso.lean for an arbitrary reflexive-transitive relation `P` between the
stored component of master before and after (instead of equality).
-/
namespace Holpy.C12

class RT (P : Comp → Comp → Prop) : Prop where
  refl : ∀ c, P c c
  trans : ∀ {a b c}, P a b → P b c → P a c

/-- the focus is the same and the stored component of master (out of focus) is related by `P` -/
def FrP (P : Comp → Comp → Prop) (s s' : State) : Prop := s'.user = s.user ∧ P (s.others 0) (s'.others 0)

variable {P : Comp → Comp → Prop} [RT P]

theorem FrP.refl (s : State) : FrP P s s := ⟨rfl, RT.refl _⟩
theorem FrP.trans {a b c : State} (h1 : FrP P a b) (h2 : FrP P b c) : FrP P a c := ⟨h2.1.trans h1.1, RT.trans h1.2 h2.2⟩
omit [RT P] in
theorem FrP.ne {s s' : State} (h : FrP P s s') (hs : s.user ≠ 0) : s'.user ≠ 0 := by rw [h.1]; exact hs

theorem frp_pop (s : State) : FrP P s s.pop := by unfold State.pop; split <;> exact ⟨rfl, RT.refl _⟩
theorem frp_push (s : State) : FrP P s s.push := ⟨rfl, RT.refl _⟩
theorem frp_setThy (s : State) (t : List Item) : FrP P s (s.setThy t) := ⟨rfl, RT.refl _⟩
theorem frp_logEv (s : State) (e : Event) : FrP P s (s.logEv e) := ⟨rfl, RT.refl _⟩
theorem frp_setEntry (s : State) (n : Name) (e : Entry) : FrP P s (s.setEntry n e) := ⟨rfl, RT.refl _⟩

theorem frp_loadMetadata (s : State) : FrP P s (loadMetadata s).2 := by
  unfold loadMetadata; simp only []; split <;> exact ⟨rfl, RT.refl _⟩

theorem frp_ensureMeta (s : State) : FrP P s (ensureMeta s).2 := by
  unfold ensureMeta; split
  · exact frp_loadMetadata s
  · exact FrP.refl s

/-- what a body may assume about its recursive calls: fine on every state whose focus is not master -/
def RecFrP (P : Comp → Comp → Prop) (rec : Call → State → R) : Prop := ∀ c s, s.user ≠ 0 → FrP P s (rec c s).2

theorem frp_loopDeps (W : World) (rec : Call → State → R) (hrec : RecFrP P rec) :
    ∀ order s acc, s.user ≠ 0 → FrP P s (loopDeps W (fun p s => rec (.ltc p) s) order s acc).2.1 := by
  intro order
  induction order with
  | nil => intro s acc _; exact FrP.refl s
  | cons p ps ih =>
    intro s acc hs
    rw [loopDeps]
    have h := hrec (.ltc p) s hs
    rcases hr : rec (.ltc p) s with ⟨r1, s1⟩
    rw [hr] at h
    cases r1 with
    | some e => exact h
    | none =>
      simp only []
      cases he : s1.entry p with
      | none => exact h
      | some e =>
        simp only []
        split
        · exact h.trans ((frp_setThy _ _).trans (ih _ _ (h.ne hs)))
        · exact h.trans (frp_setThy _ _)

theorem frp_runActs (rec : Call → State → R) (hrec : RecFrP P rec) :
    ∀ acts s, s.user ≠ 0 → FrP P s (runActs rec acts s).2 := by
  intro acts
  induction acts with
  | nil => intro s _; exact FrP.refl s
  | cons a as ih =>
    intro s hs
    cases a with
    | imp m =>
      rw [runActs]
      have h := hrec (.imp m) s hs
      rcases hr : rec (.imp m) s with ⟨r1, s1⟩
      rw [hr] at h
      cases r1 with
      | some e => exact h
      | none => exact h.trans (ih s1 (h.ne hs))
    | load n =>
      rw [runActs]
      have h := hrec (.load n .none) s hs
      rcases hr : rec (.load n .none) s with ⟨r1, s1⟩
      rw [hr] at h
      cases r1 with
      | some e => exact h
      | none => exact h.trans (ih s1 (h.ne hs))

theorem frp_lazyStep (W : World) (rec : Call → State → R) (hrec : RecFrP P rec) (n : Name) (s : State) (hs : s.user ≠ 0) :
    FrP P s (lazyStep W rec n s).2 := by
  unfold lazyStep
  split
  · exact FrP.refl s
  · rename_i m _
    simp only []
    exact (frp_push s).trans ((hrec (.imp m) s.push hs).trans (frp_pop _))

theorem frp_parseStep (W : World) (fault : Option Item) (n : Name) (e : Entry) (t : Nat) (deps : List (Name × Nat)) (s : State) :
    FrP P s (parseStep W fault n e t deps s).2 := by
  unfold parseStep
  simp only []
  split
  · exact (frp_logEv s _).trans (frp_pop _)
  · exact (frp_logEv s _).trans ((frp_pop _).trans (frp_setEntry _ _ _))

theorem frp_ltcMiss (W : World) (fault : Option Item) (rec : Call → State → R) (hrec : RecFrP P rec)
    (n : Name) (e : Entry) (s : State) (hs : s.user ≠ 0) : FrP P s (ltcMiss W fault rec n e s).2 := by
  unfold ltcMiss
  have h1 := frp_lazyStep W rec hrec n s hs
  rcases hl : lazyStep W rec n s with ⟨r1, s1⟩
  rw [hl] at h1
  cases r1 with
  | some e' => exact h1
  | none =>
    simp only []
    cases s1.order e.imports with
    | none => exact h1
    | some order =>
      simp only []
      have h2 := frp_loopDeps W rec hrec order s1.push [] (h1.ne hs)
      rcases hp : loopDeps W (fun p s => rec (.ltc p) s) order s1.push [] with ⟨r2, s2, deps⟩
      rw [hp] at h2
      cases r2 with
      | some e' => exact h1.trans ((frp_push s1).trans (h2.trans (frp_pop _)))
      | none => exact h1.trans ((frp_push s1).trans (h2.trans (frp_parseStep W fault n e _ deps s2)))

theorem frp_ltcBody (W : World) (fault : Option Item) (rec : Call → State → R) (hrec : RecFrP P rec)
    (n : Name) (s : State) (hs : s.user ≠ 0) : FrP P s (ltcBody W fault rec n s).2 := by
  unfold ltcBody
  have h1 : FrP P s (ensureMeta s).2 := frp_ensureMeta s
  rcases he : ensureMeta s with ⟨r1, s1⟩
  rw [he] at h1
  cases r1 with
  | some e => exact h1
  | none =>
    simp only []
    cases s1.entry n with
    | none => exact h1
    | some e =>
      simp only []
      split
      · exact h1
      · exact h1.trans (frp_ltcMiss W fault rec hrec n e s1 (h1.ne hs))

theorem frp_impBody (W : World) (rec : Call → State → R) (hrec : RecFrP P rec) (m : Mod) (s : State) (hs : s.user ≠ 0) :
    FrP P s (impBody W rec m s).2 := by
  unfold impBody
  split
  · exact FrP.refl s
  · simp only []
    have h := frp_runActs rec hrec (W.body m)
      (State.logEv { s with imported := fun k => if k = m then true else s.imported k } (.execMod m)) hs
    rcases hr : runActs rec (W.body m)
      (State.logEv { s with imported := fun k => if k = m then true else s.imported k } (.execMod m)) with ⟨r1, s1⟩
    rw [hr] at h
    cases r1 with
    | some e => exact ⟨h.1, h.2⟩
    | none => exact ⟨h.1, h.2⟩

theorem frp_loadFinish (W : World) (n : Name) (lim : Limit) (s : State) : FrP P s (loadFinish W n lim s).2 := by
  unfold loadFinish
  split
  · exact FrP.refl s
  · split
    · exact FrP.refl s
    · simp only []
      split
      · split <;> exact ⟨rfl, RT.refl _⟩
      · exact ⟨rfl, RT.refl _⟩

theorem frp_loadBody (W : World) (rec : Call → State → R) (hrec : RecFrP P rec) (n : Name) (lim : Limit) (s : State)
    (hs : s.user ≠ 0) : FrP P s (loadBody W rec n lim s).2 := by
  unfold loadBody
  have h1 := hrec (.ltc n) s hs
  rcases hr : rec (.ltc n) s with ⟨r1, s1⟩
  rw [hr] at h1
  cases r1 with
  | some e => exact h1
  | none =>
    simp only []
    cases s1.entry n with
    | none => exact h1
    | some e =>
      simp only []
      cases s1.order e.imports with
      | none => exact h1
      | some order =>
        simp only []
        have h2 := frp_loopDeps W rec hrec order { s1 with thy := some [] } [] (h1.ne hs)
        rcases hp : loopDeps W (fun p s => rec (.ltc p) s) order { s1 with thy := some [] } [] with ⟨r2, s2, deps⟩
        rw [hp] at h2
        have h12 : FrP P s s2 := h1.trans (FrP.trans ⟨rfl, RT.refl _⟩ h2)
        cases r2 with
        | some e' => exact h12
        | none => exact h12.trans (frp_loadFinish W n lim s2)

/-! ### master's invariant through every call -/

/-- a stored component seen as a state (only names, files and cache matter for `Inv`) -/
def Comp.st (c : Comp) : State :=
  { names := c.names, files := c.files, cache := c.cache, thy := none, blocks := [], imported := fun _ => false, log := [] }

theorem inv_of_core3 {W : World} {L : Lib} {U : Used} {s s' : State} (hn : s'.names = s.names) (hf : s'.files = s.files)
    (hc : s'.cache = s.cache) (hi : Inv W L U s) : Inv W L U s' := hi.of_sameCore ⟨hc, hf, hn⟩

/-- the relation kept for master's stored component: if it satisfied the invariant it still does, same files -/
def MP (W : World) (L : Lib) (U : Used) (c c' : Comp) : Prop :=
  Inv W L U c.st → Inv W L U c'.st ∧ c'.files = c.files ∧ c'.names = c.names

instance (W : World) (L : Lib) (U : Used) : RT (MP W L U) where
  refl := fun _ h => ⟨h, rfl, rfl⟩
  trans := fun h1 h2 h =>
    ⟨(h2 (h1 h).1).1, (h2 (h1 h).1).2.1.trans (h1 h).2.1, (h2 (h1 h).1).2.2.trans (h1 h).2.2⟩

variable (W : World) (L : Lib) (U : Used)

theorem execU_user0 (fault : Option Item) (f : Nat) (c : Call) (s : State) (hs : s.user = 0) :
    (execU W fault f c.toU s).2.user = 0 := by
  have := (fr_execU (A := 1) W fault (by decide) f c.toU s (by rw [hs]; decide) (by cases c <;> simp [Call.toU, CallU.avoids])).1
  rw [this, hs]

/-- a load in master's own focus keeps master in focus -/
theorem loadBody_user0 (fault : Option Item) (f : Nat) (n : Name) (lim : Limit) (s : State) (hs : s.user = 0) :
    (loadBody W (fun c st => execU W fault f c.toU st) n lim s).2.user = 0 := by
  have hrec : RecFr 1 (fun c st => execU W fault f c.toU st) := by
    intro c st hst
    apply fr_execU W fault (by decide) f _ st hst
    cases c <;> simp [Call.toU, CallU.avoids]
  rw [(fr_loadBody W _ hrec n lim s (by rw [hs]; decide)).1, hs]

/-- Another user `w ≠ master` is in focus: every call of the loader (with the lazily imported modules and the master
    loads they make) keeps the invariant of master's stored library and cache, and master's files. -/
theorem keepM_other (fault : Option Item) :
    ∀ f (c : CallU) (s : State), s.user ≠ 0 → FrP (MP W L U) s (execU W fault f c s).2 := by
  intro f
  induction f with
  | zero => intro c s _; exact FrP.refl s
  | succ f ih =>
    have hrec : RecFrP (MP W L U) (fun c st => execU W fault f c.toU st) := fun c s hs => ih _ s hs
    intro c s hs
    cases c with
    | ltc n => rw [execU]; exact frp_ltcBody W fault _ hrec n s hs
    | imp m => rw [execU]; exact frp_impBody W _ hrec m s hs
    | load v n lim =>
      rw [execU]
      simp only []
      by_cases hv : v = 0
      · -- a load for master from the focus of `w`: master comes into focus, is loaded, goes back
        subst hv
        have h0 : 0 ≠ s.user := fun h => hs h.symm
        have hc := focus_core s 0 h0
        have hu1 : (s.focus 0).user = 0 := focus_user s 0
        have hu2 := loadBody_user0 W fault f n lim (s.focus 0) hu1
        have hne : s.user ≠ (loadBody W (fun c st => execU W fault f c.toU st) n lim (s.focus 0)).2.user := by
          rw [hu2]; exact hs
        have hst := focus_stores (loadBody W (fun c st => execU W fault f c.toU st) n lim (s.focus 0)).2 s.user hne
        rw [hu2] at hst
        refine ⟨focus_user _ _, fun hi => ?_⟩
        have hi1 : Inv W L U (s.focus 0) := inv_of_core3 hc.1 hc.2.1 hc.2.2 hi
        have hrel := (loadBody_post W L U (execU_recOk W L U fault f) n lim hi1).1
        exact ⟨inv_of_core3 hst.1 hst.2.1 hst.2.2 hrel.inv, hst.2.1.trans (hrel.files.trans hc.2.1),
          hst.1.trans (hrel.names.trans hc.1)⟩
      · obtain ⟨hf1, hf2⟩ := fr_focus (A := 0) s v hv hs
        have hb := frp_loadBody W (fun c st => execU W fault f c.toU st) hrec n lim (s.focus v) (by rw [hf1]; exact hv)
        have hu2 : (loadBody W (fun c st => execU W fault f c.toU st) n lim (s.focus v)).2.user ≠ 0 := by
          rw [hb.1, hf1]; exact hv
        obtain ⟨hg1, hg2⟩ := fr_focus (A := 0) (loadBody W (fun c st => execU W fault f c.toU st) n lim (s.focus v)).2 s.user hs hu2
        refine ⟨hg1, ?_⟩
        rw [hg2, ← hf2]; exact hb.2

/-- Master is in focus (between the public entry points): EVERY call — a load for any user, an import — keeps the
    invariant of master's library and cache, master's files, and the focus. -/
theorem keepM_execU (fault : Option Item) (f : Nat) (c : CallU) (s : State) (hs : s.user = 0) (hi : Inv W L U s) :
    Inv W L U (execU W fault f c s).2 ∧ (execU W fault f c s).2.files = s.files ∧ (execU W fault f c s).2.names = s.names ∧
      (execU W fault f c s).2.user = 0 := by
  cases f with
  | zero => exact ⟨hi, rfl, rfl, hs⟩
  | succ f =>
    have key : ∀ c' : Call, Inv W L U (execU W fault (f + 1) c'.toU s).2 ∧ (execU W fault (f + 1) c'.toU s).2.files = s.files ∧
        (execU W fault (f + 1) c'.toU s).2.names = s.names ∧ (execU W fault (f + 1) c'.toU s).2.user = 0 := by
      intro c'
      have hu := execU_user0 W fault (f + 1) c' s hs
      have hp := execU_recOk W L U fault (f + 1) c' s hi
      cases c' with
      | ltc n => exact ⟨hp.1.inv, hp.1.files, hp.1.names, hu⟩
      | imp m => exact ⟨hp.1.inv, hp.1.files, hp.1.names, hu⟩
      | load n lim => exact ⟨hp.1.inv, hp.1.files, hp.1.names, hu⟩
    cases c with
    | ltc n => exact key (.ltc n)
    | imp m => exact key (.imp m)
    | load v n lim =>
      by_cases hv : v = 0
      · subst hv; exact key (.load n lim)
      · have hvs : v ≠ s.user := by rw [hs]; exact hv
        have hst := focus_stores s v hvs
        rw [hs] at hst
        have hu1 : (s.focus v).user = v := focus_user s v
        have hb := frp_loadBody W (fun c st => execU W fault f c.toU st)
          (fun c st hst' => keepM_other W L U fault f c.toU st hst') n lim (s.focus v) (by rw [hu1]; exact hv)
        have hi1 : Inv W L U ((s.focus v).others 0).st := inv_of_core3 hst.1 hst.2.1 hst.2.2 hi
        obtain ⟨hi2, hf2, hn2⟩ := hb.2 hi1
        have hne : s.user ≠ (loadBody W (fun c st => execU W fault f c.toU st) n lim (s.focus v)).2.user := by
          rw [hb.1, hu1, hs]; exact fun h => hv h.symm
        have hc := focus_core (loadBody W (fun c st => execU W fault f c.toU st) n lim (s.focus v)).2 s.user hne
        have he : (execU W fault (f + 1) (.load v n lim) s).2 = (loadBody W (fun c st => execU W fault f c.toU st) n lim (s.focus v)).2.focus s.user := by
          rw [execU]
        rw [hs] at hc he
        rw [he]
        exact ⟨inv_of_core3 hc.1 hc.2.1 hc.2.2 hi2, hc.2.1.trans (hf2.trans hst.2.1), hc.1.trans (hn2.trans hst.1), focus_user _ _⟩

/-! ### histories, for every user (master included) -/

/-- The hypothesis on a multi-user history for user `u`, MASTER INCLUDED.  As `okHistU`: the operations on u's own files
    give them timestamps they never had, and no load for `u` happens between an edit that changes the imports of one of
    u's files and `load_metadata(u)`.  For master (`u = 0`) "a load for `u`" includes the loads of every other user and the
    module imports, because their lazily imported modules call `basic.load_theory` on master. -/
def okHistA (W : World) (fuel : Nat) (u : Nat) : List OpU → State → Used → Bool → Prop
  | [], _, _, stale => stale = false
  | .load v n lim fault :: ops, s, U, stale =>
    ((v = u ∨ u = 0) → stale = false) ∧ okHistA W fuel u ops (stepU W fuel (.load v n lim fault) s).2 U stale
  | .imp m :: ops, s, U, stale => (u = 0 → stale = false) ∧ okHistA W fuel u ops (stepU W fuel (.imp m) s).2 U stale
  | .touch v n t :: ops, s, U, stale =>
    (v = u → t ∉ U n) ∧ okHistA W fuel u ops (stepU W fuel (.touch v n t) s).2 (if v = u then bump U n t else U) stale
  | .edit v n imps items t :: ops, s, U, stale =>
    (v = u → t ∉ U n) ∧ okHistA W fuel u ops (stepU W fuel (.edit v n imps items t) s).2 (if v = u then bump U n t else U)
      (if v = u then (stale || decide (imps ≠ ((s.focus u).files n).imports)) else stale)
  | .reloadMeta v :: ops, s, U, stale =>
    okHistA W fuel u ops (stepU W fuel (.reloadMeta v) s).2 U (if v = u then false else stale)

omit L U in
/-- for a non-master user it is the hypothesis of UsersHist.lean -/
theorem okHistA_okHistU (fuel : Nat) (u : Nat) (hu : u ≠ 0) :
    ∀ (ops : List OpU) (s : State) (U : Used) (stale : Bool), okHistA W fuel u ops s U stale → okHistU W fuel u ops s U stale := by
  intro ops
  induction ops with
  | nil => intro s U stale h; exact h
  | cons op ops ih =>
    intro s U stale h
    cases op with
    | load v n lim fault => exact ⟨fun hv => h.1 (Or.inl hv), ih _ _ _ h.2⟩
    | imp m => exact ih _ _ _ h.2
    | touch v n t => exact ⟨h.1, ih _ _ _ h.2⟩
    | edit v n imps items t => exact ⟨h.1, ih _ _ _ h.2⟩
    | reloadMeta v => exact ih _ _ _ h

/-- what is maintained for master along a multi-user history (the caller's focus is master) -/
def J0 (W : World) (s : State) (U : Used) (stale : Bool) : Prop :=
  s.user = 0 ∧ (stale = false → Inv W s.lib U s) ∧ ∀ k, (s.files k).mtime ∈ U k

omit L U in
theorem J0.transfer {s s' : State} {U : Used} {stale : Bool} (h : J0 W s U stale) (hus : s'.user = 0) (hc : SameCore s s') :
    J0 W s' U stale := by
  refine ⟨hus, fun hst => ?_, fun k => by rw [hc.2.1]; exact h.2.2 k⟩
  rw [lib_congr hc.2.1 hc.2.2]
  exact (h.2.1 hst).of_sameCore hc

/-- work on the files / metadata of another user `v` leaves master (in the caller's focus) as it was -/
theorem other_user_core (s x : State) (v : Nat) (hs : s.user = 0) (hv : v ≠ 0) (hxu : x.user = v)
    (hxo : x.others 0 = (s.focus v).others 0) : SameCore s (x.focus 0) ∧ (x.focus 0).user = 0 := by
  have hst := focus_stores s v (by rw [hs]; exact hv)
  rw [hs] at hst
  have hc := focus_core x 0 (by rw [hxu]; exact fun h => hv h.symm)
  rw [hxo] at hc
  exact ⟨⟨hc.2.2.trans hst.2.2, hc.2.1.trans hst.2.1, hc.1.trans hst.1⟩, focus_user _ _⟩

omit L U in
theorem runU_inv0 (fuel : Nat) :
    ∀ (ops : List OpU) (s : State) (U : Used) (stale : Bool), J0 W s U stale → okHistA W fuel 0 ops s U stale →
      ∃ U', J0 W (runU W fuel ops s) U' false := by
  intro ops
  induction ops with
  | nil => intro s U stale hj hok; exact ⟨U, by rw [show stale = false from hok] at hj; exact hj⟩
  | cons op ops ih =>
    intro s U stale hj hok
    rw [runU]
    have hs0 : s.user = 0 := hj.1
    have hself : s.focus 0 = s := focus_self s 0 hs0.symm
    cases op with
    | load v n lim fault =>
      obtain ⟨hst, hok'⟩ := hok
      have hst := hst (Or.inr rfl)
      obtain ⟨h1, h2, h3, h4⟩ := keepM_execU W s.lib U fault fuel (.load v n lim) s hs0 (hj.2.1 hst)
      refine ih _ U stale ⟨h4, fun _ => ?_, fun k => ?_⟩ hok'
      · rw [show (stepU W fuel (.load v n lim fault) s).2.lib = s.lib from lib_congr h2 h3]; exact h1
      · rw [show (stepU W fuel (.load v n lim fault) s).2.files = s.files from h2]; exact hj.2.2 k
    | imp m =>
      obtain ⟨hst, hok'⟩ := hok
      have hst := hst rfl
      obtain ⟨h1, h2, h3, h4⟩ := keepM_execU W s.lib U none fuel (.imp m) s hs0 (hj.2.1 hst)
      refine ih _ U stale ⟨h4, fun _ => ?_, fun k => ?_⟩ hok'
      · rw [show (stepU W fuel (.imp m) s).2.lib = s.lib from lib_congr h2 h3]; exact h1
      · rw [show (stepU W fuel (.imp m) s).2.files = s.files from h2]; exact hj.2.2 k
    | touch v n t =>
      obtain ⟨hfresh, hok'⟩ := hok
      by_cases hv : v = 0
      · subst hv
        simp only [if_true] at hok'
        have hstep : (stepU W fuel (.touch 0 n t) s).2 = setFile s n { s.files n with mtime := t } := by
          show (setFile (s.focus 0) n { (s.focus 0).files n with mtime := t }).focus s.user = _
          rw [hself]; exact focus_self _ _ rfl
        rw [hstep] at hok' ⊢
        refine ih _ (bump U n t) stale ⟨hs0, fun hst => ?_, mtimes_setFile U s hj.2.2 n _⟩ hok'
        exact setFile_inv W U s (hj.2.1 hst) n { s.files n with mtime := t } rfl (hfresh rfl)
      · simp only [hv, if_false] at hok'
        have hstep : (stepU W fuel (.touch v n t) s).2 = (setFile (s.focus v) n { (s.focus v).files n with mtime := t }).focus 0 := by
          show (setFile (s.focus v) n { (s.focus v).files n with mtime := t }).focus s.user = _; rw [hs0]
        obtain ⟨h1, h2⟩ := other_user_core s (setFile (s.focus v) n { (s.focus v).files n with mtime := t }) v hs0 hv (focus_user s v) rfl
        rw [← hstep] at h1 h2
        exact ih _ U stale (hj.transfer W h2 h1) hok'
    | edit v n imps items t =>
      obtain ⟨hfresh, hok'⟩ := hok
      by_cases hv : v = 0
      · subst hv
        simp only [if_true] at hok'
        rw [hself] at hok'
        have hstep : (stepU W fuel (.edit 0 n imps items t) s).2 = setFile s n { imports := imps, items := items, mtime := t } := by
          show (setFile (s.focus 0) n { imports := imps, items := items, mtime := t }).focus s.user = _
          rw [hself]; exact focus_self _ _ rfl
        rw [hstep] at hok' ⊢
        refine ih _ (bump U n t) _ ⟨hs0, fun hst => ?_, mtimes_setFile U s hj.2.2 n _⟩ hok'
        simp only [Bool.or_eq_false_iff, decide_eq_false_iff_not, ne_eq, Decidable.not_not] at hst
        exact setFile_inv W U s (hj.2.1 hst.1) n { imports := imps, items := items, mtime := t } hst.2 (hfresh rfl)
      · simp only [hv, if_false] at hok'
        have hstep : (stepU W fuel (.edit v n imps items t) s).2 = (setFile (s.focus v) n { imports := imps, items := items, mtime := t }).focus 0 := by
          show (setFile (s.focus v) n { imports := imps, items := items, mtime := t }).focus s.user = _; rw [hs0]
        obtain ⟨h1, h2⟩ := other_user_core s (setFile (s.focus v) n { imports := imps, items := items, mtime := t }) v hs0 hv (focus_user s v) rfl
        rw [← hstep] at h1 h2
        exact ih _ U stale (hj.transfer W h2 h1) hok'
    | reloadMeta v =>
      rw [okHistA] at hok
      by_cases hv : v = 0
      · subst hv
        simp only [↓reduceIte] at hok
        have hm := loadMetadata_inv W s.lib U (filesOk_lib s) hj.2.2
        have hu : (loadMetadata s).2.user = s.user := (fr_loadMetadata (A := 0) s).1
        have hstep : (stepU W fuel (.reloadMeta 0) s).2 = (loadMetadata s).2 := by
          show (loadMetadata (s.focus 0)).2.focus s.user = _
          rw [hself]; exact focus_self _ _ hu.symm
        rw [hstep] at hok ⊢
        refine ih _ U false ⟨hu.trans hs0, fun _ => ?_, fun k => ?_⟩ hok
        · rw [lib_congr hm.2.1 hm.2.2.1]; exact hm.1
        · rw [hm.2.1]; exact hj.2.2 k
      · simp only [hv, if_false] at hok
        have hfr : Fr 0 (s.focus v) (loadMetadata (s.focus v)).2 := fr_loadMetadata _
        have hstep : (stepU W fuel (.reloadMeta v) s).2 = (loadMetadata (s.focus v)).2.focus 0 := by
          show (loadMetadata (s.focus v)).2.focus s.user = _; rw [hs0]
        obtain ⟨h1, h2⟩ := other_user_core s (loadMetadata (s.focus v)).2 v hs0 hv (hfr.1.trans (focus_user s v)) hfr.2
        rw [← hstep] at h1 h2
        exact ih _ U stale (hj.transfer W h2 h1) hok

end Holpy.C12
