import Holpy.C12.Edits
/-
C12 — histories of loads, interrupted loads, module imports, touches, EDITS and metadata reloads.

`okHist` is the explicit hypothesis of the theorems:
* every `touch` / `edit` gives the file a timestamp it never had before ("a changed file gets a different
  timestamp": what the loader's cache relies on; older timestamps are allowed as long as they are new);
* after an edit that changes the `imports` of a file no load happens before `basic.load_metadata()` (the known
  finding `stale_imports_counterexample`).
-/
namespace Holpy.C12

def bump (U : Used) (n : Name) (t : Nat) : Used := fun k => if k = n then t :: U k else U k

theorem mem_bump {U : Used} {n k : Name} {t x : Nat} (h : x ∈ U k) : x ∈ bump U n t k := by
  unfold bump
  by_cases hk : k = n
  · simp only [hk, if_true]; rw [hk] at h; exact List.mem_cons_of_mem _ h
  · simp only [hk, if_false]; exact h

theorem lib_congr {s s' : State} (hf : s'.files = s.files) (hn : s'.names = s.names) : s'.lib = s.lib := by
  unfold State.lib; rw [hf, hn]

theorem filesOk_lib (s : State) : FilesOk s.lib s := ⟨rfl, fun _ => ⟨rfl, rfl⟩⟩

/-- replacing the file of `n` (same imports, a timestamp it never had) keeps the invariant, now about the new library -/
theorem setFile_inv (W : World) (U : Used) (s : State) (hi : Inv W s.lib U s) (n : Name) (f : File)
    (himp : f.imports = (s.files n).imports) (ht : f.mtime ∉ U n) :
    Inv W (setFile s n f).lib (bump U n f.mtime) (setFile s n f) := by
  have hnames : (setFile s n f).lib.names = s.lib.names := rfl
  have himports : (setFile s n f).lib.imports = s.lib.imports := by
    funext k
    show ((setFile s n f).files k).imports = (s.files k).imports
    unfold setFile
    by_cases hk : k = n
    · subst hk; simp [himp]
    · simp [hk]
  have himps : (setFile s n f).lib.imps = s.lib.imps := by unfold Lib.imps; rw [hnames, himports]
  have hordeq : ∀ is, (setFile s n f).lib.order is = s.lib.order is := by
    intro is; unfold Lib.order; rw [himps, hnames]
  have hmt : ∀ k, k ≠ n → ((setFile s n f).files k).mtime = (s.files k).mtime := by
    intro k hk; unfold setFile; simp [hk]
  have hmtn : ((setFile s n f).files n).mtime = f.mtime := by unfold setFile; simp
  refine ⟨filesOk_lib _, ?_, ?_⟩
  · intro T hT
    have hT' : s.cache = some T := hT
    obtain ⟨h1, h2, h3, h4, h5⟩ := hi.2.1 T hT'
    refine ⟨by rw [himps]; exact h1, fun m => by rw [himps]; exact h2 m, ?_, fun m e he hs => by rw [hordeq]; exact h4 m e he hs, ?_⟩
    · intro m e he hv
      have hst := valid_stamp hv
      have hvall : ∀ d ∈ e.deps, ((setFile s n f).files d.1).mtime = d.2 := by
        unfold Entry.valid at hv
        simp only [Bool.and_eq_true, List.all_eq_true, beq_iff_eq] at hv
        exact hv.2
      by_cases hmn : m = n
      · subst hmn
        rw [hmtn] at hst
        exact absurd ((h5 m e he).1 _ hst) ht
      · by_cases hdn : ∃ d ∈ e.deps, d.1 = n
        · obtain ⟨d, hd, hdn'⟩ := hdn
          have := hvall d hd
          rw [hdn', hmtn] at this
          have hu := (h5 m e he).2 d hd
          rw [hdn', ← this] at hu
          exact absurd hu ht
        · have hdn' : ∀ d ∈ e.deps, d.1 ≠ n := fun d hd hx => hdn ⟨d, hd, hx⟩
          -- the entry was reusable before the file of `n` was replaced
          have hvold : e.valid s m = true := by
            unfold Entry.valid
            rw [hmt m hmn] at hst
            simp only [hst, beq_self_eq_true, Bool.true_and, List.all_eq_true, beq_iff_eq]
            intro d hd
            rw [← hmt d.1 (hdn' d hd)]; exact hvall d hd
          have hold := h3 m e he hvold
          -- and its specification does not read the file of `n`
          have hord := h4 m e he (by rw [hst]; rfl)
          obtain ⟨hgood, hroots⟩ := order_good s.lib e.imports _ hord
          have hem : s.lib.imps m = some e.imports := by rw [← h2 m, he]; rfl
          have hframe : ∀ k, specContent W (setFile s n f).lib k m = specContent W s.lib k m := by
            intro k
            refine specContent_frame W s.lib (setFile s n f).lib hnames himports
              (fun x => x = m ∨ x ∈ e.deps.map (·.1)) ?_ ?_ k m (Or.inl rfl)
            · intro x hx is his y hy
              rcases hx with rfl | hx
              · rw [hem] at his; cases his
                exact Or.inr (hroots y hy)
              · obtain ⟨js, hj, hjs⟩ := hgood x hx
                rw [hj] at his; cases his
                exact Or.inr (hjs y hy)
            · intro x hx
              have hxn : x ≠ n := by
                rcases hx with rfl | hx
                · exact hmn
                · obtain ⟨d, hd, rfl⟩ := List.mem_map.mp hx
                  exact hdn' d hd
              show ((setFile s n f).files x).items = (s.files x).items
              unfold setFile; simp [hxn]
          intro k hk
          rw [hframe k] at hk ⊢
          exact hold k hk
    · intro m e he
      obtain ⟨ha, hb⟩ := h5 m e he
      exact ⟨fun t hst => mem_bump (ha t hst), fun d hd => mem_bump (hb d hd)⟩
  · intro k
    unfold bump
    by_cases hk : k = n
    · subst hk; simp [hmtn]
    · simp only [hk, if_false]; rw [hmt k hk]; exact hi.2.2 k

theorem mtimes_setFile (U : Used) (s : State) (hu : ∀ k, (s.files k).mtime ∈ U k) (n : Name) (f : File) :
    ∀ k, ((setFile s n f).files k).mtime ∈ bump U n f.mtime k := by
  intro k
  unfold bump setFile
  by_cases hk : k = n
  · subst hk; simp
  · simp only [hk, if_false]; exact hu k

/-- The hypothesis on histories (see the header).  `stale`: an edit changed the imports of a file and
    `load_metadata` has not been called since. -/
def okHist (W : World) (fuel : Nat) : List Op → State → Used → Bool → Prop
  | [], _, _, stale => stale = false
  | .load n lim fault :: ops, s, U, stale =>
    stale = false ∧ okHist W fuel ops (step W fuel (.load n lim fault) s).2 U false
  | .imp m :: ops, s, U, stale => stale = false ∧ okHist W fuel ops (step W fuel (.imp m) s).2 U false
  | .touch n t :: ops, s, U, stale => t ∉ U n ∧ okHist W fuel ops (step W fuel (.touch n t) s).2 (bump U n t) stale
  | .edit n imps items t :: ops, s, U, stale =>
    t ∉ U n ∧ okHist W fuel ops (step W fuel (.edit n imps items t) s).2 (bump U n t)
      (stale || decide (imps ≠ (s.files n).imports))
  | .reloadMeta :: ops, s, U, _ => okHist W fuel ops (step W fuel .reloadMeta s).2 U false

/-- the timestamps of a fresh process -/
def used0 (files : Name → File) : Used := fun n => [(files n).mtime]

theorem run_inv (W : World) (fuel : Nat) :
    ∀ (ops : List Op) (s : State) (U : Used) (stale : Bool),
      (stale = false → Inv W s.lib U s) → (∀ k, (s.files k).mtime ∈ U k) → okHist W fuel ops s U stale →
      ∃ U', Inv W (run W fuel ops s).lib U' (run W fuel ops s) := by
  intro ops
  induction ops with
  | nil =>
    intro s U stale hi _ hok
    exact ⟨U, hi hok⟩
  | cons op ops ih =>
    intro s U stale hi hu hok
    rw [run]
    cases op with
    | load n lim fault =>
      obtain ⟨hst, hok'⟩ := hok
      have hrel := (exec_post W s.lib U fault fuel (.load n lim) s (hi hst)).1
      have hl : (step W fuel (.load n lim fault) s).2.lib = s.lib := lib_congr hrel.files hrel.names
      refine ih _ U false (fun _ => by rw [hl]; exact hrel.inv) (fun k => ?_) hok'
      have : (step W fuel (.load n lim fault) s).2.files = s.files := hrel.files
      rw [this]; exact hu k
    | imp m =>
      obtain ⟨hst, hok'⟩ := hok
      have hrel := (exec_post W s.lib U none fuel (.imp m) s (hi hst)).1
      have hl : (step W fuel (.imp m) s).2.lib = s.lib := lib_congr hrel.files hrel.names
      refine ih _ U false (fun _ => by rw [hl]; exact hrel.inv) (fun k => ?_) hok'
      have : (step W fuel (.imp m) s).2.files = s.files := hrel.files
      rw [this]; exact hu k
    | touch n t =>
      obtain ⟨hfresh, hok'⟩ := hok
      refine ih _ (bump U n t) stale (fun hst => ?_) (mtimes_setFile U s hu n _) hok'
      exact setFile_inv W U s (hi hst) n { s.files n with mtime := t } rfl hfresh
    | edit n imps items t =>
      obtain ⟨hfresh, hok'⟩ := hok
      refine ih _ (bump U n t) _ (fun hst => ?_) (mtimes_setFile U s hu n _) hok'
      simp only [Bool.or_eq_false_iff, decide_eq_false_iff_not, ne_eq, Decidable.not_not] at hst
      exact setFile_inv W U s (hi hst.1) n { imports := imps, items := items, mtime := t } hst.2 hfresh
    | reloadMeta =>
      have h := loadMetadata_inv W s.lib U (filesOk_lib s) hu
      have hl : (step W fuel .reloadMeta s).2.lib = s.lib := lib_congr h.2.1 h.2.2.1
      refine ih _ U false (fun _ => by rw [hl]; exact h.1) (fun k => ?_) hok
      have : (step W fuel .reloadMeta s).2.files = s.files := h.2.1
      rw [this]; exact hu k

theorem run_snoc (W : World) (fuel : Nat) : ∀ (ops : List Op) (s : State) (op : Op),
    run W fuel (ops ++ [op]) s = (step W fuel op (run W fuel ops s)).2 := by
  intro ops
  induction ops with
  | nil => intro s op; rfl
  | cons o os ih => intro s op; simp only [List.cons_append, run]; exact ih _ op

theorem okHist_snoc_load' (W : World) (fuel : Nat) : ∀ (ops : List Op) (s : State) (U : Used) (stale : Bool),
    okHist W fuel ops s U stale → ∀ n lim fault, okHist W fuel (ops ++ [.load n lim fault]) s U stale := by
  intro ops
  induction ops with
  | nil => intro s U stale h n lim fault; exact ⟨h, rfl⟩
  | cons o os ih =>
    intro s U stale h n lim fault
    cases o with
    | load a b c => exact ⟨h.1, ih _ _ _ h.2 n lim fault⟩
    | imp m => exact ⟨h.1, ih _ _ _ h.2 n lim fault⟩
    | touch a t => exact ⟨h.1, ih _ _ _ h.2 n lim fault⟩
    | edit a b c t => exact ⟨h.1, ih _ _ _ h.2 n lim fault⟩
    | reloadMeta => exact ih _ _ _ h n lim fault

theorem okHist_snoc_load (W : World) (fuel : Nat) (ops : List Op) (s : State) (U : Used) (stale : Bool)
    (h : okHist W fuel ops s U stale) (n : Name) (lim : Limit) (fault : Option Item) :
    okHist W fuel (ops ++ [.load n lim fault]) s U stale := okHist_snoc_load' W fuel ops s U stale h n lim fault

theorem init_inv (W : World) (names : List Name) (files : Name → File) :
    Inv W (initState names files).lib (used0 files) (initState names files) := by
  refine ⟨filesOk_lib _, ?_, fun k => by simp [used0, initState]⟩
  intro T hT
  simp [initState] at hT

theorem hist_inv (W : World) (names : List Name) (files : Name → File) (fuel : Nat) (h : List Op)
    (hok : okHist W fuel h (initState names files) (used0 files) false) :
    ∃ U, Inv W (run W fuel h (initState names files)).lib U (run W fuel h (initState names files)) :=
  run_inv W fuel h _ (used0 files) false (fun _ => init_inv W names files) (fun k => by simp [used0, initState]) hok

end Holpy.C12
