import Holpy.Common.Sexp
import Holpy.C12.Model
/-
Line protocol of the C12 model (one s-expression in, one out):
  (run FUEL NAMES FILES LAZY MODS PARSE EXT OPS) -> (((RES (EV ...) THY) ...) THY)   one (RES EVs THY-after-the-op) per op
  (runu FUEL NAMES FILES LAZY MODS PARSE EXT USERS OPSU) -> like run; USERS = ((u NAMES FILES) ...) the libraries of the users
      other than master (0); OPSU = (load u n LIM FAULT) | (imp m) | (touch u n t) | (edit u n (import ...) (item ...) t) | (reload u)
  (spec K NAMES FILES LAZY MODS PARSE EXT n LIM) -> (ok (item ...)) | (error KIND)
NAMES = (n ...)                     directory listing
FILES = ((n (import ...) (item ...) mtime) ...)
LAZY  = ((n m) ...)                 `if filename == n: import m`
MODS  = ((m (ACT ...)) ...)         ACT = (imp m) | (load n)
PARSE = ((item KIND ((alt ...) ...)) ...) KIND = ok (ok iff every group has a visible member, else err) | err | raise;
        unlisted items: ok
EXT   = ((item (blocker ...)) ...)   the extension of item cannot be added when a blocker is in the theory; unlisted: always
OPS   = (load n LIM FAULT) | (imp m) | (touch n t) | (edit n (import ...) (item ...) t) | (reload)
LIM   = none | start | (item i);  FAULT = none | i
RES   = ok | cycle | key | order | parse | limit | extend | fuel;  THY = none | (item ...)
EV    = (read n) | (exec m) | meta
-/
open Holpy Holpy.C12

namespace Holpy.C12.Driver

def natsOf (s : Sexp) : Option (List Nat) := do (← s.toList?).mapM Sexp.toNat?

def fileOf : Sexp → Option (Name × File)
  | .list [n, is, its, t] => do
    some ((← n.toNat?), { imports := (← natsOf is), items := (← natsOf its), mtime := (← t.toNat?) })
  | _ => none

def pairOf : Sexp → Option (Nat × Nat)
  | .list [a, b] => do some ((← a.toNat?), (← b.toNat?))
  | _ => none

def actOf : Sexp → Option Act
  | .list [.atom "imp", m] => do some (.imp (← m.toNat?))
  | .list [.atom "load", n] => do some (.load (← n.toNat?))
  | _ => none

def modOf : Sexp → Option (Mod × List Act)
  | .list [m, as] => do some ((← m.toNat?), (← (← as.toList?).mapM actOf))
  | _ => none

inductive Kind where | ok | err | raise

def ruleOf : Sexp → Option (Item × Kind × List (List Item))
  | .list [i, .atom k, rs] => do
    let kd ← (match k with | "ok" => some Kind.ok | "err" => some Kind.err | "raise" => some Kind.raise | _ => none)
    some ((← i.toNat?), kd, (← (← rs.toList?).mapM natsOf))
  | _ => none

def limOf : Sexp → Option Limit
  | .atom "none" => some .none
  | .atom "start" => some .start
  | .list [.atom "item", i] => do some (.item (← i.toNat?))
  | _ => none

def faultOf : Sexp → Option (Option Item)
  | .atom "none" => some none
  | s => do some (some (← s.toNat?))

def opOf : Sexp → Option Op
  | .list [.atom "load", n, l, f] => do some (.load (← n.toNat?) (← limOf l) (← faultOf f))
  | .list [.atom "imp", m] => do some (.imp (← m.toNat?))
  | .list [.atom "touch", n, t] => do some (.touch (← n.toNat?) (← t.toNat?))
  | .list [.atom "edit", n, is, its, t] => do some (.edit (← n.toNat?) (← natsOf is) (← natsOf its) (← t.toNat?))
  | .list [.atom "reload"] => some .reloadMeta
  | _ => none

def lookupD {α} (d : α) (l : List (Nat × α)) (k : Nat) : α := (l.lookup k).getD d

def mkWorld (lazy : List (Nat × Nat)) (mods : List (Mod × List Act)) (rules : List (Item × Kind × List (List Item)))
    (ext : List (Item × List Item)) : World :=
  { extend := fun i ctx =>
      match ext.lookup i with
      | none => true
      | some bl => !(bl.any fun b => ctx.contains b)
    parse := fun i ctx =>
      match rules.lookup i with
      | none => .ok
      | some (.raise, _) => .raise
      | some (.err, _) => .err
      | some (.ok, reqs) => if reqs.all (fun g => g.any (fun r => ctx.contains r)) then .ok else .err
    lazyOf := fun n => lazy.lookup n
    body := fun m => lookupD [] mods m }

def errTo : Option Err → String
  | none => "ok"
  | some .cycle => "cycle"
  | some .key => "key"
  | some .order => "order"
  | some .parse => "parse"
  | some .limit => "limit"
  | some .extend => "extend"
  | some .fuel => "fuel"

def evTo : Event → Sexp
  | .readFile n => .list [.atom "read", Sexp.ofNat n]
  | .execMod m => .list [.atom "exec", Sexp.ofNat m]
  | .metaLoad => .atom "meta"

def thyTo : Option (List Item) → Sexp
  | none => .atom "none"
  | some l => .list (l.map Sexp.ofNat)

/-- run the ops one by one, reporting result and the events of each op -/
def runOps (W : World) (fuel : Nat) : List Op → State → List Sexp → List Sexp × State
  | [], s, acc => (acc.reverse, s)
  | op :: ops, s, acc =>
    let r := step W fuel op { s with log := [] }
    runOps W fuel ops r.2 (.list [.atom (errTo r.1), .list (r.2.log.map evTo), thyTo r.2.thy] :: acc)

def opUOf : Sexp → Option OpU
  | .list [.atom "load", u, n, l, f] => do some (.load (← u.toNat?) (← n.toNat?) (← limOf l) (← faultOf f))
  | .list [.atom "imp", m] => do some (.imp (← m.toNat?))
  | .list [.atom "touch", u, n, t] => do some (.touch (← u.toNat?) (← n.toNat?) (← t.toNat?))
  | .list [.atom "edit", u, n, is, its, t] => do some (.edit (← u.toNat?) (← n.toNat?) (← natsOf is) (← natsOf its) (← t.toNat?))
  | .list [.atom "reload", u] => do some (.reloadMeta (← u.toNat?))
  | _ => none

/-- like `runOps`, several users -/
def runOpsU (W : World) (fuel : Nat) : List OpU → State → List Sexp → List Sexp × State
  | [], s, acc => (acc.reverse, s)
  | op :: ops, s, acc =>
    let r := stepU W fuel op { s with log := [] }
    runOpsU W fuel ops r.2 (.list [.atom (errTo r.1), .list (r.2.log.map evTo), thyTo r.2.thy] :: acc)

def userOf : Sexp → Option (Nat × Comp)
  | .list [u, names, files] => do
    let fs ← (← files.toList?).mapM fileOf
    some ((← u.toNat?), { names := (← natsOf names), files := lookupD { imports := [], items := [], mtime := 0 } fs, cache := none })
  | _ => none

def extOf : Sexp → Option (Item × List Item)
  | .list [i, bs] => do some ((← i.toNat?), (← natsOf bs))
  | _ => none

def setup (names files lazy mods parse ext : Sexp) : Option (World × List Name × (Name → File)) := do
  let ns ← natsOf names
  let fs ← (← files.toList?).mapM fileOf
  let lz ← (← lazy.toList?).mapM pairOf
  let ms ← (← mods.toList?).mapM modOf
  let rs ← (← parse.toList?).mapM ruleOf
  let es ← (← ext.toList?).mapM extOf
  some (mkWorld lz ms rs es, ns, lookupD { imports := [], items := [], mtime := 0 } fs)

def handle (line : String) : String :=
  match Sexp.parse line with
  | some (.list [.atom "run", fuel, names, files, lazy, mods, parse, ext, ops]) =>
    match fuel.toNat?, setup names files lazy mods parse ext, (ops.toList?.bind fun l => l.mapM opOf) with
    | some f, some (W, ns, fs), some os =>
      let (res, s) := runOps W f os (initState ns fs) []
      toString (Sexp.list [.list res, thyTo s.thy])
    | _, _, _ => "bad-op"
  | some (.list [.atom "runu", fuel, names, files, lazy, mods, parse, ext, users, ops]) =>
    match fuel.toNat?, setup names files lazy mods parse ext, (users.toList?.bind fun l => l.mapM userOf),
          (ops.toList?.bind fun l => l.mapM opUOf) with
    | some f, some (W, ns, fs), some us, some os =>
      let s0 : State := { initState ns fs with others := fun u => (us.lookup u).getD {} }
      let (res, s) := runOpsU W f os s0 []
      toString (Sexp.list [.list res, thyTo s.thy])
    | _, _, _, _ => "bad-op"
  | some (.list [.atom "spec", k, names, files, lazy, mods, parse, ext, n, lim]) =>
    match k.toNat?, setup names files lazy mods parse ext, n.toNat?, limOf lim with
    | some k, some (W, ns, fs), some n, some l =>
      let L : Lib := { names := ns, imports := fun n => (fs n).imports, items := fun n => (fs n).items }
      match specLoad W L k n l with
      | .ok t => toString (Sexp.list [.atom "ok", .list (t.map Sexp.ofNat)])
      | .error e => toString (Sexp.list [.atom "error", .atom (errTo (some e))])
    | _, _, _, _ => "bad-op"
  | _ => "bad-op"

end Holpy.C12.Driver

def main : IO Unit := Holpy.lineLoop Holpy.C12.Driver.handle
