import Holpy.C12.Model
import Holpy.C12.Gen
import Holpy.C12.Proofs
/-
C12 — property theorems (statements live here, helper lemmas in Proofs.lean).
-/
namespace Holpy.C12

end Holpy.C12
