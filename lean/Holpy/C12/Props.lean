import Holpy.C12.Model
import Holpy.C12.Gen
import Holpy.C12.Proofs
import Holpy.C12.Exec
import Holpy.C12.Exec2
import Holpy.C12.Reread
import Holpy.C12.Complete
import Holpy.C12.Edits
import Holpy.C12.Hist
import Holpy.C12.Users
import Holpy.C12.UsersIso
import Holpy.C12.UsersSpec
import Holpy.C12.UsersHist
import Holpy.C12.UsersMaster
/-
C12 — property theorems (statements live here, helper lemmas in Proofs / Exec / Exec2 / Complete / Reread / Edits / Hist).

Model = `logic/basic.py` with the fixes C12-1..4.  Every theorem is for an arbitrary world (parser, extension
clashes, lazy-import table, module bodies), an arbitrary library, arbitrary timestamps and arbitrary fuel.
Histories (`Op`): `load` (any limit, with or without an injected fault), `imp` (import of a Python module that may
call load_theory), `touch` (os.utime), `edit` (the file is replaced: new imports, new items, new timestamp),
`reloadMeta` (basic.load_metadata()).  The hypothesis `OkHistory` excludes exactly two things:
* a `touch`/`edit` that gives a file a timestamp it already had earlier in the process ("a changed file gets a
  different timestamp" is what a timestamp cache relies on; OLDER timestamps are fine as long as they are new);
* a load between an edit that changes the `imports` of a file and the next `load_metadata`
  (the known finding, `stale_imports_counterexample`).
What `theory.thy` holds after a load that raised is not specified by any theorem.
-/
namespace Holpy.C12

/-- A small world used by the non-vacuity examples: theory 2 lazily imports module 7, whose body
    calls `load_theory(3)` (re-entrant, like data.real / data.integer); item 21 parses only when item
    11 is visible, item 30 never parses. -/
def exWorld : World :=
  { parse := fun i ctx => if i = 30 then .err else if i = 21 then (if 11 ∈ ctx then .ok else .err) else .ok
    extend := fun _ _ => true
    lazyOf := fun n => if n = 2 then some 7 else none
    body := fun m => if m = 7 then [.load 3] else [] }

def exFiles : Name → File := fun n =>
  if n = 1 then { imports := [], items := [10, 11], mtime := 5 }
  else if n = 2 then { imports := [1], items := [20, 21], mtime := 5 }
  else if n = 3 then { imports := [2, 1], items := [30], mtime := 5 }
  else { imports := [], items := [], mtime := 0 }

def exHistory : List Op :=
  [.load 3 .none (some 20), .touch 1 9, .imp 7, .reloadMeta, .load 2 (.item 21) none, .touch 2 3,
   .edit 1 [] [11, 10] 2, .load 3 .start none, .edit 3 [1] [30] 8, .reloadMeta]

/-- the hypothesis of the theorems about histories (see the header; `okHist` in Hist.lean) -/
def OkHistory (W : World) (fuel : Nat) (names : List Name) (files : Name → File) (h : List Op) : Prop :=
  okHist W fuel h (initState names files) (used0 files) false

/-- the example history (interrupted load, touches, an edit with an older timestamp, an edit that changes the imports
    followed by load_metadata) satisfies the hypothesis -/
example : OkHistory exWorld 50 [1, 2, 3] exFiles exHistory := by
  unfold OkHistory exHistory
  simp only [okHist]
  decide

/-- SOUNDNESS FOR ANY LIBRARY (also unhealthy ones): a `load_theory(name, limit)` that returns normally after any
    history of loads, interrupted loads, module imports, touches, EDITS and metadata reloads leaves in `theory.thy`
    exactly what the specification computes from the CURRENT files: the ok items of the transitive imports in
    `get_import_order` order, then the own ok items before the limit (`specLoad`; `k` is the specification's fuel). -/
theorem load_returns_spec (W : World) (names : List Name) (files : Name → File) (h : List Op) (fuel : Nat)
    (hh : OkHistory W fuel names files h) (n : Name) (lim : Limit) :
    let s := run W fuel h (initState names files)
    let r := exec W none fuel (.load n lim) s
    r.1 = none → ∀ k, specLoad W s.lib k n lim ≠ .error .fuel → specLoad W s.lib k n lim = .ok (r.2.thy.getD []) := by
  intro s r hr k hk
  obtain ⟨U, hi⟩ := hist_inv W names files fuel h hh
  exact exec_load_ok W s.lib U fuel n lim _ hi hr k hk

example :
    let s := run exWorld 50 exHistory (initState [1, 2, 3] exFiles)
    (exec exWorld none 50 (.load 3 .none) s).1 = none
    ∧ (exec exWorld none 50 (.load 3 .none) s).2.thy = some [11, 10]
    ∧ specLoad exWorld s.lib 5 3 .none = .ok [11, 10] :=
  ⟨by decide, by decide, by rfl⟩

/-- FULL statement.  After ANY history of loads (any limit, with or without injected faults), module imports,
    touches, EDITS and metadata reloads that satisfies `OkHistory`, for every theory `n` of a library that is healthy
    NOW (no item makes the parser raise, no two items clash when their extensions are combined, the import graph
    passes the cycle check, import orders exist, modules only load theories of the library) and every limit: the
    outcome of `load_theory(n, limit)` IS the specification evaluated on the CURRENT files — it returns normally
    exactly when the specification does, `theory.thy` is then the specified item list, and the only error is
    "limit not found", raised exactly when the specification says so.  (`some .fuel`: the model ran out of fuel;
    Python has no counterpart.) -/
theorem load_eq_spec (W : World) (names : List Name) (files : Name → File) (h : List Op) (fuel : Nat)
    (hh : OkHistory W fuel names files h) (n : Name) (lim : Limit) :
    let s := run W fuel h (initState names files)
    let r := exec W none fuel (.load n lim) s
    Healthy W s.lib → n ∈ s.names →
    r.1 = some .fuel ∨ ∀ k, specLoad W s.lib k n lim ≠ .error .fuel →
      specLoad W s.lib k n lim = (match r.1 with | none => .ok (r.2.thy.getD []) | some e => .error e) := by
  intro s r hH hn
  obtain ⟨U, hi⟩ := hist_inv W names files fuel h hh
  cases fuel with
  | zero => exact Or.inl rfl
  | succ f =>
    have hok := exec_ok W s.lib U hH (f + 1) (.load n lim) _ hi hn
    rcases hok with (h0 | h0) | ⟨h0, _⟩
    · refine Or.inr fun k hk => ?_
      have := load_returns_spec W names files h (f + 1) hh n lim h0 k hk
      show specLoad W s.lib k n lim = (match r.1 with | none => .ok (r.2.thy.getD []) | some e => .error e)
      rw [show r.1 = none from h0]
      exact this
    · exact Or.inl h0
    · refine Or.inr fun k hk => ?_
      have := loadBody_limit W s.lib U hH (exec_post W s.lib U none f) (exec_ok W s.lib U hH f) n lim hn hi h0 k hk
      show specLoad W s.lib k n lim = (match r.1 with | none => .ok (r.2.thy.getD []) | some e => .error e)
      rw [show r.1 = some .limit from h0]
      exact this

/-- … which is what a FRESH PROCESS computes on the same files: a process that has done anything allowed by
    `OkHistory` and a process that has just started on the current files agree on every load (when neither runs out
    of model fuel and the specification is evaluated with enough fuel `k`). -/
theorem load_eq_fresh_process (W : World) (names : List Name) (files : Name → File) (h : List Op) (fuel : Nat)
    (hh : OkHistory W fuel names files h) (n : Name) (lim : Limit) (k : Nat) :
    let s := run W fuel h (initState names files)
    let r := exec W none fuel (.load n lim) s
    let r0 := exec W none fuel (.load n lim) (initState s.names s.files)
    Healthy W s.lib → n ∈ s.names → specLoad W s.lib k n lim ≠ .error .fuel →
    r.1 ≠ some .fuel → r0.1 ≠ some .fuel →
    r.1 = r0.1 ∧ (r.1 = none → r.2.thy.getD [] = r0.2.thy.getD []) := by
  intro s r r0 hH hn hk hr hr0
  have h1 := load_eq_spec W names files h fuel hh n lim hH hn
  have hfresh : OkHistory W fuel s.names s.files [] := rfl
  have hlib : (run W fuel [] (initState s.names s.files)).lib = s.lib := rfl
  have h2 := load_eq_spec W s.names s.files [] fuel hfresh n lim (by rw [hlib]; exact hH) hn
  rcases h1 with h1 | h1
  · exact absurd h1 hr
  rcases h2 with h2 | h2
  · exact absurd h2 hr0
  have e1 := h1 k hk
  have e2 := h2 k (by rw [hlib]; exact hk)
  rw [hlib] at e2
  rw [e1] at e2
  change (match r.1 with | none => Except.ok (r.2.thy.getD []) | some e => Except.error e)
    = (match r0.1 with | none => Except.ok (r0.2.thy.getD []) | some e => Except.error e) at e2
  cases hr1 : r.1 with
  | none =>
    cases hr2 : r0.1 with
    | none =>
      rw [hr1, hr2] at e2
      exact ⟨rfl, fun _ => Except.ok.inj e2⟩
    | some e => rw [hr1, hr2] at e2; cases e2
  | some e =>
    cases hr2 : r0.1 with
    | none => rw [hr1, hr2] at e2; cases e2
    | some e' => rw [hr1, hr2] at e2; cases e2; exact ⟨rfl, fun h => by cases h⟩

example :
    let s := run exWorld 50 exHistory (initState [1, 2, 3] exFiles)
    (exec exWorld none 50 (.load 3 (.item 30)) s).2.thy = (exec exWorld none 50 (.load 3 (.item 30)) (initState s.names s.files)).2.thy
    ∧ (exec exWorld none 50 (.load 3 (.item 30)) s).2.thy = some [11, 10] := by decide

/-- the example library is healthy -/
example : Healthy exWorld (initState [1, 2, 3] exFiles).lib where
  noRaise := by
    intro i ctx
    unfold exWorld
    simp only []
    split
    · intro h; cases h
    · split
      · split <;> (intro h; cases h)
      · intro h; cases h
  noClash := fun _ _ => rfl
  topo := by decide
  orders := by decide
  modLoads := by
    intro m n hm
    unfold exWorld at hm
    simp only [] at hm
    split at hm
    · simp at hm; subst hm; decide
    · simp at hm

/-- The invariant behind it: after every step of every allowed history — including steps that raise — every cache
    entry the loader would reuse (own timestamp and all recorded dependency timestamps current) holds exactly the
    specified parse of its file in the CURRENT library, records a timestamp for every transitive import, and every
    recorded timestamp is one the file really had (`Inv`, Proofs.lean; `U` is the ghost set of used timestamps). -/
theorem cache_invariant (W : World) (names : List Name) (files : Name → File) (h : List Op) (fuel : Nat)
    (hh : OkHistory W fuel names files h) :
    ∃ U, Inv W (run W fuel h (initState names files)).lib U (run W fuel h (initState names files)) :=
  hist_inv W names files fuel h hh

/-- A load that RAISES (injected parse exception, an item whose extension clashes, missing import, cycle, missing
    limit, …) leaves the cache in a state from which every later load still equals the specification on the current
    files, hence the fresh-process result (the C12-m2 class: nothing half-done may be kept).  What `theory.thy`
    holds right after the exception is NOT specified. -/
theorem cache_invariant_after_error (W : World) (names : List Name) (files : Name → File) (h : List Op) (fuel : Nat)
    (hh : OkHistory W fuel names files h) (n' : Name) (lim' : Limit) (fault : Option Item)
    (_herr : (exec W fault fuel (.load n' lim') (run W fuel h (initState names files))).1 ≠ none)
    (n : Name) (lim : Limit) :
    let s1 := (exec W fault fuel (.load n' lim') (run W fuel h (initState names files))).2
    let r := exec W none fuel (.load n lim) s1
    (∃ U, Inv W s1.lib U s1) ∧
    (r.1 = none → ∀ k, specLoad W s1.lib k n lim ≠ .error .fuel → specLoad W s1.lib k n lim = .ok (r.2.thy.getD [])) := by
  intro s1 r
  have hok : OkHistory W fuel names files (h ++ [.load n' lim' fault]) := okHist_snoc_load W fuel h _ _ _ hh n' lim' fault
  have hrun : run W fuel (h ++ [.load n' lim' fault]) (initState names files) = s1 := run_snoc W fuel h _ _
  obtain ⟨U, hi⟩ := hist_inv W names files fuel _ hok
  rw [hrun] at hi
  refine ⟨⟨U, hi⟩, ?_⟩
  intro hr k hk
  have := load_returns_spec W names files (h ++ [.load n' lim' fault]) fuel hok n lim
  simp only [hrun] at this
  exact this hr k hk

example :
    let s := run exWorld 50 exHistory (initState [1, 2, 3] exFiles)
    -- a load interrupted at item 10 of theory 1, then a normal load
    (exec exWorld (some 10) 50 (.load 3 .none) s).1 = some .parse
    ∧ (exec exWorld none 50 (.load 3 .none) (exec exWorld (some 10) 50 (.load 3 .none) s).2).2.thy = some [11, 10] := by decide

/-- Two imports that cannot be combined are reported: whenever the specification says that re-applying the
    items of the imports raises (`unchecked_extend`: "Constant … already exists"), `load_theory` does not return
    normally — after every history, like in a fresh process. -/
theorem import_clash_reported (W : World) (names : List Name) (files : Name → File) (h : List Op) (fuel : Nat)
    (hh : OkHistory W fuel names files h) (n : Name) (lim : Limit) (k : Nat)
    (hs : specLoad W (run W fuel h (initState names files)).lib k n lim = .error .extend) :
    (exec W none fuel (.load n lim) (run W fuel h (initState names files))).1 ≠ none := by
  intro hr
  have := load_returns_spec W names files h fuel hh n lim hr k (by rw [hs]; intro h; cases h)
  rw [hs] at this
  cases this

/-- theories 1 and 2 both declare the constant `c` (items 10 and 20 clash), theory 3 imports both and has item 30 -/
def clWorld : World :=
  { parse := fun _ _ => .ok
    extend := fun i ctx => !((i = 20 && ctx.contains 10) || (i = 10 && ctx.contains 20))
    lazyOf := fun _ => none
    body := fun _ => [] }

def clFiles : Name → File := fun n =>
  if n = 1 then { imports := [], items := [10], mtime := 5 }
  else if n = 2 then { imports := [], items := [20], mtime := 5 }
  else { imports := [1, 2], items := [30], mtime := 5 }

example :
    let s := run clWorld 50 [.load 1 .none none, .load 2 .none none, .load 3 .none none] (initState [1, 2, 3] clFiles)
    specLoad clWorld s.lib 5 3 .none = .error .extend
    ∧ (exec clWorld none 50 (.load 3 .none) s).1 = some .extend
    ∧ (exec clWorld none 50 (.load 3 .none) (initState [1, 2, 3] clFiles)).1 = some .extend
    ∧ (exec clWorld none 50 (.load 2 .none) s).2.thy = some [20] :=
  ⟨by rfl, by decide, by decide, by decide⟩

/-- A missing limit is reported: whenever the specification says "limit not found", `load_theory` does
    not return normally (by `load_returns_spec` a normal return would carry the specified theory). -/
theorem missing_limit_reported (W : World) (names : List Name) (files : Name → File) (h : List Op) (fuel : Nat)
    (hh : OkHistory W fuel names files h) (n : Name) (lim : Limit) (k : Nat)
    (hs : specLoad W (run W fuel h (initState names files)).lib k n lim = .error .limit) :
    (exec W none fuel (.load n lim) (run W fuel h (initState names files))).1 ≠ none := by
  intro hr
  have := load_returns_spec W names files h fuel hh n lim hr k (by rw [hs]; intro h; cases h)
  rw [hs] at this
  cases this

example :
    specLoad exWorld (initState [1, 2, 3] exFiles).lib 5 2 (.item 77) = .error .limit
    ∧ (exec exWorld none 50 (.load 2 (.item 77)) (run exWorld 50 exHistory (initState [1, 2, 3] exFiles))).1
        = some .limit
    -- theory.thy is then the complete theory (what limit=None gives), not a prefix cut at an arbitrary place
    ∧ (exec exWorld none 50 (.load 2 (.item 77)) (run exWorld 50 exHistory (initState [1, 2, 3] exFiles))).2.thy
        = some [11, 10, 20, 21] :=
  ⟨by rfl, by decide, by decide⟩

/-- An import cycle (anything `check_topological_sort` rejects in the CURRENT files) is reported by EVERY load, after every
    allowed history: the metadata is never kept, `theory.thy` is left as it was and nothing is cached. -/
theorem cycle_reported (W : World) (names : List Name) (files : Name → File) (h : List Op) (fuel : Nat)
    (hh : OkHistory W (fuel + 2) names files h) (n : Name) (lim : Limit) (e : Err) :
    let s := run W (fuel + 2) h (initState names files)
    let r := exec W none (fuel + 2) (.load n lim) s
    topoCheck s.lib.imps s.names = some e →
    r.1 = some e ∧ r.2.cache = none ∧ r.2.thy = s.thy := by
  intro s r hc
  obtain ⟨U, hi⟩ := hist_inv W names files (fuel + 2) h hh
  have hi : Inv W s.lib U s := hi
  have hnone : s.cache = none := by
    cases hcs : s.cache with
    | none => rfl
    | some T =>
      have := (hi.2.1 T hcs).1
      change topoCheck s.lib.imps s.names = none at this
      rw [hc] at this; cases this
  have hem : ensureMeta s = loadMetadata s := by unfold ensureMeta; simp [hnone]
  obtain ⟨h1, _, _, _, h5, h6, h7⟩ := loadMetadata_inv W s.lib U hi.1 hi.2.2
  have hres : (loadMetadata s).1 = some e := by
    cases hl : (loadMetadata s).1 with
    | none =>
      have hsome := h6 hl
      obtain ⟨T, hT⟩ := Option.isSome_iff_exists.mp hsome
      have := (h1.2.1 T hT).1
      change topoCheck s.lib.imps s.names = none at this
      rw [hc] at this; cases this
    | some e' =>
      have := (h7 (by rw [hl]; intro h; cases h)).2
      change topoCheck s.lib.imps s.names = _ at this
      rw [hc, hl] at this
      exact this.symm
  have hcache : (loadMetadata s).2.cache = none := (h7 (by rw [hres]; intro h; cases h)).1
  have hltc : exec W none (fuel + 1) (.ltc n) s = (some e, (loadMetadata s).2) := by
    rw [exec]
    unfold ltcBody
    rw [hem]
    rcases hlm : loadMetadata s with ⟨r1, s1⟩
    rw [hlm] at hres
    simp only [] at hres
    subst hres
    rfl
  have hr : exec W none (fuel + 2) (.load n lim) s = (some e, (loadMetadata s).2) := by
    rw [exec]
    unfold loadBody
    rw [hltc]
  show (exec W none (fuel + 2) (.load n lim) s).1 = some e ∧ (exec W none (fuel + 2) (.load n lim) s).2.cache = none ∧
    (exec W none (fuel + 2) (.load n lim) s).2.thy = s.thy
  rw [hr]
  exact ⟨rfl, hcache, h5⟩

/-- a library with the cycle 1 → 3 → 2 → 1 and an unrelated theory 4 -/
def cycFiles : Name → File := fun n =>
  if n = 1 then { imports := [3], items := [10], mtime := 5 }
  else if n = 2 then { imports := [1], items := [20], mtime := 5 }
  else if n = 3 then { imports := [2], items := [30], mtime := 5 }
  else { imports := [], items := [40], mtime := 5 }

example :
    topoCheck (initState [1, 2, 3, 4] cycFiles).lib.imps [1, 2, 3, 4] = some .cycle
    -- also for the theory that is not on the cycle, and also the second time
    ∧ (exec exWorld none 50 (.load 4 .none) (run exWorld 50 [.load 4 .none none, .load 2 .none none]
        (initState [1, 2, 3, 4] cycFiles))).1 = some .cycle := by decide

/-- A changed file is re-read: if, after any history, the timestamp of the file of `n` differs from the one
    its cache entry was stamped with (os.utime, or an edit), a successful
    `load_theory_cache(n)` parses the file again (the parse event is in the log) and the entry then carries
    the file's current timestamp and all of its items. -/
theorem changed_file_reread (W : World) (names : List Name) (files : Name → File) (h : List Op) (fuel : Nat)
    (hh : OkHistory W fuel names files h) (f : Nat) (n : Name) (e : Entry) :
    let s := run W fuel h (initState names files)
    let r := exec W none (f + 1) (.ltc n) s
    s.entry n = some e → e.stamp ≠ some (s.files n).mtime → r.1 = none →
    ∃ e', r.2.entry n = some e' ∧ e'.stamp = some (s.files n).mtime ∧
      e'.content.map (·.1) = (s.files n).items ∧ Event.readFile n ∈ r.2.log ∧
      -- the recorded dependency timestamps name ALL transitive imports (`get_import_order`), not only the direct ones
      s.lib.order e.imports = some (e'.deps.map (·.1)) := by
  intro s r he hch hok
  obtain ⟨U, hi⟩ := hist_inv W names files fuel h hh
  exact ltcBody_reread W s.lib U (exec_post W s.lib U none f) n e hi he hch hok

example :
    let s := run exWorld 50 [.load 3 .none none, .touch 1 9] (initState [1, 2, 3] exFiles)
    (∃ e, s.entry 1 = some e ∧ e.stamp = some 5) ∧ (s.files 1).mtime = 9
    ∧ (exec exWorld none 50 (.ltc 1) { s with log := [] }).2.log = [.readFile 1]
    ∧ (exec exWorld none 50 (.ltc 1) s).1 = none := by
  refine ⟨⟨_, rfl, rfl⟩, rfl, by decide, by decide⟩

/-- chain 1 ← 2 ← 3 (3 imports only 2): item 30 of theory 3 parses only when item 10 of theory 1 is visible -/
def chWorld : World :=
  { parse := fun i ctx => if i = 30 then (if 10 ∈ ctx then .ok else .err) else .ok
    extend := fun _ _ => true
    lazyOf := fun _ => none
    body := fun _ => [] }

def chFiles : Name → File := fun n =>
  if n = 1 then { imports := [], items := [10], mtime := 50 }
  else if n = 2 then { imports := [1], items := [20], mtime := 50 }
  else { imports := [2], items := [30], mtime := 50 }

/-- Concrete instance with an EDIT (not covered by the general theorems): the far end of an import chain is
    cached, the file that is imported only INDIRECTLY is replaced by different content carrying an OLDER
    timestamp, the middle file is untouched; the next load re-parses all three and yields the specification of
    the new files (item 30 no longer parses). -/
theorem indirect_edit_older_mtime_example :
    let s := run chWorld 50 [.load 3 .none none, .edit 1 [] [11] 7] (initState [1, 2, 3] chFiles)
    (exec chWorld none 50 (.load 3 .none) s).2.thy = some [11, 20]
    ∧ (exec chWorld none 50 (.load 3 .none) { s with log := [] }).2.log = [.readFile 1, .readFile 2, .readFile 3]
    ∧ specLoad chWorld s.lib 5 3 .none = .ok [11, 20] :=
  ⟨by decide, by decide, by rfl⟩

/-! ### known finding: the imports of an edited file are not re-read -/

def siWorld : World :=
  { parse := fun i ctx => if i = 20 then (if 10 ∈ ctx then .ok else .err) else .ok
    extend := fun _ _ => true
    lazyOf := fun _ => none
    body := fun _ => [] }

def siFiles : Name → File := fun n =>
  if n = 1 then { imports := [], items := [10], mtime := 5 }
  else { imports := [1], items := [20], mtime := 5 }

/-- KNOWN FINDING (stale-imports): `load 2; edit 2.json so that it no longer imports 1; load 2` leaves the
    theory built on theory 1 (`[10, 20]`) although the files now specify `[]` (item 20 does not parse without
    item 10): `load_theory_cache` re-reads the content of a changed file but keeps the imports read by
    `load_metadata`.  This is the history class `OkHistory` excludes. -/
theorem stale_imports_counterexample :
    let s := run siWorld 50 [.load 2 .none none, .edit 2 [] [20] 9] (initState [1, 2] siFiles)
    (exec siWorld none 50 (.load 2 .none) s).1 = none
    ∧ (exec siWorld none 50 (.load 2 .none) s).2.thy = some [10, 20]
    ∧ specLoad siWorld s.lib 5 2 .none = .ok [] :=
  ⟨by decide, by decide, by rfl⟩

/-- this history is exactly what `OkHistory` excludes (a load while the metadata is stale) -/
example : ¬ OkHistory siWorld 50 [1, 2] siFiles [.load 2 .none none, .edit 2 [] [20] 9, .load 2 .none none] := by
  unfold OkHistory
  simp only [okHist]
  decide

/-- … and `basic.load_metadata()` after the edit repairs it -/
example :
    let s := run siWorld 50 [.load 2 .none none, .edit 2 [] [20] 9, .reloadMeta] (initState [1, 2] siFiles)
    (exec siWorld none 50 (.load 2 .none) s).2.thy = some [] := by decide

/-! ### several users (`execU`, `stepU`: Model.lean) -/

theorem focus_thy (s : State) (u : Nat) : (s.focus u).thy = s.thy := by
  unfold State.focus; split <;> rfl

/-- Import resolution for a user, WITH lazy imports: `load_theory(n, limit, username=u)` is the loader run on the
    library and cache of user `u` (imports are looked up in `users/<u>/` only — the code has no fall-back to, or
    shadowing of, the master library); the `basic.load_theory` calls of lazily imported modules work on master's library
    and never disturb u's.  So whenever the cache invariant holds for u's own library (`Inv` of the state focused on
    `u`; nothing is assumed about the other users), a normal return carries the specification evaluated on u's own
    files.  Holds for every user, master included, and from every focus. -/
theorem user_resolution_spec (W : World) (L : Lib) (U : Used) (s : State)
    (u : Nat) (hi : Inv W L U (s.focus u)) (f : Nat) (n : Name) (lim : Limit) :
    let r := execU W none (f + 1) (.load u n lim) s
    r.1 = none → ∀ k, specLoad W L k n lim ≠ .error .fuel → specLoad W L k n lim = .ok (r.2.thy.getD []) := by
  intro r hr k hk
  have hbody := (loadBody_post W L U (execU_recOk W L U none f) n lim hi).2.2
  have h1 : r.1 = (loadBody W (fun c st => execU W none f c.toU st) n lim (s.focus u)).1 := by
    show (execU W none (f + 1) (.load u n lim) s).1 = _; rw [execU]
  have h2 : r.2.thy = (loadBody W (fun c st => execU W none f c.toU st) n lim (s.focus u)).2.thy := by
    show (execU W none (f + 1) (.load u n lim) s).2.thy = _; rw [execU]; exact focus_thy _ _
  rw [h2]
  exact hbody (by rw [← h1]; exact hr) k hk

/-- master has theories 1 ← 2 with items 10 / 20; user 1 has its own files for the same names: items 110 / 120 -/
def uState : State :=
  { initState [1, 2] siFiles with
    others := fun u => if u = 1 then { names := [1, 2], files := fun n =>
      if n = 1 then { imports := [], items := [110], mtime := 5 } else { imports := [1], items := [120], mtime := 5 } } else {} }

example :
    (execU siWorld none 50 (.load 1 2 .none) uState).2.thy = some [110, 120]
    ∧ (execU siWorld none 50 (.load 0 2 .none) (execU siWorld none 50 (.load 1 2 .none) uState).2).2.thy = some [10, 20] :=
  ⟨by decide, by decide⟩

/-- the same library as `uState`, but theory 2 lazily imports module 7 whose body calls `load_theory(1)` — on master -/
def lzWorld : World := { siWorld with lazyOf := fun n => if n = 2 then some 7 else none, body := fun m => if m = 7 then [.load 1] else [] }

example :
    (execU lzWorld none 50 (.load 1 2 .none) uState).2.thy = some [110, 120]
    ∧ specLoad lzWorld (uState.focus 1).lib 5 2 .none = .ok [110, 120]
    -- the lazy import ran a master load: master's theory 1 is now cached, user 1's result is still its own
    ∧ (execU lzWorld none 50 (.load 1 2 .none) uState).2.imported 7 = true
    ∧ ((execU lzWorld none 50 (.load 1 2 .none) uState).2.entry 1).isSome = true :=
  ⟨by decide, by rfl, by decide, by decide⟩

/-- Users are isolated.  (i) A `load_theory(..., username=B)` — with everything it triggers: lazily imported modules
    and the master loads those modules make — never changes the library or the cache of any user `A` other than `B`
    and master.  (ii) Replacing or touching a file of user `B`, or re-reading B's metadata, never changes the library
    or the cache of another user `A`.  (`A` out of focus: between the loader's public entry points the focus is on
    the caller's user; `others A` is the stored library and cache of `A`.)  So what a later load of `A` sees of its own
    files and cache is what it would see had B's operations not happened. -/
theorem users_isolated (W : World) (fault : Option Item) (fuel : Nat) (s : State) (A B : Nat) (hAB : B ≠ A)
    (hs : s.user ≠ A) (n : Name) (lim : Limit) (imps : List Name) (items : List Item) (t : Nat) :
    (A ≠ 0 → (execU W fault fuel (.load B n lim) s).2.user = s.user ∧ (execU W fault fuel (.load B n lim) s).2.others A = s.others A)
    ∧ (stepU W fuel (.edit B n imps items t) s).2.others A = s.others A
    ∧ (stepU W fuel (.touch B n t) s).2.others A = s.others A
    ∧ (stepU W fuel (.reloadMeta B) s).2.others A = s.others A := by
  refine ⟨fun hA => fr_execU W fault hA fuel (.load B n lim) s hs hAB, ?_, ?_, ?_⟩
  · unfold stepU
    obtain ⟨h1, h2⟩ := fr_focus (A := A) s B hAB hs
    have h3 : (setFile (s.focus B) n { imports := imps, items := items, mtime := t }).user ≠ A := by
      show (s.focus B).user ≠ A; rw [h1]; exact hAB
    obtain ⟨_, h4⟩ := fr_focus (A := A) (setFile (s.focus B) n { imports := imps, items := items, mtime := t }) s.user hs h3
    simp only []
    rw [h4]; exact h2
  · unfold stepU
    obtain ⟨h1, h2⟩ := fr_focus (A := A) s B hAB hs
    simp only []
    have h3 : (setFile (s.focus B) n { (s.focus B).files n with mtime := t }).user ≠ A := by
      show (s.focus B).user ≠ A; rw [h1]; exact hAB
    obtain ⟨_, h4⟩ := fr_focus (A := A) (setFile (s.focus B) n { (s.focus B).files n with mtime := t }) s.user hs h3
    rw [h4]; exact h2
  · unfold stepU
    obtain ⟨h1, h2⟩ := fr_focus (A := A) s B hAB hs
    simp only []
    have h5 : Fr A (s.focus B) (loadMetadata (s.focus B)).2 := fr_loadMetadata _
    have h3 : (loadMetadata (s.focus B)).2.user ≠ A := by rw [h5.1, h1]; exact hAB
    obtain ⟨_, h4⟩ := fr_focus (A := A) (loadMetadata (s.focus B)).2 s.user hs h3
    rw [h4, h5.2]; exact h2

/-- History-level statement for several users, for every NON-master user `u`: start a process whose caches are empty
    (`s0`), run ANY history of loads, interrupted loads, module imports, touches, edits and metadata reloads of ANY
    users; if the operations on u's OWN files satisfy the usual hypothesis (`okHistU`: fresh timestamps, no load for
    `u` between an edit of the imports of one of u's files and `load_metadata(u)`) — nothing is asked of what the other
    users do — then a `load_theory(T, limit, username=u)` that returns normally leaves the specification evaluated on
    u's CURRENT files (lazy imports and the master loads they trigger included).
    PARTIAL: (1) `u` = master is not covered HERE (it is by `load_returns_spec_users` below, which subsumes this
    theorem), (2) the direction "the specification succeeds ⇒ the load does not raise" is proved for one user only
    (`load_eq_spec`): with several users it also needs master's library to be healthy (a lazily imported module loads a
    master theory), and the no-failure lemmas of Complete.lean are not threaded through two libraries. -/
theorem load_eq_spec_users_partial (W : World) (s0 : State) (hfocus : s0.user = 0) (u : Nat) (hu : u ≠ 0)
    (hcache : (s0.focus u).cache = none) (h : List OpU) (fuel : Nat)
    (hok : okHistU W fuel u h s0 (used0 (s0.focus u).files) false) (f : Nat) (n : Name) (lim : Limit) :
    let s := runU W fuel h s0
    let r := execU W none (f + 1) (.load u n lim) s
    r.1 = none → ∀ k, specLoad W (s.focus u).lib k n lim ≠ .error .fuel →
      specLoad W (s.focus u).lib k n lim = .ok (r.2.thy.getD []) := by
  intro s r hr k hk
  have hj0 : JU W u s0 (used0 (s0.focus u).files) false := by
    refine ⟨hfocus, fun _ => ⟨filesOk_lib _, ?_, fun k => by simp [used0]⟩, fun k => by simp [used0]⟩
    intro T hT; rw [hcache] at hT; cases hT
  obtain ⟨U', hj⟩ := runU_inv W fuel u hu h s0 _ false hj0 hok
  exact user_resolution_spec W (s.focus u).lib U' s u (hj.2.1 rfl) f n lim hr k hk

example :
    let h : List OpU := [.load 1 2 .none none, .edit 0 1 [] [11] 9, .load 0 2 .none none, .touch 1 1 3,
                         .edit 1 2 [] [120] 8, .reloadMeta 1, .load 2 2 .none (some 210)]
    okHistU lzWorld 50 1 h uState (used0 (uState.focus 1).files) false
    ∧ (execU lzWorld none 50 (.load 1 2 .none) (runU lzWorld 50 h uState)).2.thy = some [120]
    ∧ specLoad lzWorld ((runU lzWorld 50 h uState).focus 1).lib 5 2 .none = .ok [120] := by
  refine ⟨?_, by decide, by rfl⟩
  simp only [okHistU]
  decide

/-- EVERY user, MASTER INCLUDED, any interleaving.  Start a process whose caches are empty, run ANY history of loads
    (any user, any limit, interrupted or not), module imports, touches, edits and metadata reloads of ANY users.  If the
    operations that reach u's own library satisfy the usual hypothesis (`okHistA`: fresh timestamps for u's files; no load
    reaching u's library between an edit of the imports of one of u's files and `load_metadata(u)` — for a non-master
    user only its own loads reach it, for master also every other user's load and every module import do, through the
    `basic.load_theory` calls of lazily imported modules), then a `load_theory(T, limit, username=u)` that returns
    normally leaves in `theory.thy` exactly the specification evaluated on u's CURRENT files — whatever the other users
    loaded, edited or broke in the same process.  (Soundness direction, like `load_returns_spec`; the direction "no
    spurious failure" for several users is NOT proved.) -/
theorem load_returns_spec_users (W : World) (s0 : State) (hfocus : s0.user = 0) (u : Nat)
    (hcache : (s0.focus u).cache = none) (h : List OpU) (fuel : Nat)
    (hok : okHistA W fuel u h s0 (used0 (s0.focus u).files) false) (f : Nat) (n : Name) (lim : Limit) :
    let s := runU W fuel h s0
    let r := execU W none (f + 1) (.load u n lim) s
    r.1 = none → ∀ k, specLoad W (s.focus u).lib k n lim ≠ .error .fuel →
      specLoad W (s.focus u).lib k n lim = .ok (r.2.thy.getD []) := by
  intro s r hr k hk
  by_cases hu : u = 0
  · subst hu
    have hself : s0.focus 0 = s0 := focus_self s0 0 hfocus.symm
    rw [hself] at hcache hok
    have hj0 : J0 W s0 (used0 s0.files) false := by
      refine ⟨hfocus, fun _ => ⟨filesOk_lib _, ?_, fun k => by simp [used0]⟩, fun k => by simp [used0]⟩
      intro T hT; rw [hcache] at hT; cases hT
    obtain ⟨U', hj⟩ := runU_inv0 W fuel h s0 _ false hj0 hok
    have hs : s.focus 0 = s := focus_self s 0 hj.1.symm
    exact user_resolution_spec W (s.focus 0).lib U' s 0 (by rw [hs]; exact hj.2.1 rfl) f n lim hr k hk
  · exact load_eq_spec_users_partial W s0 hfocus u hu hcache h fuel (okHistA_okHistU W fuel u hu h s0 _ false hok) f n lim hr k hk

/-- master is judged; user 1's load of theory 2 lazily imports module 7, whose body loads theory 1 ON MASTER (so user
    1's load fills master's cache); master's theory 1 is then edited, user 2's load is interrupted, the imports of
    master's theory 2 are edited and the metadata re-read; user 1 loads again.  Master's load is the specification. -/
example :
    let h : List OpU := [.load 1 2 .none none, .edit 0 1 [] [10, 11] 9, .load 2 2 .none (some 210), .touch 1 1 3,
                         .load 0 2 .none none, .edit 0 2 [] [21] 8, .reloadMeta 0, .load 1 2 .none (some 120), .imp 7]
    okHistA lzWorld 50 0 h uState (used0 (uState.focus 0).files) false
    ∧ ((runU lzWorld 50 [.load 1 2 .none none] uState).entry 1).isSome = true
    ∧ (execU lzWorld none 50 (.load 0 2 .none) (runU lzWorld 50 (h.take 4) uState)).2.thy = some [10, 11, 20]
    ∧ (execU lzWorld none 50 (.load 0 2 .none) (runU lzWorld 50 h uState)).2.thy = some [21]
    ∧ specLoad lzWorld ((runU lzWorld 50 h uState).focus 0).lib 5 2 .none = .ok [21] := by
  refine ⟨?_, by decide, by decide, by decide, by rfl⟩
  simp only [okHistA]
  decide

/-- what the hypothesis excludes for master: user 1's load between an edit of master's imports and load_metadata runs a
    master load (through module 7) on stale metadata — the known finding reached from another user's load -/
example :
    ¬ okHistA lzWorld 50 0 [.load 0 2 .none none, .edit 0 1 [2] [10] 9, .load 1 2 .none none, .reloadMeta 0] uState
        (used0 (uState.focus 0).files) false := by
  simp only [okHistA]
  decide

/-- three users: master, 1 and 2 (user 2 has item 220 in theory 2) -/
def uState3 : State :=
  { uState with others := fun u => if u = 2 then { names := [1, 2], files := fun n =>
      if n = 1 then { imports := [], items := [210], mtime := 5 } else { imports := [1], items := [220], mtime := 5 } }
      else uState.others u }

example :
    -- what user 2 gets is the same before and after user 1 loads, edits and reloads
    (execU siWorld none 50 (.load 2 2 .none) uState3).2.thy = some [210, 220]
    ∧ (execU siWorld none 50 (.load 2 2 .none)
        (stepU siWorld 50 (.reloadMeta 1) (stepU siWorld 50 (.edit 1 1 [] [111] 9)
          (execU siWorld none 50 (.load 1 2 .none) uState3).2).2).2).2.thy = some [210, 220] :=
  ⟨by decide, by decide⟩

/-! ### the tables generated from the sources -/

/-- the import graph of library/*.json passes `check_topological_sort` -/
theorem gen_library_acyclic : topoCheck (Gen.lib (fun _ => [])).imps Gen.names = none := by decide

/-- every import of every theory names a theory of the library, and `get_import_order` succeeds for it -/
theorem gen_import_orders_exist :
    ∀ n ∈ Gen.names, ((Gen.lib (fun _ => [])).order (Gen.imports n)).isSome = true := by decide

/-- every `basic.load_theory('x')` executed at the import of a module names a theory of the library -/
theorem gen_module_loads_exist :
    ∀ m ∈ Gen.moduleTable, ∀ a ∈ m.2, (match a with | .load n => decide (n ∈ Gen.names) | .imp _ => true) = true := by
  decide

end Holpy.C12
