import Holpy.C12.Model
/-
C12 — helper lemmas for the property theorems in Props.lean.

Invariant (`Inv`): the files hold the static library `L` (histories without edits keep imports and
items; timestamps are free), and when the metadata is loaded the library passed the cycle check, the
cached imports are the library's and **every stamped cache entry holds exactly `specContent`** —
the parse of the file in the context given by the specification.
-/
namespace Holpy.C12

/-! ### invariant -/

def FilesOk (L : Lib) (s : State) : Prop :=
  s.names = L.names ∧ ∀ n, (s.files n).imports = L.imports n ∧ (s.files n).items = L.items n

/-- `U n`: the timestamps the file of `n` has carried so far (ghost).  The loader relies on "a changed file gets a
    timestamp it never had"; every timestamp recorded in the cache is one of these. -/
abbrev Used := Name → List Nat

def CacheOk (W : World) (L : Lib) (U : Used) (s : State) : Prop :=
  ∀ T, s.cache = some T →
    topoCheck L.imps L.names = none ∧
    (∀ n, (T n).map (·.imports) = L.imps n) ∧
    -- an entry that the loader would reuse (own timestamp and all dependency timestamps current) holds the
    -- specified parse of its file in the CURRENT library
    (∀ n e, T n = some e → e.valid s n = true →
      ∀ k, specContent W L k n ≠ .error .fuel → specContent W L k n = .ok e.content) ∧
    -- a parsed entry recorded a timestamp for every transitive import
    (∀ n e, T n = some e → e.stamp.isSome → L.order e.imports = some (e.deps.map (·.1))) ∧
    -- recorded timestamps are timestamps the files really had
    (∀ n e, T n = some e → (∀ t, e.stamp = some t → t ∈ U n) ∧ ∀ d ∈ e.deps, d.2 ∈ U d.1)

def Inv (W : World) (L : Lib) (U : Used) (s : State) : Prop :=
  FilesOk L s ∧ CacheOk W L U s ∧ ∀ n, (s.files n).mtime ∈ U n

/-- reusable entries stay reusable (possibly replaced by a new reusable entry) -/
def Mono (s s' : State) : Prop :=
  ∀ n e, s.entry n = some e → e.valid s n = true → ∃ e', s'.entry n = some e' ∧ e'.valid s' n = true

/-- the parts of the state the invariant talks about are equal -/
def SameCore (s s' : State) : Prop := s'.cache = s.cache ∧ s'.files = s.files ∧ s'.names = s.names

structure Rel (W : World) (L : Lib) (U : Used) (s s' : State) : Prop where
  inv : Inv W L U s'
  files : s'.files = s.files
  names : s'.names = s.names
  mono : Mono s s'
  loaded : s.cache.isSome → s'.cache.isSome

theorem SameCore.refl (s : State) : SameCore s s := ⟨rfl, rfl, rfl⟩

theorem SameCore.trans {a b c : State} (h1 : SameCore a b) (h2 : SameCore b c) : SameCore a c :=
  ⟨h2.1.trans h1.1, h2.2.1.trans h1.2.1, h2.2.2.trans h1.2.2⟩

theorem SameCore.symm {a b : State} (h : SameCore a b) : SameCore b a := ⟨h.1.symm, h.2.1.symm, h.2.2.symm⟩

theorem entry_of_sameCore {s s' : State} (h : SameCore s s') (n : Name) : s'.entry n = s.entry n := by
  unfold State.entry; rw [h.1]

theorem valid_of_files {s s' : State} (h : s'.files = s.files) (e : Entry) (n : Name) : e.valid s' n = e.valid s n := by
  unfold Entry.valid; rw [h]

theorem Inv.of_sameCore {W : World} {L : Lib} {U : Used} {s s' : State} (h : SameCore s s') (hi : Inv W L U s) : Inv W L U s' := by
  obtain ⟨hc, hf, hn⟩ := h
  refine ⟨⟨by rw [hn]; exact hi.1.1, by rw [hf]; exact hi.1.2⟩, ?_, by rw [hf]; exact hi.2.2⟩
  intro T hT
  rw [hc] at hT
  obtain ⟨h1, h2, h3, h4, h5⟩ := hi.2.1 T hT
  exact ⟨h1, h2, fun n e he hv => h3 n e he (by rw [← valid_of_files hf]; exact hv), h4, h5⟩

theorem Mono.refl (s : State) : Mono s s := fun _ e h hs => ⟨e, h, hs⟩

theorem Mono.trans {a b c : State} (h1 : Mono a b) (h2 : Mono b c) : Mono a c := by
  intro n e he hs
  obtain ⟨e1, h1e, h1s⟩ := h1 n e he hs
  exact h2 n e1 h1e h1s

theorem Mono.of_sameCore {s s' : State} (h : SameCore s s') : Mono s s' := by
  intro n e he hs
  exact ⟨e, by rw [entry_of_sameCore h]; exact he, by rw [valid_of_files h.2.1]; exact hs⟩

theorem Rel.refl {W : World} {L : Lib} {U : Used} {s : State} (hi : Inv W L U s) : Rel W L U s s := ⟨hi, rfl, rfl, Mono.refl s, id⟩

theorem Rel.trans {W : World} {L : Lib} {U : Used} {a b c : State} (h1 : Rel W L U a b) (h2 : Rel W L U b c) : Rel W L U a c :=
  ⟨h2.inv, h2.files.trans h1.files, h2.names.trans h1.names, h1.mono.trans h2.mono, fun h => h2.loaded (h1.loaded h)⟩

theorem Rel.of_sameCore {W : World} {L : Lib} {U : Used} {s s' : State} (hi : Inv W L U s) (h : SameCore s s') : Rel W L U s s' :=
  ⟨hi.of_sameCore h, h.2.1, h.2.2, Mono.of_sameCore h, fun hc => by rw [h.1]; exact hc⟩

theorem Rel.core_right {W : World} {L : Lib} {U : Used} {s s1 s2 : State} (h : Rel W L U s s1) (hc : SameCore s1 s2) : Rel W L U s s2 :=
  h.trans (Rel.of_sameCore h.inv hc)

theorem Rel.core_left {W : World} {L : Lib} {U : Used} {s0 s s1 : State} (hc : SameCore s0 s) (h : Rel W L U s s1) (hi : Inv W L U s0) :
    Rel W L U s0 s1 := (Rel.of_sameCore hi hc).trans h

theorem valid_stamp {e : Entry} {s : State} {n : Name} (h : e.valid s n = true) : e.stamp = some (s.files n).mtime := by
  unfold Entry.valid at h
  simp only [Bool.and_eq_true, beq_iff_eq] at h
  exact h.1

/-! cosmetic state changes -/

theorem sameCore_push (s : State) : SameCore s s.push := ⟨rfl, rfl, rfl⟩
theorem sameCore_pop (s : State) : SameCore s s.pop := by
  unfold State.pop; split <;> exact ⟨rfl, rfl, rfl⟩
theorem sameCore_setThy (s : State) (t : List Item) : SameCore s (s.setThy t) := ⟨rfl, rfl, rfl⟩
theorem sameCore_logEv (s : State) (e : Event) : SameCore s (s.logEv e) := ⟨rfl, rfl, rfl⟩

theorem pop_push_thy (s s1 : State) (hb : s1.blocks = s.push.blocks) : s1.pop.thy = s.thy ∧ s1.pop.blocks = s.blocks := by
  unfold State.pop
  simp only [State.push] at hb
  rw [hb]
  exact ⟨rfl, rfl⟩

/-! ### parsing with a fault -/

theorem parseAll_weaken (P P' : Item → List Item → PRes) (hP : ∀ i ctx, P' i ctx = P i ctx ∨ P' i ctx = .raise) :
    ∀ (items : List Item) (ctx : List Item) (c : List (Item × PRes)),
      parseAll P' ctx items = some c → parseAll P ctx items = some c := by
  intro items
  induction items with
  | nil => intro ctx c h; simpa [parseAll] using h
  | cons i rest ih =>
    intro ctx c h
    rw [parseAll] at h ⊢
    rcases hP i ctx with hp | hp
    · rw [hp] at h
      cases hq : P i ctx with
      | raise => rw [hq] at h; simp at h
      | ok =>
        rw [hq] at h
        simp only [] at h ⊢
        cases h1 : parseAll P' (ctx ++ [i]) rest with
        | none => rw [h1] at h; simp at h
        | some c1 => rw [h1] at h; rw [ih _ _ h1]; exact h
      | err =>
        rw [hq] at h
        simp only [] at h ⊢
        cases h1 : parseAll P' ctx rest with
        | none => rw [h1] at h; simp at h
        | some c1 => rw [h1] at h; rw [ih _ _ h1]; exact h
    · rw [hp] at h; simp at h

theorem parseAll_fault (W : World) (fault : Option Item) (items : List Item) (ctx : List Item) (c : List (Item × PRes))
    (h : parseAll (W.pf fault) ctx items = some c) : parseAll (W.pf none) ctx items = some c := by
  refine parseAll_weaken (W.pf none) (W.pf fault) ?_ items ctx c h
  intro i ctx
  unfold World.pf
  by_cases hf : fault = some i <;> simp [hf]

end Holpy.C12
