import Holpy.C12.Model
/-
C12 — helper lemmas for the property theorems in Props.lean.

Invariant (`Inv`): the files hold the static library `L` (histories without edits keep imports and
items; timestamps are free), and when the metadata is loaded the library passed the cycle check, the
cached imports are the library's and **every stamped cache entry holds exactly `specContent`** —
the parse of the file in the context given by the specification.
-/
namespace Holpy.C12

/-! ### invariant -/

def FilesOk (L : Lib) (s : State) : Prop :=
  s.names = L.names ∧ ∀ n, (s.files n).imports = L.imports n ∧ (s.files n).items = L.items n

def CacheOk (W : World) (L : Lib) (s : State) : Prop :=
  ∀ T, s.cache = some T →
    topoCheck L.imps L.names = none ∧
    (∀ n, (T n).map (·.imports) = L.imps n) ∧
    (∀ n e, T n = some e → e.stamp.isSome →
      ∀ k, specContent W L k n ≠ .error .fuel → specContent W L k n = .ok e.content)

def Inv (W : World) (L : Lib) (s : State) : Prop := FilesOk L s ∧ CacheOk W L s

/-- stamped entries stay stamped -/
def Mono (s s' : State) : Prop :=
  ∀ n e, s.entry n = some e → e.stamp.isSome → ∃ e', s'.entry n = some e' ∧ e'.stamp.isSome

/-- the parts of the state the invariant talks about are equal -/
def SameCore (s s' : State) : Prop := s'.cache = s.cache ∧ s'.files = s.files ∧ s'.names = s.names

structure Rel (W : World) (L : Lib) (s s' : State) : Prop where
  inv : Inv W L s'
  files : s'.files = s.files
  names : s'.names = s.names
  mono : Mono s s'
  loaded : s.cache.isSome → s'.cache.isSome

theorem SameCore.refl (s : State) : SameCore s s := ⟨rfl, rfl, rfl⟩

theorem SameCore.trans {a b c : State} (h1 : SameCore a b) (h2 : SameCore b c) : SameCore a c :=
  ⟨h2.1.trans h1.1, h2.2.1.trans h1.2.1, h2.2.2.trans h1.2.2⟩

theorem SameCore.symm {a b : State} (h : SameCore a b) : SameCore b a := ⟨h.1.symm, h.2.1.symm, h.2.2.symm⟩

theorem entry_of_sameCore {s s' : State} (h : SameCore s s') (n : Name) : s'.entry n = s.entry n := by
  unfold State.entry; rw [h.1]

theorem Inv.of_sameCore {W : World} {L : Lib} {s s' : State} (h : SameCore s s') (hi : Inv W L s) : Inv W L s' := by
  obtain ⟨hc, hf, hn⟩ := h
  refine ⟨⟨by rw [hn]; exact hi.1.1, by rw [hf]; exact hi.1.2⟩, ?_⟩
  intro T hT
  rw [hc] at hT
  exact hi.2 T hT

theorem Mono.refl (s : State) : Mono s s := fun _ e h hs => ⟨e, h, hs⟩

theorem Mono.trans {a b c : State} (h1 : Mono a b) (h2 : Mono b c) : Mono a c := by
  intro n e he hs
  obtain ⟨e1, h1e, h1s⟩ := h1 n e he hs
  exact h2 n e1 h1e h1s

theorem Mono.of_sameCore {s s' : State} (h : SameCore s s') : Mono s s' := by
  intro n e he hs
  exact ⟨e, by rw [entry_of_sameCore h]; exact he, hs⟩

theorem Rel.refl {W : World} {L : Lib} {s : State} (hi : Inv W L s) : Rel W L s s := ⟨hi, rfl, rfl, Mono.refl s, id⟩

theorem Rel.trans {W : World} {L : Lib} {a b c : State} (h1 : Rel W L a b) (h2 : Rel W L b c) : Rel W L a c :=
  ⟨h2.inv, h2.files.trans h1.files, h2.names.trans h1.names, h1.mono.trans h2.mono, fun h => h2.loaded (h1.loaded h)⟩

theorem Rel.of_sameCore {W : World} {L : Lib} {s s' : State} (hi : Inv W L s) (h : SameCore s s') : Rel W L s s' :=
  ⟨hi.of_sameCore h, h.2.1, h.2.2, Mono.of_sameCore h, fun hc => by rw [h.1]; exact hc⟩

theorem Rel.core_right {W : World} {L : Lib} {s s1 s2 : State} (h : Rel W L s s1) (hc : SameCore s1 s2) : Rel W L s s2 :=
  h.trans (Rel.of_sameCore h.inv hc)

theorem Rel.core_left {W : World} {L : Lib} {s0 s s1 : State} (hc : SameCore s0 s) (h : Rel W L s s1) (hi : Inv W L s0) :
    Rel W L s0 s1 := (Rel.of_sameCore hi hc).trans h

/-! cosmetic state changes -/

theorem sameCore_push (s : State) : SameCore s s.push := ⟨rfl, rfl, rfl⟩
theorem sameCore_pop (s : State) : SameCore s s.pop := by
  unfold State.pop; split <;> exact ⟨rfl, rfl, rfl⟩
theorem sameCore_setThy (s : State) (t : List Item) : SameCore s (s.setThy t) := ⟨rfl, rfl, rfl⟩
theorem sameCore_logEv (s : State) (e : Event) : SameCore s (s.logEv e) := ⟨rfl, rfl, rfl⟩

theorem pop_push_thy (s s1 : State) (hb : s1.blocks = s.push.blocks) : s1.pop.thy = s.thy ∧ s1.pop.blocks = s.blocks := by
  unfold State.pop
  simp only [State.push] at hb
  rw [hb]
  exact ⟨rfl, rfl⟩

/-! ### parsing with a fault -/

theorem parseAll_weaken (P P' : Item → List Item → PRes) (hP : ∀ i ctx, P' i ctx = P i ctx ∨ P' i ctx = .raise) :
    ∀ (items : List Item) (ctx : List Item) (c : List (Item × PRes)),
      parseAll P' ctx items = some c → parseAll P ctx items = some c := by
  intro items
  induction items with
  | nil => intro ctx c h; simpa [parseAll] using h
  | cons i rest ih =>
    intro ctx c h
    rw [parseAll] at h ⊢
    rcases hP i ctx with hp | hp
    · rw [hp] at h
      cases hq : P i ctx with
      | raise => rw [hq] at h; simp at h
      | ok =>
        rw [hq] at h
        simp only [] at h ⊢
        cases h1 : parseAll P' (ctx ++ [i]) rest with
        | none => rw [h1] at h; simp at h
        | some c1 => rw [h1] at h; rw [ih _ _ h1]; exact h
      | err =>
        rw [hq] at h
        simp only [] at h ⊢
        cases h1 : parseAll P' ctx rest with
        | none => rw [h1] at h; simp at h
        | some c1 => rw [h1] at h; rw [ih _ _ h1]; exact h
    · rw [hp] at h; simp at h

theorem parseAll_fault (W : World) (fault : Option Item) (items : List Item) (ctx : List Item) (c : List (Item × PRes))
    (h : parseAll (W.pf fault) ctx items = some c) : parseAll (W.pf none) ctx items = some c := by
  refine parseAll_weaken (W.pf none) (W.pf fault) ?_ items ctx c h
  intro i ctx
  unfold World.pf
  by_cases hf : fault = some i <;> simp [hf]

end Holpy.C12
