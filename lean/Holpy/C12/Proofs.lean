import Holpy.C12.Model
/-
C12 — helper lemmas for the property theorems in Props.lean.
-/
namespace Holpy.C12

end Holpy.C12
