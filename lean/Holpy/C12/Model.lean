/-
C12 — executable model of holpy's theory loader (`logic/basic.py` with the fixes C12-1..4,
`kernel/theory.py: fresh_theory`, the module-level `basic.load_theory` calls of the Python
modules).  Import-free: it is linked into the `c12_model` driver.

What is modelled, statement by statement:
* `load_metadata` / `check_topological_sort`   → `loadMetadata`, `topoCheck`
* `get_import_order`                           → `importOrder` (`dfs`)
* `load_theory_cache`                          → `exec … (.ltc n)`
* `load_theory`                                → `exec … (.load n lim)`
* `import m` of a Python module (import-once)  → `exec … (.imp m)`
* `fresh_theory` blocks                        → `push` / `pop` on `State.blocks`
An item is an opaque number; what parsing it gives is `World.parse item visibleItems`.
Python's recursion is modelled with fuel (`Err.fuel` has no Python counterpart).
-/
namespace Holpy.C12

abbrev Name := Nat
abbrev Item := Nat
abbrev Mod := Nat

/-- Result of `items.parse_item` + `unchecked_extend` for one item. -/
inductive PRes where
  | ok      -- `item.error is None`: the item contributes its extension
  | err     -- `item.error` set: kept in the content, contributes nothing
  | raise   -- an exception escapes (KeyboardInterrupt, extension that raises, …)
  deriving DecidableEq, Repr, Inhabited

inductive Err where
  | cycle   -- TheoryException "Cycle in imports" from `check_topological_sort`
  | key     -- KeyError: theory name not in the metadata
  | order   -- `get_import_order` fails (KeyError on an import / unbounded recursion)
  | parse   -- exception escaping while the file is parsed
  | limit   -- TheoryException "load_theory: limit … not found"
  | extend  -- `unchecked_extend` of an already parsed item raises (e.g. two imports declare the same constant)
  | fuel    -- model fuel exhausted
  deriving DecidableEq, Repr, Inhabited

/-- `limit` argument of `load_theory`: `None`, `'start'`, or the first item not to load. -/
inductive Limit where
  | none
  | start
  | item (i : Item)
  deriving DecidableEq, Repr, Inhabited

/-- Module-level statements of a Python module that matter here, in source order. -/
inductive Act where
  | imp (m : Mod)      -- `import m` / `from … import m`
  | load (n : Name)    -- `basic.load_theory('n')`
  deriving DecidableEq, Repr, Inhabited

/-- The static part: the code (lazy-import table, module bodies) and the parser. -/
structure World where
  parse : Item → List Item → PRes
  /-- can the extension of an (ok) item be added to the theory made of these items?  `unchecked_extend` raises
      e.g. "Constant c already exists" when it cannot. -/
  extend : Item → List Item → Bool
  lazyOf : Name → Option Mod
  body : Mod → List Act

/-- `items.parse_item` followed, for an ok item, by `theory.thy.unchecked_extend` (which may raise), with an
    injected fault: parsing item `fault` raises. -/
def World.pf (W : World) (fault : Option Item) (i : Item) (ctx : List Item) : PRes :=
  if fault = some i then .raise else
  match W.parse i ctx with
  | .ok => if W.extend i ctx then .ok else .raise
  | r => r

/-- `for item in content: if item.error is None: thy.unchecked_extend(item.get_extension())`:
    the theory so far and whether every extension went through -/
def extendList (W : World) : List Item → List Item → List Item × Bool
  | acc, [] => (acc, true)
  | acc, i :: is => if W.extend i acc then extendList W (acc ++ [i]) is else (acc, false)

structure File where
  imports : List Name
  items : List Item
  mtime : Nat
  deriving Repr, Inhabited

/-- One entry of `theory_cache[username]`. -/
structure Entry where
  imports : List Name
  stamp : Option Nat := none                -- 'timestamp'
  content : List (Item × PRes) := []        -- 'content'
  deps : List (Name × Nat) := []            -- 'depends' (fix C12-3)
  deriving Repr, Inhabited

inductive Event where
  | readFile (n : Name)     -- the file of theory `n` is parsed
  | execMod (m : Mod)      -- the body of module `m` is executed
  | metaLoad                -- load_metadata
  deriving DecidableEq, Repr, Inhabited

/-- library and cache of one user (`users/<name>/*.json`, `theory_cache[name]`): a user's theories import only
    theories of the same user's directory — there is no fall-back to the master library -/
structure Comp where
  names : List Name := []
  files : Name → File := fun _ => { imports := [], items := [], mtime := 0 }
  cache : Option (Name → Option Entry) := none

structure State where
  names : List Name                          -- os.listdir(user_dir) of the user in focus
  files : Name → File
  cache : Option (Name → Option Entry)       -- theory_cache.get(username)
  user : Nat := 0                            -- the user in focus (0 = master)
  others : Nat → Comp := fun _ => {}         -- libraries and caches of the users not in focus
  thy : Option (List Item)                   -- theory.thy (None at start)
  blocks : List (Option (List Item))         -- saved theories of the open fresh_theory blocks
  imported : Mod → Bool                      -- sys.modules
  log : List Event

abbrev R := Option Err × State

def okItems (c : List (Item × PRes)) : List Item :=
  c.filterMap fun x => if x.2 = .ok then some x.1 else none

/-- The parse loop of `load_theory_cache`: `none` when an exception escapes. -/
def parseAll (P : Item → List Item → PRes) (ctx : List Item) : List Item → Option (List (Item × PRes))
  | [] => some []
  | i :: rest =>
    match P i ctx with
    | .raise => none
    | .ok => (parseAll P (ctx ++ [i]) rest).map ((i, .ok) :: ·)
    | .err => (parseAll P ctx rest).map ((i, .err) :: ·)

/-! ### get_import_order -/

/-- `dfs` of `get_import_order`; `acc` is `depend_list`. -/
def dfs (imps : Name → Option (List Name)) : Nat → Name → List Name → Option (List Name)
  | 0, _, _ => none
  | f + 1, n, acc =>
    if n ∈ acc then some acc else
    match imps n with
    | none => none
    | some is =>
      match is.foldlM (fun a m => dfs imps f m a) acc with
      | none => none
      | some acc' => some (acc' ++ [n])

def importOrder (imps : Name → Option (List Name)) (bound : Nat) (names : List Name) : Option (List Name) :=
  names.foldlM (fun a m => dfs imps (bound + 1) m a) []

/-! ### check_topological_sort -/

/-- `dfs(name, path)` of `check_topological_sort`; returns the new visited list. -/
def topoDfs (imps : Name → Option (List Name)) : Nat → Name → List Name → List Name → Except Err (List Name)
  | 0, _, _, _ => .error .fuel
  | f + 1, n, path, visited =>
    match imps n with
    | none => .error .key
    | some is =>
      if n ∈ visited then .ok visited else
      if n ∈ path then .error .cycle else
      match is.foldlM (fun v m => topoDfs imps f m (path ++ [n]) v) visited with
      | .error e => .error e
      | .ok v => .ok (v ++ [n])

def topoCheck (imps : Name → Option (List Name)) (names : List Name) : Option Err :=
  match names.foldlM (fun v n => topoDfs imps (names.length + 2) n [] v) [] with
  | .error e => some e
  | .ok _ => none

/-! ### state helpers -/

def State.entry (s : State) (n : Name) : Option Entry := s.cache.bind (· n)

def State.imps (s : State) : Name → Option (List Name) := fun n => (s.entry n).map (·.imports)

def State.order (s : State) (is : List Name) : Option (List Name) :=
  importOrder s.imps s.names.length is

def State.setEntry (s : State) (n : Name) (e : Entry) : State :=
  { s with cache := s.cache.map fun T => fun k => if k = n then some e else T k }

def State.push (s : State) : State := { s with blocks := s.thy :: s.blocks, thy := some [] }

def State.pop (s : State) : State :=
  match s.blocks with
  | [] => s
  | t :: bs => { s with thy := t, blocks := bs }

def State.setThy (s : State) (t : List Item) : State := { s with thy := some t }

def State.logEv (s : State) (e : Event) : State := { s with log := s.log ++ [e] }

def metaTable (s : State) : Name → Option Entry :=
  fun n => if n ∈ s.names then some { imports := (s.files n).imports } else none

/-- `load_metadata` (fix C12-4: nothing is kept when the check fails). -/
def loadMetadata (s : State) : R :=
  let s := s.logEv .metaLoad
  let T := metaTable s
  match topoCheck (fun n => (T n).map (·.imports)) s.names with
  | some e => (some e, { s with cache := none })
  | none => (none, { s with cache := some T })

def Entry.valid (e : Entry) (s : State) (n : Name) : Bool :=
  e.stamp == some (s.files n).mtime && e.deps.all fun d => (s.files d.1).mtime == d.2

/-! ### the loader -/

inductive Call where
  | ltc (n : Name)                 -- load_theory_cache(n)
  | imp (m : Mod)                  -- import of module m
  | load (n : Name) (lim : Limit)  -- load_theory(n, limit=lim)
  deriving Repr, Inhabited

/-- `for prev_name in depend_list: prev_cache = load_theory_cache(prev_name); depends.append(…);
    thy.unchecked_extend(ok items)`. -/
def loopDeps (W : World) (rec : Name → State → R) : List Name → State → List (Name × Nat) → Option Err × State × List (Name × Nat)
  | [], s, acc => (none, s, acc)
  | p :: ps, s, acc =>
    match rec p s with
    | (some e, s') => (some e, s', acc)
    | (none, s') =>
      match s'.entry p with
      | none => (some .key, s', acc)
      | some e =>
        let x := extendList W (s'.thy.getD []) (okItems e.content)
        if x.2 then loopDeps W rec ps (s'.setThy x.1) (acc ++ [(p, e.stamp.getD 0)])
        else (some .extend, s'.setThy x.1, acc)

/-- module body: statements in order, the first exception stops it. -/
def runActs (rec : Call → State → R) : List Act → State → R
  | [], s => (none, s)
  | .imp m :: as, s =>
    match rec (.imp m) s with
    | (some e, s') => (some e, s')
    | (none, s') => runActs rec as s'
  | .load n :: as, s =>
    match rec (.load n .none) s with
    | (some e, s') => (some e, s')
    | (none, s') => runActs rec as s'

/-- items of `content` before the limit, and whether the limit was found -/
def beforeLimit (content : List (Item × PRes)) : Limit → List (Item × PRes) × Bool
  | .item i => (content.takeWhile (fun x => x.1 != i), content.any (fun x => x.1 == i))
  | _ => (content, true)

/-- `if username not in theory_cache: load_metadata(username)` -/
def ensureMeta (s : State) : R := if s.cache.isNone then loadMetadata s else (none, s)

/-- the lazy imports of `load_theory_cache`, inside their own fresh_theory block (fix C12-1) -/
def lazyStep (W : World) (rec : Call → State → R) (n : Name) (s : State) : R :=
  match W.lazyOf n with
  | none => (none, s)
  | some m => let r := rec (.imp m) s.push; (r.1, r.2.pop)

/-- parse the file in the theory built by the block; record the result only on success (fix C12-2) -/
def parseStep (W : World) (fault : Option Item) (n : Name) (e : Entry) (t : Nat) (deps : List (Name × Nat)) (s : State) : R :=
  let s := s.logEv (.readFile n)
  match parseAll (W.pf fault) (s.thy.getD []) (s.files n).items with
  | none => (some .parse, s.pop)
  | some content =>
    (none, s.pop.setEntry n { imports := e.imports, stamp := some t, content := content, deps := deps })

/-- `load_theory_cache` after the cache was found out of date -/
def ltcMiss (W : World) (fault : Option Item) (rec : Call → State → R) (n : Name) (e : Entry) (s : State) : R :=
  match lazyStep W rec n s with
  | (some e', s1) => (some e', s1)
  | (none, s1) =>
    -- depend_list = get_import_order(cache['imports'])
    match s1.order e.imports with
    | none => (some .order, s1)
    | some order =>
      -- with theory.fresh_theory(): for prev_name in depend_list: …
      match loopDeps W (fun p s => rec (.ltc p) s) order s1.push [] with
      | (some e', s2, _) => (some e', s2.pop)
      | (none, s2, deps) => parseStep W fault n e (s.files n).mtime deps s2

/-- `load_theory_cache(n)` -/
def ltcBody (W : World) (fault : Option Item) (rec : Call → State → R) (n : Name) (s : State) : R :=
  match ensureMeta s with
  | (some e, s1) => (some e, s1)
  | (none, s1) =>
    -- cache = theory_cache[username][filename]
    match s1.entry n with
    | none => (some .key, s1)
    | some e => if e.valid s1 n then (none, s1) else ltcMiss W fault rec n e s1

/-- first import of module `m`: its body runs once; a failing import is forgotten by sys.modules -/
def impBody (W : World) (rec : Call → State → R) (m : Mod) (s : State) : R :=
  if s.imported m then (none, s) else
  let s1 := { s with imported := fun k => if k = m then true else s.imported k }
  let s2 := s1.logEv (.execMod m)
  match runActs rec (W.body m) s2 with
  | (some e, s') => (some e, { s' with imported := fun k => if k = m then false else s'.imported k })
  | (none, s') => (none, s')

/-- the part of `load_theory` after the imports are loaded: own items before the limit -/
def loadFinish (W : World) (n : Name) (lim : Limit) (s : State) : R :=
  match lim with
  | .start => (none, s)
  | _ =>
    match s.entry n with
    | none => (some .key, s)
    | some e =>
      let bl := beforeLimit e.content lim
      let x := extendList W (s.thy.getD []) (okItems bl.1)
      let s' := s.setThy x.1
      if x.2 then (if bl.2 then (none, s') else (some .limit, s')) else (some .extend, s')

/-- `load_theory(n, limit=lim)` -/
def loadBody (W : World) (rec : Call → State → R) (n : Name) (lim : Limit) (s : State) : R :=
  match rec (.ltc n) s with
  | (some e, s1) => (some e, s1)
  | (none, s1) =>
    match s1.entry n with
    | none => (some .key, s1)
    | some e =>
      match s1.order e.imports with
      | none => (some .order, s1)
      | some order =>
        -- theory.thy = EmptyTheory(); for prev_name in depend_list: …
        match loopDeps W (fun p s => rec (.ltc p) s) order { s1 with thy := some [] } [] with
        | (some e', s2, _) => (some e', s2)
        | (none, s2, _) => loadFinish W n lim s2

def exec (W : World) (fault : Option Item) : Nat → Call → State → R
  | 0, _, s => (some .fuel, s)
  | f + 1, .ltc n, s => ltcBody W fault (exec W fault f) n s
  | f + 1, .imp m, s => impBody W (exec W fault f) m s
  | f + 1, .load n lim, s => loadBody W (exec W fault f) n lim s

/-! ### several users

`load_theory(name, username=u)` works on the library and cache of user `u`; the `basic.load_theory` calls made by
Python modules at import time have no username and work on master (user 0), whoever's load triggered the import. -/

def State.comp (s : State) (u : Nat) : Comp :=
  if u = s.user then { names := s.names, files := s.files, cache := s.cache } else s.others u

/-- bring user `u` into focus -/
def State.focus (s : State) (u : Nat) : State :=
  if u = s.user then s else
  { s with names := (s.others u).names, files := (s.others u).files, cache := (s.others u).cache, user := u,
           others := fun k => if k = s.user then { names := s.names, files := s.files, cache := s.cache } else s.others k }

inductive CallU where
  | ltc (n : Name)                           -- load_theory_cache(n, username = the user in focus)
  | imp (m : Mod)
  | load (u : Nat) (n : Name) (lim : Limit)  -- load_theory(n, limit=lim, username=u)
  deriving Repr, Inhabited

def Call.toU : Call → CallU
  | .ltc n => .ltc n
  | .imp m => .imp m
  | .load n lim => .load 0 n lim             -- module-level basic.load_theory(...): master

def execU (W : World) (fault : Option Item) : Nat → CallU → State → R
  | 0, _, s => (some .fuel, s)
  | f + 1, .ltc n, s => ltcBody W fault (fun c st => execU W fault f c.toU st) n s
  | f + 1, .imp m, s => impBody W (fun c st => execU W fault f c.toU st) m s
  | f + 1, .load u n lim, s =>
    let r := loadBody W (fun c st => execU W fault f c.toU st) n lim (s.focus u)
    (r.1, r.2.focus s.user)

inductive OpU where
  | load (u : Nat) (n : Name) (lim : Limit) (fault : Option Item)
  | imp (m : Mod)
  | touch (u : Nat) (n : Name) (t : Nat)
  | edit (u : Nat) (n : Name) (imports : List Name) (items : List Item) (t : Nat)
  | reloadMeta (u : Nat)
  deriving Repr, Inhabited

/-! ### histories -/

inductive Op where
  | load (n : Name) (lim : Limit) (fault : Option Item)   -- load_theory, possibly interrupted
  | imp (m : Mod)                                           -- `import m` at top level
  | touch (n : Name) (t : Nat)                              -- os.utime(file n, t)
  | edit (n : Name) (imports : List Name) (items : List Item) (t : Nat)   -- new file (imports, content), new mtime
  | reloadMeta                                              -- basic.load_metadata()
  deriving Repr, Inhabited

def setFile (s : State) (n : Name) (f : File) : State :=
  { s with files := fun k => if k = n then f else s.files k }

def step (W : World) (fuel : Nat) (op : Op) (s : State) : R :=
  match op with
  | .load n lim fault => exec W fault fuel (.load n lim) s
  | .imp m => exec W none fuel (.imp m) s
  | .touch n t => (none, setFile s n { s.files n with mtime := t })
  | .edit n imports items t => (none, setFile s n { imports := imports, items := items, mtime := t })
  | .reloadMeta => loadMetadata s

/-- run a history; an op that raises is caught by the caller and the history goes on -/
def run (W : World) (fuel : Nat) : List Op → State → State
  | [], s => s
  | op :: ops, s => run W fuel ops (step W fuel op s).2

def stepU (W : World) (fuel : Nat) (op : OpU) (s : State) : R :=
  match op with
  | .load u n lim fault => execU W fault fuel (.load u n lim) s
  | .imp m => execU W none fuel (.imp m) s
  | .touch u n t => let s1 := s.focus u; (none, (setFile s1 n { s1.files n with mtime := t }).focus s.user)
  | .edit u n imports items t => (none, (setFile (s.focus u) n { imports := imports, items := items, mtime := t }).focus s.user)
  | .reloadMeta u => let r := loadMetadata (s.focus u); (r.1, r.2.focus s.user)

def initState (names : List Name) (files : Name → File) : State :=
  { names := names, files := files, cache := none, thy := none, blocks := [], imported := fun _ => false, log := [] }

/-! ### specification -/

def ctxOf (W : World) (rec : Name → Except Err (List (Item × PRes))) : List Name → List Item → Except Err (List Item)
  | [], acc => .ok acc
  | p :: ps, acc =>
    match rec p with
    | .error e => .error e
    | .ok c =>
      let x := extendList W acc (okItems c)
      if x.2 then ctxOf W rec ps x.1 else .error .extend

/-- The static library the files hold: imports and items per name (`none` outside the directory). -/
structure Lib where
  names : List Name
  imports : Name → List Name
  items : Name → List Item

def Lib.imps (L : Lib) : Name → Option (List Name) := fun n => if n ∈ L.names then some (L.imports n) else none

def Lib.order (L : Lib) (is : List Name) : Option (List Name) := importOrder L.imps L.names.length is

/-- content of theory `n`: its items, each with its parse result in the context formed by the ok
    items of its transitive imports (in `get_import_order` order) and its own earlier ok items. -/
def specContent (W : World) (L : Lib) : Nat → Name → Except Err (List (Item × PRes))
  | 0, _ => .error .fuel
  | k + 1, n =>
    match L.imps n with
    | none => .error .key
    | some is =>
      match L.order is with
      | none => .error .order
      | some ord =>
        match ctxOf W (specContent W L k) ord [] with
        | .error e => .error e
        | .ok ctx =>
          match parseAll (W.pf none) ctx (L.items n) with
          | none => .error .parse
          | some c => .ok c

/-- what `load_theory(n, limit)` must leave in `theory.thy` -/
def specLoad (W : World) (L : Lib) (k : Nat) (n : Name) (lim : Limit) : Except Err (List Item) :=
  match topoCheck L.imps L.names with
  | some e => .error e
  | none =>
    match specContent W L k n with
    | .error e => .error e
    | .ok c =>
      match L.order (L.imports n) with
      | none => .error .order
      | some ord =>
        match ctxOf W (specContent W L k) ord [] with
        | .error e => .error e
        | .ok ctx =>
          match lim with
          | .start => .ok ctx
          | _ =>
            let bl := beforeLimit c lim
            let x := extendList W ctx (okItems bl.1)
            if x.2 then (if bl.2 then .ok x.1 else .error .limit) else .error .extend

def State.lib (s : State) : Lib :=
  { names := s.names, imports := fun n => (s.files n).imports, items := fun n => (s.files n).items }

end Holpy.C12
