import Holpy.C12.Users
/-
C12 — the single-user loader never touches the stored libraries and caches of the users that are not in focus.
-/
namespace Holpy.C12

/-- focus and the components out of focus are the same -/
def Fr (s s' : State) : Prop := s'.user = s.user ∧ s'.others = s.others

theorem Fr.refl (s : State) : Fr s s := ⟨rfl, rfl⟩
theorem Fr.trans {a b c : State} (h1 : Fr a b) (h2 : Fr b c) : Fr a c := ⟨h2.1.trans h1.1, h2.2.trans h1.2⟩

theorem fr_pop (s : State) : Fr s s.pop := by unfold State.pop; split <;> exact ⟨rfl, rfl⟩
theorem fr_push (s : State) : Fr s s.push := ⟨rfl, rfl⟩
theorem fr_setThy (s : State) (t : List Item) : Fr s (s.setThy t) := ⟨rfl, rfl⟩
theorem fr_logEv (s : State) (e : Event) : Fr s (s.logEv e) := ⟨rfl, rfl⟩
theorem fr_setEntry (s : State) (n : Name) (e : Entry) : Fr s (s.setEntry n e) := ⟨rfl, rfl⟩

theorem fr_loadMetadata (s : State) : Fr s (loadMetadata s).2 := by
  unfold loadMetadata; simp only []; split <;> exact ⟨rfl, rfl⟩

theorem fr_ensureMeta (s : State) : Fr s (ensureMeta s).2 := by
  unfold ensureMeta; split
  · exact fr_loadMetadata s
  · exact Fr.refl s

theorem fr_loopDeps (W : World) (rec : Name → State → R) (hrec : ∀ p s, Fr s (rec p s).2) :
    ∀ order s acc, Fr s (loopDeps W rec order s acc).2.1 := by
  intro order
  induction order with
  | nil => intro s acc; exact Fr.refl s
  | cons p ps ih =>
    intro s acc
    rw [loopDeps]
    have h := hrec p s
    rcases hr : rec p s with ⟨r1, s1⟩
    rw [hr] at h
    cases r1 with
    | some e => exact h
    | none =>
      simp only []
      cases he : s1.entry p with
      | none => exact h
      | some e =>
        simp only []
        split
        · exact h.trans ((fr_setThy _ _).trans (ih _ _))
        · exact h.trans (fr_setThy _ _)

theorem fr_runActs (rec : Call → State → R) (hrec : ∀ c s, Fr s (rec c s).2) :
    ∀ acts s, Fr s (runActs rec acts s).2 := by
  intro acts
  induction acts with
  | nil => intro s; exact Fr.refl s
  | cons a as ih =>
    intro s
    cases a with
    | imp m =>
      rw [runActs]
      have h := hrec (.imp m) s
      rcases hr : rec (.imp m) s with ⟨r1, s1⟩
      rw [hr] at h
      cases r1 with
      | some e => exact h
      | none => exact h.trans (ih s1)
    | load n =>
      rw [runActs]
      have h := hrec (.load n .none) s
      rcases hr : rec (.load n .none) s with ⟨r1, s1⟩
      rw [hr] at h
      cases r1 with
      | some e => exact h
      | none => exact h.trans (ih s1)

theorem fr_lazyStep (W : World) (rec : Call → State → R) (hrec : ∀ c s, Fr s (rec c s).2) (n : Name) (s : State) :
    Fr s (lazyStep W rec n s).2 := by
  unfold lazyStep
  split
  · exact Fr.refl s
  · exact (fr_push s).trans ((hrec _ _).trans (fr_pop _))

theorem fr_parseStep (W : World) (fault : Option Item) (n : Name) (e : Entry) (t : Nat) (deps : List (Name × Nat)) (s : State) :
    Fr s (parseStep W fault n e t deps s).2 := by
  unfold parseStep
  simp only []
  split
  · exact (fr_logEv s _).trans (fr_pop _)
  · exact (fr_logEv s _).trans ((fr_pop _).trans (fr_setEntry _ _ _))

theorem fr_ltcMiss (W : World) (fault : Option Item) (rec : Call → State → R) (hrec : ∀ c s, Fr s (rec c s).2)
    (n : Name) (e : Entry) (s : State) : Fr s (ltcMiss W fault rec n e s).2 := by
  unfold ltcMiss
  have h1 := fr_lazyStep W rec hrec n s
  rcases hl : lazyStep W rec n s with ⟨r1, s1⟩
  rw [hl] at h1
  cases r1 with
  | some e' => exact h1
  | none =>
    simp only []
    cases s1.order e.imports with
    | none => exact h1
    | some order =>
      simp only []
      have h2 := fr_loopDeps W (fun p s => rec (.ltc p) s) (fun p s => hrec _ s) order s1.push []
      rcases hp : loopDeps W (fun p s => rec (.ltc p) s) order s1.push [] with ⟨r2, s2, deps⟩
      rw [hp] at h2
      cases r2 with
      | some e' => exact h1.trans ((fr_push s1).trans (h2.trans (fr_pop _)))
      | none => exact h1.trans ((fr_push s1).trans (h2.trans (fr_parseStep W fault n e _ deps s2)))

theorem fr_ltcBody (W : World) (fault : Option Item) (rec : Call → State → R) (hrec : ∀ c s, Fr s (rec c s).2)
    (n : Name) (s : State) : Fr s (ltcBody W fault rec n s).2 := by
  unfold ltcBody
  have h1 := fr_ensureMeta s
  rcases he : ensureMeta s with ⟨r1, s1⟩
  rw [he] at h1
  cases r1 with
  | some e => exact h1
  | none =>
    simp only []
    cases s1.entry n with
    | none => exact h1
    | some e =>
      simp only []
      split
      · exact h1
      · exact h1.trans (fr_ltcMiss W fault rec hrec n e s1)

theorem fr_impBody (W : World) (rec : Call → State → R) (hrec : ∀ c s, Fr s (rec c s).2) (m : Mod) (s : State) :
    Fr s (impBody W rec m s).2 := by
  unfold impBody
  split
  · exact Fr.refl s
  · simp only []
    have h := fr_runActs rec hrec (W.body m)
      (State.logEv { s with imported := fun k => if k = m then true else s.imported k } (.execMod m))
    rcases hr : runActs rec (W.body m)
      (State.logEv { s with imported := fun k => if k = m then true else s.imported k } (.execMod m)) with ⟨r1, s1⟩
    rw [hr] at h
    cases r1 with
    | some e => exact ⟨h.1, h.2⟩
    | none => exact ⟨h.1, h.2⟩

theorem fr_loadFinish (W : World) (n : Name) (lim : Limit) (s : State) : Fr s (loadFinish W n lim s).2 := by
  unfold loadFinish
  split
  · exact Fr.refl s
  · split
    · exact Fr.refl s
    · simp only []
      split
      · split <;> exact ⟨rfl, rfl⟩
      · exact ⟨rfl, rfl⟩

theorem fr_loadBody (W : World) (rec : Call → State → R) (hrec : ∀ c s, Fr s (rec c s).2) (n : Name) (lim : Limit) (s : State) :
    Fr s (loadBody W rec n lim s).2 := by
  unfold loadBody
  have h1 := hrec (.ltc n) s
  rcases hr : rec (.ltc n) s with ⟨r1, s1⟩
  rw [hr] at h1
  cases r1 with
  | some e => exact h1
  | none =>
    simp only []
    cases s1.entry n with
    | none => exact h1
    | some e =>
      simp only []
      cases s1.order e.imports with
      | none => exact h1
      | some order =>
        simp only []
        have h2 := fr_loopDeps W (fun p s => rec (.ltc p) s) (fun p s => hrec _ s) order { s1 with thy := some [] } []
        rcases hp : loopDeps W (fun p s => rec (.ltc p) s) order { s1 with thy := some [] } [] with ⟨r2, s2, deps⟩
        rw [hp] at h2
        have h12 : Fr s s2 := h1.trans (Fr.trans ⟨rfl, rfl⟩ h2)
        cases r2 with
        | some e' => exact h12
        | none => exact h12.trans (fr_loadFinish W n lim s2)

/-- the single-user loader leaves the focus and every component out of focus alone -/
theorem fr_exec (W : World) (fault : Option Item) : ∀ f c s, Fr s (exec W fault f c s).2 := by
  intro f
  induction f with
  | zero => intro c s; exact Fr.refl s
  | succ f ih =>
    intro c s
    cases c with
    | ltc n => exact fr_ltcBody W fault _ ih n s
    | imp m => exact fr_impBody W _ ih m s
    | load n lim => exact fr_loadBody W _ ih n lim s

end Holpy.C12
