import Holpy.C12.Users
/-
C12 — isolation of users: whatever is done for the users other than `A` (loads with everything they trigger, i.e.
lazily imported modules and the master loads these make) never touches the stored library and cache of `A`.
-/
namespace Holpy.C12

variable {A : Nat}

/-- the focus is the same and the stored component of user `A` (out of focus) is the same -/
def Fr (A : Nat) (s s' : State) : Prop := s'.user = s.user ∧ s'.others A = s.others A

theorem Fr.refl (s : State) : Fr A s s := ⟨rfl, rfl⟩
theorem Fr.trans {a b c : State} (h1 : Fr A a b) (h2 : Fr A b c) : Fr A a c := ⟨h2.1.trans h1.1, h2.2.trans h1.2⟩
theorem Fr.ne {s s' : State} (h : Fr A s s') (hs : s.user ≠ A) : s'.user ≠ A := by rw [h.1]; exact hs

theorem fr_pop (s : State) : Fr A s s.pop := by unfold State.pop; split <;> exact ⟨rfl, rfl⟩
theorem fr_push (s : State) : Fr A s s.push := ⟨rfl, rfl⟩
theorem fr_setThy (s : State) (t : List Item) : Fr A s (s.setThy t) := ⟨rfl, rfl⟩
theorem fr_logEv (s : State) (e : Event) : Fr A s (s.logEv e) := ⟨rfl, rfl⟩
theorem fr_setEntry (s : State) (n : Name) (e : Entry) : Fr A s (s.setEntry n e) := ⟨rfl, rfl⟩

theorem fr_loadMetadata (s : State) : Fr A s (loadMetadata s).2 := by
  unfold loadMetadata; simp only []; split <;> exact ⟨rfl, rfl⟩

theorem fr_ensureMeta (s : State) : Fr A s (ensureMeta s).2 := by
  unfold ensureMeta; split
  · exact fr_loadMetadata s
  · exact Fr.refl s

/-- what a body may assume about its recursive calls: fine on every state whose focus is not `A` -/
def RecFr (A : Nat) (rec : Call → State → R) : Prop := ∀ c s, s.user ≠ A → Fr A s (rec c s).2

theorem fr_loopDeps (W : World) (rec : Call → State → R) (hrec : RecFr A rec) :
    ∀ order s acc, s.user ≠ A → Fr A s (loopDeps W (fun p s => rec (.ltc p) s) order s acc).2.1 := by
  intro order
  induction order with
  | nil => intro s acc _; exact Fr.refl s
  | cons p ps ih =>
    intro s acc hs
    rw [loopDeps]
    have h := hrec (.ltc p) s hs
    rcases hr : rec (.ltc p) s with ⟨r1, s1⟩
    rw [hr] at h
    cases r1 with
    | some e => exact h
    | none =>
      simp only []
      cases he : s1.entry p with
      | none => exact h
      | some e =>
        simp only []
        split
        · exact h.trans ((fr_setThy _ _).trans (ih _ _ (h.ne hs)))
        · exact h.trans (fr_setThy _ _)

theorem fr_runActs (rec : Call → State → R) (hrec : RecFr A rec) :
    ∀ acts s, s.user ≠ A → Fr A s (runActs rec acts s).2 := by
  intro acts
  induction acts with
  | nil => intro s _; exact Fr.refl s
  | cons a as ih =>
    intro s hs
    cases a with
    | imp m =>
      rw [runActs]
      have h := hrec (.imp m) s hs
      rcases hr : rec (.imp m) s with ⟨r1, s1⟩
      rw [hr] at h
      cases r1 with
      | some e => exact h
      | none => exact h.trans (ih s1 (h.ne hs))
    | load n =>
      rw [runActs]
      have h := hrec (.load n .none) s hs
      rcases hr : rec (.load n .none) s with ⟨r1, s1⟩
      rw [hr] at h
      cases r1 with
      | some e => exact h
      | none => exact h.trans (ih s1 (h.ne hs))

theorem fr_lazyStep (W : World) (rec : Call → State → R) (hrec : RecFr A rec) (n : Name) (s : State) (hs : s.user ≠ A) :
    Fr A s (lazyStep W rec n s).2 := by
  unfold lazyStep
  split
  · exact Fr.refl s
  · rename_i m _
    simp only []
    exact (fr_push s).trans ((hrec (.imp m) s.push hs).trans (fr_pop _))

theorem fr_parseStep (W : World) (fault : Option Item) (n : Name) (e : Entry) (t : Nat) (deps : List (Name × Nat)) (s : State) :
    Fr A s (parseStep W fault n e t deps s).2 := by
  unfold parseStep
  simp only []
  split
  · exact (fr_logEv s _).trans (fr_pop _)
  · exact (fr_logEv s _).trans ((fr_pop _).trans (fr_setEntry _ _ _))

theorem fr_ltcMiss (W : World) (fault : Option Item) (rec : Call → State → R) (hrec : RecFr A rec)
    (n : Name) (e : Entry) (s : State) (hs : s.user ≠ A) : Fr A s (ltcMiss W fault rec n e s).2 := by
  unfold ltcMiss
  have h1 := fr_lazyStep W rec hrec n s hs
  rcases hl : lazyStep W rec n s with ⟨r1, s1⟩
  rw [hl] at h1
  cases r1 with
  | some e' => exact h1
  | none =>
    simp only []
    cases s1.order e.imports with
    | none => exact h1
    | some order =>
      simp only []
      have h2 := fr_loopDeps W rec hrec order s1.push [] (h1.ne hs)
      rcases hp : loopDeps W (fun p s => rec (.ltc p) s) order s1.push [] with ⟨r2, s2, deps⟩
      rw [hp] at h2
      cases r2 with
      | some e' => exact h1.trans ((fr_push s1).trans (h2.trans (fr_pop _)))
      | none => exact h1.trans ((fr_push s1).trans (h2.trans (fr_parseStep W fault n e _ deps s2)))

theorem fr_ltcBody (W : World) (fault : Option Item) (rec : Call → State → R) (hrec : RecFr A rec)
    (n : Name) (s : State) (hs : s.user ≠ A) : Fr A s (ltcBody W fault rec n s).2 := by
  unfold ltcBody
  have h1 : Fr A s (ensureMeta s).2 := fr_ensureMeta s
  rcases he : ensureMeta s with ⟨r1, s1⟩
  rw [he] at h1
  cases r1 with
  | some e => exact h1
  | none =>
    simp only []
    cases s1.entry n with
    | none => exact h1
    | some e =>
      simp only []
      split
      · exact h1
      · exact h1.trans (fr_ltcMiss W fault rec hrec n e s1 (h1.ne hs))

theorem fr_impBody (W : World) (rec : Call → State → R) (hrec : RecFr A rec) (m : Mod) (s : State) (hs : s.user ≠ A) :
    Fr A s (impBody W rec m s).2 := by
  unfold impBody
  split
  · exact Fr.refl s
  · simp only []
    have h := fr_runActs rec hrec (W.body m)
      (State.logEv { s with imported := fun k => if k = m then true else s.imported k } (.execMod m)) hs
    rcases hr : runActs rec (W.body m)
      (State.logEv { s with imported := fun k => if k = m then true else s.imported k } (.execMod m)) with ⟨r1, s1⟩
    rw [hr] at h
    cases r1 with
    | some e => exact ⟨h.1, h.2⟩
    | none => exact ⟨h.1, h.2⟩

theorem fr_loadFinish (W : World) (n : Name) (lim : Limit) (s : State) : Fr A s (loadFinish W n lim s).2 := by
  unfold loadFinish
  split
  · exact Fr.refl s
  · split
    · exact Fr.refl s
    · simp only []
      split
      · split <;> exact ⟨rfl, rfl⟩
      · exact ⟨rfl, rfl⟩

theorem fr_loadBody (W : World) (rec : Call → State → R) (hrec : RecFr A rec) (n : Name) (lim : Limit) (s : State)
    (hs : s.user ≠ A) : Fr A s (loadBody W rec n lim s).2 := by
  unfold loadBody
  have h1 := hrec (.ltc n) s hs
  rcases hr : rec (.ltc n) s with ⟨r1, s1⟩
  rw [hr] at h1
  cases r1 with
  | some e => exact h1
  | none =>
    simp only []
    cases s1.entry n with
    | none => exact h1
    | some e =>
      simp only []
      cases s1.order e.imports with
      | none => exact h1
      | some order =>
        simp only []
        have h2 := fr_loopDeps W rec hrec order { s1 with thy := some [] } [] (h1.ne hs)
        rcases hp : loopDeps W (fun p s => rec (.ltc p) s) order { s1 with thy := some [] } [] with ⟨r2, s2, deps⟩
        rw [hp] at h2
        have h12 : Fr A s s2 := h1.trans (Fr.trans ⟨rfl, rfl⟩ h2)
        cases r2 with
        | some e' => exact h12
        | none => exact h12.trans (fr_loadFinish W n lim s2)

theorem fr_focus (s : State) (u : Nat) (hu : u ≠ A) (hs : s.user ≠ A) :
    (s.focus u).user = u ∧ (s.focus u).others A = s.others A := by
  by_cases h : u = s.user
  · have : s.focus u = s := by unfold State.focus; simp [h]
    rw [this]; exact ⟨h.symm, rfl⟩
  · have hA : ¬ A = s.user := fun h' => hs h'.symm
    unfold State.focus
    rw [if_neg h]
    exact ⟨rfl, by simp [hA]⟩

/-- which calls may touch the component of user `A`: none but a load for `A` itself -/
def CallU.avoids (A : Nat) : CallU → Prop
  | .load u _ _ => u ≠ A
  | _ => True

/-- Loads of any user other than `A`, with everything they trigger (lazily imported modules and the master loads
    these make), leave the stored library and cache of user `A` alone (`A` not master, not in focus). -/
theorem fr_execU (W : World) (fault : Option Item) (hA : A ≠ 0) :
    ∀ f (c : CallU) (s : State), s.user ≠ A → c.avoids A → Fr A s (execU W fault f c s).2 := by
  intro f
  induction f with
  | zero => intro c s _ _; exact Fr.refl s
  | succ f ih =>
    have hrec : RecFr A (fun c st => execU W fault f c.toU st) := by
      intro c s hs
      apply ih _ _ hs
      cases c with
      | ltc n => trivial
      | imp m => trivial
      | load n lim => exact fun h => hA h.symm
    intro c s hs hc
    cases c with
    | ltc n => rw [execU]; exact fr_ltcBody W fault _ hrec n s hs
    | imp m => rw [execU]; exact fr_impBody W _ hrec m s hs
    | load u n lim =>
      rw [execU]
      simp only []
      obtain ⟨hf1, hf2⟩ := fr_focus (A := A) s u hc hs
      obtain ⟨hb1, hb2⟩ := fr_loadBody W (fun c st => execU W fault f c.toU st) hrec n lim (s.focus u) (by rw [hf1]; exact hc)
      have hu2 : (loadBody W (fun c st => execU W fault f c.toU st) n lim (s.focus u)).2.user ≠ A := by rw [hb1, hf1]; exact hc
      obtain ⟨hg1, hg2⟩ := fr_focus (A := A) (loadBody W (fun c st => execU W fault f c.toU st) n lim (s.focus u)).2 s.user hs hu2
      exact ⟨hg1, by rw [hg2, hb2, hf2]⟩

end Holpy.C12
