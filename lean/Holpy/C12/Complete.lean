import Holpy.C12.Exec2
/-
C12 — no spurious failure: on a healthy library (no item raises, the cycle check passes, every
import order exists, modules only load theories of the library) a load without an injected fault
fails only by running out of model fuel or, for `load_theory`, because the limit is missing.
-/
namespace Holpy.C12

variable (W : World) (L : Lib) (U : Used)

structure Healthy : Prop where
  noRaise : ∀ i ctx, W.parse i ctx ≠ .raise
  /-- no two items clash: every extension can be added to every theory (no "Constant … already exists") -/
  noClash : ∀ i ctx, W.extend i ctx = true
  topo : topoCheck L.imps L.names = none
  orders : ∀ n ∈ L.names, ∃ ord, L.order (L.imports n) = some ord ∧ ∀ p ∈ ord, p ∈ L.names
  modLoads : ∀ m n, Act.load n ∈ W.body m → n ∈ L.names

def OkOrFuel (r : Option Err) : Prop := r = none ∨ r = some .fuel

def Post2 : Call → R → Prop
  | .ltc n, r => n ∈ L.names → OkOrFuel r.1
  | .imp _, r => OkOrFuel r.1
  | .load n lim, r => n ∈ L.names → OkOrFuel r.1 ∨ (r.1 = some .limit ∧ ∃ i, lim = .item i)

def RecOk2 (rec : Call → State → R) : Prop := ∀ c s, Inv W L U s → Post2 L c (rec c s)

theorem parseAll_noRaise (P : Item → List Item → PRes) (hP : ∀ i ctx, P i ctx ≠ .raise) :
    ∀ (items ctx : List Item), (parseAll P ctx items).isSome := by
  intro items
  induction items with
  | nil => intro ctx; rfl
  | cons i rest ih =>
    intro ctx
    rw [parseAll]
    cases hp : P i ctx with
    | raise => exact absurd hp (hP i ctx)
    | ok =>
      simp only []
      have := ih (ctx ++ [i])
      obtain ⟨c, hc⟩ := Option.isSome_iff_exists.mp this
      rw [hc]; rfl
    | err =>
      simp only []
      have := ih ctx
      obtain ⟨c, hc⟩ := Option.isSome_iff_exists.mp this
      rw [hc]; rfl

theorem pf_none_noRaise (hH : Healthy W L) (i : Item) (ctx : List Item) : W.pf none i ctx ≠ .raise := by
  unfold World.pf
  simp only [reduceCtorEq, if_false]
  cases hp : W.parse i ctx with
  | raise => exact absurd hp (hH.noRaise i ctx)
  | ok => simp [hH.noClash i ctx]
  | err => simp

theorem extendList_ok (hH : Healthy W L) : ∀ (items acc : List Item), (extendList W acc items).2 = true := by
  intro items
  induction items with
  | nil => intro acc; rfl
  | cons i is ih =>
    intro acc
    rw [extendList]
    simp only [hH.noClash i acc, if_true]
    exact ih _

theorem entry_of_mem {s : State} (hi : Inv W L U s) (hc : s.cache.isSome) {n : Name} (hn : n ∈ L.names) :
    ∃ e, s.entry n = some e ∧ e.imports = L.imports n := by
  obtain ⟨T, hT⟩ := Option.isSome_iff_exists.mp hc
  have h := (hi.2.1 T hT).2.1 n
  unfold Lib.imps at h
  simp only [hn, if_true] at h
  cases hTn : T n with
  | none => rw [hTn] at h; simp at h
  | some e =>
    rw [hTn] at h
    simp only [Option.map_some, Option.some.injEq] at h
    exact ⟨e, by unfold State.entry; rw [hT]; exact hTn, h⟩

theorem loopDeps_ok (hH : Healthy W L) {rec : Name → State → R} (hrec : ∀ p s, Inv W L U s → LtcPost W L U p s (rec p s))
    (hrec2 : ∀ p s, Inv W L U s → p ∈ L.names → OkOrFuel (rec p s).1) :
    ∀ (order : List Name) (s : State) (acc : List (Name × Nat)), Inv W L U s → (∀ p ∈ order, p ∈ L.names) →
      OkOrFuel (loopDeps W rec order s acc).1 := by
  intro order
  induction order with
  | nil => intro s acc _ _; exact Or.inl rfl
  | cons p ps ih =>
    intro s acc hi hmem
    rw [loopDeps]
    have h1 := hrec p s hi
    have h2 := hrec2 p s hi (hmem p (List.mem_cons_self ..))
    rcases hr : rec p s with ⟨r1, s1⟩
    rw [hr] at h1 h2
    obtain ⟨hrel, _, _, hent⟩ := h1
    cases r1 with
    | some e =>
      simp only [] at h2 ⊢
      exact h2
    | none =>
      obtain ⟨e, he, _⟩ := hent rfl
      simp only [he, extendList_ok W L hH, if_true]
      exact ih _ _ (hrel.inv.of_sameCore (sameCore_setThy _ _)) (fun q hq => hmem q (List.mem_cons_of_mem _ hq))

theorem ltcBody_ok (hH : Healthy W L) {rec : Call → State → R} (hrec : RecOk W L U none rec) (hrec2 : RecOk2 W L U rec)
    (n : Name) (hn : n ∈ L.names) {s : State} (hi : Inv W L U s) : OkOrFuel (ltcBody W none rec n s).1 := by
  unfold ltcBody
  obtain ⟨hm1, _, _, hm4⟩ := ensureMeta_post W L U hi
  have hmeta : (ensureMeta s).1 = none := by
    unfold ensureMeta
    by_cases hc : s.cache.isNone = true
    · rw [if_pos hc]
      have h7 := (loadMetadata_inv W L U hi.1 hi.2.2).2.2.2.2.2.2
      cases hl : (loadMetadata s).1 with
      | none => rfl
      | some e =>
        have := (h7 (by rw [hl]; intro h; cases h)).2
        rw [hH.topo, hl] at this; cases this
    · rw [if_neg hc]
  rcases hem : ensureMeta s with ⟨r1, s1⟩
  rw [hem] at hm1 hm4 hmeta
  simp only [] at hm1 hm4 hmeta
  subst hmeta
  simp only []
  have hc1 : s1.cache.isSome := hm4 rfl
  obtain ⟨e, he, himp⟩ := entry_of_mem W L U hm1.inv hc1 hn
  simp only [he]
  by_cases hv : e.valid s1 n = true
  · rw [if_pos hv]; exact Or.inl rfl
  · rw [if_neg hv]
    unfold ltcMiss
    obtain ⟨hl1, _, _⟩ := lazyStep_post W L U hrec n hm1.inv
    have hlz : OkOrFuel (lazyStep W rec n s1).1 := by
      unfold lazyStep
      cases W.lazyOf n with
      | none => exact Or.inl rfl
      | some m => exact hrec2 (.imp m) s1.push (hm1.inv.of_sameCore (sameCore_push s1))
    rcases hls : lazyStep W rec n s1 with ⟨r2, s2⟩
    rw [hls] at hl1 hlz
    simp only [] at hl1 hlz
    cases r2 with
    | some e' => exact hlz
    | none =>
      simp only []
      have hc2 : s2.cache.isSome := hl1.loaded hc1
      obtain ⟨T2, hT2⟩ := Option.isSome_iff_exists.mp hc2
      rw [order_eq W L U hl1.inv hT2, himp]
      obtain ⟨ord, hord, hmem⟩ := hH.orders n hn
      rw [hord]
      simp only []
      have hipush : Inv W L U s2.push := hl1.inv.of_sameCore (sameCore_push s2)
      have hlo := loopDeps_ok W L U hH (rec := fun p s => rec (.ltc p) s) (fun p s hs => hrec (.ltc p) s hs)
        (fun p s hs hp => hrec2 (.ltc p) s hs hp) ord s2.push [] hipush hmem
      rcases hlp : loopDeps W (fun p s => rec (.ltc p) s) ord s2.push [] with ⟨r3, s3, deps⟩
      rw [hlp] at hlo
      cases r3 with
      | some e' => exact hlo
      | none =>
        simp only []
        unfold parseStep
        simp only []
        have hpa := parseAll_noRaise (W.pf none) (pf_none_noRaise W L hH)
          ((s3.logEv (.readFile n)).files n).items ((s3.logEv (.readFile n)).thy.getD [])
        obtain ⟨c, hc⟩ := Option.isSome_iff_exists.mp hpa
        rw [hc]
        exact Or.inl rfl

theorem runActs_ok (hH : Healthy W L) {rec : Call → State → R} (hrec : RecOk W L U none rec) (hrec2 : RecOk2 W L U rec) (m : Mod) :
    ∀ (acts : List Act) (s : State), (∀ a ∈ acts, a ∈ W.body m) → Inv W L U s → OkOrFuel (runActs rec acts s).1 := by
  intro acts
  induction acts with
  | nil => intro s _ _; exact Or.inl rfl
  | cons a as ih =>
    intro s hsub hi
    cases a with
    | imp m' =>
      rw [runActs]
      have h1 := hrec (.imp m') s hi
      have h2 := hrec2 (.imp m') s hi
      rcases hr : rec (.imp m') s with ⟨r1, s1⟩
      rw [hr] at h1 h2
      cases r1 with
      | some e => exact h2
      | none => exact ih s1 (fun a ha => hsub a (List.mem_cons_of_mem _ ha)) h1.1.inv
    | load n =>
      rw [runActs]
      have hn : n ∈ L.names := hH.modLoads m n (hsub _ (List.mem_cons_self ..))
      have h1 := hrec (.load n .none) s hi
      have h2 := hrec2 (.load n .none) s hi hn
      rcases hr : rec (.load n .none) s with ⟨r1, s1⟩
      rw [hr] at h1 h2
      cases r1 with
      | some e =>
        rcases h2 with h2 | ⟨_, i, hi'⟩
        · exact h2
        · cases hi'
      | none => exact ih s1 (fun a ha => hsub a (List.mem_cons_of_mem _ ha)) h1.1.inv

theorem impBody_ok (hH : Healthy W L) {rec : Call → State → R} (hrec : RecOk W L U none rec) (hrec2 : RecOk2 W L U rec)
    (m : Mod) {s : State} (hi : Inv W L U s) : OkOrFuel (impBody W rec m s).1 := by
  unfold impBody
  by_cases him : s.imported m = true
  · rw [if_pos him]; exact Or.inl rfl
  · rw [if_neg him]
    simp only []
    have hsc : SameCore s (State.logEv { s with imported := fun k => if k = m then true else s.imported k } (.execMod m)) :=
      ⟨rfl, rfl, rfl⟩
    have h := runActs_ok W L U hH hrec hrec2 m (W.body m) _ (fun a ha => ha) (hi.of_sameCore hsc)
    rcases hr : runActs rec (W.body m)
        (State.logEv { s with imported := fun k => if k = m then true else s.imported k } (.execMod m)) with ⟨r1, s1⟩
    rw [hr] at h
    cases r1 with
    | some e => exact h
    | none => exact Or.inl rfl

theorem loadBody_ok (hH : Healthy W L) {rec : Call → State → R} (hrec : RecOk W L U none rec) (hrec2 : RecOk2 W L U rec)
    (n : Name) (lim : Limit) (hn : n ∈ L.names) {s : State} (hi : Inv W L U s) :
    OkOrFuel (loadBody W rec n lim s).1 ∨ ((loadBody W rec n lim s).1 = some .limit ∧ ∃ i, lim = .item i) := by
  unfold loadBody
  have h1 := hrec (.ltc n) s hi
  have h2 := hrec2 (.ltc n) s hi hn
  rcases hr : rec (.ltc n) s with ⟨r1, s1⟩
  rw [hr] at h1 h2
  obtain ⟨hrel, _, _, hent⟩ := h1
  simp only [] at hrel hent h2
  cases r1 with
  | some e => exact Or.inl h2
  | none =>
    simp only []
    obtain ⟨e, he, hs⟩ := hent rfl
    obtain ⟨T, hT, _⟩ := cache_of_entry he
    have hc1 : s1.cache.isSome := by rw [hT]; rfl
    obtain ⟨e0, he0, himp⟩ := entry_of_mem W L U hrel.inv hc1 hn
    rw [he] at he0
    cases he0
    simp only [he]
    rw [order_eq W L U hrel.inv hT, himp]
    obtain ⟨ord, hord, hmem⟩ := hH.orders n hn
    rw [hord]
    simp only []
    have hsc : SameCore s1 { s1 with thy := some [] } := ⟨rfl, rfl, rfl⟩
    have hlo := loopDeps_ok W L U hH (rec := fun p s => rec (.ltc p) s) (fun p s hs => hrec (.ltc p) s hs)
      (fun p s hs hp => hrec2 (.ltc p) s hs hp) ord { s1 with thy := some [] } [] (hrel.inv.of_sameCore hsc) hmem
    have hloop := loopDeps_post W L U (fun p s => rec (.ltc p) s) (fun p s hs => hrec (.ltc p) s hs) ord
      { s1 with thy := some [] } [] (hrel.inv.of_sameCore hsc)
    rcases hlp : loopDeps W (fun p s => rec (.ltc p) s) ord { s1 with thy := some [] } [] with ⟨r2, s2, deps⟩
    rw [hlp] at hlo hloop
    obtain ⟨hr2, _, _⟩ := hloop
    simp only [] at hr2
    cases r2 with
    | some e' => exact Or.inl hlo
    | none =>
      simp only []
      obtain ⟨e2, he2, _⟩ := ((Rel.of_sameCore hrel.inv hsc).trans hr2).mono n e he hs
      unfold loadFinish
      cases lim with
      | start => exact Or.inl (Or.inl rfl)
      | none =>
        simp only [he2]
        have hbl : (beforeLimit e2.content .none).2 = true := rfl
        simp only [hbl, extendList_ok W L hH, if_true]
        exact Or.inl (Or.inl rfl)
      | item i =>
        simp only [he2]
        by_cases hbl : (beforeLimit e2.content (.item i)).2 = true
        · simp only [hbl, extendList_ok W L hH, if_true]; exact Or.inl (Or.inl rfl)
        · simp only [hbl, extendList_ok W L hH, if_true]; exact Or.inr ⟨rfl, i, rfl⟩

/-- when `load_theory` reports a missing limit, the specification says the same -/
theorem loadBody_limit (hH : Healthy W L) {rec : Call → State → R} (hrec : RecOk W L U none rec) (hrec2 : RecOk2 W L U rec)
    (n : Name) (lim : Limit) (hn : n ∈ L.names) {s : State} (hi : Inv W L U s)
    (hlim : (loadBody W rec n lim s).1 = some .limit) :
    ∀ k, specLoad W L k n lim ≠ .error .fuel → specLoad W L k n lim = .error .limit := by
  revert hlim
  unfold loadBody
  have h1 := hrec (.ltc n) s hi
  have h2 := hrec2 (.ltc n) s hi hn
  rcases hr : rec (.ltc n) s with ⟨r1, s1⟩
  rw [hr] at h1 h2
  obtain ⟨hrel, _, _, hent⟩ := h1
  simp only [] at hrel hent h2
  cases r1 with
  | some e =>
    intro hlim
    simp only [] at hlim
    rcases h2 with h2 | h2 <;> rw [h2] at hlim <;> cases hlim
  | none =>
    simp only []
    obtain ⟨e, he, hs⟩ := hent rfl
    obtain ⟨T, hT, _⟩ := cache_of_entry he
    have hc1 : s1.cache.isSome := by rw [hT]; rfl
    obtain ⟨e0, he0, himp⟩ := entry_of_mem W L U hrel.inv hc1 hn
    rw [he] at he0
    cases he0
    simp only [he]
    rw [order_eq W L U hrel.inv hT, himp]
    obtain ⟨ord, hord, hmem⟩ := hH.orders n hn
    rw [hord]
    simp only []
    have hsc : SameCore s1 { s1 with thy := some [] } := ⟨rfl, rfl, rfl⟩
    have hlo := loopDeps_ok W L U hH (rec := fun p s => rec (.ltc p) s) (fun p s hs => hrec (.ltc p) s hs)
      (fun p s hs hp => hrec2 (.ltc p) s hs hp) ord { s1 with thy := some [] } [] (hrel.inv.of_sameCore hsc) hmem
    have hloop := loopDeps_post W L U (fun p s => rec (.ltc p) s) (fun p s hs => hrec (.ltc p) s hs) ord
      { s1 with thy := some [] } [] (hrel.inv.of_sameCore hsc)
    rcases hlp : loopDeps W (fun p s => rec (.ltc p) s) ord { s1 with thy := some [] } [] with ⟨r2, s2, deps⟩
    rw [hlp] at hlo hloop
    obtain ⟨hr2, _, hctx, _⟩ := hloop
    simp only [] at hr2 hctx
    cases r2 with
    | some e' =>
      intro hlim
      simp only [] at hlim hlo
      rcases hlo with h | h <;> rw [h] at hlim <;> cases hlim
    | none =>
      simp only []
      obtain ⟨e2, he2, hs2⟩ := ((Rel.of_sameCore hrel.inv hsc).trans hr2).mono n e he hs
      have hctx' : ∀ k, ctxOf W (specContent W L k) ord [] ≠ .error .fuel →
          ctxOf W (specContent W L k) ord [] = .ok (s2.thy.getD []) := hctx rfl
      have hspec := specLoad_eq W L n lim ord e2.content (s2.thy.getD []) hH.topo hord
        (cache_spec W L U hr2.inv he2 hs2) hctx'
      unfold loadFinish
      cases lim with
      | start => intro hlim; simp at hlim
      | none =>
        simp only [he2]
        have hbl : (beforeLimit e2.content .none).2 = true := rfl
        simp only [hbl, extendList_ok W L hH, if_true]
        intro hlim; simp at hlim
      | item i =>
        simp only [he2]
        by_cases hbl : (beforeLimit e2.content (.item i)).2 = true
        · simp only [hbl, extendList_ok W L hH, if_true]; intro hlim; simp at hlim
        · simp only [hbl, extendList_ok W L hH, if_true]
          intro _ k hk
          rw [hspec k hk]
          simp only [hbl, extendList_ok W L hH, if_true]
          rfl

theorem exec_ok (hH : Healthy W L) : ∀ f, RecOk2 W L U (exec W none f) := by
  intro f
  induction f with
  | zero =>
    intro c s _
    cases c with
    | ltc n => exact fun _ => Or.inr rfl
    | imp m => exact Or.inr rfl
    | load n lim => exact fun _ => Or.inl (Or.inr rfl)
  | succ f ih =>
    intro c s hi
    cases c with
    | ltc n => exact fun hn => ltcBody_ok W L U hH (exec_post W L U none f) ih n hn hi
    | imp m => exact impBody_ok W L U hH (exec_post W L U none f) ih m hi
    | load n lim => exact fun hn => loadBody_ok W L U hH (exec_post W L U none f) ih n lim hn hi

end Holpy.C12
