import Holpy.C12.Hist
/-
C12 — several users.  `load_theory(name, username=u)` works on the library and cache of user `u` only (imports are
resolved in `users/<u>/`, never in the master library); master is reached from another user's load only through the
`basic.load_theory` calls of Python modules imported lazily.
-/
namespace Holpy.C12

theorem loopDeps_congr (W : World) (r1 r2 : Name → State → R) (h : ∀ p s, r1 p s = r2 p s) :
    ∀ order s acc, loopDeps W r1 order s acc = loopDeps W r2 order s acc := by
  have : r1 = r2 := by funext p s; exact h p s
  subst this; intros; rfl

/-- without lazy imports a call for the user in focus never leaves that user's library: it is the single-user loader -/
theorem execU_ltc_eq (W : World) (fault : Option Item) (hlazy : ∀ n, W.lazyOf n = none) :
    ∀ f n s, execU W fault f (.ltc n) s = exec W fault f (.ltc n) s := by
  intro f
  induction f with
  | zero => intro n s; rfl
  | succ f ih =>
    intro n s
    rw [execU, exec]
    unfold ltcBody ltcMiss lazyStep
    simp only [hlazy]
    have h : (fun p st => execU W fault f (Call.ltc p).toU st) = (fun p st => exec W fault f (Call.ltc p) st) := by
      funext p st; exact ih p st
    simp only [h]

theorem execU_load_eq (W : World) (fault : Option Item) (hlazy : ∀ n, W.lazyOf n = none) (f : Nat) (u : Nat) (n : Name)
    (lim : Limit) (s : State) :
    execU W fault (f + 1) (.load u n lim) s =
      ((exec W fault (f + 1) (.load n lim) (s.focus u)).1, (exec W fault (f + 1) (.load n lim) (s.focus u)).2.focus s.user) := by
  rw [execU, exec]
  unfold loadBody
  have h : (fun p st => execU W fault f (Call.ltc p).toU st) = (fun p st => exec W fault f (Call.ltc p) st) := by
    funext p st; exact execU_ltc_eq W fault hlazy f p st
  have h1 : ∀ st, execU W fault f (Call.ltc n).toU st = exec W fault f (Call.ltc n) st :=
    fun st => execU_ltc_eq W fault hlazy f n st
  simp only [h, h1]

end Holpy.C12
