import Holpy.C12.UsersSpec
/-
C12 — histories over several users, seen from one NON-master user `u`: only u's own operations can change u's library
and cache (`fr_execU`), so the cache invariant of u's library survives every multi-user history whose operations ON u
satisfy the usual hypothesis (fresh timestamps; no load between an edit of imports and load_metadata).
-/
namespace Holpy.C12

/-- the invariant of the library in focus only depends on names, files and cache -/
theorem Inv.of_core {W : World} {L : Lib} {U : Used} {s s' : State} (hc : s'.cache = s.cache) (hf : s'.files = s.files)
    (hn : s'.names = s.names) (hi : Inv W L U s) : Inv W L U s' := hi.of_sameCore ⟨hc, hf, hn⟩

theorem lib_of_core {s s' : State} (hf : s'.files = s.files) (hn : s'.names = s.names) : s'.lib = s.lib := lib_congr hf hn

/-- if the stored component of `u` and the (other) focus are unchanged, `focus u` shows the same library and cache -/
theorem focus_same_core (s s' : State) (u : Nat) (hu : u ≠ s.user) (hus : s'.user = s.user) (ho : s'.others u = s.others u) :
    (s'.focus u).cache = (s.focus u).cache ∧ (s'.focus u).files = (s.focus u).files ∧ (s'.focus u).names = (s.focus u).names := by
  have h1 := focus_core s u hu
  have h2 := focus_core s' u (by rw [hus]; exact hu)
  rw [ho] at h2
  exact ⟨h2.2.2.trans h1.2.2.symm, h2.2.1.trans h1.2.1.symm, h2.1.trans h1.1.symm⟩

/-- after working in focus `u` and going back to focus `w ≠ u`, `focus u` shows what the work left -/
theorem focus_back_core (r : State) (w u : Nat) (hr : r.user = u) (hw : w ≠ u) :
    ((r.focus w).focus u).cache = r.cache ∧ ((r.focus w).focus u).files = r.files ∧ ((r.focus w).focus u).names = r.names := by
  have hne : w ≠ r.user := by rw [hr]; exact hw
  have hst := focus_stores r w hne
  have hu1 : (r.focus w).user = w := focus_user r w
  have h2 := focus_core (r.focus w) u (by rw [hu1]; exact fun h => hw h.symm)
  rw [← hr] at h2 ⊢
  exact ⟨h2.2.2.trans hst.2.2, h2.2.1.trans hst.2.1, h2.1.trans hst.1⟩

/-- The hypothesis on a multi-user history, for user `u`: the operations ON `u` give u's files timestamps they never
    had, and there is no load for `u` between an edit that changes the imports of one of u's files and
    `load_metadata(u)`.  Nothing is asked of the operations on other users. -/
def okHistU (W : World) (fuel : Nat) (u : Nat) : List OpU → State → Used → Bool → Prop
  | [], _, _, stale => stale = false
  | .load v n lim fault :: ops, s, U, stale =>
    (v = u → stale = false) ∧ okHistU W fuel u ops (stepU W fuel (.load v n lim fault) s).2 U stale
  | .imp m :: ops, s, U, stale => okHistU W fuel u ops (stepU W fuel (.imp m) s).2 U stale
  | .touch v n t :: ops, s, U, stale =>
    (v = u → t ∉ U n) ∧ okHistU W fuel u ops (stepU W fuel (.touch v n t) s).2 (if v = u then bump U n t else U) stale
  | .edit v n imps items t :: ops, s, U, stale =>
    (v = u → t ∉ U n) ∧ okHistU W fuel u ops (stepU W fuel (.edit v n imps items t) s).2 (if v = u then bump U n t else U)
      (if v = u then (stale || decide (imps ≠ ((s.focus u).files n).imports)) else stale)
  | .reloadMeta v :: ops, s, U, stale =>
    okHistU W fuel u ops (stepU W fuel (.reloadMeta v) s).2 U (if v = u then false else stale)

def runU (W : World) (fuel : Nat) : List OpU → State → State
  | [], s => s
  | op :: ops, s => runU W fuel ops (stepU W fuel op s).2

/-- what is maintained for user `u` along a multi-user history (the caller's focus is master) -/
def JU (W : World) (u : Nat) (s : State) (U : Used) (stale : Bool) : Prop :=
  s.user = 0 ∧ (stale = false → Inv W (s.focus u).lib U (s.focus u)) ∧ ∀ k, ((s.focus u).files k).mtime ∈ U k

theorem JU.transfer {W : World} {u : Nat} {s s' : State} {U : Used} {stale : Bool} (h : JU W u s U stale)
    (hus : s'.user = 0)
    (hc : (s'.focus u).cache = (s.focus u).cache ∧ (s'.focus u).files = (s.focus u).files ∧ (s'.focus u).names = (s.focus u).names) :
    JU W u s' U stale := by
  refine ⟨hus, fun hst => ?_, fun k => by rw [hc.2.1]; exact h.2.2 k⟩
  rw [lib_of_core hc.2.1 hc.2.2]
  exact (h.2.1 hst).of_core hc.1 hc.2.1 hc.2.2

/-- operations on the files of another user `v ≠ u` do not touch the stored library and cache of `u` -/
theorem stepU_file_other (W : World) (fuel : Nat) (s : State) (u v : Nat) (hvu : v ≠ u) (hs : s.user ≠ u)
    (n : Name) (f : File) :
    ((setFile (s.focus v) n f).focus s.user).user = s.user ∧ ((setFile (s.focus v) n f).focus s.user).others u = s.others u := by
  obtain ⟨h1, h2⟩ := fr_focus (A := u) s v hvu hs
  have h3 : (setFile (s.focus v) n f).user ≠ u := by show (s.focus v).user ≠ u; rw [h1]; exact hvu
  obtain ⟨_, h4⟩ := fr_focus (A := u) (setFile (s.focus v) n f) s.user hs h3
  exact ⟨focus_user _ _, by rw [h4]; exact h2⟩

theorem runU_inv (W : World) (fuel : Nat) (u : Nat) (hu : u ≠ 0) :
    ∀ (ops : List OpU) (s : State) (U : Used) (stale : Bool), JU W u s U stale → okHistU W fuel u ops s U stale →
      ∃ U', JU W u (runU W fuel ops s) U' false := by
  intro ops
  induction ops with
  | nil => intro s U stale hj hok; exact ⟨U, by rw [show stale = false from hok] at hj; exact hj⟩
  | cons op ops ih =>
    intro s U stale hj hok
    rw [runU]
    have hs0 : s.user = 0 := hj.1
    have hsu : s.user ≠ u := by rw [hs0]; exact fun h => hu h.symm
    have hu0 : u ≠ s.user := fun h => hsu h.symm
    cases op with
    | imp m =>
      have hfr := fr_execU (A := u) W none hu fuel (.imp m) s hsu trivial
      exact ih _ U stale (hj.transfer (by rw [show (stepU W fuel (.imp m) s).2.user = s.user from hfr.1]; exact hs0)
        (focus_same_core s _ u hu0 hfr.1 hfr.2)) hok
    | load v n lim fault =>
      obtain ⟨hst, hok'⟩ := hok
      by_cases hv : v = u
      · subst hv
        have hstale := hst rfl
        cases fuel with
        | zero => exact ih _ U stale hj hok'
        | succ f =>
          have hi := hj.2.1 hstale
          have hrel := (loadBody_post W (s.focus v).lib U (execU_recOk W (s.focus v).lib U fault f) n lim hi).1
          have hrecfr : RecFr (v + 1) (fun c st => execU W fault f c.toU st) := by
            intro c st hst'
            apply fr_execU W fault (Nat.succ_ne_zero v) f _ st hst'
            cases c with
            | ltc n => trivial
            | imp m => trivial
            | load n lim => exact fun h => by cases h
          have huser : (loadBody W (fun c st => execU W fault f c.toU st) n lim (s.focus v)).2.user = v := by
            have := (fr_loadBody W _ hrecfr n lim (s.focus v) (by rw [focus_user]; exact fun h => by omega)).1
            rw [this, focus_user]
          have hstep : (stepU W (f + 1) (.load v n lim fault) s).2 =
              (loadBody W (fun c st => execU W fault f c.toU st) n lim (s.focus v)).2.focus s.user := by
            show (execU W fault (f + 1) (.load v n lim) s).2 = _; rw [execU]
          have hback := focus_back_core (loadBody W (fun c st => execU W fault f c.toU st) n lim (s.focus v)).2 0 v huser
            (fun h => hu h.symm)
          rw [← hs0] at hback
          rw [← hstep] at hback
          refine ih _ U stale ⟨by rw [hstep, focus_user]; exact hs0, fun _ => ?_, fun k => ?_⟩ hok'
          · rw [lib_of_core (hback.2.1.trans hrel.files) (hback.2.2.trans hrel.names)]
            exact hrel.inv.of_core hback.1 hback.2.1 hback.2.2
          · rw [hback.2.1, hrel.files]; exact hj.2.2 k
      · have hfr := fr_execU (A := u) W fault hu fuel (.load v n lim) s hsu hv
        exact ih _ U stale (hj.transfer (by rw [show (stepU W fuel (.load v n lim fault) s).2.user = s.user from hfr.1]; exact hs0)
          (focus_same_core s _ u hu0 hfr.1 hfr.2)) hok'
    | touch v n t =>
      obtain ⟨hfresh, hok'⟩ := hok
      by_cases hv : v = u
      · subst hv
        simp only [if_true] at hok'
        have hstep : (stepU W fuel (.touch v n t) s).2 = (setFile (s.focus v) n { (s.focus v).files n with mtime := t }).focus s.user := rfl
        have hback := focus_back_core (setFile (s.focus v) n { (s.focus v).files n with mtime := t }) 0 v (focus_user s v)
          (fun h => hu h.symm)
        rw [← hs0, ← hstep] at hback
        refine ih _ (bump U n t) stale ⟨by rw [hstep, focus_user]; exact hs0, fun hst => ?_, fun k => ?_⟩ hok'
        · rw [lib_of_core hback.2.1 hback.2.2]
          exact (setFile_inv W U (s.focus v) (hj.2.1 hst) n { (s.focus v).files n with mtime := t } rfl (hfresh rfl)).of_core
            hback.1 hback.2.1 hback.2.2
        · rw [hback.2.1]; exact mtimes_setFile U (s.focus v) hj.2.2 n _ k
      · simp only [hv, if_false] at hok'
        obtain ⟨h1, h2⟩ := stepU_file_other W fuel s u v hv hsu n { (s.focus v).files n with mtime := t }
        exact ih _ U stale (hj.transfer (by show ((setFile (s.focus v) n _).focus s.user).user = 0; rw [h1]; exact hs0)
          (focus_same_core s _ u hu0 h1 h2)) hok'
    | edit v n imps items t =>
      obtain ⟨hfresh, hok'⟩ := hok
      by_cases hv : v = u
      · subst hv
        simp only [if_true] at hok'
        have hstep : (stepU W fuel (.edit v n imps items t) s).2 =
            (setFile (s.focus v) n { imports := imps, items := items, mtime := t }).focus s.user := rfl
        have hback := focus_back_core (setFile (s.focus v) n { imports := imps, items := items, mtime := t }) 0 v (focus_user s v)
          (fun h => hu h.symm)
        rw [← hs0, ← hstep] at hback
        refine ih _ (bump U n t) _ ⟨by rw [hstep, focus_user]; exact hs0, fun hst => ?_, fun k => ?_⟩ hok'
        · simp only [Bool.or_eq_false_iff, decide_eq_false_iff_not, ne_eq, Decidable.not_not] at hst
          rw [lib_of_core hback.2.1 hback.2.2]
          exact (setFile_inv W U (s.focus v) (hj.2.1 hst.1) n { imports := imps, items := items, mtime := t } hst.2 (hfresh rfl)).of_core
            hback.1 hback.2.1 hback.2.2
        · rw [hback.2.1]; exact mtimes_setFile U (s.focus v) hj.2.2 n _ k
      · simp only [hv, if_false] at hok'
        obtain ⟨h1, h2⟩ := stepU_file_other W fuel s u v hv hsu n { imports := imps, items := items, mtime := t }
        exact ih _ U stale (hj.transfer (by show ((setFile (s.focus v) n _).focus s.user).user = 0; rw [h1]; exact hs0)
          (focus_same_core s _ u hu0 h1 h2)) hok'
    | reloadMeta v =>
      by_cases hv : v = u
      · subst hv
        rw [okHistU] at hok
        simp only [↓reduceIte] at hok
        have hstep : (stepU W fuel (.reloadMeta v) s).2 = (loadMetadata (s.focus v)).2.focus s.user := rfl
        have hm := loadMetadata_inv W (s.focus v).lib U (filesOk_lib (s.focus v)) hj.2.2
        have huser : (loadMetadata (s.focus v)).2.user = v := by
          rw [(fr_loadMetadata (A := 0) (s.focus v)).1, focus_user]
        have hback := focus_back_core (loadMetadata (s.focus v)).2 0 v huser (fun h => hu h.symm)
        rw [← hs0, ← hstep] at hback
        refine ih _ U false ⟨by rw [hstep, focus_user]; exact hs0, fun _ => ?_, fun k => ?_⟩ hok
        · rw [lib_of_core (hback.2.1.trans hm.2.1) (hback.2.2.trans hm.2.2.1)]
          exact hm.1.of_core hback.1 hback.2.1 hback.2.2
        · rw [hback.2.1, hm.2.1]; exact hj.2.2 k
      · rw [okHistU] at hok
        simp only [hv, if_false] at hok
        have hfr : Fr u (s.focus v) (loadMetadata (s.focus v)).2 := fr_loadMetadata _
        obtain ⟨h1, h2⟩ := fr_focus (A := u) s v hv hsu
        have h3 : (loadMetadata (s.focus v)).2.user ≠ u := by rw [hfr.1, h1]; exact hv
        obtain ⟨_, h4⟩ := fr_focus (A := u) (loadMetadata (s.focus v)).2 s.user hsu h3
        exact ih _ U stale (hj.transfer (by show ((loadMetadata (s.focus v)).2.focus s.user).user = 0; rw [focus_user]; exact hs0)
          (focus_same_core s _ u hu0 (focus_user _ _) (by
            show ((loadMetadata (s.focus v)).2.focus s.user).others u = s.others u
            rw [h4, hfr.2]; exact h2))) hok

end Holpy.C12
