import Holpy.C12.Exec
/-
C12 — postconditions of `load_theory_cache`, module import and `load_theory`, by induction on fuel.
-/
namespace Holpy.C12

variable (W : World) (L : Lib) (U : Used)

/-- `load_theory(n, lim)` (no injected fault) agrees with the specification -/
def LoadOk (n : Name) (lim : Limit) (r : Option Err) (s' : State) : Prop :=
  r = none → ∀ k, specLoad W L k n lim ≠ .error .fuel → specLoad W L k n lim = .ok (s'.thy.getD [])

def Post (fault : Option Item) : Call → State → R → Prop
  | .ltc n, s, r => LtcPost W L U n s r
  | .imp _, s, r => Rel W L U s r.2 ∧ r.2.blocks = s.blocks
  | .load _ _, s, r => Rel W L U s r.2 ∧ r.2.blocks = s.blocks
  -- (that a load without a fault returns the specification is `loadBody_post` / `exec_load_ok`; it is not needed of
  --  the recursive calls, which matters for several users: a module's load_theory call works on master's library)

def RecOk (fault : Option Item) (rec : Call → State → R) : Prop :=
  ∀ c s, Inv W L U s → Post W L U fault c s (rec c s)

theorem lazyStep_post {fault : Option Item} {rec : Call → State → R} (hrec : RecOk W L U fault rec) (n : Name) {s : State}
    (hi : Inv W L U s) :
    Rel W L U s (lazyStep W rec n s).2 ∧ (lazyStep W rec n s).2.blocks = s.blocks ∧ (lazyStep W rec n s).2.thy = s.thy := by
  unfold lazyStep
  cases W.lazyOf n with
  | none => exact ⟨Rel.refl hi, rfl, rfl⟩
  | some m =>
    simp only []
    have hp := hrec (.imp m) s.push (hi.of_sameCore (sameCore_push s))
    obtain ⟨hrel, hb⟩ := hp
    have hpp := pop_push_thy s _ hb
    exact ⟨((Rel.of_sameCore hi (sameCore_push s)).trans hrel).core_right (sameCore_pop _), hpp.2, hpp.1⟩

theorem ltcMiss_post {fault : Option Item} {rec : Call → State → R} (hrec : RecOk W L U fault rec) (n : Name) (e : Entry)
    {s : State} (hi : Inv W L U s) (he : s.entry n = some e) : LtcPost W L U n s (ltcMiss W fault rec n e s) := by
  obtain ⟨T, hT, hTn⟩ := cache_of_entry he
  have himp : L.imps n = some e.imports := by
    rw [← (hi.2.1 T hT).2.1 n, hTn]; rfl
  unfold ltcMiss
  obtain ⟨hl1, hl2, hl3⟩ := lazyStep_post W L U hrec n hi
  rcases hls : lazyStep W rec n s with ⟨r1, s1⟩
  rw [hls] at hl1 hl2 hl3
  simp only [] at hl1 hl2 hl3
  cases r1 with
  | some e' => exact ⟨hl1, hl2, hl3, fun h => by simp at h⟩
  | none =>
    simp only []
    have hc1 : s1.cache.isSome := hl1.loaded (by rw [hT]; rfl)
    obtain ⟨T1, hT1⟩ := Option.isSome_iff_exists.mp hc1
    rw [order_eq W L U hl1.inv hT1]
    cases hord : L.order e.imports with
    | none => exact ⟨hl1, hl2, hl3, fun h => by simp at h⟩
    | some order =>
      simp only []
      have hipush : Inv W L U s1.push := hl1.inv.of_sameCore (sameCore_push s1)
      have hloop := loopDeps_post W L U (fun p s => rec (.ltc p) s) (fun p s hs => hrec (.ltc p) s hs) order s1.push [] hipush
      rcases hlp : loopDeps W (fun p s => rec (.ltc p) s) order s1.push [] with ⟨r2, s2, deps⟩
      rw [hlp] at hloop
      obtain ⟨hr2, hb2, hctx, hdp⟩ := hloop
      simp only [] at hr2 hb2 hctx hdp
      have hrel2 : Rel W L U s s2 := hl1.trans ((Rel.of_sameCore hl1.inv (sameCore_push s1)).trans hr2)
      cases r2 with
      | some e' =>
        simp only []
        have hpp := pop_push_thy s1 s2 hb2
        exact ⟨hrel2.core_right (sameCore_pop _), hpp.2.trans hl2, hpp.1.trans hl3, fun h => by simp at h⟩
      | none =>
        simp only []
        have hc2 : s2.cache.isSome := hr2.loaded hc1
        have hf2 : s2.files = s.files := hrel2.files
        have hps := parseStep_post W L U fault n e (s.files n).mtime deps (s0 := s1) hr2.inv hc2 hb2 himp order hord
          (fun k hk => hctx rfl k hk) (by simpa using (hdp rfl).1) (by rw [hf2])
          (by
            have := (hdp rfl).2 (by intro d hd; simp at hd)
            intro d hd
            have h3 : s2.files = s1.push.files := hr2.files
            rw [h3]; exact this d hd)
        obtain ⟨hq1, hq2, hq3, hq4⟩ := hps
        exact ⟨hrel2.trans hq1, hq2.trans hl2, hq3.trans hl3, hq4⟩

theorem ltcBody_post {fault : Option Item} {rec : Call → State → R} (hrec : RecOk W L U fault rec) (n : Name)
    {s : State} (hi : Inv W L U s) : LtcPost W L U n s (ltcBody W fault rec n s) := by
  unfold ltcBody
  obtain ⟨hm1, hm2, hm3, _⟩ := ensureMeta_post W L U hi
  rcases hem : ensureMeta s with ⟨r1, s1⟩
  rw [hem] at hm1 hm2 hm3
  simp only [] at hm1 hm2 hm3
  cases r1 with
  | some e => exact ⟨hm1, hm2, hm3, fun h => by simp at h⟩
  | none =>
    simp only []
    cases he : s1.entry n with
    | none => exact ⟨hm1, hm2, hm3, fun h => by simp at h⟩
    | some e =>
      simp only []
      by_cases hv : e.valid s1 n = true
      · simp only [hv, if_true]
        exact ⟨hm1, hm2, hm3, fun _ => ⟨e, he, hv⟩⟩
      · simp only [hv]
        obtain ⟨h1, h2, h3, h4⟩ := ltcMiss_post W L U hrec n e hm1.inv he
        exact ⟨hm1.trans h1, h2.trans hm2, h3.trans hm3, h4⟩

theorem runActs_post {fault : Option Item} {rec : Call → State → R} (hrec : RecOk W L U fault rec) :
    ∀ (acts : List Act) (s : State), Inv W L U s →
      Rel W L U s (runActs rec acts s).2 ∧ (runActs rec acts s).2.blocks = s.blocks := by
  intro acts
  induction acts with
  | nil => intro s hi; exact ⟨Rel.refl hi, rfl⟩
  | cons a as ih =>
    intro s hi
    cases a with
    | imp m =>
      rw [runActs]
      have hp := hrec (.imp m) s hi
      rcases hr : rec (.imp m) s with ⟨r1, s1⟩
      rw [hr] at hp
      obtain ⟨h1, h2⟩ := hp
      cases r1 with
      | some e => exact ⟨h1, h2⟩
      | none =>
        obtain ⟨h3, h4⟩ := ih s1 h1.inv
        exact ⟨h1.trans h3, h4.trans h2⟩
    | load n =>
      rw [runActs]
      have hp := hrec (.load n .none) s hi
      rcases hr : rec (.load n .none) s with ⟨r1, s1⟩
      rw [hr] at hp
      obtain ⟨h1, h2⟩ := hp
      cases r1 with
      | some e => exact ⟨h1, h2⟩
      | none =>
        obtain ⟨h3, h4⟩ := ih s1 h1.inv
        exact ⟨h1.trans h3, h4.trans h2⟩

theorem impBody_post {fault : Option Item} {rec : Call → State → R} (hrec : RecOk W L U fault rec) (m : Mod)
    {s : State} (hi : Inv W L U s) : Rel W L U s (impBody W rec m s).2 ∧ (impBody W rec m s).2.blocks = s.blocks := by
  unfold impBody
  by_cases him : s.imported m = true
  · rw [if_pos him]; exact ⟨Rel.refl hi, rfl⟩
  · rw [if_neg him]
    simp only []
    have hsc : SameCore s (State.logEv { s with imported := fun k => if k = m then true else s.imported k } (.execMod m)) :=
      ⟨rfl, rfl, rfl⟩
    obtain ⟨h1, h2⟩ := runActs_post W L U hrec (W.body m) _ (hi.of_sameCore hsc)
    rcases hr : runActs rec (W.body m)
        (State.logEv { s with imported := fun k => if k = m then true else s.imported k } (.execMod m)) with ⟨r1, s1⟩
    rw [hr] at h1 h2
    cases r1 with
    | some e =>
      exact ⟨((Rel.of_sameCore hi hsc).trans h1).core_right ⟨rfl, rfl, rfl⟩, h2⟩
    | none => exact ⟨(Rel.of_sameCore hi hsc).trans h1, h2⟩

/-- what the specification computes, given that the cache holds the specified content of `n` and the theory under
    construction holds the specified context -/
theorem specLoad_eq (n : Name) (lim : Limit) (order : List Name) (content : List (Item × PRes)) (ctx : List Item)
    (htopo : topoCheck L.imps L.names = none) (hord : L.order (L.imports n) = some order)
    (hsp : ∀ k, specContent W L k n ≠ .error .fuel → specContent W L k n = .ok content)
    (hctx : ∀ k, ctxOf W (specContent W L k) order [] ≠ .error .fuel → ctxOf W (specContent W L k) order [] = .ok ctx) :
    ∀ k, specLoad W L k n lim ≠ .error .fuel →
      specLoad W L k n lim = (match lim with
        | .start => .ok ctx
        | _ => if (extendList W ctx (okItems (beforeLimit content lim).1)).2
               then (if (beforeLimit content lim).2 then .ok (extendList W ctx (okItems (beforeLimit content lim).1)).1 else .error .limit)
               else .error .extend) := by
  intro k hk
  unfold specLoad at hk ⊢
  simp only [htopo] at hk ⊢
  cases hc : specContent W L k n with
  | error e' =>
    rw [hc] at hk
    simp only [] at hk
    by_cases hf : e' = .fuel
    · subst hf; exact absurd rfl hk
    · have := hsp k (by rw [hc]; intro h; cases h; exact hf rfl)
      rw [hc] at this; cases this
  | ok c =>
    have hce := hsp k (by rw [hc]; intro h; cases h)
    rw [hc] at hce
    cases hce
    rw [hc] at hk
    simp only [hord] at hk ⊢
    cases hcx : ctxOf W (specContent W L k) order [] with
    | error e' =>
      rw [hcx] at hk
      simp only [] at hk
      by_cases hf : e' = .fuel
      · subst hf; exact absurd rfl hk
      · have := hctx k (by rw [hcx]; intro h; cases h; exact hf rfl)
        rw [hcx] at this; cases this
    | ok ctx' =>
      have := hctx k (by rw [hcx]; intro h; cases h)
      rw [hcx] at this
      cases this
      cases lim <;> rfl

theorem loadBody_post {fault : Option Item} {rec : Call → State → R} (hrec : RecOk W L U fault rec) (n : Name) (lim : Limit)
    {s : State} (hi : Inv W L U s) :
    Rel W L U s (loadBody W rec n lim s).2 ∧ (loadBody W rec n lim s).2.blocks = s.blocks ∧
      LoadOk W L n lim (loadBody W rec n lim s).1 (loadBody W rec n lim s).2 := by
  unfold loadBody
  have hp := hrec (.ltc n) s hi
  rcases hr : rec (.ltc n) s with ⟨r1, s1⟩
  rw [hr] at hp
  obtain ⟨h1, h2, _, h4⟩ := hp
  simp only [] at h1 h2 h4
  cases r1 with
  | some e => exact ⟨h1, h2, fun h => by simp at h⟩
  | none =>
    simp only []
    obtain ⟨e, he, hs⟩ := h4 rfl
    simp only [he]
    obtain ⟨T, hT, hTn⟩ := cache_of_entry he
    have himp : L.imps n = some e.imports := by
      rw [← (h1.inv.2.1 T hT).2.1 n, hTn]; rfl
    rw [order_eq W L U h1.inv hT]
    cases hord : L.order e.imports with
    | none => exact ⟨h1, h2, fun h => by simp at h⟩
    | some order =>
      simp only []
      have hsc : SameCore s1 { s1 with thy := some [] } := ⟨rfl, rfl, rfl⟩
      have hloop := loopDeps_post W L U (fun p s => rec (.ltc p) s) (fun p s hs => hrec (.ltc p) s hs) order
        { s1 with thy := some [] } [] (h1.inv.of_sameCore hsc)
      rcases hlp : loopDeps W (fun p s => rec (.ltc p) s) order { s1 with thy := some [] } [] with ⟨r2, s2, deps⟩
      rw [hlp] at hloop
      obtain ⟨hr2, hb2, hctx, _⟩ := hloop
      simp only [] at hr2 hb2 hctx
      have hrel2 : Rel W L U s s2 := h1.trans ((Rel.of_sameCore h1.inv hsc).trans hr2)
      cases r2 with
      | some e' => exact ⟨hrel2, hb2.trans h2, fun h => by simp at h⟩
      | none =>
        simp only []
        have hctx' : ∀ k, ctxOf W (specContent W L k) order [] ≠ .error .fuel →
            ctxOf W (specContent W L k) order [] = .ok (s2.thy.getD []) := hctx rfl
        have himpn : e.imports = L.imports n := by
          unfold Lib.imps at himp
          by_cases hn : n ∈ L.names
          · simp only [hn, if_true, Option.some.injEq] at himp; exact himp.symm
          · simp [hn] at himp
        have htopo : topoCheck L.imps L.names = none := (h1.inv.2.1 T hT).1
        obtain ⟨e2, he2, hs2⟩ := ((Rel.of_sameCore h1.inv hsc).trans hr2).mono n e he hs
        have hsp2 := cache_spec W L U hr2.inv he2 hs2
        have hord' : L.order (L.imports n) = some order := by rw [← himpn]; exact hord
        have hspec := specLoad_eq W L n lim order e2.content (s2.thy.getD []) htopo hord' hsp2 hctx'
        unfold loadFinish
        cases lim with
        | start => exact ⟨hrel2, hb2.trans h2, fun _ k hk => hspec k hk⟩
        | none =>
          simp only [he2]
          by_cases hx : (extendList W (s2.thy.getD []) (okItems (beforeLimit e2.content .none).1)).2 = true
          · have hbl : (beforeLimit e2.content .none).2 = true := rfl
            simp only [hx, hbl, if_true]
            refine ⟨hrel2.core_right (sameCore_setThy _ _), hb2.trans h2, fun _ k hk => ?_⟩
            rw [hspec k hk]
            simp only [hx, hbl, if_true]
            rfl
          · simp only [hx]
            exact ⟨hrel2.core_right (sameCore_setThy _ _), hb2.trans h2, fun h => by simp at h⟩
        | item i =>
          simp only [he2]
          by_cases hx : (extendList W (s2.thy.getD []) (okItems (beforeLimit e2.content (.item i)).1)).2 = true
          · by_cases hbl : (beforeLimit e2.content (.item i)).2 = true
            · simp only [hx, hbl, if_true]
              refine ⟨hrel2.core_right (sameCore_setThy _ _), hb2.trans h2, fun _ k hk => ?_⟩
              rw [hspec k hk]
              simp only [hx, hbl, if_true]
              rfl
            · simp only [hx, hbl, if_true]
              exact ⟨hrel2.core_right (sameCore_setThy _ _), hb2.trans h2, fun h => by simp at h⟩
          · simp only [hx]
            exact ⟨hrel2.core_right (sameCore_setThy _ _), hb2.trans h2, fun h => by simp at h⟩

/-- every call of the loader, at every fuel, with or without an injected fault -/
theorem exec_post (fault : Option Item) : ∀ f, RecOk W L U fault (exec W fault f) := by
  intro f
  induction f with
  | zero =>
    intro c s hi
    cases c with
    | ltc n => exact ⟨Rel.refl hi, rfl, rfl, fun h => by simp [exec] at h⟩
    | imp m => exact ⟨Rel.refl hi, rfl⟩
    | load n lim => exact ⟨Rel.refl hi, rfl⟩
  | succ f ih =>
    intro c s hi
    cases c with
    | ltc n => exact ltcBody_post W L U ih n hi
    | imp m => exact impBody_post W L U ih m hi
    | load n lim =>
      obtain ⟨h1, h2, _⟩ := loadBody_post W L U ih n lim hi
      exact ⟨h1, h2⟩

/-- `load_theory(n, lim)` without an injected fault returns the specification -/
theorem exec_load_ok (f : Nat) (n : Name) (lim : Limit) (s : State) (hi : Inv W L U s) :
    LoadOk W L n lim (exec W none f (.load n lim) s).1 (exec W none f (.load n lim) s).2 := by
  cases f with
  | zero => intro h; simp [exec] at h
  | succ f => exact (loadBody_post W L U (exec_post W L U none f) n lim hi).2.2

end Holpy.C12
