import Holpy.C13.ExportModel
import Holpy.C13.Numbering
/-
Helper lemmas for C13: `parse_proof` puts every line at the position its id names.
-/
namespace Holpy.C13

theorem numbered_insertAt (ln : Line) : ∀ (path : List Nat) (last : Nat) (pre : IId) (items items' : List Item),
    numberedFrom pre 0 items = true → ln.id = pre ++ path ++ [last] →
    insertAt ln path last items = .ok items' → numberedFrom pre 0 items' = true
  | [], last, pre, items, items', hw, hid, h => by
    simp only [insertAt] at h
    split at h
    · rename_i hl
      simp at h; subst h
      rw [numberedFrom_append, hw]
      simp [numberedFrom, Item.numbered, hid, hl]
    · simp at h
  | i :: rest, last, pre, items, items', hw, hid, h => by
    simp only [insertAt] at h
    split at h
    · simp at h
    · rename_i id r p th hs sub hget
      split at h
      · rename_i sub' hsub
        simp at h; subst h
        have hit := numberedFrom_get pre items 0 i _ hw hget
        simp only [Item.numbered, Bool.and_eq_true, decide_eq_true_eq, Nat.zero_add] at hit
        have ih := numbered_insertAt ln rest last (pre ++ [i]) sub sub' hit.2 (by simp [hid]) hsub
        apply numberedFrom_set pre items 0 i _ hw
        simp only [Item.numbered, Bool.and_eq_true, decide_eq_true_eq, Nat.zero_add]
        exact ⟨hit.1, ih⟩
      · simp at h

theorem numbered_insertItem (s s' : Proof) (ln : Line) (hw : numberedFrom [] 0 s = true)
    (h : insertItem s ln = .ok s') : numberedFrom [] 0 s' = true := by
  unfold insertItem at h
  split at h
  · simp at h
  · rename_i last hlast
    exact numbered_insertAt ln _ last [] s s' hw (by simp [dropLast_concat ln.id last hlast]) h

theorem numbered_importLines : ∀ (lines : List Line) (s s' : Proof), numberedFrom [] 0 s = true →
    importLines s lines = .ok s' → numberedFrom [] 0 s' = true
  | [], s, s', hw, h => by simp [importLines] at h; subst h; exact hw
  | ln :: rest, s, s', hw, h => by
    simp only [importLines] at h
    split at h
    · rename_i s1 h1
      exact numbered_importLines rest s1 s' (numbered_insertItem s s1 ln hw h1) h
    · simp at h

/-! ### round trip for proofs without subproofs -/

def flatOk (l : List Item) : Prop := ∀ it ∈ l, it.hasSub = false ∧ it.sub = []

def toLine : Item → Line
  | .mk id r p th _ _ => ⟨id, r, p, th⟩

theorem export_flat : ∀ (l : List Item), flatOk l →
    exportLines l = l.map toLine
  | [], _ => by simp [exportLines]
  | it :: rest, h => by
    have hi := h it (by simp)
    have ih := export_flat rest (fun x hx => h x (by simp [hx]))
    cases it with
    | mk id r p th hs sub =>
      simp only [Item.hasSub, Item.sub] at hi
      obtain ⟨_, e⟩ := hi
      subst e
      simp [exportLines, Item.export, ih, toLine]

theorem import_flat : ∀ (l acc : List Item), flatOk l → numberedFrom [] acc.length l = true →
    importLines acc (l.map toLine) = .ok (acc ++ l)
  | [], acc, _, _ => by simp [importLines]
  | it :: rest, acc, hf, hn => by
    have hi := hf it (by simp)
    simp only [numberedFrom, Bool.and_eq_true] at hn
    cases it with
    | mk id r p th hs sub =>
      simp only [Item.hasSub, Item.sub] at hi
      obtain ⟨e1, e2⟩ := hi
      subst e1; subst e2
      have hid : id = [acc.length] := by
        have := hn.1
        simp [Item.numbered] at this
        exact this.1
      subst hid
      have ih := import_flat rest (acc ++ [Item.mk [acc.length] r p th false []])
        (fun x hx => hf x (by simp [hx])) (by simpa using hn.2)
      simp only [List.map_cons, toLine, importLines, insertItem,
        List.getLast?_singleton, List.dropLast_singleton, insertAt, if_true]
      simpa using ih

end Holpy.C13
