import Holpy.C13.RevertModel
/-
Helper lemmas for C13: when `revert_intro` reaches its `remove_line(fact)`, no line cites `fact`.
-/
namespace Holpy.C13

theorem usedExceptFrom_get (fact skip pre : IId) : ∀ (l : List Item) (k i : Nat) (x : Item),
    usedExceptFrom fact skip pre k l = false → l[i]? = some x → Item.usedExcept fact skip (pre ++ [k + i]) x = false
  | [], k, i, x, _, hx => by simp at hx
  | a :: as, k, 0, x, h, hx => by
    simp at hx; subst hx; simp [usedExceptFrom] at h; simpa using h.1
  | a :: as, k, i + 1, x, h, hx => by
    simp at hx; simp [usedExceptFrom] at h
    have := usedExceptFrom_get fact skip pre as (k + 1) i x h.2 hx
    have e : k + 1 + i = k + (i + 1) := by omega
    rwa [e] at this

theorem usedExceptFrom_all (fact skip pre : IId) : ∀ (l : List Item) (k : Nat),
    (∀ (j : Nat) (y : Item), l[j]? = some y → Item.usedExcept fact skip (pre ++ [k + j]) y = false) →
    usedExceptFrom fact skip pre k l = false
  | [], k, _ => by simp [usedExceptFrom]
  | a :: as, k, h => by
    simp only [usedExceptFrom, Bool.or_eq_false_iff]
    refine ⟨by simpa using h 0 a (by simp), usedExceptFrom_all fact skip pre as (k + 1) (fun j y hy => ?_)⟩
    have := h (j + 1) y (by simpa using hy)
    have e : k + (j + 1) = k + 1 + j := by omega
    rwa [e] at this

theorem notCitedList_all (rm : IId) : ∀ (l : List Item), (∀ (j : Nat) (y : Item), l[j]? = some y → Item.notCited rm y = true) →
    notCitedList rm l = true
  | [], _ => by simp [notCitedList]
  | a :: as, h => by
    simp only [notCitedList, Bool.and_eq_true]
    exact ⟨h 0 a (by simp), notCitedList_all rm as (fun j y hy => h (j + 1) y (by simpa using hy))⟩

theorem notCitedList_get (rm : IId) : ∀ (l : List Item) (i : Nat) (x : Item), notCitedList rm l = true →
    l[i]? = some x → Item.notCited rm x = true
  | [], i, x, _, hx => by simp at hx
  | a :: as, 0, x, h, hx => by simp at hx; subst hx; simp [notCitedList] at h; exact h.1
  | a :: as, i + 1, x, h, hx => by
    simp at hx; simp [notCitedList] at h
    exact notCitedList_get rm as i x h.2 hx

theorem not_prefix_snoc (pre skip : IId) (x : Nat) (h : ¬ pre <+: skip) : ¬ (pre ++ [x]) <+: skip :=
  fun hp => h ((List.prefix_append pre [x]).trans hp)

/- Outside the path to `skip`, "not used except at `skip`" is "not cited". -/
mutual
theorem notCited_of_usedExcept (fact skip : IId) : ∀ (it : Item) (pos : IId), ¬ pos <+: skip →
    Item.usedExcept fact skip pos it = false → Item.notCited fact it = true
  | .mk id r p th hs sub, pos, hp, h => by
    simp only [Item.usedExcept, Bool.or_eq_false_iff, Bool.and_eq_false_iff] at h
    have hne : pos ≠ skip := fun e => hp (e ▸ List.prefix_refl _)
    have hp' : p.contains fact = false := by
      rcases h.1 with h1 | h1
      · simp [hne] at h1
      · exact h1
    simp only [Item.notCited, Bool.and_eq_true, List.all_eq_true, decide_eq_true_eq]
    refine ⟨fun x hx e => ?_, notCitedList_of_usedExcept fact skip sub pos 0 hp h.2⟩
    subst e
    simp [List.contains_iff_mem] at hp'
    exact hp' hx
theorem notCitedList_of_usedExcept (fact skip : IId) : ∀ (l : List Item) (pre : IId) (k : Nat), ¬ pre <+: skip →
    usedExceptFrom fact skip pre k l = false → notCitedList fact l = true
  | [], _, _, _, _ => by simp [notCitedList]
  | i :: is, pre, k, hp, h => by
    simp only [usedExceptFrom, Bool.or_eq_false_iff] at h
    simp only [notCitedList, Bool.and_eq_true]
    exact ⟨notCited_of_usedExcept fact skip i (pre ++ [k]) (not_prefix_snoc pre skip k hp) h.1,
      notCitedList_of_usedExcept fact skip is pre (k + 1) hp h.2⟩
end

theorem ne_prefix_sibling (pre : IId) (j k : Nat) (tail : IId) (h : j ≠ k) : ¬ (pre ++ [j]) <+: (pre ++ k :: tail) := by
  intro hp
  rw [List.prefix_append_right_inj] at hp
  simp at hp
  exact h hp

/-- Placing a line that does not count as a use keeps "not used except at `skip`". -/
theorem usedExcept_place (fact skip : IId) (x : Item) : ∀ (path : List Nat) (pre : IId) (k : Nat) (items items' : List Item),
    usedExceptFrom fact skip pre 0 items = false →
    modifyAt path (fun l => if k < l.length then .ok (l.set k x) else .error .index) items = .ok items' →
    Item.usedExcept fact skip (pre ++ path ++ [k]) x = false →
    usedExceptFrom fact skip pre 0 items' = false
  | [], pre, k, items, items', hu, h, hx => by
    simp only [modifyAt] at h
    split at h
    · rename_i hlt
      simp at h; subst h
      apply usedExceptFrom_all
      intro j y hy
      by_cases hj : j = k
      · subst hj
        simp [hlt] at hy; subst hy
        simpa using hx
      · rw [List.getElem?_set_ne (Ne.symm hj)] at hy
        exact usedExceptFrom_get fact skip pre items 0 j y hu hy
    · simp at h
  | i :: rest, pre, k, items, items', hu, h, hx => by
    simp only [modifyAt] at h
    split at h
    · simp at h
    · rename_i id r p th hs sub hget
      split at h
      · split at h
        · rename_i sub' hsub
          simp at h; subst h
          have hit := usedExceptFrom_get fact skip pre items 0 i _ hu hget
          simp only [Item.usedExcept, Bool.or_eq_false_iff, Nat.zero_add] at hit
          have ih := usedExcept_place fact skip x rest (pre ++ [i]) k sub sub' hit.2 hsub (by simpa using hx)
          have hi : i < items.length := by
            rcases Nat.lt_or_ge i items.length with h1 | h1
            · exact h1
            · simp [List.getElem?_eq_none h1] at hget
          apply usedExceptFrom_all
          intro j y hy
          by_cases hj : j = i
          · subst hj
            simp [hi] at hy; subst hy
            simp only [Item.usedExcept, Bool.or_eq_false_iff, Nat.zero_add]
            exact ⟨hit.1, ih⟩
          · rw [List.getElem?_set_ne (Ne.symm hj)] at hy
            exact usedExceptFrom_get fact skip pre items 0 j y hu hy
        · simp at h
      · simp at h

/-- Placing, at `skip` itself, a line that does not cite `fact`: afterwards nothing cites it. -/
theorem notCited_place_at_skip (fact : IId) (x : Item) (hx : Item.notCited fact x = true) :
    ∀ (path : List Nat) (pre : IId) (k : Nat) (items items' : List Item),
    usedExceptFrom fact (pre ++ path ++ [k]) pre 0 items = false →
    modifyAt path (fun l => if k < l.length then .ok (l.set k x) else .error .index) items = .ok items' →
    notCitedList fact items' = true
  | [], pre, k, items, items', hu, h => by
    simp only [modifyAt] at h
    split at h
    · rename_i hlt
      simp at h; subst h
      apply notCitedList_all
      intro j y hy
      by_cases hj : j = k
      · subst hj
        simp [hlt] at hy; subst hy; exact hx
      · rw [List.getElem?_set_ne (Ne.symm hj)] at hy
        have := usedExceptFrom_get fact _ pre items 0 j y hu hy
        simp only [Nat.zero_add, List.append_nil] at this
        exact notCited_of_usedExcept fact _ y (pre ++ [j]) (by simpa using ne_prefix_sibling pre j k [] hj) this
    · simp at h
  | i :: rest, pre, k, items, items', hu, h => by
    simp only [modifyAt] at h
    split at h
    · simp at h
    · rename_i id r p th hs sub hget
      split at h
      · split at h
        · rename_i sub' hsub
          simp at h; subst h
          have hskip : pre ++ (i :: rest) ++ [k] = pre ++ [i] ++ rest ++ [k] := by simp
          have hit := usedExceptFrom_get fact _ pre items 0 i _ hu hget
          simp only [Item.usedExcept, Bool.or_eq_false_iff, Nat.zero_add, Bool.and_eq_false_iff] at hit
          have ih := notCited_place_at_skip fact x hx rest (pre ++ [i]) k sub sub' (by rw [← hskip]; exact hit.2) hsub
          have hne : pre ++ [i] ≠ pre ++ (i :: rest) ++ [k] := by
            intro e
            have := congrArg List.length e
            simp at this
          have hp : p.contains fact = false := by
            rcases hit.1 with h1 | h1
            · simp [hne] at h1
            · exact h1
          have hi : i < items.length := by
            rcases Nat.lt_or_ge i items.length with h1 | h1
            · exact h1
            · simp [List.getElem?_eq_none h1] at hget
          apply notCitedList_all
          intro j y hy
          by_cases hj : j = i
          · subst hj
            simp [hi] at hy; subst hy
            simp only [Item.notCited, Bool.and_eq_true, List.all_eq_true, decide_eq_true_eq]
            refine ⟨fun z hz e => ?_, ih⟩
            subst e
            simp [List.contains_iff_mem] at hp
            exact hp hz
          · rw [List.getElem?_set_ne (Ne.symm hj)] at hy
            have := usedExceptFrom_get fact _ pre items 0 j y hu hy
            simp only [Nat.zero_add] at this
            exact notCited_of_usedExcept fact _ y (pre ++ [j])
              (by simpa using ne_prefix_sibling pre j i (rest ++ [k]) hj) this
        · simp at h
      · simp at h

theorem notCited_getAt (rm : IId) : ∀ (path : List Nat) (T l : List Item), notCitedList rm T = true →
    getAt path T = some l → notCitedList rm l = true
  | [], T, l, h, hg => by simp [getAt] at hg; subst hg; exact h
  | i :: rest, T, l, h, hg => by
    simp only [getAt] at hg
    split at hg
    · rename_i a b c d sub hget
      have := notCitedList_get rm T i _ h hget
      simp only [Item.notCited, Bool.and_eq_true] at this
      exact notCited_getAt rm rest sub l this.2 hg
    · simp at hg

theorem setLine_unfold (s : Proof) (id : IId) (r : Nat) (p : List IId) (th : Option Seq) (split : Nat)
    (hlast : id.getLast? = some split) :
    setLine s id r p th = modifyAt id.dropLast
      (fun l => if split < l.length then .ok (l.set split (Item.mk id r p th false [])) else .error .index) s := by
  simp [setLine, placeItem, hlast]

/-- When `revert_intro` reaches `remove_line(fact)`, no line of the state cites `fact`. -/
theorem revertIntroPrefix_notCited (s s2 : Proof) (id fact : IId) (th' : Option Seq) (ra ri : Nat)
    (h : revertIntroPrefix s id fact th' ra ri = .ok s2) : notCitedList fact s2 = true := by
  unfold revertIntroPrefix at h
  split at h
  · rename_i cur pt item hcur hpt hitem
    split at h
    · simp at h
    · split at h
      · simp at h
      · split at h
        · simp at h
        · rename_i hguard
          simp at hguard
          split at h
          · simp at h
          · rename_i s1 h1
            -- ids are non-empty (the lines exist)
            obtain ⟨_, k1, hl1, _, _⟩ := findItem_getAt id s cur hcur
            obtain ⟨_, k2, hl2, _, _⟩ := findItem_getAt (incrId id 1) s item hitem
            rw [setLine_unfold s id _ _ _ k1 hl1] at h1
            rw [setLine_unfold s1 (incrId id 1) _ _ _ k2 hl2] at h
            have u1 := usedExcept_place fact (incrId id 1) _ id.dropLast [] k1 s s1 hguard h1
              (by simp [Item.usedExcept, usedExceptFrom])
            have hskip : ([] : IId) ++ (incrId id 1).dropLast ++ [k2] = incrId id 1 := by
              simpa using dropLast_concat (incrId id 1) k2 hl2
            refine notCited_place_at_skip fact _ ?_ (incrId id 1).dropLast [] k2 s1 s2 (by rw [hskip]; exact u1) h
            simp [Item.notCited, notCitedList]
  · simp at h

end Holpy.C13
