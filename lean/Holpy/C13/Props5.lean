import Holpy.C13.NestedSig
import Holpy.C13.Frame
/-
C13 — property theorems, fifth file: `apply_tactic` on a goal inside a subproof, and the frame of
the editing operations (what they leave alone).
-/
namespace Holpy.C13

/-- `apply_tactic(id, …)` for a goal at any depth: in the proof (item list) that contains the goal,
the lines before and after the goal keep rule and stated sequent, in place; only the goal line is
replaced by a segment `X` (the surviving lines of the proof term).  `l`, `l'` are the lines of that
proof before and after.  (Lines of other proofs: `edit_frame`.) -/
theorem apply_tactic_keeps_statement_nested (s s' : Proof) (id : IId) (new : List NewLine) (cur : Item)
    (hcur : findItem s id = some cur) (hid : exportedAt id new) (h : applyTactic s id new = .ok s') :
    ∃ k l l' X, id.getLast? = some k ∧ getAt id.dropLast s = some l ∧ getAt id.dropLast s' = some l' ∧
      l'.map sigOf = (l.map sigOf).take k ++ X ++ (l.map sigOf).drop (k + 1) := by
  obtain ⟨l, k, h1, h2, _⟩ := findItem_getAt id s cur hcur
  have e := dropLast_concat id k h1
  have hL : sigsAt id.dropLast s = some (l.map sigOf) := by simp [sigsAt, h2]
  rw [← e] at hcur h
  have hid' : ∀ i (hi : i < new.length), (new[i]).item.id = incrId (id.dropLast ++ [k]) i := by
    rw [e]; exact hid
  obtain ⟨X, hX⟩ := applyTactic_at id.dropLast s s' k new cur _ hL hcur hid' h
  simp only [sigsAt, Option.map_eq_some_iff] at hX
  obtain ⟨l', g', e'⟩ := hX
  exact ⟨k, l, l', X, h1, h2, g', e'⟩

/-- a gap inside a subproof, a proof term with two lines (a new gap and the step) -/
def sNested : Proof :=
  [.mk [0] 4 [] (some ⟨1, []⟩) false [],
   .mk [1] 3 [] (some ⟨9, []⟩) true
     [.mk [1, 0] 4 [] (some ⟨2, [2]⟩) false [],
      .mk [1, 1] 1 [] (some ⟨5, [2]⟩) false [],
      .mk [1, 2] 6 [[1, 1]] (some ⟨7, [2]⟩) false []],
   .mk [2] 5 [[1]] (some ⟨9, []⟩) false []]

def newNested : List NewLine :=
  [⟨.mk [1, 1] 1 [] (some ⟨6, [2]⟩) false [], false⟩, ⟨.mk [1, 2] 7 [[1, 1], [1, 0]] (some ⟨5, [2]⟩) false [], false⟩]

example : (match applyTactic sNested [1, 1] newNested with
    | .ok s' => wf s' && (getAt [1] s' |>.map (fun l => l.map sigOf)) ==
        some [(4, some ⟨2, [2]⟩), (1, some ⟨6, [2]⟩), (7, some ⟨5, [2]⟩), (6, some ⟨7, [2]⟩)]
    | .error _ => false) = true := by decide

/-- The line an operation is aimed at (for `replace_id` the line that is removed). -/
def Op.target : Op → IId
  | .addLineBefore id _ => id
  | .removeLine id => id
  | .setLine id _ _ _ => id
  | .replaceId old _ => old
  | .applyTactic id _ => id

/-- `apply_tactic` gets exported lines numbered id, id+1, … -/
def Op.exported : Op → Prop
  | .applyTactic id new => exportedAt id new
  | _ => True

/-- Frame of every editing operation: it works in one proof (item list) — the one that contains its
target — and every line that is neither a line of that proof nor below one (`inside` = false: other
top-level lines, lines of enclosing proofs, including the `subproof` line that owns the proof, lines
of sibling subproofs) reads afterwards exactly as before: same id, rule, citations, sequent, and
still (not) a subproof line.  What happens inside that proof: the numbering/citation theorems and
`apply_tactic_keeps_statement_nested`. -/
theorem edit_frame (s s' : Proof) (op : Op) (hx : op.exported) (h : step s op = .ok s') (Q : IId)
    (hQ : inside op.target.dropLast Q = false) :
    (findItem s' Q).map headerOf = (findItem s Q).map headerOf := by
  cases op with
  | addLineBefore id n => exact frame_addLineBefore s s' id n h Q hQ
  | removeLine id => exact frame_removeLine s s' id h Q hQ
  | setLine id r p th => exact frame_placeItem s s' id _ h Q hQ
  | replaceId o n => exact frame_replaceId s s' o n h Q hQ
  | applyTactic id new => exact frame_applyTactic s s' id new hx h Q hQ

/-- `[0]`, `[1]` (the subproof line itself) and `[2]` are outside the proof `[1]`; `[1, 2]` is inside
and does change (it is renumbered) -/
example : inside [1] [0] = false ∧ inside [1] [1] = false ∧ inside [1] [2] = false ∧ inside [1] [1, 2] = true ∧
    inside [1] [1, 2, 0] = true ∧ inside [1, 0] [1, 2] = false := by decide

example : (match applyTactic sNested [1, 1] newNested with
    | .ok s' => (findItem s' [1, 2]).map headerOf != (findItem sNested [1, 2]).map headerOf &&
        (findItem s' [2]).map headerOf == (findItem sNested [2]).map headerOf
    | .error _ => false) = true := by decide

end Holpy.C13
