import Holpy.C13.Proofs
namespace Holpy.C13
end Holpy.C13
