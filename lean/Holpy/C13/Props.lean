import Holpy.C13.Proofs
import Holpy.C13.Goal
import Holpy.C13.Numbering
import Holpy.C13.Remove
import Holpy.C13.Tactic
import Holpy.C13.GoalTactic
/-
C13 — property theorems about the structural model of Holpy/C13/Model.lean.
`wf` = every line carries the id of the position it sits at (contiguous numbering at every depth)
∧ every citation satisfies `can_depend_on` ∧ a line without subproof has no subproof lines.
Proved: each of the five operations (`add_line_before`, `remove_line`, `set_line`, `replace_id`,
`apply_tactic`) preserves `wf` under the precondition the code establishes for it, hence every
sequence does; in a well-formed state every citation names an existing earlier visible line.
The last top-level line (the stated goal) keeps rule and sequent under all five operations
(`goal_preserved`, `tactics_preserve_goal`, `apply_tactic_keeps_statement`).
-/
namespace Holpy.C13

/-- `ItemID.incr_id_after` applied to a line's id and to a citation (as `incr_proof_item` does)
never changes whether the citation satisfies `can_depend_on` — for every insertion point. -/
theorem shift_preserves_visibility (s a b : IId) (n : Nat) (hs : s ≠ []) :
    canDependOn (incrIdAfter a s n) (incrIdAfter b s n) = canDependOn a b :=
  canDependOn_incr s a b n hs

example : canDependOn (incrIdAfter [2, 1] [1] 3) (incrIdAfter [0] [1] 3) = true ∧
    canDependOn (incrIdAfter [2, 1] [2, 0] 3) (incrIdAfter [2, 0] [2, 0] 3) = true := by decide

/-- `can_depend_on` is transitive: when `replace_id` re-points a citation of `old` to a line
`new` that `find_goal` found visible from `old`, the citing line may cite `new`. -/
theorem visibility_transitive (a old new : IId) (h1 : canDependOn a old = true)
    (h2 : canDependOn old new = true) : canDependOn a new = true :=
  canDependOn_trans new a old h1 h2

example : canDependOn [1, 2, 0] [1, 1] = true ∧ canDependOn [1, 1] [0] = true ∧ canDependOn [1, 2, 0] [0] = true := by decide

/-- `add_line_before(id, n)` keeps every citation of every line (subproofs included) within
`can_depend_on`. -/
theorem add_line_preserves_citations (s s' : Proof) (id : IId) (n : Nat) (hw : citesOkList s = true)
    (h : addLineBefore s id n = .ok s') : citesOkList s' = true :=
  citesOk_addLineBefore s s' id n hw h

/-- `set_line(id, rule, prevs=…)` keeps the citation condition when the new citations satisfy
`can_depend_on` (what `apply_method` asserts of the selected facts). -/
theorem set_line_preserves_citations (s s' : Proof) (id : IId) (r : Nat) (p : List IId) (th : Option Seq)
    (hw : citesOkList s = true) (hp : ∀ x ∈ p, canDependOn id x = true)
    (h : setLine s id r p th = .ok s') : citesOkList s' = true :=
  citesOk_setLine s s' id r p th hw hp h

/-- The re-pointing phase of `replace_id(old, new)` keeps the citation condition when `new` is
visible from `old` (as `find_goal` guarantees). -/
theorem replace_preserves_citations (o n : IId) (hon : canDependOn o n = true) (l : List Item)
    (hw : citesOkList l = true) : citesOkList (replaceList o n l) = true :=
  citesOkList_replace o n hon l hw

theorem wf_iff (s : Proof) : wf s = true ↔
    numberedFrom [] 0 s = true ∧ citesOkList s = true ∧ subOkList s = true := by
  simp [wf, Bool.and_eq_true, and_assoc]

/-- `add_line_before(id, n)` before an existing line preserves well-formedness: every line still
carries the id of the position it sits at (contiguous numbering at every depth), every citation
still satisfies `can_depend_on`. -/
theorem add_line_preserves_wf (s s' : Proof) (id : IId) (n : Nat) (cur : Item) (hw : wf s = true)
    (hex : findItem s id = some cur) (h : addLineBefore s id n = .ok s') : wf s' = true := by
  rw [wf_iff] at hw ⊢
  exact ⟨numbered_addLineBefore s s' id n cur hw.1 hex h, citesOk_addLineBefore s s' id n hw.2.1 h,
    subOk_addLineBefore s s' id n hw.2.2 h⟩

/-- `set_line(id, …)` with admissible citations preserves well-formedness. -/
theorem set_line_preserves_wf (s s' : Proof) (id : IId) (r : Nat) (p : List IId) (th : Option Seq)
    (hw : wf s = true) (hp : ∀ x ∈ p, canDependOn id x = true)
    (h : setLine s id r p th = .ok s') : wf s' = true := by
  rw [wf_iff] at hw ⊢
  exact ⟨numbered_setLine s s' id r p th hw.1 h, citesOk_setLine s s' id r p th hw.2.1 hp h,
    subOk_setLine s s' id r p th hw.2.2 h⟩

/-- `remove_line(id)` of an existing line that no line of its proof (subproofs included) cites
preserves well-formedness (lines of other proofs cannot cite it: `wf_citation_resolves`). -/
theorem remove_line_preserves_wf (s s' : Proof) (id : IId) (cur : Item) (hw : wf s = true)
    (hex : findItem s id = some cur)
    (hnc : ∀ l, getAt id.dropLast s = some l → notCitedList id l = true)
    (h : removeLine s id = .ok s') : wf s' = true := by
  rw [wf_iff] at hw ⊢
  exact ⟨numbered_removeLine s s' id cur hw.1 hex h, citesOk_removeLine s s' id hw.2.1 hnc h,
    subOk_removeLine s s' id hw.2.2 h⟩

/-- `replace_id(old, new)`: re-pointing the citations of an existing line `old` to a line `new`
visible from it (what `find_goal` returns) and removing `old` preserves well-formedness. -/
theorem replace_id_preserves_wf (s s' : Proof) (old new : IId) (cur : Item) (hw : wf s = true)
    (hex : findItem s old = some cur) (hvis : canDependOn old new = true)
    (h : replaceId s old new = .ok s') : wf s' = true :=
  wf_replaceId s s' old new cur hw hex hvis h

/-- In a well-formed state every citation of every line resolves: the line found at position `q`
carries id `q`, each of its citations `p` satisfies `can_depend_on(q, p)` and a line exists at `p`
(an earlier line of the same proof or of an enclosing one). -/
theorem wf_citation_resolves (s : Proof) (q : IId) (it : Item) (hw : wf s = true)
    (hq : findItem s q = some it) :
    it.id = q ∧ ∀ p ∈ it.prevs, canDependOn q p = true ∧ ∃ it', findItem s p = some it' := by
  rw [wf_iff] at hw
  have hid : it.id = q := by simpa using numbered_findItem q [] s it hw.1 hq
  refine ⟨hid, fun p hp => ?_⟩
  have hc := citesOk_findItem q s it hw.2.1 hq p hp
  rw [hid] at hc
  exact ⟨hc, visible_line_exists p q s it hq hc⟩

/-- `apply_tactic(id, …)` as a whole — insertion of the lines, placement of the exported lines,
replacement of gaps that an earlier visible line proves, trivial closing — preserves
well-formedness, for exported lines without subproofs whose citations are admissible for the ids
they carry (`shapeOk`; compared with every captured `ProofTerm.export` by the harness). -/
theorem apply_tactic_preserves_wf (s s' : Proof) (id : IId) (new : List NewLine) (hw : wf s = true)
    (hshape : shapeOk new) (h : applyTactic s id new = .ok s') : wf s' = true :=
  wf_applyTactic s s' id new hw hshape h

/-- The preconditions the code establishes before each operation: insertion before an existing
line; a line set with citations that satisfy `can_depend_on` (what `apply_method` asserts of the
selected facts); removal of an existing line that no line of its proof cites; replacement of an
existing line by a line visible from it (what `find_goal` returns); a tactic whose exported lines
are `shapeOk`. -/
def wfSafe (s : Proof) : Op → Prop
  | .addLineBefore id _ => ∃ cur, findItem s id = some cur
  | .setLine id _ p _ => ∀ x ∈ p, canDependOn id x = true
  | .removeLine id => (∃ cur, findItem s id = some cur) ∧
      ∀ l, getAt id.dropLast s = some l → notCitedList id l = true
  | .replaceId old new => (∃ cur, findItem s old = some cur) ∧ canDependOn old new = true
  | .applyTactic _ new => shapeOk new

def wfSafeRun : Proof → List Op → Prop
  | _, [] => True
  | s, op :: ops => wfSafe s op ∧ ∀ s1, step s op = .ok s1 → wfSafeRun s1 ops

/-- Each of the five operations preserves well-formedness (ids equal positions at every depth;
every citation satisfies `can_depend_on`, hence — `wf_citation_resolves` — names an existing
earlier visible line) under the precondition the code establishes for it. -/
theorem edit_preserves_wf (s s' : Proof) (op : Op) (hw : wf s = true) (hop : wfSafe s op)
    (h : step s op = .ok s') : wf s' = true := by
  cases op with
  | addLineBefore id n =>
    obtain ⟨cur, hc⟩ := hop
    exact add_line_preserves_wf s s' id n cur hw hc h
  | setLine id r p th => exact set_line_preserves_wf s s' id r p th hw hop h
  | removeLine id =>
    obtain ⟨⟨cur, hc⟩, hnc⟩ := hop
    exact remove_line_preserves_wf s s' id cur hw hc hnc h
  | replaceId o n =>
    obtain ⟨⟨cur, hc⟩, hv⟩ := hop
    exact replace_id_preserves_wf s s' o n cur hw hc hv h
  | applyTactic id new => exact apply_tactic_preserves_wf s s' id new hw hop h

/-- By induction, every completed sequence of operations that meet their preconditions keeps the
state well-formed. -/
theorem edits_preserve_wf : ∀ (ops : List Op) (s s' : Proof), wf s = true →
    wfSafeRun s ops → run s ops = .ok s' → wf s' = true
  | [], s, s', hw, _, h => by simp [run] at h; subst h; exact hw
  | op :: ops, s, s', hw, hs, h => by
    simp only [run] at h
    split at h
    · rename_i s1 h1
      exact edits_preserve_wf ops s1 s' (edit_preserves_wf s s1 op hw hs.1 h1) (hs.2 s1 h1) h
    · simp at h

/-- `apply_tactic(id, …)` keeps the statement of every top-level line other than its goal: for a
top-level goal `[k]` the lines before and after it keep rule and stated sequent, in place, and only
the goal line is replaced by a segment `X` (the surviving lines of the proof term, whose last line
states `pt.th`, which proves the goal's sequent by the hypothesis `pt.th.can_prove(goal)` that
fix C13-9 asserts in every tactic); for a goal inside a subproof no top-level line changes. -/
theorem apply_tactic_keeps_statement (s s' : Proof) (id : IId) (new : List NewLine) (cur : Item)
    (hcur : findItem s id = some cur) (hid : exportedAt id new) (h : applyTactic s id new = .ok s') :
    (∀ k, id = [k] → ∃ X, s'.map sigOf = (s.map sigOf).take k ++ X ++ (s.map sigOf).drop (k + 1)) ∧
    (2 ≤ id.length → s'.map sigOf = s.map sigOf) := by
  refine ⟨fun k hk => ?_, fun hn => applyTactic_nested s s' id new hn hid h⟩
  subst hk
  exact applyTactic_top s s' k new cur hcur hid h

/-- `apply_tactic` keeps rule and stated sequent of the last top-level line — the line that states
the theorem — whenever that line is not itself a gap (it is the `intros` line; `apply_tactic`
asserts that its target is a gap, so the target is another line). -/
theorem apply_tactic_keeps_goal_line (s s' : Proof) (id : IId) (new : List NewLine)
    (hid : exportedAt id new) (hlast : lastNotGap s)
    (h : applyTactic s id new = .ok s') : (s'.getLast?).map sigOf = (s.getLast?).map sigOf :=
  applyTactic_keeps_last s s' id new hid hlast h

/-- After any sequence of tactic applications that complete, the last top-level line still has the
rule and states the sequent it had at the start (the original goal). -/
theorem tactics_preserve_goal (ts : List (IId × List NewLine)) (s s' : Proof)
    (hid : ∀ t ∈ ts, exportedAt t.1 t.2) (hlast : lastNotGap s) (h : runTactics s ts = .ok s') :
    (s'.getLast?).map sigOf = (s.getLast?).map sigOf :=
  runTactics_keeps_last ts s s' hid hlast h

/-- Along every completed sequence of the five operations, the last top-level line keeps its rule
and its stated sequent, under the preconditions `safeRunAll`: the primitives insert before existing
lines and remove / overwrite / replace lines other than the last top-level one (the methods do so
with gaps and with lines they inserted); `apply_tactic` gets exported lines numbered id, id+1, …
while the last line is not a gap. -/
theorem goal_preserved (ops : List Op) (s s' : Proof) (hs : safeRunAll s ops) (h : run s ops = .ok s') :
    (s'.getLast?).map sigOf = (s.getLast?).map sigOf :=
  goal_preserved_run_all ops s s' hs h

/-! Non-vacuity: a state with a subproof; inserting two lines inside it and setting one of them. -/
def s1 : Proof :=
  [.mk [0] 3 [] (some ⟨1, []⟩) true
      [.mk [0, 0] 4 [] (some ⟨2, [2]⟩) false [], .mk [0, 1] ruleSorry [] (some ⟨3, [2]⟩) false [],
       .mk [0, 2] 5 [[0, 0], [0, 1]] (some ⟨1, []⟩) false []],
   .mk [1] 5 [[0]] (some ⟨1, []⟩) false []]

example : wf s1 = true := by decide

example : (match run s1 [.addLineBefore [0, 1] 2, .setLine [0, 1] 6 [[0, 0]] (some ⟨9, [2]⟩)] with
    | .ok s' => wf s' && (s'.map sigOf == s1.map sigOf) && citesOkList s'
    | .error _ => false) = true := by decide

example : shapeOk [⟨.mk [0, 1] ruleSorry [] (some ⟨7, [2]⟩) false [], false⟩,
    ⟨.mk [0, 2] 9 [[0, 0], [0, 1]] (some ⟨3, [2]⟩) false [], false⟩] := by
  intro l hl
  simp at hl
  rcases hl with h | h <;> subst h <;> simp [Item.hasSub, Item.sub, Item.prevs, Item.id] <;> decide

example : (match applyTactic s1 [0, 1] [⟨.mk [0, 1] ruleSorry [] (some ⟨7, [2]⟩) false [], false⟩,
      ⟨.mk [0, 2] 9 [[0, 0], [0, 1]] (some ⟨3, [2]⟩) false [], false⟩] with
    | .ok s' => wf s' && (sorrysList s' == [some ⟨7, [2]⟩])
    | .error _ => false) = true := by decide

example : wfSafeRun s1 [.addLineBefore [1] 1, .setLine [1] 6 [[0]] (some ⟨9, []⟩)] := by
  refine ⟨⟨_, rfl⟩, fun a _ => ⟨?_, fun _ _ => trivial⟩⟩
  intro x hx
  simp at hx
  subst hx
  decide

example : (match replaceId s1 [0, 1] [0, 0] with
    | .ok s' => wf s' && s'.length == 2 && canDependOn [0, 1] [0, 0]
    | .error _ => false) = true := by decide

example : ∃ it, findItem s1 [0, 2] = some it ∧ it.prevs = [[0, 0], [0, 1]] := ⟨_, rfl, rfl⟩

example : safeRunAll s1 [.addLineBefore [1] 1, .addLineBefore [0, 1] 1, .removeLine [0, 1]] := by
  simp [safeRunAll, goalSafeAll, goalSafe, targetOk, s1]

/-- a top-level goal: `0: sorry; 1: intros from 0`, a tactic with one gap and a conclusion -/
def s2 : Proof := [.mk [0] ruleSorry [] (some ⟨5, []⟩) false [], .mk [1] 4 [[0]] (some ⟨5, []⟩) false []]
def new2 : List NewLine :=
  [⟨.mk [0] ruleSorry [] (some ⟨7, []⟩) false [], false⟩, ⟨.mk [1] 9 [[0]] (some ⟨5, []⟩) false [], false⟩]

example : exportedAt [0] new2 ∧ lastNotGap s2 ∧ findItem s2 [0] = some (.mk [0] ruleSorry [] (some ⟨5, []⟩) false []) := by
  refine ⟨?_, ?_, rfl⟩
  · intro k hk
    have : k = 0 ∨ k = 1 := by simp [new2] at hk; omega
    rcases this with h | h <;> subst h <;> rfl
  · intro it hit
    simp [s2] at hit
    subst hit
    decide

example : (match runTactics s2 [([0], new2)] with
    | .ok s' => wf s' && ((s'.getLast?).map sigOf == (s2.getLast?).map sigOf) && s'.length == 3
    | .error _ => false) = true := by decide

example : (match run s1 [.addLineBefore [1] 1, .addLineBefore [0, 1] 1, .removeLine [0, 1]] with
    | .ok s' => wf s' && ((s'.getLast?).map sigOf == (s1.getLast?).map sigOf) && s'.length == 3
    | .error _ => false) = true := by decide

end Holpy.C13
