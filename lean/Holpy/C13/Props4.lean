import Holpy.C13.RoundTrip
/-
C13 — property theorems, fourth file: the textual round trip on the structural level
(Holpy/C13/ExportModel.lean; arguments and sequents are opaque codes that read back by hypothesis —
that is C07's subject).
-/
namespace Holpy.C13

/-- Whatever `parse_proof` accepts is contiguously numbered: every line sits at the position its id
names, at every depth (`insert_item` follows the id and requires `id[-1] == len(items)`). -/
theorem import_numbered (lines : List Line) (s : Proof) (h : importLines [] lines = .ok s) :
    numberedFrom [] 0 s = true :=
  numbered_importLines lines [] s (by simp [numberedFrom]) h

example : (match importLines [] [⟨[0], 3, [], none⟩, ⟨[0, 0], 4, [], none⟩, ⟨[0, 1], 1, [[0, 0]], none⟩, ⟨[1], 5, [[0]], none⟩] with
    | .ok s => wf s && s.length == 2 && (exportLines s).length == 4
    | .error _ => false) = true := by decide

/-- an id that is not the next free position is refused -/
example : (match importLines [] [⟨[0], 3, [], none⟩, ⟨[2], 5, [], none⟩] with
    | .ok _ => false
    | .error _ => true) = true := by decide

/-- Export followed by import is the identity: for every proof — subproofs at any depth — whose
lines carry the ids of their positions and whose `subproof` lines have a non-empty subproof
(`subExactList`: `subproof is not None` exactly where there are subproof lines), `parse_proof` of the
exported lines rebuilds the same tree: same ids, rules, citations, sequents, same nesting. -/
theorem export_import_id (s : Proof) (hn : numberedFrom [] 0 s = true) (hs : subExactList s = true) :
    importLines [] (exportLines s) = .ok s := by
  have := import_export_list s [] [] [] (by simp [subExactList]) (by simp [getAtE]) (by simpa using hn) hs
  simpa [modifyAtE] using this

/-- a proof with a subproof inside a subproof -/
def nested : Proof :=
  [.mk [0] 3 [] (some ⟨1, []⟩) true
      [.mk [0, 0] 4 [] (some ⟨2, [2]⟩) false [],
       .mk [0, 1] 3 [] (some ⟨3, [2]⟩) true
         [.mk [0, 1, 0] 4 [] (some ⟨4, [4]⟩) false [], .mk [0, 1, 1] 1 [[0, 1, 0], [0, 0]] (some ⟨5, [2, 4]⟩) false []],
       .mk [0, 2] 5 [[0, 0], [0, 1]] (some ⟨1, []⟩) false []],
   .mk [1] 5 [[0]] (some ⟨1, []⟩) false []]

example : numberedFrom [] 0 nested = true ∧ subExactList nested = true ∧ (exportLines nested).length = 7 := by decide

end Holpy.C13
