import Holpy.C13.Import
/-
C13 — property theorems, fourth file: the textual round trip on the structural level
(Holpy/C13/ExportModel.lean; arguments and sequents are opaque codes that read back by hypothesis —
that is C07's subject).
-/
namespace Holpy.C13

/-- Whatever `parse_proof` accepts is contiguously numbered: every line sits at the position its id
names, at every depth (`insert_item` follows the id and requires `id[-1] == len(items)`). -/
theorem import_numbered (lines : List Line) (s : Proof) (h : importLines [] lines = .ok s) :
    numberedFrom [] 0 s = true :=
  numbered_importLines lines [] s (by simp [numberedFrom]) h

example : (match importLines [] [⟨[0], 3, [], none⟩, ⟨[0, 0], 4, [], none⟩, ⟨[0, 1], 1, [[0, 0]], none⟩, ⟨[1], 5, [[0]], none⟩] with
    | .ok s => wf s && s.length == 2 && (exportLines s).length == 4
    | .error _ => false) = true := by decide

/-- an id that is not the next free position is refused -/
example : (match importLines [] [⟨[0], 3, [], none⟩, ⟨[2], 5, [], none⟩] with
    | .ok _ => false
    | .error _ => true) = true := by decide

/-- Export followed by import is the identity on proofs without subproofs whose lines carry the ids
of their positions: same ids, rules, citations, sequents.  Partial: for proofs with subproofs the
round trip is not proved; it is compared on every state the oracle reaches (stream `import`: the
model's `importLines (exportLines s)` against the structure of the real `parse_proof(json_data)`). -/
theorem export_import_id_partial (s : Proof) (hf : flatOk s) (hn : numberedFrom [] 0 s = true) :
    importLines [] (exportLines s) = .ok s := by
  rw [export_flat s hf]
  simpa using import_flat s [] hf (by simpa using hn)

example : flatOk [.mk [0] ruleSorry [] (some ⟨5, []⟩) false [], .mk [1] 4 [[0]] (some ⟨5, []⟩) false []] := by
  intro it hit
  simp at hit
  rcases hit with h | h <;> subst h <;> exact ⟨rfl, rfl⟩

end Holpy.C13
