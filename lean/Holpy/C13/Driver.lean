import Holpy.C14.Wire
/- Driver of the C13 model: see Holpy/C13/Wire.lean and Holpy/C14/Wire.lean for the line protocol. -/
def main : IO Unit := Holpy.lineLoop Holpy.C14.Wire.handle
