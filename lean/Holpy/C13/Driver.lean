import Holpy.C13.Wire
/- Driver of the C13 model: see Holpy/C13/Wire.lean for the line protocol. -/
def main : IO Unit := Holpy.lineLoop Holpy.C13.Wire.handle
