import Holpy.C13.Import
/-
Helper lemmas for C13: `importLines (exportLines s) = s` for proofs with subproofs.
Navigation here ignores the `hasSub` flag (`insert_item` creates a subproof where there is none);
the flag of the result is what `insert_item` leaves: true exactly where lines were inserted below.
-/
namespace Holpy.C13

/- `hasSub` says exactly whether there are subproof lines (a `subproof` line with an empty
subproof does not survive the round trip — and does not re-check either). -/
mutual
def Item.subExact : Item → Bool
  | .mk _ _ _ _ hs sub => (hs == !sub.isEmpty) && subExactList sub
def subExactList : List Item → Bool
  | [] => true
  | i :: is => Item.subExact i && subExactList is
end

/-- The item list reached by `path`, whatever the `hasSub` flags say. -/
def getAtE : List Nat → List Item → Option (List Item)
  | [], items => some items
  | i :: rest, items =>
    match items[i]? with
    | some (.mk _ _ _ _ _ sub) => getAtE rest sub
    | none => none

/-- Replace the list reached by `path` by `f` of it; the flags along the path become "has lines". -/
def modifyAtE (f : List Item → List Item) : List Nat → List Item → List Item
  | [], items => f items
  | i :: rest, items =>
    match items[i]? with
    | some (.mk id r p th _ sub) =>
      let sub' := modifyAtE f rest sub
      items.set i (.mk id r p th (!sub'.isEmpty) sub')
    | none => items

theorem importLines_append : ∀ (a b : List Line) (s : Proof),
    importLines s (a ++ b) = (match importLines s a with | .ok s1 => importLines s1 b | .error e => .error e)
  | [], b, s => by simp [importLines]
  | x :: a, b, s => by
    simp only [List.cons_append, importLines]
    cases insertItem s x with
    | ok s1 => simp [importLines_append a b s1]
    | error e => simp

theorem modifyAtE_snoc_nonempty (x : Item) : ∀ (path : List Nat) (T L : List Item), getAtE path T = some L →
    (modifyAtE (fun l => l ++ [x]) path T).isEmpty = false
  | [], T, L, _ => by simp [modifyAtE]
  | i :: rest, T, L, h => by
    simp only [getAtE] at h
    split at h
    · rename_i id r p th hs sub hget
      simp only [modifyAtE, hget]
      have hi : i < T.length := by
        rcases Nat.lt_or_ge i T.length with h1 | h1
        · exact h1
        · simp [List.getElem?_eq_none h1] at hget
      cases T with
      | nil => simp at hi
      | cons a as => cases i <;> simp
    · simp at h

/-- One `insert_item` at the end of the list reached by `path`. -/
theorem insertAt_eq (ln : Line) : ∀ (path : List Nat) (T L : List Item),
    getAtE path T = some L →
    insertAt ln path L.length T = .ok (modifyAtE (fun l => l ++ [.mk ln.id ln.rule ln.prevs ln.th false []]) path T)
  | [], T, L, h => by
    simp [getAtE] at h; subst h
    simp [insertAt, modifyAtE]
  | i :: rest, T, L, h => by
    simp only [getAtE] at h
    split at h
    · rename_i id r p th hs sub hget
      have ih := insertAt_eq ln rest sub L h
      simp only [insertAt, hget, ih, modifyAtE]
      have := modifyAtE_snoc_nonempty (Item.mk ln.id ln.rule ln.prevs ln.th false []) rest sub L h
      simp [this]
    · simp at h

/-! ### algebra of `modifyAtE` -/

theorem modifyAtE_congr (f g : List Item → List Item) : ∀ (path : List Nat) (T L : List Item),
    getAtE path T = some L → f L = g L → modifyAtE f path T = modifyAtE g path T
  | [], T, L, h, e => by simp [getAtE] at h; subst h; simpa [modifyAtE] using e
  | i :: rest, T, L, h, e => by
    simp only [getAtE] at h
    split at h
    · rename_i id r p th hs sub hget
      simp only [modifyAtE, hget]
      rw [modifyAtE_congr f g rest sub L h e]
    · simp at h

theorem getAtE_modifyAtE (f : List Item → List Item) : ∀ (path : List Nat) (T L : List Item),
    getAtE path T = some L → getAtE path (modifyAtE f path T) = some (f L)
  | [], T, L, h => by simp [getAtE] at h; subst h; simp [getAtE, modifyAtE]
  | i :: rest, T, L, h => by
    simp only [getAtE] at h
    split at h
    · rename_i id r p th hs sub hget
      have hi : i < T.length := by
        rcases Nat.lt_or_ge i T.length with h1 | h1
        · exact h1
        · simp [List.getElem?_eq_none h1] at hget
      simp only [modifyAtE, hget, getAtE, List.getElem?_set_self hi]
      exact getAtE_modifyAtE f rest sub L h
    · simp at h

theorem modifyAtE_comp (f g : List Item → List Item) : ∀ (path : List Nat) (T L : List Item),
    getAtE path T = some L → modifyAtE g path (modifyAtE f path T) = modifyAtE (fun l => g (f l)) path T
  | [], T, L, _ => by simp [modifyAtE]
  | i :: rest, T, L, h => by
    simp only [getAtE] at h
    split at h
    · rename_i id r p th hs sub hget
      have hi : i < T.length := by
        rcases Nat.lt_or_ge i T.length with h1 | h1
        · exact h1
        · simp [List.getElem?_eq_none h1] at hget
      simp only [modifyAtE, hget, List.getElem?_set_self hi, List.set_set]
      rw [modifyAtE_comp f g rest sub L h]
    · simp at h

theorem modifyAtE_append_path (g : List Item → List Item) : ∀ (P Q : List Nat) (T : List Item),
    modifyAtE g (P ++ Q) T = modifyAtE (modifyAtE g Q) P T
  | [], Q, T => by simp [modifyAtE]
  | i :: rest, Q, T => by
    simp only [List.cons_append, modifyAtE]
    cases T[i]? with
    | none => rfl
    | some it =>
      cases it with
      | mk id r p th hs sub => simp only [modifyAtE_append_path g rest Q sub]

theorem getAtE_append_path : ∀ (P Q : List Nat) (T L : List Item), getAtE P T = some L →
    getAtE (P ++ Q) T = getAtE Q L
  | [], Q, T, L, h => by simp [getAtE] at h; subst h; simp
  | i :: rest, Q, T, L, h => by
    simp only [getAtE] at h
    split at h
    · rename_i id r p th hs sub hget
      simp only [List.cons_append, getAtE, hget]
      exact getAtE_append_path rest Q sub L h
    · simp at h

/-! ### the exact flags -/

theorem subExactList_get : ∀ (T : List Item) (i : Nat) (x : Item), subExactList T = true → T[i]? = some x →
    Item.subExact x = true
  | [], i, x, _, hx => by simp at hx
  | a :: as, 0, x, h, hx => by simp at hx; subst hx; simp [subExactList] at h; exact h.1
  | a :: as, i + 1, x, h, hx => by
    simp at hx; simp [subExactList] at h
    exact subExactList_get as i x h.2 hx

theorem subExactList_set : ∀ (T : List Item) (i : Nat) (x : Item), subExactList T = true → Item.subExact x = true →
    subExactList (T.set i x) = true
  | [], i, x, _, _ => by simp [subExactList]
  | a :: as, 0, x, h, hx => by simp [subExactList] at h ⊢; exact ⟨hx, h.2⟩
  | a :: as, i + 1, x, h, hx => by
    simp [subExactList] at h ⊢
    exact ⟨h.1, subExactList_set as i x h.2 hx⟩

theorem subExactList_append : ∀ (a b : List Item), subExactList (a ++ b) = (subExactList a && subExactList b)
  | [], b => by simp [subExactList]
  | i :: is, b => by simp [subExactList, subExactList_append is b, Bool.and_assoc]

theorem subExact_modifyAtE (f : List Item → List Item)
    (hf : ∀ L, subExactList L = true → subExactList (f L) = true) :
    ∀ (path : List Nat) (T : List Item), subExactList T = true → subExactList (modifyAtE f path T) = true
  | [], T, h => by simpa [modifyAtE] using hf T h
  | i :: rest, T, h => by
    simp only [modifyAtE]
    cases hget : T[i]? with
    | none => simpa using h
    | some it =>
      cases it with
      | mk id r p th hs sub =>
        have hit := subExactList_get T i _ h hget
        simp only [Item.subExact, Bool.and_eq_true] at hit
        have ih := subExact_modifyAtE f hf rest sub hit.2
        apply subExactList_set _ _ _ h
        simp only [Item.subExact, Bool.and_eq_true]
        exact ⟨by simp, ih⟩

theorem modifyAtE_id : ∀ (path : List Nat) (T L : List Item), subExactList T = true →
    getAtE path T = some L → modifyAtE (fun l => l ++ []) path T = T
  | [], T, L, _, _ => by simp [modifyAtE]
  | i :: rest, T, L, hT, h => by
    simp only [getAtE] at h
    split at h
    · rename_i id r p th hs sub hget
      have hit := subExactList_get T i _ hT hget
      simp only [Item.subExact, Bool.and_eq_true, beq_iff_eq] at hit
      simp only [modifyAtE, hget]
      rw [modifyAtE_id rest sub L hit.2 h, ← hit.1]
      exact set_of_get T i _ hget
    · simp at h

/-! ### the round trip -/

theorem dropLast_snoc (P : List Nat) (k : Nat) : (P ++ [k]).dropLast = P := by simp

mutual
theorem import_export_item : ∀ (it : Item) (P : List Nat) (T L : List Item), subExactList T = true →
    getAtE P T = some L → Item.numbered (P ++ [L.length]) it = true → Item.subExact it = true →
    importLines T (Item.export it) = .ok (modifyAtE (fun l => l ++ [it]) P T)
  | .mk id r p th hs sub, P, T, L, hT, hg, hn, hs' => by
    simp only [Item.numbered, Bool.and_eq_true, decide_eq_true_eq] at hn
    simp only [Item.subExact, Bool.and_eq_true, beq_iff_eq] at hs'
    obtain ⟨hid, hnsub⟩ := hn
    obtain ⟨hflag, hssub⟩ := hs'
    subst hid
    -- the line itself
    have h1 : insertItem T ⟨P ++ [L.length], r, p, th⟩
        = .ok (modifyAtE (fun l => l ++ [Item.mk (P ++ [L.length]) r p th false []]) P T) := by
      simp only [insertItem, List.getLast?_append, List.getLast?_singleton, Option.or_some, dropLast_snoc]
      simpa using insertAt_eq ⟨P ++ [L.length], r, p, th⟩ P T L hg
    -- then the lines of its subproof, below it
    have hT1 : subExactList (modifyAtE (fun l => l ++ [Item.mk (P ++ [L.length]) r p th false []]) P T) = true :=
      subExact_modifyAtE _ (fun L0 h0 => by
        rw [subExactList_append, h0]; simp [subExactList, Item.subExact]) P T hT
    have hg1 : getAtE (P ++ [L.length]) (modifyAtE (fun l => l ++ [Item.mk (P ++ [L.length]) r p th false []]) P T)
        = some [] := by
      rw [getAtE_append_path P [L.length] _ _ (getAtE_modifyAtE _ P T L hg)]
      simp [getAtE]
    have h2 := import_export_list sub (P ++ [L.length]) _ [] hT1 hg1 (by simpa using hnsub) hssub
    simp only [Item.export, importLines, h1]
    rw [h2, modifyAtE_append_path, modifyAtE_comp _ _ P T L hg]
    congr 1
    apply modifyAtE_congr _ _ P T L hg
    simp [modifyAtE, hflag]
theorem import_export_list : ∀ (l : List Item) (P : List Nat) (T L : List Item), subExactList T = true →
    getAtE P T = some L → numberedFrom P L.length l = true → subExactList l = true →
    importLines T (exportLines l) = .ok (modifyAtE (fun l0 => l0 ++ l) P T)
  | [], P, T, L, hT, hg, _, _ => by
    simp only [exportLines, importLines]
    rw [modifyAtE_id P T L hT hg]
  | it :: rest, P, T, L, hT, hg, hn, hs' => by
    simp only [numberedFrom, Bool.and_eq_true] at hn
    simp only [subExactList, Bool.and_eq_true] at hs'
    have h1 := import_export_item it P T L hT hg hn.1 hs'.1
    have hT1 : subExactList (modifyAtE (fun l => l ++ [it]) P T) = true :=
      subExact_modifyAtE _ (fun L0 h0 => by
        rw [subExactList_append, h0]; simp [subExactList, hs'.1]) P T hT
    have hg1 := getAtE_modifyAtE (fun l => l ++ [it]) P T L hg
    have h2 := import_export_list rest P _ (L ++ [it]) hT1 hg1 (by simpa using hn.2) hs'.2
    simp only [exportLines, importLines_append, h1]
    rw [h2, modifyAtE_comp _ _ P T L hg]
    congr 1
    apply modifyAtE_congr _ _ P T L hg
    simp
end

end Holpy.C13
