namespace Holpy.C13
end Holpy.C13
