/-
C13 — executable model of the *structure* of a holpy proof state and of the editing operations
of `server/method.py` (`ProofState.add_line_before`, `remove_line`, `set_line`, `replace_id`,
`find_goal`, `apply_tactic`) over the proof tree of `kernel/proof.py`.

What is kept of a proof line: its id (`ItemID`, a tuple of ints), its rule (a number; 0 = the
empty rule of a freshly inserted line, 1 = `sorry`, 2 = `trivial`, 3 = `subproof`, everything else
opaque), its citations (`prevs`), its stated sequent (`th`, optional; proposition and hypotheses as
opaque codes, so that `Thm.can_prove` is computable) and its subproof (`hasSub` = "subproof is not
None", `sub` = `subproof.items`).  Rule arguments and the logical content of tactics are not
modelled: the result of a tactic enters `applyTactic` as data (the exported lines of the proof
term, with a flag saying whether `trivial_macro().can_eval` holds for a gap).

The model follows the Python statement by statement, in the *fixed* form of `apply_tactic`
(fixes/C14-2: a gap that `replace_id` removed is not looked at again by the trivial-closing loop).
Ids are lists of natural numbers: the code never produces a negative component from non-negative
ones (`decr_id` subtracts only from a component that is strictly greater than another one).
`ItemID`'s arithmetic is written by recursion on the two tuples; the harness compares it with the
real `ItemID.incr_id_after / decr_id / incr_id / can_depend_on` on generated ids in every run.
Import-free: linked into the `c13_model` / `c14_model` drivers.
-/
namespace Holpy.C13

abbrev IId := List Nat

/-! ### `ItemID` arithmetic (kernel/proof.py 33–75) -/

/-- `self.incr_id_after(start, n)`: with `k = len(start)`, if `self` has at least `k` components,
agrees with `start` on the first `k-1` and `self[k-1] >= start[k-1]`, add `n` to `self[k-1]`. -/
def incrIdAfter : IId → IId → Nat → IId
  | a :: as, [s], n => if s ≤ a then (a + n) :: as else a :: as
  | a :: as, s :: s' :: ss, n => if a = s then a :: incrIdAfter as (s' :: ss) n else a :: as
  | [], _, _ => []
  | x, [], _ => x

/-- `self.decr_id(id_remove)`: same shape with `>` and `- 1`. -/
def decrId : IId → IId → IId
  | a :: as, [s] => if s < a then (a - 1) :: as else a :: as
  | a :: as, s :: s' :: ss => if a = s then a :: decrId as (s' :: ss) else a :: as
  | [], _ => []
  | x, [] => x

/-- `self.incr_id(n)`: add `n` to the last component. -/
def incrId : IId → Nat → IId
  | [], _ => []
  | [a], n => [a + n]
  | a :: b :: as, n => a :: incrId (b :: as) n

/-- `self.can_depend_on(other)`: `other` is an earlier line of the proof that contains `self` or of
an enclosing one. -/
def canDependOn : IId → IId → Bool
  | a :: _, [o] => decide (o < a)
  | a :: as, o :: o' :: os => a == o && canDependOn as (o' :: os)
  | _, _ => false

/-! ### Proof lines -/

structure Seq where
  prop : Nat
  hyps : List Nat
  deriving DecidableEq, Repr, Inhabited

/-- `Thm.can_prove`: same proposition, hypotheses included in the target's. -/
def Seq.canProve (a b : Seq) : Bool := a.prop == b.prop && a.hyps.all (fun h => b.hyps.contains h)

def ruleEmpty : Nat := 0
def ruleSorry : Nat := 1
def ruleTrivial : Nat := 2
def ruleSubproof : Nat := 3

inductive Item where
  | mk (id : IId) (rule : Nat) (prevs : List IId) (th : Option Seq) (hasSub : Bool) (sub : List Item)
  deriving Repr, Inhabited

namespace Item
def id : Item → IId | .mk i _ _ _ _ _ => i
def rule : Item → Nat | .mk _ r _ _ _ _ => r
def prevs : Item → List IId | .mk _ _ p _ _ _ => p
def th : Item → Option Seq | .mk _ _ _ t _ _ => t
def hasSub : Item → Bool | .mk _ _ _ _ h _ => h
def sub : Item → List Item | .mk _ _ _ _ _ s => s
end Item

abbrev Proof := List Item

inductive Err where
  | proofState    -- ProofStateException (a line / subproof that is not there)
  | assertion     -- AssertionError
  | index         -- IndexError / AttributeError escaping the Python
  deriving DecidableEq, Repr

/-! ### `ProofItem.incr_proof_item` / `decr_proof_item` and the citation replacement of `replace_id` -/

mutual
def Item.incr (start : IId) (n : Nat) : Item → Item
  | .mk id r p th hs sub =>
    .mk (incrIdAfter id start n) r (p.map (fun x => incrIdAfter x start n)) th hs (incrList start n sub)
def incrList (start : IId) (n : Nat) : List Item → List Item
  | [] => []
  | i :: is => Item.incr start n i :: incrList start n is
end

mutual
def Item.decr (rm : IId) : Item → Item
  | .mk id r p th hs sub => .mk (decrId id rm) r (p.map (fun x => decrId x rm)) th hs (decrList rm sub)
def decrList (rm : IId) : List Item → List Item
  | [] => []
  | i :: is => Item.decr rm i :: decrList rm is
end

mutual
def Item.replacePrev (old new : IId) : Item → Item
  | .mk id r p th hs sub =>
    .mk id r (p.map (fun x => if x = old then new else x)) th hs (replaceList old new sub)
def replaceList (old new : IId) : List Item → List Item
  | [] => []
  | i :: is => Item.replacePrev old new i :: replaceList old new is
end

/-! ### Navigation -/

/-- `Proof.find_item(id)`. -/
def findItem : Proof → IId → Option Item
  | _, [] => none
  | items, [i] => items[i]?
  | items, i :: j :: rest =>
    match items[i]? with
    | some (.mk _ _ _ _ true sub) => findItem sub (j :: rest)
    | _ => none

/-- Apply `f` to the item list reached by following `path` through subproofs
(`Proof.get_parent_proof(id)` for `path = id[:-1]`) and rebuild the tree. -/
def modifyAt : List Nat → (List Item → Except Err (List Item)) → List Item → Except Err (List Item)
  | [], f, items => f items
  | i :: rest, f, items =>
    match items[i]? with
    | none => .error .proofState
    | some (.mk id r p th hs sub) =>
      if hs then
        match modifyAt rest f sub with
        | .ok sub' => .ok (items.set i (.mk id r p th hs sub'))
        | .error e => .error e
      else .error .proofState

/-- The empty lines `[ProofItem(id.incr_id(i), "") for i in range(n)]`. -/
def newLines (id : IId) (n : Nat) : List Item :=
  (List.range n).map (fun i => Item.mk (incrId id i) ruleEmpty [] none false [])

/-! ### The editing operations (server/method.py 87–132) -/

/-- `add_line_before(id, n)`. -/
def addLineBefore (s : Proof) (id : IId) (n : Nat) : Except Err Proof :=
  match id.getLast? with
  | none => .error .index
  | some split =>
    modifyAt id.dropLast
      (fun items => .ok (items.take split ++ newLines id n ++ incrList id n (items.drop split))) s

/-- `remove_line(id)`. -/
def removeLine (s : Proof) (id : IId) : Except Err Proof :=
  match id.getLast? with
  | none => .error .index
  | some split =>
    modifyAt id.dropLast (fun items => .ok (items.take split ++ decrList id (items.drop (split + 1)))) s

/-- `prf.items[id.last()] = item` in the parent proof of `id` (used by `set_line` and by the splice
of `apply_tactic`). -/
def placeItem (s : Proof) (id : IId) (item : Item) : Except Err Proof :=
  match id.getLast? with
  | none => .error .index
  | some split =>
    modifyAt id.dropLast
      (fun items => if split < items.length then .ok (items.set split item) else .error .index) s

/-- `set_line(id, rule, prevs=…, th=…)`: a fresh `ProofItem` (no subproof) at position `id`. -/
def setLine (s : Proof) (id : IId) (rule : Nat) (prevs : List IId) (th : Option Seq) : Except Err Proof :=
  placeItem s id (.mk id rule prevs th false [])

/-- `replace_id(old_id, new_id)`: re-point the citations of `old` inside its parent proof, then
remove the line. -/
def replaceId (s : Proof) (old new : IId) : Except Err Proof :=
  match modifyAt old.dropLast (fun items => .ok (replaceList old new items)) s with
  | .ok s1 => removeLine s1 old
  | .error e => .error e

/-- `find_goal(concl, goal_id)`: the id carried by the first line, among those visible from
`goal_id`, whose stated sequent proves `concl`. -/
def findGoal : Proof → Seq → IId → Except Err (Option IId)
  | _, _, [] => .ok none
  | items, concl, n :: rest =>
    match (items.take n).find? (fun it => match it.th with | some t => t.canProve concl | none => false) with
    | some it => .ok (some it.id)
    | none =>
      match items[n]? with
      | none => .error .proofState
      | some (.mk _ _ _ _ hs sub) =>
        match rest with
        | [] => .ok none
        | _ :: _ => if hs then findGoal sub concl rest else .error .proofState

/-! ### `apply_tactic` (server/method.py 188–217, fixed form) -/

/-- One exported line of the tactic's proof term together with the answer of
`trivial_macro().can_eval(item.th.prop)`. -/
structure NewLine where
  item : Item
  trivial : Bool
  deriving Repr, Inhabited

/-- The bookkeeping Python gets for free from shared objects: the *current* id of a new line is
its exported id after the `decr_proof_item` of every removal so far. -/
def liveId (removed : List IId) (id : IId) : IId := removed.foldl decrId id

def placeAll : Proof → List Item → Except Err Proof
  | s, [] => .ok s
  | s, it :: rest =>
    match placeItem s it.id it with
    | .ok s' => placeAll s' rest
    | .error e => .error e

/-- First loop: a gap whose sequent an earlier visible line already proves is replaced by that
line.  Returns the ids removed (in order) and, per new line, whether it was removed. -/
def closeProved : Proof → List IId → List Bool → List NewLine → Except Err (Proof × List IId × List Bool)
  | s, rem, acc, [] => .ok (s, rem, acc.reverse)
  | s, rem, acc, l :: rest =>
    if l.item.rule = ruleSorry then
      let cid := liveId rem l.item.id
      match findItem s cid with
      | none => .error .proofState
      | some cur =>
        match cur.th with
        | none => .error .index
        | some th =>
          match findGoal s th cid with
          | .error e => .error e
          | .ok none => closeProved s rem (false :: acc) rest
          | .ok (some new) =>
            match replaceId s cid new with
            | .error e => .error e
            | .ok s' => closeProved s' (rem ++ [cid]) (true :: acc) rest
    else closeProved s rem (false :: acc) rest

/-- Second loop: the remaining gaps that are trivially true become `trivial` lines. -/
def closeTrivial : Proof → List IId → List (NewLine × Bool) → Except Err Proof
  | s, _, [] => .ok s
  | s, rem, (l, removed) :: rest =>
    if l.item.rule = ruleSorry && !removed && l.trivial then
      match l.item.th with
      | none => .error .index
      | some th =>
        match setLine s (liveId rem l.item.id) ruleTrivial [] (some ⟨th.prop, []⟩) with
        | .ok s' => closeTrivial s' rem rest
        | .error e => .error e
    else closeTrivial s rem rest

def applyTactic (s : Proof) (id : IId) (new : List NewLine) : Except Err Proof :=
  match findItem s id with
  | none => .error .proofState
  | some cur =>
    if cur.rule ≠ ruleSorry then .error .assertion
    else if new.isEmpty then .error .assertion
    else
      match addLineBefore s id (new.length - 1) with
      | .error e => .error e
      | .ok s1 =>
        match placeAll s1 (new.map (·.item)) with
        | .error e => .error e
        | .ok s2 =>
          match closeProved s2 [] [] new with
          | .error e => .error e
          | .ok (s3, rem, flags) => closeTrivial s3 rem (new.zip flags)

/-! ### Well-formedness (what the property says about numbering and citations), executable -/

mutual
/-- The line sits at position `pos` and carries that id; its subproof is numbered below it. -/
def Item.numbered (pos : IId) : Item → Bool
  | .mk id _ _ _ _ sub => decide (id = pos) && numberedFrom pos 0 sub
/-- Lines of one proof are numbered `pre.k, pre.(k+1), …` -/
def numberedFrom (pre : IId) (k : Nat) : List Item → Bool
  | [] => true
  | i :: is => Item.numbered (pre ++ [k]) i && numberedFrom pre (k + 1) is
end

mutual
/-- Every citation of the line (and of the lines of its subproof) satisfies `can_depend_on`. -/
def Item.citesOk : Item → Bool
  | .mk id _ p _ _ sub => p.all (fun x => canDependOn id x) && citesOkList sub
def citesOkList : List Item → Bool
  | [] => true
  | i :: is => Item.citesOk i && citesOkList is
end

/- A line without a subproof has no subproof lines (`subproof is None`). -/
mutual
def Item.subOk : Item → Bool
  | .mk _ _ _ _ hs sub => (hs || sub.isEmpty) && subOkList sub
def subOkList : List Item → Bool
  | [] => true
  | i :: is => Item.subOk i && subOkList is
end

def wf (s : Proof) : Bool := numberedFrom [] 0 s && citesOkList s && subOkList s

/- The stated sequents of the open gaps, in checker order. -/
mutual
def Item.sorrys : Item → List (Option Seq)
  | .mk _ r _ th _ sub => (if r = ruleSorry then [th] else []) ++ sorrysList sub
def sorrysList : List Item → List (Option Seq)
  | [] => []
  | i :: is => Item.sorrys i ++ sorrysList is
end

/- All lines in checker order (a line before the lines of its subproof). -/
mutual
def Item.flat : Item → List Item
  | .mk id r p th hs sub => .mk id r p th hs [] :: flatList sub
def flatList : List Item → List Item
  | [] => []
  | i :: is => Item.flat i ++ flatList is
end

/-! ### Sequences of operations -/

inductive Op where
  | addLineBefore (id : IId) (n : Nat)
  | removeLine (id : IId)
  | setLine (id : IId) (rule : Nat) (prevs : List IId) (th : Option Seq)
  | replaceId (old new : IId)
  | applyTactic (id : IId) (new : List NewLine)
  deriving Repr

def step (s : Proof) : Op → Except Err Proof
  | .addLineBefore id n => addLineBefore s id n
  | .removeLine id => removeLine s id
  | .setLine id r p th => setLine s id r p th
  | .replaceId o n => replaceId s o n
  | .applyTactic id new => applyTactic s id new

def run : Proof → List Op → Except Err Proof
  | s, [] => .ok s
  | s, op :: ops =>
    match step s op with
    | .ok s' => run s' ops
    | .error e => .error e

end Holpy.C13
