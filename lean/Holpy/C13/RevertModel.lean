import Holpy.C13.Remove
/-
C13 — model of `revert_intro.apply` (server/method.py, after fix C13-2) — no Mathlib.

  cur_item must be a gap; prevs = [fact]; the fact line must be an `assume` line;
  item = get_proof_item(id + 1) must be an `intros` line with prevs[-1] == id, prevs[-2] == fact;
  `not is_used(state.prf)`: no line other than `item` (by identity; here: by position) cites fact;
  set_line(id, 'sorry', th'); set_line(id + 1, item.rule, prevs without fact, item.th);
  remove_line(fact).
-/
namespace Holpy.C13

/- `is_used`: some line other than the one at position `skip` cites `fact` (subproofs included). -/
mutual
def Item.usedExcept (fact skip : IId) (pos : IId) : Item → Bool
  | .mk _ _ p _ _ sub => (decide (pos ≠ skip) && p.contains fact) || usedExceptFrom fact skip pos 0 sub
def usedExceptFrom (fact skip : IId) (pre : IId) (k : Nat) : List Item → Bool
  | [] => false
  | i :: is => Item.usedExcept fact skip (pre ++ [k]) i || usedExceptFrom fact skip pre (k + 1) is
end

/-- Everything `revert_intro.apply` does before its final `remove_line(fact)`. -/
def revertIntroPrefix (s : Proof) (id fact : IId) (th' : Option Seq) (ruleAssume ruleIntros : Nat) :
    Except Err Proof :=
  match findItem s id, findItem s fact, findItem s (incrId id 1) with
  | some cur, some pt, some item =>
    if cur.rule ≠ ruleSorry || pt.rule ≠ ruleAssume then .error .assertion
    else if item.rule ≠ ruleIntros || item.prevs.length < 2 || item.prevs.getLast? ≠ some id
        || item.prevs.dropLast.getLast? ≠ some fact then .error .assertion
    else if usedExceptFrom fact (incrId id 1) [] 0 s then .error .assertion
    else
      match setLine s id ruleSorry [] th' with
      | .error e => .error e
      | .ok s1 => setLine s1 (incrId id 1) item.rule (item.prevs.filter (fun p => p ≠ fact)) item.th
  | _, _, _ => .error .proofState

def revertIntroM (s : Proof) (id fact : IId) (th' : Option Seq) (ruleAssume ruleIntros : Nat) : Except Err Proof :=
  match revertIntroPrefix s id fact th' ruleAssume ruleIntros with
  | .ok s2 => removeLine s2 fact
  | .error e => .error e

end Holpy.C13
