import Holpy.C13.Proofs
/- Helper lemmas for C13: the last top-level line under the primitive edits. -/
namespace Holpy.C13

/-- `add_line_before` at top level before an existing line keeps rule and sequent of the last line. -/
theorem goal_preserved_add_line_top (s s' : Proof) (k n : Nat) (hk : k < s.length)
    (h : addLineBefore s [k] n = .ok s') : (s'.getLast?).map sigOf = (s.getLast?).map sigOf := by
  simp [addLineBefore, modifyAt] at h
  subst h
  rw [incrList_eq_map]
  have hne : (List.drop k s) ≠ [] := by simp; omega
  simp [List.getLast?_append, List.getLast?_map, List.getLast?_drop, hne]
  have : ¬ s.length ≤ k := by omega
  simp [this]
  cases hl : s.getLast? with
  | none =>
    have : s = [] := by simpa using hl
    subst this; simp at hk
  | some it => simp [sigOf_incr]

theorem sigOf_decr (rm : IId) (i : Item) : sigOf (Item.decr rm i) = sigOf i := by
  cases i; simp [Item.decr, sigOf, Item.rule, Item.th]

theorem decrList_eq_map (rm : IId) : ∀ l, decrList rm l = l.map (Item.decr rm)
  | [] => by simp [decrList]
  | i :: is => by simp [decrList, decrList_eq_map rm is]

/-- `remove_line` at top level of a line other than the last keeps the last line's rule and sequent. -/
theorem goal_preserved_remove_line_top (s s' : Proof) (k : Nat) (hk : k + 1 < s.length)
    (h : removeLine s [k] = .ok s') : (s'.getLast?).map sigOf = (s.getLast?).map sigOf := by
  simp [removeLine, modifyAt] at h
  subst h
  rw [decrList_eq_map]
  have hne : (List.drop (k + 1) s) ≠ [] := by simp; omega
  simp [List.getLast?_append, List.getLast?_map, List.getLast?_drop, hne]
  have : ¬ s.length ≤ k + 1 := by omega
  simp [this]
  cases hl : s.getLast? with
  | none =>
    have : s = [] := by simpa using hl
    subst this; simp at hk
  | some it => simp [sigOf_decr]

theorem getLast?_set_ne {α : Type} : ∀ (l : List α) (k : Nat) (x : α), k + 1 < l.length →
    (l.set k x).getLast? = l.getLast?
  | [], k, x, h => by simp at h
  | [a], k, x, h => by simp at h
  | a :: b :: rest, 0, x, h => by simp [List.getLast?_cons_cons]
  | a :: b :: rest, k + 1, x, h => by
    simp only [List.set_cons_succ]
    have ih := getLast?_set_ne (b :: rest) k x (by simp at h ⊢; omega)
    cases hs : (b :: rest).set k x with
    | nil => simp at hs
    | cons c cs => rw [List.getLast?_cons_cons, ← hs, ih, List.getLast?_cons_cons]

/-- `set_line` at top level on a line other than the last keeps the last line. -/
theorem goal_preserved_set_line_top (s s' : Proof) (k : Nat) (r : Nat) (p : List IId) (th : Option Seq)
    (hk : k + 1 < s.length) (h : setLine s [k] r p th = .ok s') :
    (s'.getLast?).map sigOf = (s.getLast?).map sigOf := by
  simp only [setLine, placeItem, List.getLast?_singleton, List.dropLast_singleton, modifyAt] at h
  split at h
  · simp at h; subst h
    rw [getLast?_set_ne _ _ _ hk]
  · simp at h

/-- The target of an edit is an existing top-level line (other than the last one when `slack = 1`)
or lies inside a subproof. -/
def targetOk (s : Proof) (slack : Nat) : IId → Prop
  | [] => False
  | [k] => k + slack < s.length
  | _ :: _ :: _ => True

/-- Operations covered by `goal_preserved_partial`, with the precondition the callers establish:
lines are inserted before existing lines; the line removed / overwritten is not the last top-level
line (the methods remove and overwrite gaps and lines they inserted; the last line is `intros`). -/
def goalSafe (s : Proof) : Op → Prop
  | .addLineBefore id _ => targetOk s 0 id
  | .removeLine id => targetOk s 1 id
  | .setLine id _ _ _ => targetOk s 1 id
  | .replaceId old _ => targetOk s 1 old
  | .applyTactic _ _ => False

theorem getLast?_of_map_sig (s s' : Proof) (h : s'.map sigOf = s.map sigOf) :
    (s'.getLast?).map sigOf = (s.getLast?).map sigOf := by
  rw [← List.getLast?_map, ← List.getLast?_map, h]

theorem sigOf_replace (o n : IId) (i : Item) : sigOf (Item.replacePrev o n i) = sigOf i := by
  cases i; simp [Item.replacePrev, sigOf, Item.rule, Item.th]

theorem replaceList_eq_map (o n : IId) : ∀ l, replaceList o n l = l.map (Item.replacePrev o n)
  | [] => by simp [replaceList]
  | i :: is => by simp [replaceList, replaceList_eq_map o n is]

/-- `replace_id` of a line other than the last top-level one keeps the last line's rule and sequent. -/
theorem goal_preserved_replaceId (s s' : Proof) (old new : IId) (hs : targetOk s 1 old)
    (h : replaceId s old new = .ok s') : (s'.getLast?).map sigOf = (s.getLast?).map sigOf := by
  unfold replaceId at h
  split at h
  · rename_i s1 h1
    match old, hs with
    | [k], hs =>
      simp [modifyAt] at h1
      subst h1
      have hlen : (replaceList [k] new s).length = s.length := by simp [replaceList_eq_map]
      have a := goal_preserved_remove_line_top _ s' k (by rw [hlen]; simpa [targetOk] using hs) h
      rw [a, replaceList_eq_map, List.getLast?_map]
      cases s.getLast? <;> simp [sigOf_replace]
    | i :: j :: rest, _ =>
      have hd : ∃ rest', (i :: j :: rest).dropLast = i :: rest' := by cases rest <;> simp [List.dropLast]
      obtain ⟨rest', hrest⟩ := hd
      rw [hrest] at h1
      have a := getLast?_of_map_sig _ _ (sig_modifyAt_nested _ _ _ _ _ h1)
      unfold removeLine at h
      split at h
      · simp at h
      · rw [hrest] at h
        have b := getLast?_of_map_sig _ _ (sig_modifyAt_nested _ _ _ _ _ h)
        rw [b, a]
  · simp at h

theorem goal_preserved_step (s s' : Proof) (op : Op) (hs : goalSafe s op) (h : step s op = .ok s') :
    (s'.getLast?).map sigOf = (s.getLast?).map sigOf := by
  cases op with
  | addLineBefore id n =>
    simp only [step] at h
    match id, hs with
    | [k], hs => exact goal_preserved_add_line_top s s' k n (by simpa [goalSafe, targetOk] using hs) h
    | i :: j :: rest, _ =>
      have hd : ∃ rest', (i :: j :: rest).dropLast = i :: rest' := by cases rest <;> simp [List.dropLast]
      obtain ⟨rest', hrest⟩ := hd
      unfold addLineBefore at h
      split at h
      · simp at h
      · rw [hrest] at h; exact getLast?_of_map_sig _ _ (sig_modifyAt_nested _ _ _ _ _ h)
  | removeLine id =>
    simp only [step] at h
    match id, hs with
    | [k], hs => exact goal_preserved_remove_line_top s s' k (by simpa [goalSafe, targetOk] using hs) h
    | i :: j :: rest, _ =>
      have hd : ∃ rest', (i :: j :: rest).dropLast = i :: rest' := by cases rest <;> simp [List.dropLast]
      obtain ⟨rest', hrest⟩ := hd
      unfold removeLine at h
      split at h
      · simp at h
      · rw [hrest] at h; exact getLast?_of_map_sig _ _ (sig_modifyAt_nested _ _ _ _ _ h)
  | setLine id r p th =>
    simp only [step] at h
    match id, hs with
    | [k], hs => exact goal_preserved_set_line_top s s' k r p th (by simpa [goalSafe, targetOk] using hs) h
    | i :: j :: rest, _ =>
      have hd : ∃ rest', (i :: j :: rest).dropLast = i :: rest' := by cases rest <;> simp [List.dropLast]
      obtain ⟨rest', hrest⟩ := hd
      unfold setLine placeItem at h
      split at h
      · simp at h
      · rw [hrest] at h; exact getLast?_of_map_sig _ _ (sig_modifyAt_nested _ _ _ _ _ h)
  | replaceId o n =>
    simp only [step] at h
    exact goal_preserved_replaceId s s' o n hs h
  | applyTactic id new => exact absurd hs (by simp [goalSafe])

/-- The precondition holds along the run. -/
def safeRun : Proof → List Op → Prop
  | _, [] => True
  | s, op :: ops => goalSafe s op ∧ ∀ s1, step s op = .ok s1 → safeRun s1 ops

theorem goal_preserved_run : ∀ (ops : List Op) (s s' : Proof), safeRun s ops → run s ops = .ok s' →
    (s'.getLast?).map sigOf = (s.getLast?).map sigOf
  | [], s, s', _, h => by simp [run] at h; subst h; rfl
  | op :: ops, s, s', hs, h => by
    simp only [run] at h
    split at h
    · rename_i s1 h1
      have a := goal_preserved_step s s1 op hs.1 h1
      have b := goal_preserved_run ops s1 s' (hs.2 s1 h1) h
      rw [b, a]
    · simp at h

end Holpy.C13
