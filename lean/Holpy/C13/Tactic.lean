import Holpy.C13.Remove
/-
Helper lemmas for C13: `apply_tactic` as a composite preserves well-formedness.
-/
namespace Holpy.C13

theorem wf_iff' (s : Proof) : wf s = true ↔
    numberedFrom [] 0 s = true ∧ citesOkList s = true ∧ subOkList s = true := by
  simp [wf, Bool.and_eq_true, and_assoc]

/-- A line without subproof placed at the position its id names, with admissible citations. -/
theorem wf_placeItem (s s' : Proof) (it : Item) (hw : wf s = true)
    (hsub : it.hasSub = false ∧ it.sub = []) (hp : ∀ x ∈ it.prevs, canDependOn it.id x = true)
    (h : placeItem s it.id it = .ok s') : wf s' = true := by
  rw [wf_iff'] at hw ⊢
  cases it with
  | mk id r p th hs sub =>
    simp only [Item.hasSub, Item.sub, Item.prevs, Item.id] at hsub hp h
    obtain ⟨e1, e2⟩ := hsub
    subst e1; subst e2
    have h' : setLine s id r p th = .ok s' := h
    exact ⟨numbered_setLine s s' id r p th hw.1 h', citesOk_setLine s s' id r p th hw.2.1 hp h',
      subOk_setLine s s' id r p th hw.2.2 h'⟩

theorem wf_placeAll : ∀ (items : List Item) (s s' : Proof), wf s = true →
    (∀ it ∈ items, (it.hasSub = false ∧ it.sub = []) ∧ ∀ x ∈ it.prevs, canDependOn it.id x = true) →
    placeAll s items = .ok s' → wf s' = true
  | [], s, s', hw, _, h => by simp [placeAll] at h; subst h; exact hw
  | it :: rest, s, s', hw, hi, h => by
    simp only [placeAll] at h
    split at h
    · rename_i s1 h1
      have hit := hi it (by simp)
      have hw1 := wf_placeItem s s1 it hw hit.1 hit.2 h1
      exact wf_placeAll rest s1 s' hw1 (fun x hx => hi x (by simp [hx])) h
    · simp at h

/-! ### `find_goal` returns a line visible from the goal -/

theorem canDependOn_prefix : ∀ (pre : IId) (n j : Nat) (rest : IId),
    canDependOn (pre ++ n :: rest) (pre ++ [j]) = decide (j < n)
  | [], n, j, rest => by simp [canDependOn]
  | p :: ps, n, j, rest => by
    simp only [List.cons_append]
    rw [canDependOn_cons]
    simp [canDependOn_prefix ps n j rest]

theorem find?_take_get {α : Type} (p : α → Bool) : ∀ (l : List α) (n : Nat) (x : α),
    (l.take n).find? p = some x → ∃ j, j < n ∧ l[j]? = some x
  | [], n, x, h => by simp at h
  | a :: as, 0, x, h => by simp at h
  | a :: as, n + 1, x, h => by
    simp only [List.take_succ_cons, List.find?_cons] at h
    split at h
    · simp at h; subst h; exact ⟨0, by omega, by simp⟩
    · obtain ⟨j, hj, hg⟩ := find?_take_get p as n x h
      exact ⟨j + 1, by omega, by simpa using hg⟩

theorem findGoal_visible : ∀ (gid pre : IId) (items : List Item) (concl : Seq) (r : IId),
    numberedFrom pre 0 items = true → findGoal items concl gid = .ok (some r) →
    canDependOn (pre ++ gid) r = true
  | [], pre, items, concl, r, _, h => by simp [findGoal] at h
  | n :: rest, pre, items, concl, r, hw, h => by
    simp only [findGoal] at h
    split at h
    · rename_i it hfind
      simp at h; subst h
      obtain ⟨j, hj, hg⟩ := find?_take_get _ items n it hfind
      have := numberedFrom_get pre items 0 j it hw hg
      cases it with
      | mk id r0 p th hs sub =>
        simp only [Item.numbered, Bool.and_eq_true, decide_eq_true_eq, Nat.zero_add] at this
        simp only [Item.id, this.1]
        rw [canDependOn_prefix]
        simpa using hj
    · split at h
      · simp at h
      · rename_i x1 x2 x3 x4 hs sub hget
        split at h
        · simp at h
        · rename_i hd tl
          split at h
          · have hit := numberedFrom_get pre items 0 n _ hw hget
            simp only [Item.numbered, Bool.and_eq_true, decide_eq_true_eq, Nat.zero_add] at hit
            have ih := findGoal_visible (hd :: tl) (pre ++ [n]) sub concl r hit.2 h
            simpa using ih
          · simp at h

/-! ### the two closing loops -/

theorem wf_closeProved : ∀ (new : List NewLine) (s : Proof) (rem : List IId) (acc : List Bool)
    (s' : Proof) (rem' : List IId) (fl : List Bool), wf s = true →
    closeProved s rem acc new = .ok (s', rem', fl) → wf s' = true
  | [], s, rem, acc, s', rem', fl, hw, h => by simp [closeProved] at h; rw [← h.1]; exact hw
  | l :: rest, s, rem, acc, s', rem', fl, hw, h => by
    simp only [closeProved] at h
    split at h
    · split at h
      · simp at h
      · rename_i cur hcur
        split at h
        · simp at h
        · rename_i th hth
          split at h
          · simp at h
          · exact wf_closeProved rest _ _ _ _ _ _ hw h
          · rename_i new hfg
            split at h
            · simp at h
            · rename_i s1 h1
              have hnum : numberedFrom [] 0 s = true := ((wf_iff' s).1 hw).1
              have hvis := findGoal_visible _ [] s th new hnum hfg
              simp only [List.nil_append] at hvis
              have hw1 := wf_replaceId s s1 _ new cur hw hcur hvis h1
              exact wf_closeProved rest _ _ _ _ _ _ hw1 h
    · exact wf_closeProved rest _ _ _ _ _ _ hw h

theorem wf_closeTrivial : ∀ (ls : List (NewLine × Bool)) (s : Proof) (rem : List IId) (s' : Proof),
    wf s = true → closeTrivial s rem ls = .ok s' → wf s' = true
  | [], s, rem, s', hw, h => by simp [closeTrivial] at h; subst h; exact hw
  | (l, removed) :: rest, s, rem, s', hw, h => by
    simp only [closeTrivial] at h
    split at h
    · split at h
      · simp at h
      · split at h
        · rename_i s1 h1
          rw [wf_iff'] at hw
          have hw1 : wf s1 = true := by
            rw [wf_iff']
            exact ⟨numbered_setLine _ _ _ _ _ _ hw.1 h1, citesOk_setLine _ _ _ _ _ _ hw.2.1 (by simp) h1,
              subOk_setLine _ _ _ _ _ _ hw.2.2 h1⟩
          exact wf_closeTrivial rest _ _ _ hw1 h
        · simp at h
    · exact wf_closeTrivial rest _ _ _ hw h

/-- What `ProofTerm.export(prefix=id, subproof=False)` delivers: lines without subproofs whose
citations are admissible for the id they carry (earlier lines of the export, or facts visible from
the goal).  The harness checks this on every captured export. -/
def shapeOk (new : List NewLine) : Prop :=
  ∀ l ∈ new, (l.item.hasSub = false ∧ l.item.sub = []) ∧ ∀ x ∈ l.item.prevs, canDependOn l.item.id x = true

theorem wf_applyTactic (s s' : Proof) (id : IId) (new : List NewLine) (hw : wf s = true)
    (hshape : shapeOk new) (h : applyTactic s id new = .ok s') : wf s' = true := by
  unfold applyTactic at h
  split at h
  · simp at h
  · rename_i cur hcur
    split at h
    · simp at h
    · split at h
      · simp at h
      · split at h
        · simp at h
        · rename_i s1 h1
          split at h
          · simp at h
          · rename_i s2 h2
            split at h
            · simp at h
            · rename_i s3 rem flags h3
              rw [wf_iff'] at hw
              have w1 : wf s1 = true := by
                rw [wf_iff']
                exact ⟨numbered_addLineBefore s s1 id _ cur hw.1 hcur h1, citesOk_addLineBefore s s1 id _ hw.2.1 h1,
                  subOk_addLineBefore s s1 id _ hw.2.2 h1⟩
              have w2 := wf_placeAll _ s1 s2 w1 (fun it hit => by
                simp only [List.mem_map] at hit
                obtain ⟨l, hl, e⟩ := hit
                subst e
                exact hshape l hl) h2
              have w3 := wf_closeProved new s2 [] [] s3 rem flags w2 h3
              exact wf_closeTrivial _ s3 rem s' w3 h

end Holpy.C13
