import Holpy.C13.TopSig
import Holpy.C13.Remove
/-
Helper lemmas for C13: rule and stated sequent of the lines of the proof (item list) that contains
the goal of `apply_tactic`, for a goal at any depth (`TopSig.lean` is the case `P = []`).
-/
namespace Holpy.C13

/-- rule and sequent of the lines of the proof reached by `P` -/
def sigsAt (P : IId) (s : Proof) : Option (List Sig) := (getAt P s).map (fun l => l.map sigOf)

theorem sig_replaceId_at (P : IId) (s s' : Proof) (c : Nat) (n : IId) (L : List Sig)
    (h : replaceId s (P ++ [c]) n = .ok s') (hs : sigsAt P s = some L) :
    sigsAt P s' = some (L.eraseIdx c) := by
  simp only [sigsAt, Option.map_eq_some_iff] at hs
  obtain ⟨l, hg, hl⟩ := hs
  unfold replaceId at h
  split at h
  · rename_i s1 h1
    simp only [List.dropLast_concat] at h1
    obtain ⟨l1, e1, g1⟩ := getAt_modifyAt _ P s s1 l hg h1
    simp at e1
    unfold removeLine at h
    simp only [List.getLast?_concat, List.dropLast_concat] at h
    obtain ⟨l2, e2, g2⟩ := getAt_modifyAt _ P s1 s' l1 g1 h
    simp at e2
    simp only [sigsAt, g2, Option.map_some]
    subst e2; subst e1; subst hl
    rw [decrList_eq_map, replaceList_eq_map, List.eraseIdx_eq_take_drop_succ]
    simp [List.map_take, List.map_drop, Function.comp_def, sigOf_decr, sigOf_replace]
  · simp at h

theorem sig_placeItem_at (P : IId) (s s' : Proof) (c : Nat) (it : Item) (L : List Sig)
    (h : placeItem s (P ++ [c]) it = .ok s') (hs : sigsAt P s = some L) :
    c < L.length ∧ sigsAt P s' = some (L.set c (sigOf it)) := by
  simp only [sigsAt, Option.map_eq_some_iff] at hs
  obtain ⟨l, hg, hl⟩ := hs
  unfold placeItem at h
  simp only [List.getLast?_concat, List.dropLast_concat] at h
  obtain ⟨l1, e1, g1⟩ := getAt_modifyAt _ P s s' l hg h
  split at e1
  · rename_i hlt
    simp at e1; subst e1; subst hl
    exact ⟨by simpa using hlt, by simp [sigsAt, g1, List.map_set]⟩
  · simp at e1

theorem sig_addLineBefore_at (P : IId) (s s' : Proof) (k n : Nat) (L : List Sig)
    (h : addLineBefore s (P ++ [k]) n = .ok s') (hs : sigsAt P s = some L) :
    sigsAt P s' = some (L.take k ++ List.replicate n (ruleEmpty, none) ++ L.drop k) := by
  simp only [sigsAt, Option.map_eq_some_iff] at hs
  obtain ⟨l, hg, hl⟩ := hs
  unfold addLineBefore at h
  simp only [List.getLast?_concat, List.dropLast_concat] at h
  obtain ⟨l1, e1, g1⟩ := getAt_modifyAt _ P s s' l hg h
  simp at e1; subst e1; subst hl
  simp only [sigsAt, g1, Option.map_some]
  rw [incrList_eq_map]
  simp only [List.map_append, map_sig_newLines, map_sig_incr, List.map_take, List.map_drop, List.append_assoc]

/-! ### the placement loop -/

theorem placeAll_at (P : IId) (k : Nat) (sa sb : List Sig) (hsa : sa.length = k) :
    ∀ (items : List Item) (i : Nat) (s s' : Proof) (X : List Sig),
      (∀ j (h : j < items.length), (items[j]).id = P ++ [k + i + j]) →
      sigsAt P s = some (sa ++ X ++ sb) → i + items.length ≤ X.length →
      placeAll s items = .ok s' →
      ∃ X', sigsAt P s' = some (sa ++ X' ++ sb) ∧ X'.length = X.length
  | [], i, s, s', X, _, hs, _, h => by
    simp [placeAll] at h; subst h
    exact ⟨X, hs, rfl⟩
  | x :: xs, i, s, s', X, hid, hs, hlen, h => by
    simp only [placeAll] at h
    split at h
    · rename_i s1 h1
      have hx : x.id = P ++ [k + i] := hid 0 (by simp)
      rw [hx] at h1
      obtain ⟨_, hsig⟩ := sig_placeItem_at P s s1 (k + i) x _ h1 hs
      have hi : i < X.length := by simp at hlen; omega
      rw [← hsa, set_mid sa X sb i (sigOf x) hi] at hsig
      obtain ⟨X', h1', h2'⟩ := placeAll_at P k sa sb hsa xs (i + 1) s1 s' (X.set i (sigOf x))
        (fun j hj => by
          have := hid (j + 1) (by simp; omega)
          simp at this; rw [this]; congr 2; omega)
        hsig (by simp at hlen ⊢; omega) h
      exact ⟨X', h1', by simpa using h2'⟩
    · simp at h

/-! ### the two closing loops -/

theorem closeProved_at (P : IId) (k m : Nat) (sa sb : List Sig) (hsa : sa.length = k) :
    ∀ (rest : List NewLine) (fl : List Bool) (s : Proof) (rem : List IId) (X : List Sig)
      (s' : Proof) (rem' : List IId) (flags : List Bool),
      (∀ i (h : i < rest.length), (rest[i]).item.id = P ++ [k + fl.length + i]) →
      fl.length + rest.length = m → LiveInv P k rem fl →
      sigsAt P s = some (sa ++ X ++ sb) → X.length + rem.length = m →
      closeProved s rem fl.reverse rest = .ok (s', rem', flags) →
      ∃ X', sigsAt P s' = some (sa ++ X' ++ sb) ∧ X'.length + rem'.length = m ∧ LiveInv P k rem' flags ∧
        flags.length = m
  | [], fl, s, rem, X, s', rem', flags, _, hm, hinv, hs, hx, h => by
    simp [closeProved] at h
    obtain ⟨e1, e2, e3⟩ := h
    subst e1; subst e2; subst e3
    exact ⟨X, hs, hx, hinv, by simpa using hm⟩
  | l :: rest, fl, s, rem, X, s', rem', flags, hid, hm, hinv, hs, hx, h => by
    have hl : l.item.id = P ++ [k + fl.length] := by
      have := hid 0 (by simp)
      simpa using this
    have hid' : ∀ i (h : i < rest.length), (rest[i]).item.id = P ++ [k + (fl ++ [false]).length + i] := fun i hi => by
      have := hid (i + 1) (by simp; omega)
      simp at this ⊢; rw [this]; congr 2; omega
    have hid'' : ∀ i (h : i < rest.length), (rest[i]).item.id = P ++ [k + (fl ++ [true]).length + i] := by
      simpa using hid'
    have hm' : (fl ++ [false]).length + rest.length = m := by simp at hm ⊢; omega
    have hm'' : (fl ++ [true]).length + rest.length = m := by simp at hm ⊢; omega
    have racc : ∀ b, b :: fl.reverse = (fl ++ [b]).reverse := by intro b; simp
    simp only [closeProved] at h
    split at h
    · split at h
      · simp at h
      · split at h
        · simp at h
        · split at h
          · simp at h
          · rw [racc] at h
            exact closeProved_at P k m sa sb hsa rest _ s rem X s' rem' flags hid' hm' hinv.keep hs hx h
          · rename_i new hfg
            split at h
            · simp at h
            · rename_i s1 h1
              rw [racc] at h
              have hcur : liveId rem l.item.id = P ++ [k + fl.length - rem.length] := by
                rw [hl]; simpa using hinv.fut (k + fl.length) (Nat.le_refl _)
              rw [hcur] at h1 h
              have hsig := sig_replaceId_at P s s1 _ new _ h1 hs
              have hq := hinv.rem_le
              have ht : fl.length - rem.length < X.length := by simp at hm; omega
              have he : k + fl.length - rem.length = sa.length + (fl.length - rem.length) := by omega
              rw [he, eraseIdx_mid sa X sb _ ht] at hsig
              have hinv' := hinv.remove
              rw [← hl, hcur] at hinv'
              exact closeProved_at P k m sa sb hsa rest _ s1 _ _ s' rem' flags hid'' hm'' hinv' hsig
                (by simp [List.length_eraseIdx, ht]; omega) h
    · rw [racc] at h
      exact closeProved_at P k m sa sb hsa rest _ s rem X s' rem' flags hid' hm' hinv.keep hs hx h

theorem closeTrivial_at (P : IId) (k m : Nat) (sa sb : List Sig) (hsa : sa.length = k) (rem : List IId) (flags : List Bool)
    (hinv : LiveInv P k rem flags) (hfm : flags.length = m) :
    ∀ (ls : List (NewLine × Bool)) (j : Nat) (s s' : Proof) (X : List Sig),
      (∀ i (h : i < ls.length), (ls[i]).1.item.id = P ++ [k + j + i] ∧ flags[j + i]? = some (ls[i]).2) →
      sigsAt P s = some (sa ++ X ++ sb) → X.length + rem.length = m →
      closeTrivial s rem ls = .ok s' → ∃ X', sigsAt P s' = some (sa ++ X' ++ sb) ∧ X'.length = X.length
  | [], j, s, s', X, _, hs, _, h => by
    simp [closeTrivial] at h; subst h; exact ⟨X, hs, rfl⟩
  | (l, removed) :: rest, j, s, s', X, hid, hs, hx, h => by
    have h0 := hid 0 (by simp)
    simp at h0
    have hid' : ∀ i (h : i < rest.length), (rest[i]).1.item.id = P ++ [k + (j + 1) + i] ∧ flags[j + 1 + i]? = some (rest[i]).2 :=
      fun i hi => by
        have := hid (i + 1) (by simp; omega)
        simp at this
        refine ⟨by rw [this.1]; congr 2; omega, ?_⟩
        have e : j + 1 + i = j + (i + 1) := by omega
        rw [e]; exact this.2
    simp only [closeTrivial] at h
    split at h
    · rename_i hc
      simp at hc
      obtain ⟨⟨_, hrem⟩, _⟩ := hc
      subst hrem
      split at h
      · simp at h
      · rename_i th hth
        split at h
        · rename_i s1 h1
          have hlive : liveId rem l.item.id = P ++ [k + (flags.take j).count false] := by
            rw [h0.1]; simpa using hinv.kept j h0.2
          rw [hlive] at h1
          obtain ⟨_, hsig⟩ := sig_placeItem_at P s s1 _ _ _ h1 hs
          have hcf := count_take_lt flags j h0.2
          have hc := count_true_false flags
          have hl := hinv.len
          have ht : (flags.take j).count false < X.length := by omega
          have he : k + (flags.take j).count false = sa.length + (flags.take j).count false := by omega
          rw [he, set_mid sa X sb _ _ ht] at hsig
          obtain ⟨X', a, b⟩ := closeTrivial_at P k m sa sb hsa rem flags hinv hfm rest (j + 1) s1 s' _ hid' hsig
            (by simpa using hx) h
          exact ⟨X', a, by simpa using b⟩
        · simp at h
    · exact closeTrivial_at P k m sa sb hsa rem flags hinv hfm rest (j + 1) s s' X hid' hs hx h

/-- `apply_tactic` on a goal `P ++ [k]` at any depth: in the proof that contains the goal, rule and
sequent of every other line stay as they are, in place; only the goal line is replaced by a segment
`X` (the surviving lines of the proof term). -/
theorem applyTactic_at (P : IId) (s s' : Proof) (k : Nat) (new : List NewLine) (cur : Item) (L : List Sig)
    (hL : sigsAt P s = some L)
    (hcur : findItem s (P ++ [k]) = some cur)
    (hid : ∀ i (h : i < new.length), (new[i]).item.id = incrId (P ++ [k]) i)
    (h : applyTactic s (P ++ [k]) new = .ok s') :
    ∃ X, sigsAt P s' = some (L.take k ++ X ++ L.drop (k + 1)) := by
  have hk : k < L.length := by
    obtain ⟨l, split, h1, h2, h3⟩ := findItem_getAt _ s cur hcur
    simp only [List.getLast?_concat, Option.some.injEq] at h1
    subst h1
    simp only [List.dropLast_concat] at h2
    simp only [sigsAt, h2, Option.map_some, Option.some.injEq] at hL
    subst hL
    rcases Nat.lt_or_ge k l.length with h4 | h4
    · simpa using h4
    · simp [List.getElem?_eq_none h4] at h3
  have hid' : ∀ i (h : i < new.length), (new[i]).item.id = P ++ [k + i] := fun i hi => by
    rw [hid i hi, incrId_pos]
  unfold applyTactic at h
  rw [hcur] at h
  simp only at h
  split at h
  · simp at h
  · split at h
    · simp at h
    · rename_i hemp
      split at h
      · simp at h
      · rename_i s1 h1
        split at h
        · simp at h
        · rename_i s2 h2
          split at h
          · simp at h
          · rename_i s3 rem flags h3
            have hne : new.length ≠ 0 := by
              intro e; have : new = [] := by simpa using e
              subst this; simp at hemp
            have hsa : (L.take k).length = k := by simp; omega
            have hdrop : L.drop k = L[k] :: L.drop (k + 1) := List.drop_eq_getElem_cons hk
            have e1 := sig_addLineBefore_at P s s1 k _ L h1 hL
            have e1' : sigsAt P s1 = some (L.take k ++
                (List.replicate (new.length - 1) (ruleEmpty, none) ++ [L[k]])
                ++ L.drop (k + 1)) := by
              rw [e1, hdrop]; simp
            obtain ⟨X1, a1, b1⟩ := placeAll_at P k _ _ hsa (new.map (·.item)) 0 s1 s2 _
              (fun j hj => by simp at hj; simp [hid' j hj]) e1' (by simp; omega) h2
            have b1' : X1.length + ([] : List IId).length = new.length := by
              rw [b1]; simp; omega
            obtain ⟨X2, a2, b2, inv2, fl2⟩ := closeProved_at P k new.length _ _ hsa new [] s2 [] X1 s3 rem flags
              (fun i hi => by simpa using hid' i hi) (by simp) (LiveInv.nil P k) a1 b1' h3
            obtain ⟨X3, a3, _⟩ := closeTrivial_at P k new.length _ _ hsa rem flags inv2 fl2 (new.zip flags) 0 s3 s' X2
              (fun i hi => by
                simp at hi
                have hi1 : i < new.length := by omega
                have hi2 : i < flags.length := by omega
                simp [List.getElem_zip, hid' i hi1, hi2]) a2 b2 h
            exact ⟨X3, a3⟩

end Holpy.C13
