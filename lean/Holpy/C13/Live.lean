import Holpy.C13.Remove
/-
Helper lemmas for C13: the current ids of the lines `apply_tactic` has placed, while its closing
loops remove some of them (`liveId`), computed exactly.
-/
namespace Holpy.C13

theorem decrId_same : ∀ (P : IId) (x c : Nat),
    decrId (P ++ [x]) (P ++ [c]) = P ++ [if c < x then x - 1 else x]
  | [], x, c => by simp [decrId]; split <;> rfl
  | p :: ps, x, c => by
    have ih := decrId_same ps x c
    simp only [List.cons_append]
    rw [decrId_cons]
    simp [ih]

theorem liveId_snoc (rem : List IId) (c id : IId) : liveId (rem ++ [c]) id = decrId (liveId rem id) c := by
  simp [liveId, List.foldl_append]

theorem count_true_false : ∀ (fl : List Bool), fl.count true + fl.count false = fl.length
  | [] => rfl
  | b :: bs => by
    have := count_true_false bs
    cases b <;> simp [List.count_cons] <;> omega

theorem count_take_le (fl : List Bool) (i : Nat) (b : Bool) : (fl.take i).count b ≤ fl.count b := by
  have h : fl.count b = (fl.take i).count b + (fl.drop i).count b := by
    rw [← List.count_append, List.take_append_drop]
  omega

theorem count_take_lt (fl : List Bool) (i : Nat) (h : fl[i]? = some false) :
    (fl.take i).count false < fl.count false := by
  have hlt : i < fl.length := by
    rcases Nat.lt_or_ge i fl.length with h1 | h1
    · exact h1
    · simp [List.getElem?_eq_none h1] at h
  have e : fl.count false = (fl.take i).count false + (fl.drop i).count false := by
    rw [← List.count_append, List.take_append_drop]
  have hd : fl.drop i = fl[i] :: fl.drop (i + 1) := List.drop_eq_getElem_cons hlt
  have hv : fl[i] = false := by simpa [hlt] using h
  rw [hd, hv] at e
  simp [List.count_cons] at e
  omega

/-- Where the lines placed by `apply_tactic` currently are: `fl` says for the lines processed so far
whether they were removed; `rem` are the ids removed (in order). -/
structure LiveInv (P : IId) (k : Nat) (rem : List IId) (fl : List Bool) : Prop where
  len : rem.length = fl.count true
  kept : ∀ i, fl[i]? = some false → liveId rem (P ++ [k + i]) = P ++ [k + (fl.take i).count false]
  fut : ∀ a, k + fl.length ≤ a → liveId rem (P ++ [a]) = P ++ [a - rem.length]

theorem LiveInv.nil (P : IId) (k : Nat) : LiveInv P k [] [] :=
  ⟨rfl, fun i h => by simp at h, fun a _ => by simp [liveId]⟩

theorem LiveInv.rem_le {P k rem fl} (h : LiveInv P k rem fl) : rem.length ≤ fl.length := by
  have := count_true_false fl
  have := h.len
  omega

theorem LiveInv.keep {P k rem fl} (h : LiveInv P k rem fl) : LiveInv P k rem (fl ++ [false]) := by
  have hc := count_true_false fl
  refine ⟨by simp [List.count_append, h.len], fun i hi => ?_, fun a ha => ?_⟩
  · rcases Nat.lt_or_ge i fl.length with h1 | h1
    · have e : (fl ++ [false])[i]? = fl[i]? := by simp [List.getElem?_append_left h1]
      rw [e] at hi
      have := h.kept i hi
      rw [this]
      have : (fl ++ [false]).take i = fl.take i := by
        rw [List.take_append_of_le_length (by omega)]
      rw [this]
    · have hil : i = fl.length := by
        rcases Nat.lt_or_ge i (fl.length + 1) with h2 | h2
        · omega
        · have : (fl ++ [false])[i]? = none := by
            apply List.getElem?_eq_none; simp; omega
          rw [this] at hi; simp at hi
      subst hil
      rw [h.fut (k + fl.length) (Nat.le_refl _)]
      have : (fl ++ [false]).take fl.length = fl := by simp
      rw [this]
      have := h.len
      congr 2
      omega
  · apply h.fut
    simp at ha
    omega

theorem LiveInv.remove {P k rem fl} (h : LiveInv P k rem fl) :
    LiveInv P k (rem ++ [liveId rem (P ++ [k + fl.length])]) (fl ++ [true]) := by
  have hc := count_true_false fl
  have hlen := h.len
  have hcur := h.fut (k + fl.length) (Nat.le_refl _)
  rw [hcur]
  refine ⟨by simp [List.count_append, h.len], fun i hi => ?_, fun a ha => ?_⟩
  · have h1 : i < fl.length := by
      rcases Nat.lt_or_ge i fl.length with h1 | h1
      · exact h1
      · rcases Nat.lt_or_ge i (fl.length + 1) with h2 | h2
        · have : i = fl.length := by omega
          subst this
          simp at hi
        · have : (fl ++ [true])[i]? = none := by
            apply List.getElem?_eq_none; simp; omega
          rw [this] at hi; simp at hi
    have e : (fl ++ [true])[i]? = fl[i]? := by simp [List.getElem?_append_left h1]
    rw [e] at hi
    rw [liveId_snoc, h.kept i hi, decrId_same]
    have hle := count_take_le fl i false
    have hlt := count_take_lt fl i hi
    have : (fl ++ [true]).take i = fl.take i := by
      rw [List.take_append_of_le_length (by omega)]
    rw [this]
    have : ¬ (k + fl.length - rem.length < k + (fl.take i).count false) := by omega
    simp [this]
  · simp at ha
    rw [liveId_snoc, h.fut a (by omega), decrId_same]
    have : k + fl.length - rem.length < a - rem.length := by omega
    simp [this]
    omega

/-! ### list algebra for the middle segment -/

theorem eraseIdx_mid {α : Type} : ∀ (sa X sb : List α) (t : Nat), t < X.length →
    (sa ++ X ++ sb).eraseIdx (sa.length + t) = sa ++ X.eraseIdx t ++ sb
  | [], X, sb, t, h => by
    simp
    rw [List.eraseIdx_append_of_lt_length h]
  | a :: sa, X, sb, t, h => by
    have ih := eraseIdx_mid sa X sb t h
    simp only [List.cons_append, List.length_cons]
    have : sa.length + 1 + t = (sa.length + t) + 1 := by omega
    rw [this, List.eraseIdx_cons_succ]
    simp only [List.append_assoc] at ih ⊢
    rw [ih]

theorem set_mid {α : Type} : ∀ (sa X sb : List α) (t : Nat) (v : α), t < X.length →
    (sa ++ X ++ sb).set (sa.length + t) v = sa ++ X.set t v ++ sb
  | [], X, sb, t, v, h => by
    simp
    rw [List.set_append_left _ _ h]
  | a :: sa, X, sb, t, v, h => by
    have ih := set_mid sa X sb t v h
    simp only [List.cons_append, List.length_cons]
    have : sa.length + 1 + t = (sa.length + t) + 1 := by omega
    rw [this, List.set_cons_succ]
    simp only [List.append_assoc] at ih ⊢
    rw [ih]

end Holpy.C13
