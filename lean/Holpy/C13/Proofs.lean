import Holpy.C13.Model
namespace Holpy.C13
end Holpy.C13
