import Holpy.C13.Model
/-
Helper lemmas for C13: `ItemID` arithmetic against `can_depend_on`, and how the editing operations
act on citations and on the last line.
-/
namespace Holpy.C13

/-! ### id arithmetic -/

theorem canDependOn_cons (a0 : Nat) (as : IId) (b0 : Nat) (bs : IId) :
    canDependOn (a0 :: as) (b0 :: bs) = if bs = [] then decide (b0 < a0) else (a0 == b0 && canDependOn as bs) := by
  cases bs <;> simp [canDependOn]

theorem canDependOn_nil_left (b : IId) : canDependOn [] b = false := by
  cases b with
  | nil => rfl
  | cons b0 bs => cases bs <;> rfl

theorem canDependOn_nil_right (a : IId) : canDependOn a [] = false := by
  cases a <;> rfl

theorem incrIdAfter_cons (a0 : Nat) (as : IId) (s0 : Nat) (ss : IId) (n : Nat) :
    incrIdAfter (a0 :: as) (s0 :: ss) n =
      if ss = [] then (if s0 ≤ a0 then (a0 + n) :: as else a0 :: as)
      else (if a0 = s0 then a0 :: incrIdAfter as ss n else a0 :: as) := by
  cases ss <;> simp [incrIdAfter]

theorem incrIdAfter_nil (s : IId) (n : Nat) : incrIdAfter [] s n = [] := by
  cases s with
  | nil => rfl
  | cons s0 ss => cases ss <;> rfl

theorem incrIdAfter_eq_nil (b s : IId) (n : Nat) : incrIdAfter b s n = [] ↔ b = [] := by
  cases b with
  | nil => simp [incrIdAfter_nil]
  | cons b0 bs =>
    cases s with
    | nil => simp [incrIdAfter]
    | cons s0 ss =>
      rw [incrIdAfter_cons]
      split <;> split <;> simp

/-- Shifting both ids by the same insertion does not change visibility
(`incr_proof_item` applies `incr_id_after` to the id and to every citation). -/
theorem canDependOn_incr : ∀ (s a b : IId) (n : Nat), s ≠ [] →
    canDependOn (incrIdAfter a s n) (incrIdAfter b s n) = canDependOn a b
  | [], _, _, _, h => absurd rfl h
  | s0 :: ss, a, b, n, _ => by
    cases a with
    | nil => simp [incrIdAfter_nil, canDependOn_nil_left]
    | cons a0 as =>
      cases b with
      | nil => simp [incrIdAfter_nil, canDependOn_nil_right]
      | cons b0 bs =>
        rw [incrIdAfter_cons, incrIdAfter_cons]
        by_cases hss : ss = []
        · subst hss
          simp only [if_true]
          split <;> split <;> simp only [canDependOn_cons] <;> split <;> try rfl
          all_goals (try (simp <;> omega))
          · have : (a0 + n == b0 + n) = (a0 == b0) := by
              rw [Bool.eq_iff_iff]; simp
            rw [this]
          · have h1 : (a0 + n == b0) = false := by simp; omega
            have h2 : (a0 == b0) = false := by simp; omega
            rw [h1, h2]
          · have h1 : (a0 == b0 + n) = false := by simp; omega
            have h2 : (a0 == b0) = false := by simp; omega
            rw [h1, h2]
        · simp only [hss, if_false]
          have ih := canDependOn_incr ss as bs n hss
          by_cases ha : a0 = s0 <;> by_cases hb : b0 = s0
          · subst ha; subst hb
            simp only [if_true, canDependOn_cons, incrIdAfter_eq_nil]
            split
            · rfl
            · simp [ih]
          · subst ha
            simp only [if_true, hb, if_false, canDependOn_cons]
            split
            · rfl
            · have : (a0 == b0) = false := by simp; omega
              simp [this]
          · subst hb
            simp only [if_true, ha, if_false, canDependOn_cons, incrIdAfter_eq_nil]
            split
            · rfl
            · have : (a0 == b0) = false := by simp; omega
              simp [this]
          · simp [ha, hb]

/-! ### citations under `incr_proof_item` -/

mutual
theorem citesOk_incr (s : IId) (n : Nat) (hs : s ≠ []) : ∀ i : Item, Item.citesOk (Item.incr s n i) = Item.citesOk i
  | .mk id r p th h sub => by
    simp only [Item.incr, Item.citesOk]
    rw [citesOkList_incr s n hs sub]
    congr 1
    simp only [List.all_map]
    congr 1
    funext x
    simp [canDependOn_incr s id x n hs]
theorem citesOkList_incr (s : IId) (n : Nat) (hs : s ≠ []) : ∀ l : List Item, citesOkList (incrList s n l) = citesOkList l
  | [] => by simp [incrList, citesOkList]
  | i :: is => by simp only [incrList, citesOkList]; rw [citesOk_incr s n hs i, citesOkList_incr s n hs is]
end

theorem citesOkList_append : ∀ (a b : List Item), citesOkList (a ++ b) = (citesOkList a && citesOkList b)
  | [], b => by simp [citesOkList]
  | i :: is, b => by simp [citesOkList, citesOkList_append is b, Bool.and_assoc]

theorem citesOkList_take_drop (l : List Item) (k : Nat) :
    (citesOkList (l.take k) && citesOkList (l.drop k)) = citesOkList l := by
  rw [← citesOkList_append, List.take_append_drop]

theorem citesOkList_newLines (id : IId) (n : Nat) : citesOkList (newLines id n) = true := by
  unfold newLines
  induction (List.range n) with
  | nil => simp [citesOkList]
  | cons a as ih =>
    simp only [List.map, citesOkList, Item.citesOk]
    rw [ih]; simp [citesOkList]

theorem citesOkList_set : ∀ (l : List Item) (i : Nat) (x : Item), citesOkList l = true → Item.citesOk x = true →
    citesOkList (l.set i x) = true
  | [], i, x, h, hx => by simp [citesOkList]
  | a :: as, 0, x, h, hx => by simp [citesOkList] at h ⊢; exact ⟨hx, h.2⟩
  | a :: as, i + 1, x, h, hx => by
    simp [citesOkList] at h ⊢
    exact ⟨h.1, citesOkList_set as i x h.2 hx⟩

theorem citesOkList_get : ∀ (l : List Item) (i : Nat) (x : Item), citesOkList l = true → l[i]? = some x →
    Item.citesOk x = true
  | [], i, x, h, hx => by simp at hx
  | a :: as, 0, x, h, hx => by simp at hx; subst hx; simp [citesOkList] at h; exact h.1
  | a :: as, i + 1, x, h, hx => by
    simp at hx; simp [citesOkList] at h
    exact citesOkList_get as i x h.2 hx

/-- Generic preservation through `modifyAt`: the citation condition is local to each line. -/
theorem citesOk_modifyAt (f : List Item → Except Err (List Item))
    (hf : ∀ l l', citesOkList l = true → f l = .ok l' → citesOkList l' = true) :
    ∀ (path : List Nat) (items items' : List Item), citesOkList items = true →
      modifyAt path f items = .ok items' → citesOkList items' = true
  | [], items, items', hw, h => by simp [modifyAt] at h; exact hf _ _ hw h
  | i :: rest, items, items', hw, h => by
    simp only [modifyAt] at h
    split at h
    · simp at h
    · rename_i id r p th hs sub hget
      split at h
      · split at h
        · rename_i sub' hsub
          simp at h; subst h
          have hit := citesOkList_get items i _ hw hget
          simp only [Item.citesOk, Bool.and_eq_true] at hit
          have ih := citesOk_modifyAt f hf rest sub sub' hit.2 hsub
          apply citesOkList_set _ _ _ hw
          simp only [Item.citesOk, Bool.and_eq_true]
          exact ⟨hit.1, ih⟩
        · simp at h
      · simp at h

theorem citesOk_addLineBefore (s s' : Proof) (id : IId) (n : Nat) (hw : citesOkList s = true)
    (h : addLineBefore s id n = .ok s') : citesOkList s' = true := by
  unfold addLineBefore at h
  split at h
  · simp at h
  · rename_i split hlast
    have hid : id ≠ [] := by intro e; subst e; simp at hlast
    exact citesOk_modifyAt _ (fun l l' hl hf => by
      simp at hf; subst hf
      rw [citesOkList_append, citesOkList_append, citesOkList_newLines, citesOkList_incr id n hid]
      have := citesOkList_take_drop l split
      rw [hl] at this
      simp_all) _ _ _ hw h

theorem citesOk_setLine (s s' : Proof) (id : IId) (r : Nat) (p : List IId) (th : Option Seq)
    (hw : citesOkList s = true) (hp : ∀ x ∈ p, canDependOn id x = true)
    (h : setLine s id r p th = .ok s') : citesOkList s' = true := by
  unfold setLine placeItem at h
  split at h
  · simp at h
  · rename_i split hlast
    exact citesOk_modifyAt _ (fun l l' hl hf => by
      split at hf
      · simp at hf; subst hf
        apply citesOkList_set _ _ _ hl
        simp [Item.citesOk, citesOkList]
        exact hp
      · simp at hf) _ _ _ hw h

/-! ### `replace_id`: citations of the removed line move to an earlier visible line -/

/-- Visibility is transitive: a line visible from a visible line is visible. -/
theorem canDependOn_trans : ∀ (new a old : IId), canDependOn a old = true → canDependOn old new = true →
    canDependOn a new = true
  | [], a, old, _, h2 => by simp [canDependOn_nil_right] at h2
  | n0 :: ns, a, old, h1, h2 => by
    cases a with
    | nil => simp [canDependOn_nil_left] at h1
    | cons a0 as =>
      cases old with
      | nil => simp [canDependOn_nil_right] at h1
      | cons o0 os =>
        rw [canDependOn_cons] at h1 h2 ⊢
        by_cases hns : ns = []
        · simp only [hns, if_true] at h2 ⊢
          split at h1 <;> simp at h1 h2 ⊢ <;> omega
        · simp only [hns, if_false] at h2 ⊢
          simp at h2
          have hos : os ≠ [] := by
            intro e; rw [e, canDependOn_nil_left] at h2; simp at h2
          simp only [hos, if_false] at h1
          simp at h1
          have ih := canDependOn_trans ns as os h1.2 h2.2
          simp [ih]; omega

mutual
theorem citesOk_replace (o n : IId) (hon : canDependOn o n = true) : ∀ i : Item, Item.citesOk i = true →
    Item.citesOk (Item.replacePrev o n i) = true
  | .mk id r p th h sub, hw => by
    simp only [Item.replacePrev, Item.citesOk, Bool.and_eq_true] at hw ⊢
    refine ⟨?_, citesOkList_replace o n hon sub hw.2⟩
    simp only [List.all_map, List.all_eq_true] at hw ⊢
    intro x hx
    simp only [Function.comp]
    split
    · rename_i e; subst e
      exact canDependOn_trans _ _ _ (hw.1 x hx) hon
    · exact hw.1 x hx
theorem citesOkList_replace (o n : IId) (hon : canDependOn o n = true) : ∀ l : List Item, citesOkList l = true →
    citesOkList (replaceList o n l) = true
  | [], _ => by simp [replaceList, citesOkList]
  | i :: is, hw => by
    simp only [citesOkList, Bool.and_eq_true] at hw
    simp only [replaceList, citesOkList, Bool.and_eq_true]
    exact ⟨citesOk_replace o n hon i hw.1, citesOkList_replace o n hon is hw.2⟩
end

/-! ### the last top-level line -/

/-- What the property keeps of a line: its rule and its stated sequent. -/
def sigOf (it : Item) : Nat × Option Seq := (it.rule, it.th)

theorem sigOf_incr (s : IId) (n : Nat) (i : Item) : sigOf (Item.incr s n i) = sigOf i := by
  cases i; simp [Item.incr, sigOf, Item.rule, Item.th]

theorem incrList_eq_map (s : IId) (n : Nat) : ∀ l, incrList s n l = l.map (Item.incr s n)
  | [] => by simp [incrList]
  | i :: is => by simp [incrList, incrList_eq_map s n is]

theorem set_of_get {α : Type} : ∀ (l : List α) (i : Nat) (a : α), l[i]? = some a → l.set i a = l
  | [], i, a, h => by simp at h
  | x :: xs, 0, a, h => by simp at h; simp [h]
  | x :: xs, i + 1, a, h => by simp at h; simp [set_of_get xs i a h]

/-- An edit inside a subproof leaves rule and sequent of every top-level line as they are. -/
theorem sig_modifyAt_nested (f : List Item → Except Err (List Item)) (i : Nat) (rest : List Nat)
    (items items' : List Item) (h : modifyAt (i :: rest) f items = .ok items') :
    items'.map sigOf = items.map sigOf := by
  simp only [modifyAt] at h
  split at h
  · simp at h
  · rename_i id r p th hs sub hget
    split at h
    · split at h
      · rename_i sub' hsub
        simp at h; subst h
        rw [List.map_set]
        have : (items.map sigOf)[i]? = some (sigOf (.mk id r p th hs sub)) := by simp [hget]
        have e : sigOf (.mk id r p th hs sub') = sigOf (.mk id r p th hs sub) := by simp [sigOf, Item.rule, Item.th]
        rw [e]
        exact set_of_get _ _ _ this
      · simp at h
    · simp at h

end Holpy.C13
