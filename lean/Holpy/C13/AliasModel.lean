/-
C13 — aliasing model for `copy.copy(state)` (import-free).

What `ProofState.__copy__` / `Proof.__copy__` / `ProofItem.__copy__` share between a state and its
copy: the objects held in `args` (lists of terms for `intros`, `Inst` dictionaries, tuples) and the
immutable sequents/terms; the `ProofItem`, `Proof`, `ItemID` objects and the `prevs` / `items`
lists are created anew.  The model keeps the shared mutable part explicit: a heap of argument cells
(`Heap`), items point into it (`args : Option Nat`); everything else of an item is a value.

The operations of server/method.py as coded never write into an existing cell: `set_line`, the
splice of `apply_tactic` and the subproof of `introduction` attach fresh objects; `exists_elim`
re-binds `item.args = [exists_prop] + item.args` (a new list).  `HeapOp.alloc` is that effect;
`HeapOp.update` is an in-place write (`item.args.insert(0, …)`), which the code does not perform —
the harness compares, for every operation applied to a copy, the identity and content of every
argument object reachable from the original before and after (stream `alias`).
-/
namespace Holpy.C13.Alias

abbrev Cell := List Nat
abbrev Heap := List Cell

/-- An item as far as sharing is concerned: the reference to its argument object and its subproof. -/
inductive AItem where
  | mk (rule : Nat) (args : Option Nat) (sub : List AItem)
  deriving Repr, Inhabited

/-- An item with its argument object read from the heap. -/
inductive VItem where
  | mk (rule : Nat) (args : Option Cell) (sub : List VItem)
  deriving Repr, Inhabited

mutual
def viewItem (h : Heap) : AItem → VItem
  | .mk r a sub => .mk r (a.bind (fun i => h[i]?)) (viewList h sub)
def viewList (h : Heap) : List AItem → List VItem
  | [] => []
  | i :: is => viewItem h i :: viewList h is
end

/- All references of a state are allocated. -/
mutual
def validItem (h : Heap) : AItem → Bool
  | .mk _ a sub => (match a with | none => true | some i => decide (i < h.length)) && validList h sub
def validList (h : Heap) : List AItem → Bool
  | [] => true
  | i :: is => validItem h i && validList h is
end

/-- The effect of one editing operation on the heap of argument objects. -/
inductive HeapOp where
  | alloc (cells : List Cell)          -- fresh objects only (every operation as coded)
  | update (ref : Nat) (c : Cell)      -- in-place write into an existing object (not in the code)
  deriving Repr

def HeapOp.apply (h : Heap) : HeapOp → Heap
  | .alloc cells => h ++ cells
  | .update ref c => h.set ref c

/-- `exists_elim` as coded: a new list `[p] ++ old` is bound to the `intros` line. -/
def existsElimArgs (h : Heap) (ref : Nat) (p : Nat) : HeapOp :=
  .alloc [p :: (h[ref]?).getD []]

/-- The in-place variant `item.args.insert(0, p)`. -/
def existsElimArgsInPlace (h : Heap) (ref : Nat) (p : Nat) : HeapOp :=
  .update ref (p :: (h[ref]?).getD [])

end Holpy.C13.Alias
