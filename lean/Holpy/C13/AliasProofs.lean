import Holpy.C13.AliasModel
/- Helper lemmas for the aliasing model: appending cells does not change what allocated references read. -/
namespace Holpy.C13.Alias

mutual
theorem viewItem_alloc (h : Heap) (cells : List Cell) : ∀ i : AItem, validItem h i = true →
    viewItem (h ++ cells) i = viewItem h i
  | .mk r a sub, hv => by
    simp only [validItem, Bool.and_eq_true] at hv
    simp only [viewItem]
    rw [viewList_alloc h cells sub hv.2]
    cases a with
    | none => rfl
    | some i =>
      have hi : i < h.length := by simpa using hv.1
      simp [List.getElem?_append_left hi]
theorem viewList_alloc (h : Heap) (cells : List Cell) : ∀ l : List AItem, validList h l = true →
    viewList (h ++ cells) l = viewList h l
  | [], _ => by simp [viewList]
  | i :: is, hv => by
    simp only [validList, Bool.and_eq_true] at hv
    simp only [viewList]
    rw [viewItem_alloc h cells i hv.1, viewList_alloc h cells is hv.2]
end

end Holpy.C13.Alias
