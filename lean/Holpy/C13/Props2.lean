import Holpy.C13.Props
import Holpy.C13.Revert
/-
C13 — property theorems, second file: what `remove_line` does to a line that is cited.
`ProofState.remove_line` does not check that the line is not cited (it neither refuses nor leaves a
marker); the precondition of `remove_line_preserves_wf` is established by its two callers:
`replace_id` (re-points the citations first — `replace_id_preserves_wf`) and `revert_intro` (asserts
`not is_used(...)` since fix C13-2; observed by the oracle, its assertion is not modelled).
-/
namespace Holpy.C13

/-- `0: sorry; 1: rule 5 from 0`: a well-formed state in which line 0 is cited by the next line. -/
def c0 : Proof := [.mk [0] ruleSorry [] (some ⟨1, []⟩) false [], .mk [1] 5 [[0]] (some ⟨2, []⟩) false []]

/-- Counterexample: `remove_line` of a cited line completes and leaves a state that is not
well-formed (the citing line moves into the removed position and now cites itself). -/
theorem remove_line_cited_breaks_wf_counterexample :
    wf c0 = true ∧ ∃ s', removeLine c0 [0] = .ok s' ∧ wf s' = false :=
  ⟨by decide, _, rfl, by decide⟩

/-- `0: A; 1: B; 2: rule 5 from 0`: line 0 is cited by a line that is not its neighbour. -/
def c1 : Proof :=
  [.mk [0] ruleSorry [] (some ⟨1, []⟩) false [], .mk [1] 4 [] (some ⟨2, []⟩) false [],
   .mk [2] 5 [[0]] (some ⟨3, []⟩) false []]

/-- Counterexample: `remove_line` of a cited line may also keep the state well-formed while the
citation silently names another line (here the line stating sequent 2 instead of sequent 1): the
structural invariant cannot see it, the full re-check of the oracle does. -/
theorem remove_line_cited_retargets_counterexample :
    wf c1 = true ∧ (findItem c1 [0]).map Item.th = some (some ⟨1, []⟩) ∧
    ∃ s', removeLine c1 [0] = .ok s' ∧ wf s' = true ∧
      (findItem s' [1]).map Item.prevs = some [[0]] ∧ (findItem s' [0]).map Item.th = some (some ⟨2, []⟩) :=
  ⟨by decide, rfl, _, rfl, by decide, rfl, rfl⟩

/-- Both callers of `remove_line` establish its precondition (`remove_line_preserves_wf`: no line of
the proof that contains the removed line cites it).  `replace_id(old, new)`: after the re-pointing
phase no line of `old`'s proof cites `old`.  `revert_intro` (model `revertIntroM`, compared with every
real application by the stream `method:revert_intro`): the guard `not is_used(...)` — no line other
than the `intros` line cites the assumption — together with the two `set_line` calls (the new gap
cites nothing, the `intros` line is re-set without the assumption) leaves no citation of it anywhere
in the state on which `remove_line(fact)` is then called. -/
theorem remove_line_callers_establish_precondition :
    (∀ (s s1 : Proof) (old new : IId) (cur : Item), findItem s old = some cur → canDependOn old new = true →
      modifyAt old.dropLast (fun items => .ok (replaceList old new items)) s = .ok s1 →
      ∀ l, getAt old.dropLast s1 = some l → notCitedList old l = true) ∧
    (∀ (s s2 : Proof) (id fact : IId) (th' : Option Seq) (ra ri : Nat),
      revertIntroPrefix s id fact th' ra ri = .ok s2 →
      ∀ l, getAt fact.dropLast s2 = some l → notCitedList fact l = true) := by
  refine ⟨fun s s1 old new cur hex hvis h1 l hl => ?_, fun s s2 id fact th' ra ri h l hl => ?_⟩
  · obtain ⟨l0, split, _, hget, _⟩ := findItem_getAt old s cur hex
    obtain ⟨l1, e1, hg1⟩ := getAt_modifyAt _ old.dropLast s s1 l0 hget h1
    simp at e1; subst e1
    rw [hg1] at hl; cases hl
    have hne : new ≠ old := by
      intro e; subst e; rw [canDependOn_irrefl] at hvis; simp at hvis
    exact notCitedList_replace old new hne l0
  · exact notCited_getAt fact _ s2 l (revertIntroPrefix_notCited s s2 id fact th' ra ri h) hl

example : findItem c1 [0] ≠ none ∧ canDependOn [2] [0] = true := by decide

/-- `revert_intro` in the model: `0: assume A; 1: gap; 2: intros from 0, 1` becomes `0: gap; 1: intros from 0` -/
example : (match revertIntroM [.mk [0] 4 [] (some ⟨1, [1]⟩) false [], .mk [1] ruleSorry [] (some ⟨2, [1]⟩) false [],
      .mk [2] 5 [[0], [1]] (some ⟨3, []⟩) false []] [1] [0] (some ⟨3, []⟩) 4 5 with
    | .ok s' => wf s' && s'.length == 2 && (sorrysList s' == [some ⟨3, []⟩])
    | .error _ => false) = true := by decide

/-- the guard refuses when another line cites the assumption -/
example : (match revertIntroM [.mk [0] 4 [] (some ⟨1, [1]⟩) false [], .mk [1] 6 [[0]] (some ⟨4, [1]⟩) false [],
      .mk [2] ruleSorry [] (some ⟨2, [1]⟩) false [], .mk [3] 5 [[0], [2]] (some ⟨3, []⟩) false []] [2] [0] (some ⟨3, []⟩) 4 5 with
    | .ok _ => false
    | .error _ => true) = true := by decide

end Holpy.C13
