import Holpy.C13.Props
/-
C13 — property theorems, second file: what `remove_line` does to a line that is cited.
`ProofState.remove_line` does not check that the line is not cited (it neither refuses nor leaves a
marker); the precondition of `remove_line_preserves_wf` is established by its two callers:
`replace_id` (re-points the citations first — `replace_id_preserves_wf`) and `revert_intro` (asserts
`not is_used(...)` since fix C13-2; observed by the oracle, its assertion is not modelled).
-/
namespace Holpy.C13

/-- `0: sorry; 1: rule 5 from 0`: a well-formed state in which line 0 is cited by the next line. -/
def c0 : Proof := [.mk [0] ruleSorry [] (some ⟨1, []⟩) false [], .mk [1] 5 [[0]] (some ⟨2, []⟩) false []]

/-- Counterexample: `remove_line` of a cited line completes and leaves a state that is not
well-formed (the citing line moves into the removed position and now cites itself). -/
theorem remove_line_cited_breaks_wf_counterexample :
    wf c0 = true ∧ ∃ s', removeLine c0 [0] = .ok s' ∧ wf s' = false :=
  ⟨by decide, _, rfl, by decide⟩

/-- `0: A; 1: B; 2: rule 5 from 0`: line 0 is cited by a line that is not its neighbour. -/
def c1 : Proof :=
  [.mk [0] ruleSorry [] (some ⟨1, []⟩) false [], .mk [1] 4 [] (some ⟨2, []⟩) false [],
   .mk [2] 5 [[0]] (some ⟨3, []⟩) false []]

/-- Counterexample: `remove_line` of a cited line may also keep the state well-formed while the
citation silently names another line (here the line stating sequent 2 instead of sequent 1): the
structural invariant cannot see it, the full re-check of the oracle does. -/
theorem remove_line_cited_retargets_counterexample :
    wf c1 = true ∧ (findItem c1 [0]).map Item.th = some (some ⟨1, []⟩) ∧
    ∃ s', removeLine c1 [0] = .ok s' ∧ wf s' = true ∧
      (findItem s' [1]).map Item.prevs = some [[0]] ∧ (findItem s' [0]).map Item.th = some (some ⟨2, []⟩) :=
  ⟨by decide, rfl, _, rfl, by decide, rfl, rfl⟩

end Holpy.C13
