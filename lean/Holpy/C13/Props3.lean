import Holpy.C13.AliasProofs
/-
C13 — property theorems, third file: editing a copy of a state does not change the original
(on the aliasing model of Holpy/C13/AliasModel.lean).
-/
namespace Holpy.C13
open Holpy.C13.Alias

/-- Copy isolation: whatever an operation that only attaches fresh argument objects (every
operation of server/method.py as coded) does to a copy, the original state — any state whose
references were allocated before — reads exactly as before, arguments included. -/
theorem copy_isolated (h : Heap) (orig : List AItem) (cells : List Cell) (hv : validList h orig = true) :
    viewList ((HeapOp.alloc cells).apply h) orig = viewList h orig := by
  simp only [HeapOp.apply]
  exact viewList_alloc h cells orig hv

/-- `exists_elim` as coded is such an operation. -/
theorem exists_elim_isolated (h : Heap) (orig : List AItem) (ref p : Nat) (hv : validList h orig = true) :
    viewList ((existsElimArgs h ref p).apply h) orig = viewList h orig :=
  copy_isolated h orig _ hv

/-- the argument object the first line reads -/
def headArgs : List VItem → Option Cell
  | (.mk _ a _) :: _ => a
  | [] => none

example : validList [[7]] [.mk 3 (some 0) []] = true ∧
    viewList ((existsElimArgs [[7]] 0 9).apply [[7]]) [.mk 3 (some 0) []] = [.mk 3 (some [7]) []] :=
  ⟨by decide, rfl⟩

/-- Counterexample: the in-place variant (`item.args.insert(0, p)`) applied to a copy changes what
the original reads — the original and its copy share the argument object of the `intros` line. -/
theorem in_place_update_not_isolated_counterexample :
    validList [[7]] [.mk 3 (some 0) []] = true ∧
    viewList ((existsElimArgsInPlace [[7]] 0 9).apply [[7]]) [.mk 3 (some 0) []]
      ≠ viewList [[7]] [.mk 3 (some 0) []] := by
  refine ⟨by decide, fun h => ?_⟩
  have := congrArg headArgs h
  revert this
  decide

end Holpy.C13
