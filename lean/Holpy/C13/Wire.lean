import Holpy.Common.Sexp
import Holpy.C13.Model
/-
Line protocol shared by the `c13_model` and `c14_model` drivers (one s-expression in, one out):
  ID    = (n ...)                  TH = N | (prop (hyp ...))
  ITEM  = (ID RULE (ID ...) TH T|F (ITEM ...))          STATE = (ITEM ...)
  (incr SELF START N) (decr SELF RM) (incrid SELF N)    -> ID
  (dep SELF OTHER) (wf STATE)                           -> T | F
  (add STATE ID N) (remove STATE ID) (set STATE ID RULE (ID ...) TH) (replace STATE OLD NEW)
  (tactic STATE ID ((ITEM T|F) ...))                    -> (ok STATE) | (error KIND)
  (find STATE TH ID)                                    -> (ok ID) | (ok N) | (error KIND)
  (sorrys STATE)                                        -> (TH ...)
-/
open Holpy

namespace Holpy.C13.Wire

def idOf (s : Sexp) : Option IId := do (← s.toList?).mapM Sexp.toNat?
def idsOf (s : Sexp) : Option (List IId) := do (← s.toList?).mapM idOf

def thOf : Sexp → Option (Option Seq)
  | .atom "N" => some none
  | .list [p, h] => do
    let hs ← (← h.toList?).mapM Sexp.toNat?
    some (some ⟨← p.toNat?, hs⟩)
  | _ => none

partial def itemOf : Sexp → Option Item
  | .list [i, r, p, t, h, .list sub] => do
    let sub' ← sub.mapM itemOf
    some (.mk (← idOf i) (← r.toNat?) (← idsOf p) (← thOf t) (← h.toBool?) sub')
  | _ => none

def stateOf (s : Sexp) : Option Proof := do (← s.toList?).mapM itemOf

def newOf (s : Sexp) : Option (List NewLine) := do
  (← s.toList?).mapM fun
    | .list [it, b] => do some ⟨← itemOf it, ← b.toBool?⟩
    | _ => none

def idTo (i : IId) : Sexp := .list (i.map Sexp.ofNat)
def thTo : Option Seq → Sexp
  | none => .atom "N"
  | some t => .list [Sexp.ofNat t.prop, .list (t.hyps.map Sexp.ofNat)]

partial def itemTo : Item → Sexp
  | .mk i r p t h sub => .list [idTo i, Sexp.ofNat r, .list (p.map idTo), thTo t, Sexp.ofBool h, .list (sub.map itemTo)]

def stateTo (s : Proof) : Sexp := .list (s.map itemTo)

def errTo : Err → String
  | .proofState => "proofstate"
  | .assertion => "assertion"
  | .index => "index"

def resTo : Except Err Proof → String
  | .ok s => toString (Sexp.list [.atom "ok", stateTo s])
  | .error e => toString (Sexp.list [.atom "error", .atom (errTo e)])

def handle (line : String) : String :=
  match Sexp.parse line with
  | some (.list [.atom "incr", a, b, n]) =>
    match idOf a, idOf b, n.toNat? with
    | some a, some b, some n => toString (idTo (incrIdAfter a b n))
    | _, _, _ => "bad-op"
  | some (.list [.atom "decr", a, b]) =>
    match idOf a, idOf b with
    | some a, some b => toString (idTo (decrId a b))
    | _, _ => "bad-op"
  | some (.list [.atom "incrid", a, n]) =>
    match idOf a, n.toNat? with
    | some a, some n => toString (idTo (incrId a n))
    | _, _ => "bad-op"
  | some (.list [.atom "dep", a, b]) =>
    match idOf a, idOf b with
    | some a, some b => toString (Sexp.ofBool (canDependOn a b))
    | _, _ => "bad-op"
  | some (.list [.atom "wf", st]) =>
    match stateOf st with
    | some s => toString (Sexp.ofBool (wf s))
    | none => "bad-op"
  | some (.list [.atom "sorrys", st]) =>
    match stateOf st with
    | some s => toString (Sexp.list ((sorrysList s).map thTo))
    | none => "bad-op"
  | some (.list [.atom "add", st, i, n]) =>
    match stateOf st, idOf i, n.toNat? with
    | some s, some i, some n => resTo (addLineBefore s i n)
    | _, _, _ => "bad-op"
  | some (.list [.atom "remove", st, i]) =>
    match stateOf st, idOf i with
    | some s, some i => resTo (removeLine s i)
    | _, _ => "bad-op"
  | some (.list [.atom "set", st, i, r, p, t]) =>
    match stateOf st, idOf i, r.toNat?, idsOf p, thOf t with
    | some s, some i, some r, some p, some t => resTo (setLine s i r p t)
    | _, _, _, _, _ => "bad-op"
  | some (.list [.atom "replace", st, o, n]) =>
    match stateOf st, idOf o, idOf n with
    | some s, some o, some n => resTo (replaceId s o n)
    | _, _, _ => "bad-op"
  | some (.list [.atom "tactic", st, i, new]) =>
    match stateOf st, idOf i, newOf new with
    | some s, some i, some new => resTo (applyTactic s i new)
    | _, _, _ => "bad-op"
  | some (.list [.atom "find", st, t, i]) =>
    match stateOf st, thOf t, idOf i with
    | some s, some (some t), some i =>
      match findGoal s t i with
      | .ok (some r) => toString (Sexp.list [.atom "ok", idTo r])
      | .ok none => "(ok N)"
      | .error e => toString (Sexp.list [.atom "error", .atom (errTo e)])
    | _, _, _ => "bad-op"
  | _ => "bad-op"

end Holpy.C13.Wire
