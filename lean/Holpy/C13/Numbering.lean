import Holpy.C13.Proofs
/-
Helper lemmas for C13: contiguous numbering (ids equal positions at every depth) under
`add_line_before`, `remove_line`, `set_line`; existence of visible lines.
-/
namespace Holpy.C13

/-! ### navigation -/

/-- The item list `Proof.get_parent_proof` reaches by following `path`. -/
def getAt : List Nat → List Item → Option (List Item)
  | [], items => some items
  | i :: rest, items =>
    match items[i]? with
    | some (.mk _ _ _ _ true sub) => getAt rest sub
    | _ => none

/-! ### id arithmetic on positions -/

theorem incrIdAfter_pos : ∀ (pre : IId) (j sp n : Nat) (rest : IId), sp ≤ j →
    incrIdAfter (pre ++ j :: rest) (pre ++ [sp]) n = pre ++ (j + n) :: rest
  | [], j, sp, n, rest, h => by simp [incrIdAfter, h]
  | p :: ps, j, sp, n, rest, h => by
    have ih := incrIdAfter_pos ps j sp n rest h
    simp only [List.cons_append]
    rw [incrIdAfter_cons]
    simp [ih]

theorem decrId_cons (a0 : Nat) (as : IId) (s0 : Nat) (ss : IId) :
    decrId (a0 :: as) (s0 :: ss) =
      if ss = [] then (if s0 < a0 then (a0 - 1) :: as else a0 :: as)
      else (if a0 = s0 then a0 :: decrId as ss else a0 :: as) := by
  cases ss <;> simp [decrId]

theorem decrId_pos : ∀ (pre : IId) (j sp : Nat) (rest : IId), sp < j →
    decrId (pre ++ j :: rest) (pre ++ [sp]) = pre ++ (j - 1) :: rest
  | [], j, sp, rest, h => by simp [decrId, h]
  | p :: ps, j, sp, rest, h => by
    have ih := decrId_pos ps j sp rest h
    simp only [List.cons_append]
    rw [decrId_cons]
    simp [ih]

theorem incrId_pos : ∀ (pre : IId) (a n : Nat), incrId (pre ++ [a]) n = pre ++ [a + n]
  | [], a, n => by simp [incrId]
  | [p], a, n => by simp [incrId]
  | p :: q :: ps, a, n => by
    have ih := incrId_pos (q :: ps) a n
    simp only [List.cons_append] at ih ⊢
    simp [incrId, ih]

/-! ### numbering: basic list facts -/

theorem numberedFrom_append (pre : IId) : ∀ (a b : List Item) (k : Nat),
    numberedFrom pre k (a ++ b) = (numberedFrom pre k a && numberedFrom pre (k + a.length) b)
  | [], b, k => by simp [numberedFrom]
  | i :: is, b, k => by
    simp only [List.cons_append, numberedFrom, numberedFrom_append pre is b (k + 1), List.length_cons, Bool.and_assoc]
    congr 3
    omega

theorem numberedFrom_get (pre : IId) : ∀ (l : List Item) (k i : Nat) (x : Item), numberedFrom pre k l = true →
    l[i]? = some x → Item.numbered (pre ++ [k + i]) x = true
  | [], k, i, x, h, hx => by simp at hx
  | a :: as, k, 0, x, h, hx => by
    simp at hx; subst hx; simp [numberedFrom] at h; simpa using h.1
  | a :: as, k, i + 1, x, h, hx => by
    simp at hx; simp [numberedFrom] at h
    have := numberedFrom_get pre as (k + 1) i x h.2 hx
    have e : k + 1 + i = k + (i + 1) := by omega
    rwa [e] at this

theorem numberedFrom_set (pre : IId) : ∀ (l : List Item) (k i : Nat) (x : Item), numberedFrom pre k l = true →
    Item.numbered (pre ++ [k + i]) x = true → numberedFrom pre k (l.set i x) = true
  | [], k, i, x, h, hx => by simp [numberedFrom]
  | a :: as, k, 0, x, h, hx => by
    simp [numberedFrom] at h ⊢; exact ⟨by simpa using hx, h.2⟩
  | a :: as, k, i + 1, x, h, hx => by
    simp [numberedFrom] at h ⊢
    have e : k + (i + 1) = k + 1 + i := by omega
    rw [e] at hx
    exact ⟨h.1, numberedFrom_set pre as (k + 1) i x h.2 hx⟩

theorem numberedFrom_take_drop (pre : IId) (l : List Item) (k n : Nat) (hn : n ≤ l.length)
    (h : numberedFrom pre k l = true) :
    numberedFrom pre k (l.take n) = true ∧ numberedFrom pre (k + n) (l.drop n) = true := by
  have e := numberedFrom_append pre (l.take n) (l.drop n) k
  rw [List.take_append_drop, h] at e
  have hl : (l.take n).length = n := by simp; omega
  rw [hl] at e
  simpa using e.symm

/-! ### numbering under the renumbering of `incr_proof_item` / `decr_proof_item` -/

mutual
theorem numbered_incr (pre : IId) (j sp n : Nat) (h : sp ≤ j) : ∀ (it : Item) (rest : IId),
    Item.numbered (pre ++ j :: rest) it = true →
    Item.numbered (pre ++ (j + n) :: rest) (Item.incr (pre ++ [sp]) n it) = true
  | .mk id r p th hs sub, rest, hw => by
    simp only [Item.numbered, Bool.and_eq_true, decide_eq_true_eq] at hw
    simp only [Item.incr, Item.numbered, Bool.and_eq_true, decide_eq_true_eq]
    refine ⟨?_, numberedFrom_incr pre j sp n h sub rest 0 hw.2⟩
    rw [hw.1, incrIdAfter_pos pre j sp n rest h]
theorem numberedFrom_incr (pre : IId) (j sp n : Nat) (h : sp ≤ j) : ∀ (l : List Item) (rest : IId) (m : Nat),
    numberedFrom (pre ++ j :: rest) m l = true →
    numberedFrom (pre ++ (j + n) :: rest) m (incrList (pre ++ [sp]) n l) = true
  | [], rest, m, hw => by simp [incrList, numberedFrom]
  | i :: is, rest, m, hw => by
    simp only [numberedFrom, Bool.and_eq_true] at hw
    simp only [incrList, numberedFrom, Bool.and_eq_true]
    refine ⟨?_, numberedFrom_incr pre j sp n h is rest (m + 1) hw.2⟩
    have e1 : (pre ++ j :: rest) ++ [m] = pre ++ j :: (rest ++ [m]) := by simp
    have e2 : (pre ++ (j + n) :: rest) ++ [m] = pre ++ (j + n) :: (rest ++ [m]) := by simp
    rw [e2]
    rw [e1] at hw
    exact numbered_incr pre j sp n h i (rest ++ [m]) hw.1
end

mutual
theorem numbered_decr (pre : IId) (j sp : Nat) (h : sp < j) : ∀ (it : Item) (rest : IId),
    Item.numbered (pre ++ j :: rest) it = true →
    Item.numbered (pre ++ (j - 1) :: rest) (Item.decr (pre ++ [sp]) it) = true
  | .mk id r p th hs sub, rest, hw => by
    simp only [Item.numbered, Bool.and_eq_true, decide_eq_true_eq] at hw
    simp only [Item.decr, Item.numbered, Bool.and_eq_true, decide_eq_true_eq]
    refine ⟨?_, numberedFrom_decr pre j sp h sub rest 0 hw.2⟩
    rw [hw.1, decrId_pos pre j sp rest h]
theorem numberedFrom_decr (pre : IId) (j sp : Nat) (h : sp < j) : ∀ (l : List Item) (rest : IId) (m : Nat),
    numberedFrom (pre ++ j :: rest) m l = true →
    numberedFrom (pre ++ (j - 1) :: rest) m (decrList (pre ++ [sp]) l) = true
  | [], rest, m, hw => by simp [decrList, numberedFrom]
  | i :: is, rest, m, hw => by
    simp only [numberedFrom, Bool.and_eq_true] at hw
    simp only [decrList, numberedFrom, Bool.and_eq_true]
    refine ⟨?_, numberedFrom_decr pre j sp h is rest (m + 1) hw.2⟩
    have e1 : (pre ++ j :: rest) ++ [m] = pre ++ j :: (rest ++ [m]) := by simp
    have e2 : (pre ++ (j - 1) :: rest) ++ [m] = pre ++ (j - 1) :: (rest ++ [m]) := by simp
    rw [e2]
    rw [e1] at hw
    exact numbered_decr pre j sp h i (rest ++ [m]) hw.1
end

/-- Lines numbered `pre.k, pre.(k+1), …` with `sp ≤ k` are numbered from `k + n` after the shift
of `add_line_before(pre.sp, n)`. -/
theorem numberedFrom_shift_up (pre : IId) (sp n : Nat) : ∀ (l : List Item) (k : Nat), sp ≤ k →
    numberedFrom pre k l = true → numberedFrom pre (k + n) (incrList (pre ++ [sp]) n l) = true
  | [], k, _, _ => by simp [incrList, numberedFrom]
  | i :: is, k, hk, hw => by
    simp only [numberedFrom, Bool.and_eq_true] at hw
    simp only [incrList, numberedFrom, Bool.and_eq_true]
    refine ⟨?_, ?_⟩
    · have := numbered_incr pre k sp n hk i [] hw.1
      simpa using this
    · have := numberedFrom_shift_up pre sp n is (k + 1) (by omega) hw.2
      have e : k + 1 + n = k + n + 1 := by omega
      rwa [e] at this

theorem numberedFrom_shift_down (pre : IId) (sp : Nat) : ∀ (l : List Item) (k : Nat), sp < k →
    numberedFrom pre k l = true → numberedFrom pre (k - 1) (decrList (pre ++ [sp]) l) = true
  | [], k, _, _ => by simp [decrList, numberedFrom]
  | i :: is, k, hk, hw => by
    simp only [numberedFrom, Bool.and_eq_true] at hw
    simp only [decrList, numberedFrom, Bool.and_eq_true]
    refine ⟨?_, ?_⟩
    · have := numbered_decr pre k sp hk i [] hw.1
      simpa using this
    · have := numberedFrom_shift_down pre sp is (k + 1) (by omega) hw.2
      have e : k + 1 - 1 = k - 1 + 1 := by omega
      rwa [e] at this

theorem numberedFrom_newLines_aux (pre : IId) (sp : Nat) : ∀ (n a : Nat),
    numberedFrom pre (sp + a)
      ((List.range' a n).map (fun i => Item.mk (incrId (pre ++ [sp]) i) ruleEmpty [] none false [])) = true
  | 0, a => by simp [numberedFrom]
  | n + 1, a => by
    have ih := numberedFrom_newLines_aux pre sp n (a + 1)
    have e : sp + (a + 1) = sp + a + 1 := by omega
    rw [e] at ih
    simp only [List.range'_succ, List.map, numberedFrom, Item.numbered, Bool.and_eq_true, decide_eq_true_eq]
    exact ⟨⟨incrId_pos pre sp a, trivial⟩, ih⟩

theorem numberedFrom_newLines (pre : IId) (sp n : Nat) :
    numberedFrom pre sp (newLines (pre ++ [sp]) n) = true := by
  have := numberedFrom_newLines_aux pre sp n 0
  simpa [newLines, List.range_eq_range'] using this

/-! ### through `modifyAt` -/

theorem numbered_modifyAt (f : List Item → Except Err (List Item)) :
    ∀ (path : List Nat) (pre : IId) (items items' : List Item), numberedFrom pre 0 items = true →
      (∀ l l', getAt path items = some l → numberedFrom (pre ++ path) 0 l = true → f l = .ok l' →
        numberedFrom (pre ++ path) 0 l' = true) →
      modifyAt path f items = .ok items' → numberedFrom pre 0 items' = true
  | [], pre, items, items', hw, hf, h => by
    simp [modifyAt] at h
    have := hf items items' (by simp [getAt]) (by simpa using hw) h
    simpa using this
  | i :: rest, pre, items, items', hw, hf, h => by
    simp only [modifyAt] at h
    split at h
    · simp at h
    · rename_i id r p th hs sub hget
      split at h
      · rename_i hhs
        split at h
        · rename_i sub' hsub
          simp at h; subst h
          have hit := numberedFrom_get pre items 0 i _ hw hget
          simp only [Item.numbered, Bool.and_eq_true, decide_eq_true_eq, Nat.zero_add] at hit
          have ih := numbered_modifyAt f rest (pre ++ [i]) sub sub' hit.2 (fun l l' hg hn hfl => by
            have e : pre ++ [i] ++ rest = pre ++ i :: rest := by simp
            rw [e] at hn ⊢
            apply hf l l' _ hn hfl
            simp only [getAt, hget]
            subst hhs
            exact hg) hsub
          apply numberedFrom_set pre items 0 i _ hw
          simp only [Item.numbered, Bool.and_eq_true, decide_eq_true_eq, Nat.zero_add]
          exact ⟨hit.1, ih⟩
        · simp at h
      · simp at h

/-- `find_item(id)` succeeds exactly through the parent list of `id`. -/
theorem findItem_getAt : ∀ (id : IId) (s : Proof) (cur : Item), findItem s id = some cur →
    ∃ l split, id.getLast? = some split ∧ getAt id.dropLast s = some l ∧ l[split]? = some cur
  | [], s, cur, h => by simp [findItem] at h
  | [i], s, cur, h => by
    simp [findItem] at h
    exact ⟨s, i, by simp, by simp [getAt], h⟩
  | i :: j :: rest, s, cur, h => by
    simp only [findItem] at h
    split at h
    · rename_i a b c d sub hget
      obtain ⟨l, split, h1, h2, h3⟩ := findItem_getAt (j :: rest) sub cur h
      refine ⟨l, split, ?_, ?_, h3⟩
      · simpa [List.getLast?_cons_cons] using h1
      · simp only [List.dropLast_cons₂, getAt, hget]
        exact h2
    · simp at h

theorem dropLast_concat : ∀ (l : List Nat) (a : Nat), l.getLast? = some a → l.dropLast ++ [a] = l
  | [], a, h => by simp at h
  | [x], a, h => by simp at h; simp [h]
  | x :: y :: rest, a, h => by
    rw [List.getLast?_cons_cons] at h
    simp [List.dropLast_cons₂, dropLast_concat (y :: rest) a h]

/-! ### the three primitives -/

theorem numbered_addLineBefore (s s' : Proof) (id : IId) (n : Nat) (cur : Item)
    (hw : numberedFrom [] 0 s = true) (hex : findItem s id = some cur)
    (h : addLineBefore s id n = .ok s') : numberedFrom [] 0 s' = true := by
  obtain ⟨l, split, hlast, hget, hcur⟩ := findItem_getAt id s cur hex
  have hid := dropLast_concat id split hlast
  unfold addLineBefore at h
  rw [hlast] at h
  simp only at h
  refine numbered_modifyAt _ id.dropLast [] s s' hw (fun l0 l' hg hn hf => ?_) h
  rw [hget] at hg
  cases hg
  simp only [List.nil_append] at hn ⊢
  simp at hf
  subst hf
  have hlt : split < l.length := by
    rcases Nat.lt_or_ge split l.length with h1 | h1
    · exact h1
    · simp [List.getElem?_eq_none h1] at hcur
  obtain ⟨h1, h2⟩ := numberedFrom_take_drop id.dropLast l 0 split (by omega) hn
  simp only [Nat.zero_add] at h2
  rw [numberedFrom_append, numberedFrom_append, h1]
  have hl : (l.take split).length = split := by simp; omega
  have hnl : (newLines id n).length = n := by simp [newLines]
  simp only [hl, hnl, List.length_append, Nat.zero_add, Bool.true_and, Bool.and_eq_true]
  refine ⟨?_, ?_⟩
  · have := numberedFrom_newLines id.dropLast split n
    rwa [hid] at this
  · have := numberedFrom_shift_up id.dropLast split n (l.drop split) split (Nat.le_refl _) h2
    rwa [hid] at this

theorem numbered_removeLine (s s' : Proof) (id : IId) (cur : Item)
    (hw : numberedFrom [] 0 s = true) (hex : findItem s id = some cur)
    (h : removeLine s id = .ok s') : numberedFrom [] 0 s' = true := by
  obtain ⟨l, split, hlast, hget, hcur⟩ := findItem_getAt id s cur hex
  have hid := dropLast_concat id split hlast
  unfold removeLine at h
  rw [hlast] at h
  simp only at h
  refine numbered_modifyAt _ id.dropLast [] s s' hw (fun l0 l' hg hn hf => ?_) h
  rw [hget] at hg
  cases hg
  simp only [List.nil_append] at hn ⊢
  simp at hf
  subst hf
  have hlt : split < l.length := by
    rcases Nat.lt_or_ge split l.length with h1 | h1
    · exact h1
    · simp [List.getElem?_eq_none h1] at hcur
  obtain ⟨h1, _⟩ := numberedFrom_take_drop id.dropLast l 0 split (by omega) hn
  obtain ⟨_, h3⟩ := numberedFrom_take_drop id.dropLast l 0 (split + 1) (by omega) hn
  simp only [Nat.zero_add] at h3
  rw [numberedFrom_append, h1]
  have hl : (l.take split).length = split := by simp; omega
  simp only [hl, Nat.zero_add, Bool.true_and]
  have := numberedFrom_shift_down id.dropLast split (l.drop (split + 1)) (split + 1) (by omega) h3
  rw [hid] at this
  simpa using this

theorem numbered_setLine (s s' : Proof) (id : IId) (r : Nat) (p : List IId) (th : Option Seq)
    (hw : numberedFrom [] 0 s = true) (h : setLine s id r p th = .ok s') : numberedFrom [] 0 s' = true := by
  unfold setLine placeItem at h
  split at h
  · simp at h
  · rename_i split hlast
    have hid := dropLast_concat id split hlast
    refine numbered_modifyAt _ id.dropLast [] s s' hw (fun l0 l' hg hn hf => ?_) h
    simp only [List.nil_append] at hn ⊢
    split at hf
    · simp at hf
      subst hf
      apply numberedFrom_set _ _ 0 split _ hn
      simp only [Item.numbered, Nat.zero_add, hid, numberedFrom, Bool.and_true, decide_eq_true_eq]
    · simp at hf

/-! ### a visible line exists -/

/-- If a line sits at position `q`, every position `p` with `can_depend_on(q, p)` holds a line. -/
theorem visible_line_exists : ∀ (p q : IId) (s : Proof) (it : Item), findItem s q = some it →
    canDependOn q p = true → ∃ it', findItem s p = some it'
  | [], q, s, it, _, hc => by simp [canDependOn_nil_right] at hc
  | [o], q, s, it, hf, hc => by
    cases q with
    | nil => simp [findItem] at hf
    | cons a as =>
      simp [canDependOn] at hc
      have ha : a < s.length := by
        cases as with
        | nil =>
          simp [findItem] at hf
          rcases Nat.lt_or_ge a s.length with h1 | h1
          · exact h1
          · simp [List.getElem?_eq_none h1] at hf
        | cons j rest =>
          simp only [findItem] at hf
          rcases Nat.lt_or_ge a s.length with h1 | h1
          · exact h1
          · simp [List.getElem?_eq_none h1] at hf
      exact ⟨s[o]'(by omega), by simp [findItem]⟩
  | o :: o' :: os, q, s, it, hf, hc => by
    cases q with
    | nil => simp [findItem] at hf
    | cons a as =>
      rw [canDependOn_cons] at hc
      simp at hc
      obtain ⟨hao, hc'⟩ := hc
      subst hao
      cases as with
      | nil => simp [canDependOn_nil_left] at hc'
      | cons j rest =>
        simp only [findItem] at hf ⊢
        split at hf
        · rename_i x1 x2 x3 x4 sub hget
          exact visible_line_exists (o' :: os) (j :: rest) sub it hf hc'
        · simp at hf

/-! ### a found line carries the id of its position and admissible citations -/

theorem numbered_findItem : ∀ (q pre : IId) (items : List Item) (it : Item), numberedFrom pre 0 items = true →
    findItem items q = some it → it.id = pre ++ q
  | [], pre, items, it, _, h => by simp [findItem] at h
  | [i], pre, items, it, hw, h => by
    simp [findItem] at h
    have := numberedFrom_get pre items 0 i it hw h
    cases it
    simp only [Item.numbered, Bool.and_eq_true, decide_eq_true_eq, Nat.zero_add] at this
    simp [Item.id, this.1]
  | i :: j :: rest, pre, items, it, hw, h => by
    simp only [findItem] at h
    split at h
    · rename_i x1 x2 x3 x4 sub hget
      have hit := numberedFrom_get pre items 0 i _ hw hget
      simp only [Item.numbered, Bool.and_eq_true, decide_eq_true_eq, Nat.zero_add] at hit
      have := numbered_findItem (j :: rest) (pre ++ [i]) sub it hit.2 h
      simpa using this
    · simp at h

theorem citesOk_findItem : ∀ (q : IId) (items : List Item) (it : Item), citesOkList items = true →
    findItem items q = some it → (∀ x ∈ it.prevs, canDependOn it.id x = true)
  | [], items, it, _, h => by simp [findItem] at h
  | [i], items, it, hw, h => by
    simp [findItem] at h
    have := citesOkList_get items i it hw h
    cases it
    simp only [Item.citesOk, Bool.and_eq_true, List.all_eq_true] at this
    simpa [Item.prevs, Item.id] using this.1
  | i :: j :: rest, items, it, hw, h => by
    simp only [findItem] at h
    split at h
    · rename_i x1 x2 x3 x4 sub hget
      have hit := citesOkList_get items i _ hw hget
      simp only [Item.citesOk, Bool.and_eq_true] at hit
      exact citesOk_findItem (j :: rest) sub it hit.2 h
    · simp at h

/-! ### `subproof is None` lines have no subproof lines -/

mutual
theorem subOk_incr (s : IId) (n : Nat) : ∀ i : Item, Item.subOk (Item.incr s n i) = Item.subOk i
  | .mk id r p th h sub => by
    simp only [Item.incr, Item.subOk]
    rw [subOkList_incr s n sub]
    congr 2
    cases sub <;> simp [incrList]
theorem subOkList_incr (s : IId) (n : Nat) : ∀ l : List Item, subOkList (incrList s n l) = subOkList l
  | [] => by simp [incrList, subOkList]
  | i :: is => by simp only [incrList, subOkList]; rw [subOk_incr s n i, subOkList_incr s n is]
end

theorem subOkList_append : ∀ (a b : List Item), subOkList (a ++ b) = (subOkList a && subOkList b)
  | [], b => by simp [subOkList]
  | i :: is, b => by simp [subOkList, subOkList_append is b, Bool.and_assoc]

theorem subOkList_newLines (id : IId) (n : Nat) : subOkList (newLines id n) = true := by
  unfold newLines
  induction (List.range n) with
  | nil => simp [subOkList]
  | cons a as ih =>
    simp only [List.map, subOkList, Item.subOk]
    rw [ih]; simp [subOkList]

theorem subOkList_set : ∀ (l : List Item) (i : Nat) (x : Item), subOkList l = true → Item.subOk x = true →
    subOkList (l.set i x) = true
  | [], i, x, h, hx => by simp [subOkList]
  | a :: as, 0, x, h, hx => by simp [subOkList] at h ⊢; exact ⟨hx, h.2⟩
  | a :: as, i + 1, x, h, hx => by
    simp [subOkList] at h ⊢
    exact ⟨h.1, subOkList_set as i x h.2 hx⟩

theorem subOkList_get : ∀ (l : List Item) (i : Nat) (x : Item), subOkList l = true → l[i]? = some x →
    Item.subOk x = true
  | [], i, x, h, hx => by simp at hx
  | a :: as, 0, x, h, hx => by simp at hx; subst hx; simp [subOkList] at h; exact h.1
  | a :: as, i + 1, x, h, hx => by
    simp at hx; simp [subOkList] at h
    exact subOkList_get as i x h.2 hx

theorem subOk_modifyAt (f : List Item → Except Err (List Item))
    (hf : ∀ l l', subOkList l = true → f l = .ok l' → subOkList l' = true) :
    ∀ (path : List Nat) (items items' : List Item), subOkList items = true →
      modifyAt path f items = .ok items' → subOkList items' = true
  | [], items, items', hw, h => by simp [modifyAt] at h; exact hf _ _ hw h
  | i :: rest, items, items', hw, h => by
    simp only [modifyAt] at h
    split at h
    · simp at h
    · rename_i id r p th hs sub hget
      split at h
      · rename_i hhs
        split at h
        · rename_i sub' hsub
          simp at h; subst h
          have hit := subOkList_get items i _ hw hget
          simp only [Item.subOk, Bool.and_eq_true] at hit
          have ih := subOk_modifyAt f hf rest sub sub' hit.2 hsub
          apply subOkList_set _ _ _ hw
          simp only [Item.subOk, Bool.and_eq_true]
          exact ⟨by simp [hhs], ih⟩
        · simp at h
      · simp at h

theorem subOk_addLineBefore (s s' : Proof) (id : IId) (n : Nat) (hw : subOkList s = true)
    (h : addLineBefore s id n = .ok s') : subOkList s' = true := by
  unfold addLineBefore at h
  split at h
  · simp at h
  · rename_i split hlast
    exact subOk_modifyAt _ (fun l l' hl hf => by
      simp at hf; subst hf
      rw [subOkList_append, subOkList_append, subOkList_newLines, subOkList_incr]
      have := subOkList_append (l.take split) (l.drop split)
      rw [List.take_append_drop, hl] at this
      simp_all) _ _ _ hw h

theorem subOk_setLine (s s' : Proof) (id : IId) (r : Nat) (p : List IId) (th : Option Seq)
    (hw : subOkList s = true) (h : setLine s id r p th = .ok s') : subOkList s' = true := by
  unfold setLine placeItem at h
  split at h
  · simp at h
  · rename_i split hlast
    exact subOk_modifyAt _ (fun l l' hl hf => by
      split at hf
      · simp at hf; subst hf
        apply subOkList_set _ _ _ hl
        simp [Item.subOk, subOkList]
      · simp at hf) _ _ _ hw h

end Holpy.C13
