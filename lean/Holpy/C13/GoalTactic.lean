import Holpy.C13.TopSig
/-
Helper lemmas for C13: `apply_tactic` keeps the last top-level line (nested goals; both cases combined).
-/
namespace Holpy.C13

theorem decrId_length : ∀ (a r : IId), (decrId a r).length = a.length
  | [], r => by simp [decrId_nil]
  | a0 :: as, [] => by simp [decrId]
  | a0 :: as, s0 :: ss => by
    rw [decrId_cons]
    split <;> split <;> simp [decrId_length as ss]

theorem liveId_length (rem : List IId) (id : IId) : (liveId rem id).length = id.length := by
  induction rem generalizing id with
  | nil => simp [liveId]
  | cons r rs ih =>
    simp only [liveId, List.foldl_cons] at ih ⊢
    rw [ih]; exact decrId_length id r

theorem incrId_length : ∀ (id : IId) (n : Nat), (incrId id n).length = id.length
  | [], n => by simp [incrId]
  | [a], n => by simp [incrId]
  | a :: b :: as, n => by simp [incrId, incrId_length (b :: as) n]

theorem nested_dropLast : ∀ (id : IId), 2 ≤ id.length → ∃ i rest, id.dropLast = i :: rest
  | [], h => by simp at h
  | [a], h => by simp at h
  | a :: b :: rest, _ => ⟨a, (b :: rest).dropLast, by simp [List.dropLast]⟩

theorem sig_addLineBefore_nested (s s' : Proof) (id : IId) (n : Nat) (hn : 2 ≤ id.length)
    (h : addLineBefore s id n = .ok s') : s'.map sigOf = s.map sigOf := by
  obtain ⟨i, rest, hd⟩ := nested_dropLast id hn
  unfold addLineBefore at h
  split at h
  · simp at h
  · rw [hd] at h; exact sig_modifyAt_nested _ _ _ _ _ h

theorem sig_placeItem_nested (s s' : Proof) (id : IId) (it : Item) (hn : 2 ≤ id.length)
    (h : placeItem s id it = .ok s') : s'.map sigOf = s.map sigOf := by
  obtain ⟨i, rest, hd⟩ := nested_dropLast id hn
  unfold placeItem at h
  split at h
  · simp at h
  · rw [hd] at h; exact sig_modifyAt_nested _ _ _ _ _ h

theorem sig_replaceId_nested (s s' : Proof) (old new : IId) (hn : 2 ≤ old.length)
    (h : replaceId s old new = .ok s') : s'.map sigOf = s.map sigOf := by
  obtain ⟨i, rest, hd⟩ := nested_dropLast old hn
  unfold replaceId at h
  split at h
  · rename_i s1 h1
    rw [hd] at h1
    have a := sig_modifyAt_nested _ _ _ _ _ h1
    unfold removeLine at h
    split at h
    · simp at h
    · rw [hd] at h
      rw [sig_modifyAt_nested _ _ _ _ _ h, a]
  · simp at h

theorem placeAll_nested : ∀ (items : List Item) (s s' : Proof), (∀ it ∈ items, 2 ≤ it.id.length) →
    placeAll s items = .ok s' → s'.map sigOf = s.map sigOf
  | [], s, s', _, h => by simp [placeAll] at h; subst h; rfl
  | x :: xs, s, s', hn, h => by
    simp only [placeAll] at h
    split at h
    · rename_i s1 h1
      rw [placeAll_nested xs s1 s' (fun it hit => hn it (by simp [hit])) h,
        sig_placeItem_nested s s1 x.id x (hn x (by simp)) h1]
    · simp at h

theorem closeProved_nested : ∀ (new : List NewLine) (s : Proof) (rem : List IId) (acc : List Bool)
    (s' : Proof) (rem' : List IId) (fl : List Bool), (∀ l ∈ new, 2 ≤ l.item.id.length) →
    closeProved s rem acc new = .ok (s', rem', fl) → s'.map sigOf = s.map sigOf
  | [], s, rem, acc, s', rem', fl, _, h => by simp [closeProved] at h; rw [h.1]
  | l :: rest, s, rem, acc, s', rem', fl, hn, h => by
    have hn' : ∀ x ∈ rest, 2 ≤ x.item.id.length := fun x hx => hn x (by simp [hx])
    simp only [closeProved] at h
    split at h
    · split at h
      · simp at h
      · split at h
        · simp at h
        · split at h
          · simp at h
          · exact closeProved_nested rest _ _ _ _ _ _ hn' h
          · split at h
            · simp at h
            · rename_i s1 h1
              have := sig_replaceId_nested s s1 _ _ (by rw [liveId_length]; exact hn l (by simp)) h1
              rw [closeProved_nested rest _ _ _ _ _ _ hn' h, this]
    · exact closeProved_nested rest _ _ _ _ _ _ hn' h

theorem closeTrivial_nested : ∀ (ls : List (NewLine × Bool)) (s : Proof) (rem : List IId) (s' : Proof),
    (∀ x ∈ ls, 2 ≤ x.1.item.id.length) → closeTrivial s rem ls = .ok s' → s'.map sigOf = s.map sigOf
  | [], s, rem, s', _, h => by simp [closeTrivial] at h; subst h; rfl
  | (l, removed) :: rest, s, rem, s', hn, h => by
    have hn' : ∀ x ∈ rest, 2 ≤ x.1.item.id.length := fun x hx => hn x (by simp [hx])
    simp only [closeTrivial] at h
    split at h
    · split at h
      · simp at h
      · split at h
        · rename_i s1 h1
          have := sig_placeItem_nested s s1 _ _ (by rw [liveId_length]; exact hn (l, removed) (by simp)) h1
          rw [closeTrivial_nested rest _ _ _ hn' h, this]
        · simp at h
    · exact closeTrivial_nested rest _ _ _ hn' h

/-- The exported lines carry the ids `id, id+1, …` (`ProofTerm.export(prefix=id, subproof=False)`). -/
def exportedAt (id : IId) (new : List NewLine) : Prop :=
  ∀ k (h : k < new.length), (new[k]).item.id = incrId id k

theorem applyTactic_nested (s s' : Proof) (id : IId) (new : List NewLine) (hn : 2 ≤ id.length)
    (hid : exportedAt id new) (h : applyTactic s id new = .ok s') : s'.map sigOf = s.map sigOf := by
  have hnew : ∀ l ∈ new, 2 ≤ l.item.id.length := fun l hl => by
    obtain ⟨k, hk, e⟩ := List.getElem_of_mem hl
    rw [← e, hid k hk, incrId_length]; exact hn
  unfold applyTactic at h
  split at h
  · simp at h
  · split at h
    · simp at h
    · split at h
      · simp at h
      · split at h
        · simp at h
        · rename_i s1 h1
          split at h
          · simp at h
          · rename_i s2 h2
            split at h
            · simp at h
            · rename_i s3 rem flags h3
              have a := sig_addLineBefore_nested s s1 id _ hn h1
              have b := placeAll_nested _ s1 s2 (fun it hit => by
                simp only [List.mem_map] at hit
                obtain ⟨l, hl, e⟩ := hit
                rw [← e]; exact hnew l hl) h2
              have c := closeProved_nested new s2 [] [] s3 rem flags hnew h3
              have d := closeTrivial_nested _ s3 rem s' (fun x hx => hnew x.1 (List.of_mem_zip hx).1) h
              rw [d, c, b, a]

theorem getLast?_append_ne {α : Type} : ∀ (a b : List α), b ≠ [] → (a ++ b).getLast? = b.getLast?
  | [], b, _ => by simp
  | x :: a, b, hb => by
    have ih := getLast?_append_ne a b hb
    cases hab : a ++ b with
    | nil => simp at hab; exact absurd hab.2 hb
    | cons y ys =>
      simp only [List.cons_append, hab, List.getLast?_cons_cons]
      rw [← hab]; exact ih

/-- `apply_tactic` keeps rule and stated sequent of the last top-level line, provided that line is
not itself a gap (it is the `intros` line stating the theorem; `apply_tactic` asserts that its
target is a gap). -/
theorem applyTactic_keeps_last (s s' : Proof) (id : IId) (new : List NewLine)
    (hid : exportedAt id new)
    (hlast : ∀ it, s.getLast? = some it → it.rule ≠ ruleSorry)
    (h : applyTactic s id new = .ok s') : (s'.getLast?).map sigOf = (s.getLast?).map sigOf := by
  have h0 := h
  unfold applyTactic at h0
  split at h0
  · simp at h0
  · rename_i cur hcur
    split at h0
    · simp at h0
    · rename_i hrule
      simp at hrule
      match id, hcur, hid, h with
      | [], hcur, _, _ => simp [findItem] at hcur
      | [k], hcur, hid, h =>
        have hget : s[k]? = some cur := by simpa [findItem] using hcur
        have hk : k < s.length := by
          rcases Nat.lt_or_ge k s.length with h1 | h1
          · exact h1
          · simp [List.getElem?_eq_none h1] at hget
        have hk1 : k + 1 < s.length := by
          rcases Nat.lt_or_ge (k + 1) s.length with h1 | h1
          · exact h1
          · exfalso
            have hkl : k = s.length - 1 := by omega
            have : s.getLast? = some cur := by
              rw [List.getLast?_eq_getElem?, ← hkl]; exact hget
            exact hlast cur this hrule
        obtain ⟨X, hX⟩ := applyTactic_top s s' k new cur hcur hid h
        rw [← List.getLast?_map, ← List.getLast?_map, hX]
        have hne : (s.map sigOf).drop (k + 1) ≠ [] := by simp; omega
        rw [getLast?_append_ne _ _ hne, List.getLast?_drop]
        simp
        intro hle
        omega
      | i :: j :: rest, _, hid, h =>
        exact getLast?_of_map_sig _ _ (applyTactic_nested s s' (i :: j :: rest) new (by simp) hid h)

/-- The last top-level line is not a gap. -/
def lastNotGap (s : Proof) : Prop := ∀ it, s.getLast? = some it → it.rule ≠ ruleSorry

/-- Preconditions for all five operations: as `goalSafe` for the primitives; for `apply_tactic`
the numbering of the exported lines and that the last line is not a gap (then the gap it is
applied to is another line). -/
def goalSafeAll (s : Proof) : Op → Prop
  | .applyTactic id new => exportedAt id new ∧ lastNotGap s
  | op => goalSafe s op

def safeRunAll : Proof → List Op → Prop
  | _, [] => True
  | s, op :: ops => goalSafeAll s op ∧ ∀ s1, step s op = .ok s1 → safeRunAll s1 ops

theorem goal_preserved_step_all (s s' : Proof) (op : Op) (hs : goalSafeAll s op) (h : step s op = .ok s') :
    (s'.getLast?).map sigOf = (s.getLast?).map sigOf := by
  cases op with
  | applyTactic id new => exact applyTactic_keeps_last s s' id new hs.1 hs.2 h
  | addLineBefore id n => exact goal_preserved_step s s' (.addLineBefore id n) (by simpa [goalSafeAll] using hs) h
  | removeLine id => exact goal_preserved_step s s' (.removeLine id) (by simpa [goalSafeAll] using hs) h
  | setLine id r p th => exact goal_preserved_step s s' (.setLine id r p th) (by simpa [goalSafeAll] using hs) h
  | replaceId o n => exact goal_preserved_step s s' (.replaceId o n) (by simpa [goalSafeAll] using hs) h

theorem goal_preserved_run_all : ∀ (ops : List Op) (s s' : Proof), safeRunAll s ops → run s ops = .ok s' →
    (s'.getLast?).map sigOf = (s.getLast?).map sigOf
  | [], s, s', _, h => by simp [run] at h; subst h; rfl
  | op :: ops, s, s', hs, h => by
    simp only [run] at h
    split at h
    · rename_i s1 h1
      rw [goal_preserved_run_all ops s1 s' (hs.2 s1 h1) h, goal_preserved_step_all s s1 op hs.1 h1]
    · simp at h

theorem lastNotGap_of_sig (s s' : Proof) (h : (s'.getLast?).map sigOf = (s.getLast?).map sigOf)
    (hs : lastNotGap s) : lastNotGap s' := by
  intro it hit
  rw [hit] at h
  cases hl : s.getLast? with
  | none => rw [hl] at h; simp at h
  | some it0 =>
    rw [hl] at h
    simp [sigOf] at h
    rw [h.1]; exact hs it0 hl

/-- A sequence of tactic applications (goal id, exported lines). -/
def runTactics : Proof → List (IId × List NewLine) → Except Err Proof
  | s, [] => .ok s
  | s, (id, new) :: rest =>
    match applyTactic s id new with
    | .ok s1 => runTactics s1 rest
    | .error e => .error e

theorem runTactics_keeps_last : ∀ (ts : List (IId × List NewLine)) (s s' : Proof),
    (∀ t ∈ ts, exportedAt t.1 t.2) → lastNotGap s → runTactics s ts = .ok s' →
    (s'.getLast?).map sigOf = (s.getLast?).map sigOf
  | [], s, s', _, _, h => by simp [runTactics] at h; subst h; rfl
  | (id, new) :: rest, s, s', hid, hl, h => by
    simp only [runTactics] at h
    split at h
    · rename_i s1 h1
      have a := applyTactic_keeps_last s s1 id new (hid (id, new) (by simp)) hl h1
      rw [runTactics_keeps_last rest s1 s' (fun t ht => hid t (by simp [ht])) (lastNotGap_of_sig s s1 a hl) h, a]
    · simp at h

end Holpy.C13
