import Holpy.C13.Model
/-
C13 — structural model of the textual round trip (import-free):
`ProofState.export_proof` (`printer.export_proof_item`: a line, then the lines of its subproof) and
`server.parse_proof` (`Proof.insert_item` for every line in order).  Rule names, arguments and
sequents are opaque: a line keeps id, rule code, citations and sequent code; that the printed
arguments / sequents read back is C07's subject.
-/
namespace Holpy.C13

structure Line where
  id : IId
  rule : Nat
  prevs : List IId
  th : Option Seq
  deriving Repr, Inhabited, DecidableEq

mutual
/-- `export_proof_item(item)`. -/
def Item.export : Item → List Line
  | .mk id r p th _ sub => ⟨id, r, p, th⟩ :: exportLines sub
/-- `sum([export_proof_item(item) for item in items], [])`. -/
def exportLines : List Item → List Line
  | [] => []
  | i :: is => Item.export i ++ exportLines is
end

/-- `Proof.insert_item(item)`: follow `item.id[:-1]` (creating an empty subproof where there is
none), require `item.id[-1] == len(items)` there, append. -/
def insertAt (ln : Line) : List Nat → Nat → List Item → Except Err (List Item)
  | [], last, items =>
    if last = items.length then .ok (items ++ [.mk ln.id ln.rule ln.prevs ln.th false []])
    else .error .proofState
  | i :: rest, last, items =>
    match items[i]? with
    | none => .error .proofState
    | some (.mk id r p th _ sub) =>
      match insertAt ln rest last sub with
      | .ok sub' => .ok (items.set i (.mk id r p th true sub'))
      | .error e => .error e

def insertItem (s : Proof) (ln : Line) : Except Err Proof :=
  match ln.id.getLast? with
  | none => .error .index
  | some last => insertAt ln ln.id.dropLast last s

/-- `parse_proof(lines)` as far as the structure goes. -/
def importLines : Proof → List Line → Except Err Proof
  | s, [] => .ok s
  | s, ln :: rest =>
    match insertItem s ln with
    | .ok s1 => importLines s1 rest
    | .error e => .error e

end Holpy.C13
