import Holpy.C13.Numbering
/-
Helper lemmas for C13: citations under `remove_line` / `replace_id`.
-/
namespace Holpy.C13

theorem decrId_nil (s : IId) : decrId [] s = [] := by
  cases s with
  | nil => rfl
  | cons s0 ss => cases ss <;> rfl

theorem decrId_eq_nil (b s : IId) : decrId b s = [] ↔ b = [] := by
  cases b with
  | nil => simp [decrId_nil]
  | cons b0 bs =>
    cases s with
    | nil => simp [decrId]
    | cons s0 ss =>
      rw [decrId_cons]
      split <;> split <;> simp

/-- Closing the gap at `rm` keeps a citation admissible unless it is the removed line itself. -/
theorem canDependOn_decr : ∀ (rm a b : IId), rm ≠ [] → canDependOn a b = true → b ≠ rm →
    canDependOn (decrId a rm) (decrId b rm) = true
  | [], _, _, h, _, _ => absurd rfl h
  | s0 :: ss, a, b, _, hc, hb => by
    cases a with
    | nil => simp [canDependOn_nil_left] at hc
    | cons a0 as =>
      cases b with
      | nil => simp [canDependOn_nil_right] at hc
      | cons b0 bs =>
        rw [canDependOn_cons] at hc
        rw [decrId_cons, decrId_cons]
        by_cases hss : ss = []
        · subst hss
          simp only [if_true]
          by_cases hbs : bs = []
          · subst hbs
            simp at hc
            have hb0 : b0 ≠ s0 := by intro e; subst e; exact hb rfl
            split <;> split <;> simp [canDependOn] <;> omega
          · simp only [hbs, if_false, Bool.and_eq_true, beq_iff_eq] at hc
            obtain ⟨e, hc'⟩ := hc
            subst e
            split <;> simp [canDependOn_cons, hbs, hc']
        · simp only [hss, if_false]
          by_cases hbs : bs = []
          · subst hbs
            simp at hc
            split <;> split <;> simp [canDependOn_cons, decrId_nil, hc]
          · simp only [hbs, if_false, Bool.and_eq_true, beq_iff_eq] at hc
            obtain ⟨e, hc'⟩ := hc
            subst e
            by_cases ha : a0 = s0
            · subst ha
              have hbs' : bs ≠ ss := by intro e; subst e; exact hb rfl
              have ih := canDependOn_decr ss as bs hss hc' hbs'
              simp [canDependOn_cons, decrId_eq_nil, hbs, ih]
            · simp [ha, canDependOn_cons, hbs, hc']

theorem canDependOn_irrefl : ∀ (a : IId), canDependOn a a = false
  | [] => rfl
  | [a0] => by simp [canDependOn]
  | a0 :: a1 :: as => by
    rw [canDependOn_cons]
    simp [canDependOn_irrefl (a1 :: as)]

/-! ### no line cites `rm` -/

mutual
def Item.notCited (rm : IId) : Item → Bool
  | .mk _ _ p _ _ sub => p.all (fun x => decide (x ≠ rm)) && notCitedList rm sub
def notCitedList (rm : IId) : List Item → Bool
  | [] => true
  | i :: is => Item.notCited rm i && notCitedList rm is
end

mutual
theorem citesOk_decr (rm : IId) (hrm : rm ≠ []) : ∀ i : Item, Item.citesOk i = true → Item.notCited rm i = true →
    Item.citesOk (Item.decr rm i) = true
  | .mk id r p th h sub, hw, hn => by
    simp only [Item.citesOk, Bool.and_eq_true, List.all_eq_true] at hw
    simp only [Item.notCited, Bool.and_eq_true, List.all_eq_true, decide_eq_true_eq] at hn
    simp only [Item.decr, Item.citesOk, Bool.and_eq_true, List.all_map, List.all_eq_true]
    refine ⟨fun x hx => ?_, citesOkList_decr rm hrm sub hw.2 hn.2⟩
    exact canDependOn_decr rm id x hrm (hw.1 x hx) (hn.1 x hx)
theorem citesOkList_decr (rm : IId) (hrm : rm ≠ []) : ∀ l : List Item, citesOkList l = true → notCitedList rm l = true →
    citesOkList (decrList rm l) = true
  | [], _, _ => by simp [decrList, citesOkList]
  | i :: is, hw, hn => by
    simp only [citesOkList, Bool.and_eq_true] at hw
    simp only [notCitedList, Bool.and_eq_true] at hn
    simp only [decrList, citesOkList, Bool.and_eq_true]
    exact ⟨citesOk_decr rm hrm i hw.1 hn.1, citesOkList_decr rm hrm is hw.2 hn.2⟩
end

mutual
theorem notCited_replace (o n : IId) (hne : n ≠ o) : ∀ i : Item, Item.notCited o (Item.replacePrev o n i) = true
  | .mk id r p th h sub => by
    simp only [Item.replacePrev, Item.notCited, Bool.and_eq_true, List.all_map, List.all_eq_true, decide_eq_true_eq]
    refine ⟨fun x _ => ?_, notCitedList_replace o n hne sub⟩
    simp only [Function.comp]
    split
    · simpa using hne
    · simpa
theorem notCitedList_replace (o n : IId) (hne : n ≠ o) : ∀ l : List Item, notCitedList o (replaceList o n l) = true
  | [] => by simp [replaceList, notCitedList]
  | i :: is => by
    simp only [replaceList, notCitedList, Bool.and_eq_true]
    exact ⟨notCited_replace o n hne i, notCitedList_replace o n hne is⟩
end

theorem notCitedList_drop (rm : IId) : ∀ (l : List Item) (k : Nat), notCitedList rm l = true →
    notCitedList rm (l.drop k) = true
  | l, 0, h => by simpa using h
  | [], k + 1, _ => by simp [notCitedList]
  | a :: as, k + 1, h => by
    simp only [notCitedList, Bool.and_eq_true] at h
    simpa using notCitedList_drop rm as k h.2

/-! ### through `modifyAt`, with the list reached by the path available to the leaf -/

theorem citesOk_modifyAt_at (f : List Item → Except Err (List Item)) :
    ∀ (path : List Nat) (items items' : List Item), citesOkList items = true →
      (∀ l l', getAt path items = some l → citesOkList l = true → f l = .ok l' → citesOkList l' = true) →
      modifyAt path f items = .ok items' → citesOkList items' = true
  | [], items, items', hw, hf, h => by simp [modifyAt] at h; exact hf _ _ (by simp [getAt]) hw h
  | i :: rest, items, items', hw, hf, h => by
    simp only [modifyAt] at h
    split at h
    · simp at h
    · rename_i id r p th hs sub hget
      split at h
      · rename_i hhs
        split at h
        · rename_i sub' hsub
          simp at h; subst h
          have hit := citesOkList_get items i _ hw hget
          simp only [Item.citesOk, Bool.and_eq_true] at hit
          have ih := citesOk_modifyAt_at f rest sub sub' hit.2 (fun l l' hg hl hfl => by
            apply hf l l' _ hl hfl
            simp only [getAt, hget]; subst hhs; exact hg) hsub
          apply citesOkList_set _ _ _ hw
          simp only [Item.citesOk, Bool.and_eq_true]
          exact ⟨hit.1, ih⟩
        · simp at h
      · simp at h

theorem getAt_modifyAt (f : List Item → Except Err (List Item)) :
    ∀ (path : List Nat) (items items' : List Item) (l : List Item), getAt path items = some l →
      modifyAt path f items = .ok items' → ∃ l', f l = .ok l' ∧ getAt path items' = some l'
  | [], items, items', l, hg, h => by
    simp [getAt] at hg; subst hg
    simp [modifyAt] at h
    exact ⟨items', h, by simp [getAt]⟩
  | i :: rest, items, items', l, hg, h => by
    simp only [modifyAt] at h
    split at h
    · simp at h
    · rename_i id r p th hs sub hget
      split at h
      · rename_i hhs
        split at h
        · rename_i sub' hsub
          simp at h; subst h
          subst hhs
          simp only [getAt, hget] at hg
          obtain ⟨l', h1, h2⟩ := getAt_modifyAt f rest sub sub' l hg hsub
          refine ⟨l', h1, ?_⟩
          have hi : i < items.length := by
            rcases Nat.lt_or_ge i items.length with h3 | h3
            · exact h3
            · simp [List.getElem?_eq_none h3] at hget
          simp only [getAt, List.getElem?_set_self hi]
          exact h2
        · simp at h
      · simp at h

/-! ### `remove_line` -/

theorem citesOk_removeLine (s s' : Proof) (id : IId) (hw : citesOkList s = true)
    (hleaf : ∀ l, getAt id.dropLast s = some l → notCitedList id l = true)
    (h : removeLine s id = .ok s') : citesOkList s' = true := by
  unfold removeLine at h
  split at h
  · simp at h
  · rename_i split hlast
    have hid : id ≠ [] := by intro e; subst e; simp at hlast
    refine citesOk_modifyAt_at _ id.dropLast s s' hw (fun l l' hg hl hf => ?_) h
    simp at hf; subst hf
    have hn := hleaf l hg
    have h1 := citesOkList_take_drop l split
    have h2 := citesOkList_take_drop l (split + 1)
    rw [hl] at h1 h2
    simp only [Bool.and_eq_true] at h1 h2
    rw [citesOkList_append, h1.1, Bool.true_and]
    exact citesOkList_decr id hid _ h2.2 (notCitedList_drop id l (split + 1) hn)

theorem numbered_removeLine_at (s s' : Proof) (id : IId) (l : List Item) (split : Nat)
    (hw : numberedFrom [] 0 s = true) (hlast : id.getLast? = some split)
    (hget : getAt id.dropLast s = some l) (hlt : split < l.length)
    (h : removeLine s id = .ok s') : numberedFrom [] 0 s' = true := by
  have hid := dropLast_concat id split hlast
  unfold removeLine at h
  rw [hlast] at h
  simp only at h
  refine numbered_modifyAt _ id.dropLast [] s s' hw (fun l0 l' hg hn hf => ?_) h
  rw [hget] at hg
  cases hg
  simp only [List.nil_append] at hn ⊢
  simp at hf
  subst hf
  obtain ⟨h1, _⟩ := numberedFrom_take_drop id.dropLast l 0 split (by omega) hn
  obtain ⟨_, h3⟩ := numberedFrom_take_drop id.dropLast l 0 (split + 1) (by omega) hn
  simp only [Nat.zero_add] at h3
  rw [numberedFrom_append, h1]
  have hl : (l.take split).length = split := by simp; omega
  simp only [hl, Nat.zero_add, Bool.true_and]
  have := numberedFrom_shift_down id.dropLast split (l.drop (split + 1)) (split + 1) (by omega) h3
  rw [hid] at this
  simpa using this

mutual
theorem subOk_decr (rm : IId) : ∀ i : Item, Item.subOk (Item.decr rm i) = Item.subOk i
  | .mk id r p th h sub => by
    simp only [Item.decr, Item.subOk]
    rw [subOkList_decr rm sub]
    congr 2
    cases sub <;> simp [decrList]
theorem subOkList_decr (rm : IId) : ∀ l : List Item, subOkList (decrList rm l) = subOkList l
  | [] => by simp [decrList, subOkList]
  | i :: is => by simp only [decrList, subOkList]; rw [subOk_decr rm i, subOkList_decr rm is]
end

theorem subOkList_drop : ∀ (l : List Item) (k : Nat), subOkList l = true → subOkList (l.drop k) = true
  | l, 0, h => by simpa using h
  | [], k + 1, _ => by simp [subOkList]
  | a :: as, k + 1, h => by
    simp only [subOkList, Bool.and_eq_true] at h
    simpa using subOkList_drop as k h.2

theorem subOkList_take : ∀ (l : List Item) (k : Nat), subOkList l = true → subOkList (l.take k) = true
  | l, 0, _ => by simp [subOkList]
  | [], k + 1, _ => by simp [subOkList]
  | a :: as, k + 1, h => by
    simp only [subOkList, Bool.and_eq_true] at h
    simp only [List.take_succ_cons, subOkList, Bool.and_eq_true]
    exact ⟨h.1, subOkList_take as k h.2⟩

theorem subOk_removeLine (s s' : Proof) (id : IId) (hw : subOkList s = true)
    (h : removeLine s id = .ok s') : subOkList s' = true := by
  unfold removeLine at h
  split at h
  · simp at h
  · rename_i split hlast
    exact subOk_modifyAt _ (fun l l' hl hf => by
      simp at hf; subst hf
      rw [subOkList_append, subOkList_decr, subOkList_take l split hl, subOkList_drop l (split + 1) hl]
      rfl) _ _ _ hw h

/-! ### `replace_id` -/

mutual
theorem numbered_replace (o n : IId) : ∀ (i : Item) (pos : IId), Item.numbered pos (Item.replacePrev o n i) = Item.numbered pos i
  | .mk id r p th h sub, pos => by
    simp only [Item.replacePrev, Item.numbered]
    rw [numberedFrom_replace o n sub pos 0]
theorem numberedFrom_replace (o n : IId) : ∀ (l : List Item) (pre : IId) (k : Nat),
    numberedFrom pre k (replaceList o n l) = numberedFrom pre k l
  | [], pre, k => by simp [replaceList, numberedFrom]
  | i :: is, pre, k => by
    simp only [replaceList, numberedFrom]
    rw [numbered_replace o n i, numberedFrom_replace o n is]
end

mutual
theorem subOk_replace (o n : IId) : ∀ i : Item, Item.subOk (Item.replacePrev o n i) = Item.subOk i
  | .mk id r p th h sub => by
    simp only [Item.replacePrev, Item.subOk]
    rw [subOkList_replace o n sub]
    congr 2
    cases sub <;> simp [replaceList]
theorem subOkList_replace (o n : IId) : ∀ l : List Item, subOkList (replaceList o n l) = subOkList l
  | [] => by simp [replaceList, subOkList]
  | i :: is => by simp only [replaceList, subOkList]; rw [subOk_replace o n i, subOkList_replace o n is]
end

theorem replaceList_length (o n : IId) : ∀ l : List Item, (replaceList o n l).length = l.length
  | [] => by simp [replaceList]
  | i :: is => by simp [replaceList, replaceList_length o n is]

/-- `replace_id(old, new)` of an existing line `old` by a line `new` visible from it preserves
well-formedness. -/
theorem wf_replaceId (s s' : Proof) (old new : IId) (cur : Item) (hw : wf s = true)
    (hex : findItem s old = some cur) (hvis : canDependOn old new = true)
    (h : replaceId s old new = .ok s') : wf s' = true := by
  have hw' : numberedFrom [] 0 s = true ∧ citesOkList s = true ∧ subOkList s = true := by
    simpa [wf, Bool.and_eq_true, and_assoc] using hw
  obtain ⟨l, split, hlast, hget, hcl⟩ := findItem_getAt old s cur hex
  have hlt : split < l.length := by
    rcases Nat.lt_or_ge split l.length with h1 | h1
    · exact h1
    · simp [List.getElem?_eq_none h1] at hcl
  have hne : new ≠ old := by
    intro e; subst e; rw [canDependOn_irrefl] at hvis; simp at hvis
  unfold replaceId at h
  split at h
  · rename_i s1 h1
    obtain ⟨l1, hl1, hg1⟩ := getAt_modifyAt _ old.dropLast s s1 l hget h1
    simp at hl1; subst hl1
    have n1 : numberedFrom [] 0 s1 = true :=
      numbered_modifyAt _ old.dropLast [] s s1 hw'.1 (fun l0 l' _ hn hf => by
        simp at hf; subst hf; rw [numberedFrom_replace]; exact hn) h1
    have c1 : citesOkList s1 = true :=
      citesOk_modifyAt _ (fun l0 l' hl hf => by
        simp at hf; subst hf; exact citesOkList_replace old new hvis l0 hl) _ _ _ hw'.2.1 h1
    have b1 : subOkList s1 = true :=
      subOk_modifyAt _ (fun l0 l' hl hf => by
        simp at hf; subst hf; rw [subOkList_replace]; exact hl) _ _ _ hw'.2.2 h1
    have n2 := numbered_removeLine_at s1 s' old _ split n1 hlast hg1 (by rw [replaceList_length]; exact hlt) h
    have c2 := citesOk_removeLine s1 s' old c1 (fun l0 hg0 => by
      rw [hg1] at hg0; cases hg0; exact notCitedList_replace old new hne l) h
    have b2 := subOk_removeLine s1 s' old b1 h
    simp [wf, n2, c2, b2]
  · simp at h

end Holpy.C13
