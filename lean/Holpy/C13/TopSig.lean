import Holpy.C13.Live
import Holpy.C13.Goal
/-
Helper lemmas for C13: rule and stated sequent of the top-level lines under `apply_tactic` whose
goal is a top-level line.
-/
namespace Holpy.C13

abbrev Sig := Nat × Option Seq

theorem sig_replaceId_top (s s' : Proof) (c : Nat) (n : IId) (h : replaceId s [c] n = .ok s') :
    s'.map sigOf = (s.map sigOf).eraseIdx c := by
  simp [replaceId, modifyAt, removeLine] at h
  subst h
  rw [decrList_eq_map, replaceList_eq_map, List.eraseIdx_eq_take_drop_succ]
  simp [List.map_take, List.map_drop, Function.comp_def, sigOf_decr, sigOf_replace]

theorem sig_placeItem_top (s s' : Proof) (c : Nat) (it : Item) (h : placeItem s [c] it = .ok s') :
    c < s.length ∧ s'.map sigOf = (s.map sigOf).set c (sigOf it) := by
  simp only [placeItem, List.getLast?_singleton, List.dropLast_singleton, modifyAt] at h
  split at h
  · rename_i hlt
    simp at h; subst h
    exact ⟨hlt, by rw [List.map_set]⟩
  · simp at h

theorem map_sig_newLines (id : IId) (n : Nat) :
    (newLines id n).map sigOf = List.replicate n (ruleEmpty, none) := by
  unfold newLines
  rw [List.map_map]
  have : (sigOf ∘ fun i => Item.mk (incrId id i) ruleEmpty [] none false []) = fun _ => (ruleEmpty, none) := by
    funext i; simp [sigOf, Item.rule, Item.th]
  rw [this]
  simp [List.map_const']

theorem map_sig_incr (st : IId) (n : Nat) (l : List Item) : (l.map (Item.incr st n)).map sigOf = l.map sigOf := by
  rw [List.map_map]
  congr 1
  funext i
  simp [sigOf_incr]

theorem sig_addLineBefore_top (s s' : Proof) (k n : Nat) (h : addLineBefore s [k] n = .ok s') :
    s'.map sigOf = (s.map sigOf).take k ++ List.replicate n (ruleEmpty, none) ++ (s.map sigOf).drop k := by
  simp [addLineBefore, modifyAt] at h
  subst h
  rw [incrList_eq_map]
  simp only [List.map_append, map_sig_newLines, map_sig_incr, List.map_take, List.map_drop, List.append_assoc]

/-! ### the placement loop -/

theorem placeAll_top (k : Nat) (sa sb : List Sig) (hsa : sa.length = k) :
    ∀ (items : List Item) (i : Nat) (s s' : Proof) (X : List Sig),
      (∀ j (h : j < items.length), (items[j]).id = [k + i + j]) →
      s.map sigOf = sa ++ X ++ sb → i + items.length ≤ X.length →
      placeAll s items = .ok s' →
      ∃ X', s'.map sigOf = sa ++ X' ++ sb ∧ X'.length = X.length
  | [], i, s, s', X, _, hs, _, h => by
    simp [placeAll] at h; subst h
    exact ⟨X, hs, rfl⟩
  | x :: xs, i, s, s', X, hid, hs, hlen, h => by
    simp only [placeAll] at h
    split at h
    · rename_i s1 h1
      have hx : x.id = [k + i] := hid 0 (by simp)
      rw [hx] at h1
      obtain ⟨_, hsig⟩ := sig_placeItem_top s s1 (k + i) x h1
      have hi : i < X.length := by simp at hlen; omega
      rw [hs, ← hsa, set_mid sa X sb i (sigOf x) hi] at hsig
      obtain ⟨X', h1', h2'⟩ := placeAll_top k sa sb hsa xs (i + 1) s1 s' (X.set i (sigOf x))
        (fun j hj => by
          have := hid (j + 1) (by simp; omega)
          simp at this; rw [this]; congr 1; omega)
        hsig (by simp at hlen ⊢; omega) h
      exact ⟨X', h1', by simpa using h2'⟩
    · simp at h

/-! ### the two closing loops -/

theorem closeProved_top (k m : Nat) (sa sb : List Sig) (hsa : sa.length = k) :
    ∀ (rest : List NewLine) (fl : List Bool) (s : Proof) (rem : List IId) (X : List Sig)
      (s' : Proof) (rem' : List IId) (flags : List Bool),
      (∀ i (h : i < rest.length), (rest[i]).item.id = [k + fl.length + i]) →
      fl.length + rest.length = m → LiveInv [] k rem fl →
      s.map sigOf = sa ++ X ++ sb → X.length + rem.length = m →
      closeProved s rem fl.reverse rest = .ok (s', rem', flags) →
      ∃ X', s'.map sigOf = sa ++ X' ++ sb ∧ X'.length + rem'.length = m ∧ LiveInv [] k rem' flags ∧
        flags.length = m
  | [], fl, s, rem, X, s', rem', flags, _, hm, hinv, hs, hx, h => by
    simp [closeProved] at h
    obtain ⟨e1, e2, e3⟩ := h
    subst e1; subst e2; subst e3
    exact ⟨X, hs, hx, hinv, by simpa using hm⟩
  | l :: rest, fl, s, rem, X, s', rem', flags, hid, hm, hinv, hs, hx, h => by
    have hl : l.item.id = [k + fl.length] := by
      have := hid 0 (by simp)
      simpa using this
    have hid' : ∀ i (h : i < rest.length), (rest[i]).item.id = [k + (fl ++ [false]).length + i] := fun i hi => by
      have := hid (i + 1) (by simp; omega)
      simp at this ⊢; rw [this]; congr 1; omega
    have hid'' : ∀ i (h : i < rest.length), (rest[i]).item.id = [k + (fl ++ [true]).length + i] := by
      simpa using hid'
    have hm' : (fl ++ [false]).length + rest.length = m := by simp at hm ⊢; omega
    have hm'' : (fl ++ [true]).length + rest.length = m := by simp at hm ⊢; omega
    have racc : ∀ b, b :: fl.reverse = (fl ++ [b]).reverse := by intro b; simp
    simp only [closeProved] at h
    split at h
    · split at h
      · simp at h
      · split at h
        · simp at h
        · split at h
          · simp at h
          · rw [racc] at h
            exact closeProved_top k m sa sb hsa rest _ s rem X s' rem' flags hid' hm' hinv.keep hs hx h
          · rename_i new hfg
            split at h
            · simp at h
            · rename_i s1 h1
              rw [racc] at h
              have hcur : liveId rem l.item.id = [k + fl.length - rem.length] := by
                rw [hl]; simpa using hinv.fut (k + fl.length) (Nat.le_refl _)
              rw [hcur] at h1 h
              have hsig := sig_replaceId_top s s1 _ new h1
              have hq := hinv.rem_le
              have ht : fl.length - rem.length < X.length := by simp at hm; omega
              have he : k + fl.length - rem.length = sa.length + (fl.length - rem.length) := by omega
              rw [hs, he, eraseIdx_mid sa X sb _ ht] at hsig
              have hinv' := hinv.remove (P := [])
              simp only [List.nil_append] at hinv'
              rw [← hl, hcur] at hinv'
              exact closeProved_top k m sa sb hsa rest _ s1 _ _ s' rem' flags hid'' hm'' hinv' hsig
                (by simp [List.length_eraseIdx, ht]; omega) h
    · rw [racc] at h
      exact closeProved_top k m sa sb hsa rest _ s rem X s' rem' flags hid' hm' hinv.keep hs hx h

theorem closeTrivial_top (k m : Nat) (sa sb : List Sig) (hsa : sa.length = k) (rem : List IId) (flags : List Bool)
    (hinv : LiveInv [] k rem flags) (hfm : flags.length = m) :
    ∀ (ls : List (NewLine × Bool)) (j : Nat) (s s' : Proof) (X : List Sig),
      (∀ i (h : i < ls.length), (ls[i]).1.item.id = [k + j + i] ∧ flags[j + i]? = some (ls[i]).2) →
      s.map sigOf = sa ++ X ++ sb → X.length + rem.length = m →
      closeTrivial s rem ls = .ok s' → ∃ X', s'.map sigOf = sa ++ X' ++ sb ∧ X'.length = X.length
  | [], j, s, s', X, _, hs, _, h => by
    simp [closeTrivial] at h; subst h; exact ⟨X, hs, rfl⟩
  | (l, removed) :: rest, j, s, s', X, hid, hs, hx, h => by
    have h0 := hid 0 (by simp)
    simp at h0
    have hid' : ∀ i (h : i < rest.length), (rest[i]).1.item.id = [k + (j + 1) + i] ∧ flags[j + 1 + i]? = some (rest[i]).2 :=
      fun i hi => by
        have := hid (i + 1) (by simp; omega)
        simp at this
        refine ⟨by rw [this.1]; congr 1; omega, ?_⟩
        have e : j + 1 + i = j + (i + 1) := by omega
        rw [e]; exact this.2
    simp only [closeTrivial] at h
    split at h
    · rename_i hc
      simp at hc
      obtain ⟨⟨_, hrem⟩, _⟩ := hc
      subst hrem
      split at h
      · simp at h
      · rename_i th hth
        split at h
        · rename_i s1 h1
          have hlive : liveId rem l.item.id = [k + (flags.take j).count false] := by
            rw [h0.1]; simpa using hinv.kept j h0.2
          rw [hlive] at h1
          obtain ⟨_, hsig⟩ := sig_placeItem_top s s1 _ _ h1
          have hcf := count_take_lt flags j h0.2
          have hc := count_true_false flags
          have hl := hinv.len
          have ht : (flags.take j).count false < X.length := by omega
          have he : k + (flags.take j).count false = sa.length + (flags.take j).count false := by omega
          rw [hs, he, set_mid sa X sb _ _ ht] at hsig
          obtain ⟨X', a, b⟩ := closeTrivial_top k m sa sb hsa rem flags hinv hfm rest (j + 1) s1 s' _ hid' hsig
            (by simpa using hx) h
          exact ⟨X', a, by simpa using b⟩
        · simp at h
    · exact closeTrivial_top k m sa sb hsa rem flags hinv hfm rest (j + 1) s s' X hid' hs hx h

/-- `apply_tactic` on a top-level goal `[k]`: rule and sequent of every other top-level line stay
as they are, in place; only the goal line is replaced by a segment `X` (the surviving lines of the
proof term). -/
theorem applyTactic_top (s s' : Proof) (k : Nat) (new : List NewLine) (cur : Item)
    (hcur : findItem s [k] = some cur)
    (hid : ∀ i (h : i < new.length), (new[i]).item.id = incrId [k] i)
    (h : applyTactic s [k] new = .ok s') :
    ∃ X, s'.map sigOf = (s.map sigOf).take k ++ X ++ (s.map sigOf).drop (k + 1) := by
  have hk : k < s.length := by
    simp [findItem] at hcur
    rcases Nat.lt_or_ge k s.length with h1 | h1
    · exact h1
    · simp [List.getElem?_eq_none h1] at hcur
  have hid' : ∀ i (h : i < new.length), (new[i]).item.id = [k + i] := fun i hi => by
    rw [hid i hi]; simp [incrId]
  unfold applyTactic at h
  rw [hcur] at h
  simp only at h
  split at h
  · simp at h
  · split at h
    · simp at h
    · rename_i hemp
      split at h
      · simp at h
      · rename_i s1 h1
        split at h
        · simp at h
        · rename_i s2 h2
          split at h
          · simp at h
          · rename_i s3 rem flags h3
            have hne : new.length ≠ 0 := by
              intro e; have : new = [] := by simpa using e
              subst this; simp at hemp
            have hkm : k < (s.map sigOf).length := by simpa using hk
            have hsa : ((s.map sigOf).take k).length = k := by simp; omega
            have hdrop : (s.map sigOf).drop k = (s.map sigOf)[k] :: (s.map sigOf).drop (k + 1) :=
              List.drop_eq_getElem_cons hkm
            have e1 := sig_addLineBefore_top s s1 k _ h1
            have e1' : s1.map sigOf = (s.map sigOf).take k ++
                (List.replicate (new.length - 1) (ruleEmpty, none) ++ [(s.map sigOf)[k]])
                ++ (s.map sigOf).drop (k + 1) := by
              rw [e1, hdrop]; simp
            obtain ⟨X1, a1, b1⟩ := placeAll_top k _ _ hsa (new.map (·.item)) 0 s1 s2 _
              (fun j hj => by simp at hj; simp [hid' j hj]) e1' (by simp; omega) h2
            have b1' : X1.length + ([] : List IId).length = new.length := by
              rw [b1]; simp; omega
            obtain ⟨X2, a2, b2, inv2, fl2⟩ := closeProved_top k new.length _ _ hsa new [] s2 [] X1 s3 rem flags
              (fun i hi => by simpa using hid' i hi) (by simp) (LiveInv.nil [] k) a1 b1' h3
            obtain ⟨X3, a3, _⟩ := closeTrivial_top k new.length _ _ hsa rem flags inv2 fl2 (new.zip flags) 0 s3 s' X2
              (fun i hi => by
                simp at hi
                have hi1 : i < new.length := by omega
                have hi2 : i < flags.length := by omega
                simp [List.getElem_zip, hid' i hi1, hi2]) a2 b2 h
            exact ⟨X3, a3⟩

end Holpy.C13
