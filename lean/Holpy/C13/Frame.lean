import Holpy.C13.GoalTactic
/-
Helper lemmas for C13: the frame of the editing operations — everything that is not a line of the
proof (item list) the operation works in, or below one of its lines, is left as it is.
-/
namespace Holpy.C13

/-- What a line is, apart from the lines of its subproof. -/
def headerOf (it : Item) : IId × Nat × List IId × Option Seq × Bool :=
  (it.id, it.rule, it.prevs, it.th, it.hasSub)

/-- Position `Q` is a line of the proof reached by `P`, or of a subproof below it. -/
def inside (P Q : IId) : Bool := decide (P.length < Q.length) && P.isPrefixOf Q

/-- Lines outside the proof at `P` read the same in `s'` as in `s`. -/
def Frame (P : IId) (s s' : Proof) : Prop :=
  ∀ Q, inside P Q = false → (findItem s' Q).map headerOf = (findItem s Q).map headerOf

theorem Frame.refl (P : IId) (s : Proof) : Frame P s s := fun _ _ => rfl

theorem Frame.trans {P : IId} {s s1 s2 : Proof} (a : Frame P s s1) (b : Frame P s1 s2) : Frame P s s2 :=
  fun Q hQ => by rw [b Q hQ, a Q hQ]

theorem inside_cons (i : Nat) (rest : IId) (j : Nat) (q : IId) :
    inside (i :: rest) (i :: j :: q) = inside rest (j :: q) := by
  simp [inside, List.isPrefixOf]

theorem frame_modifyAt (f : List Item → Except Err (List Item)) :
    ∀ (P : IId) (s s' : Proof), modifyAt P f s = .ok s' → Frame P s s'
  | [], s, s', _ => fun Q hQ => by
    cases Q with
    | nil => simp [findItem]
    | cons a q => simp [inside, List.isPrefixOf] at hQ
  | i :: rest, s, s', h => fun Q hQ => by
    simp only [modifyAt] at h
    split at h
    · simp at h
    · rename_i id r p th hs sub hget
      split at h
      · rename_i hhs
        split at h
        · rename_i sub' hsub
          simp at h; subst h
          subst hhs
          have hi : i < s.length := by
            rcases Nat.lt_or_ge i s.length with h3 | h3
            · exact h3
            · simp [List.getElem?_eq_none h3] at hget
          match Q with
          | [] => simp [findItem]
          | [j] =>
            simp only [findItem]
            by_cases hj : j = i
            · subst hj
              rw [List.getElem?_set_self hi, hget]
              simp [headerOf, Item.id, Item.rule, Item.prevs, Item.th, Item.hasSub]
            · rw [List.getElem?_set_ne (Ne.symm hj)]
          | j :: j' :: q =>
            simp only [findItem]
            by_cases hj : j = i
            · subst hj
              rw [List.getElem?_set_self hi, hget]
              simp only
              rw [inside_cons] at hQ
              exact frame_modifyAt f rest sub sub' hsub (j' :: q) hQ
            · rw [List.getElem?_set_ne (Ne.symm hj)]
        · simp at h
      · simp at h

theorem frame_addLineBefore (s s' : Proof) (id : IId) (n : Nat) (h : addLineBefore s id n = .ok s') :
    Frame id.dropLast s s' := by
  unfold addLineBefore at h
  split at h
  · simp at h
  · exact frame_modifyAt _ _ _ _ h

theorem frame_removeLine (s s' : Proof) (id : IId) (h : removeLine s id = .ok s') :
    Frame id.dropLast s s' := by
  unfold removeLine at h
  split at h
  · simp at h
  · exact frame_modifyAt _ _ _ _ h

theorem frame_placeItem (s s' : Proof) (id : IId) (it : Item) (h : placeItem s id it = .ok s') :
    Frame id.dropLast s s' := by
  unfold placeItem at h
  split at h
  · simp at h
  · exact frame_modifyAt _ _ _ _ h

theorem frame_replaceId (s s' : Proof) (old new : IId) (h : replaceId s old new = .ok s') :
    Frame old.dropLast s s' := by
  unfold replaceId at h
  split at h
  · rename_i s1 h1
    exact (frame_modifyAt _ _ _ _ h1).trans (frame_removeLine _ _ _ h)
  · simp at h

/-! ### `apply_tactic`: every id it touches lies in the parent proof of the goal -/

theorem decrId_dropLast : ∀ (a r : IId), a.length = r.length → (decrId a r).dropLast = a.dropLast
  | [], _, _ => by simp [decrId]
  | a :: as, [], h => by simp at h
  | [a], [s], _ => by simp only [decrId]; split <;> simp
  | a :: b :: as, [s], h => by simp at h
  | [a], s :: s' :: ss, h => by simp at h
  | a :: b :: as, s :: s' :: ss, h => by
    simp only [decrId]
    split
    · have ih := decrId_dropLast (b :: as) (s' :: ss) (by simpa using h)
      have hl := decrId_length (b :: as) (s' :: ss)
      match hd : decrId (b :: as) (s' :: ss) with
      | [] => rw [hd] at hl; simp at hl
      | x :: xs =>
        rw [hd] at ih
        simp only [List.dropLast_cons₂] at ih ⊢
        rw [ih]
    · rfl

theorem liveId_dropLast : ∀ (rem : List IId) (id : IId), (∀ r ∈ rem, r.length = id.length) →
    (liveId rem id).dropLast = id.dropLast
  | [], id, _ => by simp [liveId]
  | r :: rem, id, h => by
    have h1 : r.length = id.length := h r (by simp)
    have : liveId (r :: rem) id = liveId rem (decrId id r) := by simp [liveId]
    rw [this, liveId_dropLast rem (decrId id r) (fun x hx => by rw [decrId_length]; exact h x (by simp [hx])),
      decrId_dropLast id r h1.symm]

theorem incrId_dropLast : ∀ (id : IId) (n : Nat), (incrId id n).dropLast = id.dropLast
  | [], _ => by simp [incrId]
  | [a], n => by simp [incrId]
  | a :: b :: as, n => by
    have ih := incrId_dropLast (b :: as) n
    have hl := incrId_length (b :: as) n
    simp only [incrId]
    match hd : incrId (b :: as) n with
    | [] => rw [hd] at hl; simp at hl
    | x :: xs =>
      rw [hd] at ih
      simp only [List.dropLast_cons₂] at ih ⊢
      rw [ih]

theorem frame_placeAll (P : IId) : ∀ (items : List Item) (s s' : Proof), (∀ it ∈ items, it.id.dropLast = P) →
    placeAll s items = .ok s' → Frame P s s'
  | [], s, s', _, h => by simp [placeAll] at h; subst h; exact Frame.refl _ _
  | x :: xs, s, s', hn, h => by
    simp only [placeAll] at h
    split at h
    · rename_i s1 h1
      have a := frame_placeItem s s1 x.id x h1
      rw [hn x (by simp)] at a
      exact a.trans (frame_placeAll P xs s1 s' (fun it hit => hn it (by simp [hit])) h)
    · simp at h

theorem frame_closeProved (P : IId) (n : Nat) : ∀ (new : List NewLine) (s : Proof) (rem : List IId) (acc : List Bool)
    (s' : Proof) (rem' : List IId) (fl : List Bool),
    (∀ l ∈ new, l.item.id.dropLast = P ∧ l.item.id.length = n) → (∀ r ∈ rem, r.length = n) →
    closeProved s rem acc new = .ok (s', rem', fl) → Frame P s s' ∧ (∀ r ∈ rem', r.length = n)
  | [], s, rem, acc, s', rem', fl, _, hr, h => by
    simp [closeProved] at h
    rw [← h.1, ← h.2.1]
    exact ⟨Frame.refl _ _, hr⟩
  | l :: rest, s, rem, acc, s', rem', fl, hn, hr, h => by
    have hn' : ∀ x ∈ rest, x.item.id.dropLast = P ∧ x.item.id.length = n := fun x hx => hn x (by simp [hx])
    have hl := hn l (by simp)
    simp only [closeProved] at h
    split at h
    · split at h
      · simp at h
      · split at h
        · simp at h
        · split at h
          · simp at h
          · exact frame_closeProved P n rest _ _ _ _ _ _ hn' hr h
          · split at h
            · simp at h
            · rename_i s1 h1
              have a := frame_replaceId s s1 _ _ h1
              rw [liveId_dropLast rem _ (fun r hx => by rw [hr r hx, hl.2]), hl.1] at a
              have hr' : ∀ r ∈ rem ++ [liveId rem l.item.id], r.length = n := fun r hx => by
                simp only [List.mem_append, List.mem_singleton] at hx
                rcases hx with hx | hx
                · exact hr r hx
                · rw [hx, liveId_length]; exact hl.2
              obtain ⟨b, c⟩ := frame_closeProved P n rest _ _ _ _ _ _ hn' hr' h
              exact ⟨a.trans b, c⟩
    · exact frame_closeProved P n rest _ _ _ _ _ _ hn' hr h

theorem frame_closeTrivial (P : IId) (n : Nat) (rem : List IId) (hr : ∀ r ∈ rem, r.length = n) :
    ∀ (ls : List (NewLine × Bool)) (s s' : Proof),
    (∀ x ∈ ls, x.1.item.id.dropLast = P ∧ x.1.item.id.length = n) → closeTrivial s rem ls = .ok s' → Frame P s s'
  | [], s, s', _, h => by simp [closeTrivial] at h; subst h; exact Frame.refl _ _
  | (l, removed) :: rest, s, s', hn, h => by
    have hn' : ∀ x ∈ rest, x.1.item.id.dropLast = P ∧ x.1.item.id.length = n := fun x hx => hn x (by simp [hx])
    have hl := hn (l, removed) (by simp)
    simp only [closeTrivial] at h
    split at h
    · split at h
      · simp at h
      · split at h
        · rename_i s1 h1
          have a := frame_placeItem s s1 _ _ h1
          rw [liveId_dropLast rem _ (fun r hx => by rw [hr r hx, hl.2]), hl.1] at a
          exact a.trans (frame_closeTrivial P n rem hr rest s1 s' hn' h)
        · simp at h
    · exact frame_closeTrivial P n rem hr rest s s' hn' h

theorem frame_applyTactic (s s' : Proof) (id : IId) (new : List NewLine)
    (hid : exportedAt id new) (h : applyTactic s id new = .ok s') : Frame id.dropLast s s' := by
  have hnew : ∀ l ∈ new, l.item.id.dropLast = id.dropLast ∧ l.item.id.length = id.length := fun l hl => by
    obtain ⟨k, hk, e⟩ := List.getElem_of_mem hl
    rw [← e, hid k hk, incrId_length, incrId_dropLast]; exact ⟨rfl, rfl⟩
  unfold applyTactic at h
  split at h
  · simp at h
  · split at h
    · simp at h
    · split at h
      · simp at h
      · split at h
        · simp at h
        · rename_i s1 h1
          split at h
          · simp at h
          · rename_i s2 h2
            split at h
            · simp at h
            · rename_i s3 rem flags h3
              have a := frame_addLineBefore s s1 id _ h1
              have b := frame_placeAll id.dropLast _ s1 s2 (fun it hit => by
                simp only [List.mem_map] at hit
                obtain ⟨l, hl, e⟩ := hit
                rw [← e]; exact (hnew l hl).1) h2
              obtain ⟨c, hr⟩ := frame_closeProved id.dropLast id.length new s2 [] [] s3 rem flags hnew
                (fun r hx => by simp at hx) h3
              have d := frame_closeTrivial id.dropLast id.length rem hr _ s3 s'
                (fun x hx => hnew x.1 (List.of_mem_zip hx).1) h
              exact ((a.trans b).trans c).trans d

end Holpy.C13
