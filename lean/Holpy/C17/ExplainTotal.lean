import Holpy.C17.ForestRun
/-
C17 — helper lemmas, part 15: `explain` on two constants of the same class never raises KeyError,
never trips the `assert`, and its walks to the root never run out of steps.
-/
namespace Holpy.C17

theorem nodeAt_last (x : Cst) (o : Option Label) (r : Path) :
    nodeAt ((x, o) :: r) (((x, o) :: r).length - 1) = some (endOf x r) := by
  have := nodeAt_take x o r r.length (Nat.le_refl _)
  simpa using this

/-- `cur_path` is computed for any two entered constants of the same class. -/
theorem curPath_defined {s : State} (F : ForestInv s) {a b : Cst} (da : Dom s a) (db : Dom s b)
    (hab : repOf s a = repOf s b) : ∃ p, curPath s.forest a b = .ok p := by
  unfold curPath
  obtain ⟨ea, hea⟩ := (F.keys a).1 da
  obtain ⟨eb, heb⟩ := (F.keys b).1 db
  have h1 : ¬ ((aget s.forest a).isNone ∨ (aget s.forest b).isNone) := by simp [hea, heb]
  have h2 : ¬ (pathComplete s.forest s.forest.length a = false ∨ pathComplete s.forest s.forest.length b = false) := by
    simp [F.complete a, F.complete b]
  rw [if_neg h1, if_neg h2]
  dsimp only
  have ra := F.end_root da
  have rb := F.end_root db
  have heq : endOf a (pathGo s.forest s.forest.length a) = endOf b (pathGo s.forest s.forest.length b) :=
    F.roots _ _ ra.1 rb.1 (by rw [ra.2, rb.2, hab])
  have h3 : ¬ (nodeAt (pathToRoot s.forest a) ((pathToRoot s.forest a).length - 1) ≠
      nodeAt (pathToRoot s.forest b) ((pathToRoot s.forest b).length - 1)) := by
    unfold pathToRoot
    rw [nodeAt_last, nodeAt_last, heq]
    simp
  rw [if_neg h3]
  exact ⟨_, rfl⟩

/-- Every label on a `cur_path` is the label of a forest entry. -/
theorem labelsOf_chain (f : Forest) (x : Cst) (path : Path) (hc : IsChain f x path) :
    ∀ l ∈ labelsOf path, ∃ c p, aget f c = some (some (p, l)) := by
  induction path generalizing x with
  | nil => intro l hl; simp [labelsOf] at hl
  | cons e r ih =>
    obtain ⟨p, ol⟩ := e
    cases ol with
    | none => simp [IsChain] at hc
    | some l' =>
      simp only [IsChain] at hc
      intro l hl
      simp only [labelsOf, List.filterMap_cons, List.mem_cons] at hl
      rcases hl with hl | hl
      · subst hl; exact ⟨x, p, hc.1⟩
      · exact ih p hc.2 l hl

theorem isChain_take (f : Forest) (x : Cst) (path : Path) (hc : IsChain f x path) (k : Nat) : IsChain f x (path.take k) := by
  induction path generalizing x k with
  | nil => simp [IsChain]
  | cons e r ih =>
    obtain ⟨p, ol⟩ := e
    cases k with
    | zero => simp [IsChain]
    | succ k =>
      cases ol with
      | none => simp [IsChain] at hc
      | some l => simp only [List.take_succ_cons, IsChain] at hc ⊢; exact ⟨hc.1, ih p hc.2 k⟩

theorem curPath_labels (f : Forest) (a b : Cst) (path : List Label) (h : curPath f a b = .ok path) :
    ∀ l ∈ path, ∃ c p, aget f c = some (some (p, l)) := by
  unfold curPath at h
  split at h
  · cases h
  · split at h
    · cases h
    · dsimp only at h
      split at h
      · cases h
      · simp only [Except.ok.injEq] at h
        subst h
        intro l hl
        simp only [List.mem_append, List.mem_reverse, pathToRoot, List.drop_succ_cons, List.drop_zero] at hl
        rcases hl with hl | hl
        · exact labelsOf_chain f a _ (isChain_take f a _ (pathGo_isChain f f.length a) _) l hl
        · exact labelsOf_chain f b _ (isChain_take f b _ (pathGo_isChain f f.length b) _) l hl

/-- In a settled reachable state the argument pairs of every application label in the forest are entered
and in the same class. -/
def ArgsOK (s : State) : Prop :=
  ∀ c p e1 e2, aget s.forest c = some (some (p, .comb e1 e2)) →
    (Dom s e1.a1 ∧ Dom s e2.a1 ∧ repOf s e1.a1 = repOf s e2.a1) ∧
    (Dom s e1.a2 ∧ Dom s e2.a2 ∧ repOf s e1.a2 = repOf s e2.a2)

theorem argsOK_of {E : Eqn → Prop} {s : State} (S : Sound E s) (C : Complete E s) (hn : s.pending = []) : ArgsOK s := by
  intro c p e1 e2 h
  have ok := (S.forest c p _ h).1
  have d1 := C.domf e1 ok.1
  have d2 := C.domf e2 ok.2.1
  exact ⟨⟨d1.1, d2.1, C.cl_rep hn ok.2.2.1⟩, ⟨d1.2.1, d2.2.1, C.cl_rep hn ok.2.2.2⟩⟩

/-- `explain` can only fail by exhausting its recursion bound. -/
theorem explain_only_fuel {s : State} (F : ForestInv s) (A : ArgsOK s) (n : Nat) :
    ∀ a b res e, Dom s a → Dom s b → repOf s a = repOf s b → explain s.forest n a b res = .error e → e = .fuel := by
  induction n with
  | zero => intro a b res e _ _ _ h; simp [explain] at h; exact h.symm
  | succ n ih =>
    intro a b res e da db hab h
    unfold explain at h
    split at h
    · cases h
    · obtain ⟨path, hp⟩ := curPath_defined F da db hab
      rw [hp] at h
      dsimp only at h
      have hl := curPath_labels _ _ _ _ hp
      -- the loop over the labels
      have loop : ∀ (ls : List Label) (r : Res) (e' : Err), (∀ l ∈ ls, ∃ c p, aget s.forest c = some (some (p, l))) →
          explainPath (explain s.forest n) ls r = .error e' → e' = .fuel := by
        intro ls
        induction ls with
        | nil => intro r e' _ h'; simp [explainPath] at h'
        | cons l ls ihl =>
          intro r e' hls h'
          simp only [explainPath] at h'
          split at h'
          · next e'' he =>
            cases h'
            unfold explainArgs at he
            split at he
            · cases he
            · next e1 e2 =>
              obtain ⟨c, p, hcp⟩ := hls (.comb e1 e2) (by simp)
              have ao := A c p e1 e2 hcp
              split at he
              · next e3 h3 => cases he; exact ih _ _ _ _ ao.1.1 ao.1.2.1 ao.1.2.2 h3
              · exact ih _ _ _ _ ao.2.1 ao.2.2.1 ao.2.2.2 he
          · exact ihl _ _ (fun l hl => hls l (List.mem_cons_of_mem _ hl)) h'
      split at h
      · next e' he => cases h; exact loop path res _ hl he
      · cases h

end Holpy.C17
