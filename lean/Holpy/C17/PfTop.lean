import Holpy.C17.PfTotal
/-
C17 — helper lemmas, part 22: the statement about `pexplain` (core `explain` + `get_proofterm`) in an
arbitrary wrapper state satisfying the wrapper invariant and the invariant of `pts`.
-/
namespace Holpy.C17

theorem tcl_mono {E E' : Term → Term → Prop} (h : ∀ s t, E s t → E' s t) {x y : Term} (c : TCl E x y) : TCl E' x y := by
  induction c with
  | base hb => exact .base (h _ _ hb)
  | refl t => exact .refl t
  | symm _ ih => exact ih.symm
  | trans _ _ ih1 ih2 => exact ih1.trans ih2
  | app _ _ ih1 ih2 => exact .app ih1 ih2

/-- The caller's side of `merge(s, t, pt=q)`: `q` proves `s = t`. -/
def Contract (pops : List POp) : Prop := ∀ s t q, POp.merge s t (some q) ∈ pops → q.concl = some (s, t)

/-- allowed hypotheses: those of the proof terms given to `merge` -/
def HypOK (pops : List POp) (h : Term × Term) : Prop := ∃ s t q, POp.merge s t (some q) ∈ pops ∧ h ∈ q.hyps

/-- allowed gaps: merged equations, and the gaps of the proof terms given to `merge` -/
def GapOK (pops : List POp) (g : Term × Term) : Prop :=
  (∃ pt, POp.merge g.1 g.2 pt ∈ pops) ∨ ∃ s t q, POp.merge s t (some q) ∈ pops ∧ g ∈ q.gaps

theorem pexplain_spec (pops : List POp) (hc : Contract pops) (l r : Term) :
    (∀ res, (wexplain (prun pops).w l r).2 = .ok res → ∃ pf, (pexplain (prun pops) l r).2 = .ok (res, pf)) ∧
    (∀ res pf, (pexplain (prun pops) l r).2 = .ok (res, pf) →
      (wexplain (prun pops).w l r).2 = .ok res ∧ GoodPf (HypOK pops) (GapOK pops) pf l r) := by
  have W := prun_winv pops
  have P := prun_ptsOK pops
  generalize prun pops = p at W P
  obtain ⟨pw, ppts⟩ := p
  simp only [PtsOK] at P W
  unfold pexplain wexplain
  dsimp only
  obtain ⟨W1, G1⟩ := addTerm_inv l W
  obtain ⟨W2, G2⟩ := addTerm_inv r W1
  have keep : ∀ {a u}, aget pw.index a = some u → aget (addTerm r (addTerm l pw).1).1.index a = some u :=
    fun h => addTerm_index_keep W1 r (addTerm_index_keep W l h)
  generalize (addTerm l pw).1 = w1 at W1 G1 W2 G2 keep
  generalize (addTerm l pw).2 = kl at G1
  generalize (addTerm r w1).1 = w2 at W2 G2 keep
  generalize (addTerm r w1).2 = kr at G2
  have hl : aget w2.index kl = some l := (W2.rev_index _ _).1 (G2.keep _ _ G1.here)
  have hr : aget w2.index kr = some r := (W2.rev_index _ _).1 G2.here
  -- everything the assembly needs, for any dictionary the core returns
  have main : ∀ res, explainTop w2.closure kl kr = .ok res →
      AsmCtx (weqs (pops.map POp.toW)) w2 ppts res (HypOK pops) (GapOK pops) ∧
      (kl = kr ∨ ∃ T, AsmTotal res T ∧ ∃ p, ((kl, kr), p) ∈ res ∧ T kl kr < w2.closure.forest.length + 1) := by
    intro res h
    rw [W2.run] at h ⊢
    have S := run_sound w2.log
    have F := run_forest w2.log
    obtain ⟨T, now, TI, b1, b2⟩ := (run_time w2.log).time
    have cl := explainTop_closed S h
    have h' := h
    unfold explainTop at h'
    have J0 : ResInv (run w2.log).forest [] := ⟨by simp, by simp, by simp⟩
    obtain ⟨J, _, d⟩ := explain_good S.forest _ _ _ _ _ h' J0
    constructor
    · refine ⟨W2, ?_, ?_, ?_, ?_⟩
      · intro a b q hq
        obtain ⟨s, t, hm, h1, h2⟩ := P a b q hq
        exact ⟨s, t, keep h1, keep h2, hc s t q hm, fun hh hm' => ⟨s, t, q, hm, hm'⟩, fun g hm' => .inr ⟨s, t, q, hm, hm'⟩⟩
      · intro s t he; exact .inl (weqs_toW he)
      · intro ent he; exact (curPath_ok S.forest (J.1 ent he)).1
      · intro ent he; exact (curPath_ok S.forest (J.1 ent he)).2
    · rcases d.key with e | ⟨p, hp⟩
      · exact .inl e
      · refine .inr ⟨T, ⟨J.2.2, fun ent he => (cl.2 ent he).2, ?_⟩, p, hp, ?_⟩
        · intro ent he e1 e2 hm; exact curPath_args_lt F TI (J.1 ent he) hm
        · have := TI.le kl kr; omega
  constructor
  · intro res h
    obtain ⟨C, tot⟩ := main res h
    rw [h]
    dsimp only
    have : ∃ pf, getPf w2.index ppts res (w2.closure.forest.length + 1) kl kr = .ok pf := by
      rcases tot with e | ⟨T, A, p, hp, hT⟩
      · subst e; exact ⟨.refl l, by simp [getPf, reflAt, hl]⟩
      · exact getPf_succeeds C A _ kl kr p hp hT
    obtain ⟨pf, hpf⟩ := this
    rw [hpf]; exact ⟨pf, rfl⟩
  · intro res pf h
    split at h
    · cases h
    · next res' hres =>
      split at h
      · cases h
      · next pf' hpf =>
        cases h
        obtain ⟨C, _⟩ := main res hres
        obtain ⟨tx, ty, h1, h2, g⟩ := getPf_valid C _ kl kr pf hpf
        rw [hl] at h1; rw [hr] at h2; cases h1; cases h2
        exact ⟨hres, g⟩

end Holpy.C17
