import Holpy.C17.TimeRun
import Holpy.C17.ExplainTotal
/-
C17 — helper lemmas, part 19: `explain` terminates successfully -- the recursion through application
labels strictly decreases the time stamp of the explained pair.
-/
namespace Holpy.C17

theorem explain_refl (f : Forest) (n : Nat) (a : Cst) (res : Res) : explain f (n + 1) a a res = .ok res := by
  simp [explain]

theorem explain_succeeds {s : State} (F : ForestInv s) (A : ArgsOK s) {T : Cst → Cst → Nat} {now : Nat}
    (TI : TInv s T now) (n : Nat) :
    ∀ a b res, Dom s a → Dom s b → repOf s a = repOf s b → T a b < n → ∃ r, explain s.forest n a b res = .ok r := by
  induction n with
  | zero => intro a b res _ _ _ h; omega
  | succ n ih =>
    intro a b res da db hab hT
    unfold explain
    split
    · exact ⟨res, rfl⟩
    · obtain ⟨path, hp⟩ := curPath_defined F da db hab
      rw [hp]
      dsimp only
      obtain ⟨d, hd⟩ := F.ranked
      obtain ⟨w, hw, hnd, hlab⟩ := curPath_walk s.forest d hd a b path hp
      -- every label of the path sits on an edge no younger than the pair
      have edge : ∀ l ∈ path, ∃ u v, Adj s.forest u v l ∧ T u v ≤ T a b := by
        intro l hl
        rw [← hlab] at hl
        obtain ⟨e, he, hel⟩ := List.mem_map.1 hl
        refine ⟨e.1, e.2.1, ?_, TI.walk a w b hw hnd e he⟩
        rw [← hel]; exact walk_adj hw e he
      have loop : ∀ (ls : List Label) (r : Res), (∀ l ∈ ls, l ∈ path) →
          ∃ r', explainPath (explain s.forest n) ls r = .ok r' := by
        intro ls
        induction ls with
        | nil => intro r _; exact ⟨r, rfl⟩
        | cons l ls ihl =>
          intro r hls
          simp only [explainPath]
          have step : ∃ r1, explainArgs (explain s.forest n) r l = .ok r1 := by
            unfold explainArgs
            split
            · exact ⟨r, rfl⟩
            · next e1 e2 =>
              obtain ⟨u, v, hadj, hle⟩ := edge (.comb e1 e2) (hls (.comb e1 e2) (by simp))
              have hpos := TI.pos u v _ hadj
              have harg := TI.arg u v e1 e2 hadj
              have ao : (Dom s e1.a1 ∧ Dom s e2.a1 ∧ repOf s e1.a1 = repOf s e2.a1) ∧
                  (Dom s e1.a2 ∧ Dom s e2.a2 ∧ repOf s e1.a2 = repOf s e2.a2) := by
                rcases hadj with h | h
                · exact A _ _ e1 e2 h
                · exact A _ _ e1 e2 h
              have call : ∀ x y r0, Dom s x → Dom s y → repOf s x = repOf s y → (x ≠ y → T x y < T u v) →
                  ∃ r1, explain s.forest n x y r0 = .ok r1 := by
                intro x y r0 dx dy hxy hlt
                by_cases hxe : x = y
                · subst hxe
                  obtain ⟨m, hm⟩ : ∃ m, n = m + 1 := ⟨n - 1, by omega⟩
                  rw [hm]; exact ⟨r0, explain_refl _ _ _ _⟩
                · exact ih x y r0 dx dy hxy (by have := hlt hxe; omega)
              obtain ⟨r1, h1⟩ := call e1.a1 e2.a1 r ao.1.1 ao.1.2.1 ao.1.2.2 harg.1
              rw [h1]
              exact call e1.a2 e2.a2 r1 ao.2.1 ao.2.2.1 ao.2.2.2 harg.2
          obtain ⟨r1, h1⟩ := step
          rw [h1]
          exact ihl r1 (fun l hl => hls l (List.mem_cons_of_mem _ hl))
      obtain ⟨r', hr'⟩ := loop path res (fun l hl => hl)
      rw [hr']
      exact ⟨_, rfl⟩

end Holpy.C17
