import Holpy.C17.ForestPath
/-
C17 — helper lemmas, part 12: more on the reversal loop, and termination of `_path_to_root` within
`len(proof_forest)` steps in a ranked forest.
-/
namespace Holpy.C17

def nodes (p : Path) : List Cst := p.map (·.1)

theorem revFind_spec (g : Forest) (path : Path) (x v q : Cst) (l : Label) (hg : IsChain g x path)
    (h : revFind x path v = some (q, l)) :
    aget g q = some (some (v, l)) ∧ q ∈ x :: nodes path ∧ v ∈ nodes path := by
  induction path generalizing x with
  | nil => simp [revFind] at h
  | cons e r ih =>
    obtain ⟨p, ol⟩ := e
    cases ol with
    | none => simp [IsChain] at hg
    | some l' =>
      simp only [IsChain] at hg
      simp only [revFind] at h
      cases hr : revFind p r v with
      | some r' =>
        rw [hr] at h
        cases h
        obtain ⟨h1, h2, h3⟩ := ih p hg.2 hr
        exact ⟨h1, List.mem_cons_of_mem _ (by simpa [nodes] using h2), by simp only [nodes, List.map_cons, List.mem_cons]; exact .inr (by simpa [nodes] using h3)⟩
      | none =>
        rw [hr] at h
        simp only at h
        split at h
        · next hp => cases h; subst hp; exact ⟨hg.1, by simp, by simp [nodes]⟩
        · cases h

theorem revFind_mem (g : Forest) (path : Path) (x v : Cst) (hg : IsChain g x path) (hv : v ∈ nodes path) :
    ∃ r, revFind x path v = some r := by
  induction path generalizing x with
  | nil => simp [nodes] at hv
  | cons e r ih =>
    obtain ⟨p, ol⟩ := e
    cases ol with
    | none => simp [IsChain] at hg
    | some l' =>
      simp only [IsChain] at hg
      simp only [revFind]
      cases hr : revFind p r v with
      | some r' => exact ⟨r', rfl⟩
      | none =>
        simp only [nodes, List.map_cons, List.mem_cons] at hv
        rcases hv with hv | hv
        · subst hv; exact ⟨(x, l'), by simp⟩
        · obtain ⟨r', hr'⟩ := ih p hg.2 (by simpa [nodes] using hv)
          rw [hr] at hr'; cases hr'

theorem addEdge_get (f : Forest) (a b : Cst) (lab : Label) (v : Cst) :
    aget (addEdge f a b lab) v =
      match revFind a (pathGo f f.length a) v with
      | some r => some (some r)
      | none => if a = v then some (some (b, lab)) else aget f v := by
  unfold addEdge pathToRoot
  dsimp only
  rw [reverseEdges_get _ _ a none v (pathGo_isChain f f.length a)]
  cases revFind a (pathGo f f.length a) v with
  | some r => rfl
  | none => simp only [aget_aset]

/-- A property that holds at `x` and is inherited by parents holds along the whole chain. -/
theorem chain_all (f : Forest) (P : Cst → Prop) (path : Path) (x : Cst) (hc : IsChain f x path) (hx : P x)
    (step : ∀ c p l, aget f c = some (some (p, l)) → P c → P p) : ∀ v ∈ nodes path, P v := by
  induction path generalizing x with
  | nil => intro v hv; simp [nodes] at hv
  | cons e r ih =>
    obtain ⟨p, ol⟩ := e
    cases ol with
    | none => simp [IsChain] at hc
    | some l =>
      simp only [IsChain] at hc
      intro v hv
      simp only [nodes, List.map_cons, List.mem_cons] at hv
      have hp := step x p l hc.1 hx
      rcases hv with hv | hv
      · subst hv; exact hp
      · exact ih p hc.2 hp v (by simpa [nodes] using hv)

theorem endOf_mem (x : Cst) (path : Path) : endOf x path ∈ x :: nodes path := by
  induction path generalizing x with
  | nil => simp [endOf]
  | cons e r ih =>
    obtain ⟨p, ol⟩ := e
    simp only [endOf, nodes, List.map_cons, List.mem_cons]
    have := ih p
    simp only [List.mem_cons, nodes] at this
    rcases this with h | h
    · exact .inr (.inl h)
    · exact .inr (.inr h)

-- ---------------------------------------------------------------- walks terminate

theorem countP_lt {α : Type} (p q : α → Bool) (l : List α) (hpq : ∀ x, p x = true → q x = true)
    (z : α) (hz : z ∈ l) (hq : q z = true) (hp : p z = false) : l.countP p < l.countP q := by
  induction l with
  | nil => simp at hz
  | cons y ys ih =>
    simp only [List.countP_cons]
    simp only [List.mem_cons] at hz
    have hle : ys.countP p ≤ ys.countP q := List.countP_mono_left (fun x _ => hpq x)
    rcases hz with hz | hz
    · subst hz
      simp only [hq, hp, if_true]
      simp
      omega
    · have := ih hz
      by_cases hy : p y = true
      · simp only [hy, hpq y hy, if_true]; omega
      · have : (if p y = true then 1 else 0) = 0 := by simp [hy]
        rw [this]
        omega

theorem aget_isSome_mem {α β : Type} [DecidableEq α] {l : List (α × β)} {x : α} (h : (aget l x).isSome) :
    x ∈ l.map (·.1) := by
  cases hv : aget l x with
  | none => simp [hv] at h
  | some v => exact List.mem_map.2 ⟨(x, v), aget_mem hv, rfl⟩

/-- Number of keys of smaller rank. -/
def below (f : Forest) (d : Cst → Nat) (x : Cst) : Nat := (f.map (·.1)).countP (fun k => decide (d k < d x))

theorem pathComplete_of_ranked (f : Forest) (d : Cst → Nat)
    (hd : ∀ c p l, aget f c = some (some (p, l)) → d p < d c)
    (hk : ∀ c p l, aget f c = some (some (p, l)) → (aget f p).isSome)
    (n : Nat) (x : Cst) (h : below f d x ≤ n) : pathComplete f n x = true := by
  induction n generalizing x with
  | zero =>
    unfold pathComplete
    split
    · next q hq =>
      obtain ⟨p, l⟩ := q
      have hm := aget_isSome_mem (hk x p l hq)
      have : 0 < below f d x := by
        unfold below
        exact List.countP_pos_iff.2 ⟨p, hm, by simpa using hd x p l hq⟩
      omega
    · rfl
  | succ n ih =>
    unfold pathComplete
    split
    · next p l hq =>
      apply ih
      have hm := aget_isSome_mem (hk x p l hq)
      have : below f d p < below f d x := by
        unfold below
        apply countP_lt _ _ _ _ p hm
        · simpa using hd x p l hq
        · simp
        · intro k hk'
          simp only [decide_eq_true_eq] at hk' ⊢
          exact Nat.lt_trans hk' (hd x p l hq)
      omega
    · rfl

theorem below_le (f : Forest) (d : Cst → Nat) (x : Cst) : below f d x ≤ f.length := by
  unfold below
  have := List.countP_le_length (p := fun k => decide (d k < d x)) (l := f.map (·.1))
  simpa using this

end Holpy.C17
