import Holpy.C17.HolModel
/-
C17 — executable model of the proof-term assembly of `prover/congc.py: CongClosureHOL.explain`
(the nested function `get_proofterm`, the table `pts`) and of the fragment of `kernel/proofterm.py`
/ `kernel/thm.py` it uses.

* `EqPf` = the `ProofTerm` trees `explain` can build: leaves `assume(Eq(s, t))` (`hyp`; what a caller
  passes as `pt=` to `merge`), `sorry(Thm(Eq(s, t)))` (`gap`), `reflexive(t)`; inner nodes `symmetric`,
  `transitive`, `combination`.
* `EqPf.concl` = the checker on these trees (`Thm.reflexive/symmetric/transitive/combination`): the
  proved equation, or `none` where the rule raises InvalidDerivationException (`transitive` with a
  middle term that does not match).  `combination`'s type test (`f` has a function type whose domain is
  the type of `x`) is NOT modelled (terms are untyped here); `hyps` / `gaps` = the hypotheses of the
  theorem and the gaps of the proof report.
* `mkTrans` = `ProofTerm.transitive` with its two short cuts (a reflexive left or right operand is
  dropped); `ProofTerm.symmetric` / `combination` / `reflexive` build the node without short cut.
* `PState` = the wrapper state of `HolModel.lean` plus the dictionary `pts`;
  `pmerge` = `CongClosureHOL.merge(s, t, pt=...)`: `pts[(u1, u2)] = pt` when a proof term is given
  (ordered pair of constants; a later merge of the same pair overwrites).
* `getPf` = `get_proofterm(u, v)` statement by statement: `u == v` -> `reflexive(index[u])`; otherwise
  `path = explain[(u, v)]` (KeyError when missing -> `Err.key`), start with `reflexive(index[u])`,
  for each label: EQ_CONST -> `pts[(a, b)]` if present else `sorry(Eq(index[a], index[b]))`; EQ_COMB ->
  `get_proofterm(a1, b1)` if `a1 != b1` else `reflexive(index[a1])`, same for the second argument,
  `combination`; then `pt.transitive(eq_pt)` if `a == cur_pos`, else `assert b == cur_pos` and
  `pt.transitive(eq_pt.symmetric())`.  All dictionary reads are `Option` reads (a miss is `Err.key`,
  Python's KeyError); the recursion carries fuel (Python: RecursionError), `Err.fuel` when exhausted.
  `hol_explain_proof_valid` (PropsPf.lean) proves that none of these errors occurs in a reachable state.
Import-free: linked into the `c17_model` driver.
-/
namespace Holpy.C17

inductive EqPf where
  | hyp (s t : Term)
  | gap (s t : Term)
  | refl (t : Term)
  | symm (p : EqPf)
  | trans (p q : EqPf)
  | comb (p q : EqPf)
  deriving DecidableEq, Repr

/-- The checker: the equation a proof tree proves (`none`: a rule application is refused). -/
def EqPf.concl : EqPf → Option (Term × Term)
  | .hyp s t => some (s, t)
  | .gap s t => some (s, t)
  | .refl t => some (t, t)
  | .symm p =>
    match p.concl with
    | some (x, y) => some (y, x)
    | none => none
  | .trans p q =>
    match p.concl, q.concl with
    | some (x, y1), some (y2, z) => if y1 = y2 then some (x, z) else none
    | _, _ => none
  | .comb p q =>
    match p.concl, q.concl with
    | some (f, g), some (x, y) => some (.app f x, .app g y)
    | _, _ => none

/-- Hypotheses of the proved theorem (the `assume` leaves). -/
def EqPf.hyps : EqPf → List (Term × Term)
  | .hyp s t => [(s, t)]
  | .gap _ _ => []
  | .refl _ => []
  | .symm p => p.hyps
  | .trans p q => p.hyps ++ q.hyps
  | .comb p q => p.hyps ++ q.hyps

/-- Gaps of the proof (the `sorry` leaves). -/
def EqPf.gaps : EqPf → List (Term × Term)
  | .hyp _ _ => []
  | .gap s t => [(s, t)]
  | .refl _ => []
  | .symm p => p.gaps
  | .trans p q => p.gaps ++ q.gaps
  | .comb p q => p.gaps ++ q.gaps

/-- `pt.prop.is_reflexive()` -/
def EqPf.isRefl (p : EqPf) : Bool :=
  match p.concl with
  | some (x, y) => decide (x = y)
  | none => false

/-- `pt.transitive(eq_pt)` (one argument): reflexive operands are dropped. -/
def mkTrans (p q : EqPf) : EqPf :=
  if p.isRefl then q else if q.isRefl then p else .trans p q

structure PState where
  w : WState := {}
  pts : List ((Cst × Cst) × EqPf) := []
  deriving Repr

def PState.init : PState := {}

/-- `merge(s, t, pt=pt)` -/
def pmerge (p : PState) (s t : Term) (pt : Option EqPf) : PState :=
  let r1 := addTerm s p.w
  let r2 := addTerm t r1.1
  { w := r2.1.core (.mergeC r1.2 r2.2),
    pts := match pt with
      | some q => aset p.pts (r1.2, r2.2) q
      | none => p.pts }

abbrev Index := List (Cst × Term)
abbrev Pts := List ((Cst × Cst) × EqPf)

/-- `reflexive(index[x])` -/
def reflAt (index : Index) (x : Cst) : Except Err EqPf :=
  match aget index x with
  | some t => .ok (.refl t)
  | none => .error .key

/-- `get_proofterm(x, y) if x != y else reflexive(index[x])` with `g` the recursive call -/
def argPf (index : Index) (g : Cst → Cst → Except Err EqPf) (x y : Cst) : Except Err EqPf :=
  if x ≠ y then g x y else reflAt index x

/-- the proof term `eq_pt` for one label of a path -/
def labelPf (index : Index) (pts : Pts) (g : Cst → Cst → Except Err EqPf) : Label → Except Err EqPf
  | .const a b =>
    match aget pts (a, b) with
    | some q => .ok q
    | none =>
      match aget index a, aget index b with
      | some s, some t => .ok (.gap s t)
      | _, _ => .error .key
  | .comb e1 e2 =>
    match argPf index g e1.a1 e2.a1 with
    | .error e => .error e
    | .ok p1 =>
      match argPf index g e1.a2 e2.a2 with
      | .error e => .error e
      | .ok p2 => .ok (.comb p1 p2)

/-- `for eq in path: ...` of `get_proofterm`: `pt` is the chain so far, `cur` is `cur_pos`. -/
def chainPf (index : Index) (pts : Pts) (g : Cst → Cst → Except Err EqPf) : List Label → EqPf → Cst → Except Err EqPf
  | [], pt, _ => .ok pt
  | l :: ls, pt, cur =>
    match labelPf index pts g l with
    | .error e => .error e
    | .ok q =>
      if l.ends.1 = cur then chainPf index pts g ls (mkTrans pt q) l.ends.2
      else if l.ends.2 = cur then chainPf index pts g ls (mkTrans pt (.symm q)) l.ends.1
      else .error .assert

/-- `get_proofterm(u, v)`; the first argument bounds the recursion depth. -/
def getPf (index : Index) (pts : Pts) (res : Res) : Nat → Cst → Cst → Except Err EqPf
  | 0, _, _ => .error .fuel
  | n + 1, u, v =>
    if u = v then reflAt index u else
    match aget res (u, v) with
    | none => .error .key
    | some path =>
      match aget index u with
      | none => .error .key
      | some t => chainPf index pts (getPf index pts res n) path (.refl t) u

/-- `explain(t1, t2)` of the wrapper: the new state, the raw dictionary and the assembled proof term. -/
def pexplain (p : PState) (l r : Term) : PState × Except Err (Res × EqPf) :=
  let r1 := addTerm l p.w
  let r2 := addTerm r r1.1
  ({ p with w := r2.1 },
    match explainTop r2.1.closure r1.2 r2.2 with
    | .error e => .error e
    | .ok res =>
      match getPf r2.1.index p.pts res (r2.1.closure.forest.length + 1) r1.2 r2.2 with
      | .error e => .error e
      | .ok pf => .ok (res, pf))

/-- Calls that change the wrapper (with the optional proof term of `merge`). -/
inductive POp where
  | merge (s t : Term) (pt : Option EqPf)
  | add (t : Term)
  deriving DecidableEq, Repr

def POp.toW : POp → WOp
  | .merge s t _ => .merge s t
  | .add t => .add t

def applyPOp (p : PState) : POp → PState
  | .merge s t pt => pmerge p s t pt
  | .add t => { p with w := (addTerm t p.w).1 }

def prun (pops : List POp) : PState := pops.foldl applyPOp PState.init

end Holpy.C17
