import Holpy.C17.PfTop
/-
C17 — property theorems about the model of the proof-term assembly of `CongClosureHOL.explain`
(`PfModel.lean`: the table `pts`, `get_proofterm`, and the `ProofTerm` constructors it uses).
`prun pops` is the wrapper after the calls `pops` (`merge(s, t)` with or without `pt=`, `add_term`; `test`
and `explain` do to the wrapper what `add_term` on their two arguments does).
-/
namespace Holpy.C17

/-- The checker of the equational proof trees is sound: a tree that checks with conclusion `x = y`
derives `x = y` from its `assume` and `sorry` leaves by reflexivity, symmetry, transitivity and
congruence of application (hence `x = y` holds wherever the leaves hold). -/
theorem eqpf_checker_sound (pf : EqPf) (x y : Term) (h : pf.concl = some (x, y)) :
    TCl (fun s t => (s, t) ∈ pf.hyps ∨ (s, t) ∈ pf.gaps) x y := by
  induction pf generalizing x y with
  | hyp s t => simp only [EqPf.concl, Option.some.injEq, Prod.mk.injEq] at h; obtain ⟨rfl, rfl⟩ := h; exact .base (.inl (by simp [EqPf.hyps]))
  | gap s t => simp only [EqPf.concl, Option.some.injEq, Prod.mk.injEq] at h; obtain ⟨rfl, rfl⟩ := h; exact .base (.inr (by simp [EqPf.gaps]))
  | refl t => simp only [EqPf.concl, Option.some.injEq, Prod.mk.injEq] at h; obtain ⟨rfl, rfl⟩ := h; exact .refl _
  | symm p ih =>
    simp only [EqPf.concl] at h
    split at h
    · next a b hp =>
      simp only [Option.some.injEq, Prod.mk.injEq] at h; obtain ⟨rfl, rfl⟩ := h
      exact (ih _ _ hp).symm
    · cases h
  | trans p q ihp ihq =>
    simp only [EqPf.concl] at h
    split at h
    · next a b c d hp hq =>
      split at h
      · next hbc =>
        subst hbc
        simp only [Option.some.injEq, Prod.mk.injEq] at h; obtain ⟨rfl, rfl⟩ := h
        have m1 : ∀ s t, ((s, t) ∈ p.hyps ∨ (s, t) ∈ p.gaps) → ((s, t) ∈ (EqPf.trans p q).hyps ∨ (s, t) ∈ (EqPf.trans p q).gaps) := by
          intro s t hh; simp only [EqPf.hyps, EqPf.gaps, List.mem_append]
          rcases hh with hh | hh
          · exact .inl (.inl hh)
          · exact .inr (.inl hh)
        have m2 : ∀ s t, ((s, t) ∈ q.hyps ∨ (s, t) ∈ q.gaps) → ((s, t) ∈ (EqPf.trans p q).hyps ∨ (s, t) ∈ (EqPf.trans p q).gaps) := by
          intro s t hh; simp only [EqPf.hyps, EqPf.gaps, List.mem_append]
          rcases hh with hh | hh
          · exact .inl (.inr hh)
          · exact .inr (.inr hh)
        exact (tcl_mono m1 (ihp _ _ hp)).trans (tcl_mono m2 (ihq _ _ hq))
      · cases h
    · cases h
  | comb p q ihp ihq =>
    simp only [EqPf.concl] at h
    split at h
    · next a b c d hp hq =>
      simp only [Option.some.injEq, Prod.mk.injEq] at h; obtain ⟨rfl, rfl⟩ := h
      have m1 : ∀ s t, ((s, t) ∈ p.hyps ∨ (s, t) ∈ p.gaps) → ((s, t) ∈ (EqPf.comb p q).hyps ∨ (s, t) ∈ (EqPf.comb p q).gaps) := by
        intro s t hh; simp only [EqPf.hyps, EqPf.gaps, List.mem_append]
        rcases hh with hh | hh
        · exact .inl (.inl hh)
        · exact .inr (.inl hh)
      have m2 : ∀ s t, ((s, t) ∈ q.hyps ∨ (s, t) ∈ q.gaps) → ((s, t) ∈ (EqPf.comb p q).hyps ∨ (s, t) ∈ (EqPf.comb p q).gaps) := by
        intro s t hh; simp only [EqPf.hyps, EqPf.gaps, List.mem_append]
        rcases hh with hh | hh
        · exact .inl (.inr hh)
        · exact .inr (.inr hh)
      exact .app (tcl_mono m1 (ihp _ _ hp)) (tcl_mono m2 (ihq _ _ hq))
    · cases h

/- non-vacuity: f a = a |- f (f a) = a by combination and transitivity. -/
example : (EqPf.trans (.comb (.refl (.atom 1)) (.hyp (.app (.atom 1) (.atom 0)) (.atom 0))) (.hyp (.app (.atom 1) (.atom 0)) (.atom 0))).concl =
    some (.app (.atom 1) (.app (.atom 1) (.atom 0)), .atom 0) := by rfl

/-- `CongClosureHOL.explain(l, r)` after any history of `merge` (with or without `pt=`) / `add_term` /
`test` / `explain` calls, provided every proof term given to a `merge(s, t, pt=q)` proves `s = t`
(`Contract`): whenever the core `explain` returns a dictionary, `get_proofterm` returns a proof term (no
KeyError on `index`, `pts` or the dictionary, the `assert b == cur_pos` holds, the recursion is bounded);
the returned tree passes the checker with conclusion exactly `l = r`; its hypotheses are hypotheses of
proof terms given to `merge`; its gaps (`sorry`) are merged equations or gaps of given proof terms. -/
theorem hol_explain_proof_valid (pops : List POp) (hc : Contract pops) (l r : Term) :
    (∀ res, (wexplain (prun pops).w l r).2 = .ok res → ∃ pf, (pexplain (prun pops) l r).2 = .ok (res, pf)) ∧
    (∀ res pf, (pexplain (prun pops) l r).2 = .ok (res, pf) →
      pf.concl = some (l, r) ∧
      (∀ h ∈ pf.hyps, ∃ s t q, POp.merge s t (some q) ∈ pops ∧ h ∈ q.hyps) ∧
      (∀ g ∈ pf.gaps, (∃ pt, POp.merge g.1 g.2 pt ∈ pops) ∨ ∃ s t q, POp.merge s t (some q) ∈ pops ∧ g ∈ q.gaps)) := by
  obtain ⟨h1, h2⟩ := pexplain_spec pops hc l r
  exact ⟨h1, fun res pf h => (h2 res pf h).2⟩

/- non-vacuity: a = c merged without proof term, d = c with one; explain(f a, f d) assembles
symmetric(combination(reflexive f, transitive(assume(d = c), symmetric(sorry(a = c))))). -/
example : ((pexplain (prun [.merge (.atom 0) (.atom 2) none, .merge (.atom 3) (.atom 2) (some (.hyp (.atom 3) (.atom 2)))])
      (.app (.atom 1) (.atom 0)) (.app (.atom 1) (.atom 3))).2.toOption.map (·.2)) =
    some (.symm (.comb (.refl (.atom 1)) (.trans (.hyp (.atom 3) (.atom 2)) (.symm (.gap (.atom 0) (.atom 2)))))) := by rfl

example : Contract [.merge (.atom 0) (.atom 2) none, .merge (.atom 3) (.atom 2) (some (.hyp (.atom 3) (.atom 2)))] := by
  intro s t q h
  simp only [List.mem_cons, POp.merge.injEq, reduceCtorEq, and_false, false_or, List.not_mem_nil, or_false, Option.some.injEq] at h
  obtain ⟨rfl, rfl, rfl⟩ := h
  rfl

/-- The proof-term table never influences the wrapper's congruence-closure state: the history with all
`pt=` arguments dropped gives the same `index`, `rev_index` and core structure. -/
theorem hol_pts_irrelevant (pops : List POp) : (prun pops).w = wrun (pops.map POp.toW) :=
  prun_w pops

example : (prun [.merge (.atom 3) (.atom 2) (some (.hyp (.atom 3) (.atom 2)))]).w.index = [(1, .atom 3), (2, .atom 2)] := by rfl

end Holpy.C17
