import Holpy.C17.Proofs
/-
C17 — helper lemmas, part 2: `explain`.
`curPath` returns a chain of justified labels from `a` to `b`; the memo dictionary built by
`explain` is well founded (`Der`), so the explained equality follows from the listed inputs.
-/
namespace Holpy.C17

-- ---------------------------------------------------------------- chains of labels

/-- `ls` leads from `x` to `y`, each label joining consecutive constants (in either direction). -/
def Chain : List Label → Cst → Cst → Prop
  | [], x, y => x = y
  | l :: ls, x, y => ∃ z, Step l x z ∧ Chain ls z y

theorem Chain.append {p q : List Label} {x z y : Cst} (h1 : Chain p x z) (h2 : Chain q z y) : Chain (p ++ q) x y := by
  induction p generalizing x with
  | nil => simp only [Chain] at h1; subst h1; simpa using h2
  | cons l ls ih =>
    obtain ⟨w, hw, hr⟩ := h1
    exact ⟨w, hw, ih hr⟩

theorem Chain.reverse {p : List Label} {x y : Cst} (h : Chain p x y) : Chain p.reverse y x := by
  induction p generalizing x with
  | nil => simp only [Chain] at h; subst h; simp [Chain]
  | cons l ls ih =>
    obtain ⟨w, hw, hr⟩ := h
    rw [List.reverse_cons]
    exact (ih hr).append ⟨x, hw.symm, rfl⟩

theorem Chain.cl {E : Eqn → Prop} {p : List Label} {x y : Cst}
    (hl : ∀ l ∈ p, Cl E l.ends.1 l.ends.2) (h : Chain p x y) : Cl E x y := by
  induction p generalizing x with
  | nil => simp only [Chain] at h; subst h; exact .refl _
  | cons l ls ih =>
    obtain ⟨w, hw, hr⟩ := h
    have h1 := hl l (by simp)
    have : Cl E x w := by
      rcases hw with hw | hw <;> rw [hw] at h1
      · exact h1
      · exact h1.symm
    exact this.trans (ih (fun l' hl' => hl l' (List.mem_cons_of_mem _ hl')) hr)

-- ---------------------------------------------------------------- paths to the root

/-- The node a path tail ends in (`x` itself for the empty tail). -/
def endOf : Cst → Path → Cst
  | x, [] => x
  | _, (p, _) :: r => endOf p r

theorem chainOK_take {E : Eqn → Prop} {x : Cst} {r : Path} (h : ChainOK E x r) (k : Nat) : ChainOK E x (r.take k) := by
  induction r generalizing x k with
  | nil => simp [ChainOK]
  | cons q r ih =>
    obtain ⟨p, ol⟩ := q
    cases k with
    | zero => simp [ChainOK]
    | succ k =>
      cases ol with
      | none => simp [ChainOK] at h
      | some l => simp only [List.take_succ_cons, ChainOK] at h ⊢; exact ⟨h.1, ih h.2 k⟩

theorem chainOK_chain {E : Eqn → Prop} {x : Cst} {r : Path} (h : ChainOK E x r) :
    Chain (labelsOf r) x (endOf x r) ∧ ∀ l ∈ labelsOf r, LabelOK E l := by
  induction r generalizing x with
  | nil => simp [labelsOf, Chain, endOf]
  | cons q r ih =>
    obtain ⟨p, ol⟩ := q
    cases ol with
    | none => simp [ChainOK] at h
    | some l =>
      simp only [ChainOK] at h
      have := ih h.2
      simp only [labelsOf, List.filterMap_cons, endOf] at this ⊢
      refine ⟨⟨p, h.1.2, this.1⟩, ?_⟩
      intro l' hl'
      simp only [List.mem_cons] at hl'
      rcases hl' with hl' | hl'
      · subst hl'; exact h.1.1
      · exact this.2 l' hl'

theorem nodeAt_take (x : Cst) (o : Option Label) (r : Path) (k : Nat) (hk : k ≤ r.length) :
    nodeAt ((x, o) :: r) k = some (endOf x (r.take k)) := by
  induction r generalizing x o k with
  | nil => simp at hk; subst hk; simp [nodeAt, endOf]
  | cons q r ih =>
    obtain ⟨p, ol⟩ := q
    cases k with
    | zero => simp [nodeAt, endOf]
    | succ k =>
      simp only [List.length_cons, Nat.add_le_add_iff_right] at hk
      have := ih p ol k hk
      simp only [nodeAt, List.getElem?_cons_succ, List.take_succ_cons, endOf] at this ⊢
      exact this

/-- Invariant of the loop that walks back from the roots. -/
def LcaInv (sp tp : Path) (pos : Nat) : Prop :=
  1 ≤ pos ∧ pos ≤ sp.length ∧ pos ≤ tp.length ∧ nodeAt sp (sp.length - pos) = nodeAt tp (tp.length - pos)

theorem lcaPos_inv (sp tp : Path) (n pos : Nat) (h : LcaInv sp tp pos) : LcaInv sp tp (lcaPos sp tp n pos) := by
  induction n generalizing pos with
  | zero => exact h
  | succ n ih =>
    unfold lcaPos
    split
    · next hc =>
      apply ih
      obtain ⟨h1, h2, h3⟩ := hc
      refine ⟨by omega, by omega, by omega, ?_⟩
      rw [show sp.length - (pos + 1) = sp.length - pos - 1 by omega,
          show tp.length - (pos + 1) = tp.length - pos - 1 by omega]
      exact h3
    · exact h

theorem curPath_ok {E : Eqn → Prop} {f : Forest} (F : ForestOK E f) {a b : Cst} {path : List Label}
    (h : curPath f a b = .ok path) : Chain path a b ∧ ∀ l ∈ path, LabelOK E l := by
  unfold curPath at h
  split at h
  · cases h
  · split at h
    · cases h
    · dsimp only at h
      split at h
      · cases h
      · next hroot =>
        simp only [Except.ok.injEq] at h
        have hroot' : nodeAt (pathToRoot f a) ((pathToRoot f a).length - 1) =
            nodeAt (pathToRoot f b) ((pathToRoot f b).length - 1) := Classical.not_not.mp hroot
        have CA := pathGo_chain F f.length a
        have CB := pathGo_chain F f.length b
        have inv := lcaPos_inv (pathToRoot f a) (pathToRoot f b) (pathToRoot f a).length 1
          ⟨Nat.le_refl 1, by simp [pathToRoot], by simp [pathToRoot], hroot'⟩
        generalize lcaPos (pathToRoot f a) (pathToRoot f b) (pathToRoot f a).length 1 = pos at h inv
        unfold pathToRoot at h inv
        generalize pathGo f f.length a = ra at h inv CA
        generalize pathGo f f.length b = rb at h inv CB
        obtain ⟨p1, p2, p3, p4⟩ := inv
        simp only [List.length_cons, List.drop_succ_cons, List.drop_zero] at h p2 p3 p4
        have ka : ra.length + 1 - pos ≤ ra.length := by omega
        have kb : rb.length + 1 - pos ≤ rb.length := by omega
        rw [nodeAt_take a none ra _ ka, nodeAt_take b none rb _ kb] at p4
        simp only [Option.some.injEq] at p4
        have A := chainOK_chain (chainOK_take CA (ra.length + 1 - pos))
        have B := chainOK_chain (chainOK_take CB (rb.length + 1 - pos))
        subst h
        constructor
        · rw [← p4] at B
          exact A.1.append B.1.reverse
        · intro l hl
          simp only [List.mem_append, List.mem_reverse] at hl
          rcases hl with hl | hl
          · exact A.2 l hl
          · exact B.2 l hl

-- ---------------------------------------------------------------- the memo dictionary is well founded

/-- `x = y` has a well-founded justification inside `res`: an entry whose labels chain from `x` to
`y` and whose application labels have their argument pairs justified in turn. -/
inductive Der (res : Res) : Cst → Cst → Prop where
  | refl (x) : Der res x x
  | entry {x y path} : ((x, y), path) ∈ res → Chain path x y →
      (∀ e1 e2, Label.comb e1 e2 ∈ path → Der res e1.a1 e2.a1) →
      (∀ e1 e2, Label.comb e1 e2 ∈ path → Der res e1.a2 e2.a2) → Der res x y

theorem Der.mono {res res' : Res} (h : ∀ ent ∈ res, ent ∈ res') {x y : Cst} (d : Der res x y) : Der res' x y := by
  induction d with
  | refl x => exact .refl x
  | entry hm hc _ _ ih1 ih2 => exact .entry (h _ hm) hc ih1 ih2

theorem Der.cl {res : Res} {x y : Cst} (d : Der res x y) : Cl (resEqs res) x y := by
  induction d with
  | refl x => exact .refl x
  | entry hm hc _ _ ih1 ih2 =>
    next x y path =>
    apply Chain.cl _ hc
    intro l hl
    cases l with
    | const a b => exact .base ⟨_, hm, _, hl, rfl⟩
    | comb e1 e2 =>
      exact .cong (a1 := e1.a1) (a2 := e1.a2) (b1 := e2.a1) (b2 := e2.a2)
        ⟨_, hm, _, hl, .inl rfl⟩ ⟨_, hm, _, hl, .inr rfl⟩ (ih1 e1 e2 hl) (ih2 e1 e2 hl)

section AList2
variable {α : Type} {β : Type} [DecidableEq α]

theorem aset_same {l : List (α × β)} {x : α} {v : β} (h : aget l x = some v) : aset l x v = l := by
  induction l with
  | nil => simp [aget] at h
  | cons p r ih =>
    obtain ⟨k, w⟩ := p
    by_cases hk : k = x
    · subst hk; simp [aget] at h; subst h; simp [aset]
    · simp [aget, hk] at h; simp [aset, hk, ih h]

theorem aset_none {l : List (α × β)} {x : α} {v : β} (h : aget l x = none) : aset l x v = l ++ [(x, v)] := by
  induction l with
  | nil => simp [aset]
  | cons p r ih =>
    obtain ⟨k, w⟩ := p
    by_cases hk : k = x
    · subst hk; simp [aget] at h
    · simp [aget, hk] at h; simp [aset, hk, ih h]

end AList2

/-- Invariant of the memo dictionary: every entry is the `cur_path` of its key, is justified, and
no key is a pair of identical constants. -/
def ResInv (f : Forest) (res : Res) : Prop :=
  (∀ ent ∈ res, curPath f ent.1.1 ent.1.2 = .ok ent.2) ∧ (∀ ent ∈ res, Der res ent.1.1 ent.1.2) ∧
  (∀ ent ∈ res, ent.1.1 ≠ ent.1.2)

/-- What one successful call `g a b res = ok res'` guarantees. -/
def GoodCall (f : Forest) (g : Cst → Cst → Res → Except Err Res) : Prop :=
  ∀ a b res res', g a b res = .ok res' → ResInv f res →
    ResInv f res' ∧ (∀ ent ∈ res, ent ∈ res') ∧ Der res' a b

theorem explainArgs_good {f : Forest} {g} (G : GoodCall f g) {r r' : Res} {l : Label}
    (h : explainArgs g r l = .ok r') (J : ResInv f r) :
    ResInv f r' ∧ (∀ ent ∈ r, ent ∈ r') ∧
      (∀ e1 e2, l = .comb e1 e2 → Der r' e1.a1 e2.a1 ∧ Der r' e1.a2 e2.a2) := by
  unfold explainArgs at h
  split at h
  · cases h; exact ⟨J, fun _ h => h, fun _ _ h => by cases h⟩
  · next e1 e2 =>
    split at h
    · cases h
    · next r1 h1 =>
      obtain ⟨J1, s1, d1⟩ := G _ _ _ _ h1 J
      obtain ⟨J2, s2, d2⟩ := G _ _ _ _ h J1
      refine ⟨J2, fun e he => s2 e (s1 e he), ?_⟩
      intro e1' e2' heq
      cases heq
      exact ⟨d1.mono s2, d2⟩

theorem explainPath_good {f : Forest} {g} (G : GoodCall f g) (ls : List Label) {r r' : Res}
    (h : explainPath g ls r = .ok r') (J : ResInv f r) :
    ResInv f r' ∧ (∀ ent ∈ r, ent ∈ r') ∧
      (∀ e1 e2, Label.comb e1 e2 ∈ ls → Der r' e1.a1 e2.a1 ∧ Der r' e1.a2 e2.a2) := by
  induction ls generalizing r with
  | nil =>
    simp only [explainPath, Except.ok.injEq] at h; subst h
    exact ⟨J, fun _ h => h, fun _ _ h => by simp at h⟩
  | cons l ls ih =>
    simp only [explainPath] at h
    split at h
    · cases h
    · next r1 h1 =>
      obtain ⟨J1, s1, d1⟩ := explainArgs_good G h1 J
      obtain ⟨J2, s2, d2⟩ := ih h J1
      refine ⟨J2, fun e he => s2 e (s1 e he), ?_⟩
      intro e1 e2 hm
      simp only [List.mem_cons] at hm
      rcases hm with hm | hm
      · have := d1 e1 e2 hm.symm
        exact ⟨this.1.mono s2, this.2.mono s2⟩
      · exact d2 e1 e2 hm

theorem explain_good {E : Eqn → Prop} {f : Forest} (F : ForestOK E f) (n : Nat) : GoodCall f (explain f n) := by
  induction n with
  | zero => intro a b res res' h; simp [explain] at h
  | succ n ih =>
    intro a b res res' h J
    unfold explain at h
    split at h
    · next hc =>
      simp only [Except.ok.injEq] at h; subst h
      refine ⟨J, fun _ h => h, ?_⟩
      rcases hc with hc | hc
      · subst hc; exact .refl _
      · cases hg : aget res (a, b) with
        | none => simp [hg] at hc
        | some p => exact J.2.1 _ (aget_mem hg)
    · next hnc =>
      split at h
      · cases h
      · next path hp =>
        split at h
        · cases h
        · next r hr =>
          simp only [Except.ok.injEq] at h
          obtain ⟨Jr, sr, dr⟩ := explainPath_good ih path hr J
          cases hg : aget r (a, b) with
          | some p0 =>
            have := Jr.1 _ (aget_mem hg)
            simp only at this
            rw [hp] at this
            cases this
            rw [aset_same hg] at h; subst h
            exact ⟨Jr, sr, Jr.2.1 _ (aget_mem hg)⟩
          | none =>
            rw [aset_none hg] at h; subst h
            have sub : ∀ ent ∈ r, ent ∈ r ++ [((a, b), path)] := fun e he => List.mem_append_left _ he
            have dab : Der (r ++ [((a, b), path)]) a b :=
              .entry (by simp) (curPath_ok F hp).1
                (fun e1 e2 hm => (dr e1 e2 hm).1.mono sub) (fun e1 e2 hm => (dr e1 e2 hm).2.mono sub)
            refine ⟨⟨?_, ?_, ?_⟩, fun e he => sub e (sr e he), dab⟩
            · intro ent he
              simp only [List.mem_append, List.mem_singleton] at he
              rcases he with he | he
              · exact Jr.1 ent he
              · subst he; exact hp
            · intro ent he
              simp only [List.mem_append, List.mem_singleton] at he
              rcases he with he | he
              · exact (Jr.2.1 ent he).mono sub
              · subst he; exact dab
            · intro ent he
              simp only [List.mem_append, List.mem_singleton] at he
              rcases he with he | he
              · exact Jr.2.2 ent he
              · subst he; exact fun e => hnc (.inl e)

theorem explainTop_ok {E : Eqn → Prop} {s : State} (S : Sound E s) {a b : Cst} {res : Res}
    (h : explainTop s a b = .ok res) :
    (∀ ent ∈ res, ∀ l ∈ ent.2, LabelOK E l) ∧ (∀ ent ∈ res, Cl (resEqs res) ent.1.1 ent.1.2) ∧ Cl (resEqs res) a b := by
  unfold explainTop at h
  have J0 : ResInv s.forest [] := ⟨by simp, by simp, by simp⟩
  obtain ⟨J, _, d⟩ := explain_good S.forest _ _ _ _ _ h J0
  refine ⟨?_, fun ent he => (J.2.1 ent he).cl, d.cl⟩
  intro ent he l hl
  exact (curPath_ok S.forest (J.1 ent he)).2 l hl

theorem Der.key {res : Res} {x y : Cst} (d : Der res x y) : x = y ∨ ∃ p, ((x, y), p) ∈ res := by
  cases d with
  | refl => exact .inl rfl
  | entry hm _ _ _ => exact .inr ⟨_, hm⟩

/-- The dictionary returned by `explain` is closed for its consumer: the queried pair is a key,
every path chains from the first to the second constant of its key, and every application label
on a path has an entry for each of its argument pairs, in the orientation of the label. -/
theorem explainTop_closed {E : Eqn → Prop} {s : State} (S : Sound E s) {a b : Cst} {res : Res}
    (h : explainTop s a b = .ok res) :
    (a = b ∨ ∃ p, ((a, b), p) ∈ res) ∧
    ∀ ent ∈ res, Chain ent.2 ent.1.1 ent.1.2 ∧
      ∀ e1 e2, Label.comb e1 e2 ∈ ent.2 →
        (e1.a1 = e2.a1 ∨ ∃ p, ((e1.a1, e2.a1), p) ∈ res) ∧ (e1.a2 = e2.a2 ∨ ∃ p, ((e1.a2, e2.a2), p) ∈ res) := by
  unfold explainTop at h
  have J0 : ResInv s.forest [] := ⟨by simp, by simp, by simp⟩
  obtain ⟨J, _, d⟩ := explain_good S.forest _ _ _ _ _ h J0
  refine ⟨d.key, ?_⟩
  intro ent he
  obtain ⟨⟨x, y⟩, p⟩ := ent
  have hcp := J.1 _ he
  refine ⟨(curPath_ok S.forest hcp).1, ?_⟩
  intro e1 e2 hm
  have hd : Der res x y := J.2.1 _ he
  have hne : x ≠ y := J.2.2 _ he
  cases hd with
  | refl => exact absurd rfl hne
  | entry hm' _ d1 d2 =>
    have := J.1 _ hm'
    simp only at this
    rw [hcp] at this
    cases this
    exact ⟨(d1 e1 e2 hm).key, (d2 e1 e2 hm).key⟩

end Holpy.C17
