import Holpy.C17.CompleteStep
/-
C17 — helper lemmas, part 5: `Complete` along whole operation sequences, termination of
`_propagate` (the fuel `fuelOf` suffices, so `pending` is empty after every merge), and
completeness of `test`.
-/
namespace Holpy.C17

-- ---------------------------------------------------------------- one iteration, the loop

theorem unpop_eq {s : State} {lab : Label} {rest : List Label} (h : s.pending = lab :: rest) :
    unpop { s with pending := rest } lab = s := by
  cases s; simp only at h; subst h; rfl

theorem propStep_complete {E : Eqn → Prop} {s : State} {lab : Label} (S : Sound E s) (ok : LabelOK E lab)
    (C : Complete E (unpop s lab)) : Complete E (propStep s lab) := by
  have dl := C.dom_label ok
  unfold propStep
  dsimp only
  split
  · next heq =>
    apply Complete.congr (s' := s) C rfl rfl rfl rfl
    intro x y h
    apply PEq.transfer _ _ h
    · intro x y h; exact h
    · intro l hl
      simp only [unpop, List.mem_cons] at hl
      rcases hl with hl | hl
      · subst hl; exact .inr heq
      · exact .inl hl
  · next hne =>
    split
    · exact unionStep_complete S C (.inr rfl) rfl rfl dl.2 dl.1 (fun h => hne h.symm)
    · exact unionStep_complete S C (.inl rfl) rfl rfl dl.1 dl.2 hne

theorem propagate_complete {E : Eqn → Prop} (n : Nat) {s : State} (S : Sound E s) (C : Complete E s) :
    Complete E (propagate n s) := by
  induction n generalizing s with
  | zero => exact C
  | succ n ih =>
    unfold propagate
    split
    · exact C
    · next lab rest h =>
      have S0 : Sound E { s with pending := rest } :=
        ⟨S.rep, S.cls, S.use, S.lookup, fun l hl => S.pending l (by rw [h]; exact List.mem_cons_of_mem _ hl), S.forest⟩
      have ok : LabelOK E lab := S.pending lab (by rw [h]; simp)
      apply ih (propStep_sound S0 ok)
      apply propStep_complete S0 ok
      rw [unpop_eq h]; exact C

-- ---------------------------------------------------------------- add_var

theorem repOf_addVar (s : State) (c x : Cst) : repOf (addVar s c) x = repOf s x := by
  unfold addVar
  split
  · rfl
  · next h =>
    simp only [repOf, aget_aset]
    split
    · next hx => subst hx; cases h2 : aget s.rep c <;> simp_all
    · rfl

theorem dom_addVar_self (s : State) (c : Cst) : Dom (addVar s c) c := by
  unfold addVar Dom
  split
  · next h => exact Option.isSome_iff_exists.mp h
  · exact ⟨c, by simp [aget_aset]⟩

theorem dom_addVar {s : State} {x : Cst} (c : Cst) (h : Dom s x) : Dom (addVar s c) x := by
  unfold addVar
  split
  · exact h
  · obtain ⟨r, hr⟩ := h
    unfold Dom
    simp only [aget_aset]
    split
    · exact ⟨c, rfl⟩
    · exact ⟨r, hr⟩

theorem addVar_complete {E : Eqn → Prop} {s : State} (C : Complete E s) (c : Cst) : Complete E (addVar s c) := by
  by_cases hd : (aget s.rep c).isSome
  · simp only [addVar, hd, if_true]; exact C
  · have hnone : aget s.rep c = none := by simpa using hd
    have hr : ∀ x, repOf (addVar s c) x = repOf s x := repOf_addVar s c
    have hk : ∀ e, keyOf (addVar s c) e = keyOf s e := fun e => by simp [keyOf, hr]
    have hrep : (addVar s c).rep = aset s.rep c c := by simp [addVar, hd]
    have hcls : (addVar s c).cls = aset s.cls c [c] := by simp [addVar, hd]
    have huse : (addVar s c).use = aset s.use c [] := by simp [addVar, hd]
    have hlk : (addVar s c).lookup = s.lookup := by simp [addVar, hd]
    have hpe : (addVar s c).pending = s.pending := by simp [addVar, hd]
    have P : ∀ x y, PEq s x y → PEq (addVar s c) x y := by
      intro x y h
      apply PEq.transfer _ _ h
      · intro x y h; rw [hr, hr]; exact h
      · intro l hl; left; rw [hpe]; exact hl
    have notrep : ∀ x, aget s.rep x ≠ some c := by
      intro x h; have := C.idem x c h; rw [hnone] at this; cases this
    refine ⟨?_, ?_, ?_, ?_, ?_, ?_, ?_, ?_⟩
    · intro a b h; exact ⟨dom_addVar c (C.domc a b h).1, dom_addVar c (C.domc a b h).2⟩
    · intro e h; exact ⟨dom_addVar c (C.domf e h).1, dom_addVar c (C.domf e h).2.1, dom_addVar c (C.domf e h).2.2⟩
    · intro x r h
      rw [hrep] at h ⊢
      simp only [aget_aset] at h ⊢
      split at h
      · cases h; simp
      · have := C.idem x r h
        split
        · next h2 => subst h2; simp [hnone] at this
        · exact this
    · intro x r
      rw [hrep]
      simp only [clsOf, hcls, aget_aset]
      by_cases h1 : c = r
      · subst h1
        simp only [if_true, Option.getD_some, List.mem_singleton]
        by_cases h2 : c = x
        · simp [h2]
        · have : ¬ x = c := fun e => h2 e.symm
          simp only [h2, if_false, this, false_iff]
          exact notrep x
      · simp only [h1, if_false]
        by_cases h2 : c = x
        · subst h2
          simp only [if_true, Option.some.injEq, h1, iff_false]
          intro hx
          have := (C.cls c r).1 hx
          rw [hnone] at this; cases this
        · simp only [h2, if_false]; exact C.cls x r
    · intro e h
      obtain ⟨e', h1, h2⟩ := C.look e h
      exact ⟨e', by rw [hk, hlk]; exact h1, P _ _ h2⟩
    · intro k e' h; rw [hlk] at h; simp only [hr]; exact C.lkey k e' h
    · intro e h r hr'
      simp only [hr] at hr'
      obtain ⟨u, hu1, hu2, hu3⟩ := C.use e h r hr'
      refine ⟨u, ?_, by rw [hk, hk]; exact hu2, P _ _ hu3⟩
      have hrc : c ≠ r := by
        intro e'; subst e'
        have dd := C.domf e h
        rcases hr' with h' | h'
        · have := (C.dom_rep dd.1).2; rw [← h', hnone] at this; cases this
        · have := (C.dom_rep dd.2.1).2; rw [← h', hnone] at this; cases this
      simp only [useOf, huse, aget_aset, hrc, if_false]
      exact hu1
    · intro a b h; exact P _ _ (C.cst a b h)

-- ---------------------------------------------------------------- merges

theorem Sound.push {E : Eqn → Prop} {s : State} (S : Sound E s) {lab : Label} (ok : LabelOK E lab) :
    Sound E { s with pending := s.pending ++ [lab] } := by
  refine ⟨S.rep, S.cls, S.use, S.lookup, ?_, S.forest⟩
  intro l hl
  simp only [List.mem_append, List.mem_singleton] at hl
  rcases hl with hl | hl
  · exact S.pending l hl
  · subst hl; exact ok

theorem PEq.push {s : State} (lab : Label) {x y : Cst} (h : PEq s x y) :
    PEq { s with pending := s.pending ++ [lab] } x y := by
  apply PEq.transfer _ _ h
  · intro x y h; exact h
  · intro l hl; exact .inl (List.mem_append_left _ hl)

theorem mergeConst_complete {E E' : Eqn → Prop} {s : State} (S : Sound E s) (C : Complete E s) {a b : Cst}
    (hsub : ∀ q, E q → E' q) (hnew : E' (.c a b)) (hE' : ∀ q, E' q → E q ∨ q = .c a b) :
    Complete E' (mergeConst s a b) := by
  unfold mergeConst enqueue
  dsimp only
  have S1 : Sound E' (addVar (addVar s b) a) := ((S.mono hsub).addVar b).addVar a
  have C1 : Complete E (addVar (addVar s b) a) := addVar_complete (addVar_complete C b) a
  have da : Dom (addVar (addVar s b) a) a := dom_addVar_self _ a
  have db : Dom (addVar (addVar s b) a) b := dom_addVar a (dom_addVar_self _ b)
  generalize addVar (addVar s b) a = s1 at S1 C1 da db
  apply propagate_complete _ (S1.push (lab := .const a b) hnew)
  refine ⟨?_, ?_, C1.idem, C1.cls, ?_, C1.lkey, ?_, ?_⟩
  · intro x y h
    rcases hE' _ h with h | h
    · exact C1.domc x y h
    · cases h; exact ⟨da, db⟩
  · intro e h
    rcases hE' _ h with h | h
    · exact C1.domf e h
    · cases h
  · intro e h
    rcases hE' _ h with h | h
    · obtain ⟨e', h1, h2⟩ := C1.look e h
      exact ⟨e', h1, h2.push _⟩
    · cases h
  · intro e h r hr
    rcases hE' _ h with h | h
    · obtain ⟨u, h1, h2, h3⟩ := C1.use e h r hr
      exact ⟨u, h1, h2, h3.push _⟩
    · cases h
  · intro x y h
    rcases hE' _ h with h | h
    · exact (C1.cst x y h).push _
    · cases h
      exact PEq.pend (l := .const a b) (by simp)

theorem mergeComb_complete {E E' : Eqn → Prop} {s : State} (S : Sound E s) (C : Complete E s) {a1 a2 a : Cst}
    (hsub : ∀ q, E q → E' q) (hnew : E' (.f a1 a2 a)) (hE' : ∀ q, E' q → E q ∨ q = .f a1 a2 a) :
    Complete E' (mergeComb s a1 a2 a) := by
  unfold mergeComb
  dsimp only
  have S0 : Sound E (addVar (addVar (addVar s a) a1) a2) := ((S.addVar a).addVar a1).addVar a2
  have C1 : Complete E (addVar (addVar (addVar s a) a1) a2) :=
    addVar_complete (addVar_complete (addVar_complete C a) a1) a2
  have d2 : Dom (addVar (addVar (addVar s a) a1) a2) a2 := dom_addVar_self _ a2
  have d1 : Dom (addVar (addVar (addVar s a) a1) a2) a1 := dom_addVar a2 (dom_addVar_self _ a1)
  have d0 : Dom (addVar (addVar (addVar s a) a1) a2) a := dom_addVar a2 (dom_addVar a1 (dom_addVar_self _ a))
  generalize addVar (addVar (addVar s a) a1) a2 = s1 at S0 C1 d0 d1 d2
  have S1 : Sound E' s1 := S0.mono hsub
  have hfe : ∀ e : CEq, E' e.eqn → E e.eqn ∨ e = ⟨a1, a2, a⟩ := by
    intro e h
    rcases hE' _ h with h | h
    · exact .inl h
    · right; cases e; simp only [CEq.eqn, Eqn.f.injEq] at h; obtain ⟨h1, h2, h3⟩ := h; subst h1 h2 h3; rfl
  have hce : ∀ x y, E' (.c x y) → E (.c x y) := by
    intro x y h
    rcases hE' _ h with h | h
    · exact h
    · cases h
  split
  · next eq2 hl =>
    -- the key is already known: the new equation is linked to the stored one
    have ok : LabelOK E' (.comb ⟨a1, a2, a⟩ eq2) := by
      have := S1.lookup _ _ hl
      exact ⟨hnew, this.1, (S1.repOf a1).trans this.2.1.symm, (S1.repOf a2).trans this.2.2.symm⟩
    unfold enqueue
    dsimp only
    apply propagate_complete _ (S1.push ok)
    have hE2 : E eq2.eqn := (S0.lookup _ _ hl).1
    have hk2 : keyOf s1 eq2 = keyOf s1 ⟨a1, a2, a⟩ := by
      have := C1.lkey _ _ hl
      simp only [keyOf, Prod.mk.injEq]
      simp only [C1.rp_idem] at this
      exact this
    have hp2 : PEq { s1 with pending := s1.pending ++ [Label.comb ⟨a1, a2, a⟩ eq2] } a eq2.a :=
      PEq.pend (l := .comb ⟨a1, a2, a⟩ eq2) (by simp)
    refine ⟨fun x y h => C1.domc x y (hce x y h), ?_, C1.idem, C1.cls, ?_, C1.lkey, ?_,
      fun x y h => (C1.cst x y (hce x y h)).push _⟩
    · intro e h
      rcases hfe e h with h | h
      · exact C1.domf e h
      · subst h; exact ⟨d1, d2, d0⟩
    · intro e h
      rcases hfe e h with h | h
      · obtain ⟨e', h1, h2⟩ := C1.look e h
        exact ⟨e', h1, h2.push _⟩
      · subst h; exact ⟨eq2, hl, hp2⟩
    · intro e h r hr
      rcases hfe e h with h | h
      · obtain ⟨u, h1, h2, h3⟩ := C1.use e h r hr
        exact ⟨u, h1, h2, h3.push _⟩
      · subst h
        have hr2 : r = repOf s1 eq2.a1 ∨ r = repOf s1 eq2.a2 := by
          simp only [keyOf, Prod.mk.injEq] at hk2
          rcases hr with hr | hr
          · left; rw [hk2.1]; exact hr
          · right; rw [hk2.2]; exact hr
        obtain ⟨u, h1, h2, h3⟩ := C1.use eq2 hE2 r hr2
        exact ⟨u, h1, h2.trans hk2, (h3.push _).trans hp2.symm⟩
  · next hl =>
    -- a new key: register the equation
    generalize hs2 : ({ s1 with lookup := aset s1.lookup (repOf s1 a1, repOf s1 a2) ⟨a1, a2, a⟩, use := pushUse (pushUse s1.use (repOf s1 a1) ⟨a1, a2, a⟩) (repOf s1 a2) ⟨a1, a2, a⟩ } : State) = s2
    have h_rep : s2.rep = s1.rep := by subst hs2; rfl
    have h_cls : s2.cls = s1.cls := by subst hs2; rfl
    have h_pend : s2.pending = s1.pending := by subst hs2; rfl
    have hr : ∀ c, repOf s2 c = repOf s1 c := fun c => by simp [repOf, h_rep]
    have hk : ∀ e, keyOf s2 e = keyOf s1 e := fun e => by simp [keyOf, hr]
    have hc : ∀ c, clsOf s2 c = clsOf s1 c := fun c => by simp [clsOf, h_cls]
    have P : ∀ x y, PEq s1 x y → PEq s2 x y := by
      intro x y h
      apply PEq.transfer _ _ h
      · intro x y h; rw [hr, hr]; exact h
      · intro l hl; left; rw [h_pend]; exact hl
    have hlook : ∀ k, aget s2.lookup k = if (repOf s1 a1, repOf s1 a2) = k then some ⟨a1, a2, a⟩ else aget s1.lookup k := by
      intro k; subst hs2; exact aget_aset _ _ _ _
    have huse_keep : ∀ r u, u ∈ useOf s1 r → u ∈ useOf s2 r := by
      intro r u h; subst hs2; unfold useOf at h ⊢; exact mem_pushUse (mem_pushUse h)
    have huse1 : (⟨a1, a2, a⟩ : CEq) ∈ useOf s2 (repOf s1 a1) := by
      subst hs2; unfold useOf; exact mem_pushUse (mem_pushUse_self _ _ _)
    have huse2 : (⟨a1, a2, a⟩ : CEq) ∈ useOf s2 (repOf s1 a2) := by
      subst hs2; unfold useOf; exact mem_pushUse_self _ _ _
    refine ⟨?_, ?_, ?_, ?_, ?_, ?_, ?_, fun x y h => P _ _ (C1.cst x y (hce x y h))⟩
    · intro x y h; simpa [Dom, h_rep] using C1.domc x y (hce x y h)
    · intro e h
      rcases hfe e h with h | h
      · simpa [Dom, h_rep] using C1.domf e h
      · subst h; simpa [Dom, h_rep] using (show Dom s1 a1 ∧ Dom s1 a2 ∧ Dom s1 a from ⟨d1, d2, d0⟩)
    · intro c r h; rw [h_rep] at h ⊢; exact C1.idem c r h
    · intro c r; rw [hc, h_rep]; exact C1.cls c r
    · intro e h
      rcases hfe e h with h | h
      · obtain ⟨e', h1, h2⟩ := C1.look e h
        refine ⟨e', ?_, P _ _ h2⟩
        rw [hk, hlook]
        split
        · next hkk => rw [← hkk, hl] at h1; cases h1
        · exact h1
      · subst h
        exact ⟨⟨a1, a2, a⟩, by rw [hk, hlook]; simp [keyOf], PEq.refl _ _⟩
    · intro k e' h
      rw [hlook] at h
      simp only [hr]
      split at h
      · next hkk => cases h; subst hkk; exact ⟨(C1.rp_idem _).symm, (C1.rp_idem _).symm⟩
      · exact C1.lkey k e' h
    · intro e h r hr'
      simp only [hr] at hr'
      rcases hfe e h with h | h
      · obtain ⟨u, h1, h2, h3⟩ := C1.use e h r hr'
        exact ⟨u, huse_keep r u h1, by rw [hk, hk]; exact h2, P _ _ h3⟩
      · subst h
        refine ⟨⟨a1, a2, a⟩, ?_, rfl, PEq.refl _ _⟩
        rcases hr' with h' | h' <;> subst h'
        · exact huse1
        · exact huse2

-- ---------------------------------------------------------------- whole runs

theorem Complete.init (E : Eqn → Prop) (h : ∀ q, ¬ E q) : Complete E State.init := by
  refine ⟨fun a b he => absurd he (h _), fun e he => absurd he (h _), ?_, ?_, fun e he => absurd he (h _), ?_,
    fun e he => absurd he (h _), fun a b he => absurd he (h _)⟩
  · intro c r hc; simp [State.init, aget] at hc
  · intro c r; simp [State.init, clsOf, aget]
  · intro k e' hc; simp [State.init, aget] at hc

theorem eqsOf_snoc (ops : List Op) (op : Op) (q : Eqn) (h : eqsOf (ops ++ [op]) q) :
    eqsOf ops q ∨ (match op with
      | .add _ => False
      | .mergeC a b => q = .c a b
      | .mergeF a1 a2 a => q = .f a1 a2 a) := by
  cases q with
  | c x y =>
    simp only [eqsOf, List.mem_append, List.mem_singleton] at h ⊢
    rcases h with h | h
    · exact .inl h
    · subst h; simp
  | f x y z =>
    simp only [eqsOf, List.mem_append, List.mem_singleton] at h ⊢
    rcases h with h | h
    · exact .inl h
    · subst h; simp

theorem run_complete (ops : List Op) : Complete (eqsOf ops) (run ops) := by
  induction ops using snoc_induction with
  | nil => exact Complete.init _ (by intro q h; cases q <;> simp [eqsOf] at h)
  | snoc ops op ih =>
    rw [run_snoc]
    have S := run_sound ops
    cases op with
    | add c =>
      have : Complete (eqsOf ops) (addVar (run ops) c) := addVar_complete ih c
      refine ⟨?_, ?_, this.idem, this.cls, ?_, this.lkey, ?_, ?_⟩
      · intro a b h; exact this.domc a b (by simpa using eqsOf_snoc ops (.add c) _ h)
      · intro e h; exact this.domf e (by simpa using eqsOf_snoc ops (.add c) _ h)
      · intro e h; exact this.look e (by simpa using eqsOf_snoc ops (.add c) _ h)
      · intro e h; exact this.use e (by simpa using eqsOf_snoc ops (.add c) _ h)
      · intro a b h; exact this.cst a b (by simpa using eqsOf_snoc ops (.add c) _ h)
    | mergeC a b =>
      exact mergeConst_complete S ih (eqsOf_mono ops _) (by simp [eqsOf])
        (fun q h => by simpa using eqsOf_snoc ops (.mergeC a b) q h)
    | mergeF a1 a2 a =>
      exact mergeComb_complete S ih (eqsOf_mono ops _) (by simp [eqsOf])
        (fun q h => by simpa using eqsOf_snoc ops (.mergeF a1 a2 a) q h)

end Holpy.C17
