import Holpy.C17.CompleteProofs
/-
C17 — helper lemmas, part 4: one iteration of `_propagate` preserves `Complete`.
-/
namespace Holpy.C17

/-- The state after the proof-forest, `rep` and `class_list` updates of a union. -/
def moveClass (s : State) (a b ra rb : Cst) (lab : Label) : State :=
  { s with stuck := s.stuck || !pathComplete s.forest s.forest.length a,
           forest := addEdge s.forest a b lab,
           rep := (clsOf s ra).foldl (fun rep c => aset rep c rb) s.rep,
           cls := adel (aset s.cls rb (clsOf s rb ++ clsOf s ra)) ra }

theorem unionStep_eq (s : State) (a b ra rb : Cst) (lab : Label) :
    unionStep s a b ra rb lab =
      { (useOf s ra).foldl (useStep rb) (moveClass s a b ra rb lab) with
        use := adel ((useOf s ra).foldl (useStep rb) (moveClass s a b ra rb lab)).use ra } := rfl

theorem foldl_aset_get (ca : List Cst) (rb : Cst) (rep : List (Cst × Cst)) (c : Cst) :
    aget (ca.foldl (fun rep c => aset rep c rb) rep) c = if c ∈ ca then some rb else aget rep c := by
  induction ca generalizing rep with
  | nil => simp
  | cons x xs ih =>
    simp only [List.foldl, ih, aget_aset, List.mem_cons]
    by_cases h1 : c ∈ xs
    · simp [h1]
    · by_cases h2 : x = c
      · simp [h2]
      · have : ¬ c = x := fun e => h2 e.symm
        simp [h1, h2, this]

theorem rp_idem_of {s : State} (idem : ∀ c r, aget s.rep c = some r → aget s.rep r = some r) (c : Cst) :
    repOf s (repOf s c) = repOf s c := by
  cases h : aget s.rep c with
  | none => simp [repOf, h]
  | some r => rw [repOf_of_get h]; exact repOf_of_get (idem c r h)

/-- `s` with the label `lab` put back at the front of `pending`. -/
def unpop (s : State) (lab : Label) : State := { s with pending := lab :: s.pending }

section Union
variable {E : Eqn → Prop} {s : State} {a b ra rb : Cst} {lab : Label}

/-- Facts about `rep`/`cls` after the class has been moved. -/
structure Moved (s : State) (ra rb : Cst) (s3 : State) : Prop where
  rep : ∀ c, repOf s3 c = if repOf s c = ra then rb else repOf s c
  idem : ∀ c r, aget s3.rep c = some r → aget s3.rep r = some r
  cls : ∀ c r, c ∈ clsOf s3 r ↔ aget s3.rep c = some r
  dom : ∀ c, Dom s c → Dom s3 c

theorem moved (idem : ∀ c r, aget s.rep c = some r → aget s.rep r = some r)
    (cls : ∀ c r, c ∈ clsOf s r ↔ aget s.rep c = some r)
    (ha : aget s.rep ra = some ra) (hb : aget s.rep rb = some rb) (hne : ra ≠ rb) :
    Moved s ra rb (moveClass s a b ra rb lab) := by
  have F1 : ∀ c, aget (moveClass s a b ra rb lab).rep c = if c ∈ clsOf s ra then some rb else aget s.rep c :=
    fun c => foldl_aset_get _ _ _ _
  have hrb_notin : rb ∉ clsOf s ra := by
    intro h; rw [cls] at h; rw [hb] at h; cases h; exact hne rfl
  refine ⟨?_, ?_, ?_, ?_⟩
  · intro c
    unfold repOf
    rw [F1 c]
    cases h : aget s.rep c with
    | none =>
      have : c ∉ clsOf s ra := by intro h'; rw [cls] at h'; rw [h] at h'; cases h'
      have hc : c ≠ ra := by intro e; subst e; rw [ha] at h; cases h
      simp [this, hc]
    | some r =>
      by_cases hr : r = ra
      · subst hr
        have : c ∈ clsOf s r := (cls c r).2 h
        simp [this]
      · have : c ∉ clsOf s ra := by intro h'; rw [cls] at h'; rw [h] at h'; cases h'; exact hr rfl
        simp [this, hr]
  · intro c r h
    rw [F1] at h ⊢
    by_cases hc : c ∈ clsOf s ra
    · simp only [hc, if_true, Option.some.injEq] at h
      subst h
      simp [hrb_notin, hb]
    · simp only [hc, if_false] at h
      have hr : r ≠ ra := by intro e; subst e; exact hc ((cls c r).2 h)
      have h2 := idem c r h
      have : r ∉ clsOf s ra := by intro h'; rw [cls] at h'; rw [h2] at h'; cases h'; exact hr rfl
      simp [this, h2]
  · intro c r
    rw [F1]
    have hcl : clsOf (moveClass s a b ra rb lab) r =
        if ra = r then [] else if rb = r then clsOf s rb ++ clsOf s ra else clsOf s r := by
      simp only [clsOf, moveClass, aget_adel, aget_aset]
      by_cases h1 : ra = r
      · simp [h1]
      · by_cases h2 : rb = r
        · simp [h1, h2]
        · simp [h1, h2]
    rw [hcl]
    by_cases h1 : ra = r
    · subst h1
      simp only [if_true, List.not_mem_nil, false_iff]
      by_cases hc : c ∈ clsOf s ra
      · simp [hc, hne.symm]
      · simp only [hc, if_false]; intro h; exact hc ((cls c ra).2 h)
    · simp only [h1, if_false]
      by_cases h2 : rb = r
      · subst h2
        simp only [if_true, List.mem_append]
        by_cases hc : c ∈ clsOf s ra
        · simp [hc]
        · simp only [hc, or_false, if_false]; exact cls c rb
      · simp only [h2, if_false]
        by_cases hc : c ∈ clsOf s ra
        · simp only [hc, if_true, Option.some.injEq, h2, iff_false]
          intro h; rw [cls] at h hc; rw [h] at hc; cases hc; exact h1 rfl
        · simp only [hc, if_false]; exact cls c r
  · intro c ⟨r, hr⟩
    unfold Dom
    rw [F1]
    by_cases hc : c ∈ clsOf s ra
    · exact ⟨rb, by simp [hc]⟩
    · exact ⟨r, by simp [hc, hr]⟩

theorem Moved.mono {s3 : State} (M : Moved s ra rb s3) {x y : Cst} (h : repOf s x = repOf s y) :
    repOf s3 x = repOf s3 y := by
  rw [M.rep, M.rep, h]

/-- The union step preserves completeness.  `s` is the state with the label already popped;
the invariant is assumed for the state with the label still pending. -/
theorem unionStep_complete (S : Sound E s) (C : Complete E (unpop s lab))
    (st : Step lab a b) (hra : ra = repOf s a) (hrb : rb = repOf s b)
    (da : Dom s a) (db : Dom s b) (hne : ra ≠ rb) :
    Complete E (unionStep s a b ra rb lab) := by
  -- facts of the invariant, restated for `s`
  have idem : ∀ c r, aget s.rep c = some r → aget s.rep r = some r := C.idem
  have cls : ∀ c r, c ∈ clsOf s r ↔ aget s.rep c = some r := C.cls
  have look : ∀ e : CEq, E e.eqn → ∃ e', aget s.lookup (keyOf s e) = some e' ∧ PEq (unpop s lab) e.a e'.a := C.look
  have lkey : ∀ k e', aget s.lookup k = some e' → repOf s e'.a1 = repOf s k.1 ∧ repOf s e'.a2 = repOf s k.2 := C.lkey
  have use : ∀ e : CEq, E e.eqn → ∀ r, (r = repOf s e.a1 ∨ r = repOf s e.a2) →
      ∃ u ∈ useOf s r, keyOf s u = keyOf s e ∧ PEq (unpop s lab) u.a e.a := C.use
  have rpi : ∀ c, repOf s (repOf s c) = repOf s c := rp_idem_of idem
  have ha : aget s.rep ra = some ra := by
    obtain ⟨r, hr⟩ := da; rw [hra, repOf_of_get hr]; exact idem a r hr
  have hb : aget s.rep rb = some rb := by
    obtain ⟨r, hr⟩ := db; rw [hrb, repOf_of_get hr]; exact idem b r hr
  have M : Moved s ra rb (moveClass s a b ra rb lab) := moved idem cls ha hb hne
  rw [unionStep_eq]
  generalize hs3 : moveClass s a b ra rb lab = s3 at M
  have s3_lookup : s3.lookup = s.lookup := by subst hs3; rfl
  have s3_use : s3.use = s.use := by subst hs3; rfl
  have s3_pending : s3.pending = s.pending := by subst hs3; rfl
  have rpi3 : ∀ c, repOf s3 (repOf s3 c) = repOf s3 c := rp_idem_of M.idem
  have rp_ra : ∀ c, repOf s3 c ≠ ra := by
    intro c; rw [M.rep]; split
    · exact hne.symm
    · assumption
  have rp_a : repOf s3 a = rb := by rw [M.rep, ← hra]; simp
  have rp_b : repOf s3 b = rb := by rw [M.rep, ← hrb]; simp [hne.symm]
  have rp_rb : repOf s rb = rb := repOf_of_get hb
  have key_mono : ∀ u e : CEq, keyOf s u = keyOf s e → keyOf s3 u = keyOf s3 e := by
    intro u e h
    simp only [keyOf, Prod.mk.injEq] at h ⊢
    exact ⟨M.mono h.1, M.mono h.2⟩
  have L3 : LInv s3 := by
    intro k e' h
    rw [s3_lookup] at h
    exact ⟨M.mono (lkey k e' h).1, M.mono (lkey k e' h).2⟩
  -- the loop
  have X := foldl_useStep_ext rb (useOf s ra) s3
  have LT := foldl_useStep_linv rb (useOf s ra) rpi3 L3
  have NT : NewIn s.lookup rb ((useOf s ra).foldl (useStep rb) s3) :=
    foldl_useStep_newIn s.lookup rb (useOf s ra) (fun k v h => .inl (by rw [s3_lookup] at h; exact h))
  have RT := foldl_useStep_registered rb (useOf s ra) s3
  have UO := foldl_useStep_use_other rb (useOf s ra) s3
  generalize (useOf s ra).foldl (useStep rb) s3 = t at X LT NT RT UO
  have rpt : ∀ c, repOf t c = repOf s3 c := X.repOf
  -- the final state
  generalize hs' : ({ t with use := adel t.use ra } : State) = s'
  have s'_rep : s'.rep = s3.rep := by subst hs'; exact X.rep
  have s'_cls : s'.cls = s3.cls := by subst hs'; exact X.cls
  have s'_lookup : s'.lookup = t.lookup := by subst hs'; rfl
  have s'_pending : s'.pending = t.pending := by subst hs'; rfl
  have rp' : ∀ c, repOf s' c = repOf s3 c := fun c => by simp [repOf, s'_rep]
  have key' : ∀ e, keyOf s' e = keyOf s3 e := fun e => by simp [keyOf, rp']
  have use' : ∀ r, r ≠ ra → useOf s' r = useOf t r := by
    intro r hr; subst hs'; unfold useOf; simp only [aget_adel]; simp [Ne.symm hr]
  have use_keep : ∀ r u, r ≠ ra → u ∈ useOf s r → u ∈ useOf s' r := by
    intro r u hr hu
    rw [use' r hr]
    apply X.use
    unfold useOf at hu ⊢; rw [s3_use]; exact hu
  have lab_eq : repOf s' lab.ends.1 = repOf s' lab.ends.2 := by
    rw [rp', rp']
    rcases st with h | h <;> rw [h] <;> simp [rp_a, rp_b]
  have P : ∀ x y, PEq (unpop s lab) x y → PEq s' x y := by
    intro x y h
    apply PEq.transfer _ _ h
    · intro x y hxy; rw [rp', rp']; exact M.mono hxy
    · intro l hl
      simp only [unpop, List.mem_cons] at hl
      rcases hl with hl | hl
      · subst hl; exact .inr lab_eq
      · left; rw [s'_pending]; apply X.pending; rw [s3_pending]; exact hl
  -- lookup entry (and link) for every merged equation whose class moved
  have reg : ∀ u ∈ useOf s ra, ∃ e'', aget s'.lookup (keyOf s' u) = some e'' ∧ PEq s' u.a e''.a := by
    intro u hu
    obtain ⟨e'', h1, h2⟩ := RT u hu
    refine ⟨e'', by rw [s'_lookup, key']; exact h1, ?_⟩
    rcases h2 with h2 | h2
    · subst h2; exact PEq.refl _ _
    · have : Label.comb u e'' ∈ s'.pending := by rw [s'_pending]; exact h2
      exact PEq.pend this
  refine ⟨?_, ?_, ?_, ?_, ?_, ?_, ?_, ?_⟩
  · intro x y h
    have := C.domc x y h
    exact ⟨by unfold Dom; rw [s'_rep]; exact M.dom x this.1, by unfold Dom; rw [s'_rep]; exact M.dom y this.2⟩
  · intro e h
    have := C.domf e h
    exact ⟨by unfold Dom; rw [s'_rep]; exact M.dom _ this.1, by unfold Dom; rw [s'_rep]; exact M.dom _ this.2.1,
           by unfold Dom; rw [s'_rep]; exact M.dom _ this.2.2⟩
  · intro c r h; rw [s'_rep] at h ⊢; exact M.idem c r h
  · intro c r
    have : clsOf s' r = clsOf s3 r := by simp [clsOf, s'_cls]
    rw [this, s'_rep]; exact M.cls c r
  · -- look
    intro e he
    by_cases hk : repOf s e.a1 = ra ∨ repOf s e.a2 = ra
    · have : ∃ u ∈ useOf s ra, keyOf s u = keyOf s e ∧ PEq (unpop s lab) u.a e.a := by
        rcases hk with hk | hk
        · exact use e he ra (.inl hk.symm)
        · exact use e he ra (.inr hk.symm)
      obtain ⟨u, hu, hku, hpu⟩ := this
      obtain ⟨e'', h1, h2⟩ := reg u hu
      refine ⟨e'', ?_, ((P _ _ hpu).symm).trans h2⟩
      rw [key', ← key_mono u e hku, ← key']; exact h1
    · have h1 : repOf s e.a1 ≠ ra := fun h => hk (.inl h)
      have h2 : repOf s e.a2 ≠ ra := fun h => hk (.inr h)
      obtain ⟨e', hl, hp⟩ := look e he
      refine ⟨e', ?_, P _ _ hp⟩
      have : keyOf s' e = keyOf s e := by
        rw [key']; simp only [keyOf, M.rep]; simp [h1, h2]
      rw [this, s'_lookup]
      apply X.lookup; rw [s3_lookup]; exact hl
  · -- lkey
    intro k e' h
    rw [s'_lookup] at h
    have := LT k e' h
    simp only [rp', ← rpt]; exact this
  · -- use
    intro e he r hr
    -- generic argument for one argument position `x` of `e`
    have main : ∀ x, (x = e.a1 ∨ x = e.a2) → ∃ u ∈ useOf s' (repOf s' x), keyOf s' u = keyOf s' e ∧ PEq s' u.a e.a := by
      intro x hx
      have hxr : repOf s x = repOf s e.a1 ∨ repOf s x = repOf s e.a2 := by
        rcases hx with hx | hx <;> subst hx <;> simp
      by_cases hxa : repOf s x = ra
      · -- the class of `x` moved: its new representative is `rb`
        have hx' : repOf s' x = rb := by rw [rp', M.rep]; simp [hxa]
        obtain ⟨u, hu, hku, hpu⟩ := use e he ra (by rw [← hxa]; rcases hxr with h | h <;> simp [h])
        obtain ⟨e'', h1, h2⟩ := RT u hu
        have hk3 : keyOf s3 u = keyOf s3 e := key_mono u e hku
        -- `e''` agrees with the key of `u`
        have hke : keyOf s3 e'' = keyOf s3 u := by
          have := LT _ _ h1
          simp only [rpt, keyOf, rpi3] at this
          simp only [keyOf, Prod.mk.injEq]
          exact this
        have hpe : PEq s' e''.a u.a := by
          rcases h2 with h2 | h2
          · subst h2; exact PEq.refl _ _
          · have : Label.comb u e'' ∈ s'.pending := by rw [s'_pending]; exact h2
            exact (PEq.pend this).symm
        rw [hx']
        rcases NT _ _ h1 with hold | hnew
        · -- the entry was there before: take the stand-in of `e''` in the use list of `rb`
          have hE : E e''.eqn := (S.lookup _ _ hold).1
          have hl := lkey _ _ hold
          -- the position of `x` in the key is `rb`
          have hrb' : rb = repOf s e''.a1 ∨ rb = repOf s e''.a2 := by
            have hkx : repOf s3 x = rb := by rw [← rp']; exact hx'
            rcases hx with hx | hx
            · left
              have : (keyOf s3 u).1 = rb := by rw [hk3]; simp only [keyOf]; rw [← hx]; exact hkx
              rw [hl.1, this, rp_rb]
            · right
              have : (keyOf s3 u).2 = rb := by rw [hk3]; simp only [keyOf]; rw [← hx]; exact hkx
              rw [hl.2, this, rp_rb]
          obtain ⟨v, hv, hkv, hpv⟩ := use e'' hE rb hrb'
          refine ⟨v, use_keep rb v hne.symm hv, ?_, ?_⟩
          · rw [key', key', key_mono v e'' hkv, hke, hk3]
          · exact ((P _ _ hpv).trans hpe).trans (P _ _ hpu)
        · -- the entry was made by this loop: it is in the use list of `rb`
          refine ⟨e'', by rw [use' rb hne.symm]; exact hnew, ?_, hpe.trans (P _ _ hpu)⟩
          rw [key', key', hke, hk3]
      · -- the class of `x` did not move
        have hx' : repOf s' x = repOf s x := by rw [rp', M.rep]; simp [hxa]
        obtain ⟨u, hu, hku, hpu⟩ := use e he (repOf s x) (by rcases hxr with h | h <;> simp [h])
        rw [hx']
        refine ⟨u, use_keep _ u hxa hu, ?_, P _ _ hpu⟩
        rw [key', key']; exact key_mono u e hku
    rcases hr with hr | hr
    · subst hr; exact main e.a1 (.inl rfl)
    · subst hr; exact main e.a2 (.inr rfl)
  · intro x y h; exact P _ _ (C.cst x y h)

end Union

end Holpy.C17
