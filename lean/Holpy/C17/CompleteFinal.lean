import Holpy.C17.CompleteRun
/-
C17 — helper lemmas, part 6: `_propagate` terminates with `pending` empty (the fuel `fuelOf`
suffices), entered constants stay entered, and `test` is complete.
-/
namespace Holpy.C17

-- ---------------------------------------------------------------- termination of _propagate

theorem useTotal_aset_push (use : List (Cst × List CEq)) (r : Cst) (e : CEq) :
    useTotal (aset use r ((aget use r).getD [] ++ [e])) = useTotal use + 1 := by
  induction use with
  | nil => simp [aset, aget, useTotal]
  | cons p rest ih =>
    obtain ⟨k, w⟩ := p
    by_cases h : k = r
    · subst h; simp [aset, aget, useTotal]; omega
    · simp only [aset, aget, h, if_false, useTotal, List.map_cons, List.sum_cons] at ih ⊢
      omega

theorem useTotal_pushUse (use : List (Cst × List CEq)) (r : Cst) (e : CEq) :
    useTotal (pushUse use r e) = useTotal use + 1 := useTotal_aset_push use r e

theorem useTotal_adel (use : List (Cst × List CEq)) (r : Cst) :
    useTotal (adel use r) + ((aget use r).getD []).length ≤ useTotal use := by
  induction use with
  | nil => simp [adel, aget, useTotal]
  | cons p rest ih =>
    obtain ⟨k, w⟩ := p
    unfold adel at ih ⊢
    by_cases h : k = r
    · subst h
      have : useTotal (List.filter (fun p => !decide (p.1 = k)) rest) ≤ useTotal rest := by
        have := ih; omega
      simp only [List.filter, decide_true, Bool.not_true, aget, if_true, Option.getD_some, useTotal,
        List.map_cons, List.sum_cons] at this ⊢
      omega
    · simp only [List.filter, h, decide_false, Bool.not_false, aget, if_false, useTotal, List.map_cons,
        List.sum_cons] at ih ⊢
      omega

theorem useStep_fuel (rb : Cst) (t : State) (u : CEq) : fuelOf (useStep rb t u) = fuelOf t + 1 := by
  unfold useStep fuelOf
  dsimp only
  split
  · simp; omega
  · simp only [useTotal_pushUse]; omega

theorem foldl_useStep_fuel (rb : Cst) (l : List CEq) (t : State) :
    fuelOf (l.foldl (useStep rb) t) = fuelOf t + l.length := by
  induction l generalizing t with
  | nil => simp
  | cons x xs ih => simp only [List.foldl, ih, useStep_fuel, List.length_cons]; omega

theorem unionStep_fuel (s : State) (a b ra rb : Cst) (lab : Label) (hne : ra ≠ rb) :
    fuelOf (unionStep s a b ra rb lab) ≤ fuelOf s := by
  rw [unionStep_eq]
  have h1 := foldl_useStep_fuel rb (useOf s ra) (moveClass s a b ra rb lab)
  have h2 := foldl_useStep_use_other rb (useOf s ra) (moveClass s a b ra rb lab) ra hne
  generalize (useOf s ra).foldl (useStep rb) (moveClass s a b ra rb lab) = t at h1 h2
  have h3 := useTotal_adel t.use ra
  have h4 : fuelOf (moveClass s a b ra rb lab) = fuelOf s := rfl
  have h5 : (aget t.use ra).getD [] = useOf s ra := by rw [h2]; rfl
  rw [h5] at h3
  rw [h4] at h1
  simp only [fuelOf] at h1 ⊢
  omega

theorem propStep_fuel (s : State) (lab : Label) : fuelOf (propStep s lab) ≤ fuelOf s := by
  unfold propStep
  dsimp only
  split
  · exact Nat.le_refl _
  · next hne =>
    split
    · exact unionStep_fuel _ _ _ _ _ _ (fun h => hne h.symm)
    · exact unionStep_fuel _ _ _ _ _ _ hne

/-- The fuel handed to `_propagate` by `merge` always suffices: `pending` ends up empty. -/
theorem propagate_pending_nil (n : Nat) (s : State) (h : fuelOf s ≤ n) : (propagate n s).pending = [] := by
  induction n generalizing s with
  | zero =>
    have : s.pending.length = 0 := by simp only [fuelOf] at h; omega
    simpa [propagate] using this
  | succ n ih =>
    unfold propagate
    split
    · assumption
    · next lab rest hp =>
      apply ih
      have h1 := propStep_fuel { s with pending := rest } lab
      have h2 : fuelOf { s with pending := rest } + 1 = fuelOf s := by simp [fuelOf, hp]; omega
      omega

theorem enqueue_pending_nil (s : State) (l : Label) : (enqueue s l).pending = [] := by
  unfold enqueue
  exact propagate_pending_nil _ _ (Nat.le_refl _)

theorem addVar_pending (s : State) (c : Cst) : (addVar s c).pending = s.pending := by
  unfold addVar; split <;> rfl

theorem run_pending_nil (ops : List Op) : (run ops).pending = [] := by
  induction ops using snoc_induction with
  | nil => rfl
  | snoc ops op ih =>
    rw [run_snoc]
    cases op with
    | add c => simp only [applyOp, addVar_pending, ih]
    | mergeC a b => exact enqueue_pending_nil _ _
    | mergeF a1 a2 a =>
      simp only [applyOp, mergeComb]
      split
      · exact enqueue_pending_nil _ _
      · simp only [addVar_pending, ih]

-- ---------------------------------------------------------------- entered constants stay entered

theorem dom_unionStep {s : State} {x : Cst} (a b ra rb : Cst) (lab : Label) (h : Dom s x) :
    Dom (unionStep s a b ra rb lab) x := by
  rw [unionStep_eq]
  have X := foldl_useStep_ext rb (useOf s ra) (moveClass s a b ra rb lab)
  unfold Dom at h ⊢
  simp only [X.rep]
  obtain ⟨r, hr⟩ := h
  show ∃ r, aget ((clsOf s ra).foldl (fun rep c => aset rep c rb) s.rep) x = some r
  rw [foldl_aset_get]
  split
  · exact ⟨rb, rfl⟩
  · exact ⟨r, hr⟩

theorem dom_propagate {x : Cst} (n : Nat) {s : State} (h : Dom s x) : Dom (propagate n s) x := by
  induction n generalizing s with
  | zero => exact h
  | succ n ih =>
    unfold propagate
    split
    · exact h
    · apply ih
      unfold propStep
      dsimp only
      split
      · exact h
      · split
        · exact dom_unionStep _ _ _ _ _ h
        · exact dom_unionStep _ _ _ _ _ h

theorem dom_enqueue {s : State} {x : Cst} (l : Label) (h : Dom s x) : Dom (enqueue s l) x := by
  unfold enqueue; exact dom_propagate _ h

theorem dom_applyOp {s : State} {x : Cst} (op : Op) (h : Dom s x) : Dom (applyOp s op) x := by
  cases op with
  | add c => exact dom_addVar c h
  | mergeC a b => exact dom_enqueue _ (dom_addVar a (dom_addVar b h))
  | mergeF a1 a2 a =>
    have h3 : Dom (addVar (addVar (addVar s a) a1) a2) x := dom_addVar a2 (dom_addVar a1 (dom_addVar a h))
    simp only [applyOp, mergeComb]
    split
    · exact dom_enqueue _ h3
    · exact h3

theorem dom_applyOp_new (s : State) (op : Op) {x : Cst} (h : x ∈ op.consts) : Dom (applyOp s op) x := by
  cases op with
  | add c =>
    simp only [Op.consts, List.mem_singleton] at h; subst h; exact dom_addVar_self s x
  | mergeC a b =>
    have h2 : Dom (addVar (addVar s b) a) x := by
      simp only [Op.consts, List.mem_cons, List.not_mem_nil, or_false] at h
      rcases h with h | h <;> subst h
      · exact dom_addVar_self _ _
      · exact dom_addVar _ (dom_addVar_self _ _)
    exact dom_enqueue _ h2
  | mergeF a1 a2 a =>
    have h3 : Dom (addVar (addVar (addVar s a) a1) a2) x := by
      simp only [Op.consts, List.mem_cons, List.not_mem_nil, or_false] at h
      rcases h with h | h | h <;> subst h
      · exact dom_addVar _ (dom_addVar_self _ _)
      · exact dom_addVar_self _ _
      · exact dom_addVar _ (dom_addVar _ (dom_addVar_self _ _))
    simp only [applyOp, mergeComb]
    split
    · exact dom_enqueue _ h3
    · exact h3

theorem run_dom (ops : List Op) {x : Cst} (h : entered ops x) : Dom (run ops) x := by
  induction ops using snoc_induction with
  | nil => obtain ⟨op, hop, _⟩ := h; simp at hop
  | snoc ops op ih =>
    rw [run_snoc]
    obtain ⟨op', hop, hx⟩ := h
    simp only [List.mem_append, List.mem_singleton] at hop
    rcases hop with hop | hop
    · exact dom_applyOp op (ih ⟨op', hop, hx⟩)
    · subst hop; exact dom_applyOp_new _ _ hx

-- ---------------------------------------------------------------- completeness

/-- With `pending` empty, `rep x = rep y` contains the congruence closure. -/
theorem Complete.cl_rep {E : Eqn → Prop} {s : State} (C : Complete E s) (hn : s.pending = [])
    {x y : Cst} (h : Cl E x y) : repOf s x = repOf s y := by
  induction h with
  | base h => exact (C.cst _ _ h).rep_of_nil hn
  | refl a => rfl
  | symm _ ih => exact ih.symm
  | trans _ _ ih1 ih2 => exact ih1.trans ih2
  | @cong a1 a2 a b1 b2 b h1 h2 _ _ ih1 ih2 =>
    obtain ⟨e1, hl1, hp1⟩ := C.look ⟨a1, a2, a⟩ h1
    obtain ⟨e2, hl2, hp2⟩ := C.look ⟨b1, b2, b⟩ h2
    have hk : keyOf s ⟨a1, a2, a⟩ = keyOf s ⟨b1, b2, b⟩ := by simp only [keyOf, ih1, ih2]
    rw [hk, hl2] at hl1
    cases hl1
    exact (hp1.rep_of_nil hn).trans (hp2.rep_of_nil hn).symm

theorem test_complete_of {E : Eqn → Prop} {s : State} (C : Complete E s) (hn : s.pending = [])
    {a b : Cst} (da : Dom s a) (db : Dom s b) (h : Cl E a b) : test s a b = .ok true := by
  obtain ⟨ra, hra⟩ := da
  obtain ⟨rb, hrb⟩ := db
  have := C.cl_rep hn h
  rw [repOf_of_get hra, repOf_of_get hrb] at this
  simp [test, hra, hrb, this]

/-- `test` on entered constants always answers (no KeyError). -/
theorem test_ok_of_dom {s : State} {a b : Cst} (da : Dom s a) (db : Dom s b) :
    ∃ v, test s a b = .ok v := by
  obtain ⟨ra, hra⟩ := da
  obtain ⟨rb, hrb⟩ := db
  exact ⟨decide (ra = rb), by simp [test, hra, hrb]⟩


-- ---------------------------------------------------------------- only entered constants are keys

/-- Every key of `rep` and every member of a class list satisfies `P`. -/
structure KeysIn (P : Cst → Prop) (s : State) : Prop where
  rep : ∀ c, Dom s c → P c
  cls : ∀ r c, c ∈ clsOf s r → P c

theorem KeysIn.addVar {P : Cst → Prop} {s : State} (K : KeysIn P s) {c : Cst} (hc : P c) : KeysIn P (addVar s c) := by
  unfold Holpy.C17.addVar
  split
  · exact K
  · constructor
    · intro x ⟨r, hr⟩
      simp only [aget_aset] at hr
      split at hr
      · subst_vars; exact hc
      · exact K.rep x ⟨r, hr⟩
    · intro r x hx
      simp only [clsOf, aget_aset] at hx
      split at hx
      · simp at hx; subst hx; exact hc
      · exact K.cls r x hx

theorem KeysIn.unionStep {P : Cst → Prop} {s : State} (K : KeysIn P s) (a b ra rb : Cst) (lab : Label) :
    KeysIn P (unionStep s a b ra rb lab) := by
  rw [unionStep_eq]
  have X := foldl_useStep_ext rb (useOf s ra) (moveClass s a b ra rb lab)
  constructor
  · intro x ⟨r, hr⟩
    simp only [X.rep] at hr
    have hr' : aget ((clsOf s ra).foldl (fun rep c => aset rep c rb) s.rep) x = some r := hr
    rw [foldl_aset_get] at hr'
    split at hr'
    · next hm => exact K.cls ra x hm
    · exact K.rep x ⟨r, hr'⟩
  · intro r x hx
    simp only [clsOf, X.cls] at hx
    have hx' : x ∈ (aget (adel (aset s.cls rb (clsOf s rb ++ clsOf s ra)) ra) r).getD [] := hx
    simp only [aget_adel, aget_aset] at hx'
    split at hx'
    · simp at hx'
    · split at hx'
      · simp only [Option.getD_some, List.mem_append] at hx'
        rcases hx' with h | h
        · exact K.cls rb x h
        · exact K.cls ra x h
      · exact K.cls r x hx'

theorem KeysIn.propagate {P : Cst → Prop} (n : Nat) {s : State} (K : KeysIn P s) : KeysIn P (propagate n s) := by
  induction n generalizing s with
  | zero => exact K
  | succ n ih =>
    unfold Holpy.C17.propagate
    split
    · exact K
    · next lab rest _ =>
      apply ih
      have K0 : KeysIn P { s with pending := rest } := ⟨K.rep, K.cls⟩
      unfold propStep
      dsimp only
      split
      · exact K0
      · split
        · exact K0.unionStep _ _ _ _ _
        · exact K0.unionStep _ _ _ _ _

theorem KeysIn.enqueue {P : Cst → Prop} {s : State} (K : KeysIn P s) (l : Label) : KeysIn P (enqueue s l) := by
  unfold Holpy.C17.enqueue
  exact KeysIn.propagate _ ⟨K.rep, K.cls⟩

theorem KeysIn.applyOp {P : Cst → Prop} {s : State} (K : KeysIn P s) (op : Op) (h : ∀ c ∈ op.consts, P c) :
    KeysIn P (applyOp s op) := by
  cases op with
  | add c => exact K.addVar (h c (by simp [Op.consts]))
  | mergeC a b =>
    exact ((K.addVar (h b (by simp [Op.consts]))).addVar (h a (by simp [Op.consts]))).enqueue _
  | mergeF a1 a2 a =>
    have K3 := ((K.addVar (h a (by simp [Op.consts]))).addVar (h a1 (by simp [Op.consts]))).addVar (h a2 (by simp [Op.consts]))
    simp only [Holpy.C17.applyOp, mergeComb]
    split
    · exact K3.enqueue _
    · exact ⟨K3.rep, K3.cls⟩

theorem run_keysIn (ops : List Op) : KeysIn (entered ops) (run ops) := by
  induction ops using snoc_induction with
  | nil => exact ⟨fun c ⟨r, hr⟩ => by simp [run, State.init, aget] at hr, fun r c h => by simp [run, State.init, clsOf, aget] at h⟩
  | snoc ops op ih =>
    rw [run_snoc]
    have mono : ∀ c, entered ops c → entered (ops ++ [op]) c :=
      fun c ⟨o, ho, hc⟩ => ⟨o, List.mem_append_left _ ho, hc⟩
    have K : KeysIn (entered (ops ++ [op])) (run ops) := ⟨fun c h => mono c (ih.rep c h), fun r c h => mono c (ih.cls r c h)⟩
    exact K.applyOp op (fun c hc => ⟨op, by simp, hc⟩)

/-- `test` raises KeyError exactly when one of the constants was never entered. -/
theorem test_error_of_not_dom {s : State} {a b : Cst} (h : ¬ Dom s a ∨ ¬ Dom s b) : test s a b = .error .key := by
  unfold test
  split
  · next ra rb h1 h2 =>
    rcases h with h | h
    · exact absurd ⟨ra, h1⟩ h
    · exact absurd ⟨rb, h2⟩ h
  · rfl

theorem Cl.congr_set {E E' : Eqn → Prop} (h : ∀ q, E q ↔ E' q) {a b : Cst} : Cl E a b ↔ Cl E' a b :=
  ⟨Cl.mono (fun q => (h q).1), Cl.mono (fun q => (h q).2)⟩

end Holpy.C17
