import Holpy.C17.HolSpec
import Holpy.C17.CompleteFinal
/-
C17 — helper lemmas, part 9: the bookkeeping invariant of the HOL wrapper model.
-/
namespace Holpy.C17

def Term.size : Term → Nat
  | .atom _ => 1
  | .app f x => f.size + x.size + 1

structure WInv (E : Term → Term → Prop) (w : WState) : Prop where
  run : w.closure = Holpy.C17.run w.log
  rev_index : ∀ t k, aget w.rev t = some k ↔ aget w.index k = some t
  bound : ∀ k t, aget w.index k = some t → k ≤ w.num
  sub : ∀ f x k, aget w.rev (.app f x) = some k →
    ∃ kf kx, aget w.rev f = some kf ∧ aget w.rev x = some kx ∧ Op.mergeF kf kx k ∈ w.log
  logF : ∀ kf kx k, Op.mergeF kf kx k ∈ w.log →
    ∃ f x, aget w.index kf = some f ∧ aget w.index kx = some x ∧ aget w.index k = some (.app f x)
  logC : ∀ a b, Op.mergeC a b ∈ w.log → ∃ s t, aget w.index a = some s ∧ aget w.index b = some t ∧ E s t
  eqs : ∀ s t, E s t → ∃ ks kt, aget w.rev s = some ks ∧ aget w.rev t = some kt ∧ Op.mergeC ks kt ∈ w.log
  ent : ∀ k t, aget w.index k = some t → entered w.log k

theorem WInv.init : WInv (fun _ _ => False) WState.init := by
  refine ⟨rfl, ?_, ?_, ?_, ?_, ?_, ?_, ?_⟩ <;> intros <;> simp_all [WState.init, aget]

theorem WInv.mono {E E' : Term → Term → Prop} {w : WState} (W : WInv E w) (h : ∀ s t, E s t → E' s t)
    (h' : ∀ s t, E' s t → E s t) : WInv E' w :=
  ⟨W.run, W.rev_index, W.bound, W.sub, W.logF,
   fun a b hm => let ⟨s, t, h1, h2, h3⟩ := W.logC a b hm; ⟨s, t, h1, h2, h _ _ h3⟩,
   fun s t he => W.eqs s t (h' _ _ he), W.ent⟩

/-- `w'` is `w` after `add_const(t0)` (new constant `k`) followed by the core operations `extra`. -/
structure Fresh (w w' : WState) (t0 : Term) (k : Cst) (extra : List Op) : Prop where
  num : w'.num = k
  knew : k = w.num + 1
  rev : ∀ t, aget w'.rev t = if t0 = t then some k else aget w.rev t
  index : ∀ j, aget w'.index j = if k = j then some t0 else aget w.index j
  log : w'.log = w.log ++ (.add k :: extra)
  closure : w'.closure = extra.foldl applyOp (applyOp w.closure (.add k))

theorem addConst_fresh (w : WState) (t0 : Term) : Fresh w (addConst w t0).1 t0 (addConst w t0).2 [] := by
  refine ⟨rfl, rfl, ?_, ?_, rfl, rfl⟩
  · intro t; exact aget_aset _ _ _ _
  · intro j; exact aget_aset _ _ _ _

theorem Fresh.core {w w' : WState} {t0 : Term} {k : Cst} (F : Fresh w w' t0 k []) (op : Op) :
    Fresh w (w'.core op) t0 k [op] :=
  ⟨F.num, F.knew, F.rev, F.index, by simp [WState.core, F.log], by simp [WState.core, F.closure]⟩

/-- Monotonicity facts about one `add_term`. -/
structure Grows (w w' : WState) (t : Term) (k : Cst) : Prop where
  here : aget w'.rev t = some k
  keep : ∀ t' k', aget w.rev t' = some k' → aget w'.rev t' = some k'
  log : ∀ op ∈ w.log, op ∈ w'.log
  nomerge : ∀ a b, Op.mergeC a b ∈ w'.log → Op.mergeC a b ∈ w.log
  small : ∀ t' k', aget w'.rev t' = some k' → aget w.rev t' = some k' ∨ t'.size ≤ t.size

theorem nat_fresh {k n : Nat} (h : k = n + 1) (h2 : k ≤ n) : False := by omega

theorem entered_mono {ops ops' : List Op} (h : ∀ op ∈ ops, op ∈ ops') {k : Cst} (e : entered ops k) : entered ops' k := by
  obtain ⟨op, h1, h2⟩ := e; exact ⟨op, h _ h1, h2⟩

/-- Entering a fresh term (an atom, or an application whose parts are there) preserves the invariant. -/
theorem WInv.addFresh {E : Term → Term → Prop} {w w' : WState} (W : WInv E w) {t0 : Term} {k : Cst} {extra : List Op}
    (hn : aget w.rev t0 = none) (F : Fresh w w' t0 k extra)
    (hx : ∀ op ∈ extra, ∃ f x kf kx, t0 = .app f x ∧ op = .mergeF kf kx k ∧ aget w.rev f = some kf ∧ aget w.rev x = some kx)
    (hs : ∀ f x, t0 = .app f x → ∃ kf kx, aget w.rev f = some kf ∧ aget w.rev x = some kx ∧ Op.mergeF kf kx k ∈ extra) :
    WInv E w' := by
  have hk : aget w.index k = none := by
    cases h : aget w.index k with
    | none => rfl
    | some t => exact (nat_fresh F.knew (W.bound k t h)).elim
  have lg : ∀ op ∈ w.log, op ∈ w'.log := fun op h => by rw [F.log]; exact List.mem_append_left _ h
  have ne : ∀ {i u}, aget w.index i = some u → ¬ k = i := fun hi e => by subst e; rw [hk] at hi; cases hi
  have keep : ∀ {t j}, aget w.rev t = some j → aget w'.rev t = some j := by
    intro t j h; rw [F.rev]; split
    · subst_vars; rw [hn] at h; cases h
    · exact h
  have keepi : ∀ {i u}, aget w.index i = some u → aget w'.index i = some u := by
    intro i u h; rw [F.index, if_neg (ne h)]; exact h
  refine ⟨?_, ?_, ?_, ?_, ?_, ?_, ?_, ?_⟩
  · rw [F.closure, F.log, W.run]; simp [Holpy.C17.run, List.foldl_append]
  · intro t j
    rw [F.rev, F.index]
    by_cases h1 : t0 = t
    · subst h1
      by_cases h2 : k = j
      · simp [h2]
      · rw [if_pos rfl, if_neg h2]
        constructor
        · intro e; exact absurd (Option.some.inj e) h2
        · intro e; have := (W.rev_index _ _).2 e; rw [hn] at this; cases this
    · by_cases h2 : k = j
      · subst h2
        rw [if_neg h1, if_pos rfl]
        constructor
        · intro e; have := (W.rev_index _ _).1 e; rw [hk] at this; cases this
        · intro e; exact absurd (Option.some.inj e) h1
      · simp only [h1, h2, if_false]; exact W.rev_index t j
  · intro j t h
    rw [F.index] at h
    split at h
    · subst_vars; rw [F.num]; exact Nat.le_refl _
    · have := W.bound j t h; rw [F.num, F.knew]; exact Nat.le_succ_of_le this
  · intro f x j h
    rw [F.rev] at h
    split at h
    · next h0 =>
      cases h
      obtain ⟨kf, kx, h1, h2, h3⟩ := hs f x h0
      exact ⟨kf, kx, keep h1, keep h2, by rw [F.log]; simp [h3]⟩
    · obtain ⟨kf, kx, h1, h2, h3⟩ := W.sub f x j h
      exact ⟨kf, kx, keep h1, keep h2, lg _ h3⟩
  · intro kf kx j h
    rw [F.log] at h
    simp only [List.mem_append, List.mem_cons, reduceCtorEq, false_or] at h
    rcases h with h | h
    · obtain ⟨f, x, h1, h2, h3⟩ := W.logF kf kx j h
      exact ⟨f, x, keepi h1, keepi h2, keepi h3⟩
    · obtain ⟨f, x, kf', kx', e0, e1, e2, e3⟩ := hx _ h
      cases e1
      refine ⟨f, x, keepi ((W.rev_index _ _).1 e2), keepi ((W.rev_index _ _).1 e3), ?_⟩
      rw [F.index, if_pos rfl, e0]
  · intro a b h
    rw [F.log] at h
    simp only [List.mem_append, List.mem_cons, reduceCtorEq, false_or] at h
    rcases h with h | h
    · obtain ⟨s, t, h1, h2, h3⟩ := W.logC a b h
      exact ⟨s, t, keepi h1, keepi h2, h3⟩
    · obtain ⟨f, x, kf', kx', _, e1, _, _⟩ := hx _ h
      cases e1
  · intro s t he
    obtain ⟨ks, kt, h1, h2, h3⟩ := W.eqs s t he
    exact ⟨ks, kt, keep h1, keep h2, lg _ h3⟩
  · intro j t h
    rw [F.index] at h
    split at h
    · next hkj => rw [← hkj]; exact ⟨.add k, by rw [F.log]; simp, by simp [Op.consts]⟩
    · exact entered_mono lg (W.ent j t h)

theorem Grows.refl {w : WState} {t : Term} {k : Cst} (h : aget w.rev t = some k) : Grows w w t k :=
  ⟨h, fun _ _ h => h, fun _ h => h, fun _ _ h => h, fun _ _ h => .inl h⟩

/-- `add_term(t)` preserves the invariant, returns the constant of `t`, and only adds subterms of `t`. -/
theorem addTerm_inv {E : Term → Term → Prop} (t : Term) {w : WState} (W : WInv E w) :
    WInv E (addTerm t w).1 ∧ Grows w (addTerm t w).1 t (addTerm t w).2 := by
  induction t generalizing w with
  | atom n =>
    unfold addTerm
    split
    · next k hk => exact ⟨W, Grows.refl hk⟩
    · next hn =>
      have F := addConst_fresh w (.atom n)
      refine ⟨W.addFresh hn F (by simp) (by intro f x h; cases h), ?_⟩
      refine ⟨by rw [F.rev]; simp, ?_, ?_, ?_, ?_⟩
      · intro t' k' h; rw [F.rev]; split
        · subst_vars; rw [hn] at h; cases h
        · exact h
      · intro op h; rw [F.log]; exact List.mem_append_left _ h
      · intro a b h; rw [F.log] at h; simpa using h
      · intro t' k' h; rw [F.rev] at h; split at h
        · subst_vars; exact .inr (Nat.le_refl _)
        · exact .inl h
  | app f x ihf ihx =>
    unfold addTerm
    split
    · next k hk => exact ⟨W, Grows.refl hk⟩
    · next hn =>
      dsimp only
      obtain ⟨W1, G1⟩ := ihf W
      obtain ⟨W2, G2⟩ := ihx W1
      generalize (addTerm f w).1 = w1 at W1 G1 W2 G2
      generalize (addTerm f w).2 = kf at G1
      generalize (addTerm x w1).1 = w2 at W2 G2
      generalize (addTerm x w1).2 = kx at G2
      have hn2 : aget w2.rev (.app f x) = none := by
        cases h : aget w2.rev (.app f x) with
        | none => rfl
        | some j =>
          rcases G2.small _ _ h with h' | h'
          · rcases G1.small _ _ h' with h'' | h''
            · rw [hn] at h''; cases h''
            · simp only [Term.size] at h''; omega
          · simp only [Term.size] at h'; omega
      have F := (addConst_fresh w2 (.app f x)).core (.mergeF kf kx (addConst w2 (.app f x)).2)
      generalize (addConst w2 (.app f x)).1 = w3 at F
      generalize (addConst w2 (.app f x)).2 = k at F
      have hf2 : aget w2.rev f = some kf := G2.keep _ _ G1.here
      have hx2 : aget w2.rev x = some kx := G2.here
      refine ⟨W2.addFresh hn2 F ?_ ?_, ?_⟩
      · intro op hop
        simp only [List.mem_singleton] at hop
        exact ⟨f, x, kf, kx, rfl, hop, hf2, hx2⟩
      · intro f' x' h; cases h; exact ⟨kf, kx, hf2, hx2, by simp⟩
      · refine ⟨by rw [F.rev]; simp, ?_, ?_, ?_, ?_⟩
        · intro t' k' h
          have h2 := G2.keep _ _ (G1.keep _ _ h)
          rw [F.rev]; split
          · subst_vars; rw [hn2] at h2; cases h2
          · exact h2
        · intro op h; rw [F.log]; exact List.mem_append_left _ (G2.log _ (G1.log _ h))
        · intro a b h
          rw [F.log] at h
          simp only [List.mem_append, List.mem_cons, reduceCtorEq, false_or, List.not_mem_nil, or_false] at h
          exact G1.nomerge _ _ (G2.nomerge _ _ h)
        · intro t' k' h
          rw [F.rev] at h
          split at h
          · subst_vars; exact .inr (Nat.le_refl _)
          · rcases G2.small _ _ h with h' | h'
            · rcases G1.small _ _ h' with h'' | h''
              · exact .inl h''
              · right; simp only [Term.size]; omega
            · right; simp only [Term.size]; omega

end Holpy.C17
