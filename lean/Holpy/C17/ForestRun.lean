import Holpy.C17.ForestInv
/-
C17 — helper lemmas, part 14: the proof-forest invariant holds in every reachable state.
-/
namespace Holpy.C17

theorem useStep_stuck (rb : Cst) (t : State) (u : CEq) : (useStep rb t u).stuck = t.stuck := by
  unfold useStep; dsimp only; split <;> rfl

theorem foldl_useStep_stuck (rb : Cst) (l : List CEq) (t : State) : (l.foldl (useStep rb) t).stuck = t.stuck := by
  induction l generalizing t with
  | nil => rfl
  | cons x xs ih => simp only [List.foldl, ih, useStep_stuck]

/-- The invariant only looks at `forest`, `rep` and `stuck`. -/
theorem ForestInv.congr {s s' : State} (F : ForestInv s) (h1 : s'.forest = s.forest) (h2 : s'.rep = s.rep)
    (h3 : s'.stuck = s.stuck) : ForestInv s' := by
  have hr : ∀ c, repOf s' c = repOf s c := fun c => by simp [repOf, h2]
  have hd : ∀ c, Dom s' c ↔ Dom s c := fun c => by simp [Dom, h2]
  refine ⟨?_, ?_, ?_, ?_, by rw [h3]; exact F.notstuck⟩
  · intro c; rw [hd, h1]; exact F.keys c
  · intro c p l h; rw [h1] at h; rw [hd, hr, hr]; exact F.par c p l h
  · rw [h1]; exact F.ranked
  · intro x y hx hy hxy; rw [h1] at hx hy; rw [hr, hr] at hxy; exact F.roots x y hx hy hxy

theorem unionStep_forest {E : Eqn → Prop} {s : State} {a b ra rb : Cst} {lab : Label}
    (C : Complete E (unpop s lab)) (F : ForestInv s)
    (hra : ra = repOf s a) (hrb : rb = repOf s b) (da : Dom s a) (db : Dom s b) (hne : ra ≠ rb) :
    ForestInv (unionStep s a b ra rb lab) := by
  have idem : ∀ c r, aget s.rep c = some r → aget s.rep r = some r := C.idem
  have cls : ∀ c r, c ∈ clsOf s r ↔ aget s.rep c = some r := C.cls
  have ha : aget s.rep ra = some ra := by
    obtain ⟨r, hr⟩ := da; rw [hra, repOf_of_get hr]; exact idem a r hr
  have hb : aget s.rep rb = some rb := by
    obtain ⟨r, hr⟩ := db; rw [hrb, repOf_of_get hr]; exact idem b r hr
  have M : Moved s ra rb (moveClass s a b ra rb lab) := moved idem cls ha hb hne
  have X := foldl_useStep_ext rb (useOf s ra) (moveClass s a b ra rb lab)
  have ST := foldl_useStep_stuck rb (useOf s ra) (moveClass s a b ra rb lab)
  apply forest_union F (a := a) (b := b) (ra := ra) (rb := rb) (lab := lab)
  · rw [unionStep_eq]; exact X.forest
  · intro c
    have : repOf (unionStep s a b ra rb lab) c = repOf (moveClass s a b ra rb lab) c := by
      rw [unionStep_eq]; exact X.repOf c
    rw [this]; exact M.rep c
  · intro c
    have hd : Dom (unionStep s a b ra rb lab) c ↔ Dom (moveClass s a b ra rb lab) c := by
      rw [unionStep_eq]; unfold Dom; simp only [X.rep]
    rw [hd]
    constructor
    · rintro ⟨r, hr⟩
      have hr' : aget ((clsOf s ra).foldl (fun rep c => aset rep c rb) s.rep) c = some r := hr
      rw [foldl_aset_get] at hr'
      split at hr'
      · next hm => exact ⟨ra, (cls c ra).1 hm⟩
      · exact ⟨r, hr'⟩
    · exact M.dom c
  · rw [unionStep_eq]; exact ST
  · exact da
  · exact db
  · exact hra.symm
  · exact hrb.symm
  · exact hne

theorem propStep_forest {E : Eqn → Prop} {s : State} {lab : Label} (ok : LabelOK E lab)
    (C : Complete E (unpop s lab)) (F : ForestInv s) : ForestInv (propStep s lab) := by
  have dl := C.dom_label ok
  unfold propStep
  dsimp only
  split
  · exact F
  · next hne =>
    split
    · exact unionStep_forest C F rfl rfl dl.2 dl.1 (fun h => hne h.symm)
    · exact unionStep_forest C F rfl rfl dl.1 dl.2 hne

theorem propagate_forest {E : Eqn → Prop} (n : Nat) {s : State} (S : Sound E s) (C : Complete E s) (F : ForestInv s) :
    ForestInv (propagate n s) := by
  induction n generalizing s with
  | zero => exact F
  | succ n ih =>
    unfold propagate
    split
    · exact F
    · next lab rest h =>
      have S0 : Sound E { s with pending := rest } :=
        ⟨S.rep, S.cls, S.use, S.lookup, fun l hl => S.pending l (by rw [h]; exact List.mem_cons_of_mem _ hl), S.forest⟩
      have ok : LabelOK E lab := S.pending lab (by rw [h]; simp)
      have C0 : Complete E (unpop { s with pending := rest } lab) := by rw [unpop_eq h]; exact C
      have F0 : ForestInv { s with pending := rest } := F.congr rfl rfl rfl
      exact ih (propStep_sound S0 ok) (propStep_complete S0 ok C0) (propStep_forest ok C0 F0)

theorem addVar_forest {E : Eqn → Prop} {s : State} (C : Complete E s) (F : ForestInv s) (c : Cst) :
    ForestInv (addVar s c) := by
  by_cases hd : (aget s.rep c).isSome
  · simp only [addVar, hd, if_true]; exact F
  · have hnone : aget s.rep c = none := by simpa using hd
    have hr : ∀ x, repOf (addVar s c) x = repOf s x := repOf_addVar s c
    have hfo : (addVar s c).forest = aset s.forest c none := by simp [addVar, hd]
    have hst : (addVar s c).stuck = s.stuck := by simp [addVar, hd]
    have hrp : (addVar s c).rep = aset s.rep c c := by simp [addVar, hd]
    have hdom : ∀ x, Dom (addVar s c) x ↔ (x = c ∨ Dom s x) := by
      intro x
      unfold Dom
      rw [hrp]
      simp only [aget_aset]
      by_cases hx : c = x
      · subst hx; simp
      · have : ¬ x = c := fun e => hx e.symm
        simp [hx, this]
    have nokey : aget s.forest c = none := by
      cases h : aget s.forest c with
      | none => rfl
      | some e => obtain ⟨r, hr'⟩ := (F.keys c).2 ⟨e, h⟩; rw [hnone] at hr'; cases hr'
    refine ⟨?_, ?_, ?_, ?_, by rw [hst]; exact F.notstuck⟩
    · intro x
      rw [hdom, hfo, aget_aset]
      by_cases hx : c = x
      · subst hx; simp
      · have : ¬ x = c := fun e => hx e.symm
        simp only [hx, if_false, this, false_or]; exact F.keys x
    · intro x p l h
      rw [hfo, aget_aset] at h
      split at h
      · cases h
      · rw [hdom, hr, hr]; exact ⟨.inr (F.par x p l h).1, (F.par x p l h).2⟩
    · obtain ⟨d, hdd⟩ := F.ranked
      refine ⟨d, ?_⟩
      intro x p l h
      rw [hfo, aget_aset] at h
      split at h
      · cases h
      · exact hdd x p l h
    · have notrep : ∀ y, Dom s y → repOf s y ≠ c := by
        intro y ⟨r, hy⟩ e
        rw [repOf_of_get hy] at e; subst e
        have := C.idem y r hy; rw [hnone] at this; cases this
      have rc : repOf s c = c := by simp [repOf, hnone]
      intro x y hx hy hxy
      rw [hfo, aget_aset] at hx hy
      rw [hr, hr] at hxy
      by_cases hcx : c = x
      · by_cases hcy : c = y
        · rw [← hcx, ← hcy]
        · simp only [hcy, if_false] at hy
          have dy := (F.keys y).2 ⟨_, hy⟩
          rw [← hcx, rc] at hxy
          exact absurd hxy.symm (notrep y dy)
      · simp only [hcx, if_false] at hx
        have dx := (F.keys x).2 ⟨_, hx⟩
        by_cases hcy : c = y
        · rw [← hcy, rc] at hxy
          exact absurd hxy (notrep x dx)
        · simp only [hcy, if_false] at hy
          exact F.roots x y hx hy hxy

/-- The invariant just before `_propagate` runs in `merge(a, b)` (copy of the first half of `mergeConst_complete`). -/
theorem pre_const_complete {E E' : Eqn → Prop} {s1 : State} (C1 : Complete E s1) {a b : Cst}
    (da : Dom s1 a) (db : Dom s1 b) (hE' : ∀ q, E' q → E q ∨ q = .c a b) :
    Complete E' { s1 with pending := s1.pending ++ [.const a b] } := by
  refine ⟨?_, ?_, C1.idem, C1.cls, ?_, C1.lkey, ?_, ?_⟩
  · intro x y h
    rcases hE' _ h with h | h
    · exact C1.domc x y h
    · cases h; exact ⟨da, db⟩
  · intro e h
    rcases hE' _ h with h | h
    · exact C1.domf e h
    · cases h
  · intro e h
    rcases hE' _ h with h | h
    · obtain ⟨e', h1, h2⟩ := C1.look e h
      exact ⟨e', h1, h2.push _⟩
    · cases h
  · intro e h r hr
    rcases hE' _ h with h | h
    · obtain ⟨u, h1, h2, h3⟩ := C1.use e h r hr
      exact ⟨u, h1, h2, h3.push _⟩
    · cases h
  · intro x y h
    rcases hE' _ h with h | h
    · exact (C1.cst x y h).push _
    · cases h
      exact PEq.pend (l := .const a b) (by simp)

/-- The same for `merge((a1, a2), a)` when the key is already in `lookup`. -/
theorem pre_comb_complete {E E' : Eqn → Prop} {s1 : State} (S0 : Sound E s1) (C1 : Complete E s1) {a1 a2 a : Cst} {eq2 : CEq}
    (d0 : Dom s1 a) (d1 : Dom s1 a1) (d2 : Dom s1 a2) (hE' : ∀ q, E' q → E q ∨ q = .f a1 a2 a)
    (hl : aget s1.lookup (repOf s1 a1, repOf s1 a2) = some eq2) :
    Complete E' { s1 with pending := s1.pending ++ [.comb ⟨a1, a2, a⟩ eq2] } := by
  have hfe : ∀ e : CEq, E' e.eqn → E e.eqn ∨ e = ⟨a1, a2, a⟩ := by
    intro e h
    rcases hE' _ h with h | h
    · exact .inl h
    · right; cases e; simp only [CEq.eqn, Eqn.f.injEq] at h; obtain ⟨h1, h2, h3⟩ := h; subst h1 h2 h3; rfl
  have hce : ∀ x y, E' (.c x y) → E (.c x y) := by
    intro x y h
    rcases hE' _ h with h | h
    · exact h
    · cases h
  have hE2 : E eq2.eqn := (S0.lookup _ _ hl).1
  have hk2 : keyOf s1 eq2 = keyOf s1 ⟨a1, a2, a⟩ := by
    have := C1.lkey _ _ hl
    simp only [keyOf, Prod.mk.injEq]
    simp only [C1.rp_idem] at this
    exact this
  have hp2 : PEq { s1 with pending := s1.pending ++ [Label.comb ⟨a1, a2, a⟩ eq2] } a eq2.a :=
    PEq.pend (l := .comb ⟨a1, a2, a⟩ eq2) (by simp)
  refine ⟨fun x y h => C1.domc x y (hce x y h), ?_, C1.idem, C1.cls, ?_, C1.lkey, ?_,
    fun x y h => (C1.cst x y (hce x y h)).push _⟩
  · intro e h
    rcases hfe e h with h | h
    · exact C1.domf e h
    · subst h; exact ⟨d1, d2, d0⟩
  · intro e h
    rcases hfe e h with h | h
    · obtain ⟨e', h1, h2⟩ := C1.look e h
      exact ⟨e', h1, h2.push _⟩
    · subst h; exact ⟨eq2, hl, hp2⟩
  · intro e h r hr
    rcases hfe e h with h | h
    · obtain ⟨u, h1, h2, h3⟩ := C1.use e h r hr
      exact ⟨u, h1, h2, h3.push _⟩
    · subst h
      have hr2 : r = repOf s1 eq2.a1 ∨ r = repOf s1 eq2.a2 := by
        simp only [keyOf, Prod.mk.injEq] at hk2
        rcases hr with hr | hr
        · left; rw [hk2.1]; exact hr
        · right; rw [hk2.2]; exact hr
      obtain ⟨u, h1, h2, h3⟩ := C1.use eq2 hE2 r hr2
      exact ⟨u, h1, h2.trans hk2, (h3.push _).trans hp2.symm⟩

theorem ForestInv.init : ForestInv State.init :=
  ⟨fun c => by simp [Dom, State.init, aget], fun c p l h => by simp [State.init, aget] at h,
   ⟨fun _ => 0, fun c p l h => by simp [State.init, aget] at h⟩,
   fun x y hx => by simp [State.init, aget] at hx, rfl⟩

theorem run_forest (ops : List Op) : ForestInv (run ops) := by
  induction ops using snoc_induction with
  | nil => exact ForestInv.init
  | snoc ops op ih =>
    rw [run_snoc]
    have S := run_sound ops
    have C := run_complete ops
    generalize run ops = s at ih S C
    cases op with
    | add c => exact addVar_forest C ih c
    | mergeC a b =>
      simp only [applyOp, mergeConst, enqueue]
      have C1 := addVar_complete (addVar_complete C b) a
      have F1 := addVar_forest (addVar_complete C b) (addVar_forest C ih b) a
      have S1 : Sound (eqsOf (ops ++ [.mergeC a b])) (addVar (addVar s b) a) :=
        ((S.mono (eqsOf_mono ops _)).addVar b).addVar a
      have da : Dom (addVar (addVar s b) a) a := dom_addVar_self _ a
      have db : Dom (addVar (addVar s b) a) b := dom_addVar a (dom_addVar_self _ b)
      generalize addVar (addVar s b) a = s1 at C1 F1 S1 da db
      exact propagate_forest _ (S1.push (lab := .const a b) (by show eqsOf _ (Eqn.c a b); simp [eqsOf]))
        (pre_const_complete C1 da db (fun q h => by simpa using eqsOf_snoc ops (.mergeC a b) q h))
        (F1.congr rfl rfl rfl)
    | mergeF a1 a2 a =>
      simp only [applyOp, mergeComb]
      have C1 := addVar_complete (addVar_complete (addVar_complete C a) a1) a2
      have F1 := addVar_forest (addVar_complete (addVar_complete C a) a1)
        (addVar_forest (addVar_complete C a) (addVar_forest C ih a) a1) a2
      have S0 : Sound (eqsOf ops) (addVar (addVar (addVar s a) a1) a2) := ((S.addVar a).addVar a1).addVar a2
      have d2 : Dom (addVar (addVar (addVar s a) a1) a2) a2 := dom_addVar_self _ a2
      have d1 : Dom (addVar (addVar (addVar s a) a1) a2) a1 := dom_addVar a2 (dom_addVar_self _ a1)
      have d0 : Dom (addVar (addVar (addVar s a) a1) a2) a := dom_addVar a2 (dom_addVar a1 (dom_addVar_self _ a))
      generalize addVar (addVar (addVar s a) a1) a2 = s1 at C1 F1 S0 d0 d1 d2
      have S1 : Sound (eqsOf (ops ++ [.mergeF a1 a2 a])) s1 := S0.mono (eqsOf_mono ops _)
      split
      · next eq2 hl =>
        simp only [enqueue]
        have ok : LabelOK (eqsOf (ops ++ [.mergeF a1 a2 a])) (.comb ⟨a1, a2, a⟩ eq2) := by
          have := S1.lookup _ _ hl
          exact ⟨by simp [eqsOf, CEq.eqn], this.1, (S1.repOf a1).trans this.2.1.symm, (S1.repOf a2).trans this.2.2.symm⟩
        exact propagate_forest _ (S1.push ok)
          (pre_comb_complete S0 C1 d0 d1 d2 (fun q h => by simpa using eqsOf_snoc ops (.mergeF a1 a2 a) q h) hl)
          (F1.congr rfl rfl rfl)
      · exact F1.congr rfl rfl rfl

end Holpy.C17
