/-
C17 — executable model of `prover/congc.py: CongClosure` (Nieuwenhuis–Oliveras congruence closure).

The model follows the Python statement by statement:
* the six dictionaries `rep`, `class_list`, `use_list`, `lookup`, `proof_forest` and the queue
  `pending` are association lists / lists (`aget`/`aset`/`adel` = `d[k]`, `d[k] = v`, `del d[k]`;
  `aset` replaces in place or appends, like a Python dict keeps insertion order);
* `merge` for both equation forms (`mergeConst` for `a = b`, `mergeComb` for `f(a1,a2) = a`);
* `_propagate`: pop one pending entry, compare representatives, swap so that the smaller class
  is moved into the larger, `_add_edge_proof_forest` (path to root, redirect, reverse the path),
  move the class list, re-process the use list (lookup hit -> new pending entry, miss -> set the
  lookup entry and append to the use list of the new representative), delete the old lists;
* `explain` with the memo dictionary `res`, the lowest-common-ancestor scan from the roots,
  recursive calls for the argument pairs of every `EQ_COMB` label, `res[(s,t)] = cur_path` last;
* `test`.

Loops: `_propagate`'s `while` gets fuel `pending + total use-list length`, which decreases by one
per iteration (`CompleteFinal.lean: propagate_pending_nil` proves that the fuel always suffices);
`_path_to_root` gets fuel `len(proof_forest)` (enough while the forest is acyclic; Python would
loop forever otherwise): running out is an error outcome, never a silently shortened path --
`pathComplete` tells whether the walk reached a root; `explain` then answers `Err.fuel`, and a
`merge` whose `_add_edge_proof_forest` ran out sets the flag `State.stuck` (the driver answers
`(err fuel)` for that and every later operation); `explain`'s recursion gets explicit fuel and answers `Err.fuel` when it
runs out (Python: RecursionError).  Dictionary reads inside `merge`/`_propagate` that cannot miss
(every constant is `add_var`ed first, lists exist for every representative) use a default
instead of `KeyError`; `test`/`explain` on a constant never entered answer `Err.key`.

Constants are `Nat` (the harness numbers the strings injectively).
Import-free: this file is linked into the `c17_model` driver.
-/
namespace Holpy.C17

abbrev Cst := Nat

/-- An input equation `f(a1, a2) = a`, Python `((a1, a2), a)`. -/
structure CEq where
  a1 : Cst
  a2 : Cst
  a : Cst
  deriving DecidableEq, Repr

/-- An element of `pending` / a proof-forest label:
`(EQ_CONST, a, b)` or `(EQ_COMB, ((a1,a2),a), ((b1,b2),b))`. -/
inductive Label where
  | const (a b : Cst)
  | comb (e1 e2 : CEq)
  deriving DecidableEq, Repr

/-- The two constants a pending entry makes equal (`_, a, b = E` / `_, (_, a), (_, b) = E`). -/
def Label.ends : Label → Cst × Cst
  | .const a b => (a, b)
  | .comb e1 e2 => (e1.a, e2.a)

-- ---------------------------------------------------------------- dictionaries

section AList
variable {α : Type} {β : Type} [DecidableEq α]

/-- `d.get(k)` -/
def aget : List (α × β) → α → Option β
  | [], _ => none
  | (k, v) :: r, x => if k = x then some v else aget r x

/-- `d[k] = v` (in place when present, appended otherwise) -/
def aset : List (α × β) → α → β → List (α × β)
  | [], x, v => [(x, v)]
  | (k, w) :: r, x, v => if k = x then (k, v) :: r else (k, w) :: aset r x v

/-- `del d[k]` -/
def adel (l : List (α × β)) (x : α) : List (α × β) := l.filter (fun p => !decide (p.1 = x))

end AList

abbrev Forest := List (Cst × Option (Cst × Label))

structure State where
  rep : List (Cst × Cst) := []
  cls : List (Cst × List Cst) := []
  use : List (Cst × List CEq) := []
  lookup : List ((Cst × Cst) × CEq) := []
  forest : Forest := []
  pending : List Label := []
  /-- set when a `_path_to_root` walk inside `merge` exhausted its fuel (Python: no return) -/
  stuck : Bool := false
  deriving Repr

def State.init : State := {}

def repOf (s : State) (c : Cst) : Cst := (aget s.rep c).getD c
def clsOf (s : State) (r : Cst) : List Cst := (aget s.cls r).getD []
def useOf (s : State) (r : Cst) : List CEq := (aget s.use r).getD []

/-- `add_var` -/
def addVar (s : State) (c : Cst) : State :=
  if (aget s.rep c).isSome then s
  else { s with rep := aset s.rep c c, cls := aset s.cls c [c], use := aset s.use c [],
                forest := aset s.forest c none }

-- ---------------------------------------------------------------- proof forest

/-- The tail of `_path_to_root(x)`: the `(parent, label)` pairs above `x`. -/
def pathGo (f : Forest) : Nat → Cst → List (Cst × Option Label)
  | 0, _ => []
  | n + 1, x =>
    match aget f x with
    | some (some (p, l)) => (p, some l) :: pathGo f n p
    | _ => []

/-- Did the walk of `pathGo` stop at a root (`proof_forest[x] is None`) rather than by running
out of fuel?  (A constant without an entry is treated like a root; callers check the keys.) -/
def pathComplete (f : Forest) : Nat → Cst → Bool
  | 0, x =>
    match aget f x with
    | some (some _) => false
    | _ => true
  | n + 1, x =>
    match aget f x with
    | some (some (p, _)) => pathComplete f n p
    | _ => true

/-- `_path_to_root(x)` = `[(x, None), (p1, l1), ..., (root, lk)]` -/
def pathToRoot (f : Forest) (x : Cst) : List (Cst × Option Label) :=
  (x, none) :: pathGo f f.length x

/-- The `for i in range(len(path_to_root) - 1)` loop of `_add_edge_proof_forest`. -/
def reverseEdges (f : Forest) : List (Cst × Option Label) → Forest
  | (x, _) :: (ps, some l) :: rest => reverseEdges (aset f ps (some (x, l))) ((ps, some l) :: rest)
  | _ => f

/-- `_add_edge_proof_forest(s1, s2, label)` -/
def addEdge (f : Forest) (s1 s2 : Cst) (label : Label) : Forest :=
  let path := pathToRoot f s1
  reverseEdges (aset f s1 (some (s2, label))) path

-- ---------------------------------------------------------------- propagate

/-- `use_list[r].append(e)` -/
def pushUse (use : List (Cst × List CEq)) (r : Cst) (e : CEq) : List (Cst × List CEq) :=
  aset use r ((aget use r).getD [] ++ [e])

/-- One iteration of `for eq in self.use_list[rep_a]` (the class has already been moved). -/
def useStep (rb : Cst) (s : State) (eq : CEq) : State :=
  let r1 := repOf s eq.a1
  let r2 := repOf s eq.a2
  match aget s.lookup (r1, r2) with
  | some eq2 => { s with pending := s.pending ++ [.comb eq eq2] }
  | none => { s with lookup := aset s.lookup (r1, r2) eq, use := pushUse s.use rb eq }

/-- The body of `if rep_a != rep_b` after the swap: class `ra` (of `a`) is moved into `rb`. -/
def unionStep (s : State) (a b ra rb : Cst) (E : Label) : State :=
  let s := { s with stuck := s.stuck || !pathComplete s.forest s.forest.length a,
                    forest := addEdge s.forest a b E }
  let ca := clsOf s ra
  let s := { s with rep := ca.foldl (fun rep c => aset rep c rb) s.rep }
  let s := { s with cls := adel (aset s.cls rb (clsOf s rb ++ ca)) ra }
  let s := (useOf s ra).foldl (useStep rb) s
  { s with use := adel s.use ra }

/-- One iteration of the `while not self.pending.empty()` loop for the popped entry `E`. -/
def propStep (s : State) (E : Label) : State :=
  let a := E.ends.1
  let b := E.ends.2
  let ra := repOf s a
  let rb := repOf s b
  if ra = rb then s
  else if (clsOf s ra).length > (clsOf s rb).length then unionStep s b a rb ra E
  else unionStep s a b ra rb E

/-- `_propagate` -/
def propagate : Nat → State → State
  | 0, s => s
  | n + 1, s =>
    match s.pending with
    | [] => s
    | E :: rest => propagate n (propStep { s with pending := rest } E)

def useTotal (use : List (Cst × List CEq)) : Nat := (use.map (fun p => p.2.length)).sum

/-- Number of loop iterations `_propagate` can still make. -/
def fuelOf (s : State) : Nat := s.pending.length + useTotal s.use

def enqueue (s : State) (l : Label) : State :=
  let s := { s with pending := s.pending ++ [l] }
  propagate (fuelOf s) s

/-- `merge(s, t)` with `s` a string -/
def mergeConst (s : State) (a b : Cst) : State :=
  let s := addVar s b
  let s := addVar s a
  enqueue s (.const a b)

/-- `merge((a1, a2), a)` -/
def mergeComb (s : State) (a1 a2 a : Cst) : State :=
  let s := addVar s a
  let s := addVar s a1
  let s := addVar s a2
  let e : CEq := ⟨a1, a2, a⟩
  let r1 := repOf s a1
  let r2 := repOf s a2
  match aget s.lookup (r1, r2) with
  | some eq2 => enqueue s (.comb e eq2)
  | none => { s with lookup := aset s.lookup (r1, r2) e, use := pushUse (pushUse s.use r1 e) r2 e }

-- ---------------------------------------------------------------- test / explain

inductive Err where
  | key      -- KeyError: constant never entered
  | assert   -- AssertionError "explain: s and t are not in the same tree"
  | fuel     -- a fuel bound of the model exhausted (Python: RecursionError / endless loop)
  deriving DecidableEq, Repr

/-- `test(t1, t2)` -/
def test (s : State) (a b : Cst) : Except Err Bool :=
  match aget s.rep a, aget s.rep b with
  | some ra, some rb => .ok (decide (ra = rb))
  | _, _ => .error .key

abbrev Path := List (Cst × Option Label)

def nodeAt (p : Path) (i : Nat) : Option Cst := (p[i]?).map (·.1)

/-- The `while` loop of `explain` that walks back from the roots. -/
def lcaPos (sp tp : Path) : Nat → Nat → Nat
  | 0, pos => pos
  | n + 1, pos =>
    if sp.length ≥ pos + 1 ∧ tp.length ≥ pos + 1 ∧
        nodeAt sp (sp.length - pos - 1) = nodeAt tp (tp.length - pos - 1)
    then lcaPos sp tp n (pos + 1) else pos

def labelsOf (p : Path) : List Label := p.filterMap (·.2)

/-- `cur_path` of `explain(s, t)`. -/
def curPath (f : Forest) (a b : Cst) : Except Err (List Label) :=
  if (aget f a).isNone ∨ (aget f b).isNone then .error .key else
  if pathComplete f f.length a = false ∨ pathComplete f f.length b = false then .error .fuel else
  let sp := pathToRoot f a
  let tp := pathToRoot f b
  if nodeAt sp (sp.length - 1) ≠ nodeAt tp (tp.length - 1) then .error .assert else
  let pos := lcaPos sp tp sp.length 1
  .ok (labelsOf ((sp.drop 1).take (sp.length - pos)) ++
       (labelsOf ((tp.drop 1).take (tp.length - pos))).reverse)

abbrev Res := List ((Cst × Cst) × List Label)

/-- The body of `for eq in cur_path: if eq[0] == EQ_COMB: explain(a1, b1); explain(a2, b2)`
with `g` the recursive call. -/
def explainArgs (g : Cst → Cst → Res → Except Err Res) (r : Res) (l : Label) : Except Err Res :=
  match l with
  | .const _ _ => .ok r
  | .comb e1 e2 =>
    match g e1.a1 e2.a1 r with
    | .error e => .error e
    | .ok r1 => g e1.a2 e2.a2 r1

/-- `for eq in cur_path: ...` -/
def explainPath (g : Cst → Cst → Res → Except Err Res) : List Label → Res → Except Err Res
  | [], r => .ok r
  | l :: ls, r =>
    match explainArgs g r l with
    | .error e => .error e
    | .ok r1 => explainPath g ls r1

/-- `explain(s, t, res=res)`; the first argument bounds the recursion depth. -/
def explain (f : Forest) : Nat → Cst → Cst → Res → Except Err Res
  | 0, _, _, _ => .error .fuel
  | n + 1, a, b, res =>
    if a = b ∨ (aget res (a, b)).isSome then .ok res else
    match curPath f a b with
    | .error e => .error e
    | .ok path =>
      match explainPath (explain f n) path res with
      | .error e => .error e
      | .ok r => .ok (aset r (a, b) path)

/-- Public `explain(s, t)`: starts from the empty dictionary. -/
def explainTop (s : State) (a b : Cst) : Except Err Res :=
  explain s.forest (s.forest.length + 1) a b []

-- ---------------------------------------------------------------- operation sequences

inductive Op where
  | add (c : Cst)
  | mergeC (a b : Cst)
  | mergeF (a1 a2 a : Cst)
  deriving DecidableEq, Repr

def applyOp (s : State) : Op → State
  | .add c => addVar s c
  | .mergeC a b => mergeConst s a b
  | .mergeF a1 a2 a => mergeComb s a1 a2 a

def run (ops : List Op) : State := ops.foldl applyOp State.init

end Holpy.C17
