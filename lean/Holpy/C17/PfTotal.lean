import Holpy.C17.PfProofs
/-
C17 — helper lemmas, part 21: `get_proofterm` never fails (no KeyError on `index` / `explain[(u, v)]`,
no `assert`, recursion bounded by the time stamps), the invariant of the table `pts`, and the
top-level statement about `pexplain`.
-/
namespace Holpy.C17

/-- The argument pairs of an application label on `cur_path(a, b)` were joined strictly earlier. -/
theorem curPath_args_lt {s : State} (F : ForestInv s) {T : Cst → Cst → Nat} {now : Nat} (TI : TInv s T now)
    {a b : Cst} {path : List Label} (hp : curPath s.forest a b = .ok path) {e1 e2 : CEq}
    (hm : Label.comb e1 e2 ∈ path) :
    (e1.a1 ≠ e2.a1 → T e1.a1 e2.a1 < T a b) ∧ (e1.a2 ≠ e2.a2 → T e1.a2 e2.a2 < T a b) := by
  obtain ⟨d, hd⟩ := F.ranked
  obtain ⟨w, hw, hnd, hlab⟩ := curPath_walk s.forest d hd a b path hp
  rw [← hlab] at hm
  obtain ⟨e, he, hel⟩ := List.mem_map.1 hm
  have hadj : Adj s.forest e.1 e.2.1 (.comb e1 e2) := by rw [← hel]; exact walk_adj hw e he
  have hle := TI.walk a w b hw hnd e he
  have harg := TI.arg _ _ e1 e2 hadj
  exact ⟨fun h => Nat.lt_of_lt_of_le (harg.1 h) hle, fun h => Nat.lt_of_lt_of_le (harg.2 h) hle⟩

theorem aget_of_mem_key {α β : Type} [DecidableEq α] {l : List (α × β)} {x : α} {v : β} (h : (x, v) ∈ l) :
    ∃ v', aget l x = some v' := by
  induction l with
  | nil => simp at h
  | cons p r ih =>
    obtain ⟨k, w⟩ := p
    by_cases hk : k = x
    · exact ⟨w, by simp [aget, hk]⟩
    · simp only [List.mem_cons, Prod.mk.injEq] at h
      rcases h with h | h
      · exact absurd h.1.symm hk
      · obtain ⟨v', hv'⟩ := ih h
        exact ⟨v', by simp [aget, hk, hv']⟩

/-- What makes the assembly succeed: the dictionary is closed, its keys are not identical pairs, and the
argument pairs of the application labels of an entry have smaller time stamps than its key. -/
structure AsmTotal (res : Res) (T : Cst → Cst → Nat) : Prop where
  ne : ∀ ent ∈ res, ent.1.1 ≠ ent.1.2
  closed : ∀ ent ∈ res, ∀ e1 e2, Label.comb e1 e2 ∈ ent.2 →
    (e1.a1 = e2.a1 ∨ ∃ p, ((e1.a1, e2.a1), p) ∈ res) ∧ (e1.a2 = e2.a2 ∨ ∃ p, ((e1.a2, e2.a2), p) ∈ res)
  timed : ∀ ent ∈ res, ∀ e1 e2, Label.comb e1 e2 ∈ ent.2 →
    (e1.a1 ≠ e2.a1 → T e1.a1 e2.a1 < T ent.1.1 ent.1.2) ∧ (e1.a2 ≠ e2.a2 → T e1.a2 e2.a2 < T ent.1.1 ent.1.2)

theorem labelPf_succeeds {E : Term → Term → Prop} {w : WState} {pts : Pts} {res : Res} {H G : Term × Term → Prop}
    (C : AsmCtx E w pts res H G) {g : Cst → Cst → Except Err EqPf} {l : Label} (ok : LabelOK (eqsOf w.log) l)
    (hg : ∀ e1 e2, l = .comb e1 e2 → (e1.a1 ≠ e2.a1 → ∃ pf, g e1.a1 e2.a1 = .ok pf) ∧ (e1.a2 ≠ e2.a2 → ∃ pf, g e1.a2 e2.a2 = .ok pf)) :
    ∃ q, labelPf w.index pts g l = .ok q := by
  have li := label_index C.W ok
  cases l with
  | const a b =>
    simp only [labelPf]
    split
    · exact ⟨_, rfl⟩
    · obtain ⟨s, t, h1, h2, _⟩ := li
      simp only [h1, h2]; exact ⟨_, rfl⟩
  | comb e1 e2 =>
    obtain ⟨f, x, f', x', h1, h2, _, _, _, _⟩ := li
    have a1 : ∃ p1, argPf w.index g e1.a1 e2.a1 = .ok p1 := by
      unfold argPf; split
      · next hne => exact (hg e1 e2 rfl).1 hne
      · exact ⟨.refl f, by simp [reflAt, h1]⟩
    have a2 : ∃ p2, argPf w.index g e1.a2 e2.a2 = .ok p2 := by
      unfold argPf; split
      · next hne => exact (hg e1 e2 rfl).2 hne
      · exact ⟨.refl x, by simp [reflAt, h2]⟩
    obtain ⟨p1, hp1⟩ := a1
    obtain ⟨p2, hp2⟩ := a2
    simp only [labelPf, hp1, hp2]; exact ⟨_, rfl⟩

theorem chainPf_succeeds {E : Term → Term → Prop} {w : WState} {pts : Pts} {res : Res} {H G : Term × Term → Prop}
    (C : AsmCtx E w pts res H G) {g : Cst → Cst → Except Err EqPf} (v : Cst) :
    ∀ (ls : List Label) (pt : EqPf) (cur : Cst),
      (∀ l ∈ ls, LabelOK (eqsOf w.log) l) → Chain ls cur v →
      (∀ e1 e2, Label.comb e1 e2 ∈ ls → (e1.a1 ≠ e2.a1 → ∃ pf, g e1.a1 e2.a1 = .ok pf) ∧ (e1.a2 ≠ e2.a2 → ∃ pf, g e1.a2 e2.a2 = .ok pf)) →
      ∃ pf, chainPf w.index pts g ls pt cur = .ok pf := by
  intro ls
  induction ls with
  | nil => intro pt cur _ _ _; exact ⟨pt, rfl⟩
  | cons l ls ih =>
    intro pt cur hl hc hg
    obtain ⟨z, hst, hrest⟩ := hc
    obtain ⟨q, hq⟩ := labelPf_succeeds C (g := g) (hl l (by simp)) (fun e1 e2 he => hg e1 e2 (by simp [he]))
    have hl' : ∀ l' ∈ ls, LabelOK (eqsOf w.log) l' := fun l' h' => hl l' (List.mem_cons_of_mem _ h')
    have hg' : ∀ e1 e2, Label.comb e1 e2 ∈ ls → (e1.a1 ≠ e2.a1 → ∃ pf, g e1.a1 e2.a1 = .ok pf) ∧ (e1.a2 ≠ e2.a2 → ∃ pf, g e1.a2 e2.a2 = .ok pf) :=
      fun e1 e2 h' => hg e1 e2 (List.mem_cons_of_mem _ h')
    simp only [chainPf, hq]
    split
    · next h1 =>
      have hz : l.ends.2 = z := by
        rcases hst with e | e
        · rw [e]
        · rw [e] at h1 ⊢; simp only at h1 ⊢; exact h1.symm
      exact ih _ _ hl' (hz ▸ hrest) hg'
    · next h1 =>
      have hz : l.ends = (z, cur) := by
        rcases hst with e | e
        · rw [e] at h1; exact absurd rfl h1
        · exact e
      have h2 : l.ends.2 = cur := by rw [hz]
      rw [if_pos h2]
      have hz1 : l.ends.1 = z := by rw [hz]
      exact ih _ _ hl' (hz1 ▸ hrest) hg'

theorem getPf_succeeds {E : Term → Term → Prop} {w : WState} {pts : Pts} {res : Res} {H G : Term × Term → Prop}
    (C : AsmCtx E w pts res H G) {T : Cst → Cst → Nat} (A : AsmTotal res T) (n : Nat) :
    ∀ u v p, ((u, v), p) ∈ res → T u v < n → ∃ pf, getPf w.index pts res n u v = .ok pf := by
  induction n with
  | zero => intro u v p _ h; omega
  | succ n ih =>
    intro u v p hm hT
    have hne : u ≠ v := A.ne _ hm
    obtain ⟨path, hpath⟩ := aget_of_mem_key hm
    have hm' := aget_mem hpath
    have hch := C.chain _ hm'
    have hlab := C.labOK _ hm'
    simp only at hch hlab
    -- `index[u]`: the first label of the (non-empty) path has `u` as one end
    have hidx : ∃ t, aget w.index u = some t := by
      cases path with
      | nil => simp only [Chain] at hch; exact absurd hch hne
      | cons l ls =>
        obtain ⟨z, hst, _⟩ := hch
        have li := label_index C.W (hlab l (by simp))
        cases l with
        | const a b =>
          obtain ⟨s, t, h1, h2, _⟩ := li
          rcases hst with e | e <;> simp only [Label.ends, Prod.mk.injEq] at e
          · exact ⟨s, e.1 ▸ h1⟩
          · exact ⟨t, e.2 ▸ h2⟩
        | comb e1 e2 =>
          obtain ⟨f, x, f', x', _, _, h3, _, _, h6⟩ := li
          rcases hst with e | e <;> simp only [Label.ends, Prod.mk.injEq] at e
          · exact ⟨_, e.1 ▸ h3⟩
          · exact ⟨_, e.2 ▸ h6⟩
    obtain ⟨t, ht⟩ := hidx
    unfold getPf
    rw [if_neg hne, hpath]
    simp only [ht]
    apply chainPf_succeeds C v path _ u hlab hch
    intro e1 e2 hc
    have cl := A.closed _ hm' e1 e2 hc
    have tm := A.timed _ hm' e1 e2 hc
    simp only at tm
    constructor
    · intro h
      rcases cl.1 with e | ⟨p', hp'⟩
      · exact absurd e h
      · exact ih _ _ p' hp' (by have := tm.1 h; omega)
    · intro h
      rcases cl.2 with e | ⟨p', hp'⟩
      · exact absurd e h
      · exact ih _ _ p' hp' (by have := tm.2 h; omega)

-- ---------------------------------------------------------------- the wrapper with `pts`

theorem applyPOp_w (p : PState) (op : POp) : (applyPOp p op).w = applyWOp p.w op.toW := by
  cases op <;> rfl

theorem foldl_applyPOp_w (pops : List POp) (p : PState) :
    (pops.foldl applyPOp p).w = (pops.map POp.toW).foldl applyWOp p.w := by
  induction pops generalizing p with
  | nil => rfl
  | cons op pops ih => simp only [List.foldl_cons, List.map_cons, ih, applyPOp_w]

/-- The wrapper part of the state does not depend on the proof terms. -/
theorem prun_w (pops : List POp) : (prun pops).w = wrun (pops.map POp.toW) :=
  foldl_applyPOp_w pops PState.init

theorem prun_snoc (pops : List POp) (op : POp) : prun (pops ++ [op]) = applyPOp (prun pops) op := by
  simp [prun, List.foldl_append]

theorem weqs_toW {pops : List POp} {s t : Term} (h : weqs (pops.map POp.toW) s t) : ∃ pt, POp.merge s t pt ∈ pops := by
  simp only [weqs, List.mem_map] at h
  obtain ⟨op, hop, he⟩ := h
  cases op with
  | merge s' t' pt => simp only [POp.toW, WOp.merge.injEq] at he; obtain ⟨rfl, rfl⟩ := he; exact ⟨pt, hop⟩
  | add t' => simp [POp.toW] at he

theorem addTerm_index_keep {E : Term → Term → Prop} {w : WState} (W : WInv E w) (t : Term) {a : Cst} {s : Term}
    (h : aget w.index a = some s) : aget (addTerm t w).1.index a = some s := by
  obtain ⟨W1, G1⟩ := addTerm_inv t W
  exact (W1.rev_index _ _).1 (G1.keep _ _ ((W.rev_index _ _).2 h))

/-- Every entry of `pts` is the proof term given to a `merge(s, t, pt=...)` call, and its key is the pair
of constants of `s` and `t`. -/
def PtsOK (pops : List POp) (p : PState) : Prop :=
  ∀ a b q, aget p.pts (a, b) = some q →
    ∃ s t, POp.merge s t (some q) ∈ pops ∧ aget p.w.index a = some s ∧ aget p.w.index b = some t

theorem prun_winv (pops : List POp) : WInv (weqs (pops.map POp.toW)) (prun pops).w := by
  rw [prun_w]; exact wrun_inv _

theorem prun_ptsOK (pops : List POp) : PtsOK pops (prun pops) := by
  induction pops using snoc_induction with
  | nil => intro a b q h; simp [prun, PState.init, aget] at h
  | snoc pops op ih =>
    rw [prun_snoc]
    have W := prun_winv pops
    generalize prun pops = p at ih W
    cases op with
    | add t =>
      intro a b q h
      obtain ⟨s, t', h1, h2, h3⟩ := ih a b q h
      exact ⟨s, t', List.mem_append_left _ h1, addTerm_index_keep W t h2, addTerm_index_keep W t h3⟩
    | merge s t pt =>
      obtain ⟨W1, G1⟩ := addTerm_inv s W
      obtain ⟨W2, G2⟩ := addTerm_inv t W1
      have keep : ∀ {a u}, aget p.w.index a = some u → aget (addTerm t (addTerm s p.w).1).1.index a = some u :=
        fun h => addTerm_index_keep W1 t (addTerm_index_keep W s h)
      have hs : aget (addTerm t (addTerm s p.w).1).1.index (addTerm s p.w).2 = some s :=
        (W2.rev_index _ _).1 (G2.keep _ _ G1.here)
      have ht : aget (addTerm t (addTerm s p.w).1).1.index (addTerm t (addTerm s p.w).1).2 = some t :=
        (W2.rev_index _ _).1 G2.here
      intro a b q h
      simp only [applyPOp, pmerge, WState.core] at h ⊢
      cases pt with
      | none =>
        obtain ⟨s', t', h1, h2, h3⟩ := ih a b q h
        exact ⟨s', t', List.mem_append_left _ h1, keep h2, keep h3⟩
      | some q0 =>
        simp only at h
        rw [aget_aset] at h
        split at h
        · next hk =>
          cases h
          simp only [Prod.mk.injEq] at hk
          obtain ⟨rfl, rfl⟩ := hk
          exact ⟨s, t, by simp, hs, ht⟩
        · obtain ⟨s', t', h1, h2, h3⟩ := ih a b q h
          exact ⟨s', t', List.mem_append_left _ h1, keep h2, keep h3⟩

end Holpy.C17
