import Holpy.C17.Spec
/-
C17 — specification vocabulary, part 2 (definitions only): the list of input equations an
explanation returns, and a decision procedure for the congruence closure of a list of equations.
-/
namespace Holpy.C17

def Eqn.toOp : Eqn → Op
  | .c a b => .mergeC a b
  | .f a1 a2 a => .mergeF a1 a2 a

/-- Decision procedure for `Cl` of a finite list of equations: merge exactly these equations into an
empty structure (after entering `a` and `b`) and ask.  `specTest_iff` (ExplainSpecProofs) shows that it
answers `ok true` exactly when `a = b` is in the congruence closure of `eqs`. -/
def specTest (eqs : List Eqn) (a b : Cst) : Except Err Bool :=
  test (run (.add a :: .add b :: eqs.map Eqn.toOp)) a b

/-- The input equations a label stands for. -/
def labelEqs : Label → List Eqn
  | .const a b => [.c a b]
  | .comb e1 e2 => [e1.eqn, e2.eqn]

/-- The multiset (as a list, with repetitions) of input equations an explanation lists. -/
def resEqList (res : Res) : List Eqn := res.flatMap (fun ent => ent.2.flatMap labelEqs)

end Holpy.C17
