import Holpy.C17.Proofs
namespace Holpy.C17
end Holpy.C17
