import Holpy.C17.Proofs
/-
C17 — property theorems about the model of `prover/congc.py: CongClosure` (`Model.lean`).
`run ops` is the structure after the operations `ops` (`add_var` / `merge(a, b)` /
`merge((a1, a2), a)`) from the empty structure; `test` and `explain` do not change the structure,
so a statement about `run ops` for every `ops` covers every interleaving of merge / test / explain.
`Cl (eqsOf ops)` is the congruence closure of the merged equations (`Spec.lean`).
-/
namespace Holpy.C17

/-- `test` is sound: after any sequence of `add_var`/`merge` calls, `test(a, b) == True` only if
`a = b` follows from the merged equations by reflexivity, symmetry, transitivity and congruence. -/
theorem test_sound (ops : List Op) (a b : Cst) (h : test (run ops) a b = .ok true) :
    Cl (eqsOf ops) a b :=
  test_sound_of (run_sound ops) h

/- non-vacuity: f(1,2)=3, f(4,5)=6, 1=4, 2=5 makes `test 3 6` true (by congruence). -/
example : test (run [.mergeF 1 2 3, .mergeF 4 5 6, .mergeC 1 4, .mergeC 2 5]) 3 6 = .ok true := by rfl

end Holpy.C17
