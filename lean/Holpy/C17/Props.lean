import Holpy.C17.Proofs
import Holpy.C17.ExplainProofs
/-
C17 — property theorems about the model of `prover/congc.py: CongClosure` (`Model.lean`).
`run ops` is the structure after the operations `ops` (`add_var` / `merge(a, b)` /
`merge((a1, a2), a)`) from the empty structure; `test` and `explain` do not change the structure,
so a statement about `run ops` for every `ops` covers every interleaving of merge / test / explain.
`Cl (eqsOf ops)` is the congruence closure of the merged equations (`Spec.lean`).
-/
namespace Holpy.C17

/-- `test` is sound: after any sequence of `add_var`/`merge` calls, `test(a, b) == True` only if
`a = b` follows from the merged equations by reflexivity, symmetry, transitivity and congruence. -/
theorem test_sound (ops : List Op) (a b : Cst) (h : test (run ops) a b = .ok true) :
    Cl (eqsOf ops) a b :=
  test_sound_of (run_sound ops) h

/- non-vacuity: f(1,2)=3, f(4,5)=6, 1=4, 2=5 makes `test 3 6` true (by congruence). -/
example : test (run [.mergeF 1 2 3, .mergeF 4 5 6, .mergeC 1 4, .mergeC 2 5]) 3 6 = .ok true := by rfl

/-- Explanations use only merged equations: every label in the dictionary returned by
`explain(a, b)` is a merged constant equation or a pair of merged application equations whose
arguments are congruent (`LabelOK`), so every equation the explanation lists (`resEqs res`) was
merged; and the listed equations alone entail every explained pair, in particular `a = b`. -/
theorem explain_uses_inputs (ops : List Op) (a b : Cst) (res : Res)
    (h : explainTop (run ops) a b = .ok res) :
    (∀ ent ∈ res, ∀ l ∈ ent.2, LabelOK (eqsOf ops) l) ∧
    (∀ q, resEqs res q → eqsOf ops q) ∧
    (∀ ent ∈ res, Cl (resEqs res) ent.1.1 ent.1.2) ∧
    Cl (resEqs res) a b := by
  obtain ⟨h1, h2, h3⟩ := explainTop_ok (run_sound ops) h
  refine ⟨h1, ?_, h2, h3⟩
  rintro q ⟨ent, he, l, hl, hq⟩
  have ok := h1 ent he l hl
  cases l with
  | const x y => simp only at hq; subst hq; exact ok
  | comb e1 e2 =>
    simp only at hq
    rcases hq with hq | hq <;> subst hq
    · exact ok.1
    · exact ok.2.1

/- non-vacuity: the explanation of 3 = 6 lists both application equations and both constant equations. -/
example : explainTop (run [.mergeF 1 2 3, .mergeF 4 5 6, .mergeC 1 4, .mergeC 2 5]) 3 6 =
    .ok [((1, 4), [.const 1 4]), ((2, 5), [.const 2 5]), ((3, 6), [.comb ⟨1, 2, 3⟩ ⟨4, 5, 6⟩])] := by rfl

end Holpy.C17
