import Holpy.C17.Proofs
import Holpy.C17.ExplainProofs
import Holpy.C17.CompleteFinal
import Holpy.C17.Rename
import Holpy.C17.ExplainSpecProofs
import Holpy.C17.HolTheorems
import Holpy.C17.ExplainTotal
import Holpy.C17.ExplainTotalFull
/-
C17 — property theorems about the model of `prover/congc.py: CongClosure` (`Model.lean`).
`run ops` is the structure after the operations `ops` (`add_var` / `merge(a, b)` /
`merge((a1, a2), a)`) from the empty structure; `test` and `explain` do not change the structure,
so a statement about `run ops` for every `ops` covers every interleaving of merge / test / explain.
`Cl (eqsOf ops)` is the congruence closure of the merged equations (`Spec.lean`).
-/
namespace Holpy.C17

/-- `test` is sound: after any sequence of `add_var`/`merge` calls, `test(a, b) == True` only if
`a = b` follows from the merged equations by reflexivity, symmetry, transitivity and congruence. -/
theorem test_sound (ops : List Op) (a b : Cst) (h : test (run ops) a b = .ok true) :
    Cl (eqsOf ops) a b :=
  test_sound_of (run_sound ops) h

/- non-vacuity: f(1,2)=3, f(4,5)=6, 1=4, 2=5 makes `test 3 6` true (by congruence). -/
example : test (run [.mergeF 1 2 3, .mergeF 4 5 6, .mergeC 1 4, .mergeC 2 5]) 3 6 = .ok true := by rfl

/-- Explanations use only merged equations: every label in the dictionary returned by
`explain(a, b)` is a merged constant equation or a pair of merged application equations whose
arguments are congruent (`LabelOK`), so every equation the explanation lists (`resEqs res`) was
merged; and the listed equations alone entail every explained pair, in particular `a = b`. -/
theorem explain_uses_inputs (ops : List Op) (a b : Cst) (res : Res)
    (h : explainTop (run ops) a b = .ok res) :
    (∀ ent ∈ res, ∀ l ∈ ent.2, LabelOK (eqsOf ops) l) ∧
    (∀ q, resEqs res q → eqsOf ops q) ∧
    (∀ ent ∈ res, Cl (resEqs res) ent.1.1 ent.1.2) ∧
    Cl (resEqs res) a b := by
  obtain ⟨h1, h2, h3⟩ := explainTop_ok (run_sound ops) h
  refine ⟨h1, ?_, h2, h3⟩
  rintro q ⟨ent, he, l, hl, hq⟩
  have ok := h1 ent he l hl
  cases l with
  | const x y => simp only at hq; subst hq; exact ok
  | comb e1 e2 =>
    simp only at hq
    rcases hq with hq | hq <;> subst hq
    · exact ok.1
    · exact ok.2.1

/- non-vacuity: the explanation of 3 = 6 lists both application equations and both constant equations. -/
example : explainTop (run [.mergeF 1 2 3, .mergeF 4 5 6, .mergeC 1 4, .mergeC 2 5]) 3 6 =
    .ok [((1, 4), [.const 1 4]), ((2, 5), [.const 2 5]), ((3, 6), [.comb ⟨1, 2, 3⟩ ⟨4, 5, 6⟩])] := by rfl

/-- The dictionary returned by `explain(a, b)` is closed for its consumer
(`CongClosureHOL.explain.get_proofterm` looks up `explain[(a1, b1)]` and `explain[(a2, b2)]` for
every label `(EQ_COMB, ((a1,a2),a), ((b1,b2),b))` with `a1 != b1` / `a2 != b2`, and walks each
path from the first constant of its key): the queried pair is a key unless `a = b`; every path
chains from the first to the second constant of its key (`Chain`, each label joining consecutive
constants in either direction); and every application label on a returned path has an entry for
each of its argument pairs, in exactly the orientation of the label. -/
theorem explain_closed (ops : List Op) (a b : Cst) (res : Res)
    (h : explainTop (run ops) a b = .ok res) :
    (a = b ∨ ∃ p, ((a, b), p) ∈ res) ∧
    ∀ ent ∈ res, Chain ent.2 ent.1.1 ent.1.2 ∧
      ∀ e1 e2, Label.comb e1 e2 ∈ ent.2 →
        (e1.a1 = e2.a1 ∨ ∃ p, ((e1.a1, e2.a1), p) ∈ res) ∧
        (e1.a2 = e2.a2 ∨ ∃ p, ((e1.a2, e2.a2), p) ∈ res) :=
  explainTop_closed (run_sound ops) h

/- non-vacuity: after 1 = 2, f(3,1) = 4 entered before f(3,2) = 5 but f(2,3) = 7 before f(1,3) = 6 (opposite
orders), and f(4,6) = 8, f(5,7) = 9: explaining 8 = 9 needs the pair (1, 2) in both orientations, and the
dictionary has both entries. -/
example : (explainTop (run [.mergeC 1 2, .mergeF 3 1 4, .mergeF 3 2 5, .mergeF 2 3 7, .mergeF 1 3 6,
      .mergeF 4 6 8, .mergeF 5 7 9]) 8 9).toOption.map (fun r => r.map (·.1)) =
    some [(2, 1), (5, 4), (1, 2), (7, 6), (8, 9)] := by rfl

/-- `_propagate` always runs to completion within the model's fuel: after every public call
(`add_var`, both forms of `merge`) the queue `pending` is empty. -/
theorem pending_empty_after_merge (ops : List Op) : (run ops).pending = [] :=
  run_pending_nil ops

example : (run [.mergeF 1 2 3, .mergeF 4 5 6, .mergeC 1 4, .mergeC 2 5]).pending = [] := by rfl

/-- `test` is complete: whenever `a = b` follows from the merged equations by reflexivity,
symmetry, transitivity and congruence (and both constants were entered, so that `test` does not
raise KeyError), `test(a, b)` answers `True`. -/
theorem test_complete (ops : List Op) (a b : Cst) (ha : entered ops a) (hb : entered ops b)
    (h : Cl (eqsOf ops) a b) : test (run ops) a b = .ok true :=
  test_complete_of (run_complete ops) (run_pending_nil ops) (run_dom ops ha) (run_dom ops hb) h

/- non-vacuity: 3 = 6 follows by congruence from f(1,2)=3, f(4,5)=6, 1=4, 2=5 (all four are needed). -/
example : Cl (eqsOf [.mergeF 1 2 3, .mergeF 4 5 6, .mergeC 1 4, .mergeC 2 5]) 3 6 :=
  .cong (a1 := 1) (a2 := 2) (b1 := 4) (b2 := 5) (by simp [eqsOf]) (by simp [eqsOf])
    (.base (by simp [eqsOf])) (.base (by simp [eqsOf]))

/-- `test` raises KeyError exactly for constants that were never entered; otherwise it answers. -/
theorem test_defined_iff_entered (ops : List Op) (a b : Cst) :
    (∃ v, test (run ops) a b = .ok v) ↔ (entered ops a ∧ entered ops b) := by
  constructor
  · rintro ⟨v, hv⟩
    have K := run_keysIn ops
    by_cases ha : Dom (run ops) a
    · by_cases hb : Dom (run ops) b
      · exact ⟨K.rep a ha, K.rep b hb⟩
      · rw [test_error_of_not_dom (.inr hb)] at hv; cases hv
    · rw [test_error_of_not_dom (.inl ha)] at hv; cases hv
  · rintro ⟨ha, hb⟩
    exact test_ok_of_dom (run_dom ops ha) (run_dom ops hb)

example : test (run [.mergeC 1 2]) 1 3 = .error .key := by rfl

/-- The answer of `test` does not depend on the order in which equations were merged or terms
added, on repetitions, on the orientation in which an equation was merged (`merge(a, b)` or
`merge(b, a)`), nor on which terms were added beforehand by `add_var`: two operation sequences
that merge the same equations up to symmetry and enter the same constants give the same answer to
every query, including the KeyError for constants never entered. -/
theorem order_independent (ops1 ops2 : List Op)
    (hC : ∀ a b, (Op.mergeC a b ∈ ops1 ∨ Op.mergeC b a ∈ ops1) ↔ (Op.mergeC a b ∈ ops2 ∨ Op.mergeC b a ∈ ops2))
    (hF : ∀ a1 a2 a, Op.mergeF a1 a2 a ∈ ops1 ↔ Op.mergeF a1 a2 a ∈ ops2)
    (hD : ∀ c, entered ops1 c ↔ entered ops2 c) (a b : Cst) :
    test (run ops1) a b = test (run ops2) a b := by
  have h12 : ∀ x y, Cl (eqsOf ops1) x y → Cl (eqsOf ops2) x y := fun x y =>
    Cl.mono_sym (fun a b h => (hC a b).1 (.inl h)) (fun a1 a2 a h => (hF a1 a2 a).1 h)
  have h21 : ∀ x y, Cl (eqsOf ops2) x y → Cl (eqsOf ops1) x y := fun x y =>
    Cl.mono_sym (fun a b h => (hC a b).2 (.inl h)) (fun a1 a2 a h => (hF a1 a2 a).2 h)
  by_cases hab : entered ops1 a ∧ entered ops1 b
  · have hab2 : entered ops2 a ∧ entered ops2 b := ⟨(hD a).1 hab.1, (hD b).1 hab.2⟩
    obtain ⟨v1, h1⟩ := (test_defined_iff_entered ops1 a b).2 hab
    obtain ⟨v2, h2⟩ := (test_defined_iff_entered ops2 a b).2 hab2
    rw [h1, h2]
    congr 1
    cases v1 <;> cases v2 <;> try rfl
    · have := test_complete ops1 a b hab.1 hab.2 (h21 _ _ (test_sound ops2 a b h2))
      rw [h1] at this; cases this
    · have := test_complete ops2 a b hab2.1 hab2.2 (h12 _ _ (test_sound ops1 a b h1))
      rw [h2] at this; cases this
  · have key : ∀ ops, ¬ (entered ops a ∧ entered ops b) → test (run ops) a b = .error .key := by
      intro ops hn
      have K := run_keysIn ops
      apply test_error_of_not_dom
      by_cases ha : Dom (run ops) a
      · right; intro hb; exact hn ⟨K.rep a ha, K.rep b hb⟩
      · exact .inl ha
    have hab2 : ¬ (entered ops2 a ∧ entered ops2 b) := fun h => hab ⟨(hD a).2 h.1, (hD b).2 h.2⟩
    rw [key ops1 hab, key ops2 hab2]

/- non-vacuity: other order, both constant equations flipped, a redundant `add_var` in between,
one equation merged twice: same answer `True` for (3, 6). -/
example : test (run [.mergeC 5 2, .add 3, .mergeC 4 1, .mergeF 4 5 6, .mergeC 4 1, .mergeF 1 2 3]) 3 6 = .ok true := by rfl

/-- Corollary: two operation sequences with the same members (any order, any repetitions). -/
theorem order_independent_perm (ops1 ops2 : List Op) (hperm : ∀ op, op ∈ ops1 ↔ op ∈ ops2) (a b : Cst) :
    test (run ops1) a b = test (run ops2) a b := by
  apply order_independent
  · intro x y; rw [hperm, hperm]
  · intro a1 a2 a; exact hperm _
  · intro c
    constructor
    · rintro ⟨op, h1, h2⟩; exact ⟨op, (hperm op).1 h1, h2⟩
    · rintro ⟨op, h1, h2⟩; exact ⟨op, (hperm op).2 h1, h2⟩

/- non-vacuity: the reversed sequence has the same members; both answer `True` for (3, 6). -/
example : test (run [.mergeC 2 5, .mergeC 1 4, .mergeF 4 5 6, .mergeF 1 2 3]) 3 6 = .ok true := by rfl

/-- The answers do not depend on the names of the constants: renaming all constants injectively
(the HOL wrapper numbers its constants `s1, s2, …` in the order in which terms happen to be added)
leaves every `test` answer on entered constants unchanged. -/
theorem renaming_invariant (ρ : Cst → Cst) (inj : ∀ x y, ρ x = ρ y → x = y) (ops : List Op) (a b : Cst)
    (ha : entered ops a) (hb : entered ops b) :
    test (run (ops.map (Op.rename ρ))) (ρ a) (ρ b) = test (run ops) a b := by
  have ha' := entered_rename (ρ := ρ) ha
  have hb' := entered_rename (ρ := ρ) hb
  obtain ⟨v1, h1⟩ := (test_defined_iff_entered _ _ _).2 ⟨ha', hb'⟩
  obtain ⟨v2, h2⟩ := (test_defined_iff_entered ops a b).2 ⟨ha, hb⟩
  rw [h1, h2]
  congr 1
  cases v1 <;> cases v2 <;> try rfl
  · have := test_complete _ _ _ ha' hb' ((Cl.rename_iff inj).2 (test_sound ops a b h2))
    rw [h1] at this; cases this
  · have := test_complete ops a b ha hb ((Cl.rename_iff inj).1 (test_sound _ _ _ h1))
    rw [h2] at this; cases this

/- non-vacuity: the earlier example with every constant shifted by 10. -/
example : test (run ([Op.mergeF 1 2 3, .mergeF 4 5 6, .mergeC 1 4, .mergeC 2 5].map (Op.rename (· + 10)))) 13 16 = .ok true := by rfl

/-- The proof forest is well formed in every reachable state: its keys are the entered constants,
every parent pointer stays inside the class and leads to an entered constant, it is acyclic (ranked),
every class has exactly one root, and no `_path_to_root` walk inside `merge` ever ran out of steps
(`stuck` is never set: the model's bound `len(proof_forest)` for the walk always suffices). -/
theorem proof_forest_wellformed (ops : List Op) : ForestInv (run ops) :=
  run_forest ops

example : (run [.mergeC 1 2, .mergeC 3 2, .mergeC 4 3]).forest =
    [(2, none), (1, some (2, .const 1 2)), (3, some (2, .const 3 2)), (4, some (3, .const 4 3))] := by rfl

/-- Whatever the recursion bound and the memo dictionary, `explain` on two constants that `test` reports
equal can only fail by exhausting the bound: `cur_path` is always computed (no KeyError, no `assert`, the
walks to the root finish), also in all recursive calls. -/
theorem explain_fails_only_by_depth (ops : List Op) (a b : Cst) (h : test (run ops) a b = .ok true) :
    (∃ p, curPath (run ops).forest a b = .ok p) ∧
    ∀ fuel res e, explain (run ops).forest fuel a b res = .error e → e = .fuel := by
  have F := run_forest ops
  have A := argsOK_of (run_sound ops) (run_complete ops) (run_pending_nil ops)
  unfold test at h
  split at h
  · next ra rb h1 h2 =>
    simp only [Except.ok.injEq, decide_eq_true_eq] at h
    have da : Dom (run ops) a := ⟨ra, h1⟩
    have db : Dom (run ops) b := ⟨rb, h2⟩
    have hab : repOf (run ops) a = repOf (run ops) b := by rw [repOf_of_get h1, repOf_of_get h2, h]
    exact ⟨curPath_defined F da db hab, fun fuel res e he => explain_only_fuel F A fuel a b res e da db hab he⟩
  · cases h

example : ∃ p, curPath (run [.mergeF 1 2 3, .mergeF 4 5 6, .mergeC 1 4, .mergeC 2 5]).forest 3 6 = .ok p := ⟨_, rfl⟩

/-- `explain` is total: in every reachable state, for constants `a`, `b` with `test(a, b) == True`,
`explain(a, b)` returns a dictionary -- no KeyError, no `assert`, and the model's bounds are never hit:
every walk to the root takes at most `len(proof_forest)` steps and the recursion through application
labels is at most `len(proof_forest) + 1` deep (`len(proof_forest)` = number of entered constants).
The recursion is well founded because an application label on the path between two constants was added
by a union no later than the one that joined the two constants, and its argument pairs were joined by
strictly earlier unions (time stamps; `TimeInv.lean`). -/
theorem explain_total (ops : List Op) (a b : Cst) (h : test (run ops) a b = .ok true) :
    ∃ res, explainTop (run ops) a b = .ok res := by
  have F := run_forest ops
  have A := argsOK_of (run_sound ops) (run_complete ops) (run_pending_nil ops)
  obtain ⟨T, now, TI, b1, b2⟩ := (run_time ops).time
  unfold test at h
  split at h
  · next ra rb h1 h2 =>
    simp only [Except.ok.injEq, decide_eq_true_eq] at h
    have da : Dom (run ops) a := ⟨ra, h1⟩
    have db : Dom (run ops) b := ⟨rb, h2⟩
    have hab : repOf (run ops) a = repOf (run ops) b := by rw [repOf_of_get h1, repOf_of_get h2, h]
    unfold explainTop
    exact explain_succeeds F A TI _ a b [] da db hab (by have := TI.le a b; omega)
  · cases h

/- non-vacuity: a nested explanation (3 = 6 needs 1 = 4 and 2 = 5 first). -/
example : ∃ res, explainTop (run [.mergeF 1 2 3, .mergeF 4 5 6, .mergeC 1 4, .mergeC 2 5]) 3 6 = .ok res := ⟨_, rfl⟩

/-- `specTest eqs a b` (merge exactly the equations `eqs` into an empty structure and ask) decides the
congruence closure of a finite list of equations: the executable form of the specification `Cl`. -/
theorem specTest_iff (eqs : List Eqn) (a b : Cst) :
    specTest eqs a b = .ok true ↔ Cl (fun q => q ∈ eqs) a b :=
  specTest_iff' eqs a b

example : specTest [.f 1 2 3, .f 4 5 6, .c 1 4, .c 2 5] 3 6 = .ok true ∧
    specTest [.f 1 2 3, .f 4 5 6, .c 1 4] 3 6 = .ok false := by constructor <;> rfl

/-- Every explanation is a proof: the list of input equations that `explain(a, b)` returns
(`resEqList res`: the constant equations and the application equations of all labels, with
repetitions) consists of merged equations only, and re-running the decision procedure of the
specification on exactly these equations derives `a = b`. -/
theorem explain_complete_proof (ops : List Op) (a b : Cst) (res : Res)
    (h : explainTop (run ops) a b = .ok res) :
    specTest (resEqList res) a b = .ok true ∧ ∀ q ∈ resEqList res, eqsOf ops q := by
  obtain ⟨_, h2, _, h4⟩ := explain_uses_inputs ops a b res h
  constructor
  · rw [specTest_iff]
    exact (Cl.congr_set (fun q => (mem_resEqList res q).symm)).1 h4
  · intro q hq; exact h2 q ((mem_resEqList res q).1 hq)

/- non-vacuity: the explanation of 3 = 6 lists 1 = 4, 2 = 5 and both application equations; three of them do not suffice. -/
example : (explainTop (run [.mergeF 1 2 3, .mergeF 4 5 6, .mergeC 1 4, .mergeC 2 5, .mergeC 7 8]) 3 6).toOption.map resEqList =
    some [.c 1 4, .c 2 5, .f 1 2 3, .f 4 5 6] := by rfl

/-- The HOL wrapper's `test` is sound: after any sequence of `merge` / `add_term` calls (what `test`
and `explain` do to their arguments), if `test(l, r)` answers `True` then `l = r` is derivable from the
merged term equations by reflexivity, symmetry, transitivity and congruence of application, and hence
holds in every structure in which the merged equations hold. -/
theorem hol_test_sound (wops : List WOp) (l r : Term) (h : (wtest (wrun wops) l r).2 = .ok true) :
    TCl (weqs wops) l r ∧ Entails (weqs wops) l r :=
  ⟨wtest_sound_of (wrun_inv wops) h, tcl_entails (wtest_sound_of (wrun_inv wops) h)⟩

/- non-vacuity (a = atom 0, f = atom 1): after merging f a = a, test(f (f a), a) is True. -/
example : (wtest (wrun [.merge (.app (.atom 1) (.atom 0)) (.atom 0)])
    (.app (.atom 1) (.app (.atom 1) (.atom 0))) (.atom 0)).2 = .ok true := by rfl

/-- The HOL wrapper's `test` is complete on curried first-order terms: if `l = r` holds in every
structure satisfying the merged equations (in particular if it is derivable, `TCl`), `test(l, r)`
answers `True` -- whatever terms were entered before and in whatever order. -/
theorem hol_test_complete (wops : List WOp) (l r : Term)
    (h : Entails (weqs wops) l r ∨ TCl (weqs wops) l r) : (wtest (wrun wops) l r).2 = .ok true := by
  rcases h with h | h
  · exact wtest_complete_of (wrun_inv wops) h
  · exact wtest_complete_of (wrun_inv wops) (tcl_entails h)

/- non-vacuity: f a = a entails f (f a) = a. -/
example : TCl (weqs [.merge (.app (.atom 1) (.atom 0)) (.atom 0)]) (.app (.atom 1) (.app (.atom 1) (.atom 0))) (.atom 0) :=
  .trans (t := .app (.atom 1) (.atom 0)) (.app (.refl _) (.base (by simp [weqs]))) (.base (by simp [weqs]))

/-- The wrapper's tables stay consistent: `rev_index` and `index` are inverse to each other, the
core structure is exactly the result of the core calls made (`log`), every entered application
`Comb(f, x)` has its parts entered and its defining equation `((f', x'), t')` merged, and every merged
core equation comes from a merged term equation. -/
theorem hol_tables_consistent (wops : List WOp) : WInv (weqs wops) (wrun wops) :=
  wrun_inv wops

example : (wrun [.merge (.app (.atom 1) (.atom 0)) (.atom 0)]).index =
    [(1, .atom 1), (2, .atom 0), (3, .app (.atom 1) (.atom 0))] := by rfl

end Holpy.C17
