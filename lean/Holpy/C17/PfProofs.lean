import Holpy.C17.PfModel
import Holpy.C17.HolTheorems
import Holpy.C17.ExplainTotalFull
/-
C17 — helper lemmas, part 20: the proof-term assembly `getPf` (`get_proofterm`) always succeeds on the
dictionary returned by `explain` in a reachable wrapper state, and the assembled tree checks.
-/
namespace Holpy.C17

-- ---------------------------------------------------------------- the checker on the smart constructors

theorem mkTrans_concl {p q : EqPf} {x y z : Term} (hp : p.concl = some (x, y)) (hq : q.concl = some (y, z)) :
    (mkTrans p q).concl = some (x, z) := by
  unfold mkTrans
  split
  · next h =>
    simp only [EqPf.isRefl, hp, decide_eq_true_eq] at h
    subst h; exact hq
  · split
    · next h =>
      simp only [EqPf.isRefl, hq, decide_eq_true_eq] at h
      subst h; exact hp
    · simp [EqPf.concl, hp, hq]

theorem mkTrans_hyps {p q : EqPf} : ∀ h ∈ (mkTrans p q).hyps, h ∈ p.hyps ∨ h ∈ q.hyps := by
  intro h hm
  unfold mkTrans at hm
  split at hm
  · exact .inr hm
  · split at hm
    · exact .inl hm
    · simpa [EqPf.hyps] using hm

theorem mkTrans_gaps {p q : EqPf} : ∀ h ∈ (mkTrans p q).gaps, h ∈ p.gaps ∨ h ∈ q.gaps := by
  intro h hm
  unfold mkTrans at hm
  split at hm
  · exact .inr hm
  · split at hm
    · exact .inl hm
    · simpa [EqPf.gaps] using hm

-- ---------------------------------------------------------------- what the assembly relies on

/-- `pf` proves `x = y` with hypotheses in `H` and gaps in `G`. -/
def GoodPf (H G : Term × Term → Prop) (pf : EqPf) (x y : Term) : Prop :=
  pf.concl = some (x, y) ∧ (∀ h ∈ pf.hyps, H h) ∧ (∀ g ∈ pf.gaps, G g)

theorem GoodPf.trans {H G : Term × Term → Prop} {p q : EqPf} {x y z : Term}
    (hp : GoodPf H G p x y) (hq : GoodPf H G q y z) : GoodPf H G (mkTrans p q) x z := by
  refine ⟨mkTrans_concl hp.1 hq.1, ?_, ?_⟩
  · intro h hm; rcases mkTrans_hyps h hm with hm | hm
    · exact hp.2.1 h hm
    · exact hq.2.1 h hm
  · intro h hm; rcases mkTrans_gaps h hm with hm | hm
    · exact hp.2.2 h hm
    · exact hq.2.2 h hm

theorem GoodPf.symm {H G : Term × Term → Prop} {p : EqPf} {x y : Term}
    (hp : GoodPf H G p x y) : GoodPf H G (.symm p) y x :=
  ⟨by simp [EqPf.concl, hp.1], hp.2.1, hp.2.2⟩

theorem GoodPf.refl {H G : Term × Term → Prop} (t : Term) : GoodPf H G (.refl t) t t :=
  ⟨rfl, by simp [EqPf.hyps], by simp [EqPf.gaps]⟩

/-- The facts about the wrapper state, the table `pts` and the dictionary `res` the assembly uses. -/
structure AsmCtx (E : Term → Term → Prop) (w : WState) (pts : Pts) (res : Res)
    (H G : Term × Term → Prop) : Prop where
  W : WInv E w
  ptsOK : ∀ a b q, aget pts (a, b) = some q → ∃ s t, aget w.index a = some s ∧ aget w.index b = some t ∧ GoodPf H G q s t
  gapOK : ∀ s t, E s t → G (s, t)
  chain : ∀ ent ∈ res, Chain ent.2 ent.1.1 ent.1.2
  labOK : ∀ ent ∈ res, ∀ l ∈ ent.2, LabelOK (eqsOf w.log) l

/-- both ends of a justified label are in the table `index`; for an application label they stand for
the applications of the arguments. -/
theorem label_index {E : Term → Term → Prop} {w : WState} (W : WInv E w) {l : Label}
    (ok : LabelOK (eqsOf w.log) l) :
    match l with
    | .const a b => ∃ s t, aget w.index a = some s ∧ aget w.index b = some t ∧ E s t
    | .comb e1 e2 => ∃ f x f' x', aget w.index e1.a1 = some f ∧ aget w.index e1.a2 = some x ∧
        aget w.index e1.a = some (.app f x) ∧ aget w.index e2.a1 = some f' ∧ aget w.index e2.a2 = some x' ∧
        aget w.index e2.a = some (.app f' x') := by
  cases l with
  | const a b => exact W.logC a b ok
  | comb e1 e2 =>
    obtain ⟨f, x, h1, h2, h3⟩ := W.logF _ _ _ ok.1
    obtain ⟨f', x', h4, h5, h6⟩ := W.logF _ _ _ ok.2.1
    exact ⟨f, x, f', x', h1, h2, h3, h4, h5, h6⟩

/-- What a successful recursive call guarantees. -/
def GoodRec (w : WState) (H G : Term × Term → Prop) (g : Cst → Cst → Except Err EqPf) : Prop :=
  ∀ x y pf, g x y = .ok pf → ∃ tx ty, aget w.index x = some tx ∧ aget w.index y = some ty ∧ GoodPf H G pf tx ty

theorem argPf_valid {w : WState} {H G : Term × Term → Prop} {g} (R : GoodRec w H G g) {x y : Cst} {pf : EqPf}
    (h : argPf w.index g x y = .ok pf) :
    ∃ tx ty, aget w.index x = some tx ∧ aget w.index y = some ty ∧ GoodPf H G pf tx ty := by
  unfold argPf at h
  split at h
  · exact R x y pf h
  · next hxy =>
    have hxy : x = y := Classical.not_not.mp hxy
    subst hxy
    unfold reflAt at h
    split at h
    · next t ht => cases h; exact ⟨t, t, ht, ht, GoodPf.refl t⟩
    · cases h

theorem labelPf_valid {E : Term → Term → Prop} {w : WState} {pts : Pts} {res : Res} {H G : Term × Term → Prop}
    (C : AsmCtx E w pts res H G) {g} (R : GoodRec w H G g) {l : Label} (ok : LabelOK (eqsOf w.log) l) {q : EqPf}
    (h : labelPf w.index pts g l = .ok q) :
    ∃ s t, aget w.index l.ends.1 = some s ∧ aget w.index l.ends.2 = some t ∧ GoodPf H G q s t := by
  have li := label_index C.W ok
  cases l with
  | const a b =>
    simp only [labelPf] at h
    split at h
    · next q' hq => cases h; exact C.ptsOK a b _ hq
    · obtain ⟨s, t, h1, h2, h3⟩ := li
      simp only [h1, h2] at h
      cases h
      exact ⟨s, t, h1, h2, rfl, by simp [EqPf.hyps], by simpa [EqPf.gaps] using C.gapOK s t h3⟩
  | comb e1 e2 =>
    obtain ⟨f, x, f', x', h1, h2, h3, h4, h5, h6⟩ := li
    simp only [labelPf] at h
    split at h
    · cases h
    · next p1 hp1 =>
      split at h
      · cases h
      · next p2 hp2 =>
        cases h
        obtain ⟨a, b, ha, hb, g1⟩ := argPf_valid R hp1
        obtain ⟨c, d, hc, hd, g2⟩ := argPf_valid R hp2
        rw [h1] at ha; rw [h4] at hb; rw [h2] at hc; rw [h5] at hd
        cases ha; cases hb; cases hc; cases hd
        refine ⟨_, _, h3, h6, ?_, ?_, ?_⟩
        · simp [EqPf.concl, g1.1, g2.1]
        · intro hh hm
          simp only [EqPf.hyps, List.mem_append] at hm
          rcases hm with hm | hm
          · exact g1.2.1 hh hm
          · exact g2.2.1 hh hm
        · intro hh hm
          simp only [EqPf.gaps, List.mem_append] at hm
          rcases hm with hm | hm
          · exact g1.2.2 hh hm
          · exact g2.2.2 hh hm

theorem chainPf_valid {E : Term → Term → Prop} {w : WState} {pts : Pts} {res : Res} {H G : Term × Term → Prop}
    (C : AsmCtx E w pts res H G) {g} (R : GoodRec w H G g) (tu : Term) (v : Cst) :
    ∀ (ls : List Label) (pt : EqPf) (cur : Cst) (tc : Term) (pf : EqPf),
      (∀ l ∈ ls, LabelOK (eqsOf w.log) l) → Chain ls cur v → aget w.index cur = some tc → GoodPf H G pt tu tc →
      chainPf w.index pts g ls pt cur = .ok pf → ∃ tv, aget w.index v = some tv ∧ GoodPf H G pf tu tv := by
  intro ls
  induction ls with
  | nil =>
    intro pt cur tc pf _ hc hi gp h
    simp only [Chain] at hc; subst hc
    simp only [chainPf, Except.ok.injEq] at h; subst h
    exact ⟨tc, hi, gp⟩
  | cons l ls ih =>
    intro pt cur tc pf hl hc hi gp h
    obtain ⟨z, hst, hrest⟩ := hc
    simp only [chainPf] at h
    split at h
    · cases h
    · next q hq =>
      obtain ⟨s, t, hs, ht, gq⟩ := labelPf_valid C R (hl l (by simp)) hq
      have hl' : ∀ l' ∈ ls, LabelOK (eqsOf w.log) l' := fun l' h' => hl l' (List.mem_cons_of_mem _ h')
      split at h
      · next h1 =>
        have hz : l.ends.2 = z := by
          rcases hst with e | e
          · rw [e]
          · rw [e] at h1 ⊢; simp only at h1 ⊢; exact h1.symm
        rw [h1] at hs; rw [hi] at hs; cases hs
        exact ih _ _ t pf hl' (hz ▸ hrest) ht (gp.trans gq) h
      · next h1 =>
        split at h
        · next h2 =>
          have hz : l.ends.1 = z := by
            rcases hst with e | e
            · rw [e] at h1; exact absurd rfl h1
            · rw [e]
          rw [h2] at ht; rw [hi] at ht; cases ht
          exact ih _ _ s pf hl' (hz ▸ hrest) hs (gp.trans gq.symm) h
        · cases h

theorem getPf_valid {E : Term → Term → Prop} {w : WState} {pts : Pts} {res : Res} {H G : Term × Term → Prop}
    (C : AsmCtx E w pts res H G) (n : Nat) : GoodRec w H G (getPf w.index pts res n) := by
  induction n with
  | zero => intro x y pf h; simp [getPf] at h
  | succ n ih =>
    intro u v pf h
    unfold getPf at h
    split at h
    · next huv =>
      subst huv
      unfold reflAt at h
      split at h
      · next t ht => cases h; exact ⟨t, t, ht, ht, GoodPf.refl t⟩
      · cases h
    · split at h
      · cases h
      · next path hpath =>
        split at h
        · cases h
        · next t ht =>
          have hm := aget_mem hpath
          obtain ⟨tv, hv, gv⟩ := chainPf_valid C ih t v path (.refl t) u t pf (C.labOK _ hm) (C.chain _ hm) ht (GoodPf.refl t) h
          exact ⟨t, tv, ht, hv, gv⟩

end Holpy.C17
