import Holpy.C17.Spec
/-
C17 — helper lemmas, part 1: association lists and the soundness invariant
(everything stored in the structure is justified by the merged equations).
-/
namespace Holpy.C17

-- ---------------------------------------------------------------- association lists
section AList
variable {α : Type} {β : Type} [DecidableEq α]

theorem aget_aset (l : List (α × β)) (x y : α) (v : β) :
    aget (aset l x v) y = if x = y then some v else aget l y := by
  induction l with
  | nil => simp [aset, aget]
  | cons p r ih =>
    obtain ⟨k, w⟩ := p
    by_cases h : k = x
    · subst h; by_cases h2 : k = y <;> simp [aset, aget, h2]
    · by_cases h2 : k = y
      · subst h2
        have : ¬ x = k := fun e => h e.symm
        simp [aset, aget, h, this]
      · simp [aset, aget, h, h2, ih]

theorem aget_adel (l : List (α × β)) (x y : α) :
    aget (adel l x) y = if x = y then none else aget l y := by
  induction l with
  | nil => simp [adel, aget]
  | cons p r ih =>
    obtain ⟨k, w⟩ := p
    unfold adel at ih ⊢
    by_cases h : k = x
    · subst h
      by_cases h2 : k = y
      · subst h2; simpa [List.filter, aget] using ih
      · simpa [List.filter, aget, h2] using ih
    · by_cases h2 : x = y
      · subst h2; simpa [List.filter, aget, h] using ih
      · simp only [List.filter, h, decide_false, Bool.not_false, aget, h2, if_false] at ih ⊢
        rw [ih]

theorem aget_mem {l : List (α × β)} {x : α} {v : β} (h : aget l x = some v) : (x, v) ∈ l := by
  induction l with
  | nil => simp [aget] at h
  | cons p r ih =>
    obtain ⟨k, w⟩ := p
    by_cases hk : k = x
    · subst hk; simp [aget] at h; subst h; simp
    · simp [aget, hk] at h; exact List.mem_cons_of_mem _ (ih h)

end AList

-- ---------------------------------------------------------------- closure basics

theorem Cl.mono {E E' : Eqn → Prop} (h : ∀ q, E q → E' q) {a b : Cst} (c : Cl E a b) : Cl E' a b := by
  induction c with
  | base e => exact .base (h _ e)
  | refl a => exact .refl a
  | symm _ ih => exact .symm ih
  | trans _ _ ih1 ih2 => exact .trans ih1 ih2
  | cong e1 e2 _ _ ih1 ih2 => exact .cong (h _ e1) (h _ e2) ih1 ih2

theorem LabelOK.mono {E E' : Eqn → Prop} (h : ∀ q, E q → E' q) {l : Label} (c : LabelOK E l) : LabelOK E' l := by
  cases l with
  | const a b => exact h _ c
  | comb e1 e2 => exact ⟨h _ c.1, h _ c.2.1, c.2.2.1.mono h, c.2.2.2.mono h⟩

theorem LabelOK.cl {E : Eqn → Prop} {l : Label} (c : LabelOK E l) : Cl E l.ends.1 l.ends.2 := by
  cases l with
  | const a b => exact .base c
  | comb e1 e2 => exact .cong c.1 c.2.1 c.2.2.1 c.2.2.2

/-- The label `l` joins `x` and `y` (in one of the two directions). -/
def Step (l : Label) (x y : Cst) : Prop := l.ends = (x, y) ∨ l.ends = (y, x)

theorem Step.symm {l : Label} {x y : Cst} (h : Step l x y) : Step l y x := Or.symm h

theorem Step.cl {E : Eqn → Prop} {l : Label} {x y : Cst} (h : Step l x y) (ok : LabelOK E l) : Cl E x y := by
  have := ok.cl
  rcases h with h | h <;> rw [h] at this
  · exact this
  · exact this.symm

-- ---------------------------------------------------------------- the soundness invariant

def RepOK (E : Eqn → Prop) (rep : List (Cst × Cst)) : Prop := ∀ c r, aget rep c = some r → Cl E c r
def ClsOK (E : Eqn → Prop) (cls : List (Cst × List Cst)) : Prop := ∀ r l c, aget cls r = some l → c ∈ l → Cl E c r
def UseOK (E : Eqn → Prop) (use : List (Cst × List CEq)) : Prop := ∀ r l e, aget use r = some l → e ∈ l → E e.eqn
def LookupOK (E : Eqn → Prop) (lk : List ((Cst × Cst) × CEq)) : Prop :=
  ∀ k e, aget lk k = some e → E e.eqn ∧ Cl E e.a1 k.1 ∧ Cl E e.a2 k.2
def PendOK (E : Eqn → Prop) (p : List Label) : Prop := ∀ l ∈ p, LabelOK E l
def ForestOK (E : Eqn → Prop) (f : Forest) : Prop :=
  ∀ c p l, aget f c = some (some (p, l)) → LabelOK E l ∧ Step l c p

structure Sound (E : Eqn → Prop) (s : State) : Prop where
  rep : RepOK E s.rep
  cls : ClsOK E s.cls
  use : UseOK E s.use
  lookup : LookupOK E s.lookup
  pending : PendOK E s.pending
  forest : ForestOK E s.forest

theorem Sound.mono {E E' : Eqn → Prop} (h : ∀ q, E q → E' q) {s : State} (S : Sound E s) : Sound E' s where
  rep := fun c r hc => (S.rep c r hc).mono h
  cls := fun r l c hr hc => (S.cls r l c hr hc).mono h
  use := fun r l e hr he => h _ (S.use r l e hr he)
  lookup := fun k e hk => ⟨h _ (S.lookup k e hk).1, (S.lookup k e hk).2.1.mono h, (S.lookup k e hk).2.2.mono h⟩
  pending := fun l hl => (S.pending l hl).mono h
  forest := fun c p l hc => ⟨(S.forest c p l hc).1.mono h, (S.forest c p l hc).2⟩

theorem Sound.init (E : Eqn → Prop) : Sound E State.init where
  rep := by intro c r h; simp [State.init, aget] at h
  cls := by intro r l c h; simp [State.init, aget] at h
  use := by intro r l e h; simp [State.init, aget] at h
  lookup := by intro k e h; simp [State.init, aget] at h
  pending := by intro l h; simp [State.init] at h
  forest := by intro c p l h; simp [State.init, aget] at h

theorem Sound.repOf {E : Eqn → Prop} {s : State} (S : Sound E s) (c : Cst) : Cl E c (repOf s c) := by
  unfold Holpy.C17.repOf
  cases h : aget s.rep c with
  | none => exact .refl c
  | some r => exact S.rep c r h

theorem Sound.clsOf {E : Eqn → Prop} {s : State} (S : Sound E s) {r c : Cst} (h : c ∈ clsOf s r) : Cl E c r := by
  unfold Holpy.C17.clsOf at h
  cases h2 : aget s.cls r with
  | none => simp [h2] at h
  | some l => simp [h2] at h; exact S.cls r l c h2 h

theorem Sound.useOf {E : Eqn → Prop} {s : State} (S : Sound E s) {r : Cst} {e : CEq} (h : e ∈ useOf s r) : E e.eqn := by
  unfold Holpy.C17.useOf at h
  cases h2 : aget s.use r with
  | none => simp [h2] at h
  | some l => simp [h2] at h; exact S.use r l e h2 h

theorem Sound.addVar {E : Eqn → Prop} {s : State} (S : Sound E s) (c : Cst) : Sound E (addVar s c) := by
  unfold Holpy.C17.addVar
  split
  · exact S
  · refine ⟨?_, ?_, ?_, S.lookup, S.pending, ?_⟩
    · intro x r h
      simp only [aget_aset] at h
      split at h
      · cases h; subst_vars; exact .refl _
      · exact S.rep x r h
    · intro r l x h hx
      simp only [aget_aset] at h
      split at h
      · cases h; subst_vars; simp at hx; subst hx; exact .refl _
      · exact S.cls r l x h hx
    · intro r l e h he
      simp only [aget_aset] at h
      split at h
      · cases h; simp at he
      · exact S.use r l e h he
    · intro x p l h
      simp only [aget_aset] at h
      split at h
      · cases h
      · exact S.forest x p l h

-- proof forest

/-- The tail of a path to the root is a chain of justified labels starting at `x`. -/
def ChainOK (E : Eqn → Prop) : Cst → Path → Prop
  | _, [] => True
  | x, (p, some l) :: r => (LabelOK E l ∧ Step l x p) ∧ ChainOK E p r
  | _, (_, none) :: _ => False

theorem pathGo_chain {E : Eqn → Prop} {f : Forest} (F : ForestOK E f) (n : Nat) (x : Cst) :
    ChainOK E x (pathGo f n x) := by
  induction n generalizing x with
  | zero => simp [pathGo, ChainOK]
  | succ n ih =>
    unfold pathGo
    split
    · next p l h => exact ⟨F x p l h, ih p⟩
    · simp [ChainOK]

theorem reverseEdges_ok {E : Eqn → Prop} (path : Path) (f : Forest) (F : ForestOK E f) (x : Cst) (o : Option Label)
    (C : ChainOK E x path) : ForestOK E (reverseEdges f ((x, o) :: path)) := by
  induction path generalizing f x o with
  | nil => simpa [reverseEdges] using F
  | cons q r ih =>
    obtain ⟨ps, ol⟩ := q
    cases ol with
    | none => simp [ChainOK] at C
    | some l =>
      simp only [ChainOK] at C
      simp only [reverseEdges]
      apply ih _ _ _ _ C.2
      intro c p l' h
      simp only [aget_aset] at h
      split at h
      · cases h; subst_vars; exact ⟨C.1.1, C.1.2.symm⟩
      · exact F c p l' h

theorem addEdge_ok {E : Eqn → Prop} {f : Forest} (F : ForestOK E f) {a b : Cst} {lab : Label}
    (ok : LabelOK E lab) (st : Step lab a b) : ForestOK E (addEdge f a b lab) := by
  unfold addEdge pathToRoot
  apply reverseEdges_ok
  · intro c p l h
    simp only [aget_aset] at h
    split at h
    · cases h; subst_vars; exact ⟨ok, st⟩
    · exact F c p l h
  · exact pathGo_chain F _ _

-- moving the class

theorem foldl_aset_rep (ca : List Cst) (rb : Cst) (rep : List (Cst × Cst)) (c r : Cst)
    (h : aget (ca.foldl (fun rep c => aset rep c rb) rep) c = some r) :
    aget rep c = some r ∨ (c ∈ ca ∧ r = rb) := by
  induction ca generalizing rep with
  | nil => exact .inl h
  | cons x xs ih =>
    simp only [List.foldl] at h
    rcases ih _ h with h' | ⟨h1, h2⟩
    · simp only [aget_aset] at h'
      split at h'
      · cases h'; subst_vars; exact .inr ⟨by simp, rfl⟩
      · exact .inl h'
    · exact .inr ⟨List.mem_cons_of_mem _ h1, h2⟩

theorem useStep_sound {E : Eqn → Prop} {s : State} (S : Sound E s) (rb : Cst) {eq : CEq} (he : E eq.eqn) :
    Sound E (useStep rb s eq) := by
  unfold useStep
  dsimp only
  split
  · next eq2 h =>
    refine ⟨S.rep, S.cls, S.use, S.lookup, ?_, S.forest⟩
    intro l hl
    simp only [List.mem_append, List.mem_singleton] at hl
    rcases hl with hl | hl
    · exact S.pending l hl
    · subst hl
      have := S.lookup _ _ h
      exact ⟨he, this.1, (S.repOf eq.a1).trans this.2.1.symm, (S.repOf eq.a2).trans this.2.2.symm⟩
  · refine ⟨S.rep, S.cls, ?_, ?_, S.pending, S.forest⟩
    · intro r l e h hel
      unfold pushUse at h
      simp only [aget_aset] at h
      split at h
      · cases h
        simp only [List.mem_append, List.mem_singleton] at hel
        rcases hel with hel | hel
        · cases h2 : aget s.use rb with
          | none => simp [h2] at hel
          | some l0 => simp [h2] at hel; exact S.use rb l0 e h2 hel
        · subst hel; exact he
      · exact S.use r l e h hel
    · intro k e h
      simp only [aget_aset] at h
      split at h
      · next hk => cases h; subst hk; exact ⟨he, S.repOf _, S.repOf _⟩
      · exact S.lookup k e h

theorem foldl_useStep_sound {E : Eqn → Prop} (l : List CEq) (rb : Cst) {s : State} (S : Sound E s)
    (hl : ∀ e ∈ l, E e.eqn) : Sound E (l.foldl (useStep rb) s) := by
  induction l generalizing s with
  | nil => exact S
  | cons x xs ih =>
    simp only [List.foldl]
    exact ih (useStep_sound S rb (hl x (by simp))) (fun e he => hl e (List.mem_cons_of_mem _ he))

theorem unionStep_sound {E : Eqn → Prop} {s : State} (S : Sound E s) {a b ra rb : Cst} {lab : Label}
    (ok : LabelOK E lab) (st : Step lab a b) (hra : ra = repOf s a) (hrb : rb = repOf s b) :
    Sound E (unionStep s a b ra rb lab) := by
  have hab : Cl E a b := st.cl ok
  have hrr : Cl E ra rb := by
    subst hra hrb; exact ((S.repOf a).symm.trans hab).trans (S.repOf b)
  unfold unionStep
  -- stage 1-3: forest, rep, cls
  have S3 : Sound E { s with stuck := s.stuck || !pathComplete s.forest s.forest.length a,
                             forest := addEdge s.forest a b lab,
                             rep := (clsOf s ra).foldl (fun rep c => aset rep c rb) s.rep,
                             cls := adel (aset s.cls rb (clsOf s rb ++ clsOf s ra)) ra } := by
    refine ⟨?_, ?_, S.use, S.lookup, S.pending, addEdge_ok S.forest ok st⟩
    · intro c r h
      rcases foldl_aset_rep _ _ _ _ _ h with h | ⟨h1, h2⟩
      · exact S.rep c r h
      · subst h2; exact (S.clsOf h1).trans hrr
    · intro r l c h hc
      simp only [aget_adel, aget_aset] at h
      split at h
      · cases h
      · split at h
        · cases h; subst_vars
          simp only [List.mem_append] at hc
          rcases hc with hc | hc
          · exact S.clsOf hc
          · exact (S.clsOf hc).trans hrr
        · exact S.cls r l c h hc
  have S4 := foldl_useStep_sound (useOf s ra) rb S3 (fun e he => S.useOf he)
  refine ⟨S4.rep, S4.cls, ?_, S4.lookup, S4.pending, S4.forest⟩
  intro r l e h hel
  simp only [aget_adel] at h
  split at h
  · cases h
  · exact S4.use r l e h hel

theorem propStep_sound {E : Eqn → Prop} {s : State} (S : Sound E s) {lab : Label} (ok : LabelOK E lab) :
    Sound E (propStep s lab) := by
  unfold propStep
  dsimp only
  split
  · exact S
  · split
    · exact unionStep_sound S ok (.inr rfl) rfl rfl
    · exact unionStep_sound S ok (.inl rfl) rfl rfl

theorem propagate_sound {E : Eqn → Prop} (n : Nat) {s : State} (S : Sound E s) : Sound E (propagate n s) := by
  induction n generalizing s with
  | zero => exact S
  | succ n ih =>
    unfold propagate
    split
    · exact S
    · next lab rest h =>
      apply ih
      apply propStep_sound
      · exact ⟨S.rep, S.cls, S.use, S.lookup, fun l hl => S.pending l (by rw [h]; exact List.mem_cons_of_mem _ hl), S.forest⟩
      · exact S.pending lab (by rw [h]; simp)

theorem enqueue_sound {E : Eqn → Prop} {s : State} (S : Sound E s) {lab : Label} (ok : LabelOK E lab) :
    Sound E (enqueue s lab) := by
  unfold enqueue
  apply propagate_sound
  refine ⟨S.rep, S.cls, S.use, S.lookup, ?_, S.forest⟩
  intro l hl
  simp only [List.mem_append, List.mem_singleton] at hl
  rcases hl with hl | hl
  · exact S.pending l hl
  · subst hl; exact ok

theorem mergeConst_sound {E : Eqn → Prop} {s : State} (S : Sound E s) {a b : Cst} (h : E (.c a b)) :
    Sound E (mergeConst s a b) := by
  unfold mergeConst
  exact enqueue_sound ((S.addVar b).addVar a) h

theorem pushUse_ok {E : Eqn → Prop} {use : List (Cst × List CEq)} (U : UseOK E use) (r : Cst) {e : CEq} (he : E e.eqn) :
    UseOK E (pushUse use r e) := by
  intro r' l e' h hel
  unfold pushUse at h
  simp only [aget_aset] at h
  split at h
  · cases h
    simp only [List.mem_append, List.mem_singleton] at hel
    rcases hel with hel | hel
    · cases h2 : aget use r with
      | none => simp [h2] at hel
      | some l0 => simp [h2] at hel; exact U r l0 e' h2 hel
    · subst hel; exact he
  · exact U r' l e' h hel

theorem mergeComb_sound {E : Eqn → Prop} {s : State} (S : Sound E s) {a1 a2 a : Cst} (h : E (.f a1 a2 a)) :
    Sound E (mergeComb s a1 a2 a) := by
  unfold mergeComb
  dsimp only
  have S' := ((S.addVar a).addVar a1).addVar a2
  generalize addVar (addVar (addVar s a) a1) a2 = t at S'
  split
  · next eq2 hl =>
    apply enqueue_sound S'
    have := S'.lookup _ _ hl
    exact ⟨h, this.1, (S'.repOf a1).trans this.2.1.symm, (S'.repOf a2).trans this.2.2.symm⟩
  · refine ⟨S'.rep, S'.cls, ?_, ?_, S'.pending, S'.forest⟩
    · exact pushUse_ok (e := ⟨a1, a2, a⟩) (pushUse_ok (e := ⟨a1, a2, a⟩) S'.use _ h) _ h
    · intro k e hk
      simp only [aget_aset] at hk
      split at hk
      · next hk' => cases hk; subst hk'; exact ⟨h, S'.repOf _, S'.repOf _⟩
      · exact S'.lookup k e hk

theorem snoc_induction {α : Type} {P : List α → Prop} (nil : P []) (snoc : ∀ l a, P l → P (l ++ [a])) :
    ∀ l, P l := by
  intro l
  rw [← List.reverse_reverse l]
  induction l.reverse with
  | nil => simpa using nil
  | cons a t ih => simpa using snoc _ a ih

theorem run_snoc (ops : List Op) (op : Op) : run (ops ++ [op]) = applyOp (run ops) op := by
  simp [run, List.foldl_append]

theorem eqsOf_mono (ops : List Op) (op : Op) (q : Eqn) (h : eqsOf ops q) : eqsOf (ops ++ [op]) q := by
  cases q <;> simp_all [eqsOf]

theorem run_sound (ops : List Op) : Sound (eqsOf ops) (run ops) := by
  induction ops using snoc_induction with
  | nil => exact Sound.init _
  | snoc ops op ih =>
    rw [run_snoc]
    have S := ih.mono (eqsOf_mono ops op)
    cases op with
    | add c => exact S.addVar c
    | mergeC a b => exact mergeConst_sound S (by simp [eqsOf])
    | mergeF a1 a2 a => exact mergeComb_sound S (by simp [eqsOf])

theorem test_sound_of {E : Eqn → Prop} {s : State} (S : Sound E s) {a b : Cst} (h : test s a b = .ok true) : Cl E a b := by
  unfold test at h
  split at h
  · next ra rb h1 h2 =>
    simp only [Except.ok.injEq, decide_eq_true_eq] at h
    subst h
    exact (S.rep a ra h1).trans (S.rep b ra h2).symm
  · cases h

end Holpy.C17
