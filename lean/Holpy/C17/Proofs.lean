import Holpy.C17.Model
namespace Holpy.C17
end Holpy.C17
