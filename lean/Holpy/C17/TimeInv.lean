import Holpy.C17.LcaWalk
import Holpy.C17.ForestRun
/-
C17 — helper lemmas, part 17: time stamps.  `T x y` is the number of the union that put `x` and `y`
into one class; every edge on a simple walk between `x` and `y` is at most that old, and the argument
pairs of an application label are strictly older than the edge that carries it.  This is the
decreasing measure for the recursion of `explain`.
-/
namespace Holpy.C17

theorem adj_symm {f : Forest} {u v : Cst} {l : Label} (h : Adj f u v l) : Adj f v u l := Or.symm h

/-- Edges after `_add_edge_proof_forest(a, b, lab)`: the old ones and the new one. -/
theorem adj_addEdge (f : Forest) (a b : Cst) (lab : Label) (u v : Cst) (l : Label)
    (h : Adj (addEdge f a b lab) u v l) :
    Adj f u v l ∨ (l = lab ∧ ((u = a ∧ v = b) ∨ (u = b ∧ v = a))) := by
  have hc := pathGo_isChain f f.length a
  have one : ∀ u v, aget (addEdge f a b lab) u = some (some (v, l)) →
      Adj f u v l ∨ (l = lab ∧ u = a ∧ v = b) := by
    intro u v hu
    rw [addEdge_get] at hu
    cases hrf : revFind a (pathGo f f.length a) u with
    | some r =>
      rw [hrf] at hu
      simp only [Option.some.injEq] at hu
      subst hu
      exact .inl (.inr (revFind_spec f _ a u v l hc hrf).1)
    | none =>
      rw [hrf] at hu
      simp only at hu
      by_cases hau : a = u
      · subst hau
        simp only [if_true, Option.some.injEq, Prod.mk.injEq] at hu
        exact .inr ⟨hu.2.symm, rfl, hu.1.symm⟩
      · simp only [hau, if_false] at hu
        exact .inl (.inl hu)
  rcases h with h | h
  · rcases one u v h with h' | ⟨h1, h2, h3⟩
    · exact .inl h'
    · exact .inr ⟨h1, .inl ⟨h2, h3⟩⟩
  · rcases one v u h with h' | ⟨h1, h2, h3⟩
    · exact .inl (adj_symm h')
    · exact .inr ⟨h1, .inr ⟨h3, h2⟩⟩

theorem walk_adj {f : Forest} {x y : Cst} {w : List Edge} (h : IsWalk f x w y) :
    ∀ e ∈ w, Adj f e.1 e.2.1 e.2.2 := by
  induction w generalizing x with
  | nil => intro e he; simp at he
  | cons e' w ih =>
    intro e he
    simp only [List.mem_cons] at he
    rcases he with he | he
    · subst he; exact h.2.1
    · exact ih h.2.2 e he

theorem walk_rep {s : State} (F : ForestInv s) {x y : Cst} {w : List Edge} (h : IsWalk s.forest x w y) :
    repOf s x = repOf s y := by
  induction w generalizing x with
  | nil => simp only [IsWalk] at h; rw [h]
  | cons e w ih =>
    have := ih h.2.2
    rw [← this, ← h.1]
    rcases h.2.1 with h' | h'
    · exact (F.par _ _ _ h').2
    · exact (F.par _ _ _ h').2.symm

structure TInv (s : State) (T : Cst → Cst → Nat) (now : Nat) : Prop where
  sym : ∀ x y, T x y = T y x
  le : ∀ x y, T x y ≤ now
  pos : ∀ u v l, Adj s.forest u v l → 1 ≤ T u v
  walk : ∀ x w y, IsWalk s.forest x w y → (x :: w.map (·.2.1)).Nodup → ∀ e ∈ w, T e.1 e.2.1 ≤ T x y
  arg : ∀ u v e1 e2, Adj s.forest u v (.comb e1 e2) →
    (e1.a1 ≠ e2.a1 → T e1.a1 e2.a1 < T u v) ∧ (e1.a2 ≠ e2.a2 → T e1.a2 e2.a2 < T u v)
  argrep : ∀ u v e1 e2, Adj s.forest u v (.comb e1 e2) →
    repOf s e1.a1 = repOf s e2.a1 ∧ repOf s e1.a2 = repOf s e2.a2

/-- the two classes that are being merged -/
def Cross (s : State) (ra rb : Cst) (x y : Cst) : Prop :=
  (repOf s x = ra ∧ repOf s y = rb) ∨ (repOf s x = rb ∧ repOf s y = ra)

theorem tinv_union {s s' : State} {T : Cst → Cst → Nat} {now : Nat} {a b ra rb : Cst} {lab : Label}
    (F : ForestInv s) (TI : TInv s T now)
    (hf : s'.forest = addEdge s.forest a b lab)
    (hrep : ∀ c, repOf s' c = if repOf s c = ra then rb else repOf s c)
    (hra : repOf s a = ra) (hrb : repOf s b = rb) (hne : ra ≠ rb)
    (hlab : ∀ e1 e2, lab = .comb e1 e2 → repOf s e1.a1 = repOf s e2.a1 ∧ repOf s e1.a2 = repOf s e2.a2) :
    ∃ T', TInv s' T' (now + 1) := by
  classical
  refine ⟨fun x y => if Cross s ra rb x y then now + 1 else T x y, ?_⟩
  have mono : ∀ x y, repOf s x = repOf s y → repOf s' x = repOf s' y := by
    intro x y h; rw [hrep, hrep, h]
  have ncross : ∀ x y, repOf s x = repOf s y → ¬ Cross s ra rb x y := by
    intro x y h hc
    rcases hc with ⟨h1, h2⟩ | ⟨h1, h2⟩
    · exact hne (h1.symm.trans (h.trans h2))
    · exact hne (h2.symm.trans (h.symm.trans h1))
  have cross_ab : Cross s ra rb a b := .inl ⟨hra, hrb⟩
  have cross_symm : ∀ x y, Cross s ra rb x y → Cross s ra rb y x := by
    intro x y h
    rcases h with ⟨h1, h2⟩ | ⟨h1, h2⟩
    · exact .inr ⟨h2, h1⟩
    · exact .inl ⟨h2, h1⟩
  have adjb : ∀ u v l, Adj s'.forest u v l →
      Adj s.forest u v l ∨ (l = lab ∧ ((u = a ∧ v = b) ∨ (u = b ∧ v = a))) := by
    intro u v l h; rw [hf] at h; exact adj_addEdge _ _ _ _ _ _ _ h
  have adj_rep : ∀ u v l, Adj s.forest u v l → repOf s u = repOf s v := by
    intro u v l h
    rcases h with h | h
    · exact (F.par _ _ _ h).2
    · exact (F.par _ _ _ h).2.symm
  have le' : ∀ x y, (if Cross s ra rb x y then now + 1 else T x y) ≤ now + 1 := by
    intro x y; split
    · exact Nat.le_refl _
    · exact Nat.le_succ_of_le (TI.le x y)
  refine ⟨?_, le', ?_, ?_, ?_, ?_⟩
  · intro x y
    by_cases h : Cross s ra rb x y
    · simp [h, cross_symm x y h]
    · have : ¬ Cross s ra rb y x := fun h' => h (cross_symm y x h')
      simp only [h, this, if_false]; exact TI.sym x y
  · intro u v l h
    rcases adjb u v l h with h' | ⟨_, h'⟩
    · simp only [ncross u v (adj_rep u v l h'), if_false]; exact TI.pos u v l h'
    · have huv : Cross s ra rb u v := by
        rcases h' with ⟨hu, hv⟩ | ⟨hu, hv⟩
        · rw [hu, hv]; exact cross_ab
        · rw [hu, hv]; exact cross_symm _ _ cross_ab
      simp only [huv, if_true]; exact Nat.succ_le_succ (Nat.zero_le _)
  · -- walks
    intro x w y hw hnd e he
    -- a walk either avoids the new edge or joins the two classes
    have key : ∀ (w : List Edge) (x : Cst), IsWalk s'.forest x w y → (x :: w.map (·.2.1)).Nodup →
        (IsWalk s.forest x w y) ∨ (Cross s ra rb x y ∧ a ∈ x :: w.map (·.2.1) ∧ b ∈ x :: w.map (·.2.1)) := by
      intro w
      induction w with
      | nil => intro x h _; exact .inl h
      | cons e' w ih =>
        intro x h hnd
        obtain ⟨h1, h2, h3⟩ := h
        have hnd' : (e'.2.1 :: w.map (·.2.1)).Nodup := (List.nodup_cons.1 hnd).2
        simp only [List.map_cons] at hnd ⊢
        rcases ih e'.2.1 h3 hnd' with hold | ⟨hcr, ha, hb⟩
        · rcases adjb _ _ _ h2 with h2' | ⟨_, h2'⟩
          · exact .inl ⟨h1, h2', hold⟩
          · right
            have hvy := walk_rep F hold
            rw [h1] at h2'
            rcases h2' with ⟨hu, hv⟩ | ⟨hu, hv⟩
            · refine ⟨.inl ⟨by rw [hu]; exact hra, by rw [← hvy, hv]; exact hrb⟩, ?_, ?_⟩
              · simp [hu]
              · simp [hv]
            · refine ⟨.inr ⟨by rw [hu]; exact hrb, by rw [← hvy, hv]; exact hra⟩, ?_, ?_⟩
              · simp [hv]
              · simp [hu]
        · rcases adjb _ _ _ h2 with h2' | ⟨_, h2'⟩
          · right
            have hxv := adj_rep _ _ _ h2'
            rw [h1] at hxv
            refine ⟨?_, List.mem_cons_of_mem _ ha, List.mem_cons_of_mem _ hb⟩
            rcases hcr with ⟨c1, c2⟩ | ⟨c1, c2⟩
            · exact .inl ⟨by rw [hxv]; exact c1, c2⟩
            · exact .inr ⟨by rw [hxv]; exact c1, c2⟩
          · exfalso
            rw [h1] at h2'
            have hx : x ∈ e'.2.1 :: w.map (·.2.1) := by
              rcases h2' with ⟨hu, _⟩ | ⟨hu, _⟩
              · rw [hu]; exact ha
              · rw [hu]; exact hb
            exact (List.nodup_cons.1 hnd).1 hx
    rcases key w x hw hnd with hold | ⟨hcr, _, _⟩
    · have hxy := walk_rep F hold
      have hadj := walk_adj hold e he
      simp only [ncross _ _ hxy, ncross _ _ (adj_rep _ _ _ hadj), if_false]
      exact TI.walk x w y hold hnd e he
    · simp only [hcr, if_true]; exact le' _ _
  · -- arg
    intro u v e1 e2 h
    rcases adjb u v _ h with h' | ⟨hl, h'⟩
    · have r := TI.argrep u v e1 e2 h'
      simp only [ncross u v (adj_rep u v _ h'), ncross _ _ r.1, ncross _ _ r.2, if_false]
      exact TI.arg u v e1 e2 h'
    · have r := hlab e1 e2 hl.symm
      have huv : Cross s ra rb u v := by
        rcases h' with ⟨hu, hv⟩ | ⟨hu, hv⟩
        · rw [hu, hv]; exact cross_ab
        · rw [hu, hv]; exact cross_symm _ _ cross_ab
      simp only [huv, ncross _ _ r.1, ncross _ _ r.2, if_true, if_false]
      exact ⟨fun _ => Nat.lt_succ_of_le (TI.le _ _), fun _ => Nat.lt_succ_of_le (TI.le _ _)⟩
  · -- argrep
    intro u v e1 e2 h
    rcases adjb u v _ h with h' | ⟨hl, _⟩
    · have r := TI.argrep u v e1 e2 h'
      exact ⟨mono _ _ r.1, mono _ _ r.2⟩
    · have r := hlab e1 e2 hl.symm
      exact ⟨mono _ _ r.1, mono _ _ r.2⟩

end Holpy.C17
