import Holpy.C17.Proofs
/-
C17 — helper lemmas, part 3: completeness of `test` and termination of `_propagate`.

`Complete E s`: the structural invariants of the Nieuwenhuis–Oliveras structure (representatives
idempotent, class lists exact, every merged application equation has a lookup entry for its
current key and a stand-in in the use lists of both argument classes), stated modulo the
equalities still waiting in `pending` (`PEq`).  With `pending` empty they make
`rep x = rep y` a congruence containing the merged equations, hence `Cl E ⊆ test`.
-/
namespace Holpy.C17

def Dom (s : State) (c : Cst) : Prop := ∃ r, aget s.rep c = some r

def keyOf (s : State) (e : CEq) : Cst × Cst := (repOf s e.a1, repOf s e.a2)

/-- Equal now, or going to be equal once `pending` has been processed. -/
inductive PEq (s : State) : Cst → Cst → Prop where
  | rep {x y} : repOf s x = repOf s y → PEq s x y
  | pend {l} : l ∈ s.pending → PEq s l.ends.1 l.ends.2
  | symm {x y} : PEq s x y → PEq s y x
  | trans {x y z} : PEq s x y → PEq s y z → PEq s x z

theorem PEq.refl (s : State) (x : Cst) : PEq s x x := .rep rfl

theorem PEq.transfer {s s' : State}
    (hr : ∀ x y, repOf s x = repOf s y → repOf s' x = repOf s' y)
    (hp : ∀ l ∈ s.pending, l ∈ s'.pending ∨ repOf s' l.ends.1 = repOf s' l.ends.2)
    {x y : Cst} (h : PEq s x y) : PEq s' x y := by
  induction h with
  | rep h => exact .rep (hr _ _ h)
  | pend h =>
    rcases hp _ h with h' | h'
    · exact .pend h'
    · exact .rep h'
  | symm _ ih => exact .symm ih
  | trans _ _ ih1 ih2 => exact .trans ih1 ih2

theorem PEq.rep_of_nil {s : State} (hn : s.pending = []) {x y : Cst} (h : PEq s x y) : repOf s x = repOf s y := by
  induction h with
  | rep h => exact h
  | pend h => simp [hn] at h
  | symm _ ih => exact ih.symm
  | trans _ _ ih1 ih2 => exact ih1.trans ih2

structure Complete (E : Eqn → Prop) (s : State) : Prop where
  domc : ∀ a b, E (.c a b) → Dom s a ∧ Dom s b
  domf : ∀ e : CEq, E e.eqn → Dom s e.a1 ∧ Dom s e.a2 ∧ Dom s e.a
  idem : ∀ c r, aget s.rep c = some r → aget s.rep r = some r
  cls : ∀ c r, c ∈ clsOf s r ↔ aget s.rep c = some r
  look : ∀ e : CEq, E e.eqn → ∃ e', aget s.lookup (keyOf s e) = some e' ∧ PEq s e.a e'.a
  lkey : ∀ k e', aget s.lookup k = some e' → repOf s e'.a1 = repOf s k.1 ∧ repOf s e'.a2 = repOf s k.2
  use : ∀ e : CEq, E e.eqn → ∀ r, (r = repOf s e.a1 ∨ r = repOf s e.a2) →
    ∃ u ∈ useOf s r, keyOf s u = keyOf s e ∧ PEq s u.a e.a
  cst : ∀ a b, E (.c a b) → PEq s a b

theorem repOf_of_get {s : State} {c r : Cst} (h : aget s.rep c = some r) : repOf s c = r := by
  simp [repOf, h]

theorem Complete.rp_idem {E : Eqn → Prop} {s : State} (C : Complete E s) (c : Cst) :
    repOf s (repOf s c) = repOf s c := by
  cases h : aget s.rep c with
  | none => simp [repOf, h]
  | some r => rw [repOf_of_get h]; exact repOf_of_get (C.idem c r h)

theorem Complete.dom_rep {E : Eqn → Prop} {s : State} (C : Complete E s) {c : Cst} (h : Dom s c) :
    aget s.rep c = some (repOf s c) ∧ aget s.rep (repOf s c) = some (repOf s c) := by
  obtain ⟨r, hr⟩ := h
  rw [repOf_of_get hr]
  exact ⟨hr, C.idem c r hr⟩

/-- Constants of a justified label have been entered. -/
theorem Complete.dom_label {E : Eqn → Prop} {s : State} (C : Complete E s) {l : Label} (ok : LabelOK E l) :
    Dom s l.ends.1 ∧ Dom s l.ends.2 := by
  cases l with
  | const a b => exact C.domc a b ok
  | comb e1 e2 => exact ⟨(C.domf e1 ok.1).2.2, (C.domf e2 ok.2.1).2.2⟩

/-- Completeness only looks at `rep`, `cls`, `use`, `lookup` and the pending equalities. -/
theorem Complete.congr {E : Eqn → Prop} {s s' : State} (C : Complete E s)
    (h1 : s'.rep = s.rep) (h2 : s'.cls = s.cls) (h3 : s'.use = s.use) (h4 : s'.lookup = s.lookup)
    (hP : ∀ x y, PEq s x y → PEq s' x y) : Complete E s' := by
  have hr : ∀ c, repOf s' c = repOf s c := fun c => by simp [repOf, h1]
  have hc : ∀ c, clsOf s' c = clsOf s c := fun c => by simp [clsOf, h2]
  have hu : ∀ c, useOf s' c = useOf s c := fun c => by simp [useOf, h3]
  have hk : ∀ e, keyOf s' e = keyOf s e := fun e => by simp [keyOf, hr]
  refine ⟨?_, ?_, ?_, ?_, ?_, ?_, ?_, ?_⟩
  · intro a b h; simpa [Dom, h1] using C.domc a b h
  · intro e h; simpa [Dom, h1] using C.domf e h
  · intro c r h; rw [h1] at h ⊢; exact C.idem c r h
  · intro c r; rw [hc, h1]; exact C.cls c r
  · intro e h
    obtain ⟨e', h1', h2'⟩ := C.look e h
    exact ⟨e', by rw [hk, h4]; exact h1', hP _ _ h2'⟩
  · intro k e' h; rw [h4] at h; simp only [hr]; exact C.lkey k e' h
  · intro e h r hr'
    simp only [hr] at hr'
    obtain ⟨u, hu1, hu2, hu3⟩ := C.use e h r hr'
    exact ⟨u, by rw [hu]; exact hu1, by rw [hk, hk]; exact hu2, hP _ _ hu3⟩
  · intro a b h; exact hP _ _ (C.cst a b h)

-- ---------------------------------------------------------------- use lists

theorem useOf_pushUse (use : List (Cst × List CEq)) (r r' : Cst) (e : CEq) :
    (aget (pushUse use r e) r').getD [] = if r = r' then (aget use r).getD [] ++ [e] else (aget use r').getD [] := by
  unfold pushUse
  rw [aget_aset]
  split <;> simp_all

theorem mem_pushUse {use : List (Cst × List CEq)} {r r' : Cst} {e u : CEq}
    (h : u ∈ (aget use r').getD []) : u ∈ (aget (pushUse use r e) r').getD [] := by
  rw [useOf_pushUse]
  split
  · subst_vars; exact List.mem_append_left _ h
  · exact h

theorem mem_pushUse_self (use : List (Cst × List CEq)) (r : Cst) (e : CEq) :
    e ∈ (aget (pushUse use r e) r).getD [] := by
  rw [useOf_pushUse]; simp

-- ---------------------------------------------------------------- the use-list loop only extends

structure Ext (t t' : State) : Prop where
  rep : t'.rep = t.rep
  cls : t'.cls = t.cls
  forest : t'.forest = t.forest
  lookup : ∀ k v, aget t.lookup k = some v → aget t'.lookup k = some v
  pending : ∀ l ∈ t.pending, l ∈ t'.pending
  use : ∀ r u, u ∈ useOf t r → u ∈ useOf t' r

theorem Ext.refl (t : State) : Ext t t :=
  ⟨rfl, rfl, rfl, fun _ _ h => h, fun _ h => h, fun _ _ h => h⟩

theorem Ext.trans {a b c : State} (h1 : Ext a b) (h2 : Ext b c) : Ext a c :=
  ⟨h2.rep.trans h1.rep, h2.cls.trans h1.cls, h2.forest.trans h1.forest,
   fun k v h => h2.lookup k v (h1.lookup k v h), fun l h => h2.pending l (h1.pending l h),
   fun r u h => h2.use r u (h1.use r u h)⟩

theorem Ext.repOf {t t' : State} (h : Ext t t') (c : Cst) : repOf t' c = repOf t c := by
  simp [Holpy.C17.repOf, h.rep]

theorem Ext.keyOf {t t' : State} (h : Ext t t') (e : CEq) : keyOf t' e = keyOf t e := by
  simp [Holpy.C17.keyOf, h.repOf]

theorem useStep_ext (rb : Cst) (t : State) (u : CEq) : Ext t (useStep rb t u) := by
  unfold useStep
  dsimp only
  split
  · exact ⟨rfl, rfl, rfl, fun _ _ h => h, fun l h => List.mem_append_left _ h, fun _ _ h => h⟩
  · next hn =>
    refine ⟨rfl, rfl, rfl, ?_, fun _ h => h, ?_⟩
    · intro k v h
      rw [aget_aset]
      split
      · next hk => subst hk; rw [hn] at h; cases h
      · exact h
    · intro r x h
      exact mem_pushUse h

theorem foldl_useStep_ext (rb : Cst) (l : List CEq) (t : State) : Ext t (l.foldl (useStep rb) t) := by
  induction l generalizing t with
  | nil => exact Ext.refl t
  | cons x xs ih => exact (useStep_ext rb t x).trans (ih _)

/-- Use lists other than `rb`'s are untouched by the loop. -/
theorem useStep_use_other (rb : Cst) (t : State) (u : CEq) (r : Cst) (h : r ≠ rb) :
    aget (useStep rb t u).use r = aget t.use r := by
  unfold useStep
  dsimp only
  split
  · rfl
  · unfold pushUse; rw [aget_aset]; simp [Ne.symm h]

theorem foldl_useStep_use_other (rb : Cst) (l : List CEq) (t : State) (r : Cst) (h : r ≠ rb) :
    aget (l.foldl (useStep rb) t).use r = aget t.use r := by
  induction l generalizing t with
  | nil => rfl
  | cons x xs ih => simp only [List.foldl]; rw [ih, useStep_use_other rb t x r h]

/-- Lookup values agree with their keys (`Complete.lkey` as a predicate). -/
def LInv (s : State) : Prop :=
  ∀ k e', aget s.lookup k = some e' → repOf s e'.a1 = repOf s k.1 ∧ repOf s e'.a2 = repOf s k.2

theorem useStep_linv (rb : Cst) {t : State} (idem : ∀ c, repOf t (repOf t c) = repOf t c) (L : LInv t) (u : CEq) :
    LInv (useStep rb t u) := by
  have E := useStep_ext rb t u
  intro k e' h
  simp only [E.repOf]
  unfold useStep at h
  dsimp only at h
  split at h
  · exact L k e' h
  · simp only [aget_aset] at h
    split at h
    · next hk => cases h; subst hk; exact ⟨(idem _).symm, (idem _).symm⟩
    · exact L k e' h

theorem foldl_useStep_linv (rb : Cst) (l : List CEq) {t : State} (idem : ∀ c, repOf t (repOf t c) = repOf t c)
    (L : LInv t) : LInv (l.foldl (useStep rb) t) := by
  induction l generalizing t with
  | nil => exact L
  | cons x xs ih =>
    simp only [List.foldl]
    apply ih
    · intro c; simp only [(useStep_ext rb t x).repOf]; exact idem c
    · exact useStep_linv rb idem L x

/-- Lookup entries created by the loop are registered in the use list of `rb`. -/
def NewIn (base : List ((Cst × Cst) × CEq)) (rb : Cst) (t : State) : Prop :=
  ∀ k v, aget t.lookup k = some v → aget base k = some v ∨ v ∈ useOf t rb

theorem useStep_newIn (base) (rb : Cst) {t : State} (N : NewIn base rb t) (u : CEq) : NewIn base rb (useStep rb t u) := by
  intro k v h
  cases hl : aget t.lookup (repOf t u.a1, repOf t u.a2) with
  | some e2 =>
    simp only [useStep, hl] at h
    have := N k v h
    simpa only [useStep, hl, useOf] using this
  | none =>
    simp only [useStep, hl, aget_aset] at h
    simp only [useStep, hl, useOf]
    split at h
    · cases h; right; exact mem_pushUse_self _ _ _
    · rcases N k v h with h' | h'
      · exact .inl h'
      · right; unfold useOf at h'; exact mem_pushUse h'

theorem foldl_useStep_newIn (base) (rb : Cst) (l : List CEq) {t : State} (N : NewIn base rb t) :
    NewIn base rb (l.foldl (useStep rb) t) := by
  induction l generalizing t with
  | nil => exact N
  | cons x xs ih => exact ih (useStep_newIn base rb N x)

/-- Every processed equation ends up with a lookup entry for its key, and is either that entry
or linked to it by a new pending equality. -/
theorem foldl_useStep_registered (rb : Cst) (l : List CEq) (t : State) :
    ∀ u ∈ l, ∃ e'', aget (l.foldl (useStep rb) t).lookup (keyOf t u) = some e'' ∧
      (e'' = u ∨ Label.comb u e'' ∈ (l.foldl (useStep rb) t).pending) := by
  induction l generalizing t with
  | nil => intro u h; simp at h
  | cons x xs ih =>
    intro u hu
    simp only [List.foldl]
    have E1 := useStep_ext rb t x
    have E2 := foldl_useStep_ext rb xs (useStep rb t x)
    simp only [List.mem_cons] at hu
    rcases hu with hu | hu
    · subst hu
      -- the head: look at what useStep did
      have : ∃ e'', aget (useStep rb t u).lookup (keyOf t u) = some e'' ∧
          (e'' = u ∨ Label.comb u e'' ∈ (useStep rb t u).pending) := by
        unfold useStep
        dsimp only
        split
        · next e2 he => exact ⟨e2, he, .inr (by simp)⟩
        · exact ⟨u, by simp [keyOf, aget_aset], .inl rfl⟩
      obtain ⟨e'', h1, h2⟩ := this
      refine ⟨e'', E2.lookup _ _ h1, ?_⟩
      rcases h2 with h2 | h2
      · exact .inl h2
      · exact .inr (E2.pending _ h2)
    · have := ih (useStep rb t x) u hu
      rw [E1.keyOf] at this
      exact this

end Holpy.C17
