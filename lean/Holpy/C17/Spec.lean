import Holpy.C17.Model
/-
C17 — specification vocabulary for the theorems in `Props.lean` (definitions only, no proofs).

* `Eqn` / `Cl E`: the congruence closure of a set `E` of flat equations (`a = b` and
  `f(a1,a2) = a`): least relation on constants containing the constant equations, reflexive,
  symmetric, transitive, and closed under congruence for the binary application symbol, where the
  equations `f(a1,a2) = a` say which constant names which application.
* `eqsOf ops`: the equations merged by an operation sequence.
* `entered ops c`: `c` has been entered (`add_var`, or mentioned in a merge).
* `resEqs res`: the input equations listed in an explanation (the `EQ_CONST` labels and the two
  application equations of every `EQ_COMB` label).
-/
namespace Holpy.C17

inductive Eqn where
  | c (a b : Cst)
  | f (a1 a2 a : Cst)
  deriving DecidableEq, Repr

def CEq.eqn (e : CEq) : Eqn := .f e.a1 e.a2 e.a

inductive Cl (E : Eqn → Prop) : Cst → Cst → Prop where
  | base {a b} : E (.c a b) → Cl E a b
  | refl (a) : Cl E a a
  | symm {a b} : Cl E a b → Cl E b a
  | trans {a b c} : Cl E a b → Cl E b c → Cl E a c
  | cong {a1 a2 a b1 b2 b} : E (.f a1 a2 a) → E (.f b1 b2 b) → Cl E a1 b1 → Cl E a2 b2 → Cl E a b

/-- The equations merged by `ops`. -/
def eqsOf (ops : List Op) : Eqn → Prop
  | .c a b => Op.mergeC a b ∈ ops
  | .f a1 a2 a => Op.mergeF a1 a2 a ∈ ops

def Op.consts : Op → List Cst
  | .add c => [c]
  | .mergeC a b => [a, b]
  | .mergeF a1 a2 a => [a1, a2, a]

/-- `c` was entered into the structure by `ops`. -/
def entered (ops : List Op) (c : Cst) : Prop := ∃ op ∈ ops, c ∈ op.consts

/-- The input equations an explanation lists. -/
def resEqs (res : Res) : Eqn → Prop := fun q =>
  ∃ ent ∈ res, ∃ l ∈ ent.2,
    match l with
    | .const a b => q = .c a b
    | .comb e1 e2 => q = e1.eqn ∨ q = e2.eqn

/-- A label is justified by `E`: a merged constant equation, or two merged application equations
whose arguments are pairwise `E`-congruent. -/
def LabelOK (E : Eqn → Prop) : Label → Prop
  | .const a b => E (.c a b)
  | .comb e1 e2 => E e1.eqn ∧ E e2.eqn ∧ Cl E e1.a1 e2.a1 ∧ Cl E e1.a2 e2.a2

end Holpy.C17
