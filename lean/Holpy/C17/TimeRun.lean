import Holpy.C17.TimeInv
/-
C17 — helper lemmas, part 18: the time-stamp invariant in every reachable state, with the bound
`number of unions + number of classes <= number of constants`.
-/
namespace Holpy.C17

-- ---------------------------------------------------------------- lengths of dictionaries
section Len
variable {α : Type} {β : Type} [DecidableEq α]

theorem length_aset_ge (l : List (α × β)) (k : α) (v : β) : l.length ≤ (aset l k v).length := by
  induction l with
  | nil => simp [aset]
  | cons p r ih =>
    obtain ⟨k', w⟩ := p
    by_cases h : k' = k <;> simp [aset, h] <;> omega

theorem length_aset_le (l : List (α × β)) (k : α) (v : β) : (aset l k v).length ≤ l.length + 1 := by
  induction l with
  | nil => simp [aset]
  | cons p r ih =>
    obtain ⟨k', w⟩ := p
    by_cases h : k' = k <;> simp [aset, h] <;> omega

theorem length_aset_eq (l : List (α × β)) (k : α) (v : β) (h : (aget l k).isSome) : (aset l k v).length = l.length := by
  induction l with
  | nil => simp [aget] at h
  | cons p r ih =>
    obtain ⟨k', w⟩ := p
    by_cases hk : k' = k
    · simp [aset, hk]
    · simp only [aget, hk, if_false] at h
      simp [aset, hk, ih h]

theorem length_aset_new (l : List (α × β)) (k : α) (v : β) (h : aget l k = none) : (aset l k v).length = l.length + 1 := by
  induction l with
  | nil => simp [aset]
  | cons p r ih =>
    obtain ⟨k', w⟩ := p
    by_cases hk : k' = k
    · simp [aget, hk] at h
    · simp only [aget, hk, if_false] at h
      simp [aset, hk, ih h]

theorem length_adel_lt (l : List (α × β)) (k : α) (h : (aget l k).isSome) : (adel l k).length < l.length := by
  induction l with
  | nil => simp [aget] at h
  | cons p r ih =>
    obtain ⟨k', w⟩ := p
    unfold adel at ih ⊢
    by_cases hk : k' = k
    · have := List.length_filter_le (fun p : α × β => !decide (p.1 = k)) r
      simp only [List.filter, hk, decide_true, Bool.not_true, List.length_cons]
      omega
    · simp only [aget, hk, if_false] at h
      have := ih h
      simp only [List.filter, hk, decide_false, Bool.not_false, List.length_cons]
      omega

end Len

theorem foldl_aset_length (ca : List Cst) (rb : Cst) (rep : List (Cst × Cst))
    (h : ∀ c ∈ ca, (aget rep c).isSome) : (ca.foldl (fun rep c => aset rep c rb) rep).length = rep.length := by
  induction ca generalizing rep with
  | nil => rfl
  | cons x xs ih =>
    simp only [List.foldl]
    rw [ih, length_aset_eq _ _ _ (h x (by simp))]
    intro c hc
    rw [aget_aset]
    split
    · rfl
    · exact h c (List.mem_cons_of_mem _ hc)

theorem reverseEdges_length (path : Path) (f : Forest) : f.length ≤ (reverseEdges f path).length := by
  induction path generalizing f with
  | nil => simp [reverseEdges]
  | cons e r ih =>
    obtain ⟨x, o⟩ := e
    cases r with
    | nil => simp [reverseEdges]
    | cons e' r' =>
      obtain ⟨ps, ol⟩ := e'
      cases ol with
      | none => simp [reverseEdges]
      | some l =>
        simp only [reverseEdges]
        exact Nat.le_trans (length_aset_ge f ps _) (ih _)

theorem addEdge_length (f : Forest) (a b : Cst) (lab : Label) : f.length ≤ (addEdge f a b lab).length := by
  unfold addEdge
  exact Nat.le_trans (length_aset_ge f a _) (reverseEdges_length _ _)

-- ---------------------------------------------------------------- pending application labels have their arguments merged

def PendArgs (s : State) : Prop :=
  ∀ e1 e2, Label.comb e1 e2 ∈ s.pending → repOf s e1.a1 = repOf s e2.a1 ∧ repOf s e1.a2 = repOf s e2.a2

theorem useStep_pendargs (rb : Cst) {t : State} (idem : ∀ c, repOf t (repOf t c) = repOf t c) (L : LInv t)
    (P : PendArgs t) (u : CEq) : PendArgs (useStep rb t u) := by
  have E := useStep_ext rb t u
  intro e1 e2 h
  simp only [E.repOf]
  unfold useStep at h
  dsimp only at h
  split at h
  · next eq2 hl =>
    simp only [List.mem_append, List.mem_singleton, Label.comb.injEq] at h
    rcases h with h | ⟨rfl, rfl⟩
    · exact P e1 e2 h
    · have := L _ _ hl
      simp only [idem] at this
      exact ⟨this.1.symm, this.2.symm⟩
  · exact P e1 e2 h

theorem foldl_useStep_pendargs (rb : Cst) (l : List CEq) {t : State} (idem : ∀ c, repOf t (repOf t c) = repOf t c)
    (L : LInv t) (P : PendArgs t) : PendArgs (l.foldl (useStep rb) t) := by
  induction l generalizing t with
  | nil => exact P
  | cons x xs ih =>
    simp only [List.foldl]
    apply ih
    · intro c; simp only [(useStep_ext rb t x).repOf]; exact idem c
    · exact useStep_linv rb idem L x
    · exact useStep_pendargs rb idem L P x

/-- The whole bundle: pending labels, time stamps, and the counting bound. -/
structure TimeOK (s : State) : Prop where
  pend : PendArgs s
  time : ∃ T now, TInv s T now ∧ now + s.cls.length ≤ s.rep.length ∧ s.rep.length ≤ s.forest.length

theorem unionStep_time {E : Eqn → Prop} {s : State} {a b ra rb : Cst} {lab : Label}
    (C : Complete E (unpop s lab)) (F : ForestInv s) (K : TimeOK (unpop s lab))
    (hra : ra = repOf s a) (hrb : rb = repOf s b) (da : Dom s a) (db : Dom s b) (hne : ra ≠ rb) :
    TimeOK (unionStep s a b ra rb lab) := by
  have idem : ∀ c r, aget s.rep c = some r → aget s.rep r = some r := C.idem
  have cls : ∀ c r, c ∈ clsOf s r ↔ aget s.rep c = some r := C.cls
  have lkey : ∀ k e', aget s.lookup k = some e' → repOf s e'.a1 = repOf s k.1 ∧ repOf s e'.a2 = repOf s k.2 := C.lkey
  have ha : aget s.rep ra = some ra := by
    obtain ⟨r, hr⟩ := da; rw [hra, repOf_of_get hr]; exact idem a r hr
  have hb : aget s.rep rb = some rb := by
    obtain ⟨r, hr⟩ := db; rw [hrb, repOf_of_get hr]; exact idem b r hr
  have M : Moved s ra rb (moveClass s a b ra rb lab) := moved idem cls ha hb hne
  have X := foldl_useStep_ext rb (useOf s ra) (moveClass s a b ra rb lab)
  have rpi3 : ∀ c, repOf (moveClass s a b ra rb lab) (repOf (moveClass s a b ra rb lab) c) = repOf (moveClass s a b ra rb lab) c :=
    rp_idem_of M.idem
  have L3 : LInv (moveClass s a b ra rb lab) := by
    intro k e' h
    exact ⟨M.mono (lkey k e' h).1, M.mono (lkey k e' h).2⟩
  have P3 : PendArgs (moveClass s a b ra rb lab) := by
    intro e1 e2 h
    have := K.pend e1 e2 (List.mem_cons_of_mem _ h)
    exact ⟨M.mono this.1, M.mono this.2⟩
  have PT := foldl_useStep_pendargs rb (useOf s ra) rpi3 L3 P3
  obtain ⟨T, now, TI, hb1, hb2⟩ := K.time
  have TI0 : TInv s T now := ⟨TI.sym, TI.le, TI.pos, TI.walk, TI.arg, TI.argrep⟩
  have hforest : (unionStep s a b ra rb lab).forest = addEdge s.forest a b lab := by
    rw [unionStep_eq]; exact X.forest
  have hrepOf : ∀ c, repOf (unionStep s a b ra rb lab) c = if repOf s c = ra then rb else repOf s c := by
    intro c
    have : repOf (unionStep s a b ra rb lab) c = repOf (moveClass s a b ra rb lab) c := by
      rw [unionStep_eq]; exact X.repOf c
    rw [this]; exact M.rep c
  obtain ⟨T', TI'⟩ := tinv_union F TI0 hforest hrepOf hra.symm hrb.symm hne
    (fun e1 e2 hl => K.pend e1 e2 (by rw [hl]; simp [unpop]))
  refine ⟨?_, T', now + 1, TI', ?_, ?_⟩
  · intro e1 e2 h
    have hp : (unionStep s a b ra rb lab).pending = ((useOf s ra).foldl (useStep rb) (moveClass s a b ra rb lab)).pending := by
      rw [unionStep_eq]
    rw [hp] at h
    have := PT e1 e2 h
    have e : ∀ c, repOf (unionStep s a b ra rb lab) c =
        repOf ((useOf s ra).foldl (useStep rb) (moveClass s a b ra rb lab)) c := by
      intro c; rw [unionStep_eq]; rfl
    simp only [e]
    exact this
  · -- one class fewer, as many constants
    have hcls : (unionStep s a b ra rb lab).cls = adel (aset s.cls rb (clsOf s rb ++ clsOf s ra)) ra := by
      rw [unionStep_eq]; exact X.cls
    have hrp : (unionStep s a b ra rb lab).rep = (clsOf s ra).foldl (fun rep c => aset rep c rb) s.rep := by
      rw [unionStep_eq]; exact X.rep
    have kb : (aget s.cls rb).isSome := by
      have : rb ∈ clsOf s rb := (cls rb rb).2 hb
      unfold clsOf at this
      cases h : aget s.cls rb with
      | none => simp [h] at this
      | some l => rfl
    have ka : (aget (aset s.cls rb (clsOf s rb ++ clsOf s ra)) ra).isSome := by
      rw [aget_aset, if_neg (fun e => hne e.symm)]
      have : ra ∈ clsOf s ra := (cls ra ra).2 ha
      unfold clsOf at this
      cases h : aget s.cls ra with
      | none => simp [h] at this
      | some l => rfl
    have h1 := length_adel_lt _ ra ka
    rw [length_aset_eq _ _ _ kb] at h1
    have h2 : ((clsOf s ra).foldl (fun rep c => aset rep c rb) s.rep).length = s.rep.length :=
      foldl_aset_length _ _ _ (fun c hc => by rw [(cls c ra).1 hc]; rfl)
    rw [hcls, hrp, h2]
    have : (unpop s lab).cls.length = s.cls.length := rfl
    have : (unpop s lab).rep.length = s.rep.length := rfl
    omega
  · have hrp : (unionStep s a b ra rb lab).rep = (clsOf s ra).foldl (fun rep c => aset rep c rb) s.rep := by
      rw [unionStep_eq]; exact X.rep
    have h2 : ((clsOf s ra).foldl (fun rep c => aset rep c rb) s.rep).length = s.rep.length :=
      foldl_aset_length _ _ _ (fun c hc => by rw [(cls c ra).1 hc]; rfl)
    rw [hrp, h2, hforest]
    have := addEdge_length s.forest a b lab
    have : (unpop s lab).rep.length = s.rep.length := rfl
    have : (unpop s lab).forest.length = s.forest.length := rfl
    omega


theorem IsWalk.mono {f g : Forest} (h : ∀ u v l, Adj f u v l → Adj g u v l) {x y : Cst} {w : List Edge}
    (hw : IsWalk f x w y) : IsWalk g x w y := by
  induction w generalizing x with
  | nil => exact hw
  | cons e w ih => exact ⟨hw.1, h _ _ _ hw.2.1, ih hw.2.2⟩

/-- The bundle only looks at `forest`, `rep`, `cls` and the application labels in `pending`. -/
theorem TimeOK.congr {s s' : State} (K : TimeOK s) (h1 : s'.forest = s.forest) (h2 : s'.rep = s.rep)
    (h3 : s'.cls = s.cls) (hp : ∀ e1 e2, Label.comb e1 e2 ∈ s'.pending → Label.comb e1 e2 ∈ s.pending) : TimeOK s' := by
  have hr : ∀ c, repOf s' c = repOf s c := fun c => by simp [repOf, h2]
  obtain ⟨T, now, TI, b1, b2⟩ := K.time
  refine ⟨?_, T, now, ⟨TI.sym, TI.le, ?_, ?_, ?_, ?_⟩, by rw [h3, h2]; exact b1, by rw [h2, h1]; exact b2⟩
  · intro e1 e2 h; simp only [hr]; exact K.pend e1 e2 (hp e1 e2 h)
  · rw [h1]; exact TI.pos
  · rw [h1]; exact TI.walk
  · rw [h1]; exact TI.arg
  · intro u v e1 e2 h; rw [h1] at h; simp only [hr]; exact TI.argrep u v e1 e2 h

theorem propStep_time {E : Eqn → Prop} {s : State} {lab : Label} (ok : LabelOK E lab)
    (C : Complete E (unpop s lab)) (F : ForestInv s) (K : TimeOK (unpop s lab)) : TimeOK (propStep s lab) := by
  have dl := C.dom_label ok
  unfold propStep
  dsimp only
  split
  · exact K.congr rfl rfl rfl (fun e1 e2 h => List.mem_cons_of_mem _ h)
  · next hne =>
    split
    · exact unionStep_time C F K rfl rfl dl.2 dl.1 (fun h => hne h.symm)
    · exact unionStep_time C F K rfl rfl dl.1 dl.2 hne

theorem propagate_time {E : Eqn → Prop} (n : Nat) {s : State} (S : Sound E s) (C : Complete E s) (F : ForestInv s)
    (K : TimeOK s) : TimeOK (propagate n s) := by
  induction n generalizing s with
  | zero => exact K
  | succ n ih =>
    unfold propagate
    split
    · exact K
    · next lab rest h =>
      have S0 : Sound E { s with pending := rest } :=
        ⟨S.rep, S.cls, S.use, S.lookup, fun l hl => S.pending l (by rw [h]; exact List.mem_cons_of_mem _ hl), S.forest⟩
      have ok : LabelOK E lab := S.pending lab (by rw [h]; simp)
      have C0 : Complete E (unpop { s with pending := rest } lab) := by rw [unpop_eq h]; exact C
      have K0 : TimeOK (unpop { s with pending := rest } lab) := by rw [unpop_eq h]; exact K
      have F0 : ForestInv { s with pending := rest } := F.congr rfl rfl rfl
      exact ih (propStep_sound S0 ok) (propStep_complete S0 ok C0) (propStep_forest ok C0 F0) (propStep_time ok C0 F0 K0)

theorem addVar_time {s : State} (F : ForestInv s) (K : TimeOK s) (c : Cst) : TimeOK (addVar s c) := by
  by_cases hd : (aget s.rep c).isSome
  · simp only [addVar, hd, if_true]; exact K
  · have hnone : aget s.rep c = none := by simpa using hd
    have hr : ∀ x, repOf (addVar s c) x = repOf s x := repOf_addVar s c
    have hfo : (addVar s c).forest = aset s.forest c none := by simp [addVar, hd]
    have hrp : (addVar s c).rep = aset s.rep c c := by simp [addVar, hd]
    have hcl : (addVar s c).cls = aset s.cls c [c] := by simp [addVar, hd]
    have hpe : (addVar s c).pending = s.pending := by simp [addVar, hd]
    have nokey : aget s.forest c = none := by
      cases h : aget s.forest c with
      | none => rfl
      | some e => obtain ⟨r, hr'⟩ := (F.keys c).2 ⟨e, h⟩; rw [hnone] at hr'; cases hr'
    have adj : ∀ u v l, Adj (addVar s c).forest u v l → Adj s.forest u v l := by
      intro u v l h
      rw [hfo] at h
      rcases h with h | h
      · left; rw [aget_aset] at h; split at h
        · cases h
        · exact h
      · right; rw [aget_aset] at h; split at h
        · cases h
        · exact h
    obtain ⟨T, now, TI, b1, b2⟩ := K.time
    refine ⟨?_, T, now, ⟨TI.sym, TI.le, ?_, ?_, ?_, ?_⟩, ?_, ?_⟩
    · intro e1 e2 h; rw [hpe] at h; simp only [hr]; exact K.pend e1 e2 h
    · intro u v l h; exact TI.pos u v l (adj u v l h)
    · intro x w y hw hnd e he; exact TI.walk x w y (hw.mono adj) hnd e he
    · intro u v e1 e2 h; exact TI.arg u v e1 e2 (adj u v _ h)
    · intro u v e1 e2 h; simp only [hr]; exact TI.argrep u v e1 e2 (adj u v _ h)
    · rw [hcl, hrp, length_aset_new _ _ _ hnone]
      have := length_aset_le s.cls c [c]
      omega
    · rw [hrp, hfo, length_aset_new _ _ _ hnone, length_aset_new _ _ _ nokey]
      omega

theorem TimeOK.init : TimeOK State.init := by
  refine ⟨fun e1 e2 h => by simp [State.init] at h, fun _ _ => 0, 0, ⟨fun _ _ => rfl, fun _ _ => Nat.le_refl _, ?_, ?_, ?_, ?_⟩, by simp [State.init], by simp [State.init]⟩
  · intro u v l h; rcases h with h | h <;> simp [State.init, aget] at h
  · intro x w y hw _ e he
    cases w with
    | nil => simp at he
    | cons e' w' => rcases hw.2.1 with h | h <;> simp [State.init, aget] at h
  · intro u v e1 e2 h; rcases h with h | h <;> simp [State.init, aget] at h
  · intro u v e1 e2 h; rcases h with h | h <;> simp [State.init, aget] at h

theorem TimeOK.push {s : State} (K : TimeOK s) (lab : Label)
    (h : ∀ e1 e2, lab = .comb e1 e2 → repOf s e1.a1 = repOf s e2.a1 ∧ repOf s e1.a2 = repOf s e2.a2) :
    TimeOK { s with pending := s.pending ++ [lab] } := by
  obtain ⟨T, now, TI, b1, b2⟩ := K.time
  refine ⟨?_, T, now, ⟨TI.sym, TI.le, TI.pos, TI.walk, TI.arg, TI.argrep⟩, b1, b2⟩
  intro e1 e2 hm
  simp only [List.mem_append, List.mem_singleton] at hm
  rcases hm with hm | hm
  · exact K.pend e1 e2 hm
  · exact h e1 e2 hm.symm

theorem run_time (ops : List Op) : TimeOK (run ops) := by
  induction ops using snoc_induction with
  | nil => exact TimeOK.init
  | snoc ops op ih =>
    rw [run_snoc]
    have S := run_sound ops
    have C := run_complete ops
    have F := run_forest ops
    generalize run ops = s at ih S C F
    cases op with
    | add c => exact addVar_time F ih c
    | mergeC a b =>
      simp only [applyOp, mergeConst, enqueue]
      have C1 := addVar_complete (addVar_complete C b) a
      have F1 := addVar_forest (addVar_complete C b) (addVar_forest C F b) a
      have K1 := addVar_time (addVar_forest C F b) (addVar_time F ih b) a
      have S1 : Sound (eqsOf (ops ++ [.mergeC a b])) (addVar (addVar s b) a) :=
        ((S.mono (eqsOf_mono ops _)).addVar b).addVar a
      have da : Dom (addVar (addVar s b) a) a := dom_addVar_self _ a
      have db : Dom (addVar (addVar s b) a) b := dom_addVar a (dom_addVar_self _ b)
      generalize addVar (addVar s b) a = s1 at C1 F1 K1 S1 da db
      exact propagate_time _ (S1.push (lab := .const a b) (by show eqsOf _ (Eqn.c a b); simp [eqsOf]))
        (pre_const_complete C1 da db (fun q h => by simpa using eqsOf_snoc ops (.mergeC a b) q h))
        (F1.congr rfl rfl rfl) (K1.push _ (fun e1 e2 h => by cases h))
    | mergeF a1 a2 a =>
      simp only [applyOp, mergeComb]
      have C1 := addVar_complete (addVar_complete (addVar_complete C a) a1) a2
      have F1 := addVar_forest (addVar_complete (addVar_complete C a) a1)
        (addVar_forest (addVar_complete C a) (addVar_forest C F a) a1) a2
      have K1 := addVar_time (addVar_forest (addVar_complete C a) (addVar_forest C F a) a1)
        (addVar_time (addVar_forest C F a) (addVar_time F ih a) a1) a2
      have S0 : Sound (eqsOf ops) (addVar (addVar (addVar s a) a1) a2) := ((S.addVar a).addVar a1).addVar a2
      have d2 : Dom (addVar (addVar (addVar s a) a1) a2) a2 := dom_addVar_self _ a2
      have d1 : Dom (addVar (addVar (addVar s a) a1) a2) a1 := dom_addVar a2 (dom_addVar_self _ a1)
      have d0 : Dom (addVar (addVar (addVar s a) a1) a2) a := dom_addVar a2 (dom_addVar a1 (dom_addVar_self _ a))
      generalize addVar (addVar (addVar s a) a1) a2 = s1 at C1 F1 K1 S0 d0 d1 d2
      have S1 : Sound (eqsOf (ops ++ [.mergeF a1 a2 a])) s1 := S0.mono (eqsOf_mono ops _)
      split
      · next eq2 hl =>
        simp only [enqueue]
        have ok : LabelOK (eqsOf (ops ++ [.mergeF a1 a2 a])) (.comb ⟨a1, a2, a⟩ eq2) := by
          have := S1.lookup _ _ hl
          exact ⟨by simp [eqsOf, CEq.eqn], this.1, (S1.repOf a1).trans this.2.1.symm, (S1.repOf a2).trans this.2.2.symm⟩
        refine propagate_time _ (S1.push ok)
          (pre_comb_complete S0 C1 d0 d1 d2 (fun q h => by simpa using eqsOf_snoc ops (.mergeF a1 a2 a) q h) hl)
          (F1.congr rfl rfl rfl) (K1.push _ ?_)
        intro e1 e2 h
        cases h
        have := C1.lkey _ _ hl
        simp only [C1.rp_idem] at this
        exact ⟨this.1.symm, this.2.symm⟩
      · exact K1.congr rfl rfl rfl (fun e1 e2 h => h)

end Holpy.C17
