import Holpy.C17.ForestRank
/-
C17 — helper lemmas, part 16: the labels of `cur_path` are the labels of a simple walk in the
(undirected) proof forest: up from `s` to the lowest common ancestor, then down to `t`.
-/
namespace Holpy.C17

abbrev Edge := Cst × Cst × Label

/-- `u` and `v` are joined by a forest entry labelled `l` (in one of the two directions). -/
def Adj (f : Forest) (u v : Cst) (l : Label) : Prop :=
  aget f u = some (some (v, l)) ∨ aget f v = some (some (u, l))

def IsWalk (f : Forest) : Cst → List Edge → Cst → Prop
  | x, [], y => x = y
  | x, e :: w, y => e.1 = x ∧ Adj f e.1 e.2.1 e.2.2 ∧ IsWalk f e.2.1 w y

theorem IsWalk.append {f : Forest} {x z y : Cst} {w1 w2 : List Edge} (h1 : IsWalk f x w1 z) (h2 : IsWalk f z w2 y) :
    IsWalk f x (w1 ++ w2) y := by
  induction w1 generalizing x with
  | nil => simp only [IsWalk] at h1; subst h1; simpa using h2
  | cons e w ih => exact ⟨h1.1, h1.2.1, ih h1.2.2⟩

def flipE (e : Edge) : Edge := (e.2.1, e.1, e.2.2)

theorem IsWalk.reverse {f : Forest} {x y : Cst} {w : List Edge} (h : IsWalk f x w y) :
    IsWalk f y (w.reverse.map flipE) x := by
  induction w generalizing x with
  | nil => simp only [IsWalk] at h; subst h; simp [IsWalk]
  | cons e w ih =>
    simp only [List.reverse_cons, List.map_append, List.map_cons, List.map_nil]
    apply (ih h.2.2).append
    refine ⟨rfl, ?_, h.1⟩
    simp only [flipE]
    exact h.2.1.symm

/-- The edges walked when following the parent pointers. -/
def upEdges : Cst → Path → List Edge
  | _, [] => []
  | x, (p, some l) :: r => (x, p, l) :: upEdges p r
  | _, (p, none) :: r => upEdges p r

theorem upEdges_walk (f : Forest) (x : Cst) (path : Path) (hc : IsChain f x path) :
    IsWalk f x (upEdges x path) (endOf x path) := by
  induction path generalizing x with
  | nil => simp [upEdges, IsWalk, endOf]
  | cons e r ih =>
    obtain ⟨p, ol⟩ := e
    cases ol with
    | none => simp [IsChain] at hc
    | some l => simp only [IsChain] at hc; exact ⟨rfl, .inl hc.1, ih p hc.2⟩

theorem upEdges_labels (f : Forest) (x : Cst) (path : Path) (hc : IsChain f x path) :
    (upEdges x path).map (·.2.2) = labelsOf path := by
  induction path generalizing x with
  | nil => simp [upEdges, labelsOf]
  | cons e r ih =>
    obtain ⟨p, ol⟩ := e
    cases ol with
    | none => simp [IsChain] at hc
    | some l =>
      simp only [IsChain] at hc
      simp only [upEdges, List.map_cons, labelsOf, List.filterMap_cons]
      rw [ih p hc.2]; rfl

theorem upEdges_tgt (f : Forest) (x : Cst) (path : Path) (hc : IsChain f x path) :
    (upEdges x path).map (·.2.1) = nodes path := by
  induction path generalizing x with
  | nil => simp [upEdges, nodes]
  | cons e r ih =>
    obtain ⟨p, ol⟩ := e
    cases ol with
    | none => simp [IsChain] at hc
    | some l =>
      simp only [IsChain] at hc
      simp only [upEdges, List.map_cons, nodes]
      rw [ih p hc.2]; rfl

/-- Sources of the up-edges: a node `endOf x (path.take j)` with `j < path.length`. -/
theorem upEdges_src (f : Forest) (x : Cst) (path : Path) (hc : IsChain f x path) (u : Cst)
    (hu : u ∈ (upEdges x path).map (·.1)) : ∃ j, j < path.length ∧ u = endOf x (path.take j) := by
  induction path generalizing x with
  | nil => simp [upEdges] at hu
  | cons e r ih =>
    obtain ⟨p, ol⟩ := e
    cases ol with
    | none => simp [IsChain] at hc
    | some l =>
      simp only [IsChain] at hc
      simp only [upEdges, List.map_cons, List.mem_cons] at hu
      rcases hu with hu | hu
      · exact ⟨0, by simp, by simp [endOf, hu]⟩
      · obtain ⟨j, hj, he⟩ := ih p hc.2 hu
        exact ⟨j + 1, by simp; omega, by simp [endOf, he]⟩

theorem nodes_idx (x : Cst) (path : Path) (u : Cst) (hu : u ∈ x :: nodes path) :
    ∃ i, i ≤ path.length ∧ u = endOf x (path.take i) := by
  induction path generalizing x with
  | nil => simp [nodes] at hu; exact ⟨0, by simp, by simp [endOf, hu]⟩
  | cons e r ih =>
    obtain ⟨p, ol⟩ := e
    simp only [List.mem_cons] at hu
    rcases hu with hu | hu
    · exact ⟨0, by simp, by simp [endOf, hu]⟩
    · obtain ⟨i, hi, he⟩ := ih p (by simpa [nodes] using hu)
      exact ⟨i + 1, by simp; omega, by simp [endOf, he]⟩

-- ---------------------------------------------------------------- chains are determined by their start

theorem isChain_drop (f : Forest) (x : Cst) (path : Path) (hc : IsChain f x path) (i : Nat) :
    IsChain f (endOf x (path.take i)) (path.drop i) := by
  induction path generalizing x i with
  | nil => simp [IsChain, endOf]
  | cons e r ih =>
    obtain ⟨p, ol⟩ := e
    cases i with
    | zero => simpa [endOf] using hc
    | succ i =>
      cases ol with
      | none => simp [IsChain] at hc
      | some l => simp only [IsChain] at hc; simpa [endOf] using ih p hc.2 i

theorem endOf_take_drop (x : Cst) (path : Path) (i k : Nat) :
    endOf (endOf x (path.take i)) ((path.drop i).take k) = endOf x (path.take (i + k)) := by
  induction path generalizing x i with
  | nil => simp [endOf]
  | cons e r ih =>
    obtain ⟨p, ol⟩ := e
    cases i with
    | zero => simp [endOf]
    | succ i =>
      have := ih p i
      simp only [List.take_succ_cons, List.drop_succ_cons, endOf, Nat.add_right_comm i 1 k] at this ⊢
      exact this

theorem endOf_drop (x : Cst) (path : Path) (i : Nat) :
    endOf (endOf x (path.take i)) (path.drop i) = endOf x path := by
  induction path generalizing x i with
  | nil => simp [endOf]
  | cons e r ih =>
    obtain ⟨p, ol⟩ := e
    cases i with
    | zero => simp [endOf]
    | succ i => simpa [endOf] using ih p i

/-- Two complete chains from the same node are the same list. -/
theorem chain_det (f : Forest) (w : Cst) (p1 p2 : Path) (h1 : IsChain f w p1) (h2 : IsChain f w p2)
    (e1 : ∀ q, aget f (endOf w p1) ≠ some (some q)) (e2 : ∀ q, aget f (endOf w p2) ≠ some (some q)) : p1 = p2 := by
  induction p1 generalizing w p2 with
  | nil =>
    cases p2 with
    | nil => rfl
    | cons e r =>
      obtain ⟨p, ol⟩ := e
      cases ol with
      | none => simp [IsChain] at h2
      | some l => simp only [IsChain] at h2; exact absurd h2.1 (by simpa [endOf] using e1 (p, l))
  | cons e r ih =>
    obtain ⟨p, ol⟩ := e
    cases ol with
    | none => simp [IsChain] at h1
    | some l =>
      simp only [IsChain] at h1
      cases p2 with
      | nil => exact absurd h1.1 (by simpa [endOf] using e2 (p, l))
      | cons e' r' =>
        obtain ⟨p', ol'⟩ := e'
        cases ol' with
        | none => simp [IsChain] at h2
        | some l' =>
          simp only [IsChain] at h2
          have := h1.1.symm.trans h2.1
          simp only [Option.some.injEq, Prod.mk.injEq] at this
          obtain ⟨rfl, rfl⟩ := this
          rw [ih p r' h1.2 h2.2 (by simpa [endOf] using e1) (by simpa [endOf] using e2)]

-- ---------------------------------------------------------------- the scan from the roots stops at the lowest common ancestor

theorem lcaPos_stop (sp tp : Path) (n pos : Nat) :
    ¬ (sp.length ≥ lcaPos sp tp n pos + 1 ∧ tp.length ≥ lcaPos sp tp n pos + 1 ∧
        nodeAt sp (sp.length - lcaPos sp tp n pos - 1) = nodeAt tp (tp.length - lcaPos sp tp n pos - 1)) ∨
    lcaPos sp tp n pos = pos + n := by
  induction n generalizing pos with
  | zero => right; rfl
  | succ n ih =>
    unfold lcaPos
    split
    · rcases ih (pos + 1) with h | h
      · exact .inl h
      · right; rw [h]; omega
    · next hc => exact .inl hc

/-- In a ranked forest the ranks strictly decrease along a chain. -/
theorem chain_rank_lt (f : Forest) (d : Cst → Nat) (hd : ∀ c p l, aget f c = some (some (p, l)) → d p < d c)
    (x : Cst) (path : Path) (hc : IsChain f x path) : ∀ v ∈ nodes path, d v < d x := by
  induction path generalizing x with
  | nil => intro v hv; simp [nodes] at hv
  | cons e r ih =>
    obtain ⟨p, ol⟩ := e
    cases ol with
    | none => simp [IsChain] at hc
    | some l =>
      simp only [IsChain] at hc
      intro v hv
      simp only [nodes, List.map_cons, List.mem_cons] at hv
      have hp := hd x p l hc.1
      rcases hv with hv | hv
      · subst hv; exact hp
      · exact Nat.lt_trans (ih p hc.2 v (by simpa [nodes] using hv)) hp

theorem chain_nodup (f : Forest) (d : Cst → Nat) (hd : ∀ c p l, aget f c = some (some (p, l)) → d p < d c)
    (x : Cst) (path : Path) (hc : IsChain f x path) : (x :: nodes path).Nodup := by
  induction path generalizing x with
  | nil => simp [nodes]
  | cons e r ih =>
    obtain ⟨p, ol⟩ := e
    cases ol with
    | none => simp [IsChain] at hc
    | some l =>
      have hlt := chain_rank_lt f d hd x _ hc
      simp only [IsChain] at hc
      rw [List.nodup_cons]
      refine ⟨?_, by simpa [nodes] using ih p hc.2⟩
      intro hx
      exact Nat.lt_irrefl _ (hlt x hx)

theorem isChain_take' (f : Forest) (x : Cst) (path : Path) (hc : IsChain f x path) (k : Nat) : IsChain f x (path.take k) := by
  induction path generalizing x k with
  | nil => simp [IsChain]
  | cons e r ih =>
    obtain ⟨p, ol⟩ := e
    cases k with
    | zero => simp [IsChain]
    | succ k =>
      cases ol with
      | none => simp [IsChain] at hc
      | some l => simp only [List.take_succ_cons, IsChain] at hc ⊢; exact ⟨hc.1, ih p hc.2 k⟩

theorem src_rank (f : Forest) (d : Cst → Nat) (hd : ∀ c p l, aget f c = some (some (p, l)) → d p < d c)
    (x : Cst) (path : Path) (hc : IsChain f x path) : ∀ u ∈ (upEdges x path).map (·.1), d u ≤ d x := by
  induction path generalizing x with
  | nil => intro u hu; simp [upEdges] at hu
  | cons e r ih =>
    obtain ⟨p, ol⟩ := e
    cases ol with
    | none => simp [IsChain] at hc
    | some l =>
      simp only [IsChain] at hc
      intro u hu
      simp only [upEdges, List.map_cons, List.mem_cons] at hu
      rcases hu with hu | hu
      · subst hu; exact Nat.le_refl _
      · exact Nat.le_of_lt (Nat.lt_of_le_of_lt (ih p hc.2 u hu) (hd x p l hc.1))

theorem src_nodup (f : Forest) (d : Cst → Nat) (hd : ∀ c p l, aget f c = some (some (p, l)) → d p < d c)
    (x : Cst) (path : Path) (hc : IsChain f x path) : ((upEdges x path).map (·.1)).Nodup := by
  induction path generalizing x with
  | nil => simp [upEdges]
  | cons e r ih =>
    obtain ⟨p, ol⟩ := e
    cases ol with
    | none => simp [IsChain] at hc
    | some l =>
      simp only [IsChain] at hc
      simp only [upEdges, List.map_cons, List.nodup_cons]
      refine ⟨?_, ih p hc.2⟩
      intro hx
      have := src_rank f d hd p r hc.2 x hx
      have := hd x p l hc.1
      omega

theorem nodup_rev {α : Type} {l : List α} (h : l.Nodup) : l.reverse.Nodup := by
  unfold List.Nodup at *
  rw [List.pairwise_reverse]
  exact h.imp (fun hab => Ne.symm hab)

/-- The labels of `cur_path(a, b)` are the labels of a simple walk from `a` to `b` in the forest. -/
theorem curPath_walk (f : Forest) (d : Cst → Nat) (hd : ∀ c p l, aget f c = some (some (p, l)) → d p < d c)
    (a b : Cst) (path : List Label) (h : curPath f a b = .ok path) :
    ∃ w : List Edge, IsWalk f a w b ∧ (a :: w.map (·.2.1)).Nodup ∧ w.map (·.2.2) = path := by
  unfold curPath at h
  split at h
  · cases h
  · split at h
    · cases h
    · next hcomp =>
      dsimp only at h
      split at h
      · cases h
      · next hroot =>
        simp only [Except.ok.injEq] at h
        have hca : pathComplete f f.length a = true := by
          cases hh : pathComplete f f.length a with
          | true => rfl
          | false => exact absurd (.inl hh) hcomp
        have hcb : pathComplete f f.length b = true := by
          cases hh : pathComplete f f.length b with
          | true => rfl
          | false => exact absurd (.inr hh) hcomp
        have hroot' : nodeAt (pathToRoot f a) ((pathToRoot f a).length - 1) =
            nodeAt (pathToRoot f b) ((pathToRoot f b).length - 1) := Classical.not_not.mp hroot
        have CA := pathGo_isChain f f.length a
        have CB := pathGo_isChain f f.length b
        have EA := pathGo_end f f.length a hca
        have EB := pathGo_end f f.length b hcb
        have inv := lcaPos_inv (pathToRoot f a) (pathToRoot f b) (pathToRoot f a).length 1
          ⟨Nat.le_refl 1, by simp [pathToRoot], by simp [pathToRoot], hroot'⟩
        have stop := lcaPos_stop (pathToRoot f a) (pathToRoot f b) (pathToRoot f a).length 1
        generalize lcaPos (pathToRoot f a) (pathToRoot f b) (pathToRoot f a).length 1 = pos at h inv stop
        unfold pathToRoot at h inv stop
        generalize pathGo f f.length a = ra at h inv stop CA EA
        generalize pathGo f f.length b = rb at h inv stop CB EB
        obtain ⟨p1, p2, p3, p4⟩ := inv
        simp only [List.length_cons, List.drop_succ_cons, List.drop_zero] at h p2 p3 p4 stop
        have ka : ra.length + 1 - pos ≤ ra.length := by omega
        have kb : rb.length + 1 - pos ≤ rb.length := by omega
        rw [nodeAt_take a none ra _ ka, nodeAt_take b none rb _ kb] at p4
        simp only [Option.some.injEq] at p4
        have stop' : ¬ (ra.length + 1 ≥ pos + 1 ∧ rb.length + 1 ≥ pos + 1 ∧
            nodeAt ((a, none) :: ra) (ra.length + 1 - pos - 1) = nodeAt ((b, none) :: rb) (rb.length + 1 - pos - 1)) := by
          rcases stop with st | st
          · exact st
          · omega
        have CPa := isChain_take' f a ra CA (ra.length + 1 - pos)
        have CPb := isChain_take' f b rb CB (rb.length + 1 - pos)
        refine ⟨upEdges a (ra.take (ra.length + 1 - pos)) ++
            ((upEdges b (rb.take (rb.length + 1 - pos))).reverse.map flipE), ?_, ?_, ?_⟩
        · apply (upEdges_walk f a _ CPa).append
          have := (upEdges_walk f b _ CPb).reverse
          rw [← p4] at this
          exact this
        · -- simple
          simp only [List.map_append, List.map_map, List.map_reverse]
          have e1 : (upEdges a (ra.take (ra.length + 1 - pos))).map (·.2.1) = nodes (ra.take (ra.length + 1 - pos)) :=
            upEdges_tgt f a _ CPa
          have e2 : (upEdges b (rb.take (rb.length + 1 - pos))).map ((·.2.1) ∘ flipE) =
              (upEdges b (rb.take (rb.length + 1 - pos))).map (·.1) := by
            apply List.map_congr_left; intro e _; rfl
          rw [e1, e2, ← List.cons_append, List.nodup_append]
          refine ⟨chain_nodup f d hd a _ CPa, nodup_rev (src_nodup f d hd b _ CPb), ?_⟩
          intro u hu v hv huv
          subst huv
          rw [List.mem_reverse] at hv
          obtain ⟨i, hi, hui⟩ := nodes_idx a _ u hu
          obtain ⟨j, hj, huj⟩ := upEdges_src f b _ CPb u hv
          simp only [List.length_take] at hi hj
          rw [List.take_take] at hui huj
          have hi' : min i (ra.length + 1 - pos) = i := by omega
          have hj' : min j (rb.length + 1 - pos) = j := by omega
          rw [hi'] at hui
          rw [hj'] at huj
          -- the chains from `u` in both paths coincide
          have da := isChain_drop f a ra CA i
          have db := isChain_drop f b rb CB j
          rw [← hui] at da
          rw [← huj] at db
          have ea : ∀ q, aget f (endOf u (ra.drop i)) ≠ some (some q) := by
            rw [hui, endOf_drop]; exact EA
          have eb : ∀ q, aget f (endOf u (rb.drop j)) ≠ some (some q) := by
            rw [huj, endOf_drop]; exact EB
          have heq := chain_det f u _ _ da db ea eb
          have hlen : ra.length - i = rb.length - j := by
            have := congrArg List.length heq
            simpa using this
          apply stop'
          refine ⟨by omega, by omega, ?_⟩
          rw [nodeAt_take a none ra _ (by omega), nodeAt_take b none rb _ (by omega)]
          have s1 := endOf_take_drop a ra i (ra.length - i - pos)
          have s2 := endOf_take_drop b rb j (rb.length - j - pos)
          rw [← hui] at s1
          rw [← huj] at s2
          have t1 : i + (ra.length - i - pos) = ra.length + 1 - pos - 1 := by omega
          have t2 : j + (rb.length - j - pos) = rb.length + 1 - pos - 1 := by omega
          rw [t1] at s1
          rw [t2] at s2
          rw [← s1, ← s2, heq, hlen]
        · simp only [List.map_append, List.map_map, List.map_reverse]
          have e1 := upEdges_labels f a _ CPa
          have e2 : (upEdges b (rb.take (rb.length + 1 - pos))).map ((·.2.2) ∘ flipE) =
              (upEdges b (rb.take (rb.length + 1 - pos))).map (·.2.2) := by
            apply List.map_congr_left; intro e _; rfl
          rw [e1, e2, upEdges_labels f b _ CPb]
          exact h

end Holpy.C17
