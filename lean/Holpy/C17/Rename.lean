import Holpy.C17.CompleteFinal
/-
C17 — helper lemmas, part 7: the congruence closure commutes with injective renamings of the
constants (the names `s1, s2, ...` the HOL wrapper hands out depend on the order in which terms
are added; the answers of `test` do not).
-/
namespace Holpy.C17

def Op.rename (ρ : Cst → Cst) : Op → Op
  | .add c => .add (ρ c)
  | .mergeC a b => .mergeC (ρ a) (ρ b)
  | .mergeF a1 a2 a => .mergeF (ρ a1) (ρ a2) (ρ a)

theorem Cl.rename {ρ : Cst → Cst} {ops : List Op} {a b : Cst} (h : Cl (eqsOf ops) a b) :
    Cl (eqsOf (ops.map (Op.rename ρ))) (ρ a) (ρ b) := by
  induction h with
  | base h => exact .base (List.mem_map.2 ⟨_, h, rfl⟩)
  | refl a => exact .refl _
  | symm _ ih => exact .symm ih
  | trans _ _ ih1 ih2 => exact .trans ih1 ih2
  | cong h1 h2 _ _ ih1 ih2 =>
    exact .cong (List.mem_map.2 ⟨_, h1, rfl⟩) (List.mem_map.2 ⟨_, h2, rfl⟩) ih1 ih2

theorem mem_rename_c {ρ : Cst → Cst} {ops : List Op} {x y : Cst}
    (h : Op.mergeC x y ∈ ops.map (Op.rename ρ)) : ∃ a b, x = ρ a ∧ y = ρ b ∧ Op.mergeC a b ∈ ops := by
  obtain ⟨op, hop, he⟩ := List.mem_map.1 h
  cases op with
  | add c => cases he
  | mergeC a b => simp only [Op.rename, Op.mergeC.injEq] at he; exact ⟨a, b, he.1.symm, he.2.symm, hop⟩
  | mergeF a1 a2 a => cases he

theorem mem_rename_f {ρ : Cst → Cst} {ops : List Op} {x1 x2 x : Cst}
    (h : Op.mergeF x1 x2 x ∈ ops.map (Op.rename ρ)) :
    ∃ a1 a2 a, x1 = ρ a1 ∧ x2 = ρ a2 ∧ x = ρ a ∧ Op.mergeF a1 a2 a ∈ ops := by
  obtain ⟨op, hop, he⟩ := List.mem_map.1 h
  cases op with
  | add c => cases he
  | mergeC a b => cases he
  | mergeF a1 a2 a =>
    simp only [Op.rename, Op.mergeF.injEq] at he
    exact ⟨a1, a2, a, he.1.symm, he.2.1.symm, he.2.2.symm, hop⟩

theorem Cl.unrename {ρ : Cst → Cst} (inj : ∀ x y, ρ x = ρ y → x = y) {ops : List Op} {x y : Cst}
    (h : Cl (eqsOf (ops.map (Op.rename ρ))) x y) :
    x = y ∨ ∃ a b, x = ρ a ∧ y = ρ b ∧ Cl (eqsOf ops) a b := by
  induction h with
  | base h =>
    obtain ⟨a, b, h1, h2, h3⟩ := mem_rename_c h
    exact .inr ⟨a, b, h1, h2, .base h3⟩
  | refl a => exact .inl rfl
  | symm _ ih =>
    rcases ih with ih | ⟨a, b, h1, h2, h3⟩
    · exact .inl ih.symm
    · exact .inr ⟨b, a, h2, h1, h3.symm⟩
  | trans _ _ ih1 ih2 =>
    rcases ih1 with ih1 | ⟨a, b, h1, h2, h3⟩
    · subst ih1; exact ih2
    · rcases ih2 with ih2 | ⟨b', c, h4, h5, h6⟩
      · subst ih2; exact .inr ⟨a, b, h1, h2, h3⟩
      · have : b = b' := inj _ _ (h2.symm.trans h4)
        subst this
        exact .inr ⟨a, c, h1, h5, h3.trans h6⟩
  | cong h1 h2 _ _ ih1 ih2 =>
    obtain ⟨a1, a2, a, e1, e2, e3, m1⟩ := mem_rename_f h1
    obtain ⟨b1, b2, b, f1, f2, f3, m2⟩ := mem_rename_f h2
    have c1 : Cl (eqsOf ops) a1 b1 := by
      rcases ih1 with ih1 | ⟨a', b', g1, g2, g3⟩
      · have : a1 = b1 := inj _ _ (e1.symm.trans (ih1.trans f1)); subst this; exact .refl _
      · have ha : a1 = a' := inj _ _ (e1.symm.trans g1)
        have hb : b1 = b' := inj _ _ (f1.symm.trans g2)
        subst ha hb; exact g3
    have c2 : Cl (eqsOf ops) a2 b2 := by
      rcases ih2 with ih2 | ⟨a', b', g1, g2, g3⟩
      · have : a2 = b2 := inj _ _ (e2.symm.trans (ih2.trans f2)); subst this; exact .refl _
      · have ha : a2 = a' := inj _ _ (e2.symm.trans g1)
        have hb : b2 = b' := inj _ _ (f2.symm.trans g2)
        subst ha hb; exact g3
    exact .inr ⟨a, b, e3, f3, .cong m1 m2 c1 c2⟩

theorem Cl.rename_iff {ρ : Cst → Cst} (inj : ∀ x y, ρ x = ρ y → x = y) {ops : List Op} {a b : Cst} :
    Cl (eqsOf (ops.map (Op.rename ρ))) (ρ a) (ρ b) ↔ Cl (eqsOf ops) a b := by
  constructor
  · intro h
    rcases Cl.unrename inj h with h | ⟨a', b', h1, h2, h3⟩
    · have := inj _ _ h; subst this; exact .refl _
    · have ha := inj _ _ h1
      have hb := inj _ _ h2
      subst ha hb; exact h3
  · exact Cl.rename

theorem entered_rename {ρ : Cst → Cst} {ops : List Op} {c : Cst} (h : entered ops c) :
    entered (ops.map (Op.rename ρ)) (ρ c) := by
  obtain ⟨op, hop, hc⟩ := h
  refine ⟨op.rename ρ, List.mem_map.2 ⟨op, hop, rfl⟩, ?_⟩
  cases op <;> simp only [Op.consts, Op.rename, List.mem_cons, List.not_mem_nil, or_false] at hc ⊢
  · subst hc; rfl
  · rcases hc with h | h <;> subst h <;> simp
  · rcases hc with h | h | h <;> subst h <;> simp

/-- Inclusion of equation sets up to the orientation of the constant equations. -/
theorem Cl.mono_sym {E E' : Eqn → Prop} (hc : ∀ a b, E (.c a b) → E' (.c a b) ∨ E' (.c b a))
    (hf : ∀ a1 a2 a, E (.f a1 a2 a) → E' (.f a1 a2 a)) {a b : Cst} (c : Cl E a b) : Cl E' a b := by
  induction c with
  | base e =>
    rcases hc _ _ e with h | h
    · exact .base h
    · exact .symm (.base h)
  | refl a => exact .refl a
  | symm _ ih => exact .symm ih
  | trans _ _ ih1 ih2 => exact .trans ih1 ih2
  | cong e1 e2 _ _ ih1 ih2 => exact .cong (hf _ _ _ e1) (hf _ _ _ e2) ih1 ih2

end Holpy.C17
