import Holpy.C17.ExplainProofs
/-
C17 — helper lemmas, part 11: paths in the proof forest -- what `_path_to_root` returns, what the
reversal loop of `_add_edge_proof_forest` does to the dictionary, and why a ranked (acyclic) forest is
walked to a root within `len(proof_forest)` steps.
-/
namespace Holpy.C17

/-- `path` is the sequence of `(parent, label)` pairs read from the forest starting at `x`. -/
def IsChain (f : Forest) : Cst → Path → Prop
  | _, [] => True
  | x, (p, some l) :: r => aget f x = some (some (p, l)) ∧ IsChain f p r
  | _, (_, none) :: _ => False

theorem pathGo_isChain (f : Forest) (n : Nat) (x : Cst) : IsChain f x (pathGo f n x) := by
  induction n generalizing x with
  | zero => simp [pathGo, IsChain]
  | succ n ih =>
    unfold pathGo
    split
    · next p l h => exact ⟨h, ih p⟩
    · simp [IsChain]

/-- A complete walk ends in a node that has no parent. -/
theorem pathGo_end (f : Forest) (n : Nat) (x : Cst) (h : pathComplete f n x = true) :
    ∀ q, aget f (endOf x (pathGo f n x)) ≠ some (some q) := by
  induction n generalizing x with
  | zero =>
    intro q hq
    simp only [pathGo, endOf] at hq
    simp [pathComplete, hq] at h
  | succ n ih =>
    unfold pathComplete at h
    unfold pathGo
    split at h
    · next p l hp => simp only [endOf]; exact ih p h
    · next hnp =>
      intro q hq
      simp only [endOf] at hq; exact hnp q.1 q.2 hq

/-- The entry the reversal loop writes for `v` (later writes win). -/
def revFind : Cst → Path → Cst → Option (Cst × Label)
  | _, [], _ => none
  | x, (p, some l) :: rest, v =>
    match revFind p rest v with
    | some r => some r
    | none => if p = v then some (x, l) else none
  | _, (_, none) :: _, _ => none

theorem reverseEdges_get (path : Path) (f : Forest) (x : Cst) (o : Option Label) (v : Cst)
    {g : Forest} (hg : IsChain g x path) :
    aget (reverseEdges f ((x, o) :: path)) v =
      match revFind x path v with
      | some r => some (some r)
      | none => aget f v := by
  induction path generalizing f x o with
  | nil => simp [reverseEdges, revFind]
  | cons q r ih =>
    obtain ⟨p, ol⟩ := q
    cases ol with
    | none => simp [IsChain] at hg
    | some l =>
      simp only [IsChain] at hg
      simp only [reverseEdges, revFind]
      rw [ih (aset f p (some (x, l))) p (some l) hg.2]
      cases revFind p r v with
      | some r' => rfl
      | none =>
        simp only [aget_aset]
        split <;> rfl

end Holpy.C17
