import Holpy.C17.SpecExplain
import Holpy.C17.ExplainProofs
import Holpy.C17.CompleteFinal
/-
C17 — helper lemmas, part 8: every explanation is a proof (re-deriving the equality from exactly the
returned equations with the verified decision procedure `specTest`).
-/
namespace Holpy.C17

theorem eqsOf_specOps (eqs : List Eqn) (a b : Cst) (q : Eqn) :
    eqsOf (.add a :: .add b :: eqs.map Eqn.toOp) q ↔ q ∈ eqs := by
  cases q with
  | c x y =>
    simp only [eqsOf, List.mem_cons, List.mem_map, reduceCtorEq, false_or]
    constructor
    · rintro ⟨q, hq, he⟩; cases q <;> simp only [Eqn.toOp, Op.mergeC.injEq, reduceCtorEq] at he
      obtain ⟨rfl, rfl⟩ := he; exact hq
    · intro h; exact ⟨_, h, rfl⟩
  | f x y z =>
    simp only [eqsOf, List.mem_cons, List.mem_map, reduceCtorEq, false_or]
    constructor
    · rintro ⟨q, hq, he⟩; cases q <;> simp only [Eqn.toOp, Op.mergeF.injEq, reduceCtorEq] at he
      obtain ⟨rfl, rfl, rfl⟩ := he; exact hq
    · intro h; exact ⟨_, h, rfl⟩

/-- `specTest` decides the congruence closure of a list of equations. -/
theorem specTest_iff' (eqs : List Eqn) (a b : Cst) :
    specTest eqs a b = .ok true ↔ Cl (fun q => q ∈ eqs) a b := by
  unfold specTest
  have hE : ∀ q, eqsOf (.add a :: .add b :: eqs.map Eqn.toOp) q ↔ q ∈ eqs := eqsOf_specOps eqs a b
  constructor
  · intro h
    exact (Cl.congr_set hE).1 (test_sound_of (run_sound _) h)
  · intro h
    have ha : entered (.add a :: .add b :: eqs.map Eqn.toOp) a := ⟨.add a, by simp, by simp [Op.consts]⟩
    have hb : entered (.add a :: .add b :: eqs.map Eqn.toOp) b := ⟨.add b, by simp, by simp [Op.consts]⟩
    exact test_complete_of (run_complete _) (run_pending_nil _) (run_dom _ ha) (run_dom _ hb) ((Cl.congr_set hE).2 h)

theorem mem_resEqList (res : Res) (q : Eqn) : q ∈ resEqList res ↔ resEqs res q := by
  unfold resEqList resEqs
  simp only [List.mem_flatMap]
  constructor
  · rintro ⟨ent, he, l, hl, hq⟩
    refine ⟨ent, he, l, hl, ?_⟩
    cases l with
    | const x y => simpa [labelEqs] using hq
    | comb e1 e2 => simpa [labelEqs] using hq
  · rintro ⟨ent, he, l, hl, hq⟩
    refine ⟨ent, he, l, hl, ?_⟩
    cases l with
    | const x y => simpa [labelEqs] using hq
    | comb e1 e2 => simpa [labelEqs] using hq

end Holpy.C17
