import Holpy.C17.HolProofs
/-
C17 — helper lemmas, part 10: the wrapper's `test` is sound and complete for term-level
congruence closure (via the theorems about the core structure and a canonical model).
-/
namespace Holpy.C17

theorem wmerge_inv {E E' : Term → Term → Prop} {w : WState} (W : WInv E w) (s t : Term)
    (hsub : ∀ a b, E a b → E' a b) (hnew : E' s t) (hE' : ∀ a b, E' a b → E a b ∨ (a = s ∧ b = t)) :
    WInv E' (wmerge w s t) := by
  unfold wmerge
  dsimp only
  obtain ⟨W1, G1⟩ := addTerm_inv s W
  obtain ⟨W2, G2⟩ := addTerm_inv t W1
  generalize (addTerm s w).1 = w1 at W1 G1 W2 G2
  generalize (addTerm s w).2 = ks at G1
  generalize (addTerm t w1).1 = w2 at W2 G2
  generalize (addTerm t w1).2 = kt at G2
  have hs2 : aget w2.rev s = some ks := G2.keep _ _ G1.here
  have ht2 : aget w2.rev t = some kt := G2.here
  have lg : ∀ op ∈ w2.log, op ∈ (w2.core (.mergeC ks kt)).log := fun op h => List.mem_append_left _ h
  refine ⟨?_, W2.rev_index, W2.bound, ?_, ?_, ?_, ?_, ?_⟩
  · simp only [WState.core, run_snoc, W2.run]
  · intro f x k h
    obtain ⟨kf, kx, h1, h2, h3⟩ := W2.sub f x k h
    exact ⟨kf, kx, h1, h2, lg _ h3⟩
  · intro kf kx k h
    simp only [WState.core, List.mem_append, List.mem_singleton, reduceCtorEq, or_false] at h
    exact W2.logF kf kx k h
  · intro a b h
    simp only [WState.core, List.mem_append, List.mem_singleton, Op.mergeC.injEq] at h
    rcases h with h | ⟨rfl, rfl⟩
    · obtain ⟨s', t', h1, h2, h3⟩ := W2.logC a b h
      exact ⟨s', t', h1, h2, hsub _ _ h3⟩
    · exact ⟨s, t, (W2.rev_index _ _).1 hs2, (W2.rev_index _ _).1 ht2, hnew⟩
  · intro a b he
    rcases hE' a b he with he | ⟨rfl, rfl⟩
    · obtain ⟨ka, kb, h1, h2, h3⟩ := W2.eqs a b he
      exact ⟨ka, kb, h1, h2, lg _ h3⟩
    · exact ⟨ks, kt, hs2, ht2, by simp [WState.core]⟩
  · intro k u h
    exact entered_mono lg (W2.ent k u h)

theorem wrun_snoc (wops : List WOp) (op : WOp) : wrun (wops ++ [op]) = applyWOp (wrun wops) op := by
  simp [wrun, List.foldl_append]

theorem wrun_inv (wops : List WOp) : WInv (weqs wops) (wrun wops) := by
  induction wops using snoc_induction with
  | nil => exact WInv.init.mono (fun _ _ h => h.elim) (fun s t h => by simp [weqs] at h)
  | snoc wops op ih =>
    rw [wrun_snoc]
    cases op with
    | add t =>
      exact (addTerm_inv t ih).1.mono (fun a b h => by simp only [weqs] at h ⊢; exact List.mem_append_left _ h)
        (fun a b h => by simpa [weqs] using h)
    | merge s t =>
      apply wmerge_inv ih s t
      · intro a b h; simp only [weqs] at h ⊢; exact List.mem_append_left _ h
      · simp [weqs]
      · intro a b h
        simp only [weqs, List.mem_append, List.mem_singleton, WOp.merge.injEq] at h
        rcases h with h | h
        · exact .inl h
        · exact .inr h

/-- Core-level consequences are term-level consequences. -/
theorem cl_to_tcl {E : Term → Term → Prop} {w : WState} (W : WInv E w) {a b : Cst} (h : Cl (eqsOf w.log) a b) :
    a = b ∨ ∃ s t, aget w.index a = some s ∧ aget w.index b = some t ∧ TCl E s t := by
  induction h with
  | base h =>
    obtain ⟨s, t, h1, h2, h3⟩ := W.logC _ _ h
    exact .inr ⟨s, t, h1, h2, .base h3⟩
  | refl a => exact .inl rfl
  | symm _ ih =>
    rcases ih with ih | ⟨s, t, h1, h2, h3⟩
    · exact .inl ih.symm
    · exact .inr ⟨t, s, h2, h1, h3.symm⟩
  | trans _ _ ih1 ih2 =>
    rcases ih1 with ih1 | ⟨s, t, h1, h2, h3⟩
    · subst ih1; exact ih2
    · rcases ih2 with ih2 | ⟨t', u, h4, h5, h6⟩
      · subst ih2; exact .inr ⟨s, t, h1, h2, h3⟩
      · rw [h2] at h4; cases h4
        exact .inr ⟨s, u, h1, h5, h3.trans h6⟩
  | cong e1 e2 _ _ ih1 ih2 =>
    obtain ⟨f, x, hf, hx, hfx⟩ := W.logF _ _ _ e1
    obtain ⟨f', x', hf', hx', hfx'⟩ := W.logF _ _ _ e2
    have c1 : TCl E f f' := by
      rcases ih1 with ih1 | ⟨s, t, h1, h2, h3⟩
      · subst ih1; rw [hf] at hf'; cases hf'; exact .refl _
      · rw [hf] at h1; rw [hf'] at h2; cases h1; cases h2; exact h3
    have c2 : TCl E x x' := by
      rcases ih2 with ih2 | ⟨s, t, h1, h2, h3⟩
      · subst ih2; rw [hx] at hx'; cases hx'; exact .refl _
      · rw [hx] at h1; rw [hx'] at h2; cases h1; cases h2; exact h3
    exact .inr ⟨_, _, hfx, hfx', .app c1 c2⟩

theorem wtest_sound_of {E : Term → Term → Prop} {w : WState} (W : WInv E w) {l r : Term}
    (h : (wtest w l r).2 = .ok true) : TCl E l r := by
  unfold wtest at h
  dsimp only at h
  obtain ⟨W1, G1⟩ := addTerm_inv l W
  obtain ⟨W2, G2⟩ := addTerm_inv r W1
  generalize (addTerm l w).1 = w1 at W1 G1 W2 G2 h
  generalize (addTerm l w).2 = kl at G1 h
  generalize (addTerm r w1).1 = w2 at W2 G2 h
  generalize (addTerm r w1).2 = kr at G2 h
  have hl : aget w2.index kl = some l := (W2.rev_index _ _).1 (G2.keep _ _ G1.here)
  have hr : aget w2.index kr = some r := (W2.rev_index _ _).1 G2.here
  rw [W2.run] at h
  rcases cl_to_tcl W2 (test_sound_of (run_sound _) h) with e | ⟨s, t, h1, h2, h3⟩
  · subst e; rw [hl] at hr; cases hr; exact .refl _
  · rw [hl] at h1; rw [hr] at h2; cases h1; cases h2; exact h3

theorem tcl_entails {E : Term → Term → Prop} {l r : Term} (h : TCl E l r) : Entails E l r := by
  intro D ap atm hm
  induction h with
  | base h => exact hm _ _ h
  | refl t => rfl
  | symm _ ih => exact ih.symm
  | trans _ _ ih1 ih2 => exact ih1.trans ih2
  | app _ _ ih1 ih2 => simp only [Term.eval, ih1, ih2]

-- ---------------------------------------------------------------- the canonical model

/-- Domain of the canonical model: classes of entered terms, and freely generated junk for the rest. -/
inductive CDom where
  | c (k : Cst)
  | j (d1 d2 : CDom)
  | a (n : Nat)

def capp (s : State) (d1 d2 : CDom) : CDom :=
  match d1, d2 with
  | .c r1, .c r2 =>
    match aget s.lookup (r1, r2) with
    | some e => .c (repOf s e.a)
    | none => .j d1 d2
  | _, _ => .j d1 d2

def catom (w : WState) (n : Nat) : CDom :=
  match aget w.rev (.atom n) with
  | some k => .c (repOf w.closure k)
  | none => .a n

theorem canon_eval {E : Term → Term → Prop} {w : WState} (W : WInv E w) (t : Term) (k : Cst)
    (h : aget w.rev t = some k) :
    Term.eval (capp w.closure) (catom w) t = .c (repOf w.closure k) := by
  induction t generalizing k with
  | atom n => simp only [Term.eval, catom, h]
  | app f x ihf ihx =>
    obtain ⟨kf, kx, hf, hx, hm⟩ := W.sub f x k h
    simp only [Term.eval, ihf kf hf, ihx kx hx, capp]
    have C := run_complete w.log
    have hn := run_pending_nil w.log
    rw [← W.run] at C hn
    obtain ⟨e', hl, hp⟩ := C.look ⟨kf, kx, k⟩ hm
    simp only [keyOf] at hl
    rw [hl]
    simp only [(hp.rep_of_nil hn)]

theorem wtest_complete_of {E : Term → Term → Prop} {w : WState} (W : WInv E w) {l r : Term}
    (h : Entails E l r) : (wtest w l r).2 = .ok true := by
  unfold wtest
  dsimp only
  obtain ⟨W1, G1⟩ := addTerm_inv l W
  obtain ⟨W2, G2⟩ := addTerm_inv r W1
  generalize (addTerm l w).1 = w1 at W1 G1 W2 G2
  generalize (addTerm l w).2 = kl at G1
  generalize (addTerm r w1).1 = w2 at W2 G2
  generalize (addTerm r w1).2 = kr at G2
  have hl : aget w2.rev l = some kl := G2.keep _ _ G1.here
  have hr : aget w2.rev r = some kr := G2.here
  have C := run_complete w2.log
  have hn := run_pending_nil w2.log
  rw [← W2.run] at C hn
  have key := h CDom (capp w2.closure) (catom w2) (by
    intro s t he
    obtain ⟨ks, kt, h1, h2, h3⟩ := W2.eqs s t he
    rw [canon_eval W2 s ks h1, canon_eval W2 t kt h2]
    have := (C.cst ks kt h3).rep_of_nil hn
    rw [this])
  rw [canon_eval W2 l kl hl, canon_eval W2 r kr hr] at key
  have key' : repOf w2.closure kl = repOf w2.closure kr := CDom.c.inj key
  have dl : Dom w2.closure kl := by
    rw [W2.run]; exact run_dom _ (W2.ent _ _ ((W2.rev_index _ _).1 hl))
  have dr : Dom w2.closure kr := by
    rw [W2.run]; exact run_dom _ (W2.ent _ _ ((W2.rev_index _ _).1 hr))
  obtain ⟨ra, hra⟩ := dl
  obtain ⟨rb, hrb⟩ := dr
  rw [repOf_of_get hra, repOf_of_get hrb] at key'
  simp [test, hra, hrb, key']

end Holpy.C17
