import Holpy.C17.Model
/-
C17 — executable model of the term-level bookkeeping of `prover/congc.py: CongClosureHOL`.

Terms are curried: an atomic term (`is_var()`/`is_const()`) or an application `Comb(fun, arg)`;
`f a b` is `app (app f a) b`.  (Abstractions and loose bound variables are outside the property's
quantifier and not modelled.)  The model follows the Python:
* `add_const(t)`: `num_consts += 1`, the new constant is `s<num_consts>` (here: the number itself),
  `index[new] = t`, `rev_index[t] = new`, `closure.add_var(new)`;
* `add_term(t)`: return `rev_index[t]` if present; an atom gets a constant; for `Comb(fun, arg)` first
  `add_term(fun)`, then `add_term(arg)`, then `add_const(t)`, then `closure.merge((fun_var, arg_var), t_var)`;
* `merge(s, t)`: `add_term(s)`, `add_term(t)`, `closure.merge(u1, u2)` (the table `pts` of proof terms and
  the proof-term assembly of `explain` are not modelled: the theorems they produce are judged by the
  real checker in the harness);
* `test(t1, t2)`: `add_term` both (this changes the structure), then `closure.test`.

`log` is a ghost field (not in the Python): the core operations performed so far, in order; the
invariant `closure = run log` ties the wrapper to the theorems about the core structure.
Import-free: linked into the `c17_model` driver.
-/
namespace Holpy.C17

inductive Term where
  | atom (n : Nat)
  | app (f x : Term)
  deriving DecidableEq, Repr

structure WState where
  num : Nat := 0
  index : List (Cst × Term) := []
  rev : List (Term × Cst) := []
  closure : State := {}
  log : List Op := []
  deriving Repr

def WState.init : WState := {}

/-- apply a core operation and record it in the ghost log -/
def WState.core (w : WState) (op : Op) : WState :=
  { w with closure := applyOp w.closure op, log := w.log ++ [op] }

/-- `add_const(t)` -/
def addConst (w : WState) (t : Term) : WState × Cst :=
  let k := w.num + 1
  (({ w with num := k, index := aset w.index k t, rev := aset w.rev t k } : WState).core (.add k), k)

/-- `add_term(t)` -/
def addTerm : Term → WState → WState × Cst
  | .atom n, w =>
    match aget w.rev (.atom n) with
    | some k => (w, k)
    | none => addConst w (.atom n)
  | .app f x, w =>
    match aget w.rev (.app f x) with
    | some k => (w, k)
    | none =>
      let r1 := addTerm f w
      let r2 := addTerm x r1.1
      let r3 := addConst r2.1 (.app f x)
      (r3.1.core (.mergeF r1.2 r2.2 r3.2), r3.2)

/-- `merge(s, t)` -/
def wmerge (w : WState) (s t : Term) : WState :=
  let r1 := addTerm s w
  let r2 := addTerm t r1.1
  r2.1.core (.mergeC r1.2 r2.2)

/-- `test(t1, t2)`: the new structure and the answer -/
def wtest (w : WState) (l r : Term) : WState × Except Err Bool :=
  let r1 := addTerm l w
  let r2 := addTerm r r1.1
  (r2.1, test r2.1.closure r1.2 r2.2)

/-- the core part of `explain(t1, t2)`: the raw explanation between the two constants -/
def wexplain (w : WState) (l r : Term) : WState × Except Err Res :=
  let r1 := addTerm l w
  let r2 := addTerm r r1.1
  (r2.1, explainTop r2.1.closure r1.2 r2.2)

/-- Calls that change the wrapper: `merge(s, t)`, and `add_term(t)` (also what `test`/`explain` do to
their two arguments before asking the core structure). -/
inductive WOp where
  | merge (s t : Term)
  | add (t : Term)
  deriving DecidableEq, Repr

def applyWOp (w : WState) : WOp → WState
  | .merge s t => wmerge w s t
  | .add t => (addTerm t w).1

def wrun (wops : List WOp) : WState := wops.foldl applyWOp WState.init

end Holpy.C17
