import Holpy.C17.PropsPf
import Holpy.C17.Props
/-
C17 — property theorems, part 3: when the wrapper's `explain` returns.
-/
namespace Holpy.C17

/-- `CongClosureHOL.explain(l, r)` returns a proof term exactly when `l = r` follows from the merged term
equations by reflexivity, symmetry, transitivity and congruence of application (otherwise the core
`explain` trips its `assert`); in particular it returns for every pair `test` reports equal. -/
theorem hol_explain_returns_iff (pops : List POp) (hc : Contract pops) (l r : Term) :
    (∃ res pf, (pexplain (prun pops) l r).2 = .ok (res, pf)) ↔ TCl (weqs (pops.map POp.toW)) l r := by
  obtain ⟨sp1, sp2⟩ := pexplain_spec pops hc l r
  have W := prun_winv pops
  obtain ⟨W1, G1⟩ := addTerm_inv l W
  obtain ⟨W2, G2⟩ := addTerm_inv r W1
  have hl : aget (addTerm r (addTerm l (prun pops).w).1).1.index (addTerm l (prun pops).w).2 = some l :=
    (W2.rev_index _ _).1 (G2.keep _ _ G1.here)
  have hr : aget (addTerm r (addTerm l (prun pops).w).1).1.index (addTerm r (addTerm l (prun pops).w).1).2 = some r :=
    (W2.rev_index _ _).1 G2.here
  constructor
  · rintro ⟨res, pf, h⟩
    have hw := (sp2 res pf h).1
    unfold wexplain at hw
    dsimp only at hw
    rw [W2.run] at hw
    obtain ⟨_, h2, _, h4⟩ := explain_uses_inputs _ _ _ res hw
    have hcl : Cl (eqsOf (addTerm r (addTerm l (prun pops).w).1).1.log) _ _ := Cl.mono h2 h4
    rcases cl_to_tcl W2 hcl with e | ⟨s, t, h1, h2', h3⟩
    · rw [e] at hl; rw [hl] at hr; cases hr; exact .refl _
    · rw [hl] at h1; rw [hr] at h2'; cases h1; cases h2'; exact h3
  · intro h
    have ht := hol_test_complete (pops.map POp.toW) l r (.inr h)
    rw [← prun_w] at ht
    unfold wtest at ht
    dsimp only at ht
    rw [W2.run] at ht
    obtain ⟨res, hres⟩ := explain_total _ _ _ ht
    have hw : (wexplain (prun pops).w l r).2 = .ok res := by
      unfold wexplain; dsimp only; rw [W2.run]; exact hres
    obtain ⟨pf, hpf⟩ := sp1 res hw
    exact ⟨res, pf, hpf⟩

/- non-vacuity: after merge(f a, a), explain(f (f a), a) returns; explain(f a, f) does not. -/
example : ((pexplain (prun [.merge (.app (.atom 1) (.atom 0)) (.atom 0) none]) (.app (.atom 1) (.app (.atom 1) (.atom 0))) (.atom 0)).2.toOption.isSome = true) ∧
    ((pexplain (prun [.merge (.app (.atom 1) (.atom 0)) (.atom 0) none]) (.app (.atom 1) (.atom 0)) (.atom 1)).2.toOption.isSome = false) := by
  constructor <;> rfl

end Holpy.C17
