import Holpy.Common.Sexp
import Holpy.C17.Model
import Holpy.C17.HolModel
import Holpy.C17.PfModel
/-
Line protocol for the C17 model: one whole operation sequence per line, run from the empty
structure; the answer lists the canonical output of every operation.

  (OP ...)  with OP =
    (add c) | (mc a b) | (mf a1 a2 a)   -> (part (c m) ...) | (err fuel)   every entered constant c (ascending)
                                           with the least constant m of its class (= all `test`s)
    (test a b)                          -> T | F | (err key)
    (explain a b)                       -> (res ((a b) LABEL ...) ...) sorted by key | (err KIND)
  LABEL = (c a b) | (f a1 a2 a b1 b2 b)

  (hol HOP ...)  a history of the HOL wrapper model (HolModel.lean), HOP =
    (merge S T) | (add S)   -> (tab (k TERM) ...)       the table `index` after the call, ascending k
    (test S T)              -> (T|F|(err ..) (tab ...))
    (explain S T)           -> (RES (tab ...))           RES as above, over the wrapper's constants
  TERM = n (atom) | (F X) (application)

  (holp POP ...)  a history of the wrapper with proof terms (PfModel.lean), POP =
    (merge S T PT)          -> ok        PT = - (no pt=) | PF (the proof term given as pt=)
    (add S) | (test S T)    -> ok        (test enters its two arguments)
    (explain S T)           -> PF | (err KIND)   the ProofTerm tree assembled by get_proofterm
  PF = (assume S T) | (gap S T)   [gap = holpy's ProofTerm.sorry] | (reflexive S) | (symmetric PF) | (transitive PF PF) | (combination PF PF)
-/
open Holpy Holpy.C17

namespace Holpy.C17.Driver

def insertSorted (x : Nat) : List Nat → List Nat
  | [] => [x]
  | y :: r => if x ≤ y then x :: y :: r else y :: insertSorted x r

def sortNats (l : List Nat) : List Nat := l.foldr insertSorted []

def partOf (s : State) : Sexp :=
  let cs := sortNats (s.rep.map (·.1))
  .list (.atom "part" :: cs.map fun c =>
    let r := repOf s c
    let m := (cs.filter fun d => repOf s d == r).headD c
    .list [Sexp.ofNat c, Sexp.ofNat m])

def errTo : Err → Sexp
  | .key => .list [.atom "err", .atom "key"]
  | .assert => .list [.atom "err", .atom "assert"]
  | .fuel => .list [.atom "err", .atom "fuel"]

def labelTo : Label → Sexp
  | .const a b => .list [.atom "c", Sexp.ofNat a, Sexp.ofNat b]
  | .comb e1 e2 => .list ([.atom "f"] ++ [e1.a1, e1.a2, e1.a, e2.a1, e2.a2, e2.a].map Sexp.ofNat)

def keyLe (x y : (Cst × Cst) × List Label) : Bool :=
  x.1.1 < y.1.1 || (x.1.1 == y.1.1 && x.1.2 ≤ y.1.2)

def insertRes (x : (Cst × Cst) × List Label) : Res → Res
  | [] => [x]
  | y :: r => if keyLe x y then x :: y :: r else y :: insertRes x r

def resTo (r : Res) : Sexp :=
  .list (.atom "res" :: (r.foldr insertRes []).map fun e =>
    .list (.list [Sexp.ofNat e.1.1, Sexp.ofNat e.1.2] :: e.2.map labelTo))

def runOps : State → List Sexp → List Sexp → Option (List Sexp)
  | _, [], acc => some acc.reverse
  | s, op :: rest, acc =>
    if s.stuck then runOps s rest (errTo .fuel :: acc) else
    match op with
    | .list [.atom "add", c] =>
      match c.toNat? with
      | some c => let s' := addVar s c; runOps s' rest (partOf s' :: acc)
      | none => none
    | .list [.atom "mc", a, b] =>
      match a.toNat?, b.toNat? with
      | some a, some b => let s' := mergeConst s a b; runOps s' rest ((if s'.stuck then errTo .fuel else partOf s') :: acc)
      | _, _ => none
    | .list [.atom "mf", a1, a2, a] =>
      match a1.toNat?, a2.toNat?, a.toNat? with
      | some a1, some a2, some a => let s' := mergeComb s a1 a2 a; runOps s' rest ((if s'.stuck then errTo .fuel else partOf s') :: acc)
      | _, _, _ => none
    | .list [.atom "test", a, b] =>
      match a.toNat?, b.toNat? with
      | some a, some b =>
        let o := match test s a b with
          | .ok v => Sexp.ofBool v
          | .error e => errTo e
        runOps s rest (o :: acc)
      | _, _ => none
    | .list [.atom "explain", a, b] =>
      match a.toNat?, b.toNat? with
      | some a, some b =>
        let o := match explainTop s a b with
          | .ok r => resTo r
          | .error e => errTo e
        runOps s rest (o :: acc)
      | _, _ => none
    | _ => none

partial def termOf : Sexp → Option Term
  | .atom a => (a.toNat?).map Term.atom
  | .list [f, x] => do some (.app (← termOf f) (← termOf x))
  | _ => none

partial def termTo : Term → Sexp
  | .atom n => Sexp.ofNat n
  | .app f x => .list [termTo f, termTo x]

def tabOf (w : WState) : Sexp :=
  let ks := sortNats (w.index.map (·.1))
  .list (.atom "tab" :: ks.filterMap fun k => (aget w.index k).map fun t => .list [Sexp.ofNat k, termTo t])

def runHol : WState → List Sexp → List Sexp → Option (List Sexp)
  | _, [], acc => some acc.reverse
  | w, op :: rest, acc =>
    match op with
    | .list [.atom "add", s] =>
      match termOf s with
      | some s => let w' := (addTerm s w).1; runHol w' rest (tabOf w' :: acc)
      | none => none
    | .list [.atom "merge", s, t] =>
      match termOf s, termOf t with
      | some s, some t => let w' := wmerge w s t; runHol w' rest (tabOf w' :: acc)
      | _, _ => none
    | .list [.atom "test", s, t] =>
      match termOf s, termOf t with
      | some s, some t =>
        let r := wtest w s t
        let o := match r.2 with
          | .ok v => Sexp.ofBool v
          | .error e => errTo e
        runHol r.1 rest (.list [o, tabOf r.1] :: acc)
      | _, _ => none
    | .list [.atom "explain", s, t] =>
      match termOf s, termOf t with
      | some s, some t =>
        let r := wexplain w s t
        let o := match r.2 with
          | .ok v => resTo v
          | .error e => errTo e
        runHol r.1 rest (.list [o, tabOf r.1] :: acc)
      | _, _ => none
    | _ => none

partial def pfOf : Sexp → Option EqPf
  | .list [.atom "assume", s, t] => do some (.hyp (← termOf s) (← termOf t))
  | .list [.atom "gap", s, t] => do some (.gap (← termOf s) (← termOf t))
  | .list [.atom "reflexive", t] => do some (.refl (← termOf t))
  | .list [.atom "symmetric", p] => do some (.symm (← pfOf p))
  | .list [.atom "transitive", p, q] => do some (.trans (← pfOf p) (← pfOf q))
  | .list [.atom "combination", p, q] => do some (.comb (← pfOf p) (← pfOf q))
  | _ => none

def pfTo : EqPf → Sexp
  | .hyp s t => .list [.atom "assume", termTo s, termTo t]
  | .gap s t => .list [.atom "gap", termTo s, termTo t]
  | .refl t => .list [.atom "reflexive", termTo t]
  | .symm p => .list [.atom "symmetric", pfTo p]
  | .trans p q => .list [.atom "transitive", pfTo p, pfTo q]
  | .comb p q => .list [.atom "combination", pfTo p, pfTo q]

def runHolP : PState → List Sexp → List Sexp → Option (List Sexp)
  | _, [], acc => some acc.reverse
  | p, op :: rest, acc =>
    match op with
    | .list [.atom "add", s] =>
      match termOf s with
      | some s => runHolP (applyPOp p (.add s)) rest (.atom "ok" :: acc)
      | none => none
    | .list [.atom "merge", s, t, pt] =>
      match termOf s, termOf t with
      | some s, some t =>
        match pt with
        | .atom "-" => runHolP (pmerge p s t none) rest (.atom "ok" :: acc)
        | _ =>
          match pfOf pt with
          | some q => runHolP (pmerge p s t (some q)) rest (.atom "ok" :: acc)
          | none => none
      | _, _ => none
    | .list [.atom "test", s, t] =>
      match termOf s, termOf t with
      | some s, some t => runHolP (applyPOp (applyPOp p (.add s)) (.add t)) rest (.atom "ok" :: acc)
      | _, _ => none
    | .list [.atom "explain", s, t] =>
      match termOf s, termOf t with
      | some s, some t =>
        let r := pexplain p s t
        let o := match r.2 with
          | .ok v => pfTo v.2
          | .error e => errTo e
        runHolP r.1 rest (o :: acc)
      | _, _ => none
    | _ => none

def handle (line : String) : String :=
  match Sexp.parse line with
  | some (.list (.atom "holp" :: hops)) =>
    match runHolP PState.init hops [] with
    | some outs => toString (Sexp.list outs)
    | none => "bad-op"
  | some (.list (.atom "hol" :: hops)) =>
    match runHol WState.init hops [] with
    | some outs => toString (Sexp.list outs)
    | none => "bad-op"
  | some (.list ops) =>
    match runOps State.init ops [] with
    | some outs => toString (Sexp.list outs)
    | none => "bad-op"
  | _ => "bad-op"

end Holpy.C17.Driver

def main : IO Unit := Holpy.lineLoop Holpy.C17.Driver.handle
