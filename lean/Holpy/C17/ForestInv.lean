import Holpy.C17.ForestRank
import Holpy.C17.CompleteFinal
/-
C17 — helper lemmas, part 13: the proof-forest invariant (keys, parents in the same class, acyclic,
one root per class, never stuck) and its preservation by a union.
-/
namespace Holpy.C17

structure ForestInv (s : State) : Prop where
  keys : ∀ c, Dom s c ↔ ∃ e, aget s.forest c = some e
  par : ∀ c p l, aget s.forest c = some (some (p, l)) → Dom s p ∧ repOf s c = repOf s p
  ranked : ∃ d : Cst → Nat, ∀ c p l, aget s.forest c = some (some (p, l)) → d p < d c
  roots : ∀ x y, aget s.forest x = some none → aget s.forest y = some none → repOf s x = repOf s y → x = y
  notstuck : s.stuck = false

theorem ForestInv.parKey {s : State} (F : ForestInv s) :
    ∀ c p l, aget s.forest c = some (some (p, l)) → (aget s.forest p).isSome := by
  intro c p l h
  obtain ⟨e, he⟩ := (F.keys p).1 (F.par c p l h).1
  simp [he]

/-- Every walk to the root finishes within `len(proof_forest)` steps. -/
theorem ForestInv.complete {s : State} (F : ForestInv s) (x : Cst) :
    pathComplete s.forest s.forest.length x = true := by
  obtain ⟨d, hd⟩ := F.ranked
  exact pathComplete_of_ranked _ d hd F.parKey _ _ (below_le _ _ _)

/-- The node a complete walk from an entered constant ends in is the root of its class. -/
theorem ForestInv.end_root {s : State} (F : ForestInv s) {x : Cst} (dx : Dom s x) :
    aget s.forest (endOf x (pathGo s.forest s.forest.length x)) = some none ∧
    repOf s (endOf x (pathGo s.forest s.forest.length x)) = repOf s x := by
  have hc := pathGo_isChain s.forest s.forest.length x
  have hall := chain_all s.forest (fun v => Dom s v ∧ repOf s v = repOf s x) _ x hc ⟨dx, rfl⟩
    (fun c p l h hcp => ⟨(F.par c p l h).1, by rw [← (F.par c p l h).2]; exact hcp.2⟩)
  have hm := endOf_mem x (pathGo s.forest s.forest.length x)
  have hz : Dom s (endOf x (pathGo s.forest s.forest.length x)) ∧
      repOf s (endOf x (pathGo s.forest s.forest.length x)) = repOf s x := by
    simp only [List.mem_cons] at hm
    rcases hm with hm | hm
    · rw [hm]; exact ⟨dx, rfl⟩
    · exact hall _ hm
  refine ⟨?_, hz.2⟩
  obtain ⟨e, he⟩ := (F.keys _).1 hz.1
  cases e with
  | none => exact he
  | some q => exact absurd he (pathGo_end _ _ _ (F.complete x) q)

theorem forest_union {s s' : State} {a b ra rb : Cst} {lab : Label} (F : ForestInv s)
    (hf : s'.forest = addEdge s.forest a b lab)
    (hrep : ∀ c, repOf s' c = if repOf s c = ra then rb else repOf s c)
    (hdom : ∀ c, Dom s' c ↔ Dom s c)
    (hstuck : s'.stuck = (s.stuck || !pathComplete s.forest s.forest.length a))
    (da : Dom s a) (db : Dom s b) (hra : repOf s a = ra) (hrb : repOf s b = rb) (hne : ra ≠ rb) :
    ForestInv s' := by
  obtain ⟨d, hd⟩ := F.ranked
  have hc := pathGo_isChain s.forest s.forest.length a
  have mono : ∀ x y, repOf s x = repOf s y → repOf s' x = repOf s' y := by
    intro x y h; rw [hrep, hrep, h]
  have pn : ∀ v ∈ nodes (pathGo s.forest s.forest.length a), Dom s v ∧ repOf s v = ra ∧ d v ≤ d a :=
    chain_all s.forest (fun v => Dom s v ∧ repOf s v = ra ∧ d v ≤ d a) _ a hc ⟨da, hra, Nat.le_refl _⟩
      (fun c p l h hcp => ⟨(F.par c p l h).1, by rw [← (F.par c p l h).2]; exact hcp.2.1,
        Nat.le_trans (Nat.le_of_lt (hd c p l h)) hcp.2.2⟩)
  have pn' : ∀ v ∈ a :: nodes (pathGo s.forest s.forest.length a), Dom s v ∧ repOf s v = ra ∧ d v ≤ d a := by
    intro v hv
    simp only [List.mem_cons] at hv
    rcases hv with hv | hv
    · subst hv; exact ⟨da, hra, Nat.le_refl _⟩
    · exact pn v hv
  have get : ∀ v, aget s'.forest v =
      match revFind a (pathGo s.forest s.forest.length a) v with
      | some r => some (some r)
      | none => if a = v then some (some (b, lab)) else aget s.forest v := by
    intro v; rw [hf]; exact addEdge_get _ _ _ _ _
  have hz := F.end_root da
  have hzm := endOf_mem a (pathGo s.forest s.forest.length a)
  generalize pathGo s.forest s.forest.length a = path at hc pn pn' get hz hzm
  have hb_notin : b ∉ a :: nodes path := fun h => hne ((pn' b h).2.1.symm.trans hrb)
  refine ⟨?_, ?_, ?_, ?_, ?_⟩
  · -- keys
    intro v
    rw [hdom, get v]
    cases hrf : revFind a path v with
    | some r =>
      obtain ⟨q, l⟩ := r
      have := (revFind_spec s.forest path a v q l hc hrf).2.2
      simp only
      exact ⟨fun _ => ⟨_, rfl⟩, fun _ => (pn v this).1⟩
    | none =>
      simp only
      by_cases hav : a = v
      · subst hav; simp only [if_true]; exact ⟨fun _ => ⟨_, rfl⟩, fun _ => da⟩
      · simp only [hav, if_false]; exact F.keys v
  · -- par
    intro v q l h
    rw [get v] at h
    cases hrf : revFind a path v with
    | some r =>
      rw [hrf] at h
      simp only [Option.some.injEq] at h
      subst h
      obtain ⟨h1, h2, h3⟩ := revFind_spec s.forest path a v q l hc hrf
      exact ⟨(hdom q).2 (pn' q h2).1, (mono _ _ (F.par q v l h1).2).symm⟩
    | none =>
      rw [hrf] at h
      simp only at h
      by_cases hav : a = v
      · subst hav
        simp only [if_true, Option.some.injEq, Prod.mk.injEq] at h
        obtain ⟨hq, hl⟩ := h
        subst hq hl
        refine ⟨(hdom b).2 db, ?_⟩
        rw [hrep, hrep, hra, hrb]; simp [hne.symm]
      · simp only [hav, if_false] at h
        exact ⟨(hdom q).2 (F.par v q l h).1, mono _ _ (F.par v q l h).2⟩
  · -- ranked
    refine ⟨fun v => if v ∈ a :: nodes path then (d b + d a + 1) - d v
                     else if repOf s v = ra then (d b + d a + 1) + d v else d v, ?_⟩
    intro v q l h
    rw [get v] at h
    cases hrf : revFind a path v with
    | some r =>
      rw [hrf] at h
      simp only [Option.some.injEq] at h
      subst h
      obtain ⟨h1, h2, h3⟩ := revFind_spec s.forest path a v q l hc hrf
      have hv : v ∈ a :: nodes path := List.mem_cons_of_mem _ h3
      have := hd q v l h1
      have b1 := (pn' q h2).2.2
      have b2 := (pn' v hv).2.2
      simp only [h2, hv, if_true]
      omega
    | none =>
      rw [hrf] at h
      simp only at h
      by_cases hav : a = v
      · subst hav
        simp only [if_true, Option.some.injEq, Prod.mk.injEq] at h
        obtain ⟨hq, hl⟩ := h
        subst hq hl
        have ha : a ∈ a :: nodes path := by simp
        have hbr : ¬ repOf s b = ra := by rw [hrb]; exact hne.symm
        simp only [hb_notin, ha, if_true, if_false, hbr]
        omega
      · simp only [hav, if_false] at h
        have hvn : v ∉ a :: nodes path := by
          intro hv
          simp only [List.mem_cons] at hv
          rcases hv with hv | hv
          · exact hav hv.symm
          · obtain ⟨r, hr⟩ := revFind_mem s.forest path a v hc hv
            rw [hrf] at hr; cases hr
        have hlt := hd v q l h
        have hcl := (F.par v q l h).2
        by_cases hva : repOf s v = ra
        · have hqa : repOf s q = ra := by rw [← hcl]; exact hva
          by_cases hq : q ∈ a :: nodes path
          · have := (pn' q hq).2.2
            simp only [hvn, hq, hva, if_true, if_false]
            omega
          · simp only [hvn, hq, hva, hqa, if_true, if_false]
            omega
        · have hqa : repOf s q ≠ ra := by rw [← hcl]; exact hva
          have hq : q ∉ a :: nodes path := fun hq => hqa (pn' q hq).2.1
          simp only [hvn, hq, hva, hqa, if_false]
          exact hlt
  · -- roots
    have root_old : ∀ x, aget s'.forest x = some none → aget s.forest x = some none ∧ x ∉ a :: nodes path := by
      intro x hx
      rw [get x] at hx
      cases hrf : revFind a path x with
      | some r => rw [hrf] at hx; cases hx
      | none =>
        rw [hrf] at hx
        simp only at hx
        by_cases hax : a = x
        · simp [hax] at hx
        · simp only [hax, if_false] at hx
          refine ⟨hx, ?_⟩
          intro hv
          simp only [List.mem_cons] at hv
          rcases hv with hv | hv
          · exact hax hv.symm
          · obtain ⟨r, hr⟩ := revFind_mem s.forest path a x hc hv
            rw [hrf] at hr; cases hr
    -- the old root of the class of `a` lies on the path
    have old_root_on_path : ∀ x, aget s.forest x = some none → repOf s x = ra → x ∈ a :: nodes path := by
      intro x hx hxa
      have : x = endOf a path := F.roots _ _ hx hz.1 (by rw [hz.2, hra, hxa])
      rw [this]; exact hzm
    intro x y hx hy hxy
    obtain ⟨hx0, hxn⟩ := root_old x hx
    obtain ⟨hy0, hyn⟩ := root_old y hy
    by_cases h : repOf s x = repOf s y
    · exact F.roots x y hx0 hy0 h
    · rw [hrep, hrep] at hxy
      by_cases hxa : repOf s x = ra
      · exact absurd (old_root_on_path x hx0 hxa) hxn
      · by_cases hya : repOf s y = ra
        · exact absurd (old_root_on_path y hy0 hya) hyn
        · simp only [hxa, hya, if_false] at hxy
          exact absurd hxy h
  · rw [hstuck, F.notstuck, F.complete a]; rfl

end Holpy.C17
