import Holpy.C17.HolModel
/-
C17 — specification vocabulary for the HOL wrapper (definitions only).
* `weqs wops`: the term equations merged by a sequence of wrapper calls.
* `TCl E`: the congruence closure of a set of term equations (derivability by reflexivity, symmetry,
  transitivity and congruence of application).
* `Entails E l r`: `l = r` holds in every model of `E` -- every domain with a binary application and
  any interpretation of the atoms, equality being a congruence there by construction.
-/
namespace Holpy.C17

def weqs (wops : List WOp) : Term → Term → Prop := fun s t => WOp.merge s t ∈ wops

inductive TCl (E : Term → Term → Prop) : Term → Term → Prop where
  | base {s t} : E s t → TCl E s t
  | refl (t) : TCl E t t
  | symm {s t} : TCl E s t → TCl E t s
  | trans {s t u} : TCl E s t → TCl E t u → TCl E s u
  | app {f f' x x'} : TCl E f f' → TCl E x x' → TCl E (.app f x) (.app f' x')

/-- The value of a term in a structure `(D, ap, atm)`. -/
def Term.eval {D : Type} (ap : D → D → D) (atm : Nat → D) : Term → D
  | .atom n => atm n
  | .app f x => ap (Term.eval ap atm f) (Term.eval ap atm x)

/-- `l = r` is true in every structure in which all equations of `E` are true. -/
def Entails (E : Term → Term → Prop) (l r : Term) : Prop :=
  ∀ (D : Type) (ap : D → D → D) (atm : Nat → D),
    (∀ s t, E s t → Term.eval ap atm s = Term.eval ap atm t) → Term.eval ap atm l = Term.eval ap atm r

end Holpy.C17
