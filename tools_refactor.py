#!/venv/bin/python
"""Run a check against a behaviour-preserving refactoring of /repo (false-alarm test).

  tools_refactor.py <refactor_dir> <Cxx> <id>

<refactor_dir> holds patch.diff and note.md, written by an independent sub-agent that saw only the
property text and was asked for a harmless clean-up of the anchored code (600 baseline tests unchanged).
The patch is applied in a scratch worktree of /repo (never /repo itself), the baseline is re-run there,
and `HOLPY_REPO=<scratch> ./check Cxx` is run from a scratch worktree of /verif.  Expected: exit 0.
An exit 1 ending in no-failing-input-found is the outcome the brief allows for a harmless rewrite that
breaks the tie to the model; an exit 1 with a concrete input would be a false alarm (or the refactoring
is not harmless after all) and is looked at by hand.  Results: /verif/refactors/<id>/{patch.diff,note.md,meta.json}.
"""
import json, os, shutil, subprocess, sys, time

VERIF = os.path.dirname(os.path.abspath(__file__))
PY = "/venv/bin/python"


def sh(cmd, cwd=None, env=None, timeout=7200):
    e = dict(os.environ)
    if env:
        e.update(env)
    p = subprocess.run(cmd, cwd=cwd, env=e, capture_output=True, text=True, timeout=timeout)
    return p.returncode, p.stdout + p.stderr


def main():
    rdir, prop, rid = sys.argv[1], sys.argv[2].upper(), sys.argv[3]
    scratch = "/tmp/s/%s" % rid
    sv = os.environ.get("SEEDED_SV", "/tmp/sv")
    os.makedirs("/tmp/s", exist_ok=True)
    sh(["git", "-C", "/repo", "worktree", "remove", "--force", scratch])
    rc, out = sh(["git", "-C", "/repo", "worktree", "add", "--detach", scratch])
    assert rc == 0, out
    meta = {"property": prop, "id": rid, "kind": "behaviour-preserving refactoring",
            "source": "independent sub-agent given only the property text and a scratch worktree", "ran": []}
    try:
        rc, out = sh(["git", "apply", os.path.abspath(os.path.join(rdir, "patch.diff"))], cwd=scratch)
        if rc != 0:
            print("patch does not apply:", out[:300])
            return
        skip_base = "--no-baseline" in sys.argv
        if not skip_base:
            rcb, outb = sh([PY, os.path.join(VERIF, "tools_baseline.py"), scratch])
            meta["baseline_with_change"] = {"exit": rcb, "summary": outb.strip().splitlines()[:6]}
            meta["ran"].append("tools_baseline.py (600 stable_pass tests)")
        if not os.path.exists(sv):
            rc, out = sh(["git", "-C", VERIF, "worktree", "add", "--detach", sv])
            assert rc == 0, out
        sh(["git", "checkout", "--detach", "-f", "main"], cwd=sv)
        sh(["git", "clean", "-fdq", "-e", "lean/.lake"], cwd=sv)
        t = time.time()
        rcc, outc = sh(["./check", prop], cwd=sv, env={"HOLPY_REPO": scratch})
        lines = [l for l in outc.splitlines() if l.startswith("VIOLATION") or l.startswith("KNOWN-FINDING")]
        broken = [l[:400] for l in outc.splitlines() if " BROKEN " in l][:6]
        meta["check"] = {"cmd": "HOLPY_REPO=<scratch with refactoring> ./check %s --tier quick" % prop, "exit": rcc,
                         "lines": lines[:8], "broken": broken, "wall_s": round(time.time() - t, 1),
                         "verif_commit": sh(["git", "rev-parse", "--short", "HEAD"], cwd=sv)[1].strip()}
        viol = [l for l in lines if l.startswith("VIOLATION")]
        meta["result"] = ("quiet (exit 0)" if rcc == 0 and not viol else
                          "tie broken, no failing input (allowed)" if viol and all("no-failing-input-found" in l for l in viol) else
                          "machinery error (exit %d)" % rcc if rcc not in (0, 1) else
                          "ALARM with a concrete input")
        for l in viol:
            rp = l.split("replay=")[1].split()[0]
            src = os.path.join(sv, rp)
            if os.path.exists(src):
                meta["check"]["first_replay"] = open(src).read()[:3000]
            break
        meta["ran"].append(meta["check"]["cmd"])
    finally:
        sh(["git", "-C", "/repo", "worktree", "remove", "--force", scratch])
    out_dir = os.path.join(VERIF, "refactors", rid)
    os.makedirs(out_dir, exist_ok=True)
    for fn in ("patch.diff", "note.md"):
        src = os.path.join(rdir, fn)
        if os.path.exists(src) and os.path.abspath(rdir) != os.path.abspath(out_dir):
            shutil.copy(src, os.path.join(out_dir, fn))
    old = os.path.join(out_dir, "meta.json")
    hist = []
    if os.path.exists(old):
        try:
            o = json.load(open(old))
            hist = o.get("history", []) + [{"verif_commit": o.get("check", {}).get("verif_commit"), "result": o.get("result")}]
        except Exception:
            pass
    meta["history"] = hist
    json.dump(meta, open(old, "w"), indent=1, ensure_ascii=False)
    print(rid, prop, meta.get("result"))
    print("\n".join(meta.get("check", {}).get("lines", []) + meta.get("check", {}).get("broken", [])))


if __name__ == "__main__":
    main()
