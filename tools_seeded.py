#!/venv/bin/python
"""Confirm a seeded change and run a check against it.

  tools_seeded.py <mutant_dir> <Cxx> <seeded_id> [--tier quick|thorough] [--keep]

<mutant_dir> holds patch.diff, demo.py, note.md (written by an independent sub-agent that saw only
the property text).  Steps, all in a scratch worktree of /repo (never /repo itself, other work reads it):
 1. demo.py on the unchanged tree must PASS, with the patch applied must FAIL;
 2. the baseline suite with the patch applied must keep all 600 stable_pass tests;
 3. `HOLPY_REPO=<scratch> ./check Cxx` is run from a scratch worktree of /verif (so generated Lean
    files of the mutated tree never touch the main checkout) and its verdict recorded.
Results go to /verif/seeded/<seeded_id>/ (patch.diff, demo.py, note.md, meta.json).
"""
import json, os, shutil, subprocess, sys, time

VERIF = os.path.dirname(os.path.abspath(__file__))
PY = "/venv/bin/python"


def sh(cmd, cwd=None, env=None, timeout=3600):
    e = dict(os.environ)
    if env:
        e.update(env)
    p = subprocess.run(cmd, cwd=cwd, env=e, shell=isinstance(cmd, str), capture_output=True, text=True, timeout=timeout)
    return p.returncode, p.stdout + p.stderr


def main():
    args = [a for a in sys.argv[1:] if not a.startswith("--")]
    tier = "quick"
    if "--tier" in sys.argv:
        tier = sys.argv[sys.argv.index("--tier") + 1]
        args = [a for a in args if a != tier]
    mdir, prop, sid = args[0], args[1].upper(), args[2]
    scratch = "/tmp/s/%s" % sid
    sv = os.environ.get("SEEDED_SV", "/tmp/sv")
    prior = None
    pm = os.path.join(VERIF, "seeded", sid, "meta.json")
    if os.path.abspath(mdir) == os.path.join(VERIF, "seeded", sid) and os.path.exists(pm):
        prior = json.load(open(pm))      # a re-run of a change confirmed earlier: only the check is run again
        if not prior.get("confirmed"):
            prior = None
    os.makedirs("/tmp/s", exist_ok=True)
    sh(["git", "-C", "/repo", "worktree", "remove", "--force", scratch])
    rc, out = sh(["git", "-C", "/repo", "worktree", "add", "--detach", scratch])
    assert rc == 0, out
    meta = {"property": prop, "id": sid, "source": "independent sub-agent given only the property text and a scratch worktree",
            "ran": []}
    try:
        demo = os.path.join(mdir, "demo.py")
        patch = os.path.join(mdir, "patch.diff")
        os.makedirs(os.path.join(scratch, "mutants", "x"), exist_ok=True)
        shutil.copy(demo, os.path.join(scratch, "mutants", "x", "demo.py"))
        env = {"PYTHONPATH": scratch}
        rc0, out0 = sh([PY, "mutants/x/demo.py"], cwd=scratch, env=env, timeout=1800)
        meta["demo_unchanged"] = {"exit": rc0, "tail": out0[-300:]}
        rc, out = sh(["git", "apply", os.path.abspath(patch)], cwd=scratch)
        if rc != 0:
            # the code the change edits has since been rewritten by a fix: keep the recorded result
            print("patch no longer applies to the current tree; recorded result kept:", out[:300])
            mp = os.path.join(VERIF, "seeded", sid, "meta.json")
            if os.path.exists(mp):
                m = json.load(open(mp))
                m["no_longer_applies"] = "patch.diff does not apply to /repo at %s (the edited code was rewritten by a later fix)" % sh(["git", "-C", "/repo", "rev-parse", "--short", "HEAD"])[1].strip()
                json.dump(m, open(mp, "w"), indent=1, ensure_ascii=False)
            return
        rc1, out1 = sh([PY, "mutants/x/demo.py"], cwd=scratch, env=env, timeout=1800)
        meta["demo_with_change"] = {"exit": rc1, "tail": out1[-300:]}
        meta["ran"].append("demo.py before/after")
        if prior is not None:
            meta["baseline_with_change"] = prior.get("baseline_with_change")
            meta["ran"].append("tools_baseline.py (600 stable_pass tests) when the change was first confirmed")
            rcb = 0
        else:
            rcb, outb = sh([PY, os.path.join(VERIF, "tools_baseline.py"), scratch], timeout=3600)
            meta["baseline_with_change"] = {"exit": rcb, "summary": outb.strip().splitlines()[:6]}
            meta["ran"].append("tools_baseline.py (600 stable_pass tests)")
        meta["confirmed"] = (rc0 == 0 and rc1 != 0 and rcb == 0)
        # the check, from a scratch worktree of /verif at main's HEAD
        if not os.path.exists(sv):
            rc, out = sh(["git", "-C", VERIF, "worktree", "add", "--detach", sv])
            assert rc == 0, out
        sh(["git", "checkout", "--detach", "-f", "main"], cwd=sv)
        sh(["git", "clean", "-fdq", "-e", "lean/.lake"], cwd=sv)
        t = time.time()
        rcc, outc = sh(["./check", prop, "--tier", tier], cwd=sv, env={"HOLPY_REPO": scratch}, timeout=7200)
        lines = [l for l in outc.splitlines() if l.startswith("VIOLATION") or l.startswith("KNOWN-FINDING")]
        meta["check"] = {"cmd": "HOLPY_REPO=<scratch with change> ./check %s --tier %s" % (prop, tier), "exit": rcc,
                         "lines": lines[:8], "wall_s": round(time.time() - t, 1),
                         "verif_commit": sh(["git", "rev-parse", "--short", "HEAD"], cwd=sv)[1].strip()}
        meta["detected"] = rcc == 1 and any(l.startswith("VIOLATION") for l in lines)
        meta["detected_with_concrete_input"] = meta["detected"] and not all("no-failing-input-found" in l for l in lines if l.startswith("VIOLATION"))
        # keep the first replay file for the record
        for l in lines:
            if l.startswith("VIOLATION") and "replay=" in l:
                rp = l.split("replay=")[1].split()[0]
                src = os.path.join(sv, rp)
                if os.path.exists(src):
                    with open(src) as f:
                        meta["check"]["first_replay"] = f.read()[:3000]
                break
        meta["ran"].append(meta["check"]["cmd"])
    finally:
        if "--keep" not in sys.argv:
            sh(["git", "-C", "/repo", "worktree", "remove", "--force", scratch])
    out_dir = os.path.join(VERIF, "seeded", sid)
    os.makedirs(out_dir, exist_ok=True)
    for fn in ("patch.diff", "demo.py", "note.md"):
        if os.path.exists(os.path.join(mdir, fn)) and os.path.abspath(mdir) != os.path.abspath(out_dir):
            shutil.copy(os.path.join(mdir, fn), os.path.join(out_dir, fn))
    note = ""
    if os.path.exists(os.path.join(mdir, "note.md")):
        note = open(os.path.join(mdir, "note.md")).read()
    meta["needs_to_manifest"] = note[:1500]
    # earlier runs of the same change against older revisions of the check (what was missed, then strengthened)
    hist = []
    old = os.path.join(out_dir, "meta.json")
    if os.path.exists(old):
        try:
            o = json.load(open(old))
            hist = o.get("history", [])
            oc = o.get("check", {})
            hist.append({"verif_commit": oc.get("verif_commit"), "check": o.get("property"),
                         "result": "concrete input" if o.get("detected_with_concrete_input") else
                                   ("no-failing-input-found" if o.get("detected") else "MISSED")})
        except Exception:
            pass
    meta["history"] = hist
    with open(os.path.join(out_dir, "meta.json"), "w") as f:
        json.dump(meta, f, indent=1, ensure_ascii=False)
    print(json.dumps({k: meta.get(k) for k in ("id", "property", "confirmed", "detected", "detected_with_concrete_input")}, indent=1))
    print("\n".join(meta.get("check", {}).get("lines", [])))


if __name__ == "__main__":
    main()
