#!/venv/bin/python
"""Pin the property theorems: writes lean/theorems.lock.json = {Cxx: {theorem: sha256(statement)}} from
lean/Holpy/Cxx/Props*.lean.  Every check compares the theorems it audits with this lock: a theorem
that disappeared or whose STATEMENT changed is reported as a broken obligation (so a statement is
never quietly weakened).  Re-run after deliberately changing Props files."""
import glob, hashlib, json, os, re, sys
HERE = os.path.dirname(os.path.abspath(__file__))
sys.path.insert(0, HERE)
from harness.common.ctx import strip_lean_comments, theorem_statements
lock = {}
for d in sorted(glob.glob(os.path.join(HERE, "lean", "Holpy", "C[0-9][0-9]"))):
    pid = os.path.basename(d)
    entry = {}
    for f in sorted(glob.glob(os.path.join(d, "Props*.lean"))):
        entry.update(theorem_statements(open(f, encoding="utf-8").read()))
    if entry:
        lock[pid] = entry
json.dump(lock, open(os.path.join(HERE, "lean", "theorems.lock.json"), "w"), indent=1, sort_keys=True)
print("locked", sum(len(v) for v in lock.values()), "theorems of", len(lock), "properties")
